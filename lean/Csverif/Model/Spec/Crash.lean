import Csverif.Model.Spec.Sync
/-
C07 — crash consistency.  Two small executable objects (no Mathlib):

(1) The EFFECT-LOG specification.  A run of the engine is a list of numbered effects, in program order:
      * a write to the persistent storage: an entry row created / updated / deleted (`SyncState._storage_update`,
        state.py:1094-1111, called for every dirty entry by `storage_commit`, 1088-1092), the stored event cursor of a side
        (`EventManager._save_current_cursor`, event.py:244-249, and `_do_first_init`, 207-211), the stored walk marker of a side
        (`_do_walk_if_needed`, event.py:204), or a write to an unrelated tag;
      * a provider write on a side, by the engine (create/upload/mkdir/rename/delete issued by the sync manager) or by a user,
        with the content version it PUT there, if any;
      * "event `idx` of side `s` is handled": `_process_event` returned and the entry the event touched is no longer dirty and
        HAS a stored row (event.py:311-314 commits at the end of every processed event; the harness reads the entry's row id and
        checks the row exists), or the event needs no row (root filter dropped it / no entry / trash entry).
    `check` replays a log through `step` and rejects it when the write ordering the property rests on is broken:
      (a) a cursor write may only store a cursor all of whose events are handled (or covered by a completed walk) — unless the
          walk marker of that side is not stored yet, in which case a restart walks everything again (event.py:123);
      (b) a storage row may record content `X` as synced on a side (`sync_hash`) only after a provider write put `X` on that side;
      (c) row ids: create allocates a fresh id, update hits an existing row (both storage backends raise otherwise);
      (d) an event only counts as handled if the row holding its state effect IS in storage at that moment (an entry that exists
          only in memory is lost by a crash while the cursor has moved past its event).
    The state `St` the replay computes is the abstract storage (rows with their claims, stored cursors, walk markers) plus the
    history summary needed to judge it (`puts`, `handled`, `base`).  `Consistent` is "storage never claims unreflected work".
    A crash truncates the log: before a storage effect, or right after an engine provider effect.

(2) The decision logic by which a half-recorded transfer is RECOGNISED after a restart, modelled branch by branch:
      `_create_synced` (manager.py:698-733) + `create_synced` (750-781): create raises "exists", `info_path` finds an object,
      `hash_data` of the temp file equals `info.hash` → the object is adopted exactly as if it had just been created;
      `handle_split_conflict` (1634-1655): equal hashes merge the two entries without calling the resolver.

The harness (harness/c07_crash.py) produces the log from the real engine (storage wrapper + provider call trace) and the driver
layer `monc07` (Driver/MonC07.lean) executes these very definitions.
-/
namespace CS.Spec.Crash

/-- `false` = local (side 0), `true` = remote (side 1) -/
abbrev Side := Bool

/-- one effect.  Event indices and cursors are the provider's, shifted by one (the mock's cursor starts at -1):
    cursor `c` = "events 1..c consumed", event index `i ≥ 1`. -/
inductive Eff where
  | rowCreate (eid : Nat) (cl cr : Option Nat)     -- storage.create(state tag, row); cl/cr: content recorded as synced on L/R
  | rowUpdate (eid : Nat) (cl cr : Option Nat)     -- storage.update(state tag, row, eid)
  | rowDelete (eid : Nat)                          -- storage.delete(state tag, eid)
  | cursorWrite (s : Side) (c : Nat)               -- storage create/update of the side's cursor tag
  | walkWrite (s : Side)                           -- storage create/update of the side's walk marker
  | otherWrite                                     -- a storage write to any other tag
  | providerWrite (s : Side) (engine : Bool) (put : Option Nat)   -- successful mutating provider call; `put` = content it left there
  | eventApplied (s : Side) (idx : Nat) (row : Option Nat)
      -- event handled: its state effect is committed in stored row `row` (`none`: it needs no row — dropped by the root filter,
      -- ignored, or its entry is trash)
  deriving Repr, DecidableEq

/-- a numbered effect (the number is its position in the run) -/
structure NEff where
  n : Nat
  e : Eff
  deriving Repr, DecidableEq

abbrev Log := List NEff

def Eff.isStorageWrite : Eff → Bool
  | .rowCreate .. | .rowUpdate .. | .rowDelete .. | .cursorWrite .. | .walkWrite .. | .otherWrite => true
  | _ => false

def Eff.isEngineProviderWrite : Eff → Bool
  | .providerWrite _ true _ => true
  | _ => false

/-- per side: what was ever put there, which events are handled, what the storage holds for it -/
structure SideSt where
  puts : List Nat          -- content versions some provider write (user or engine) left on this side, ever
  handled : List Nat       -- indices of handled events
  base : Nat               -- events ≤ base are covered by a completed walk
  cursor : Option Nat      -- STORED cursor
  walked : Bool            -- STORED walk marker
  deriving Repr, DecidableEq

/-- a stored entry row, reduced to what it claims -/
structure Row where
  eid : Nat
  cl : Option Nat
  cr : Option Nat
  deriving Repr, DecidableEq

structure St where
  next : Nat               -- number of the next effect
  rows : List Row          -- STORED rows
  l : SideSt
  r : SideSt
  deriving Repr, DecidableEq

def SideSt.init : SideSt := ⟨[], [], 0, none, false⟩
def St.init : St := ⟨0, [], .init, .init⟩

def St.side (st : St) (s : Side) : SideSt := if s then st.r else st.l
def St.setSide (st : St) (s : Side) (x : SideSt) : St := if s then { st with r := x } else { st with l := x }

/-- every event up to `c` is handled or covered by the walk -/
def SideSt.covered (x : SideSt) (c : Nat) : Bool :=
  (List.range (c + 1)).all (fun i => decide (i ≤ x.base) || x.handled.contains i)

/-- a claim "content `t` is synced on this side" is backed by an earlier provider write -/
def SideSt.claimOk (x : SideSt) : Option Nat → Bool
  | none => true
  | some t => x.puts.contains t

def St.hasRow (st : St) (eid : Nat) : Bool := st.rows.any (fun r => r.eid == eid)

/-- the write-ordering rule an effect breaks in state `st`, if any (the reason is what the driver prints) -/
def violation (st : St) : Eff → Option String
  | .rowCreate eid cl cr =>
    if st.hasRow eid then some "row-create-reuses-live-id"
    else if !st.l.claimOk cl then some "row-claims-content-before-provider-write local"
    else if !st.r.claimOk cr then some "row-claims-content-before-provider-write remote"
    else none
  | .rowUpdate eid cl cr =>
    if !st.hasRow eid then some "row-update-of-missing-id"
    else if !st.l.claimOk cl then some "row-claims-content-before-provider-write local"
    else if !st.r.claimOk cr then some "row-claims-content-before-provider-write remote"
    else none
  | .cursorWrite s c =>
    if (st.side s).walked && !(st.side s).covered c then some "cursor-ahead-of-committed-events" else none
  | .eventApplied _ _ (some eid) =>
    if !st.hasRow eid then some "event-handled-without-committed-row" else none
  | _ => none

/-- the effect applied to the abstract state -/
def effect (st : St) : Eff → St
  | .rowCreate eid cl cr => { st with rows := ⟨eid, cl, cr⟩ :: st.rows }
  | .rowUpdate eid cl cr => { st with rows := ⟨eid, cl, cr⟩ :: st.rows.filter (fun r => r.eid != eid) }
  | .rowDelete eid => { st with rows := st.rows.filter (fun r => r.eid != eid) }
  | .cursorWrite s c => st.setSide s { st.side s with cursor := some c }
  | .walkWrite s => st.setSide s { st.side s with walked := true, base := max (st.side s).base ((st.side s).cursor.getD 0) }
  | .otherWrite => st
  | .providerWrite s _ put => st.setSide s { st.side s with puts := put.toList ++ (st.side s).puts }
  | .eventApplied s i _ => st.setSide s { st.side s with handled := i :: (st.side s).handled }

/-- one effect against the abstract state; `error` = the write ordering is broken -/
def step (st : St) (e : Eff) : Except String St :=
  match violation st e with
  | some m => .error m
  | none => .ok (effect st e)

/-- a numbered effect: the number must be the position -/
def stepN (st : St) (x : NEff) : Except String St :=
  if x.n != st.next then .error "bad-effect-number"
  else match step st x.e with
    | .ok st' => .ok { st' with next := st.next + 1 }
    | .error m => .error m

def run (st : St) : Log → Except String St
  | [] => .ok st
  | x :: xs =>
    match stepN st x with
    | .ok st' => run st' xs
    | .error m => .error m

/-- the checker the driver runs on the effect log of every real run -/
def check (log : Log) : Bool :=
  match run St.init log with
  | .ok _ => true
  | .error _ => false

/-! ### "storage never claims unreflected work" -/

/-- the stored cursor of a side is never ahead of the events whose effect is committed — once the walk marker is stored
    (before that, a restart walks the whole root again, event.py:123) -/
def SideSt.CursorOk (x : SideSt) : Prop :=
  x.walked = true → ∀ c, x.cursor = some c → ∀ i, i ≤ c → i ≤ x.base ∨ i ∈ x.handled

/-- every content a stored row records as synced was put on that side by an earlier provider write -/
def Row.Reflected (st : St) (row : Row) : Prop :=
  (∀ t, row.cl = some t → t ∈ st.l.puts) ∧ (∀ t, row.cr = some t → t ∈ st.r.puts)

def Consistent (st : St) : Prop :=
  (∀ row ∈ st.rows, row.Reflected st) ∧ st.l.CursorOk ∧ st.r.CursorOk

/-- executable twin of `Consistent` (the driver evaluates it on the state reached at every crash instant) -/
def SideSt.cursorOkB (x : SideSt) : Bool :=
  !x.walked || (match x.cursor with | none => true | some c => x.covered c)

def consistentB (st : St) : Bool :=
  st.rows.all (fun row => st.l.claimOk row.cl && st.r.claimOk row.cr) && st.l.cursorOkB && st.r.cursorOkB

/-- a crash instant: the log is cut before a storage write, or right after an engine provider write -/
def CrashCut (log : Log) (k : Nat) : Prop :=
  (∃ x, log[k]? = some x ∧ x.e.isStorageWrite = true) ∨
  (∃ j x, k = j + 1 ∧ log[j]? = some x ∧ x.e.isEngineProviderWrite = true)

/-- the rows the abstract storage holds, as (id, claimL, claimR), for comparison with what the real storage holds -/
def St.rowTriples (st : St) : List (Nat × Option Nat × Option Nat) := st.rows.map (fun r => (r.eid, r.cl, r.cr))

/-! ### recovery verdict (monitor op `c07`): exactly the property's outcome clause -/

open CS.Spec in
/-- number of user writes of version `t` in the history -/
def writesOf (h : List LEv) (t : Nat) : Nat :=
  (h.filter (fun e => match e with | .write g _ => g == t | _ => false)).length

open CS.Spec in
/-- nothing is duplicated: a side never holds more copies of a version than users wrote -/
def noDup (h : List LEv) (tr : Tree) : Bool := tr.tags.all (fun t => decide (tr.tags.count t ≤ writesOf h t))

open CS.Spec in
def noArtefact (tr : Tree) : Bool := !(tr.any (fun e => isConflicted e.1))

open CS.Spec in
/-- after restart and quiescence: converged, no user content lost, nothing duplicated and, for one-sided histories,
    no '.conflicted' artefact -/
def recovered (h : List LEv) (oneSided : Bool) (l r : Tree) : Bool :=
  converged l r && noLoss h l r && noDup h l && noDup h r && (!oneSided || (noArtefact l && noArtefact r))

/-! ### recognising a half-recorded create (manager.py:698-781) -/

/-- what `provider.create(path, file)` did -/
inductive CreateRes where
  | ok (oid hash : Nat) (path : Option Nat)      -- returned an OInfo (path `none` = falsy path)
  | existsErr                                    -- CloudFileExistsError
  | notFoundErr                                  -- CloudFileNotFoundError
  | nameErr                                      -- CloudFileNameError
  | otherErr                                     -- anything else
  deriving Repr, DecidableEq

/-- an OInfo as far as the code looks at it -/
structure Info where
  oid : Nat
  hash : Nat
  path : Option Nat
  deriving Repr, DecidableEq

inductive Exc where
  | exists | notFound | name | other
  deriving Repr, DecidableEq

/-- what `_create_synced` writes into the entry: peer id, `sync_hash` of the peer, `sync_path` of the peer -/
structure Recorded where
  oid : Nat
  syncHash : Nat
  syncPath : Nat
  deriving Repr, DecidableEq

/-- manager.py:718-733: `sync_hash = info.hash`; `sync_path = info.path if info.path else translated_path`; `oid = info.oid` -/
def record (i : Info) (tp : Nat) : Recorded := ⟨i.oid, i.hash, i.path.getD tp⟩

/-- `_create_synced` (manager.py:698-733).  `ip` = what `info_path(translated_path)` answers, `tempHash` = `hash_data` of the
    temp file holding the changed side's content, `tp` = the translated path. -/
def createSyncedInner (cr : CreateRes) (ip : Option Info) (tempHash tp : Nat) : Except Exc Recorded :=
  match cr with
  | .ok oid hash path => .ok (record ⟨oid, hash, path⟩ tp)
  | .existsErr =>                                        -- 706
    match ip with
    | none => .error .exists                             -- 709-710 `if not info: raise`
    | some i =>
      if tempHash != i.hash then .error .exists          -- 713-714 `if existing_hash != info.hash: raise`
      else .ok (record i tp)                             -- 715 "use existing"
  | .notFoundErr => .error .notFound                     -- 716-717
  | .nameErr => .error .name                             -- 718-719
  | .otherErr => .error .other                           -- 720-722

inductive Ret where
  | finished | punt | raised
  deriving Repr, DecidableEq

/-- outcome of `create_synced`: return value, what was recorded as synced, the "peer guess" written in the exists branch
    (758-775: `sync[synced].oid/hash = info…`, which turns the entry into a hash conflict → a '.conflicted' copy), and whether the
    entry was set aside as irrelevant (file-name error) -/
structure Outcome where
  ret : Ret
  recorded : Option Recorded
  peerGuess : Option (Nat × Nat)
  irrelevant : Bool
  deriving Repr, DecidableEq

/-- `create_synced` (manager.py:750-781); `priority` = `sync.priority` (number of punts so far, may be negative).
    The not-found branch (`handle_cloud_file_not_found_error`, 783-835) is reduced to its return value. -/
def createSynced (cr : CreateRes) (ip : Option Info) (tempHash tp : Nat) (priority : Int) : Outcome :=
  match createSyncedInner cr ip tempHash tp with
  | .ok r => ⟨.finished, some r, none, false⟩                                 -- 753-754
  | .error .notFound => if priority > 5 then ⟨.raised, none, none, false⟩ else ⟨.punt, none, none, false⟩   -- 755-756, 784-785
  | .error .exists =>                                                          -- 757
    if priority > 0 then
      match ip with
      | none => if priority > 1 then ⟨.finished, none, none, true⟩ else ⟨.punt, none, none, false⟩   -- 763-768
      | some i => ⟨.punt, none, some (i.oid, i.hash), false⟩                    -- 769-774
    else ⟨.punt, none, none, false⟩                                            -- 775-777
  | .error .name => ⟨.finished, none, none, true⟩                             -- 778-780
  | .error .other => ⟨.raised, none, none, false⟩

/-- `handle_split_conflict` (manager.py:1634-1655) -/
inductive SplitOut where
  | notDone          -- returned False (download failed / temp vanished)
  | merged           -- same content: entries merged, the duplicate entry discarded, resolver NOT called
  | resolverCalled   -- genuine conflict
  deriving Repr, DecidableEq

def handleSplitConflict (deferIsFile downloadOk tempExists : Bool) (dhash replaceHash : Nat) : SplitOut :=
  if deferIsFile then                                   -- 1635
    if !downloadOk then .notDone                        -- 1636-1637
    else if !tempExists then .notDone                   -- 1650-1651 FileNotFoundError
    else if dhash == replaceHash then .merged           -- 1641-1649
    else .resolverCalled                                -- 1653-1655
  else .resolverCalled

end CS.Spec.Crash
