import Csverif.Model.Spec.Sync
/-
Specification of C20 (on-demand sync) used as the refinement target for runs of the real SmartCloudSync.
The harness records the history (user operations on both sides, request / un-request calls with their outcome),
the set of paths matched by the registered auto-sync predicates, tree snapshots and listing results; the driver
layer `monc20` replays them through the executable definitions below.  No Mathlib.

Histories are over files that are never renamed and whose names are never reused (the generator's
restriction), so a path identifies a file.
-/
namespace CS.Spec.Smart
open CS.Spec

/-- outcome of a request / un-request call as the application saw it -/
inductive Res where
  | ok      -- returned normally
  | nf      -- CloudFileNotFoundError
  | err     -- any other exception
  deriving DecidableEq, Repr

inductive SOp where
  | rcreate (p : RPath) (tag : Nat)
  | rwrite (p : RPath) (tag : Nat)
  | rdelete (p : RPath)
  | rmkdir (p : RPath)
  | lcreate (p : RPath) (tag : Nat)
  | lwrite (p : RPath) (tag : Nat)
  | lmkdir (p : RPath)
  | request (p : RPath) (r : Res)
  | unrequest (p : RPath) (r : Res)
  deriving DecidableEq, Repr

/-- what the property lets the local side hold for a file -/
inductive Status where
  | unreq     -- exists only remotely, never requested (or un-requested): must NOT be present locally
  | req       -- requested by the application: must be present and equal at quiescence
  | loc       -- created locally: always uploaded, stays
  | auto      -- matched by a registered auto-sync predicate, never un-requested: downloaded
  | maybe     -- a request/un-request raised, or an auto-matched file was un-requested: either
  deriving DecidableEq, Repr

def Status.justified : Status → Bool
  | .unreq => false
  | _ => true

def Status.mustHave : Status → Bool
  | .req | .loc | .auto => true
  | _ => false

/-- association-list update -/
def setKey {β : Type} (l : List (RPath × β)) (p : RPath) (v : β) : List (RPath × β) :=
  (l.filter (·.1 != p)) ++ [(p, v)]

def getKey {β : Type} (l : List (RPath × β)) (p : RPath) : Option β := (l.find? (·.1 == p)).map (·.2)

structure St where
  status : List (RPath × Status)
  content : List (RPath × Nat)        -- the content every live file must have on the REMOTE side
  dirs : List RPath
  deriving Repr

def St.init : St := { status := [], content := [], dirs := [] }

def St.st (s : St) (p : RPath) : Status := (getKey s.status p).getD .unreq

def applySOp (auto : List RPath) (s : St) : SOp → St
  | .rcreate p t => { s with content := setKey s.content p t,
                             status := setKey s.status p (if auto.contains p then .auto else .unreq) }
  | .rwrite p t => { s with content := setKey s.content p t }
  | .rdelete p => { s with content := s.content.filter (·.1 != p) }
  | .rmkdir p => { s with dirs := if s.dirs.contains p then s.dirs else s.dirs ++ [p] }
  | .lcreate p t => { s with content := setKey s.content p t, status := setKey s.status p .loc }
  | .lwrite p t => { s with content := setKey s.content p t }
  | .lmkdir p => { s with dirs := if s.dirs.contains p then s.dirs else s.dirs ++ [p] }
  | .request p r =>
    match r with
    | .ok => { s with status := setKey s.status p .req }
    | .nf => s
    | .err => { s with status := setKey s.status p .maybe }
  | .unrequest p r =>
    match s.st p with
    | .req =>
      let st' : Status := match r with
        | .ok => if auto.contains p then .maybe else .unreq
        | _ => .maybe
      { s with status := setKey s.status p st' }
    | .auto => { s with status := setKey s.status p .maybe }
    | _ => s

def run (auto : List RPath) (ops : List SOp) : St := ops.foldl (applySOp auto) St.init

/-- the remote tree the history demands at quiescence -/
def St.expectedRemote (s : St) : Tree :=
  s.dirs.map (fun d => (d, Node.dir)) ++ s.content.map (fun e => (e.1, Node.file e.2))

/-! ### the obligations -/

/-- at EVERY step: a file may be present locally only if it is justified -/
def stepOk (auto : List RPath) (ops : List SOp) (l : Tree) : Bool :=
  let s := run auto ops
  l.all (fun e => match e.2 with
    | .dir => true
    | .file _ => (s.st e.1).justified)

/-- the first unjustified local file (for the reject message) -/
def stepBad (auto : List RPath) (ops : List SOp) (l : Tree) : Option RPath :=
  let s := run auto ops
  (l.find? (fun e => match e.2 with
    | .dir => false
    | .file _ => !(s.st e.1).justified)).map (·.1)

inductive QuietVerdict where
  | ok
  | remoteDiffers
  | folderNotMirrored (p : RPath)
  | extraLocal (p : RPath)
  | notInSync (p : RPath) (st : Status)
  | staleLocalCopy (p : RPath)
  | unrequestedPresent (p : RPath)
  deriving DecidableEq, Repr

/-- verdict for one live file -/
def fileVerdict (s : St) (l : Tree) (e : RPath × Nat) : QuietVerdict :=
  let have_ := l.get e.1
  let st := s.st e.1
  if st.mustHave then
    if have_ == some (Node.file e.2) then .ok else .notInSync e.1 st
  else if st.justified then
    if have_ == none || have_ == some (Node.file e.2) then .ok else .staleLocalCopy e.1
  else if have_ == none then .ok else .unrequestedPresent e.1

def firstBad : List QuietVerdict → QuietVerdict
  | [] => .ok
  | v :: vs => if v == .ok then firstBad vs else v

/-- at QUIESCENCE -/
def quietVerdict (auto : List RPath) (ops : List SOp) (l r : Tree) : QuietVerdict :=
  let s := run auto ops
  if !(r.sameAs s.expectedRemote) then .remoteDiffers
  else match s.dirs.find? (fun d => l.get d != some Node.dir) with
    | some d => .folderNotMirrored d
    | none =>
      match l.find? (fun e => match e.2 with
          | .dir => !s.dirs.contains e.1
          | .file _ => (getKey s.content e.1).isNone) with
      | some e => .extraLocal e.1
      | none => firstBad (s.content.map (fileVerdict s l))

def quietOk (auto : List RPath) (ops : List SOp) (l r : Tree) : Bool := quietVerdict auto ops l r == .ok

/-- remove a path from a tree -/
def Tree.erase (t : Tree) (p : RPath) : Tree := t.filter (·.1 != p)

/-- put (or replace) a node -/
def Tree.put (t : Tree) (p : RPath) (n : Node) : Tree := (t.filter (·.1 != p)) ++ [(p, n)]

/-- the newest content of `p` just before an un-request: the local copy if the last user write to `p` was local -/
def newest (lastLocal : Bool) (lb rb : Tree) (p : RPath) : Option Node :=
  if lastLocal && (lb.get p).isSome then lb.get p else rb.get p

def expectedRemoteAfter (lastLocal : Bool) (lb rb : Tree) (p : RPath) : Tree :=
  match newest lastLocal lb rb p with
  | some n => Tree.put rb p n
  | none => rb

inductive UnsyncVerdict where
  | ok
  | remoteDeleted (p : RPath)
  | localNotRemovedExactly
  | remoteNotNewest
  | remoteChanged (p : RPath)
  | localChangedByNoop
  | newestLost
  | otherLocalChanged
  deriving DecidableEq, Repr

/-- right AFTER an un-request call returned.  `ops` is the history before the call. -/
def unsyncVerdict (auto : List RPath) (ops : List SOp) (p : RPath) (lastLocal : Bool)
    (lb rb la ra : Tree) (res : Res) : UnsyncVerdict :=
  let s := run auto ops
  match rb.find? (fun e => !(ra.has e.1)) with
  | some e => .remoteDeleted e.1                                  -- the remote copy is never removed
  | none =>
    let st := s.st p
    let expL := Tree.erase lb p
    let expR := expectedRemoteAfter lastLocal lb rb p
    if st == .req && res == .ok then
      if !(la.sameAs expL) then .localNotRemovedExactly           -- removes only (and exactly) the local copy
      else if !(ra.sameAs expR) then .remoteNotNewest             -- newer local edits were uploaded first
      else .ok
    else
      -- not (explicitly) requested, or the call failed: nothing may be lost, nothing else may change
      match ra.find? (fun e => rb.get e.1 != some e.2 && lb.get e.1 != some e.2) with
      | some e => .remoteChanged e.1
      | none =>
        if st == .unreq || st == .loc then
          if la.sameAs lb then .ok else .localChangedByNoop
        else if (la.sameAs expL && ra.sameAs expR) || la.sameAs lb then .ok
        else
          let nw := newest lastLocal lb rb p
          if nw.isSome && la.get p != nw && ra.get p != nw then .newestLost
          else if !((Tree.erase la p).sameAs expL) then .otherLocalChanged
          else .ok

def unsyncOk (auto : List RPath) (ops : List SOp) (p : RPath) (lastLocal : Bool)
    (lb rb la ra : Tree) (res : Res) : Bool :=
  unsyncVerdict auto ops p lastLocal lb rb la ra res == .ok

inductive ListVerdict where
  | ok
  | localNotReportedSynced (n : String)
  | remoteOnlyReportedSynced (n : String)
  | remoteOnlyNotListed (n : String)
  deriving DecidableEq, Repr

/-- a listing of one folder: `lk` / `rk` = names of the local / remote children, `ents` = (name, is_synced) reported -/
def listingVerdict (quiet : Bool) (lk rk : List String) (ents : List (String × Bool)) : ListVerdict :=
  match lk.find? (fun n => !ents.contains (n, true)) with
  | some n => .localNotReportedSynced n
  | none =>
    match ents.find? (fun e => !lk.contains e.1 && e.2) with
    | some e => .remoteOnlyReportedSynced e.1
    | none =>
      if quiet then
        match rk.find? (fun n => !lk.contains n && !ents.contains (n, false)) with
        | some n => .remoteOnlyNotListed n
        | none => .ok
      else .ok

def listingOk (quiet : Bool) (lk rk : List String) (ents : List (String × Bool)) : Bool :=
  listingVerdict quiet lk rk ents == .ok


/-! ### the listing law at EVERY instant (not only at quiescence)

A listing (`smart_listdir_path` of a folder, `smart_info_path`, `smart_info_oid`) shows local objects plus the objects that
exist on the remote side ACCORDING TO THE ENGINE'S CURRENT KNOWLEDGE.  For every reported row the harness looks the
row's state entry up (by the reported remote id) and sends what the engine knows about its remote side at that instant. -/

/-- one reported row: name, `is_synced`, "the engine knows the remote side is TRASHED/MISSING" -/
structure Row where
  name : String
  synced : Bool
  remoteKnownGone : Bool
  deriving DecidableEq, Repr

/-- the first ghost: a row reported as a not-downloaded remote file although the engine knows the remote object is gone -/
def ghostOf (rows : List Row) : Option String :=
  (rows.find? (fun r => !r.synced && r.remoteKnownGone)).map (·.name)

def ghostOk (rows : List Row) : Bool := (ghostOf rows).isNone

end CS.Spec.Smart
