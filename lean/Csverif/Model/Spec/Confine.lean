import Csverif.Model.Spec.Sync
import Csverif.Proofs.Path
/-
C12 — root confinement: the specification executed by the driver layer `monc12`, and the model of the
decision logic at the head of `SyncManager.embrace_change`.

* `pathComps` — the bridge from the string-level path model (Model/Path.lean) to the component-level
  `confined` of Model/Spec/Sync.lean: separators normalised, split into components, case-folded with
  the provider's own folding.  (`Csverif.Proofs.Path` imports no Mathlib; it is used here for `C` and
  `fold`, the component function the C13 lemmas are about.)
* `checkCall` — the verdict on one engine-issued mutating provider call.
* `stepsUntouched`, `noAlien`, `movedOutOk`, `movedInOk` — the verdicts on snapshots.
* `embraceHead` — manager.py 1420-1444, branch by branch.
No Mathlib.
-/
namespace CS.Spec
open CS.Path

/-! ### string paths → components -/

/-- the components of a provider path as the provider compares them: alternate separators replaced,
    split at the separator, empty fields dropped, each component case-folded iff the provider is
    case-insensitive -/
def pathComps (c : Cfg) (p : Str) : RPath := ((C c p).map (fold c)).map String.ofList

/-- component-boundary confinement of a string path in a string root -/
def confinedStr (c : Cfg) (root target : Str) : Bool := confined (pathComps c root) (pathComps c target)

/-! ### engine-issued calls -/

inductive Meth where
  | create | upload | rename | delete | mkdir
  deriving Repr, DecidableEq

/-- `mkdir`/`mkdirs` may name the root folder itself (the engine creates a missing root, provider.py
    `set_root`); every other mutator must name an object strictly inside the root -/
def Meth.strict : Meth → Bool
  | .mkdir => false
  | _ => true

inductive Verdict where
  | ok
  | outsideRoot      -- target not below the root on a component boundary
  | rootItself       -- target is the root folder itself (delete / rename / overwrite of the root)
  | declined         -- target at or below a folder the application's translate declines
  deriving Repr, DecidableEq

/-- one target of a call against one root and the declined folders (all as components) -/
def checkTarget (root : RPath) (holes : List RPath) (strict : Bool) (t : RPath) : Verdict :=
  if !confined root t then .outsideRoot
  else if strict && t.length == root.length then .rootItself
  else if holes.any (fun h => confined h t) then .declined
  else .ok

structure ECall where
  meth : Meth
  tgt : RPath                 -- path of the target object when the call was made (id-targeted calls: resolved)
  dst : Option RPath          -- destination of a rename
  deriving Repr

def ECall.targets (c : ECall) : List RPath := c.tgt :: c.dst.toList

def checkCall (root : RPath) (holes : List RPath) (c : ECall) : Verdict :=
  match (c.targets.map (checkTarget root holes c.meth.strict)).find? (· ≠ .ok) with
  | some v => v
  | none => .ok

/-- first offending call of a run, with its index -/
def checkCalls (root : RPath) (holes : List RPath) (cs : List ECall) : Option (Nat × ECall × Verdict) :=
  let rec go (i : Nat) : List ECall → Option (Nat × ECall × Verdict)
    | [] => none
    | c :: rest => match checkCall root holes c with
      | .ok => go (i + 1) rest
      | v => some (i, c, v)
  go 0 cs

def callsOk (root : RPath) (holes : List RPath) (cs : List ECall) : Bool :=
  cs.all (fun c => checkCall root holes c == .ok)

/-! ### the Confine contract as a machine (universal safety theorem in Props/C12.lean) -/

/-- an action (with the reference semantics `applyOp` of Model/Spec/Sync.lean on the account tree of
    one side) respects the contract if every path it touches is confined to the root -/
def opConfined (root : RPath) (a : UOp) : Bool := a.roots.all (confined root)

/-! ### snapshots -/

/-- the outside snapshot is unchanged by every engine step: `pairs` = (before, after) per step -/
def stepsUntouched (pairs : List (Tree × Tree)) : Bool := pairs.all (fun p => outsideUntouched p.1 p.2)

def firstTouched (pairs : List (Tree × Tree)) : Option Nat :=
  pairs.findIdx? (fun p => !outsideUntouched p.1 p.2)

/-- an object inside a root is legitimate if its name was given by a user to an object inside a root
    (or it is a `.conflicted` copy the engine parked) and, for a file, its content was at some time the
    content of a file inside a root by a user's doing -/
def legitEntry (names : List String) (tags : List Nat) (e : RPath × Node) : Bool :=
  (isConflicted e.1 || match e.1.getLast? with
    | some n => names.contains n
    | none => true) &&
  (match e.2 with
    | .file tag => tags.contains tag
    | .dir => true)

def noAlien (names : List String) (tags : List Nat) (t : Tree) : Bool := t.all (legitEntry names tags)

/-- the part of a tree at or below `p` -/
def Tree.under (t : Tree) (p : RPath) : Tree := t.filter (fun e => isPrefixOf p e.1)

/-- an object moved out of the root on one side is deleted on the other: nothing is left at or below
    its path there -/
def movedOutOk (other : Tree) (p : RPath) : Bool := (other.under p).isEmpty

/-- an object moved into the root on one side is created on the other: it is there, with the same
    subtree -/
def movedInOk (mine other : Tree) (p : RPath) : Bool :=
  mine.has p && (mine.under p).sameAs (other.under p)

/-! ### the head of `embrace_change` (manager.py 1420-1444) -/

/-- what `delete_synced` / `embrace_change` return -/
inductive Ret where
  | finished | punt | requeue
  deriving Repr, DecidableEq

/-- the inputs the head looks at -/
structure HeadIn where
  hasPath : Bool      -- `sync[changed].path` is truthy
  exists_ : Bool      -- `sync[changed].exists == EXISTS`
  tr : Bool           -- `self.translate(synced, sync[changed].path)` is truthy
  hadSync : Bool      -- `sync[changed].sync_path` is truthy (the entry was synchronised before)
  inRoot : Bool       -- `self.providers[changed].is_subpath_of_root(sync[changed].path)` is truthy
  delRet : Ret        -- what `delete_synced(sync, changed, synced, IRRELEVANT)` would return
  discarded : Bool    -- `sync.is_discarded` on entry
  deriving Repr, DecidableEq

/-- the observable effects of the head, in order -/
inductive Eff where
  | askTranslate          -- `self.translate(synced, sync[changed].path)`: the CHANGED side's path, towards the SYNCED side (1421)
  | notifyDiscarded       -- SYNC_DISCARDED notification (1424)
  | askInRoot             -- `self.providers[changed].is_subpath_of_root(sync[changed].path)`: the CHANGED side's provider (1429)
  | deletePeerIrrelevant  -- `delete_synced(sync, changed, synced, IgnoreReason.IRRELEVANT)` (1432)
  | split                 -- `self.state.split(sync)` (1434)
  | ignoreIrrelevant      -- `sync.ignore(IgnoreReason.IRRELEVANT)` (1440)
  deriving Repr, DecidableEq

/-- how the head ends: it returns, or falls through to the part of `embrace_change` that propagates
    the change to the other side -/
inductive Outcome where
  | ret (r : Ret)
  | proceed
  deriving Repr, DecidableEq

def embraceHead (i : HeadIn) : List Eff × Outcome :=
  if i.hasPath || i.exists_ then                                    -- 1420
    if !i.tr then                                                   -- 1422
      -- `if sync[changed].sync_path and not ...is_subpath_of_root(...)`: the provider is asked only if there was a sync_path
      let ask := if i.hadSync then [Eff.askInRoot] else []
      if i.hadSync && !i.inRoot then                                -- 1429
        -- "This entry was relevant, but now it is irrelevant": remove the peer (1432-1435)
        ([.askTranslate, .notifyDiscarded] ++ ask ++ [.deletePeerIrrelevant] ++ (if i.delRet == .finished then [.split] else []),
         .ret i.delRet)
      else
        -- "Just irrelevant, so discard" (1440), then `if sync.is_discarded: return FINISHED` (1442-1444)
        ([.askTranslate, .notifyDiscarded] ++ ask ++ [.ignoreIrrelevant], .ret .finished)
    else if i.discarded then ([.askTranslate], .ret .finished)      -- 1442
    else ([.askTranslate], .proceed)
  else if i.discarded then ([], .ret .finished)                     -- 1442
  else ([], .proceed)

/-! ### the write-site table (generated: Gen/WriteSites.lean; audited: Props/C12.lean) -/

/-- one syntactic call of a mutating provider-method name in the engine modules -/
structure WriteSite where
  file : String
  func : String
  method : String
  recvClass : String       -- P provider, S storage backend, O os/shutil (local temp files), X unknown
  recv : String
  args : List String       -- syntactic form of the target arguments (oid / path)
  deriving Repr, DecidableEq

end CS.Spec
