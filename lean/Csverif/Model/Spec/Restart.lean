import Csverif.Model.Spec.Sync
/-
Specification of the end-to-end clauses of C06 that are not already C01-C04 verdicts: after a restart,
"already synchronised files are not re-transferred, duplicated or flagged as conflicts".
The harness labels every file content with a version tag (as for C02); `unchanged` are the tags of the files
that were present with equal content on both sides when the engine stopped and that no user touched while it
was down; `transferred` are the tags carried by the engine's create/upload calls after the restart.  No Mathlib.
-/
namespace CS.Spec

/-- the transfers that repeat work already done before the stop -/
def retransferred (unchanged transferred : List Nat) : List Nat :=
  transferred.filter (fun t => unchanged.contains t)

def noRetransfer (unchanged transferred : List Nat) : Bool := (retransferred unchanged transferred).isEmpty

/-- nothing parked under a `.conflicted` name on either side (one-sided / disjoint histories) -/
def noArtefacts (l r : Tree) : Bool :=
  !(l.any (fun e => isConflicted e.1)) && !(r.any (fun e => isConflicted e.1))

/-- the whole restart verdict for a history without concurrent edits of the same object -/
def restartOk (unchanged transferred : List Nat) (l r : Tree) : Bool :=
  noRetransfer unchanged transferred && noArtefacts l r && converged l r

end CS.Spec
