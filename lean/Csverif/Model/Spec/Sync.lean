/-
Abstract specifications used as refinement targets for the engine-level properties (C01–C04, C12).
They are tiny machines over file trees; the harness turns every run of the real engine into a record
(user operations, tree snapshots, engine-issued calls) which the driver layer `monitor` replays
through the executable definitions below.  No Mathlib.
-/
namespace CS.Spec

/-- a relative path as its components, e.g. `/a/b.txt` = ["a", "b.txt"] -/
abbrev RPath := List String

inductive Node where
  | dir
  | file (tag : Nat)        -- content version tag (the harness maps distinct byte strings to distinct tags)
  deriving Repr, DecidableEq, BEq

/-- a tree: association list from paths to nodes (the harness sends each path at most once) -/
abbrev Tree := List (RPath × Node)

def Tree.get (t : Tree) (p : RPath) : Option Node := (t.find? (·.1 == p)).map (·.2)
def Tree.has (t : Tree) (p : RPath) : Bool := t.any (·.1 == p)

/-- `a` is a (non-strict) prefix of `b` -/
def isPrefixOf : RPath → RPath → Bool
  | [], _ => true
  | _ :: _, [] => false
  | x :: xs, y :: ys => x == y && isPrefixOf xs ys

/-- `t ⊆ u` as sets of (path, node) -/
def Tree.subset (t u : Tree) : Bool := t.all (fun e => u.get e.1 == some e.2)
def Tree.sameAs (t u : Tree) : Bool := t.subset u && u.subset t

/-! ### C01 — convergence at quiescence -/

def substr (needle hay : List Char) : Bool :=
  match hay with
  | [] => needle.isEmpty
  | _ :: tl => needle.isPrefixOf hay || substr needle tl

/-- an entry parked under a `.conflicted` name (any component) -/
def isConflicted (p : RPath) : Bool := p.any (fun c => substr ".conflicted".toList c.toList)

def Tree.core (t : Tree) : Tree := t.filter (fun e => !isConflicted e.1)

/-- C01's quiet-state relation: equal up to `.conflicted` extras -/
def converged (l r : Tree) : Bool := (l.core).sameAs (r.core)

/-! ### user operations and their effect (the reference semantics used by C03/C04) -/

inductive UOp where
  | create (p : RPath) (tag : Nat)     -- new file
  | write  (p : RPath) (tag : Nat)     -- overwrite existing file
  | mkdir  (p : RPath)
  | delete (p : RPath)                 -- file or empty folder
  | rename (src dst : RPath)           -- file or folder (with its subtree)
  deriving Repr, DecidableEq

def rebase (src dst p : RPath) : RPath := if isPrefixOf src p then dst ++ p.drop src.length else p

/-- effect of an operation the provider accepted (the harness records only accepted operations) -/
def applyOp (t : Tree) : UOp → Tree
  | .create p tag => (t.filter (·.1 != p)) ++ [(p, .file tag)]
  | .write p tag => t.map (fun e => if e.1 == p then (p, .file tag) else e)
  | .mkdir p => if t.has p then t else t ++ [(p, .dir)]
  | .delete p => t.filter (·.1 != p)
  | .rename src dst => t.map (fun e => (rebase src dst e.1, e.2))

def applyOps (t : Tree) (ops : List UOp) : Tree := ops.foldl applyOp t

/-- the paths an operation touches (for a rename both subtrees) -/
def UOp.roots : UOp → List RPath
  | .create p _ | .write p _ | .mkdir p | .delete p => [p]
  | .rename s d => [s, d]

/-- two paths are unrelated: neither is a prefix of the other -/
def unrelated (a b : RPath) : Bool := !isPrefixOf a b && !isPrefixOf b a

/-- two operations touch disjoint objects (C04's premise) -/
def disjointOps (a b : UOp) : Bool := a.roots.all (fun x => b.roots.all (fun y => unrelated x y))

def disjointSeqs (as bs : List UOp) : Bool := as.all (fun a => bs.all (fun b => disjointOps a b))

/-! ### C03 — one-sided mirror -/

/-- verdict of the one-sided monitor: origin untouched, mirror exact, no artefacts, no echo -/
def oneSidedOk (originBefore originAfter mirrorAfter : Tree) (engineWritesOnOrigin writesAfterQuiet : Nat) : Bool :=
  originBefore.sameAs originAfter && mirrorAfter.sameAs originAfter &&
  !(mirrorAfter.any (fun e => isConflicted e.1)) && !(originAfter.any (fun e => isConflicted e.1)) &&
  engineWritesOnOrigin == 0 && writesAfterQuiet == 0

/-! ### C04 — disjoint concurrent changes merge exactly -/

def mergeExpected (base : Tree) (opsL opsR : List UOp) : Tree := applyOps (applyOps base opsL) opsR

def mergeOk (base : Tree) (opsL opsR : List UOp) (l r : Tree) : Bool :=
  let e := mergeExpected base opsL opsR
  l.sameAs e && r.sameAs e

/-! ### C02 — the version ledger -/

/-- what users did to content, in order: a write creates a version tag and destroys the version the
    object held; a delete destroys the version it held; a resolver may explicitly discard a version -/
inductive LEv where
  | write (tag : Nat) (killed : Option Nat)
  | delete (killed : Option Nat)
  | discard (tag : Nat)
  deriving Repr, DecidableEq

def LEv.kills : LEv → Option Nat
  | .write _ k => k
  | .delete k => k
  | .discard t => some t

/-- version tags that are user-live after the history -/
def live : List LEv → List Nat
  | [] => []
  | e :: es =>
    let rest := live es
    match e with
    | .write t _ => if es.any (fun e' => e'.kills == some t) then rest else t :: rest
    | _ => rest

def Tree.tags (t : Tree) : List Nat := t.filterMap (fun e => match e.2 with | .file tag => some tag | .dir => none)

/-- C02 at quiescence: every user-live version still exists in a file on at least one side -/
def noLoss (h : List LEv) (l r : Tree) : Bool := (live h).all (fun t => l.tags.contains t || r.tags.contains t)

/-- the ledger contract on single engine actions (used by the universal safety theorem): the engine may
    overwrite or remove an object carrying version `t` only if `t` is dead or carried elsewhere -/
structure Ledger where
  liveTags : List Nat
  carriers : List (Nat × Nat)          -- (object, tag)

inductive EAct where
  | copy (obj tag : Nat)               -- object now carries tag (created or overwritten)
  | remove (obj : Nat)
  deriving Repr, DecidableEq

def Ledger.carried (s : Ledger) (t : Nat) (except : Nat) : Bool := s.carriers.any (fun c => c.2 == t && c.1 != except)

def Ledger.check (s : Ledger) : EAct → Option Ledger
  | .copy o t =>
    let old := (s.carriers.find? (·.1 == o)).map (·.2)
    let ok := match old with
      | none => true
      | some u => u == t || !s.liveTags.contains u || s.carried u o
    if ok then some { s with carriers := (s.carriers.filter (·.1 != o)) ++ [(o, t)] } else none
  | .remove o =>
    let old := (s.carriers.find? (·.1 == o)).map (·.2)
    let ok := match old with
      | none => true
      | some u => !s.liveTags.contains u || s.carried u o
    if ok then some { s with carriers := s.carriers.filter (·.1 != o) } else none

def Ledger.safe (s : Ledger) : Prop := ∀ t ∈ s.liveTags, ∃ c ∈ s.carriers, c.2 = t

/-! ### C12 — confinement -/

/-- an engine-issued mutating call is confined if its target (resolved at call time) lies inside the
    side's root: the root's components are a proper-or-equal prefix of the target's -/
def confined (root target : RPath) : Bool := isPrefixOf root target

def allConfined (root : RPath) (targets : List RPath) : Bool := targets.all (confined root)

/-- nothing outside the roots changed -/
def outsideUntouched (before after : Tree) : Bool := before.sameAs after

end CS.Spec
