/-
C10 — transient provider faults.  Model of the fault-classification logic of the engine, written branch by
branch from the Python source, plus the small abstract specifications the property theorems are about.

Part A — cloudsync/exceptions.py: the exception classes as a finite type with the subclass relation
          (plus the Python builtins they hang from, `runnable._BackoffError`, and two stand-ins for
          "any other Exception" / "any BaseException that is not an Exception").
Part B — cloudsync/notification.py:74-92 `NotificationManager.notify_from_exception`
          (an if/elif chain of isinstance tests: the first match wins).
Part C — cloudsync/sync/manager.py:180-203 `SyncManager._sync_one_entry` (the two except clauses),
          205-221 `_validate_provider_roots`, 222-240 `SyncManager.do` (which part of a sync step runs under
          which handler), cloudsync/event.py:171-194 `EventManager.do` (three except clauses),
          cloudsync/runnable.py:103-117 (the loop's three except clauses).
Part D — the same logic as *tables* (`Handler` lists) with a small interpreter; `tools/gen_exc_table.py`
          regenerates `Gen/ExcTable.lean` in this very format from the source on every run and
          `Props/C10Tie.lean` checks by `decide` that the generated tables equal the audited ones below;
          `Props/C10.lean` proves that the interpreter over the audited tables is the branch-by-branch model.
Part E — entry priority / punting (cloudsync/sync/state.py:634-637 `punt`, 1189-1201 the selection in
          `change`) as an abstract work queue: the retry specification.
Part F — the verdict of the C10 run monitor (what a faulted run of the real engine must show).
No Mathlib (linked into the driver).
-/
import Csverif.Model.Runnable
namespace CS.Faults

/-! ## Part A — the exception hierarchy (exceptions.py, whole file) -/

inductive Exc where
  | baseException        -- builtin BaseException
  | exception_           -- builtin Exception(BaseException)
  | cloudException       -- CloudException(Exception)
  | fileNotFound         -- CloudFileNotFoundError(CloudException)
  | temporary            -- CloudTemporaryError(CloudException)
  | fileName             -- CloudFileNameError(CloudException)
  | outOfSpace           -- CloudOutOfSpaceError(CloudTemporaryError)
  | rootMissing          -- CloudRootMissingError(CloudException)      NOT a CloudTemporaryError
  | resourceModified     -- CloudResourceModifiedError(CloudTemporaryError)
  | fileExists           -- CloudFileExistsError(CloudException)
  | token                -- CloudTokenError(CloudException)
  | disconnected         -- CloudDisconnectedError(CloudException)
  | cursor               -- CloudCursorError(CloudException)
  | namespace_           -- CloudNamespaceError(CloudException)
  | tooManyRetries       -- CloudTooManyRetriesError(CloudException)
  | corrupt              -- CloudCorruptError(CloudException)
  | backoffError         -- runnable._BackoffError(Exception), the internal backoff request
  | otherException       -- stand-in: any Exception subclass outside cloudsync (ValueError, ...)
  | otherBase            -- stand-in: a BaseException that is not an Exception (KeyboardInterrupt, ...)
  deriving Repr, DecidableEq

def Exc.all : List Exc :=
  [.baseException, .exception_, .cloudException, .fileNotFound, .temporary, .fileName, .outOfSpace, .rootMissing,
   .resourceModified, .fileExists, .token, .disconnected, .cursor, .namespace_, .tooManyRetries, .corrupt,
   .backoffError, .otherException, .otherBase]

/-- the classes defined in exceptions.py, in source order -/
def Exc.cloudClasses : List Exc :=
  [.cloudException, .fileNotFound, .temporary, .fileName, .outOfSpace, .rootMissing, .resourceModified, .fileExists,
   .token, .disconnected, .cursor, .namespace_, .tooManyRetries, .corrupt]

/-- the direct base class -/
def Exc.parent : Exc → Option Exc
  | .baseException => none
  | .exception_ => some .baseException
  | .cloudException => some .exception_
  | .fileNotFound => some .cloudException
  | .temporary => some .cloudException
  | .fileName => some .cloudException
  | .outOfSpace => some .temporary
  | .rootMissing => some .cloudException
  | .resourceModified => some .temporary
  | .fileExists => some .cloudException
  | .token => some .cloudException
  | .disconnected => some .cloudException
  | .cursor => some .cloudException
  | .namespace_ => some .cloudException
  | .tooManyRetries => some .cloudException
  | .corrupt => some .cloudException
  | .backoffError => some .exception_
  | .otherException => some .exception_
  | .otherBase => some .baseException

/-- `a` and its bases, nearest first (the hierarchy is at most 5 deep) -/
def Exc.mroFuel : Nat → Exc → List Exc
  | 0, a => [a]
  | k+1, a => match a.parent with
    | none => [a]
    | some p => a :: Exc.mroFuel k p

def Exc.mro (a : Exc) : List Exc := Exc.mroFuel 6 a

/-- Python `isinstance(<instance of a>, b)` / `issubclass(a, b)` -/
def isSub (a b : Exc) : Bool := a.mro.contains b

/-- `isinstance(e, (c1, c2, ...))` -/
def isAny (e : Exc) (cs : List Exc) : Bool := cs.any (isSub e)

/-! ## Part B — notify_from_exception (notification.py:74-92) -/

/-- the NotificationType members that `notify_from_exception` can produce -/
inductive NKind where
  | disconnectedError | outOfSpaceError | fileNameError | namespaceError | rootMissingError | temporaryError
  deriving Repr, DecidableEq

/-- branch by branch: the first isinstance test that holds decides; the final `else` only logs -/
def notifyFromException (e : Exc) : Option NKind :=
  if isSub e .disconnected then some .disconnectedError            -- :79-80
  else if isSub e .outOfSpace then some .outOfSpaceError           -- :81-82
  else if isSub e .fileName then some .fileNameError               -- :83-84
  else if isSub e .namespace_ then some .namespaceError            -- :85-86
  else if isSub e .rootMissing then some .rootMissingError         -- :87-88
  else if isSub e .temporary then some .temporaryError             -- :89-90
  else none                                                        -- :91-92 (debug log only)

/-! ## Part C — the except clauses -/

/-- what one service step (`do()` of a manager) did in reaction to an exception -/
structure StepOut where
  notes       : List NKind := []     -- notifications put on the queue, in order
  punts       : Nat := 0             -- calls of `sync.punt()`
  commits     : Nat := 0             -- calls of `state.storage_commit()`
  cursorReset : Bool := false        -- provider.current_cursor = provider.latest_cursor; _save_current_cursor()
  needWalk    : Bool := false        -- need_walk = True
  needAuth    : Bool := false        -- need_auth = True
  walkForgot  : Bool := false        -- _forget_walk(): the stored walk marker is deleted (so the walk survives a restart)
  raised      : Option Exc := none   -- what leaves the function (`some .backoffError` = the backoff request)
  deriving Repr, DecidableEq

def noteOf (e : Exc) : List NKind := (notifyFromException e).toList

/-- what happened inside the `try:` of `_sync_one_entry` -/
inductive SyncInner where
  | returned (preSync sync : Bool)    -- pre_sync's result; sync's result (only consulted if pre_sync gave False)
  | raised (e : Exc)
  deriving Repr, DecidableEq

/-- manager.py:180-203.  Returns the effects and `something_got_done`. -/
def syncOneEntry : SyncInner → StepOut × Bool
  | .returned pre snc => ({ commits := 1 }, pre || snc)                                    -- :183-186
  | .raised e =>
    if isAny e [.temporary, .disconnected, .outOfSpace, .token, .namespace_] then          -- :187-188
      ({ notes := noteOf e, punts := 1, raised := some .backoffError }, false)              -- :191,192,194 (no commit)
    else if isSub e .exception_ then                                                        -- :195
      ({ notes := if isSub e .cloudException then noteOf e else [],                         -- :196-197
         punts := 1, commits := 1, raised := some .backoffError }, false)                   -- :200-202
    else ({ raised := some e }, false)                                                      -- BaseException passes

/-- manager.py:205-221 `_validate_provider_roots`, when `set_root` raises `e` -/
def validateRoots (e : Exc) : StepOut :=
  if isSub e .exception_ then                                                               -- :216
    { notes := if isSub e .cloudException then noteOf e else [], raised := some .backoffError }   -- :217-220
  else { raised := some e }

/-- where inside `SyncManager.do` (manager.py:222-240) the exception is raised -/
inductive SyncPhase where
  | roots      -- :223  _validate_provider_roots  (own try/except)
  | change     -- :227  self.state.change(self.aging): fills in missing paths through provider.info_oid — NO handler
  | entry      -- :231  _sync_one_entry            (own try/except)
  deriving Repr, DecidableEq

def syncDo (ph : SyncPhase) (e : Exc) : StepOut :=
  match ph with
  | .roots => validateRoots e
  | .change => { raised := some e }            -- propagates out of do() as it is: not classified, not reported
  | .entry => (syncOneEntry (.raised e)).1

/-- event.py:171-193 `EventManager.do`, when `_reconnect_if_needed` / `_validate_root` / `_do_unsafe` raises `e`;
    `hasNmgr` = a notification manager was supplied -/
def eventDo (hasNmgr : Bool) (e : Exc) : StepOut :=
  if isAny e [.temporary, .disconnected, .namespace_] then                                  -- :176
    { notes := if hasNmgr then noteOf e else [], raised := some .backoffError }             -- :180-182
  else if isSub e .cursor then                                                              -- :183
    { cursorReset := true, walkForgot := true, needWalk := true, raised := some .backoffError }   -- :185-189
  else if isSub e .token then                                                               -- :190
    { needAuth := true, raised := some .backoffError }                                      -- :193-194
  else { raised := some e }                                                                 -- anything else escapes

/-- runnable.py:103-117: how the loop classifies what left `do()` -/
def loopOutcome (gotDone : Bool) : Option Exc → Runnable.Outcome
  | none => if gotDone then .success else .noop
  | some e =>
    if isSub e .backoffError then .backoffReq          -- :109
    else if isSub e .exception_ then .exc              -- :112
    else .baseExc                                      -- :115

/-! ## Part D — the same logic as tables (the format `tools/gen_exc_table.py` emits) -/

/-- the statements the extractor recognises inside a handler / try body, in source order -/
inductive Action where
  | notify            -- self._nmgr.notify_from_exception(<source>, e)
  | notifyIfCloud     -- if isinstance(e, ex.CloudException): ...notify_from_exception(...)
  | notifyIfNmgr      -- if self.__nmgr: ...notify_from_exception(...)
  | punt              -- sync.punt()
  | commit            -- self.state.storage_commit()
  | backoff           -- self.backoff()
  | resetCursor       -- self.provider.current_cursor = self.provider.latest_cursor
  | saveCursor        -- self._save_current_cursor()
  | forgetWalk        -- self._forget_walk()
  | setNeedWalk       -- self.need_walk = True
  | setNeedAuth       -- self.need_auth = True
  | incrBackoff       -- self.__increment_backoff()      (runnable.py)
  | unknown           -- anything the extractor does not recognise (never in an audited table)
  deriving Repr, DecidableEq

structure Handler where
  classes : List Exc
  body    : List Action
  deriving Repr, DecidableEq

def auditedHierarchy : List (Exc × Exc) := Exc.cloudClasses.map (fun c => (c, (c.parent).getD .baseException))

def auditedNotifyChain : List (Exc × NKind) :=
  [(.disconnected, .disconnectedError), (.outOfSpace, .outOfSpaceError), (.fileName, .fileNameError),
   (.namespace_, .namespaceError), (.rootMissing, .rootMissingError), (.temporary, .temporaryError)]

def auditedSyncHandlers : List Handler :=
  [⟨[.temporary, .disconnected, .outOfSpace, .token, .namespace_], [.notify, .punt, .backoff]⟩,
   ⟨[.exception_], [.notifyIfCloud, .punt, .commit, .backoff]⟩]

def auditedRootsHandlers : List Handler := [⟨[.exception_], [.notifyIfCloud, .backoff]⟩]

def auditedEventHandlers : List Handler :=
  [⟨[.temporary, .disconnected, .namespace_], [.notifyIfNmgr, .backoff]⟩,
   ⟨[.cursor], [.resetCursor, .forgetWalk, .saveCursor, .setNeedWalk, .backoff]⟩,
   ⟨[.token], [.setNeedAuth, .backoff]⟩]

def auditedLoopHandlers : List Handler :=
  [⟨[.backoffError], [.incrBackoff]⟩, ⟨[.exception_], [.incrBackoff]⟩, ⟨[.baseException], [.incrBackoff]⟩]

/-- `SyncManager.do`: is the call of `state.change` inside a try statement? (false in the source) -/
def auditedChangeGuarded : Bool := false

def chainNotify (chain : List (Exc × NKind)) (e : Exc) : Option NKind := (chain.find? (fun c => isSub e c.1)).map (·.2)

/-- run a handler body; stops at `backoff` (it raises) -/
def runBody (chain : List (Exc × NKind)) (hasNmgr : Bool) (e : Exc) : List Action → StepOut → StepOut
  | [], o => o
  | a :: as, o =>
    match a with
    | .notify => runBody chain hasNmgr e as { o with notes := o.notes ++ (chainNotify chain e).toList }
    | .notifyIfCloud =>
      runBody chain hasNmgr e as (if isSub e .cloudException then { o with notes := o.notes ++ (chainNotify chain e).toList } else o)
    | .notifyIfNmgr =>
      runBody chain hasNmgr e as (if hasNmgr then { o with notes := o.notes ++ (chainNotify chain e).toList } else o)
    | .punt => runBody chain hasNmgr e as { o with punts := o.punts + 1 }
    | .commit => runBody chain hasNmgr e as { o with commits := o.commits + 1 }
    | .backoff => { o with raised := some .backoffError }
    | .resetCursor => runBody chain hasNmgr e as { o with cursorReset := true }
    | .saveCursor => runBody chain hasNmgr e as o
    | .forgetWalk => runBody chain hasNmgr e as { o with walkForgot := true }
    | .setNeedWalk => runBody chain hasNmgr e as { o with needWalk := true }
    | .setNeedAuth => runBody chain hasNmgr e as { o with needAuth := true }
    | .incrBackoff => runBody chain hasNmgr e as o
    | .unknown => runBody chain hasNmgr e as o

/-- Python try/except: the first clause one of whose classes the exception is an instance of; none ⇒ it propagates -/
def runHandlers (chain : List (Exc × NKind)) (hasNmgr : Bool) (hs : List Handler) (e : Exc) : StepOut :=
  match hs.find? (fun h => isAny e h.classes) with
  | some h => runBody chain hasNmgr e h.body {}
  | none => { raised := some e }

/-! ## Part E — priorities and punting: the retry specification -/

/-- state.py:634-637 -/
def punt (priority : Int) : Int := priority + 1

/-- a queue entry: `fails = some k` — the next k attempts fail, then it succeeds;
    `fails = none` — it keeps failing (a locked file) -/
structure QEnt where
  id    : Nat
  prio  : Int
  fails : Option Nat
  deriving Repr, DecidableEq

def minPrio : List QEnt → Option Int
  | [] => none
  | e :: es => match minPrio es with
    | none => some e.prio
    | some m => some (if e.prio ≤ m then e.prio else m)

structure QState where
  q      : List QEnt
  synced : List Nat := []      -- ids that were synchronised, in order
  deriving Repr, DecidableEq

/-- process the first entry of priority `m` (state.py:1189-1201: lowest priority first; ties by a fixed key):
    a failing attempt punts it (manager.py:192/200), a successful one removes it from the change set -/
def procFirst (m : Int) : List QEnt → List QEnt × Option Nat
  | [] => ([], none)
  | e :: es =>
    if e.prio = m then
      match e.fails with
      | some 0 => (es, some e.id)
      | some (k+1) => ({ e with prio := punt e.prio, fails := some k } :: es, none)
      | none => ({ e with prio := punt e.prio } :: es, none)
    else (e :: (procFirst m es).1, (procFirst m es).2)

def qStep (s : QState) : QState :=
  match minPrio s.q with
  | none => s
  | some m => { q := (procFirst m s.q).1, synced := s.synced ++ (procFirst m s.q).2.toList }

def qRun : Nat → QState → QState
  | 0, s => s
  | n+1, s => qRun n (qStep s)

/-- entries that will stop failing -/
def finiteEnts (q : List QEnt) : List QEnt := q.filter (fun e => e.fails.isSome)

/-- the work left: remaining attempts of the entries that will succeed, plus how far each permanently failing
    entry is from `B` (a bound above every priority a succeeding entry can ever reach) -/
def weight (B : Int) (e : QEnt) : Nat :=
  match e.fails with
  | some k => k + 1
  | none => (B - e.prio).toNat

def work (B : Int) : List QEnt → Nat
  | [] => 0
  | e :: es => weight B e + work B es

def boundedBy (B : Int) (q : List QEnt) : Prop := ∀ e ∈ q, ∀ k, e.fails = some k → e.prio + k < B

/-! ## Part F — the run monitor -/

/-- the property's own notion of "a notification of the matching kind" for the conditions it lists
    (temporary, disconnected, out-of-space, invalid-name; namespace errors have a kind of their own too).
    Stated without reference to the order of the isinstance chain. -/
def matchesKind (e : Exc) : NKind → Bool
  | .disconnectedError => isSub e .disconnected
  | .outOfSpaceError => isSub e .outOfSpace
  | .fileNameError => isSub e .fileName
  | .namespaceError => isSub e .namespace_
  | .temporaryError => isSub e .temporary && !isSub e .outOfSpace
  | .rootMissingError => false          -- not among the conditions C10 lists

def NKind.all : List NKind :=
  [.disconnectedError, .outOfSpaceError, .fileNameError, .namespaceError, .rootMissingError, .temporaryError]

/-- who delivered a notification (notification.py SourceEnum) -/
inductive Source where
  | local_ | remote | sync
  deriving Repr, DecidableEq

/-- where a fault was injected: a sync step (inside `_sync_one_entry`) or the event intake of a side -/
inductive Site where
  | syncEntry
  | event (side : Nat)
  deriving Repr, DecidableEq

def Site.source : Site → Source
  | .syncEntry => .sync
  | .event 0 => .local_
  | .event _ => .remote

/-- the model's prediction for a fault of class `e` raised by a provider call at `site` -/
def predict (site : Site) (e : Exc) : StepOut :=
  match site with
  | .syncEntry => syncDo .entry e
  | .event _ => eventDo true e

/-- one injected fault with what the real step showed: the notifications delivered for that step
    and what escaped `do()` (`none` = returned normally) -/
structure FaultObs where
  site    : Site
  exc     : Exc
  notes   : List (Source × NKind)
  escaped : Option Exc
  deriving Repr, DecidableEq

/-- verdict for one fault: the step raised exactly what the model says (the backoff request), and every
    notification the model predicts was delivered, from the right source -/
def faultOk (f : FaultObs) : Bool :=
  let p := predict f.site f.exc
  decide (f.escaped = p.raised) && p.notes.all (fun k => f.notes.contains (f.site.source, k))

/-- the property's own demand on one fault (independent of the model): a notification of every matching kind
    was delivered from the right source, and nothing but the backoff request left the step -/
def faultReported (f : FaultObs) : Bool :=
  NKind.all.all (fun k => !matchesKind f.exc k || f.notes.contains (f.site.source, k)) &&
  decide (f.escaped = some .backoffError)

/-- verdict for the steps without an injected fault: nothing but the backoff request may leave `do()` -/
def escapeOk : Option Exc → Bool
  | none => true
  | some e => decide (e = .backoffError)

end CS.Faults
