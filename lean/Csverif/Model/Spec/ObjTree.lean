import Csverif.Model.Spec.Sync
/-
C04, object-identity specification.  Property C04 speaks of users touching *different files and
folders* on the two sides.  `Spec/Sync.lean` reads that by PATH (two operations are disjoint if
their paths are unrelated); here it is read by OBJECT: every object has a stable id, a parent (an
id, or the root), a name and a kind, and the user operations address objects.  Two operation
sequences are object-disjoint if no object is operated on by both — a file created in, moved into,
renamed in or written in a folder that the other side renames or moves touches a different object
although the paths are related.

The path of an object is DERIVED by walking the parent chain (`pathOf`, fuel-guarded against
cycles); `toPaths` is the path view of an object tree, a `Tree` of `Spec/Sync.lean`, so the
relations `sameAs` / `converged` of the existing monitors apply to it.  No Mathlib.
-/
namespace CS.Spec.Obj
open CS.Spec

-- object ids are natural numbers

/-- one object: stable id, parent (`none` = the root folder), name, kind (folder or file + content tag) -/
structure Obj where
  id : Nat
  parent : Option Nat
  name : String
  kind : Node
  deriving Repr, DecidableEq

/-- an object tree: the objects, kept in ascending id order (`ins`) so that equal trees are equal lists -/
abbrev OTree := List Obj

def OTree.get (t : OTree) (i : Nat) : Option Obj := t.find? (fun o => o.id == i)
def OTree.has (t : OTree) (i : Nat) : Bool := t.any (fun o => o.id == i)

/-- insertion at the id-ordered position -/
def ins (o : Obj) : OTree → OTree
  | [] => [o]
  | x :: xs => if o.id ≤ x.id then o :: x :: xs else x :: ins o xs

/-- user operations, addressed by OBJECT id.  `create`/`mkdir` name the new object's id;
    a rename is a `move` within the same parent. -/
inductive OOp where
  | create (i : Nat) (parent : Option Nat) (name : String) (tag : Nat)
  | write  (i : Nat) (tag : Nat)
  | mkdir  (i : Nat) (parent : Option Nat) (name : String)
  | delete (i : Nat)
  | move   (i : Nat) (parent : Option Nat) (name : String)
  deriving Repr, DecidableEq

/-- the object an operation is about -/
def OOp.target : OOp → Nat
  | .create i _ _ _ | .write i _ | .mkdir i _ _ | .delete i | .move i _ _ => i

/-- the slot (parent, name) an operation puts its object into, if any -/
def OOp.dest : OOp → Option (Option Nat × String)
  | .create _ p n _ | .mkdir _ p n | .move _ p n => some (p, n)
  | .write _ _ | .delete _ => none

def setPlace (i : Nat) (p : Option Nat) (n : String) (o : Obj) : Obj :=
  if o.id = i then { o with parent := p, name := n } else o

def setKind (i : Nat) (k : Node) (o : Obj) : Obj :=
  if o.id = i then { o with kind := k } else o

/-- effect of an operation the provider accepted: only the row of the target object changes -/
def applyOp (t : OTree) : OOp → OTree
  | .create i p n tag => ins ⟨i, p, n, .file tag⟩ t
  | .mkdir i p n => ins ⟨i, p, n, .dir⟩ t
  | .write i tag => t.map (setKind i (.file tag))
  | .delete i => t.filter (fun o => o.id != i)
  | .move i p n => t.map (setPlace i p n)

def applyOps (t : OTree) (ops : List OOp) : OTree := ops.foldl applyOp t

/-! ### derived paths -/

/-- the path of object `i`: names along the parent chain, root first; `none` if the chain leaves the
    tree or does not end within `fuel` steps (cycle guard) -/
def pathFuel (t : OTree) : Nat → Nat → Option RPath
  | 0, _ => none
  | f + 1, i =>
    match t.get i with
    | none => none
    | some o =>
      match o.parent with
      | none => some [o.name]
      | some p => (pathFuel t f p).map (fun pp => pp ++ [o.name])

/-- a chain of distinct objects is at most `t.length` long, so this much fuel is enough
    (`pathOf_complete`, Proofs/ObjTree.lean) -/
def pathOf (t : OTree) (i : Nat) : Option RPath := pathFuel t t.length i

/-- `p` and its ancestors, nearest first (at most `fuel` of them) -/
def ancFuel (t : OTree) : Nat → Option Nat → List Nat
  | 0, _ => []
  | _, none => []
  | f + 1, some p =>
    match t.get p with
    | none => [p]
    | some o => p :: ancFuel t f o.parent

def ancSelf (t : OTree) (p : Option Nat) : List Nat := ancFuel t t.length p

/-- the path view: every object at its derived path (objects without a path — impossible in a
    well-formed tree, `OTree.WF.rooted` — are dropped) -/
def toPaths (t : OTree) : Tree := t.filterMap (fun o => (pathOf t o.id).map (fun p => (p, o.kind)))

/-! ### validity of an operation in a tree -/

/-- the destination folder exists (or is the root) and is a folder -/
def parentOk (t : OTree) : Option Nat → Bool
  | none => true
  | some p => match t.get p with
    | some o => o.kind == .dir
    | none => false

/-- no other object sits in the slot (p, n) -/
def slotFree (t : OTree) (i : Nat) (p : Option Nat) (n : String) : Bool :=
  t.all (fun o => o.id == i || !(o.parent == p && o.name == n))

/-- nothing has `i` as its parent (a file never has children in a well-formed tree, so for files
    this is no restriction: "delete only of files and empty folders") -/
def noKids (t : OTree) (i : Nat) : Bool := t.all (fun o => !(o.parent == some i))

def isFile (t : OTree) (i : Nat) : Bool :=
  match t.get i with
  | some o => !(o.kind == .dir)
  | none => false

/-- would the provider accept the operation?  target exists (or is fresh, for creations), the
    destination folder exists, no name clash among siblings, no move beneath itself, delete only of
    files / empty folders -/
def valid (t : OTree) : OOp → Bool
  | .create i p n _ => !t.has i && parentOk t p && slotFree t i p n
  | .mkdir i p n => !t.has i && parentOk t p && slotFree t i p n
  | .write i _ => isFile t i
  | .delete i => t.has i && noKids t i
  | .move i p n => t.has i && parentOk t p && slotFree t i p n && !(ancSelf t p).contains i

def validSeq (t : OTree) : List OOp → Bool
  | [] => true
  | a :: as => valid t a && validSeq (applyOp t a) as

/-! ### object-disjointness and compatibility -/

/-- two operations are about different objects -/
def disjointOp (a b : OOp) : Bool := a.target != b.target

/-- no object id is operated on by both sequences -/
def disjointSeqs (as bs : List OOp) : Bool := as.all (fun a => bs.all (fun b => disjointOp a b))

/-- `a` deletes the folder `b` puts its object into -/
def orphans (a b : OOp) : Bool :=
  match a, b.dest with
  | .delete i, some (some p, _) => i == p
  | _, _ => false

/-- both put their objects into the same slot -/
def clash (a b : OOp) : Bool :=
  match a.dest, b.dest with
  | some (p, n), some (q, m) => p == q && n == m
  | _, _ => false

/-- after `a`, the move `b` would put its object beneath itself -/
def cycleAfter (t : OTree) (a b : OOp) : Bool :=
  match b with
  | .move j q _ => (ancSelf (applyOp t a) q).contains j
  | _ => false

/-- the genuine conflicts between two operations on DIFFERENT objects, both valid in `t`:
    a name clash (same destination slot), deleting a folder the other puts something into, and two
    folder moves that would close a cycle.  Everything else commutes (`compatible_iff`). -/
def Compatible (t : OTree) (a b : OOp) : Bool :=
  !clash a b && !orphans a b && !orphans b a && !cycleAfter t a b && !cycleAfter t b a

/-- every interleaving of the two sequences is a valid history from `t` (fuel = total length) -/
def allValidF : Nat → OTree → List OOp → List OOp → Bool
  | _, t, [], bs => validSeq t bs
  | _, t, a :: as, [] => validSeq t (a :: as)
  | 0, _, _ :: _, _ :: _ => false
  | f + 1, t, a :: as, b :: bs =>
    valid t a && valid t b && allValidF f (applyOp t a) as (b :: bs) && allValidF f (applyOp t b) (a :: as) bs

/-- C04's premise for sequences: different objects, and no interleaving runs into a conflict -/
def CompatibleSeqs (t : OTree) (as bs : List OOp) : Bool :=
  disjointSeqs as bs && allValidF (as.length + bs.length) t as bs

/-- pairwise form: `a` is compatible with every operation of `bs`, each judged in the tree in which it is met -/
def compatRow (t : OTree) (a : OOp) : List OOp → Bool
  | [] => true
  | b :: bs => Compatible t a b && compatRow (applyOp t b) a bs

def compatGrid (t : OTree) : List OOp → List OOp → Bool
  | [], _ => true
  | a :: as, bs => compatRow t a bs && compatGrid (applyOp t a) as bs

/-! ### well-formed object trees (decidable form, used by the monitor on the base tree) -/

def sortedB : OTree → Bool
  | [] => true
  | [_] => true
  | a :: b :: r => decide (a.id < b.id) && sortedB (b :: r)

/-- ids ascending (hence unique), sibling names unique, every parent an existing folder, every object has a path -/
def wfB (t : OTree) : Bool :=
  sortedB t &&
  t.all (fun a => t.all (fun b => a.id == b.id || !(a.parent == b.parent && a.name == b.name))) &&
  t.all (fun a => parentOk t a.parent) &&
  t.all (fun a => (pathOf t a.id).isSome)

/-! ### C04 over object trees: the expected merge and the monitor's verdict -/

def objMerge (base : OTree) (opsL opsR : List OOp) : OTree := applyOps (applyOps base opsL) opsR

/-- both sides show exactly the path view of the merged object tree (no '.conflicted' artefact,
    nothing resurrected, nothing duplicated, children beneath the moved folder's new path) -/
def objMergeOk (base : OTree) (opsL opsR : List OOp) (l r : Tree) : Bool :=
  let e := toPaths (objMerge base opsL opsR)
  l.sameAs e && r.sameAs e

end CS.Spec.Obj
