import Csverif.Model.Spec.Sync
/-
C14 — specification of "mangled event delivery changes nothing" on the observable outcome of a run.
The harness runs the real engine twice on the same history from identical worlds: run A with prompt
in-order event delivery, run B through an event-mangling wrapper.  At every quiescence it sends the two
outcomes (trees of both sides, engine-issued effective provider writes as opaque keys) to the driver
layer `monc14`, which evaluates `mangledOk` below.  No Mathlib.
-/
namespace CS.Spec

/-- number of occurrences -/
def countOf (x : String) (l : List String) : Nat := (l.filter (· == x)).length

/-- multiset inclusion: nothing occurs more often in `b` than in `a` -/
def msub (b a : List String) : Bool := b.all (fun x => countOf x b ≤ countOf x a)

/-- paths parked under a `.conflicted` name -/
def Tree.conflicts (t : Tree) : List RPath := (t.filter (fun e => isConflicted e.1)).map (·.1)

/-- every `.conflicted` artefact of `b` is one `a` has too -/
def noNewConflicts (a b : Tree) : Bool := b.conflicts.all (fun p => a.has p)

structure MangleOutcome where
  l : Tree
  r : Tree
  calls : List String        -- effective engine-issued writes, reduced by the harness to (side, kind, key)
  deriving Repr

/-- C14 at a quiescence: the mangled run B is converged, has exactly the trees of the prompt run A on both
    sides, no `.conflicted` artefact A does not have, and issued no write (transfer, deletion, move, mkdir)
    beyond A's, counted with multiplicity. -/
def mangledOk (A B : MangleOutcome) : Bool :=
  converged B.l B.r && B.l.sameAs A.l && B.r.sameAs A.r &&
  noNewConflicts A.l B.l && noNewConflicts A.r B.r && msub B.calls A.calls

/-- replaying the whole tree as walk events (and re-delivering old events) at quiescence: nothing may be
    written and nothing may change -/
def replayQuiet (lBefore rBefore lAfter rAfter : Tree) (engineWrites : Nat) : Bool :=
  lBefore.sameAs lAfter && rBefore.sameAs rAfter && engineWrites == 0

end CS.Spec
