import Csverif.Model.Spec.Faults
import Csverif.Model.SchedLoop
/-
C17 — which failure of a sync step defers the entry?  The `except` clauses a failing step funnels through.

`SyncManager._sync_one_entry` (manager.py:180-203) is the only place where an exception raised anywhere in
`pre_sync` / `sync` (i.e. by any provider call of the sync path that no inner helper converts into a return code) is
turned into scheduling: each clause notifies, **punts** the entry and requests a backoff.  `SyncManager.do`
(222-239) has no handler of its own; `SyncManager.sync` (372-464) has one clause, for `CloudTooManyRetriesError`,
which marks the side finished.  Python runs the FIRST clause one of whose classes the exception is an instance of:
`catches` below, with the subclass relation `CS.Faults.isSub` of the C10 model (exceptions.py).

`tools/gen_punt_sites.py` regenerates `Gen/PuntSites.lean` in this very format from the source on every run of the
check, and `Props/C17Sites.lean` (outside the default target) checks by `decide` that the generated tables equal the
audited ones below.  `sites` lists every `except` clause of every method of `SyncManager` with what its body reaches,
so that a handler added, moved or rewritten anywhere in the sync path changes the table.
No Mathlib (linked into the driver).
-/
namespace CS.SchedSites
open CS.Faults CS.SchedLoop

/-- one `except` clause of a funnel function -/
structure Clause where
  classes  : List Exc      -- the classes named, in source order
  punts    : Bool          -- the body reaches `sync.punt()`
  finishes : Bool          -- the body reaches `self.finished(..)` or sets `response = FINISHED`
  backsOff : Bool          -- the body reaches `self.backoff()`
  raises   : Bool          -- the body contains a `raise`
  deriving Repr, DecidableEq

/-- one `except` clause anywhere in `SyncManager`, as written -/
structure Site where
  fn       : String
  tryIx    : Nat
  ix       : Nat
  classes  : List String
  punt     : Bool
  finished : Bool
  backoff  : Bool
  split    : Bool
  reraise  : Bool
  raises   : List String
  returns  : List String
  response : List String
  deriving Repr, DecidableEq

/-- Python's clause selection: the first clause with a class the exception is an instance of -/
def catches : List Clause → Exc → Option Clause
  | [], _ => none
  | c :: cs, e => if isAny e c.classes then some c else catches cs e

/-- what a step that ended in this clause means for the scheduling loop (Model/SchedLoop.lean).
    An exception no clause catches leaves `do()` with the entry untouched. -/
def workOfClause : Option Clause → Work
  | none => .stuck
  | some c =>
    if c.finishes then .finished
    else if c.punts then (if c.backsOff || c.raises then .raised else .punted)
    else if c.backsOff || c.raises then .stuck
    else .requeue

/-- what `_sync_one_entry` with handler table `cl` does to the loop when the sync work raises `e` -/
def workOfExc (cl : List Clause) (e : Exc) : Work := workOfClause (catches cl e)

/-- **the hypothesis of the liveness theorem**: every failure outcome of a step — whatever `Exception` the sync work
    raises — strictly lowers the entry's rank (punt) or finishes it -/
def ProgressOnFailure (cl : List Clause) : Prop :=
  ∀ e : Exc, isSub e .exception_ = true → (workOfExc cl e).progress = true

/-! ## the audited tables (HEAD) -/

/-- manager.py:187-203 -/
def auditedSyncOneEntry : List Clause := [⟨[.temporary, .disconnected, .outOfSpace, .token, .namespace_], true, false, true, false⟩, ⟨[.exception_], true, false, true, false⟩]

/-- manager.py:222-239: no handler -/
def auditedDo : List Clause := []

/-- manager.py:447-451: too many retries → `response = FINISHED`; re-raised only `if want_raise` -/
def auditedSync : List Clause := [⟨[.tooManyRetries], false, true, false, true⟩]

/-- `_sync_one_entry` calls `self.sync(sync)` without `want_raise` -/
def auditedSyncCalledPlain : Bool := true

def auditedSites : List Site := [
  ⟨"_sync_one_entry", 0, 0, ["CloudTemporaryError", "CloudDisconnectedError", "CloudOutOfSpaceError", "CloudTokenError", "CloudNamespaceError"], true, false, true, false, false, [], [], []⟩,
  ⟨"_sync_one_entry", 0, 1, ["Exception"], true, false, true, false, false, [], [], []⟩,
  ⟨"_validate_provider_roots", 0, 0, ["Exception"], false, false, true, false, false, [], [], []⟩,
  ⟨"done", 0, 0, ["FileNotFoundError"], false, false, false, false, false, [], [], []⟩,
  ⟨"sync", 0, 0, ["CloudTooManyRetriesError"], false, false, false, false, true, [], [], ["FINISHED"]⟩,
  ⟨"download_changed", 0, 0, ["FileNotFoundError"], false, false, false, false, false, [], ["False"], []⟩,
  ⟨"download_changed", 0, 1, ["PermissionError"], false, false, false, false, false, ["CloudTemporaryError"], [], []⟩,
  ⟨"download_changed", 0, 2, ["CloudFileNotFoundError"], false, false, false, false, false, [], ["False"], []⟩,
  ⟨"mkdir_synced", 0, 0, ["CloudFileExistsError"], false, false, false, false, false, [], [], []⟩,
  ⟨"mkdir_synced", 0, 1, ["CloudFileNotFoundError"], false, false, false, false, false, ["NotImplementedError"], ["PUNT"], []⟩,
  ⟨"mkdir_synced", 0, 2, ["CloudFileNameError"], false, false, false, false, false, [], ["FINISHED"], []⟩,
  ⟨"upload_synced", 0, 0, ["FileNotFoundError"], false, false, false, false, false, [], ["False"], []⟩,
  ⟨"upload_synced", 0, 1, ["CloudFileNotFoundError"], false, false, false, false, false, [], ["False"], []⟩,
  ⟨"upload_synced", 0, 2, ["CloudFileExistsError"], false, false, false, true, false, [], ["expr"], []⟩,
  ⟨"upload_synced", 0, 3, ["CloudFileNameError"], false, false, false, false, false, [], ["True"], []⟩,
  ⟨"_create_synced", 0, 0, ["CloudFileExistsError"], false, false, false, false, true, [], [], []⟩,
  ⟨"_create_synced", 0, 1, ["CloudFileNotFoundError"], false, false, false, false, true, [], [], []⟩,
  ⟨"_create_synced", 0, 2, ["CloudFileNameError"], false, false, false, false, true, [], [], []⟩,
  ⟨"_create_synced", 0, 3, ["Exception"], false, false, false, false, true, [], [], []⟩,
  ⟨"create_synced", 0, 0, ["CloudFileNotFoundError"], false, false, false, false, false, [], ["expr"], []⟩,
  ⟨"create_synced", 0, 1, ["CloudFileExistsError"], false, false, false, false, false, [], ["FINISHED"], []⟩,
  ⟨"create_synced", 0, 2, ["CloudFileNameError"], false, false, false, false, false, [], ["FINISHED"], []⟩,
  ⟨"__safe_call_resolver", 0, 0, ["CloudTemporaryError"], false, false, false, false, true, [], [], []⟩,
  ⟨"__safe_call_resolver", 0, 1, ["Exception"], false, false, false, false, false, [], [], []⟩,
  ⟨"resolve_conflict", 0, 0, ["CloudFileNotFoundError"], false, false, false, false, false, [], [], []⟩,
  ⟨"delete_synced", 0, 0, ["CloudFileNotFoundError"], false, false, false, false, false, [], [], []⟩,
  ⟨"delete_synced", 0, 1, ["CloudFileExistsError"], false, false, false, false, false, [], ["expr"], []⟩,
  ⟨"handle_path_change_or_creation", 0, 0, ["CloudCorruptError"], false, false, false, false, false, [], ["expr"], []⟩,
  ⟨"handle_path_change_or_creation", 1, 0, ["CloudCorruptError"], false, false, false, false, false, [], ["expr"], []⟩,
  ⟨"handle_rename", 0, 0, ["CloudFileNotFoundError"], false, false, false, false, false, [], ["expr"], []⟩,
  ⟨"handle_rename", 0, 1, ["CloudFileNameError"], false, false, false, false, false, [], ["FINISHED"], []⟩,
  ⟨"handle_rename", 0, 2, ["CloudFileExistsError"], false, false, false, false, false, [], ["PUNT"], []⟩,
  ⟨"handle_rename", 1, 0, ["CloudFileExistsError"], false, false, false, false, false, [], [], []⟩,
  ⟨"handle_rename", 2, 0, ["CloudFileNotFoundError"], false, false, false, false, false, [], [], []⟩,
  ⟨"conflict_rename", 0, 0, ["CloudFileExistsError"], false, false, false, false, false, [], [], []⟩,
  ⟨"handle_hash_diff", 0, 0, ["CloudCorruptError"], false, false, false, false, false, [], ["expr"], []⟩,
  ⟨"handle_hash_conflict", 0, 0, ["CloudException"], false, false, false, false, true, [], [], []⟩,
  ⟨"handle_split_conflict", 0, 0, ["FileNotFoundError"], false, false, false, false, false, [], ["False"], []⟩]

/-! ## where the priority of an entry is (re)computed: `prioritize(` call sites and what precedes them

For the functions of state.py through which a path — hence the application's class — or a priority changes, in source
order: every `return` / `continue`, every call of `prioritize(`, `_update_kids`, `_update_kids_of`, `_change_path`, `punt`, every
write of a `.path` / `.priority` attribute, each with the chain of guards it sits under (`ast.unparse` of the tests).
`_change_path` (state.py 819-856): the only exit before the `prioritize(side, path)` refresh is the unchanged-path one;
`_update_kids_of` re-enters `_change_path` for every kid through `sub[side].path = new_path`, skipping only entries that are
themselves being moved. -/

structure PrioItem where
  kind   : String
  guards : List String
  deriving Repr, DecidableEq

/-- the exits (`return`) that come before the first `prioritize(` call of a function, with their guards -/
def returnsBeforePrioritize (items : List PrioItem) : List (List String) :=
  ((items.takeWhile (fun i => i.kind != "prioritize")).filter (fun i => i.kind == "return")).map (·.guards)

def auditedPrioChangePath : List PrioItem := [
  ⟨"return", ["prior_path == path"]⟩,
  ⟨"write:_path", ["path", "ent[side].oid in path_ents"]⟩,
  ⟨"write:_path", ["path"]⟩,
  ⟨"_update_kids", ["path"]⟩,
  ⟨"prioritize", ["path"]⟩,
  ⟨"write:priority", ["path", "new_priority != ent.priority"]⟩]

def auditedPrioChangeOid : List PrioItem := [
  ]

def auditedPrioUpdate : List PrioItem := [
  ]

def auditedPrioUpdateEntry : List PrioItem := [
  ⟨"write:path", ["path is not None", "new_path != ent[side].path"]⟩]

def auditedPrioUpdateKids : List PrioItem := [
  ⟨"_update_kids_of", ["try"]⟩]

def auditedPrioUpdateKidsOf : List PrioItem := [
  ⟨"continue", ["ent[side].otype == DIRECTORY and prior_path != path and (not prior_path is None)", "for (sub, relative) in self.get_kids(prior_path, side)", "any((sub is moving for moving in self._kids_moving))"]⟩,
  ⟨"write:path", ["ent[side].otype == DIRECTORY and prior_path != path and (not prior_path is None)", "for (sub, relative) in self.get_kids(prior_path, side)"]⟩]

def auditedPrioGetLatest : List PrioItem := [
  ⟨"return", ["ent[side].oid is None"]⟩,
  ⟨"return", ["not info"]⟩,
  ⟨"write:path", ["ent[side].path != new_path"]⟩]

def auditedPrioSplit : List PrioItem := [
  ⟨"return", []⟩]

def auditedPrioSetItem : List PrioItem := [
  ⟨"write:path", []⟩,
  ⟨"write:_path", []⟩]

def auditedPrioPunt : List PrioItem := [
  ⟨"write:priority", []⟩]

def auditedPrioFinished : List PrioItem := [
  ⟨"return", ["ent[1].changed or ent[0].changed"]⟩,
  ⟨"write:priority", ["for e in self._changeset", "e.priority > 0 and ent.is_related_to(e)"]⟩]

end CS.SchedSites
