import Csverif.Model.Engine
/-
ENG, part 4 — REFRESH SCOPES: which entry is re-read from the providers, on which sides, before the engine decides — and the
destructive decision of `handle_rename`'s CloudFileExistsError branch made on the refreshed entry.

Branch by branch from /repo HEAD 829af71:

  * `SyncEntry.get_latest(force, sides)`                    state.py 638-643    → `getLatest` (the trigger `max(changed over the LISTED sides) >
                                                                                    _last_gotten[side]`, the stamp `_last_gotten = max_changed`)
  * `SyncState.unconditionally_get_latest`                  state.py 1398-1436  → `uncond`
  * `SyncState.unconditionally_get_no_info`                 state.py 1377-1396  → `noInfo`
  * the call sites of `get_latest` in the engine            manager.py 369, 1306, 1313, 1337, 1637; state.py 939, 1210 → `Site`, `Site.scope`
  * `SyncManager.handle_rename`, whole                       manager.py 1281-1346 → `handleRenameR` (the entry at the rename target is a real
                                                                                    entry with change stamps and `_last_gotten`, refreshed by
                                                                                    `conflict.get_latest()` before `needs_sync` is asked)
  * `pre_sync`'s refresh followed by `sync`                  manager.py 348-370   → `preSyncR`

An `RE` is an abstract entry (Model/Engine.lean) with its two change stamps and its two `_last_gotten` marks as naturals (0 = unset) and
the clock.  What a provider answers when asked for an id is a `Probe` (gone / still there with the same, the synced, or another hash
and path).  No Mathlib.
-/
namespace CS.Engine.Refresh
open CS.Hints (Ex OT Ign)
open CS.Engine

/-- `info.hash` against the entry's recorded hash (and `info.path` against its path): unchanged, now equal to the value recorded
    at the last sync, or some other value -/
inductive Ans where
  | same | newEqSync | newOther
  deriving DecidableEq, Repr

inductive Probe where
  | absent                                   -- `info_oid` returns None
  | present (h p : Ans) (ot : OT)
  deriving DecidableEq, Repr

structure World where
  probeL : Probe
  probeR : Probe
  pathIdL : Bool                             -- `providers[LOCAL].oid_is_path`
  pathIdR : Bool
  deriving DecidableEq, Repr

def World.probe (w : World) : Sd → Probe
  | .loc => w.probeL
  | .rem => w.probeR

def World.pathId (w : World) : Sd → Bool
  | .loc => w.pathIdL
  | .rem => w.pathIdR

/-- an entry with its time stamps.  `e.l.changed` / `e.r.changed` / `e.lLeR` are DERIVED from the stamps (`RE.norm`). -/
structure RE where
  e : Entry
  chL : Nat                                  -- `self[LOCAL].changed or 0`
  chR : Nat
  lgL : Nat                                  -- `self[LOCAL]._last_gotten`
  lgR : Nat
  clock : Nat                                -- the last value `time.time()` returned
  deriving DecidableEq, Repr

def RE.ch (r : RE) : Sd → Nat
  | .loc => r.chL
  | .rem => r.chR

def RE.lg (r : RE) : Sd → Nat
  | .loc => r.lgL
  | .rem => r.lgR

def RE.setCh (r : RE) (s : Sd) (t : Nat) : RE :=
  match s with
  | .loc => { r with chL := t }
  | .rem => { r with chR := t }

def RE.setLg (r : RE) (s : Sd) (t : Nat) : RE :=
  match s with
  | .loc => { r with lgL := t }
  | .rem => { r with lgR := t }

/-- the flags and the order of the entry as the stamps say -/
def RE.norm (r : RE) : RE :=
  { r with e := { r.e with l := { r.e.l with changed := r.chL != 0 }, r := { r.e.r with changed := r.chR != 0 },
                           lLeR := decide (r.chL ≤ r.chR) } }

/-- after an entry-level operation that may have taken flags down: forget the stamps of unflagged sides -/
def RE.dropCleared (r : RE) : RE :=
  { r with chL := if r.e.l.changed then r.chL else 0, chR := if r.e.r.changed then r.chR else 0 }

/-- `if ent.ignored == IgnoreReason.NONE and not ent[side].changed: ent[side].changed = time.time()` (state.py 1412-1413, 1432-1433) -/
def stampIfQuiet (r : RE) (s : Sd) : RE :=
  if r.e.ign == .no && r.ch s == 0 then
    let t := r.clock + 1
    ({ r with e := r.e.setChanged s .now, clock := t }.setCh s t).dropCleared
  else r

def applyAns (rel : Rel) (a : Ans) : Rel × Bool :=
  match a with
  | .same => (rel, false)
  | .newEqSync => if rel == .ne || rel == .ns then (.eq, true) else (rel, false)     -- only meaningful when a different synced value exists
  | .newOther => (if rel.sync then .ne else .cn, true)

/-- `unconditionally_get_no_info` (state.py 1377-1396) -/
def noInfo (pathId : Bool) (x : Side) : Side :=
  let x := if x.ex == .unknown && !pathId then x.setEx .trashed else x             -- 1378-1381
  let x := if x.ex == .likely then x.setEx .trashed else x                         -- 1383-1388
  if x.ex != .trashed then x.setEx (if pathId then .missing else .trashed) else x  -- 1390-1392

/-- state.py 1410-1413: the hash the provider reports -/
def hashStep (r : RE) (s : Sd) (ha : Ans) : RE :=
  let x := r.e.get s
  let (h', hch) := applyAns x.h ha
  if hch then
    let x1 := if x.isCorrupt then x.uncorrupt else x                               -- state.py 131-133
    stampIfQuiet { r with e := r.e.set s { x1 with h := h' } } s
  else r

/-- state.py 1417-1419: `exists = EXISTS`, `otype = info.otype` -/
def existStep (r : RE) (s : Sd) (ot : OT) : RE :=
  let x := r.e.get s
  { r with e := r.e.set s { x.setEx .present with otype := ot } }

/-- state.py 1429-1433: the path the provider reports (`_change_path` re-derives the priority when the path moves) -/
def pathStep (r : RE) (s : Sd) (pa : Ans) : RE :=
  let x := r.e.get s
  let (p', pch) := applyAns x.p pa
  if pch then stampIfQuiet { r with e := (r.e.set s { x with p := p' }).pathMoved true } s else r

/-- `unconditionally_get_latest(ent, side)` (state.py 1398-1436) -/
def uncond (w : World) (r : RE) (s : Sd) : RE :=
  let x := r.e.get s
  if !x.oid then                                                                   -- 1399-1402
    if x.ex != .trashed && x.ex != .missing then { r with e := r.e.set s (x.setEx .unknown) } else r
  else
    match w.probe s with
    | .absent => { r with e := r.e.set s (noInfo (w.pathId s) x) }                 -- 1406-1408
    | .present ha pa ot => pathStep (existStep (hashStep r s ha) s ot) s pa

/-- `SyncEntry.get_latest(force, sides)` (state.py 638-643): returns the entry and the sides that were re-read, in order -/
def getLatest (w : World) (r : RE) (scope : List Sd) (force : Bool) : RE × List Sd :=
  let m := (scope.map r.ch).foldl max 0                                            -- 639: over the LISTED sides only
  scope.foldl (fun acc s =>
    if force || m > acc.1.lg s then ((uncond w acc.1 s).setLg s m, acc.2 ++ [s])   -- 641-643
    else acc) (r, [])

/-! ### the call sites -/

inductive Site where
  | preSync                     -- manager.py 369   `sync.get_latest()`
  | renameRetry                 -- manager.py 1306  `sync.get_latest(force=True)`            (priority ≤ 0)
  | renameConflict              -- manager.py 1313  `conflict.get_latest()`                  (the entry at the rename target)
  | renameFixFnf                -- manager.py 1337  `sync.get_latest(force=True)`
  | splitDefer (d : Sd)         -- manager.py 1637  `defer_ent.get_latest(sides=(defer_side,))`
  | lookupCreation              -- state.py 939     `ent.get_latest()`
  | changeFill (s : Sd)         -- state.py 1210    `e.get_latest(sides=[side])`             (a path-less side)
  deriving DecidableEq, Repr

/-- (sides, force) of each call site -/
def Site.scope : Site → List Sd × Bool
  | .preSync => ([.loc, .rem], false)
  | .renameRetry => ([.loc, .rem], true)
  | .renameConflict => ([.loc, .rem], false)
  | .renameFixFnf => ([.loc, .rem], true)
  | .splitDefer d => ([d], false)
  | .lookupCreation => ([.loc, .rem], false)
  | .changeFill s => ([s], false)

def atSite (w : World) (r : RE) (site : Site) : RE × List Sd := getLatest w r site.scope.1 site.scope.2

/-! ### `handle_rename`, whole (manager.py 1281-1346) -/

inductive Target where
  | self | conflict
  deriving DecidableEq, Repr

structure GlCall where
  target : Target
  site : Site
  reread : List Sd
  deriving DecidableEq, Repr

structure RenRes where
  out : Out
  effs : List Eff
  calls : List GlCall
  self : RE
  conflict : Option RE
  deriving DecidableEq, Repr

/-- the entry at the rename target is "fully synced" (1314) -/
def quiet (r : RE) : Bool := !r.e.l.needsSync && !r.e.r.needsSync

/-- `handle_rename(sync, changed, synced, translated_path)`.  `o` as in Model/Engine.lean (translate answer, the provider's answer to
    the rename and to the delete, whether the first `rename_to_fix_conflict` hits CloudFileNotFoundError); `w` = what the providers
    answer about `sync`'s ids, `wc` = about the ids of the entry at the target; `cf` = that entry (the first one `lookup_path(synced,
    translated_path)` lists besides `sync`). -/
def handleRenameR (o : Oracle) (w wc : World) (me : RE) (cf : Option RE) (c : Sd) : RenRes :=
  let s := c.other
  let t := o.tr s
  let sy := me.e.get s
  if t.eqSync sy.p then ⟨.ret .finished, [], [], me, cf⟩                          -- 1285-1286
  else if !(sy.h.sync || sy.otype == .dir) then ⟨.raised .assertion, [], [], me, cf⟩   -- 1288
  else if t.matchSync sy.p then ⟨.ret .finished, [], [], me, cf⟩                   -- 1290-1292
  else
    match o.ren with
    | .exists_ =>                                                                 -- 1303-1341
      if me.e.prio ≤ 0 then                                                       -- 1305-1306
        let (me', rr) := atSite w me .renameRetry
        ⟨.ret .punt, [.rename s, .getLatestForce], [⟨.self, .renameRetry, rr⟩], me', cf⟩
      else
        -- 1332-1339: `rename_to_fix_conflict`, on CloudFileNotFoundError a forced refresh of `sync`, then the call again
        let fix (calls : List GlCall) (fx : List Eff) (cf' : Option RE) : RenRes :=
          if o.fixFnf then
            let me := match cf' with | some k => { me with clock := k.clock } | none => me     -- one clock for the whole table
            let (me', rr) := atSite w me .renameFixFnf
            ⟨.ret .punt, fx ++ [.conflictRename s, .getLatestForce, .conflictRename s], calls ++ [⟨.self, .renameFixFnf, rr⟩], me', cf'⟩
          else ⟨.ret .punt, fx ++ [.conflictRename s, .conflictRename s], calls, me, cf'⟩
        match cf with
        | none => fix [] [.rename s] none                                         -- 1329-1330
        | some k =>
          let (k', rr) := atSite wc k .renameConflict                             -- 1313
          let calls := [GlCall.mk .conflict .renameConflict rr]
          if quiet k' then                                                        -- 1314
            if !o.rcDelExists then                                                -- 1317-1325: delete the copy at the target
              let e1 := k'.e.set s ((k'.e.get s).setEx .trashed)                  -- 1319
              let e2 := if !(e1.get c).oid then e1.setIgn .discarded else e1      -- 1320-1324
              ⟨.ret .punt, [.rename s, .deleteOther s], calls, me, some ({ k' with e := e2 }.dropCleared)⟩
            else fix calls [.rename s, .deleteOther s] (some k')                  -- 1326-1327
          else fix calls [.rename s] (some k')                                    -- 1328
    | _ =>
      let r := handleRename o me.e c                                              -- the other answers: Model/Engine.lean
      ⟨r.out, r.effs, [], { me with e := r.ent }, cf⟩

/-! ### `pre_sync`'s refresh (manager.py 369) -/

/-- what `sync` gets to see: the entry after `sync.get_latest()` -/
def preSyncR (w : World) (r : RE) : RE × List Sd := atSite w r .preSync

/-! ### the path fill-in of `SyncState.change` (state.py 1207-1210) -/

def needsFill (x : Side) : Bool := !x.p.cur && (x.ex == .present || x.ex == .unknown)

/-- `for side in (LOCAL, REMOTE): if not e[side].path and e[side].exists in (EXISTS, UNKNOWN): e.get_latest(sides=[side])` -/
def changeFillR (w : World) (r : RE) : RE × List GlCall :=
  [Sd.loc, Sd.rem].foldl (fun acc s =>
    if needsFill (acc.1.e.get s) then
      let (r', rr) := atSite w acc.1 (.changeFill s)
      (r', acc.2 ++ [⟨.self, .changeFill s, rr⟩])
    else acc) (r, [])

end CS.Engine.Refresh
