/-
Model of the scheduling part of cloudsync/sync/state.py (property C17).

Entry level (pure functions on one `Entry`, returning the entry and the list of changeset actions
`true = add(ent)`, `false = discard(ent)` issued by the attribute hooks, in order):
* `setChangedA`   — assignment `ent[side].changed = val`: the `changed` branch of `SyncState.updated`
                    (state.py:794-800: changeset membership; an id-less other side loses its stale flag
                    by a direct `_changed = 0` write) followed by the field write
* `setPriorityA`  — `SyncEntry.__setattr__` (state.py:355-362) + the `priority` branch of `updated`
                    (state.py:801-807): a priority that *rises* to a positive value shifts the change time of
                    every changed side by `_punt_secs[side]` (each shift is a hooked `changed` write)
* `puntE`         — `SyncEntry.punt`                   state.py:634-636
* `markA`         — `SyncState.mark_changed`           state.py:1036-1046
* `setOidA`, `setPathA`, `updateA` — the slice of `_change_oid` (886-923), `_change_path` (819-853),
                    `update`/`update_entry` (1132-1185, 985-1034) used to build tables: `prior_oid=None`, `exists=True`,
                    FILE entries (`_update_kids` is a no-op), ids never removed or moved between entries
* `getLatestA`, `fillSideA`, `fillEntryA` — `SyncEntry.get_latest(sides=[side])` (638-643) with
                    `unconditionally_get_latest` / `unconditionally_get_no_info` (1367-1426) for an id-style provider;
                    the provider's answer `info_oid(oid)` is a parameter (`none` = no such object, `some (path, prio)` =
                    the object's path and `prioritize(side, path)`; same hash and type as recorded)
State level:
* `St.withE`      — apply an entry-level function to the entry with a given id and replay its changeset actions
* `fillIn`, `changeFull` — the "fill in path if needed" loop at the head of `SyncState.change` (1197-1200), then
* `change`        — the selection itself               state.py:1187-1218 (`shuffle = False`)
* `opFinished`    — `SyncState.finished`               state.py:1220-1237 with `SyncEntry.is_related_to` 659-666
* `Op`, `applyOp`, `runOps` — the calls above as a datatype, for statements about every reachable state

Times and priorities are `Rat` (the implementation computes in binary floating point; the tie
compares with a tolerance and that is in the trusted base).  A `changed` field is `Option Rat`:
`none` = Python `None`; Python's falsy numbers `0`, `0.0`, `False` are `some 0`.
The changeset is a Python `set` of entries; the harness injects an insertion-ordered set into
`cloudsync.sync.state`, and the model keeps the same order as a list of entry ids (`pending`).
`sorted` is stable, so ties in the sort key are resolved by that order.
Paths are opaque strings; `dirname` is a parameter (`dn`).
Not modelled: `shuffle=True` (random sort key); removal of an id (`ent[side].oid = None`); DIRECTORY
entries whose path changes; a provider answer whose hash/type differs from the recorded one.
-/
namespace CS.Sched

/-- Python truthiness of a `changed` value -/
def truthy : Option Rat → Bool
  | some x => x != 0
  | none => false

/-- `x or 0` -/
def orZero : Option Rat → Rat
  | some x => x
  | none => 0

/-- Python truthiness of an optional string (`None` and `""` are falsy) -/
def truthyS : Option String → Bool
  | some s => s != ""
  | none => false

/-- `Exists` as far as the fill-in loop cares: `trashed` stands for TRASHED or MISSING -/
inductive Ex where
  | unknown | exists | trashed | likelyTrashed
  deriving Repr, DecidableEq

/-- `exists in (EXISTS, UNKNOWN)` -/
def Ex.fillable : Ex → Bool
  | .unknown => true
  | .exists => true
  | _ => false

structure Side where
  changed    : Option Rat := none
  oid        : Option String := none
  path       : Option String := none
  syncPath   : Option String := none
  ex         : Ex := .unknown             -- `exists`
  lastGotten : Rat := 0                   -- `_last_gotten`
  dir        : Bool := false              -- `otype == DIRECTORY`
  deriving Repr, DecidableEq

structure Entry where
  id       : Nat
  priority : Rat := 0
  l        : Side := {}
  r        : Side := {}
  deriving Repr, DecidableEq

/-- side index: `false` = LOCAL (0), `true` = REMOTE (1) -/
def Entry.side (e : Entry) (s : Bool) : Side := if s then e.r else e.l

def Entry.setSide (e : Entry) (s : Bool) (x : Side) : Entry :=
  if s then { e with r := x } else { e with l := x }

/-! ## `SyncState.change` -/

/-- second component of the sort key: `max(a[LOCAL].changed or 0, a[REMOTE].changed or 0)` -/
def keyTime (e : Entry) : Rat := max (orZero e.l.changed) (orZero e.r.changed)

/-- tuple comparison `(priority, time) < (priority', time')` -/
def keyLt (a b : Entry) : Bool :=
  a.priority < b.priority || (a.priority == b.priority && keyTime a < keyTime b)

def keyLe (a b : Entry) : Bool := !keyLt b a

/-- stable insertion: `a` came *before* the elements of `l` in the input, so it goes in front of
    every element that is not strictly smaller -/
def insertKey (a : Entry) : List Entry → List Entry
  | [] => [a]
  | b :: l => if keyLe a b then a :: b :: l else b :: insertKey a l

/-- `sorted(change_set, key=sort_key)` — the unique stable sort -/
def sortKey : List Entry → List Entry
  | [] => []
  | a :: l => insertKey a (sortKey l)

/-- `e[side].changed and (e[side].changed <= earlier_than)` -/
def sideAged (c : Option Rat) (earlier : Rat) : Bool := truthy c && orZero c ≤ earlier

/-- the test in the loop of `change` (state.py:1211-1213) -/
def eligible (e : Entry) (now age : Rat) : Bool :=
  sideAged e.l.changed (now - age) || sideAged e.r.changed (now - age) || e.priority < 0

/-- state.py:1187-1218 with `shuffle = False`; `P` is the changeset in iteration order -/
def change (P : List Entry) (now age : Rat) : Option Entry :=
  if P.isEmpty then none
  else (sortKey P).find? (fun e => eligible e now age)

/-! ## attribute writes at the level of one entry -/

/-- changeset actions issued by the hooks, in order: `true` = `add(ent)`, `false` = `discard(ent)` -/
abbrev Acts := List Bool

/-- the test of the `changed` branch (state.py:795): reads this side's *new* value and the other
    side's current one -/
def hookKeep (e : Entry) (s : Bool) (val : Option Rat) : Bool :=
  (truthy val && truthyS (e.side s).oid) || (truthy (e.side (!s)).changed && truthyS (e.side (!s)).oid)

/-- `ent[s].changed = val` (state.py:794-800, then `SideState.__setattr__` writes the field) -/
def setChangedA (e : Entry) (s : Bool) (val : Option Rat) : Entry × Acts :=
  let keep := hookKeep e s val
  let ot := e.side (!s)
  -- "otherwise there is a change that is not in the changeset": direct write, no hook
  let e1 := if !keep && (truthy ot.changed && !truthyS ot.oid) then e.setSide (!s) { ot with changed := some 0 } else e
  (e1.setSide s { e1.side s with changed := val }, [keep])

/-- `if ent[s].changed: ent[s].changed += punt_secs[s]` -/
def bumpA (p : Rat × Rat) (x : Entry × Acts) (s : Bool) : Entry × Acts :=
  if truthy (x.1.side s).changed then
    let y := setChangedA x.1 s (some (orZero (x.1.side s).changed + (if s then p.2 else p.1)))
    (y.1, x.2 ++ y.2)
  else x

/-- `ent.priority = v`: no-op when equal (`__setattr__` guard), shift when rising to a positive value -/
def setPriorityA (p : Rat × Rat) (e : Entry) (v : Rat) : Entry × Acts :=
  if e.priority == v then (e, [])
  else
    let x := if v > e.priority && v > 0 then bumpA p (bumpA p (e, []) false) true else (e, [])
    ({ x.1 with priority := v }, x.2)

def setPriorityE (p : Rat × Rat) (e : Entry) (v : Rat) : Entry := (setPriorityA p e v).1

/-- `SyncEntry.punt` -/
def puntE (punt : Rat × Rat) (e : Entry) : Entry := setPriorityE punt e (e.priority + 1)

def puntK (punt : Rat × Rat) : Nat → Entry → Entry
  | 0, e => e
  | k+1, e => puntK punt k (puntE punt e)

/-- the timestamp `mark_changed` issues when the clock reads `now` -/
def stamp (last now : Rat) : Rat := if now ≤ last then last + 1/1000 else now

/-- state.py:1036-1046 (`last` = `_last_changed_time` before the call) -/
def markA (last now : Rat) (e : Entry) (s : Bool) : Entry × Acts :=
  let x := setChangedA e s (some now)                          -- ent[side].changed = time.time()
  if now ≤ last then
    let y := setChangedA x.1 s (some (last + 1/1000))          -- ent[side].changed = last + 0.001
    (y.1, x.2 ++ y.2)
  else x

/-- `ent[s].oid = oid` (not `None`) for an oid no other entry holds: "ent with oid goes in changeset"
    when either side is changed (state.py:915-919) -/
def setOidA (e : Entry) (s : Bool) (oid : String) : Entry × Acts :=
  (e.setSide s { e.side s with oid := some oid },
   if truthy (e.side s).changed || truthy (e.side (!s)).changed then [true] else [])

/-- `ent[s].path = path` (state.py:819-853): nothing when unchanged; `prioritize` is consulted only
    for a non-empty path and its answer written only when different -/
def setPathA (p : Rat × Rat) (e : Entry) (s : Bool) (path : String) (prio : Rat) : Entry × Acts :=
  if (e.side s).path == some path then (e, [])
  else
    let e1 := e.setSide s { e.side s with path := some path }
    if path == "" then (e1, []) else setPriorityA p e1 prio

def seqA (x : Entry × Acts) (f : Entry → Entry × Acts) : Entry × Acts :=
  let y := f x.1
  (y.1, x.2 ++ y.2)

/-- `update_entry(ent, side, oid, path=path, file_hash=h, exists=True, changed=time.time(), otype=FILE)`;
    `prio` = `prioritize(side, path)`, `now` the clock reading -/
def updateA (p : Rat × Rat) (last now : Rat) (e : Entry) (s : Bool) (oid : String) (path : Option String)
    (prio : Rat) : Entry × Acts :=
  let x1 := setOidA e s oid
  let x2 := match path with
    | some pth => seqA x1 (fun e => setPathA p e s pth prio)
    | none => x1
  -- a tombstone survives an "exists" event as LIKELY_TRASHED (state.py:1016-1024)
  let x3 : Entry × Acts :=
    (x2.1.setSide s { x2.1.side s with
        ex := if (x2.1.side s).ex == .trashed || (x2.1.side s).ex == .likelyTrashed then .likelyTrashed else .exists }, x2.2)
  if now != 0 then seqA x3 (fun e => markA last now e s) else x3     -- `if changed:` with changed = time.time()

/-- `e.get_latest(sides=[s])`; `ans` is what `providers[s].info_oid(oid)` returns -/
def getLatestA (p : Rat × Rat) (now : Rat) (ans : Option (String × Rat)) (e : Entry) (s : Bool) : Entry × Acts :=
  let sd := e.side s
  let mc := orZero sd.changed                                       -- max([self[side].changed or 0])
  if mc > sd.lastGotten then
    let x : Entry × Acts :=
      if sd.oid == none then
        (e.setSide s { sd with ex := if sd.ex == .trashed then .trashed else .unknown }, [])
      else
        match ans with
        | none => (e.setSide s { sd with ex := .trashed }, [])     -- unconditionally_get_no_info, id-style provider
        | some (path, prio) =>
          let e1 := e.setSide s { sd with ex := .exists }
          if (e1.side s).path == some path then (e1, [])
          else
            let y := setPathA p e1 s path prio
            if truthy (y.1.side s).changed then y else seqA y (fun e => setChangedA e s (some now))
    (x.1.setSide s { x.1.side s with lastGotten := mc }, x.2)
  else (e, [])

/-- body of the fill-in loop for one side (state.py:1198-1200) -/
def fillSideA (p : Rat × Rat) (now : Rat) (ans : Option (String × Rat)) (e : Entry) (s : Bool) : Entry × Acts :=
  if !truthyS (e.side s).path && (e.side s).ex.fillable then getLatestA p now ans e s else (e, [])

def fillEntryA (p : Rat × Rat) (now : Rat) (ansL ansR : Option (String × Rat)) (e : Entry) : Entry × Acts :=
  seqA (fillSideA p now ansL e false) (fun e => fillSideA p now ansR e true)

/-! ## `is_related_to` -/

def relAttr (dn : String → String) (x y : Option String) : Bool :=
  (truthyS x && y == x.map dn) || (truthyS y && x == y.map dn)

/-- state.py:659-666 (both sides use `providers[LOCAL].dirname`) -/
def related (dn : String → String) (a b : Entry) : Bool :=
  relAttr dn a.l.path b.l.path || relAttr dn a.l.syncPath b.l.syncPath ||
  relAttr dn a.r.path b.r.path || relAttr dn a.r.syncPath b.r.syncPath

/-! ## the state -/

structure St where
  ents       : List Entry := []       -- every entry, in creation order; `id` = position
  pending    : List Nat := []         -- `_changeset_storage` as an insertion-ordered set of ids
  last       : Rat := 0               -- `_last_changed_time`
  punt       : Rat × Rat := (0, 0)    -- `_punt_secs`
  unmodelled : Bool := false
  deriving Repr

def St.get? (st : St) (id : Nat) : Option Entry := st.ents.find? (·.id == id)

/-- replace the entry carrying `e'.id` -/
def St.put (st : St) (e' : Entry) : St :=
  { st with ents := st.ents.map (fun x => if x.id == e'.id then e' else x) }

def addId (p : List Nat) (id : Nat) : List Nat := if p.contains id then p else p ++ [id]
def discardId (p : List Nat) (id : Nat) : List Nat := p.filter (· != id)

/-- replay changeset actions on entry `id` -/
def St.act (st : St) (id : Nat) (acts : Acts) : St :=
  { st with pending := acts.foldl (fun p a => if a then addId p id else discardId p id) st.pending }

/-- apply an entry-level write to the entry `id` -/
def St.withE (st : St) (id : Nat) (f : Entry → Entry × Acts) : St :=
  match st.get? id with
  | none => st
  | some e => ((st.put (f e).1).act id (f e).2)

/-- the changeset as entries, in iteration order -/
def St.pendingEntries (st : St) : List Entry := st.pending.filterMap st.get?

def changeSt (st : St) (now age : Rat) : Option Entry := change st.pendingEntries now age

def setChanged (st : St) (id : Nat) (s : Bool) (val : Option Rat) : St :=
  st.withE id (fun e => setChangedA e s val)

def markChanged (st : St) (s : Bool) (id : Nat) (now : Rat) : St :=
  match st.get? id with
  | none => st
  | some _ => { st.withE id (fun e => markA st.last now e s) with last := stamp st.last now }

def setPriority (st : St) (id : Nat) (v : Rat) : St := st.withE id (fun e => setPriorityA st.punt e v)

def opPunt (st : St) (id : Nat) : St := st.withE id (fun e => setPriorityA st.punt e (e.priority + 1))

/-- `SideState.set_aged`: `self.changed = 1` (state.py:161-163) -/
def opSetAged (st : St) (s : Bool) (id : Nat) : St := setChanged st id s (some 1)

/-- `sync[side].changed = 0` (manager.py:480) -/
def opClear (st : St) (s : Bool) (id : Nat) : St := setChanged st id s (some 0)

def opSyncPath (st : St) (s : Bool) (id : Nat) (p : String) : St :=
  st.withE id (fun e => (e.setSide s { e.side s with syncPath := some p }, []))

/-- state.py:1220-1237 (the `force_sync` resets do not concern scheduling).  The loop
    `for e in self._changeset: if e.priority > 0 and ent.is_related_to(e): e.priority = 0` touches only `e` in each
    iteration and never the changeset (a priority that falls shifts no change time), so it is a map over the entries. -/
def opFinished (dn : String → String) (st : St) (id : Nat) : St :=
  match st.get? id with
  | none => st
  | some ent =>
    if truthy ent.r.changed || truthy ent.l.changed then st       -- "not marking finished"
    else
      let st1 := st.act id [false]
      { st1 with ents := st1.ents.map (fun e =>
          if st1.pending.contains e.id && (e.priority > 0 && related dn ent e) then setPriorityE st1.punt e 0 else e) }

/-! ## table building -/

def lookupOid (st : St) (s : Bool) (oid : String) : Option Entry :=
  st.ents.find? (fun e => (e.side s).oid == some oid)

/-- `SyncState.update(side, FILE, oid, path=path, hash=h)` with the clock reading `now`;
    `prio` is `prioritize(side, path)`.  Returns the id of the entry used. -/
def opUpdate (st : St) (s : Bool) (oid : String) (path : Option String) (prio now : Rat) : St × Nat :=
  let (st0, id) := match lookupOid st s oid with
    | some e => (st, e.id)
    | none => ({ st with ents := st.ents ++ [({ id := st.ents.length } : Entry)] }, st.ents.length)
  let st1 := st0.withE id (fun e => updateA st.punt st.last now e s oid path prio)
  ({ st1 with last := if now != 0 then stamp st.last now else st.last }, id)

/-- give entry `id` its other side the way the engine does after a sync:
    `ent[s].oid = oid; ent[s].path = path`; an oid held by another entry is outside the slice -/
def opAttach (st : St) (s : Bool) (id : Nat) (oid path : String) (prio : Rat) : St :=
  let clash := match lookupOid st s oid with
    | some o => o.id != id
    | none => false
  let st0 := if clash then { st with unmodelled := true } else st
  st0.withE id (fun e => seqA (setOidA e s oid) (fun e => setPathA st.punt e s path prio))

/-! ## folders: a path change carries the descendants along (`_update_kids`), each re-prioritised from its NEW path -/

/-- the application's `prioritize(side, path)` -/
abbrev Cls := Bool → String → Rat

/-- `provider.is_subpath(parent, p, strict=True)` for a case-sensitive provider with separator '/': the rest of `p`
    (with its leading separator) when `p` lies strictly beneath `parent` (provider.py:549-581) -/
def relUnder (parent p : String) : Option String :=
  let a := parent.toList
  let b := p.toList
  if a.isEmpty then none
  else if a.isPrefixOf b && (b.drop a.length).head? == some '/' then some (String.ofList (b.drop a.length))
  else none

/-- `provider.join(path, relative)` for such a relative part -/
def joinRel (path rel : String) : String := path ++ rel

/-- `get_all()`: entries indexed by an id on either side -/
def inGetAll (e : Entry) : Bool := e.l.oid.isSome || e.r.oid.isSome

/-- one iteration of the loop of `_update_kids_of` (state.py 869-900) over the snapshot `sub0` of `get_all()`; `recur` is the
    recursive `sub[s].path = new_path` -/
def kidStep (recur : St → Nat → String → St) (oipS : Bool) (skip : List Nat) (s : Bool) (pp path : String)
    (acc : St) (sub0 : Entry) : St :=
  if skip.contains sub0.id then acc                          -- `any(sub is moving for moving in self._kids_moving)`
  else
    match acc.get? sub0.id with
    | none => acc
    | some sub =>
      match (sub.side s).path.bind (relUnder pp) with       -- `get_kids`: path strictly beneath the previous path
      | none => acc
      | some rel =>
        let np := joinRel path rel
        -- path-id provider: `new_info = provider.info_path(new_path); if new_info: sub[side].oid = new_info.oid`
        let acc1 := if oipS then acc.withE sub.id (fun e => setOidA e s np) else acc
        let acc2 := recur acc1 sub.id np
        -- the synced path follows
        match (sub.side s).syncPath.bind (relUnder pp) with
        | some srel =>
          acc2.withE sub.id (fun e => (e.setSide s { e.side s with syncPath := some (joinRel path srel) }, []))
        | none => acc2

/-- `ent[s].path = path` on the state (state.py `_change_path` 819-856, `_update_kids` / `_update_kids_of` 858-900):
    nothing when unchanged; the path is written; for a DIRECTORY whose previous path was known every entry of `get_all()`
    whose path on this side lies strictly beneath the previous path and which is not itself being moved (the `_kids_moving`
    stack, `moving`) gets `sub[s].path = join(path, relative)` — recursively this very function, so a kid is re-prioritised
    from its new path and a kid folder carries its own kids — (on a path-id provider its id is first re-read: `oip`), then its
    synced path is moved likewise; finally `prioritize(s, path)` is consulted for the entry itself and written when different.
    `fuel` bounds the nesting depth (number of entries + 1 suffices: every level pushes a distinct entry). -/
def changePath (cls : Cls) (oip : Bool × Bool) : Nat → List Nat → St → Nat → Bool → String → St
  | 0, _, st, _, _, _ => { st with unmodelled := true }
  | fuel + 1, moving, st, id, s, path =>
    match st.get? id with
    | none => st
    | some e =>
      if (e.side s).path == some path then st
      else
        let st1 := st.withE id (fun e => (e.setSide s { e.side s with path := some path }, []))
        if path == "" then st1
        else
          let st2 :=
            match (e.side s).path with
            | some pp =>
              if (e.side s).dir then
                (st1.ents.filter inGetAll).foldl
                  (kidStep (fun a i p => changePath cls oip fuel (id :: moving) a i s p) (if s then oip.2 else oip.1)
                    (id :: moving) s pp path) st1
              else st1
            | none => st1
          st2.withE id (fun e => setPriorityA st2.punt e (cls s path))

/-- `SyncState.update(side, DIRECTORY, oid, path=path)`: a folder appears, or is renamed / moved.
    `prior`: the `prior_oid` of a path-id provider's rename event (the entry known under it is reused when no entry
    has the new id yet; state.py 1151-1176, the branch without a pre-existing entry) -/
def dirTarget (st : St) (s : Bool) (oid : String) (prior : Option String) : Option Entry :=
  match lookupOid st s oid, prior with
  | some e, _ => some e
  | none, some po => lookupOid st s po
  | none, none => none

def opUpdateDir (cls : Cls) (oip : Bool × Bool) (st : St) (s : Bool) (oid : String) (prior : Option String) (path : String)
    (now : Rat) : St × Nat :=
  let (st0, id) := match dirTarget st s oid prior with
    | some e => (st, e.id)
    | none =>
      -- `SyncEntry(self, DIRECTORY)`: both sides start as DIRECTORY
      ({ st with ents := st.ents ++ [({ id := st.ents.length, l := { dir := true }, r := { dir := true } } : Entry)] }, st.ents.length)
  let st1 := st0.withE id (fun e => setOidA (e.setSide s { e.side s with dir := true }) s oid)
  let st2 := changePath cls oip (st1.ents.length + 1) [] st1 id s path
  let st3 := st2.withE id (fun e =>
    let e3 := e.setSide s { e.side s with
      ex := if (e.side s).ex == .trashed || (e.side s).ex == .likelyTrashed then .likelyTrashed else .exists }
    if now != 0 then markA st.last now e3 s else (e3, []))
  ({ st3 with last := if now != 0 then stamp st.last now else st.last }, id)

/-! ## the fill-in loop of `change` -/

/-- what the providers answer for (entry id, side) -/
abbrev Oracle := Nat → Bool → Option (String × Rat)

/-- state.py:1197-1200: for every pending entry and side without a path whose `exists` is EXISTS or
    UNKNOWN, `get_latest(sides=[side])`.  The loop iterates over the changeset; a write that changed the
    changeset's membership would abort the Python iteration, hence the flag. -/
def fillIn (orc : Oracle) (now : Rat) (st : St) : St :=
  let st' := st.pending.foldl (fun acc id =>
    acc.withE id (fun e => fillEntryA acc.punt now (orc id false) (orc id true) e)) st
  if st'.pending != st.pending then { st' with unmodelled := true } else st'

/-- `SyncState.change(age)` in full: fill in, sort, first eligible -/
def changeFull (orc : Oracle) (st : St) (now age : Rat) : St × Option Entry :=
  let st' := fillIn orc now st
  (st', changeSt st' now age)

/-! ## calls as data -/

inductive Op where
  | update (s : Bool) (oid : String) (path : Option String) (prio now : Rat)
  | attach (s : Bool) (id : Nat) (oid path : String) (prio : Rat)
  | mark (s : Bool) (id : Nat) (now : Rat)
  | punt (id : Nat)
  | setprio (id : Nat) (v : Rat)
  | clear (s : Bool) (id : Nat)
  | setaged (s : Bool) (id : Nat)
  | syncpath (s : Bool) (id : Nat) (p : String)
  | finished (id : Nat)
  | fill (orc : Oracle) (now : Rat)
  | updateDir (cls : Cls) (oip : Bool × Bool) (s : Bool) (oid : String) (prior : Option String) (path : String) (now : Rat)

def applyOp (dn : String → String) (st : St) : Op → St
  | .update s oid path prio now => (opUpdate st s oid path prio now).1
  | .attach s id oid path prio => opAttach st s id oid path prio
  | .mark s id now => markChanged st s id now
  | .punt id => opPunt st id
  | .setprio id v => setPriority st id v
  | .clear s id => opClear st s id
  | .setaged s id => opSetAged st s id
  | .syncpath s id p => opSyncPath st s id p
  | .finished id => opFinished dn st id
  | .fill orc now => fillIn orc now st
  | .updateDir cls oip s oid prior path now => (opUpdateDir cls oip st s oid prior path now).1

def runOps (dn : String → String) (st : St) (ops : List Op) : St := ops.foldl (applyOp dn) st

end CS.Sched
