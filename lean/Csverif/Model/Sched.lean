/-
Model of the scheduling part of cloudsync/sync/state.py (property C17).

* `change`        — `SyncState.change(age)`            state.py:1174-1205
* `markChanged`   — `SyncState.mark_changed`           state.py:1028-1038
* `setPriority`   — `SyncEntry.__setattr__` (state.py:355-362) + the `priority` branch of
                    `SyncState.updated` (state.py:794-800): a priority that *rises* to a positive
                    value shifts the change time of every changed side by `_punt_secs[side]`
* `punt`          — `SyncEntry.punt`                   state.py:634-636
* `setChanged`    — assignment to `ent[side].changed`: the `changed` branch of `SyncState.updated`
                    (state.py:787-793, changeset membership) followed by the field write
* `opFinished`    — `SyncState.finished`               state.py:1207-1224 with `SyncEntry.is_related_to` 659-666
* `opSetAged`     — `SideState.set_aged`               state.py:161-163
* `opUpdate`, `opAttach`, `setPath`, `setOid` — the slice of `SyncState.update`/`update_entry`/
                    `_change_path`/`_change_oid` (state.py:1119-1172, 978-1026, 812-846, 879-916) that the
                    correspondence harness uses to *build* tables of pending entries: `prior_oid=None`,
                    `exists=True`, FILE entries (so `_update_kids` is a no-op), oids never removed or moved
                    between entries.  Everything outside that slice sets the flag `unmodelled`.

Times and priorities are `Rat` (the implementation computes in binary floating point; the tie
compares with a tolerance and that is in the trusted base).  A `changed` field is `Option Rat`:
`none` = Python `None`; Python's falsy numbers `0`, `0.0`, `False` are `some 0`.
The changeset is a Python `set` of entries; the harness injects an insertion-ordered set into
`cloudsync.sync.state`, and the model keeps the same order as a list of entry ids (`pending`).
`sorted` is stable, so ties in the sort key are resolved by that order.
Paths are opaque strings; `dirname` is a parameter (`dn`).
Not modelled: `shuffle=True` (random sort key); the "fill in missing paths" loop at the head of
`change` (state.py:1184-1187: a no-op whenever every changed side already has a path).
-/
namespace CS.Sched

/-- Python truthiness of a `changed` value -/
def truthy : Option Rat → Bool
  | some x => x != 0
  | none => false

/-- `x or 0` -/
def orZero : Option Rat → Rat
  | some x => x
  | none => 0

/-- Python truthiness of an optional string (`None` and `""` are falsy) -/
def truthyS : Option String → Bool
  | some s => s != ""
  | none => false

structure Side where
  changed  : Option Rat := none
  oid      : Option String := none
  path     : Option String := none
  syncPath : Option String := none
  deriving Repr, DecidableEq

structure Entry where
  id       : Nat
  priority : Rat := 0
  l        : Side := {}
  r        : Side := {}
  deriving Repr, DecidableEq

/-- side index: `false` = LOCAL (0), `true` = REMOTE (1) -/
def Entry.side (e : Entry) (s : Bool) : Side := if s then e.r else e.l

def Entry.setSide (e : Entry) (s : Bool) (x : Side) : Entry :=
  if s then { e with r := x } else { e with l := x }

/-! ## `SyncState.change` -/

/-- second component of the sort key: `max(a[LOCAL].changed or 0, a[REMOTE].changed or 0)` -/
def keyTime (e : Entry) : Rat := max (orZero e.l.changed) (orZero e.r.changed)

/-- tuple comparison `(priority, time) < (priority', time')` -/
def keyLt (a b : Entry) : Bool :=
  a.priority < b.priority || (a.priority == b.priority && keyTime a < keyTime b)

def keyLe (a b : Entry) : Bool := !keyLt b a

/-- stable insertion: `a` came *before* the elements of `l` in the input, so it goes in front of
    every element that is not strictly smaller -/
def insertKey (a : Entry) : List Entry → List Entry
  | [] => [a]
  | b :: l => if keyLe a b then a :: b :: l else b :: insertKey a l

/-- `sorted(change_set, key=sort_key)` — the unique stable sort -/
def sortKey : List Entry → List Entry
  | [] => []
  | a :: l => insertKey a (sortKey l)

/-- `e[side].changed and (e[side].changed <= earlier_than)` -/
def sideAged (c : Option Rat) (earlier : Rat) : Bool := truthy c && orZero c ≤ earlier

/-- the test in the loop of `change` (state.py:1198-1200) -/
def eligible (e : Entry) (now age : Rat) : Bool :=
  sideAged e.l.changed (now - age) || sideAged e.r.changed (now - age) || e.priority < 0

/-- state.py:1174-1205 with `shuffle = False`; `P` is the changeset in iteration order -/
def change (P : List Entry) (now age : Rat) : Option Entry :=
  if P.isEmpty then none
  else (sortKey P).find? (fun e => eligible e now age)

/-! ## priority writes (punting) at the level of one entry -/

/-- `ent[side].changed += d` guarded by `if ent[side].changed:` -/
def bump (s : Side) (d : Rat) : Side :=
  if truthy s.changed then { s with changed := some (orZero s.changed + d) } else s

/-- `ent.priority = v`: no-op when equal (`__setattr__` guard), shift when rising to a positive value -/
def setPriorityE (punt : Rat × Rat) (e : Entry) (v : Rat) : Entry :=
  if e.priority == v then e
  else
    let e1 := if v > e.priority && v > 0 then { e with l := bump e.l punt.1, r := bump e.r punt.2 } else e
    { e1 with priority := v }

/-- `SyncEntry.punt` -/
def puntE (punt : Rat × Rat) (e : Entry) : Entry := setPriorityE punt e (e.priority + 1)

def puntK (punt : Rat × Rat) : Nat → Entry → Entry
  | 0, e => e
  | k+1, e => puntK punt k (puntE punt e)

/-! ## `is_related_to` -/

def relAttr (dn : String → String) (x y : Option String) : Bool :=
  (truthyS x && y == x.map dn) || (truthyS y && x == y.map dn)

/-- state.py:659-666 (both sides use `providers[LOCAL].dirname`) -/
def related (dn : String → String) (a b : Entry) : Bool :=
  relAttr dn a.l.path b.l.path || relAttr dn a.l.syncPath b.l.syncPath ||
  relAttr dn a.r.path b.r.path || relAttr dn a.r.syncPath b.r.syncPath

/-! ## the state -/

structure St where
  ents       : List Entry := []       -- every entry, in creation order; `id` = position
  pending    : List Nat := []         -- `_changeset_storage` as an insertion-ordered set of ids
  last       : Rat := 0               -- `_last_changed_time`
  punt       : Rat × Rat := (0, 0)    -- `_punt_secs`
  unmodelled : Bool := false
  deriving Repr

def St.get? (st : St) (id : Nat) : Option Entry := st.ents.find? (·.id == id)

def St.mapId (st : St) (id : Nat) (f : Entry → Entry) : St :=
  { st with ents := st.ents.map (fun e => if e.id == id then f e else e) }

def St.add (st : St) (id : Nat) : St :=
  if st.pending.contains id then st else { st with pending := st.pending ++ [id] }

def St.discard (st : St) (id : Nat) : St :=
  { st with pending := st.pending.filter (· != id) }

/-- the changeset as entries, in iteration order -/
def St.pendingEntries (st : St) : List Entry := st.pending.filterMap st.get?

def changeSt (st : St) (now age : Rat) : Option Entry := change st.pendingEntries now age

/-- `ent[s].changed = val`: hook (state.py:787-793), then the write.  The hook reads the *other*
    side's current value and this side's *new* value. -/
def setChanged (st : St) (id : Nat) (s : Bool) (val : Option Rat) : St :=
  match st.get? id with
  | none => st
  | some e =>
    let me := e.side s
    let ot := e.side (!s)
    let st1 :=
      if (truthy val && truthyS me.oid) || (truthy ot.changed && truthyS ot.oid) then st.add id
      else
        let st' := st.discard id
        -- `ent[other].changed = 0` re-enters the hook; outside the modelled slice
        if truthy ot.changed && !truthyS ot.oid then { st' with unmodelled := true } else st'
    st1.mapId id (fun e => e.setSide s { e.side s with changed := val })

/-- the timestamp `mark_changed` issues when the clock reads `now` -/
def stamp (last now : Rat) : Rat := if now ≤ last then last + 1/1000 else now

/-- state.py:1028-1038 -/
def markChanged (st : St) (s : Bool) (id : Nat) (now : Rat) : St :=
  match st.get? id with
  | none => st
  | some _ =>
    let st1 := setChanged st id s (some now)                        -- ent[side].changed = time.time()
    let st2 := if now ≤ st.last then setChanged st1 id s (some (st.last + 1/1000)) else st1
    { st2 with last := stamp st.last now }                           -- _last_changed_time = ent[side].changed

/-- one `ent[s].changed += punt[s]` of the priority branch -/
def bumpSt (st : St) (id : Nat) (s : Bool) : St :=
  match st.get? id with
  | none => st
  | some e =>
    if truthy (e.side s).changed then
      setChanged st id s (some (orZero (e.side s).changed + (if s then st.punt.2 else st.punt.1)))
    else st

/-- `ent.priority = v` on the state: same entry-level effect as `setPriorityE`, and the two
    `changed +=` writes pass through the changeset hook -/
def setPriority (st : St) (id : Nat) (v : Rat) : St :=
  match st.get? id with
  | none => st
  | some e =>
    if e.priority == v then st
    else
      let st1 := if v > e.priority && v > 0 then bumpSt (bumpSt st id false) id true else st
      st1.mapId id (fun e => { e with priority := v })

def opPunt (st : St) (id : Nat) : St :=
  match st.get? id with
  | none => st
  | some e => setPriority st id (e.priority + 1)

/-- `SideState.set_aged`: `self.changed = 1` -/
def opSetAged (st : St) (s : Bool) (id : Nat) : St := setChanged st id s (some 1)

/-- `sync[side].changed = 0` (manager.py:480) -/
def opClear (st : St) (s : Bool) (id : Nat) : St := setChanged st id s (some 0)

def opSyncPath (st : St) (s : Bool) (id : Nat) (p : String) : St :=
  st.mapId id (fun e => e.setSide s { e.side s with syncPath := some p })

/-- state.py:1207-1224 (the `force_sync` resets do not concern scheduling).  The loop
    `for e in self._changeset: if e.priority > 0 and ent.is_related_to(e): e.priority = 0` touches only `e` in each
    iteration and never the changeset (a priority that falls shifts no change time), so it is a map over the entries. -/
def opFinished (dn : String → String) (st : St) (id : Nat) : St :=
  match st.get? id with
  | none => st
  | some ent =>
    if truthy ent.r.changed || truthy ent.l.changed then st       -- "not marking finished"
    else
      let st1 := st.discard id
      { st1 with ents := st1.ents.map (fun e =>
          if st1.pending.contains e.id && (e.priority > 0 && related dn ent e) then setPriorityE st1.punt e 0 else e) }

/-! ## table building (slice of update / update_entry / _change_path / _change_oid) -/

def lookupOid (st : St) (s : Bool) (oid : String) : Option Entry :=
  st.ents.find? (fun e => (e.side s).oid == some oid)

/-- `ent[s].oid = oid` for an oid no *other* entry holds: index it; "ent with oid goes in changeset"
    when either side is changed (state.py:908-912) -/
def setOid (st : St) (id : Nat) (s : Bool) (oid : String) : St :=
  match st.get? id with
  | none => st
  | some e =>
    let clash := match lookupOid st s oid with
      | some o => o.id != id
      | none => false
    let st0 := if clash || oid == "" then { st with unmodelled := true } else st
    let st1 := st0.mapId id (fun e => e.setSide s { e.side s with oid := some oid })
    if truthy (e.side s).changed || truthy (e.side (!s)).changed then st1.add id else st1

/-- `ent[s].path = path` (state.py:812-846): nothing when unchanged; otherwise re-index, then
    `new_priority = prioritize(side, path)`, written only when different -/
def setPath (st : St) (id : Nat) (s : Bool) (path : String) (prio : Rat) : St :=
  match st.get? id with
  | none => st
  | some e =>
    if (e.side s).path == some path then st
    else if path == "" then { st with unmodelled := true }
    else
      let st1 := st.mapId id (fun e => e.setSide s { e.side s with path := some path })
      setPriority st1 id prio

/-- `SyncState.update(side, FILE, oid, path=path, hash=h)` with the clock reading `now`;
    `prio` is `prioritize(side, path)`.  Returns the id of the entry used. -/
def opUpdate (st : St) (s : Bool) (oid path : String) (prio now : Rat) : St × Nat :=
  let (st0, id) := match lookupOid st s oid with
    | some e => (st, e.id)
    | none => ({ st with ents := st.ents ++ [{ id := st.ents.length }] }, st.ents.length)
  let st1 := setOid st0 id s oid
  let st2 := setPath st1 id s path prio
  let st3 := if now != 0 then markChanged st2 s id now else st2     -- `if changed:` with changed = time.time()
  (st3, id)

/-- give entry `id` its other side the way the engine does after a sync:
    `ent[s].oid = oid; ent[s].path = path` -/
def opAttach (st : St) (s : Bool) (id : Nat) (oid path : String) (prio : Rat) : St :=
  setPath (setOid st id s oid) id s path prio

end CS.Sched
