/-
Model of cloudsync/smartsync.py (on-demand sync), branch by branch.  No Mathlib (linked into the driver).

What is modelled (line numbers of cloudsync/smartsync.py at /repo HEAD 5c9225c, i.e. after the `fix:` commit that put the
public smart_* methods under the state lock — that commit only indented the bodies):
  * `SmartSyncManager.pre_sync`                45-67    `preSyncGate`
  * `SmartSyncState._changeset` (the filter)   175-204  `changesetFilter`
  * `_smart_sync_ent` / `_smart_unsync_ent` / `_smart_unsync` on the two sets   105-114, 133-151   `request`, `unrequestRaw`, `unrequest`
  * the public un-request call paths `smart_unsync_oid`, `smart_unsync_path` with the state-level
    `_smart_unsync_ent`                         327-362, 133-158   `unsyncOid`, `unsyncPath`
  * the merged listing `smart_listdir_path` + `_get_smartinfo`   394-424, 246-313   `listEntry`, `mergedListing`

An entry is represented by the abstract features the code reads from it (the harness extracts them from the
real `SyncEntry` at the moment the real code reads them).  The generic engine (`SyncManager.pre_sync`,
`SyncManager.sync`) is not modelled here: its verdict on an entry enters the gate as the feature
`superFinished`, and a call of `_sync_one_entry` appears in the un-request path as the opaque action `flush`.
-/
namespace CS.Smart

/-! ### 1. the pre-sync gate (45-67) -/

/-- `SourceEnum` of the notification -/
inductive Src where
  | loc | rem
  deriving DecidableEq, Repr

/-- `NotificationType` of the notification the gate sends -/
inductive NType where
  | discarded        -- SYNC_DISCARDED: the generic pre_sync already finished the entry
  | smartUnsynced    -- SYNC_SMART_UNSYNCED: not requested, skipped
  deriving DecidableEq, Repr

/-- which path the notification carries (57-64) -/
inductive PathFrom where
  | remotePath        -- sync[REMOTE].path
  | translatedLocal   -- translate(REMOTE, sync[LOCAL].path)
  | rawLocal          -- sync[LOCAL].path (no translation)
  deriving DecidableEq, Repr

structure Note where
  src : Src
  ntype : NType
  path : PathFrom
  deriving DecidableEq, Repr

/-- the features of the entry the gate reads -/
structure GateIn where
  superFinished : Bool   -- SyncManager.pre_sync(sync) returned True (entry discarded)              line 46
  localOid : Bool        -- sync[LOCAL].oid is truthy                                             line 47
  localExists : Bool     -- providers[LOCAL].exists_oid(sync[LOCAL].oid)                          line 47
  requested : Bool       -- sync in self.state.requestset                                         line 50
  remoteDir : Bool       -- sync[REMOTE].otype == DIRECTORY                                       line 50
  remotePath : Bool      -- sync[REMOTE].path truthy (after get_latest)                           line 57
  localPath : Bool       -- sync[LOCAL].path truthy                                               line 59
  translates : Bool      -- translate(REMOTE, sync[LOCAL].path) truthy                            line 60
  deriving DecidableEq, Repr

structure GateOut where
  finished : Bool          -- True = the entry is finished WITHOUT any transfer; False = `SyncManager.sync` runs
  note : Option Note
  deriving DecidableEq, Repr

def preSyncGate (i : GateIn) : GateOut :=
  let localFile := i.localOid && i.localExists                                   -- 47
  let finished :=                                                                -- 48-50
    if !i.superFinished then !(localFile || i.requested || i.remoteDir) else true
  if finished then                                                               -- 52
    let ntype := if i.superFinished then NType.discarded else NType.smartUnsynced   -- 54
    if i.remotePath then                                                         -- 57-58
      { finished := true, note := some ⟨.rem, ntype, .remotePath⟩ }
    else if i.localPath then                                                     -- 59
      if i.translates then { finished := true, note := some ⟨.rem, ntype, .translatedLocal⟩ }   -- 60
      else { finished := true, note := some ⟨.loc, ntype, .rawLocal⟩ }            -- 62-64
    else { finished := true, note := none }                                      -- 65: no path, no notification
  else { finished := false, note := none }                                       -- 67

/-- the gate's verdict as the task names it -/
inductive Decision where
  | syncNormally
  | finishWithoutTransfer (note : Option Note)
  deriving DecidableEq, Repr

def gateDecision (i : GateIn) : Decision :=
  let o := preSyncGate i
  if o.finished then .finishWithoutTransfer o.note else .syncNormally

/-! ### 2. the two sets and the filtered pending set (97-114, 133-151, 175-204) -/

/-- membership of ONE entry in the request set and the exclude set -/
structure Mem where
  req : Bool
  excl : Bool
  deriving DecidableEq, Repr

/-- `_smart_sync_ent` (105-114) on one entry: returns the membership afterwards and whether the local side
    was cleared and the remote side re-marked as changed (108-112) -/
def smartSyncEnt (_m : Mem) (localPath localPathExists : Bool) : Mem × Bool :=
  ({ req := true, excl := false }, localPath && !localPathExists)

/-- the loop over the registered auto-sync predicates (194-198): the first predicate that accepts the remote
    path wins; no predicate is consulted for an entry without a remote path -/
def firstMatch (remotePath : Bool) : List Bool → Bool
  | [] => false
  | cb :: rest => if remotePath && cb then true else firstMatch remotePath rest

structure FilterIn where
  inExclude : Bool        -- ent in self.excludeset                         182
  localChanged : Bool     -- ent[LOCAL].changed truthy                      182, 191
  inRequest : Bool        -- ent in self.requestset                         187
  remoteDir : Bool        -- ent[REMOTE].otype == DIRECTORY                 189
  remoteChanged : Bool    -- ent[REMOTE].changed truthy                     191
  isLatest : Bool         -- ent.is_latest()                                191
  localOid : Bool         -- ent[LOCAL].oid truthy                          193
  remotePath : Bool       -- ent[REMOTE].path truthy                        195
  callbacks : List Bool   -- callback(ent[REMOTE].path) for every registered predicate, in order   194-195
  localPath : Bool        -- ent[LOCAL].path truthy                         108 (inside _smart_sync_ent)
  localPathExists : Bool  -- providers[LOCAL].exists_path(ent[LOCAL].path)  108
  deriving DecidableEq, Repr

structure FilterOut where
  included : Bool     -- the entry is offered to the sync step
  notified : Bool     -- SYNC_SMART_UNSYNCED sent for the skipped entry     183
  mem : Mem           -- membership in (requestset, excludeset) afterwards
  cleared : Bool      -- the local side was cleared by `_smart_sync_ent`    109-112
  deriving DecidableEq, Repr

def changesetFilter (i : FilterIn) : FilterOut :=
  let m : Mem := { req := i.inRequest, excl := i.inExclude }
  if i.inExclude && !i.localChanged then                                         -- 182-184
    { included := false, notified := true, mem := m, cleared := false }
  else if i.inRequest then                                                       -- 187-188
    { included := true, notified := false, mem := m, cleared := false }
  else if i.remoteDir then                                                       -- 189-190
    { included := true, notified := false, mem := m, cleared := false }
  else if (i.remoteChanged || i.localChanged) && !i.isLatest then                -- 191-192
    { included := true, notified := false, mem := m, cleared := false }
  else if !i.localOid then                                                       -- 193
    if firstMatch i.remotePath i.callbacks then                                  -- 194-198
      let (m', c) := smartSyncEnt m i.localPath i.localPathExists
      { included := true, notified := false, mem := m', cleared := c }
    else { included := false, notified := false, mem := m, cleared := false }
  else { included := false, notified := false, mem := m, cleared := false }      -- 200

/-! the sets themselves: entries are numbered; Python `set.add` / `set.discard` on duplicate-free lists -/

structure Sets where
  req : List Nat
  excl : List Nat
  deriving DecidableEq, Repr

def setAdd (l : List Nat) (e : Nat) : List Nat := if l.contains e then l else l ++ [e]
def setDiscard (l : List Nat) (e : Nat) : List Nat := l.filter (· != e)

/-- `_smart_sync_ent` 113-114 -/
def request (s : Sets) (e : Nat) : Sets := { req := setAdd s.req e, excl := setDiscard s.excl e }

/-- `_smart_unsync_ent` 141-142 (unconditional) -/
def unrequestRaw (s : Sets) (e : Nat) : Sets := { req := setDiscard s.req e, excl := setAdd s.excl e }

/-- `_smart_unsync` 144-151 as reached from the public API: only an entry that is in the request set is moved -/
def unrequest (s : Sets) (e : Nat) : Sets := if s.req.contains e then unrequestRaw s e else s

inductive Call where
  | request (e : Nat)
  | unrequest (e : Nat)
  deriving DecidableEq, Repr

def Call.entry : Call → Nat
  | .request e => e
  | .unrequest e => e

def applyCall (s : Sets) : Call → Sets
  | .request e => request s e
  | .unrequest e => unrequest s e

def runCalls (s : Sets) (cs : List Call) : Sets := cs.foldl applyCall s

/-! ### 3. the un-request call path (327-362, 133-158, 144-158) -/

inductive Side where
  | loc | rem
  deriving DecidableEq, Repr

/-- the provider methods that change a provider -/
inductive Mutator where
  | create | upload | rename | delete | mkdir
  deriving DecidableEq, Repr

/-- what the un-request call does, in program order; `e` is the position of the entry in the list the call works on -/
inductive Act where
  | getLatestLocal (e : Nat)            -- state.unconditionally_get_latest(ent, LOCAL)            329
  | flush (e : Nat)                     -- ent[LOCAL].changed = …; self._sync_one_entry(ent)        331-332 (generic engine, opaque)
  | localInfo (e : Nat)                 -- providers[LOCAL].info_path(ent[LOCAL].path)              135 (read)
  | write (side : Side) (m : Mutator) (e : Nat)   -- a direct provider write made by smartsync.py itself
  | clearLocal (e : Nat)                -- ent[LOCAL].clear(); ent[REMOTE].sync_path/hash = None    138-140
  | moveToExcluded (e : Nat)            -- requestset.discard(ent); excludeset.add(ent)             141-142
  | raiseNotFound                       -- CloudFileNotFoundError                                   340
  | raiseTypeError                      -- `ent[LOCAL].path` with ent None                          343
  | returnOk
  | returnNone
  deriving DecidableEq, Repr

def Act.isDirectWrite : Act → Bool
  | .write _ _ _ => true
  | _ => false

structure UnsyncIn where
  requested : Bool    -- ent in requestset                              148 / 352
  localPath : Bool    -- ent[LOCAL].path truthy                         134
  localInfo : Bool    -- providers[LOCAL].info_path(...) found the file 135-136
  newer : Bool        -- after the refresh: ent[LOCAL].hash != sync_hash or paths differ   330
  deriving DecidableEq, Repr

/-- `SmartCloudSync._smart_unsync_ent` 327-334 -/
def flushPart (e : Nat) (i : UnsyncIn) : List Act :=
  .getLatestLocal e :: (if i.newer then [.flush e] else [])

/-- `SmartSyncState._smart_unsync_ent` 133-142 -/
def statePart (e : Nat) (i : UnsyncIn) : List Act :=
  (if i.localPath then
     [.localInfo e] ++ (if i.localInfo then [.write .loc .delete e] else []) ++ [.clearLocal e]
   else []) ++ [.moveToExcluded e]

/-- `smart_unsync_oid` 336-343 with `SmartSyncState.smart_unsync_oid` 156-158 and `_smart_unsync` 144-151;
    `found` = `lookup_oid(REMOTE, remote_oid)` returned an entry -/
def unsyncOid (found : Bool) (i : UnsyncIn) : List Act :=
  if !found then [.raiseNotFound]                                                -- 339-340
  else
    flushPart 0 i ++                                                             -- 341
    (if i.requested then statePart 0 i ++ [.returnOk]                            -- 342 (148-150), 343
     else [.raiseTypeError])                                                     -- 151 returns None, 343 subscripts it

/-- number the elements of a list -/
def number {α : Type} (n : Nat) : List α → List (Nat × α)
  | [] => []
  | x :: xs => (n, x) :: number (n + 1) xs

/-- `smart_unsync_path` 345-362: `translates` = `_ensure_path_remote` gave a path; `ents` = the entries at that
    remote path (`lookup_path`); only those in the request set are handled: first every flush, then every removal -/
def unsyncPath (translates : Bool) (ents : List UnsyncIn) : List Act :=
  if !translates then [.returnNone]                                              -- 347-349
  else
    let rs := (number 0 ents).filter (fun x => x.2.requested)                  -- 351-352
    if rs.isEmpty then [.returnNone]                                             -- 353-354
    else
      (rs.flatMap (fun x => flushPart x.1 x.2)) ++                               -- 356-359
      (rs.flatMap (fun x => statePart x.1 x.2)) ++ [.returnOk]                   -- 360-362

/-! ### 4. the merged listing (394-424, 246-313) -/

/-- per name of the union of local directory entries and remote state entries -/
structure ListIn where
  hasLocal : Bool        -- the local provider lists the name (`lent`)                                   408-409
  hasRent : Bool         -- the state has a remote entry with that base name under the folder (`rent`)   414-416
  rentLocalPath : Bool   -- rent[LOCAL].path truthy                                                      421, 272
  pathsMatch : Bool      -- local.paths_match(translate(LOCAL, rent[REMOTE].path), rent[LOCAL].path)     421, 272
  localGone : Bool       -- rent[LOCAL].exists in (TRASHED, MISSING)                                     269
  remoteGone : Bool      -- rent[REMOTE].exists in (TRASHED, MISSING)                                    269
  localVisible : Bool    -- lent.mtime or lent.size                                                      423
  remoteVisible : Bool   -- rent[REMOTE].mtime or rent[REMOTE].size                                      423
  deriving DecidableEq, Repr

/-- `_get_smartinfo` 246-313: `none` = filtered out, `some s` = a SmartInfo with `is_synced = s` -/
def getSmartInfo (i : ListIn) : Option Bool :=
  if !i.hasRent && !i.hasLocal then none                                         -- 264-265
  else if !i.hasLocal then                                                       -- 268
    if i.localGone || i.remoteGone then none                                     -- 269-271
    else if i.rentLocalPath && !i.pathsMatch then none                           -- 272-274
    else some false                                                              -- 288-297
  else some true                                                                 -- 277-287

/-- one name of the loop 418-424 -/
def listEntry (i : ListIn) : Option Bool :=
  if !i.hasRent || !i.rentLocalPath || i.pathsMatch then                         -- 421
    match getSmartInfo i with                                                    -- 422
    | some true => if i.localVisible then some true else none                    -- 423 (local info's mtime/size)
    | some false => if i.remoteVisible then some false else none                 -- 423 (remote entry's mtime/size)
    | none => none
  else none

/-- the whole listing: names with their features in, (name, is_synced) out -/
def mergedListing {N : Type} (names : List (N × ListIn)) : List (N × Bool) :=
  names.filterMap (fun x => (listEntry x.2).map (fun s => (x.1, s)))


/-! ### 5. single-object queries `smart_info_path` (431-442) and `smart_info_oid` (444-450)

Both go through `_get_smartinfo` with no visibility filter.  `smart_info_path` passes the local provider's info of the
path and the FIRST remote state entry at the translated path; `smart_info_oid` passes NO local info at all (so it answers
`is_synced = False` even for a downloaded file — the code as it is), and answers nothing when the entry is unknown or its
remote path does not translate. -/

/-- `smart_info_path`: `none` = None, `some s` = SmartInfo with `is_synced = s` -/
def infoPath (i : ListIn) : Option Bool := getSmartInfo i

/-- `smart_info_oid`: `known` = `lookup_oid(REMOTE, oid)` found an entry, `translates` = its remote path translates -/
def infoOid (known translates : Bool) (i : ListIn) : Option Bool :=
  if known && translates then getSmartInfo { i with hasLocal := false, hasRent := true } else none

/-- the variant of `_get_smartinfo` that tests the LOCAL tombstone twice and never the REMOTE one
    (`any(rent[LOCAL].exists in (TRASHED, MISSING) for side in (LOCAL, REMOTE))`) — NOT the code; kept as the
    reference point of the kernel-checked witness `ghost_listed_when_local_checked_twice` -/
def getSmartInfoLocalTwice (i : ListIn) : Option Bool :=
  if !i.hasRent && !i.hasLocal then none
  else if !i.hasLocal then
    if i.localGone || i.localGone then none
    else if i.rentLocalPath && !i.pathsMatch then none
    else some false
  else some true

end CS.Smart
