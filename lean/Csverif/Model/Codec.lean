import Csverif.Model.Storage
import Csverif.Model.Path
/-
Model of the entry codec of `cloudsync/sync/state.py`:

* `SideState.__setattr__` (109-133) with the CORRUPT early returns, `_translate_exists` (135-150),
  `_set_exists` (152-155), `_set_mtime` (97-102), `uncorrupt` (219-222);
* `SideState.serialize` / `deserialize` (232-275);
* `SyncEntry.serialize` / `deserialize` (370-404).

msgpack is modelled at the *value* level only (`Val`): `msgpack.dumps(x, use_bin_type=True)` followed by
`msgpack.loads(b, use_list=False, raw=False, strict_map_key=False)` is `wire`: it fails with `OverflowError`
for integers outside [-2^63, 2^64) and otherwise returns the same value with every Python `list` turned
into a `tuple` (`norm`); every dict key type that `dumps` writes is accepted back (`strict_map_key=False`).  The byte-level encoding is third-party and
trusted.  A stored row is identified with `norm v` (two values have the same bytes iff they agree up
to the list/tuple tag).

Python values are `Val`; `float` is kept as its 64 bit pattern (never computed with).  No Mathlib
import: this file is linked into the driver executable.
-/
namespace CS.Codec

/-- dict keys (`other` stands for None/bool/float/tuple keys, an opaque token) -/
inductive Key where
  | str (s : String)
  | bin (hex : String)
  | int (i : Int)
  | other (tok : Nat)
  deriving DecidableEq, Repr

/-- Python values that can occur in an entry field. `arr true` = list, `arr false` = tuple. -/
inductive Val where
  | nil
  | bool (b : Bool)
  | int (i : Int)
  | float (bits : Nat)
  | str (s : String)
  | bin (hex : String)
  | arr (isList : Bool) (xs : List Val)
  | map (kvs : List (Key × Val))
  deriving Repr

mutual
/-- structural equality (Python `==` restricted to same-typed values; see `pyEq` for `1 == True`) -/
def Val.beq : Val → Val → Bool
  | .nil, .nil => true
  | .bool a, .bool b => a == b
  | .int a, .int b => a == b
  | .float a, .float b => a == b
  | .str a, .str b => a == b
  | .bin a, .bin b => a == b
  | .arr l xs, .arr m ys => l == m && Val.beqList xs ys
  | .map xs, .map ys => Val.beqKvs xs ys
  | _, _ => false
def Val.beqList : List Val → List Val → Bool
  | [], [] => true
  | x :: xs, y :: ys => Val.beq x y && Val.beqList xs ys
  | _, _ => false
def Val.beqKvs : List (Key × Val) → List (Key × Val) → Bool
  | [], [] => true
  | (k, x) :: xs, (l, y) :: ys => k == l && Val.beq x y && Val.beqKvs xs ys
  | _, _ => false
end

instance : BEq Val := ⟨Val.beq⟩

/-- Python `a == b` on the values the model compares (`_hash != v`, dict keys): structural, plus
    `True == 1`, `False == 0`.  (`1 == 1.0` is not modelled: floats are opaque bit patterns.) -/
def Val.pyEq : Val → Val → Bool
  | .bool a, .int b => (if a then 1 else 0) == b
  | .int a, .bool b => a == (if b then 1 else 0)
  | a, b => a == b

/-- Python truthiness -/
def Val.truthy : Val → Bool
  | .nil => false
  | .bool b => b
  | .int i => i != 0
  | .float b => b != 0 && b != 9223372036854775808
  | .str s => s != ""
  | .bin b => b != ""
  | .arr _ xs => !xs.isEmpty
  | .map kvs => !kvs.isEmpty

def Val.isNone : Val → Bool
  | .nil => true
  | _ => false

mutual
/-- the only semantic change of a msgpack round trip: lists come back as tuples -/
def norm : Val → Val
  | .arr _ xs => .arr false (normList xs)
  | .map kvs => .map (normKvs kvs)
  | v => v
def normList : List Val → List Val
  | [] => []
  | x :: xs => norm x :: normList xs
def normKvs : List (Key × Val) → List (Key × Val)
  | [] => []
  | (k, v) :: r => (k, norm v) :: normKvs r
end

def intOk (i : Int) : Bool := decide (-9223372036854775808 ≤ i) && decide (i ≤ 18446744073709551615)

def Key.dumpsOk : Key → Bool
  | .int i => intOk i
  | _ => true

mutual
/-- `msgpack.dumps` succeeds (no integer out of the 64 bit range) -/
def dumpsOk : Val → Bool
  | .int i => intOk i
  | .arr _ xs => dumpsOkList xs
  | .map kvs => dumpsOkKvs kvs
  | _ => true
def dumpsOkList : List Val → Bool
  | [] => true
  | x :: xs => dumpsOk x && dumpsOkList xs
def dumpsOkKvs : List (Key × Val) → Bool
  | [] => true
  | (k, v) :: r => k.dumpsOk && dumpsOk v && dumpsOkKvs r
end

mutual
/-- no Python list anywhere inside (then the round trip is the identity) -/
def noList : Val → Bool
  | .arr l xs => !l && noListList xs
  | .map kvs => noListKvs kvs
  | _ => true
def noListList : List Val → Bool
  | [] => true
  | x :: xs => noList x && noListList xs
def noListKvs : List (Key × Val) → Bool
  | [] => true
  | (_, v) :: r => noList v && noListKvs r
end

/-- Python exception classes the codec can raise -/
inductive Err where
  | key         -- KeyError
  | value       -- ValueError
  | type        -- TypeError
  | attr        -- AttributeError
  | assertion   -- AssertionError
  | overflow    -- OverflowError (msgpack.dumps)
  deriving DecidableEq, Repr

/-- `msgpack.dumps(v, use_bin_type=True)`: the stored row, or the exception -/
def dumps (v : Val) : Except Err Val :=
  if dumpsOk v then .ok (norm v) else .error .overflow

/-- `msgpack.loads(row, use_list=False, raw=False, strict_map_key=False)`: total on stored rows -/
def loads (row : Val) : Except Err Val := .ok (norm row)

/-- dumps then loads -/
def wire (v : Val) : Except Err Val :=
  match dumps v with
  | .error e => .error e
  | .ok row => loads row

def lookupKey (k : Key) : List (Key × Val) → Option Val
  | [] => none
  | (l, v) :: r => if l == k then some v else lookupKey k r

/-- `v[k]` for a string key -/
def Val.getItem (v : Val) (k : String) : Except Err Val :=
  match v with
  | .map kvs =>
    match lookupKey (.str k) kvs with
    | some x => .ok x
    | none => .error .key
  | _ => .error .type

/-- `v.get(k, d)` -/
def Val.getD (v : Val) (k : String) (d : Val) : Except Err Val :=
  match v with
  | .map kvs =>
    match lookupKey (.str k) kvs with
    | some x => .ok x
    | none => .ok d
  | _ => .error .attr

/-! ### the three enums and their value tables (state.py:42-51, types.py:15-26) -/

inductive Exists where
  | unknown | exists_ | trashed | missing | likelyTrashed | corrupt
  deriving DecidableEq, Repr

def Exists.value : Exists → String
  | .unknown => "unknown"
  | .exists_ => "exists"
  | .trashed => "trashed"
  | .missing => "missing"
  | .likelyTrashed => "likely-trashed"
  | .corrupt => "corrupt"

def Exists.all : List Exists := [.unknown, .exists_, .trashed, .missing, .likelyTrashed, .corrupt]

/-- `Exists(s)`; `none` = ValueError -/
def Exists.ofValue (s : String) : Option Exists :=
  Exists.all.find? (fun e => e.value == s)

inductive Ignore where
  | none_ | discarded | conflict | tempRename | irrelevant
  deriving DecidableEq, Repr

def Ignore.value : Ignore → String
  | .none_ => "none"
  | .discarded => "discarded"
  | .conflict => "conflict"
  | .tempRename => "temp rename"
  | .irrelevant => "irrelevant"

def Ignore.all : List Ignore := [.none_, .discarded, .conflict, .tempRename, .irrelevant]

def Ignore.ofValue (s : String) : Option Ignore :=
  Ignore.all.find? (fun e => e.value == s)

inductive OType where
  | dir | file | notknown
  deriving DecidableEq, Repr

def OType.value : OType → String
  | .dir => "dir"
  | .file => "file"
  | .notknown => "trashed"

def OType.all : List OType := [.dir, .file, .notknown]

def OType.ofValue (s : String) : Option OType :=
  OType.all.find? (fun e => e.value == s)

/-- `Enum(v)` for an arbitrary Python value: only a `str` equal to a member's value is accepted -/
def Exists.ofVal : Val → Option Exists
  | .str s => Exists.ofValue s
  | _ => none

def Ignore.ofVal : Val → Option Ignore
  | .str s => Ignore.ofValue s
  | _ => none

def OType.ofVal : Val → Option OType
  | .str s => OType.ofValue s
  | _ => none

/-! ### SideState -/

/-- the persisted fields of a `SideState` plus `force_sync` (hooked, not persisted).
    `_last_gotten`, `_temp_file`'s file and `_parent` are outside the model. -/
structure Side where
  otype : OType
  side : Val
  hash : Val
  changed : Val
  syncHash : Val
  syncPath : Val
  path : Val
  oid : Val
  exists_ : Exists
  tempFile : Val
  size : Val
  mtime : Val
  savedExists : Option Exists
  forceSync : Val
  deriving Repr

/-- `SideState(parent, side, otype)` (77-95) -/
def Side.fresh (side : Int) (otype : OType) : Side :=
  { otype := otype, side := .int side, hash := .nil, changed := .nil, syncHash := .nil, syncPath := .nil,
    path := .nil, oid := .nil, exists_ := .unknown, tempFile := .nil, size := .nil, mtime := .nil,
    savedExists := none, forceSync := .bool false }

/-- a value assigned to `.exists`: an `Exists` member, or anything else (bool, None, str, …) -/
inductive ExV where
  | enum (e : Exists)
  | raw (v : Val)
  deriving Repr

/-- `v == CORRUPT` (Enum equality is identity: the *string* "corrupt" is not equal to the member) -/
def ExV.isCorruptMember : ExV → Bool
  | .enum .corrupt => true
  | _ => false

/-- state.py:135-150 `_translate_exists` -/
def translateExists : ExV → Except Err Exists
  | .enum e => .ok e
  | .raw (.bool false) => .ok .trashed
  | .raw (.bool true) => .ok .exists_
  | .raw .nil => .ok .unknown
  | .raw v =>
    match Exists.ofVal v with
    | some e => .ok e
    | none => .error .value

def Side.isCorrupt (s : Side) : Bool := s.exists_ == .corrupt

/-- state.py:114-122: the two early returns of `__setattr__("exists", v)`, taken *before*
    `updated` is reached (so the dirty set is not touched).  `some s'` = returned early. -/
def Side.existsPre (s : Side) (v : ExV) : Except Err (Option Side) :=
  if v.isCorruptMember && !s.isCorrupt then
    .ok (some { s with savedExists := some s.exists_, exists_ := .corrupt })
  else if !v.isCorruptMember && s.isCorrupt then
    match translateExists v with
    | .error e => .error e
    | .ok x => .ok (some { s with savedExists := some x })
  else .ok none

/-- state.py:126-127, 152-155: after `updated`, `_set_exists(v)` -/
def Side.existsPost (s : Side) (v : ExV) : Except Err Side :=
  match translateExists v with
  | .error e => .error e
  | .ok x => .ok { s with exists_ := x }

def Val.isNumOrNone : Val → Bool
  | .nil => true
  | .bool _ => true     -- bool is an int subclass
  | .int _ => true
  | .float _ => true
  | _ => false

/-- state.py:97-102 `_set_mtime` (datetime arguments are not modelled) -/
def Side.mtimePost (s : Side) (v : Val) : Except Err Side :=
  if v.isNumOrNone then .ok { s with mtime := v } else .error .assertion

/-- names of the plainly stored attributes -/
inductive SKey where
  | otype | side | hash | changed | syncHash | syncPath | path | oid | tempFile | size | forceSync
  deriving DecidableEq, Repr

/-- a value assigned to a plain attribute -/
inductive SV where
  | val (v : Val)
  | otype (o : OType)
  deriving Repr

/-- `object.__setattr__(self, "_" + k, v)` -/
def Side.store (s : Side) (k : SKey) (v : SV) : Side :=
  match k, v with
  | .otype, .otype o => { s with otype := o }
  | .otype, .val _ => s          -- the model only assigns OType members to `otype`
  | _, .otype _ => s
  | .side, .val x => { s with side := x }
  | .hash, .val x => { s with hash := x }
  | .changed, .val x => { s with changed := x }
  | .syncHash, .val x => { s with syncHash := x }
  | .syncPath, .val x => { s with syncPath := x }
  | .path, .val x => { s with path := x }
  | .oid, .val x => { s with oid := x }
  | .tempFile, .val x => { s with tempFile := x }
  | .size, .val x => { s with size := x }
  | .forceSync, .val x => { s with forceSync := x }

/-- state.py:219-222 `uncorrupt` (only called when `is_corrupt`): `_set_exists(_saved_exists)`;
    `_saved_exists = None`.  A corrupt side loaded from a row without `_saved_exists` has `None`
    there, which `_translate_exists` maps to UNKNOWN. -/
def Side.uncorrupt (s : Side) : Side :=
  if s.isCorrupt then
    { s with exists_ := (match s.savedExists with | some e => e | none => .unknown), savedExists := none }
  else s

/-- state.py:130-133: the final branch of `__setattr__` for a plain attribute -/
def Side.plainPost (s : Side) (k : SKey) (v : SV) : Side :=
  match k, v with
  | .hash, .val x => (if !(s.hash.pyEq x) && s.isCorrupt then s.uncorrupt else s).store k v
  | _, _ => s.store k v

/-! `__setattr__` while the owning `SyncState` is loading (`updated` returns immediately, 773-774):
    exactly what `deserialize` executes. -/

def Side.loadExists (s : Side) (v : ExV) : Except Err Side :=
  match s.existsPre v with
  | .error e => .error e
  | .ok (some s') => .ok s'
  | .ok none => s.existsPost v

/-- state.py:232-248 -/
def Side.serialize (s : Side) : Val :=
  .map [ (.str "otype", .str s.otype.value),
         (.str "side", s.side),
         (.str "hash", s.hash),
         (.str "changed", s.changed),
         (.str "sync_hash", s.syncHash),
         (.str "path", s.path),
         (.str "sync_path", s.syncPath),
         (.str "oid", s.oid),
         (.str "exists", .str s.exists_.value),
         (.str "temp_file", s.tempFile),
         (.str "size", s.size),
         (.str "mtime", s.mtime),
         (.str "_saved_exists", match s.savedExists with | none => .nil | some e => .str e.value) ]

/-- state.py:250-275, executed on the fresh `SideState(parent, i, None)` that
    `SyncEntry.__init__` creates (the `None` otype is overwritten by the first assignment or the
    whole entry is dropped; the model starts from a placeholder). -/
def Side.deserialize (i : Int) (d : Val) : Except Err Side := do
  let s := Side.fresh i .file
  let ot ← d.getItem "otype"
  let o ← match OType.ofVal ot with
    | some o => pure o
    | none => throw Err.value
  let s := s.plainPost .otype (.otype o)
  let s := s.plainPost .side (.val (← d.getItem "side"))
  let s := s.plainPost .hash (.val (← d.getItem "hash"))
  let s := s.plainPost .changed (.val (← d.getItem "changed"))
  let s := s.plainPost .syncHash (.val (← d.getItem "sync_hash"))
  let s := s.plainPost .syncPath (.val (← d.getItem "sync_path"))
  let s := s.plainPost .oid (.val (← d.getItem "oid"))
  let s := s.plainPost .path (.val (← d.getItem "path"))
  -- back compat: 10/21/19
  let ex ← d.getItem "exists"
  let s ← if ex.isNone then s.loadExists (.enum .unknown) else pure s
  let s ← (match ex with | .bool true => s.loadExists (.enum .exists_) | _ => pure s)
  let s ← (match ex with | .bool false => s.loadExists (.enum .trashed) | _ => pure s)
  let s ← s.loadExists (.raw ex)
  let s := s.plainPost .tempFile (.val (← d.getItem "temp_file"))
  let s := s.plainPost .size (.val (← d.getD "size" .nil))
  let s ← s.mtimePost (← d.getD "mtime" .nil)
  let sv ← d.getD "_saved_exists" .nil
  -- `Exists(saved) if saved else None`, ValueError → UNKNOWN
  let saved : Option Exists :=
    if sv.truthy then (match Exists.ofVal sv with | some e => some e | none => some .unknown) else none
  pure { s with savedExists := saved }

/-! ### SyncEntry -/

structure Entry where
  s0 : Side
  s1 : Side
  ignored : Ignore
  priority : Int
  storageId : Option Nat
  deriving Repr

/-- `SyncEntry(parent, otype)` (331-341) -/
def Entry.fresh (otype : OType) : Entry :=
  { s0 := Side.fresh 0 otype, s1 := Side.fresh 1 otype, ignored := .none_, priority := 0, storageId := none }

/-- state.py:483-484 `is_trash` -/
def Entry.isTrash (e : Entry) : Bool := e.s0.oid.isNone && e.s1.oid.isNone

/-- the dict handed to `msgpack.dumps` (370-376) -/
def Entry.serialize (e : Entry) : Val :=
  .map [ (.str "side0", e.s0.serialize),
         (.str "side1", e.s1.serialize),
         (.str "ignored", .str e.ignored.value),
         (.str "priority", .int e.priority) ]

/-- the stored row (`dumps` of the dict), or the exception `serialize` re-raises -/
def Entry.row (e : Entry) : Except Err Val := dumps e.serialize

/-- state.py:389-402: the ignore reason, including the legacy keys.  An unrecognised reason string
    leaves the default (`NONE`): line 398 assigns `DISCARDED` to a local that is never used. -/
def decodeIgnored (ser : Val) : Except Err Ignore := do
  let reason ← ser.getD "ignored" (.str "")
  if reason.truthy then
    let reason := if reason == .str "trashed" then .str "discarded" else reason
    match Ignore.ofVal reason with
    | some r => pure r
    | none => pure .none_
  else if (← ser.getD "discarded" (.str "")).truthy then pure .discarded
  else if (← ser.getD "conflicted" (.str "")).truthy then pure .conflict
  else pure .none_

/-- state.py:383-404 on the already unpacked dict.  `priority` is only written back into the dict
    (line 404), never into the entry. -/
def Entry.deserializeVal (sid : Nat) (ser : Val) : Except Err Entry := do
  let s0 ← Side.deserialize 0 (← ser.getItem "side0")
  let s1 ← Side.deserialize 1 (← ser.getItem "side1")
  let ig ← decodeIgnored ser
  pure { s0 := s0, s1 := s1, ignored := ig, priority := 0, storageId := some sid }

abbrev Sd := Bool   -- false = LOCAL (0), true = REMOTE (1)

/-- `ent[side]` -/
def Entry.side (e : Entry) (sd : Sd) : Side := if sd then e.s1 else e.s0
def Entry.setSide (e : Entry) (sd : Sd) (s : Side) : Entry := if sd then { e with s1 := s } else { e with s0 := s }

/-- `is_discarded or is_conflicted` (470-480) -/
def Entry.hidden (e : Entry) : Bool :=
  e.ignored == .discarded || e.ignored == .irrelevant || e.ignored == .conflict

/-- `SyncEntry(parent, None, (sid, row))`: unpack, then `deserializeVal` -/
def Entry.deserialize (sid : Nat) (row : Val) : Except Err Entry :=
  match loads row with
  | .error e => .error e
  | .ok ser => Entry.deserializeVal sid ser

end CS.Codec

/-!
## The persistence layer of `SyncState` (state.py)

* the attribute hooks `SideState.__setattr__` (109-133) / `SyncEntry.__setattr__` (355-368) as they run on
  a *live* state: `SyncState.updated` (772-802) with `_change_path` (812-846), `_update_kids` (848-876),
  `_change_oid` (879-916), `get_kids` (933-940), `get_all` (1294-1308);
* `storage_commit` / `_storage_update` (1091-1114) over the storage model of Model/Storage.lean;
* the loader in `SyncState.__init__` (725-743), `lookup_oid` (942-947), `lookup_path` (949-956).

An entry's identity (the Python object) is its index in `St.ents`.  Python `dict`s are association
lists with dict semantics (assignment to an existing key keeps its position, a new key goes last);
`set`s of entries are duplicate-free lists in insertion order (one admissible order of the real
program; the harness injects an insertion-ordered `set` into the module).
Exceptions leave the state as it is at the raise (`M` threads the state through errors).
Providers: `oid_is_path = False`, case sensitive, `prioritize` = the default `lambda: 0`.
The ghost field `silent` is written, never read, by the non-ghost code.
-/
namespace CS.Persist
open CS.Codec CS.Storage

/-- errors of the state layer: a Python exception, hook recursion deeper than the fuel, or a branch
    outside the model (float arithmetic on `changed`, non-string paths in `_update_kids`). -/
inductive HErr where
  | py (e : Err)
  | recursion
  | unmodelled
  deriving DecidableEq, Repr

abbrev Dict (β : Type) := List (Val × β)

def dget {β} (d : Dict β) (k : Val) : Option β :=
  match d with
  | [] => none
  | (l, v) :: r => if l.pyEq k then some v else dget r k

def dhas {β} (d : Dict β) (k : Val) : Bool := (dget d k).isSome

/-- `d[k] = v` -/
def dset {β} (d : Dict β) (k : Val) (v : β) : Dict β :=
  match d with
  | [] => [(k, v)]
  | (l, w) :: r => if l.pyEq k then (l, v) :: r else (l, w) :: dset r k v

/-- `d.pop(k, None)` / `del d[k]` -/
def dpop {β} (d : Dict β) (k : Val) : Dict β :=
  match d with
  | [] => []
  | (l, w) :: r => if l.pyEq k then r else (l, w) :: dpop r k

/-- `s.add(x)` on an insertion-ordered set -/
def sadd (s : List Nat) (x : Nat) : List Nat := if s.contains x then s else s ++ [x]
def sdiscard (s : List Nat) (x : Nat) : List Nat := s.filter (· != x)

/-- per side: `_oids[side]` and `_paths[side]` -/
structure SideIdx where
  oids : Dict Nat
  paths : Dict (Dict Nat)
  deriving Repr

inductive Backend where
  | mock (s : Mock.St Val)
  | sqlite (t : Sqlite.Table Val)

def Backend.step (b : Backend) (op : Op Val) : Backend × Res Val :=
  match b with
  | .mock s => let (s', r) := Mock.step s op; (.mock s', r)
  | .sqlite t => let (t', r) := Sqlite.step t op; (.sqlite t', r)

def tag : Tag := "tag"

structure St where
  ents : List Entry
  ix0 : SideIdx
  ix1 : SideIdx
  changeset : List Nat
  dirty : List Nat
  moving : List Nat      -- `_kids_moving`: folders whose kids are being moved (innermost last)
  store : Backend
  punt0 : Int            -- `_punt_secs` (set to integers by the harness)
  punt1 : Int
  -- ghost
  silent : List Nat      -- entries changed without reaching `_dirtyset.add` since they were last dirtied

def St.init (b : Backend) : St :=
  { ents := [], ix0 := ⟨[], []⟩, ix1 := ⟨[], []⟩, changeset := [], dirty := [], moving := [], store := b,
    punt0 := 1, punt1 := 1, silent := [] }

/-- state threaded through exceptions -/
def M (α : Type) := St → Except HErr α × St

instance : Monad M where
  pure a := fun s => (.ok a, s)
  bind m f := fun s =>
    match m s with
    | (.ok a, s') => f a s'
    | (.error e, s') => (.error e, s')

def raise {α} (e : HErr) : M α := fun s => (.error e, s)
def getSt : M St := fun s => (.ok s, s)
def modSt (f : St → St) : M Unit := fun s => (.ok (), f s)
/-- run `m`; if it raises, run the (ghost) handler and re-raise -/
def onError {α} (m : M α) (h : St → St) : M α := fun s =>
  match m s with
  | (.ok a, s') => (.ok a, s')
  | (.error e, s') => (.error e, h s')

def forEach {α} : List α → (α → M Unit) → M Unit
  | [], _ => pure ()
  | x :: xs, f => do f x; forEach xs f



def St.ix (st : St) (sd : Sd) : SideIdx := if sd then st.ix1 else st.ix0
def St.setIx (st : St) (sd : Sd) (ix : SideIdx) : St := if sd then { st with ix1 := ix } else { st with ix0 := ix }
def St.punt (st : St) (sd : Sd) : Int := if sd then st.punt1 else st.punt0

def placeholder : Entry := Entry.fresh .file

/-- read entry `i` (every index the model passes around is valid; the placeholder is never reached) -/
def getEnt (i : Nat) : M Entry := fun s => (.ok (s.ents.getD i placeholder), s)
def getSide (i : Nat) (sd : Sd) : M Side := fun s => (.ok ((s.ents.getD i placeholder).side sd), s)

/-- a direct write to private fields of entry `i` (no hook) -/
def rawEnt (i : Nat) (f : Entry → Entry) : M Unit :=
  modSt fun s => { s with ents := s.ents.modify i f }
def rawSide (i : Nat) (sd : Sd) (f : Side → Side) : M Unit :=
  rawEnt i fun e => e.setSide sd (f (e.side sd))

def modIx (sd : Sd) (f : SideIdx → SideIdx) : M Unit := modSt fun s => s.setIx sd (f (s.ix sd))
def modChangeset (f : List Nat → List Nat) : M Unit := modSt fun s => { s with changeset := f s.changeset }
def modMoving (f : List Nat → List Nat) : M Unit := modSt fun s => { s with moving := f s.moving }

/-- `self._dirtyset.add(ent)` (802); the entry stops being "silently changed" -/
def markDirty (i : Nat) : M Unit :=
  modSt fun s => { s with dirty := sadd s.dirty i, silent := sdiscard s.silent i }
/-- ghost: entry `i` was changed on a path that does not reach `_dirtyset.add` -/
def markSilent (i : Nat) : M Unit :=
  modSt fun s => { s with silent := if s.dirty.contains i then s.silent else sadd s.silent i }

/-- the writes that go through the hooks -/
inductive SideWrite where
  | plain (k : SKey) (v : SV)
  | exists_ (v : ExV)
  | mtime (v : Val)
  deriving Repr

inductive EntWrite where
  | ignored (v : Ignore)
  | priority (v : Int)
  deriving Repr

inductive Call where
  | side (i : Nat) (sd : Sd) (w : SideWrite)     -- `ent[sd].k = v`
  | ent (i : Nat) (w : EntWrite)                 -- `ent.k = v`

def strOf (v : Val) : Option Path.Str :=
  match v with
  | .str s => some s.toList
  | _ => none

def provCfg : Path.Cfg := Path.mkCfg true false


def dedup : List Nat → List Nat → List Nat
  | acc, [] => acc
  | acc, x :: xs => dedup (sadd acc x) xs

/-- state.py:1294-1308 `get_all(discarded)`: the entries indexed by id on either side -/
def getAll (st : St) (discarded : Bool) : List Nat :=
  let keep := fun (i : Nat) => discarded || !(st.ents.getD i placeholder).hidden
  dedup [] ((st.ix0.oids.map (·.2)).filter keep ++ (st.ix1.oids.map (·.2)).filter keep)

/-- `int + int` for `changed += punt` (798-800); floats are outside the model -/
def addInt (v : Val) (n : Int) : Option Val :=
  match v with
  | .int i => some (.int (i + n))
  | .bool b => some (.int ((if b then 1 else 0) + n))
  | _ => none

section hooks
variable (rec : Call → M Unit)

/-- state.py `_update_kids_of` (the `oid_is_path` branch is outside the model).
    `get_kids` is a generator: the set of entries is taken once, each entry's path is read when
    its turn comes; an entry in `_kids_moving` (the folder itself, or a folder whose own move is still
    in progress further up the stack) is nobody's kid. -/
def updateKidsOf (i : Nat) (sd : Sd) (priorPath path : Val) : M Unit := do
  let s ← getSide i sd
  if s.otype == .dir && !(priorPath.pyEq path) && !priorPath.isNone then
    match strOf priorPath, strOf path with
    | some pp, some np =>
      let st ← getSt
      forEach (getAll st false) fun j => do
        let sub ← getSide j sd
        if !sub.path.truthy then pure ()
        else match strOf sub.path with
          | none => raise .unmodelled
          | some sp =>
            match Path.isSubpath provCfg pp sp true with
            | .no => pure ()
            | .rel relative =>
              if relative.isEmpty then pure ()
              else do
                let cur ← getSt
                if cur.moving.contains j then pure ()
                else do
                  let newPath := Path.join provCfg [np, relative]
                  rec (.side j sd (.plain .path (.val (.str (String.ofList newPath)))))
                  let sub ← getSide j sd
                  if sub.syncPath.truthy then
                    match strOf sub.syncPath with
                    | none => raise .unmodelled
                    | some ssp =>
                      match Path.isSubpath provCfg pp ssp false with
                      | .no => pure ()
                      | .rel syncRel =>
                        if syncRel.isEmpty then pure ()
                        else rec (.side j sd (.plain .syncPath (.val (.str (String.ofList (Path.join provCfg [np, syncRel]))))))
                  else pure ()
    | _, _ => raise .unmodelled
  else pure ()

/-- `try: … finally: f` -/
def finallyM {α} (m : M α) (f : St → St) : M α := fun s =>
  match m s with
  | (r, s') => (r, f s')

/-- state.py `_update_kids`: `_kids_moving.append(ent)`; `_update_kids_of(…)`; finally `_kids_moving.pop()` -/
def updateKids (i : Nat) (sd : Sd) (priorPath path : Val) : M Unit := do
  modMoving (· ++ [i])
  finallyM (updateKidsOf rec i sd priorPath path) fun s => { s with moving := s.moving.dropLast }

/-- state.py:812-846 `_change_path` -/
def changePath (i : Nat) (sd : Sd) (path : Val) : M Unit := do
  let s ← getSide i sd
  if path.truthy && !s.oid.truthy then raise (.py .assertion)
  else
    let priorPath := s.path
    if priorPath.pyEq path then pure ()
    else do
      let st ← getSt
      if priorPath.truthy && dhas (st.ix sd).paths priorPath then
        modIx sd fun ix =>
          let d := dpop ((dget ix.paths priorPath).getD []) s.oid
          { ix with paths := if d.isEmpty then dpop ix.paths priorPath else dset ix.paths priorPath d }
      else pure ()
      if path.truthy then do
        modIx sd fun ix => if dhas ix.paths path then ix else { ix with paths := dset ix.paths path [] }
        let st ← getSt
        let pathEnts := (dget (st.ix sd).paths path).getD []
        match dget pathEnts s.oid with
        | some prior =>
          if prior == i then raise (.py .assertion)
          else do
            -- ousted this ent: `prior_ent[side]._path = None`, a direct write that reaches no dirty mark
            rawSide prior sd fun x => { x with path := .nil }
            markSilent prior
        | none => pure ()
        modIx sd fun ix => { ix with paths := dset ix.paths path (dset ((dget ix.paths path).getD []) s.oid i) }
        rawSide i sd fun x => { x with path := path }
        updateKids rec i sd priorPath path
        let e ← getEnt i
        -- `prioritize` is the default `lambda side, path: 0`
        if e.priority != 0 then rec (.ent i (.priority 0)) else pure ()
      else pure ()

/-- state.py:879-916 `_change_oid` -/
def changeOid (i : Nat) (sd : Sd) (oid : Val) : M Unit := do
  let s ← getSide i sd
  let removes := if s.oid.pyEq oid then [s.oid] else [s.oid, oid]
  forEach removes fun rm => do
    let st ← getSt
    match dget (st.ix sd).oids rm with
    | none => pure ()
    | some prior => do
      modIx sd fun ix => { ix with oids := dpop ix.oids rm }
      let ps ← getSide prior sd
      if ps.path.truthy then
        modIx sd fun ix =>
          match dget ix.paths ps.path with
          | none => ix
          | some d =>
            let d := dpop d rm
            { ix with paths := if d.isEmpty then dpop ix.paths ps.path else dset ix.paths ps.path d }
      else pure ()
      if prior != i then rec (.side prior sd (.plain .oid (.val .nil))) else pure ()
  if !oid.isNone then do
    rawSide i sd fun x => { x with oid := oid }
    modIx sd fun ix => { ix with oids := dset ix.oids oid i }
  else pure ()
  let s ← getSide i sd
  if !oid.isNone && s.path.truthy then
    modIx sd fun ix => { ix with paths := dset ix.paths s.path (dset ((dget ix.paths s.path).getD []) oid i) }
  else pure ()
  let e ← getEnt i
  if !oid.isNone then
    (if (e.side sd).changed.truthy || (e.side (!sd)).changed.truthy then modChangeset (sadd · i) else pure ())
  else
    (if (e.side sd).changed.truthy && !(e.side (!sd)).changed.truthy then modChangeset (sdiscard · i) else pure ())

/-- state.py:787-793, key `changed` -/
def updatedChanged (i : Nat) (sd : Sd) (v : Val) : M Unit := do
  let e ← getEnt i
  let me := e.side sd
  let ot := e.side (!sd)
  if (v.truthy && me.oid.truthy) || (ot.changed.truthy && ot.oid.truthy) then modChangeset (sadd · i)
  else do
    modChangeset (sdiscard · i)
    -- `ent[other_side(side)]._changed = 0`: a direct write (the hooked one re-entered this branch)
    if ot.changed.truthy && !ot.oid.truthy then rawSide i (!sd) fun x => { x with changed := .int 0 } else pure ()

/-- state.py:794-800, key `priority` -/
def updatedPriority (i : Nat) (v : Int) : M Unit := do
  let e ← getEnt i
  if v > e.priority && v > 0 then do
    let st ← getSt
    if e.s0.changed.truthy then
      match addInt e.s0.changed (st.punt false) with
      | some c => rec (.side i false (.plain .changed (.val c)))
      | none => raise .unmodelled
    else pure ()
    let e ← getEnt i
    if e.s1.changed.truthy then
      match addInt e.s1.changed (st.punt true) with
      | some c => rec (.side i true (.plain .changed (.val c)))
      | none => raise .unmodelled
    else pure ()
  else pure ()

/-- state.py:772-802 `updated(ent, side, key, val)` for a side attribute (not loading) -/
def updatedSide (i : Nat) (sd : Sd) (w : SideWrite) : M Unit := do
  match w with
  | .plain .path (.val v) => changePath rec i sd v
  | .plain .oid (.val v) => changeOid rec i sd v
  | .plain .changed (.val v) => updatedChanged i sd v
  | _ => pure ()
  markDirty i

/-- `updated(ent, None, key, val)` for an entry attribute -/
def updatedEnt (i : Nat) (w : EntWrite) : M Unit := do
  match w with
  | .ignored v =>
    if v == .discarded then do
      rawSide i false fun x => { x with changed := .bool false }
      rawSide i true fun x => { x with changed := .bool false }
      modChangeset (sdiscard · i)
    else pure ()
  | .priority v => updatedPriority rec i v
  markDirty i

/-- state.py:109-133 `SideState.__setattr__` on a live state -/
def sideSetattr (i : Nat) (sd : Sd) (w : SideWrite) : M Unit := do
  let s ← getSide i sd
  let early : Option Side ← (match w with
    | .exists_ v =>
      match s.existsPre v with
      | .error e => raise (.py e)
      | .ok r => pure r
    | _ => pure none)
  match early with
  | some s' => do
    -- the CORRUPT early returns (115-122): `updated` is never reached
    rawSide i sd fun _ => s'
    markSilent i
  | none => do
    updatedSide rec i sd w
    let s ← getSide i sd
    match w with
    | .exists_ v =>
      match s.existsPost v with
      | .error e => raise (.py e)
      | .ok s' => do rawSide i sd fun _ => s'; markDirty i
    | .mtime v =>
      match s.mtimePost v with
      | .error e => raise (.py e)
      | .ok s' => do rawSide i sd fun _ => s'; markDirty i
    | .plain k v => do
      -- `uncorrupt` inside (131-132) calls `updated(side, "exists", …)`: one more dirty mark
      rawSide i sd fun x => x.plainPost k v
      markDirty i

def entNeq (e : Entry) : EntWrite → Bool
  | .ignored v => e.ignored != v
  | .priority v => e.priority != v

def entStore (e : Entry) : EntWrite → Entry
  | .ignored v => { e with ignored := v }
  | .priority v => { e with priority := v }

/-- state.py:355-362 `SyncEntry.__setattr__` -/
def entSetattr (i : Nat) (w : EntWrite) : M Unit := do
  let e ← getEnt i
  if entNeq e w then do
    updatedEnt rec i w
    rawEnt i fun e => entStore e w
  else pure ()

/-- one hooked assignment.  A hook left by an exception has not reached `_dirtyset.add` although it
    may already have written fields: ghost-marked. -/
def hookBody : Call → M Unit
  | .side i sd w => onError (sideSetattr rec i sd w) (fun s => { s with silent := if s.dirty.contains i then s.silent else sadd s.silent i })
  | .ent i w => onError (entSetattr rec i w) (fun s => { s with silent := if s.dirty.contains i then s.silent else sadd s.silent i })

end hooks

/-- the hooks with their recursion (`fuel` bounds the nesting depth of hooked writes) -/
def hook : Nat → Call → M Unit
  | 0, _ => raise .recursion
  | n + 1, c => hookBody (hook n) c

def fuelFor (st : St) : Nat := 4 * st.ents.length + 16

/-- `SyncEntry(state, otype)` -/
def newEntry (o : OType) : M Nat := fun s => (.ok s.ents.length, { s with ents := s.ents ++ [Entry.fresh o] })

def storeOp (op : Op Val) : M (Res Val) := fun s =>
  let (b, r) := s.store.step op
  (.ok r, { s with store := b })

/-- state.py:1097-1114 `_storage_update` -/
def storageUpdate (i : Nat) : M Unit := do
  let e ← getEnt i
  match e.storageId with
  | some sid =>
    if e.isTrash then do
      let _ ← storeOp (.delete tag (some sid))
      -- the row is gone: `ent._storage_id = None` (direct write)
      rawEnt i fun x => { x with storageId := none }
    else
      match e.row with
      | .error err => raise (.py err)
      | .ok row => do
        let r ← storeOp (.update tag row (some sid))
        match r with
        | .valueError => raise (.py .value)
        | _ => pure ()
  | none =>
    if e.isTrash then pure ()
    else
      match e.row with
      | .error err => raise (.py err)
      | .ok row => do
        let r ← storeOp (.create tag row)
        match r with
        | .id n => do
          -- `ent.storage_id = new_id` (1113): the hook (360-362) sees `None != new_id`, calls
          -- `updated(None, "storage_id", new_id)` (only the dirty mark applies), then stores it
          markDirty i
          rawEnt i fun x => { x with storageId := some n }
        | _ => raise .unmodelled

/-- state.py:1091-1095 `storage_commit` -/
def storageCommit : M Unit := do
  let st ← getSt
  forEach st.dirty storageUpdate
  modSt fun s => { s with dirty := [] }

/-! ### loader and lookups -/

def indexLoaded (st : St) (i : Nat) (e : Entry) : St :=
  let one := fun (st : St) (sd : Sd) =>
    let s := e.side sd
    if s.oid.isNone then st      -- a side without an id is not indexed and its stamp is not pending
    else
      let ix := st.ix sd
      let paths := if s.path.truthy then dset ix.paths s.path (dset ((dget ix.paths s.path).getD []) s.oid i) else ix.paths
      let st := st.setIx sd { oids := dset ix.oids s.oid i, paths := paths }
      if s.changed.truthy then { st with changeset := sadd st.changeset i } else st
  one (one st false) true

/-- the loader in `SyncState.__init__`: rebuild a state from the rows of `tag`; a row that fails to load is deleted -/
def loadRows : List (Nat × Val) → St → St
  | [], st => st
  | (eid, row) :: rest, st =>
    match Entry.deserialize eid row with
    | .ok e =>
      let i := st.ents.length
      loadRows rest (indexLoaded { st with ents := st.ents ++ [e] } i e)
    | .error _ =>
      loadRows rest { st with store := (st.store.step (.delete tag (some eid))).1 }

def rowsOf (b : Backend) : List (Nat × Val) :=
  match (b.step (.readAll (some tag))).2 with
  | .rows rs => rs.map fun (_, n, v) => (n, v)
  | _ => []

def reload (b : Backend) : St := loadRows (rowsOf b) (St.init b)

/-- state.py:942-947 -/
def lookupOid (st : St) (sd : Sd) (oid : Val) : Option Nat := dget (st.ix sd).oids oid

/-- state.py:949-956 -/
def lookupPath (st : St) (sd : Sd) (path : Val) (stale : Bool) : List Nat :=
  match dget (st.ix sd).paths path with
  | none => []
  | some d => (d.map (·.2)).filter fun i => stale || !(st.ents.getD i placeholder).hidden

/-! ### operation sequences -/

inductive Op where
  | new (o : OType)
  | write (c : Call)
  | commit

/-- one operation; the state is kept whatever happens (as the Python objects are) -/
def step (st : St) : Op → Except HErr Unit × St
  | .new o => let (_, s) := newEntry o st; (.ok (), s)
  | .write c => hook (fuelFor st) c st
  | .commit => storageCommit st

def run (st : St) : List Op → St
  | [] => st
  | op :: ops => run (step st op).2 ops

/-! ### one event-intake step (event.py `EventManager._do_unsafe` / `_process_event`)

Every delivered event — from the start-up walk (`_do_walk_if_needed`), from the user queue filled by
`CloudSync.walk()` (`queue(event, from_walk=True)`) or from the provider's feed — ends, inside
`_process_event`, with `state.update(…)` followed by `state.storage_commit()`.  `update` is tied to the
model by the hooked writes it performs (`writes`); `fromWalk` only decides whether an unchanged object is
skipped before `update` (then `writes = []`), never whether the commit happens. -/

structure IntakeEvent where
  fromWalk : Bool
  writes : List Op          -- the entry creations / hooked writes of `state.update` for this event

/-- `_process_event`: the event's writes, then `storage_commit` -/
def processEvent (st : St) (ev : IntakeEvent) : Except HErr Unit × St :=
  step (run st ev.writes) .commit

/-- one intake step: the events in delivery order; stops at the first commit that raises -/
def intakeStep (st : St) : List IntakeEvent → Except HErr Unit × St
  | [] => (.ok (), st)
  | ev :: rest =>
    match processEvent st ev with
    | (.ok _, st') => intakeStep st' rest
    | (.error e, st') => (.error e, st')

end CS.Persist
