import Csverif.Model.Path
/-
Model of the index machinery of `SyncState` (cloudsync/sync/state.py), hand-written branch by branch.

* entries live in a `Nat`-indexed store (`St.ents`); entry identity = index = creation order
* per side an id index `oids : id ↦ entry` and a path index `paths : path ↦ (id ↦ entry)`, both association
  lists with Python-dict semantics (update in place, new keys appended, deletion); order matters only where the
  code iterates (`get_all`, `get_kids`, `lookup_path`)
* the changeset and the dirty set are lists with set semantics (insertion ordered, as the harness' `set`
  replacement makes the real ones)
* `now` is the virtual clock (`time.time()`, milliseconds), `last` is `_last_changed_time`
* provider parameters: path helpers (`Csverif/Model/Path.lean`), `oid_is_path`, and the two oracles `prioritize`
  and `info_path` (the latter is an online call in `_update_kids`, state.py:863)
* exceptions are `Exc`; a raised exception keeps the state reached so far (`M α = St → Except Exc α × St`)
* Python recursion (`__setattr__` → `updated` → `_change_oid`/`_change_path` → `__setattr__` …)
  is modelled with explicit fuel on `sideSet`; fuel exhaustion is `Exc.recursion` (Python: RecursionError).
  `Props/C11.lean` proves when the fuel suffices.

No Mathlib import: this file is linked into the driver executable.
-/
namespace CS.State
open CS.Path (Str)

inductive Sd where | L | R
  deriving DecidableEq, Repr, Inhabited

def Sd.other : Sd → Sd | .L => .R | .R => .L

inductive OType where | dir | file | notknown
  deriving DecidableEq, Repr, Inhabited

/-- state.py:42-57 `Exists` -/
inductive Ex where | unknown | exists_ | trashed | missing | likely | corrupt
  deriving DecidableEq, Repr, Inhabited

/-- types.py `IgnoreReason` -/
inductive Ign where | none | discarded | conflict | tempRename | irrelevant
  deriving DecidableEq, Repr, Inhabited

/-- values of `SideState._changed`: `None`, `False` (written by the DISCARDED rule, state.py:784) or a time (ms) -/
inductive Chg where | none | fls | num (ms : Int)
  deriving DecidableEq, Repr, Inhabited

def Chg.truthy : Chg → Bool
  | .num n => n != 0
  | _ => false

/-- values assigned to `.exists`: a bool, `None` or an `Exists` member (`_translate_exists`, state.py:135-150) -/
inductive ExVal where | bool (b : Bool) | none | enum (x : Ex)
  deriving DecidableEq, Repr, Inhabited

def ExVal.translate : ExVal → Ex
  | .bool true => .exists_
  | .bool false => .trashed
  | .none => .unknown
  | .enum x => x

inductive Exc where | assert | key | value | recursion | badref
  deriving DecidableEq, Repr, Inhabited

abbrev Oid := Option Str

/-- Python truthiness of an optional string -/
def truthyS : Option Str → Bool
  | some (_ :: _) => true
  | _ => false

/-- Python truthiness of a hash token (`none` = None, `some 0` = b"", `some (n+1)` = non-empty bytes) -/
def truthyH : Option Nat → Bool
  | some (_ + 1) => true
  | _ => false

/-- one `SideState` (state.py:70-95) -/
structure Side where
  otype : OType := .file
  hash : Option Nat := none
  changed : Chg := .none
  syncHash : Option Nat := none
  syncPath : Option Str := none
  path : Option Str := none
  oid : Oid := none
  exists_ : Ex := .unknown
  savedExists : Option Ex := none
  size : Option Nat := none
  mtime : Option Nat := none
  lastGotten : Int := 0
  deriving DecidableEq, Repr, Inhabited

/-- one `SyncEntry` (state.py:327-348) -/
structure Entry where
  l : Side := {}
  r : Side := {}
  ignored : Ign := .none
  priority : Int := 0
  deriving DecidableEq, Repr, Inhabited

def Entry.side (e : Entry) : Sd → Side | .L => e.l | .R => e.r
def Entry.setSide (e : Entry) : Sd → Side → Entry
  | .L, x => { e with l := x }
  | .R, x => { e with r := x }

def Entry.isDiscarded (e : Entry) : Bool := e.ignored == .discarded || e.ignored == .irrelevant
def Entry.isConflicted (e : Entry) : Bool := e.ignored == .conflict

/-! ### Python dicts as association lists -/
namespace AL
variable {κ β : Type} [DecidableEq κ]

def get : List (κ × β) → κ → Option β
  | [], _ => none
  | (k', v) :: t, k => if k' = k then some v else get t k

/-- `d.pop(k, None)` / `del d[k]` -/
def erase : List (κ × β) → κ → List (κ × β)
  | [], _ => []
  | (k', v) :: t, k => if k' = k then erase t k else (k', v) :: erase t k

/-- `d[k] = v`: in place when the key exists, appended otherwise -/
def set : List (κ × β) → κ → β → List (κ × β)
  | [], k, v => [(k, v)]
  | (k', v') :: t, k, v => if k' = k then (k, v) :: t else (k', v') :: set t k v

def contains (l : List (κ × β)) (k : κ) : Bool := (get l k).isSome

end AL

structure Ix where
  oids : List (Oid × Nat) := []
  paths : List (Option Str × List (Oid × Nat)) := []
  deriving Repr, Inhabited

structure St where
  ents : List Entry := []
  ixL : Ix := {}
  ixR : Ix := {}
  cs : List Nat := []          -- `_changeset_storage`
  dirty : List Nat := []       -- `_dirtyset`
  now : Int := 1000000         -- virtual `time.time()` in ms
  last : Int := 1000000        -- `_last_changed_time`
  moving : List Nat := []      -- `_kids_moving`: folders whose kids are being moved (innermost first)
  deriving Repr, Inhabited

/-- provider pair + oracles -/
structure Cfg where
  pc : Sd → Path.Cfg
  oip : Sd → Bool                       -- `oid_is_path`
  prio : Sd → Str → Int                 -- `prioritize(side, path)`
  info : Sd → Str → Option Oid          -- `info_path(path)`: `none` = falsy, `some oid` = info.oid
  punt : Sd → Int                       -- `_punt_secs` in ms

def St.ix (st : St) : Sd → Ix | .L => st.ixL | .R => st.ixR
def St.setIx (st : St) : Sd → Ix → St
  | .L, x => { st with ixL := x }
  | .R, x => { st with ixR := x }
def St.oids (st : St) (s : Sd) := (st.ix s).oids
def St.paths (st : St) (s : Sd) := (st.ix s).paths
def St.setOids (st : St) (s : Sd) (o : List (Oid × Nat)) : St := st.setIx s { st.ix s with oids := o }
def St.setPaths (st : St) (s : Sd) (p : List (Option Str × List (Oid × Nat))) : St := st.setIx s { st.ix s with paths := p }

def St.ent (st : St) (i : Nat) : Entry := st.ents.getD i default
def St.side (st : St) (i : Nat) (s : Sd) : Side := (st.ent i).side s
def St.modEnt (st : St) (i : Nat) (f : Entry → Entry) : St := { st with ents := st.ents.set i (f (st.ent i)) }
def St.modSide (st : St) (i : Nat) (s : Sd) (f : Side → Side) : St :=
  st.modEnt i (fun e => e.setSide s (f (e.side s)))

def setAdd (l : List Nat) (i : Nat) : List Nat := if i ∈ l then l else l ++ [i]
def setDiscard (l : List Nat) (i : Nat) : List Nat := l.filter (· != i)

def St.csAdd (st : St) (i : Nat) : St := { st with cs := setAdd st.cs i }
def St.csDiscard (st : St) (i : Nat) : St := { st with cs := setDiscard st.cs i }
def St.dirtyAdd (st : St) (i : Nat) : St := { st with dirty := setAdd st.dirty i }

/-! ### the monad: state is kept on exceptions -/
def M (α : Type) := St → Except Exc α × St

instance : Monad M where
  pure a := fun s => (.ok a, s)
  bind m f := fun s => match m s with
    | (.ok a, s') => f a s'
    | (.error e, s') => (.error e, s')

def getSt : M St := fun s => (.ok s, s)
def modifySt (f : St → St) : M Unit := fun s => (.ok (), f s)
def throwE {α} (e : Exc) : M α := fun s => (.error e, s)
def assertM (b : Bool) : M Unit := if b then pure () else throwE .assert
/-- `try: m finally: f` -/
def finallyM {α} (m : M α) (f : St → St) : M α := fun s => match m s with | (r, s') => (r, f s')

/-! ### queries -/

/-- state.py:942-947 `lookup_oid` -/
def St.lookupOid (st : St) (s : Sd) (k : Oid) : Option Nat := AL.get (st.oids s) k

/-- state.py:949-956 `lookup_path` -/
def St.lookupPath (st : St) (s : Sd) (p : Option Str) (stale : Bool) : List Nat :=
  match AL.get (st.paths s) p with
  | none => []
  | some b => (b.map (·.2)).filter (fun i => stale || (!(st.ent i).isDiscarded && !(st.ent i).isConflicted))

def dedupAppend (acc : List Nat) : List Nat → List Nat
  | [] => acc
  | i :: t => dedupAppend (setAdd acc i) t

/-- state.py:1294-1308 `get_all` (iteration order of the harness' ordered set) -/
def St.getAll (st : St) (discarded : Bool) : List Nat :=
  let keep := fun (i : Nat) => discarded || !((st.ent i).isDiscarded || (st.ent i).isConflicted)
  dedupAppend (dedupAppend [] (((st.oids .L).map (·.2)).filter keep)) (((st.oids .R).map (·.2)).filter keep)

/-- one step of the `get_kids` generator (state.py:933-940): fields are read when the element is reached -/
def kidRel (cfg : Cfg) (st : St) (s : Sd) (parent : Str) (i : Nat) : Option Str :=
  match (st.side i s).path with
  | some (c :: p) =>
    match Path.isSubpath (cfg.pc s) parent (c :: p) true with
    | .rel (x :: r) => some (x :: r)
    | _ => none
  | _ => none

def St.getKids (cfg : Cfg) (st : St) (s : Sd) (parent : Str) : List (Nat × Str) :=
  (st.getAll false).filterMap (fun i => (kidRel cfg st s parent i).map (fun r => (i, r)))

/-! ### index primitives -/

/-- remove `(p, k)` from the path index and drop the bucket when it becomes empty
    (`self._paths[side][p].pop(k, None); if not self._paths[side][p]: del self._paths[side][p]`),
    only when the bucket exists -/
def St.popPathSlot (st : St) (s : Sd) (p : Option Str) (k : Oid) : St :=
  match AL.get (st.paths s) p with
  | none => st
  | some b =>
    let b' := AL.erase b k
    if b'.isEmpty then st.setPaths s (AL.erase (st.paths s) p)
    else st.setPaths s (AL.set (st.paths s) p b')

/-- `if p not in self._paths[side]: self._paths[side][p] = {}` then `self._paths[side][p][k] = i` -/
def St.setPathSlot (st : St) (s : Sd) (p : Option Str) (k : Oid) (i : Nat) : St :=
  let b := (AL.get (st.paths s) p).getD []
  st.setPaths s (AL.set (st.paths s) p (AL.set b k i))

/-- the entry found at `(path, id)` on a side: `self._paths[side].get(path, {}).get(id)` -/
def St.slot (st : St) (s : Sd) (p : Option Str) (k : Oid) : Option Nat :=
  match AL.get (st.paths s) p with
  | none => none
  | some b => AL.get b k

/-! ### the attribute hook -/

/-- a hooked assignment to a `SideState` attribute -/
inductive FV where
  | path (v : Option Str) | oid (v : Oid) | changed (v : Chg) | exists_ (v : ExVal) | hash (v : Option Nat)
  | syncHash (v : Option Nat) | syncPath (v : Option Str) | otype (v : OType) | size (v : Option Nat)
  | mtime (v : Option Nat)
  deriving Repr, DecidableEq, Inhabited

/-- callback type: `ent[side].<attr> = v` one recursion level down -/
abbrev SetF := Nat → Sd → FV → M Unit

/-- `if c: m` as a statement -/
def whenM (c : Bool) (m : M Unit) : M Unit := if c then m else pure ()

/-- `prior_ent = self._oids[side].pop(remove_oid)` and, when `prior_ent[side].path` is truthy and its bucket
    exists, `self._paths[side][prior_path].pop(remove_oid, None)` with the empty-bucket deletion (state.py:883-891) -/
def unindex (st : St) (s : Sd) (r : Oid) (p : Nat) : St :=
  let st1 := st.setOids s (AL.erase (st.oids s) r)
  if truthyS (st.side p s).path then st1.popPathSlot s (st.side p s).path r else st1

/-- one iteration of `for remove_oid in set([ent[side].oid, oid])` (state.py:882-895) -/
def removeOne (setF : SetF) (s : Sd) (e : Nat) (r : Oid) : M Unit := do
  let st ← getSt
  match AL.get (st.oids s) r with
  | none => pure ()
  | some p => do
    modifySt (fun st => unindex st s r p)
    whenM (p ≠ e) (setF p s (.oid none))       -- `prior_ent[side].oid = None`: ousted, recursive

/-- state.py:897-906: `ent[side]._oid = oid; self._oids[side][oid] = ent` and, when `ent[side].path` is truthy,
    `self._paths[side][path][oid] = ent` (bucket created when missing) -/
def indexOid (st : St) (e : Nat) (s : Sd) (k : Oid) : St :=
  let st1 := (st.modSide e s (fun x => { x with oid := k })).setOids s (AL.set (st.oids s) k e)
  if truthyS (st1.side e s).path then st1.setPathSlot s (st1.side e s).path k e else st1

/-- state.py:908-916, the changeset rules of `_change_oid` -/
def oidCsRule (st : St) (e : Nat) (s : Sd) (k : Oid) : St :=
  match k with
  | some _ => if (st.side e s).changed.truthy || (st.side e s.other).changed.truthy then st.csAdd e else st
  | none => if (st.side e s).changed.truthy && !(st.side e s.other).changed.truthy then st.csDiscard e else st

/-- state.py:879-916 `_change_oid` -/
def changeOid (setF : SetF) (s : Sd) (e : Nat) (oid : Oid) : M Unit := do
  let cur := ((← getSt).side e s).oid
  removeOne setF s e cur
  whenM (oid ≠ cur) (removeOne setF s e oid)
  whenM oid.isSome (do
    modifySt (fun st => indexOid st e s oid)
    -- the two `assert self.lookup_oid(side, oid) is ent` (state.py:901, 910)
    assertM ((← getSt).lookupOid s oid == some e))
  modifySt (fun st => oidCsRule st e s oid)

/-- `ent[side].changed += punt_secs[side]` when it is truthy (state.py:797-800) -/
def bumpChanged (setF : SetF) (cfg : Cfg) (e : Nat) (s : Sd) : M Unit := do
  let st ← getSt
  match (st.side e s).changed with
  | .num n => whenM (n != 0) (setF e s (.changed (.num (n + cfg.punt s))))
  | _ => pure ()

/-- `SyncEntry.__setattr__` for `priority` (state.py:355-362) with the `priority` branch of `updated` (794-800) -/
def setPriority (setF : SetF) (cfg : Cfg) (e : Nat) (v : Int) : M Unit := do
  let st ← getSt
  whenM (decide ((st.ent e).priority ≠ v)) (do
    whenM (decide (v > (st.ent e).priority) && decide (v > 0)) (do
      bumpChanged setF cfg e .L
      bumpChanged setF cfg e .R)
    modifySt (fun st => (st.dirtyAdd e).modEnt e (fun x => { x with priority := v })))

/-- `SyncEntry.__setattr__` for `ignored` with the `ignored` branch of `updated` (782-786) -/
def ignoredState (st : St) (e : Nat) (v : Ign) : St :=
  if (st.ent e).ignored = v then st else
    let st1 := if v = .discarded then
        ((st.modSide e .L (fun x => { x with changed := .fls })).modSide e .R (fun x => { x with changed := .fls })).csDiscard e
      else st
    (st1.dirtyAdd e).modEnt e (fun x => { x with ignored := v })

def setIgnored (e : Nat) (v : Ign) : M Unit := modifySt (fun st => ignoredState st e v)

/-- the sync_path part of the `_update_kids` loop body (state.py:872-876) -/
def fixSyncPath (setF : SetF) (cfg : Cfg) (s : Sd) (sub : Nat) (prior path : Str) : M Unit := do
  let st ← getSt
  match (st.side sub s).syncPath with
  | some (c :: sp) =>
    match Path.isSubpath (cfg.pc s) prior (c :: sp) false with
    | .rel (x :: r) => setF sub s (.syncPath (some (Path.join (cfg.pc s) [path, x :: r])))
    | _ => pure ()
  | _ => pure ()

/-- one kid of the `_update_kids` loop (state.py:855-876) -/
def moveKid (setF : SetF) (cfg : Cfg) (s : Sd) (sub : Nat) (prior path rel : Str) : M Unit := do
  let newPath := Path.join (cfg.pc s) [path, rel]
  whenM (cfg.oip s) (match cfg.info s newPath with
    | some o => setF sub s (.oid o)
    | none => pure ())
  setF sub s (.path (some newPath))
  fixSyncPath setF cfg s sub prior path

/-- the `for sub, relative in self.get_kids(prior_path, side)` loop (state.py:866-890);
    the snapshot `kids` was taken by `get_all()` when the generator started, fields are read lazily;
    an entry whose own kids are being moved (`_kids_moving`, fix C) is skipped -/
def kidsLoop (setF : SetF) (cfg : Cfg) (s : Sd) (prior path : Str) : List Nat → M Unit
  | [] => pure ()
  | sub :: rest => do
    let st ← getSt
    match kidRel cfg st s prior sub with
    | none => kidsLoop setF cfg s prior path rest
    | some rel =>
      if st.moving.contains sub then kidsLoop setF cfg s prior path rest      -- `if any(sub is moving …): continue`
      else do
        moveKid setF cfg s sub prior path rel
        kidsLoop setF cfg s prior path rest

/-- `_update_kids_of` -/
def updateKidsOf (setF : SetF) (cfg : Cfg) (s : Sd) (e : Nat) (prior : Option Str) (path : Str) : M Unit := do
  let st ← getSt
  match prior with
  | none => pure ()
  | some pr =>
    whenM ((st.side e s).otype == .dir && pr != path) (kidsLoop setF cfg s pr path (st.getAll false))

/-- `_update_kids` (fix C): the entry is on the `_kids_moving` stack while its kids are moved, also when an exception escapes -/
def updateKids (setF : SetF) (cfg : Cfg) (s : Sd) (e : Nat) (prior : Option Str) (path : Str) : M Unit :=
  finallyM (do
    modifySt (fun st => { st with moving := e :: st.moving })
    updateKidsOf setF cfg s e prior path) (fun st => { st with moving := st.moving.tail })

/-- state.py:833-837: the current owner of the `(path, oid)` slot is ousted (`prior_ent[side]._path = None`) -/
def oustPathOwner (s : Sd) (e : Nat) (pth : Str) : M Unit := do
  let st ← getSt
  match st.slot s (some pth) (st.side e s).oid with
  | some pe => do
    assertM (decide (pe ≠ e))
    modifySt (fun st => st.modSide pe s (fun x => { x with path := none }))
  | none => pure ()

/-- state.py:812-846 `_change_path` -/
def changePath (setF : SetF) (cfg : Cfg) (s : Sd) (e : Nat) (path : Option Str) : M Unit := do
  let st ← getSt
  assertM (!truthyS path || truthyS (st.side e s).oid)       -- `if path: assert ent[side].oid`
  let prior := (st.side e s).path
  if prior = path then pure () else do
    modifySt (fun st => if truthyS prior then st.popPathSlot s prior (st.side e s).oid else st)
    match path with
    | some (c :: p) => do
      let pth : Str := c :: p
      oustPathOwner s e pth
      modifySt (fun st => (st.setPathSlot s (some pth) (st.side e s).oid e).modSide e s (fun x => { x with path := some pth }))
      updateKids setF cfg s e prior pth
      setPriority setF cfg e (cfg.prio s pth)
    | _ => pure ()

/-- the `changed` branch of `updated` (state.py:787-793); the other side's dangling flag is zeroed by a direct write
    (`ent[other]._changed = 0`, fix B) -/
def changedRule (s : Sd) (e : Nat) (v : Chg) : M Unit := do
  let st ← getSt
  let o := s.other
  if (v.truthy && truthyS (st.side e s).oid) || ((st.side e o).changed.truthy && truthyS (st.side e o).oid) then
    modifySt (·.csAdd e)
  else
    modifySt (fun st1 =>
      let st2 := st1.csDiscard e
      if (st.side e o).changed.truthy && !truthyS (st.side e o).oid then
        st2.modSide e o (fun x => { x with changed := .num 0 })
      else st2)

/-- `SyncState.updated` for a side attribute (state.py:772-802) -/
def updatedSide (setF : SetF) (cfg : Cfg) (e : Nat) (s : Sd) (fv : FV) : M Unit := do
  (match fv with
  | .path v => changePath setF cfg s e v
  | .oid v => changeOid setF s e v
  | .changed v => changedRule s e v
  | _ => pure ())
  modifySt (·.dirtyAdd e)

/-- the unhooked part of `SideState.__setattr__` for `exists` (state.py:114-127, 152-155) -/
def existsState (st : St) (e : Nat) (s : Sd) (v : ExVal) : St :=
  let corrupt := (st.side e s).exists_ == .corrupt
  if v = .enum .corrupt && !corrupt then
    st.modSide e s (fun x => { x with savedExists := some x.exists_, exists_ := .corrupt })
  else if v ≠ .enum .corrupt && corrupt then
    st.modSide e s (fun x => { x with savedExists := some v.translate })
  else
    ((st.dirtyAdd e).modSide e s (fun sd => { sd with exists_ := v.translate })).dirtyAdd e

/-- `hash` (state.py:124, 131-133, 219-222): a new hash on a corrupt side un-corrupts it -/
def hashState (st : St) (e : Nat) (s : Sd) (v : Option Nat) : St :=
  let sd := st.side e s
  let st1 := st.dirtyAdd e
  let st2 := if sd.hash ≠ v && sd.exists_ == .corrupt then
      ((st1.modSide e s (fun x => { x with exists_ := (sd.savedExists).getD .unknown })).dirtyAdd e).modSide e s
        (fun x => { x with savedExists := none })
    else st1
  st2.modSide e s (fun x => { x with hash := v })

/-- `SideState.__setattr__` (state.py:109-133) one level: `ent[side].<attr> = v` -/
def sideSetBody (setF : SetF) (cfg : Cfg) (e : Nat) (s : Sd) (fv : FV) : M Unit :=
  match fv with
  | .exists_ v => modifySt (fun st => existsState st e s v)
  | .mtime v => modifySt (fun st => ((st.dirtyAdd e).modSide e s (fun x => { x with mtime := v })).dirtyAdd e)
  | .hash v => modifySt (fun st => hashState st e s v)
  | .path v => do
    updatedSide setF cfg e s fv
    modifySt (fun st => st.modSide e s (fun x => { x with path := v }))
  | .oid v => do
    updatedSide setF cfg e s fv
    modifySt (fun st => st.modSide e s (fun x => { x with oid := v }))
  | .changed v => do
    updatedSide setF cfg e s fv
    modifySt (fun st => st.modSide e s (fun x => { x with changed := v }))
  | .syncHash v => modifySt (fun st => (st.dirtyAdd e).modSide e s (fun x => { x with syncHash := v }))
  | .syncPath v => modifySt (fun st => (st.dirtyAdd e).modSide e s (fun x => { x with syncPath := v }))
  | .otype v => modifySt (fun st => (st.dirtyAdd e).modSide e s (fun x => { x with otype := v }))
  | .size v => modifySt (fun st => (st.dirtyAdd e).modSide e s (fun x => { x with size := v }))

/-- `ent[side].<attr> = v` with `fuel` levels of Python recursion available -/
def sideSet (cfg : Cfg) : Nat → SetF
  | 0, _, _, _ => throwE .recursion
  | fuel + 1, e, s, fv => sideSetBody (sideSet cfg fuel) cfg e s fv

/-! ### operations above the hook -/

/-- state.py:1035-1037: `if ent[side].changed <= self._last_changed_time: ent[side].changed = last + 0.001` -/
def bumpPastLast (cfg : Cfg) (fuel : Nat) (s : Sd) (e : Nat) : M Unit := do
  let st ← getSt
  match (st.side e s).changed with
  | .num c => whenM (decide (c ≤ st.last)) (sideSet cfg fuel e s (.changed (.num (st.last + 1))))
  | _ => pure ()

/-- state.py:1028-1038 `mark_changed` -/
def markChanged (cfg : Cfg) (fuel : Nat) (s : Sd) (e : Nat) : M Unit := do
  let st ← getSt
  sideSet cfg fuel e s (.changed (.num st.now))
  bumpPastLast cfg fuel s e
  modifySt (fun st => match (st.side e s).changed with
    | .num c => { st with last := c }
    | _ => st)

/-- state.py:169-178 `SideState.clear` -/
def clearSide (cfg : Cfg) (fuel : Nat) (e : Nat) (s : Sd) : M Unit := do
  sideSet cfg fuel e s (.exists_ (.enum .unknown))
  sideSet cfg fuel e s (.changed .none)
  sideSet cfg fuel e s (.hash none)
  sideSet cfg fuel e s (.syncHash none)
  sideSet cfg fuel e s (.syncPath none)
  sideSet cfg fuel e s (.path none)
  sideSet cfg fuel e s (.oid none)
  sideSet cfg fuel e s (.size none)
  sideSet cfg fuel e s (.mtime none)

/-- `SyncEntry(self, otype)` -/
def newEntry (ot : OType) : M Nat := do
  let st ← getSt
  modifySt (fun st => { st with ents := st.ents ++ [{ l := { otype := ot }, r := { otype := ot } }] })
  pure st.ents.length

/-- the hook calls of `__setitem__` on the receiving entry (state.py:428-435); they run on the side state that is
    still installed in `dst` -/
def setItemHooks (cfg : Cfg) (fuel : Nat) (dst : Nat) (side : Sd) (v' : Side) : M Unit := do
  let upd := updatedSide (sideSet cfg fuel) cfg dst side
  (match v'.oid with
  | none => do
    upd (.path v'.path)
    upd (.oid v'.oid)
  | some _ => do
    upd (.oid v'.oid)
    upd (.path v'.path))
  upd (.changed v'.changed)

/-- state.py:409-437 `SyncEntry.__setitem__`: `ents[dst][side] = ents[src][srcSide]`
    (`val` is the side state installed in `src`) -/
def setItem (cfg : Cfg) (fuel : Nat) (dst : Nat) (side : Sd) (src : Nat) (srcSide : Sd) : M Unit := do
  let val := (← getSt).side src srcSide
  sideSet cfg fuel src srcSide (.path none)
  sideSet cfg fuel src srcSide (.oid none)
  -- `val = copy.copy(val)`; `_path`, `_oid`, `_parent` patched
  let v' : Side := { (← getSt).side src srcSide with path := val.path, oid := val.oid }
  assertM (decide (srcSide = side))
  setItemHooks cfg fuel dst side v'
  modifySt (fun st => st.modSide dst side (fun _ => v'))

/-- state.py:1313-1352 `split` -/
def split (cfg : Cfg) (fuel : Nat) (e : Nat) : M (Nat × Nat) := do
  let st ← getSt
  let rep ← newEntry (st.side e .L).otype
  assertM (truthyS ((← getSt).side e .L).oid)
  setItem cfg fuel rep .L e .L
  assertM (truthyS ((← getSt).side rep .L).oid)
  let st ← getSt
  assertM (!(st.side e .L).oid.isSome || (st.getAll false).contains rep)
  assertM (!truthyS (st.side e .L).path || !(st.lookupPath .L (st.side e .L).path false).isEmpty)
  clearSide cfg fuel e .L
  assertM (truthyS ((← getSt).side rep .L).oid)
  assertM (((← getSt).getAll false).contains rep)
  markChanged cfg fuel .L rep
  markChanged cfg fuel .R e
  assertM (truthyS ((← getSt).side rep .L).oid)
  sideSet cfg fuel rep .L (.syncPath none)
  sideSet cfg fuel e .R (.syncPath none)
  assertM (truthyS ((← getSt).side rep .L).oid)
  pure (e, rep)

/-- arguments of `update_entry` / `update` -/
structure UArgs where
  oid : Oid := none
  path : Option Str := none
  hash : Option Nat := none
  exists_ : ExVal := .bool true
  changed : Option Int := none         -- `False` = none, else the value (ms)
  otype : Option OType := none
  size : Option Nat := none
  mtime : Option Nat := none
  accurate : Bool := false
  deriving Repr, Inhabited

/-- state.py:981-986: a discarded entry of a path-id provider is replaced by a new entry -/
def replaceDiscarded (cfg : Cfg) (e : Nat) (s : Sd) (a : UArgs) : M Nat := do
  let st ← getSt
  match a.oid, a.otype with
  | some _, some ot => if (st.ent e).isDiscarded && cfg.oip s && truthyS a.path then newEntry ot else pure e
  | _, _ => pure e

/-- `assert otype is not NOTKNOWN or not exists` (state.py:999; `not <Exists member>` raises ValueError) -/
def notKnownCheck (a : UArgs) : M Unit :=
  if a.otype = some .notknown then
    match a.exists_ with
    | .bool b => assertM (!b)
    | .none => pure ()
    | .enum _ => throwE .value
  else pure ()

/-- state.py:1017-1023 -/
def markIfChanged (cfg : Cfg) (fuel : Nat) (e : Nat) (s : Sd) (a : UArgs) : M Unit :=
  match a.changed with
  | some c =>
    whenM (c != 0) (do
      let st ← getSt
      assertM (truthyS (st.side e s).path || truthyS (st.side e s).oid)
      markChanged cfg fuel s e
      whenM a.accurate (modifySt (fun st => st.modSide e s (fun x => { x with lastGotten := c }))))
  | none => pure ()

/-- state.py:978-1026 `update_entry` -/
def updateEntry (cfg : Cfg) (fuel : Nat) (ent : Nat) (s : Sd) (a : UArgs) : M Unit := do
  let e ← replaceDiscarded cfg ent s a
  whenM a.oid.isSome (sideSet cfg fuel e s (.oid a.oid))
  let st ← getSt
  whenM (match a.otype with | some ot => ot != (st.side e s).otype | none => false)
    (sideSet cfg fuel e s (.otype (a.otype.getD .file)))
  whenM a.size.isSome (sideSet cfg fuel e s (.size a.size))
  whenM a.mtime.isSome (sideSet cfg fuel e s (.mtime a.mtime))
  notKnownCheck a
  let st ← getSt
  let np := a.path.map (Path.normSeps (cfg.pc s))
  whenM (a.path.isSome && np != (st.side e s).path) (sideSet cfg fuel e s (.path np))
  let st ← getSt
  whenM (a.hash.isSome && a.hash != (st.side e s).hash) (sideSet cfg fuel e s (.hash a.hash))
  let st ← getSt
  -- state.py:1016: `if ent[side].exists in (TRASHED, LIKELY_TRASHED) and exists is not False` (commit 406cddf)
  sideSet cfg fuel e s (.exists_ (if ((st.side e s).exists_ = .trashed || (st.side e s).exists_ = .likely) && a.exists_ != .bool false
    then .enum .likely else a.exists_))
  markIfChanged cfg fuel e s a

/-- `for path_ent in path_ents: ent = path_ent; ent.unignore(IgnoreReason.DISCARDED)` (state.py:1162-1165) -/
def unignoreAll : List Nat → Option Nat → M (Option Nat)
  | [], acc => pure acc
  | i :: t, _ => do
    let st ← getSt
    assertM ((st.ent i).ignored = .discarded || (st.ent i).ignored = .none)
    setIgnored i .none
    unignoreAll t (some i)

/-- state.py:1135-1138: a discarded, trashed prior entry is revived when the new id is unknown -/
def reusePrior (s : Sd) (ent : Option Nat) (pe : Nat) : M (Option Nat) := do
  let st ← getSt
  if ent.isNone && (st.ent pe).isDiscarded &&
      ((st.side pe s).exists_ = .trashed || (st.side pe s).exists_ = .missing) then do
    setIgnored pe .none
    pure (some pe)
  else pure ent

/-- state.py:1140-1165: merge with the prior entry (also when the found entry is discarded: commit 3bb1ee9),
    or match a stale entry by path -/
def mergePrior (cfg : Cfg) (fuel : Nat) (s : Sd) (a : UArgs) (ent : Option Nat) (priorEnt : Option Nat) : M (Option Nat) := do
  let st ← getSt
  match priorEnt with
  | some pe =>
    if !(st.ent pe).isDiscarded then
      let reuse := match ent with
        | none => true
        | some en => (st.ent en).isDiscarded ||
            (!(st.ent en).isConflicted && (truthyH (st.side pe s).syncHash || !truthyH (st.side en s).syncHash))
      if reuse then do
        let copyFrom := match ent with
          | some en => if truthyS (st.side en s.other).oid then some en else none
          | none => none
        (match copyFrom with
          | some en => whenM (!truthyS (st.side pe s.other).oid) (setItem cfg fuel pe s.other en s.other)
          | none => pure ())
        pure (some pe)
      else pure ent
    else if ent.isNone then unignoreAll (st.lookupPath s a.path true) ent
    else pure ent
  | none =>
    if ent.isNone then unignoreAll (st.lookupPath s a.path true) ent
    else pure ent

/-- state.py:1123-1169: which entry the event is applied to -/
def chooseEntry (cfg : Cfg) (fuel : Nat) (s : Sd) (ot : OType) (a : UArgs) (prior : Oid) : M Nat := do
  let st ← getSt
  let ent0 := st.lookupOid s a.oid
  let ent ← (if truthyS prior && prior != a.oid then do
      let priorEnt := st.lookupOid s prior
      let ent1 ← (match priorEnt with
        | some pe => reusePrior s ent0 pe
        | none => pure ent0)
      mergePrior cfg fuel s a ent1 priorEnt
    else pure ent0)
  match ent with
  | some e => pure e
  | none => newEntry ot

/-- state.py:1119-1172 `update`: one raw event -/
def update (cfg : Cfg) (fuel : Nat) (s : Sd) (ot : OType) (a : UArgs) (prior : Oid) : M Unit := do
  let e ← chooseEntry cfg fuel s ot a prior
  let now := (← getSt).now
  updateEntry cfg fuel e s { a with changed := some now, otype := some ot }

/-- state.py:756-764 `forget_oid` (fix A): the id slot, the path slot (bucket dropped when it becomes empty; a missing
    bucket is tolerated) and the pending-set membership go -/
def forgetOid (s : Sd) (k : Oid) : M Unit := do
  let st ← getSt
  match AL.get (st.oids s) k with
  | none => pure ()
  | some e =>
    modifySt (fun st => (((st.setOids s (AL.erase (st.oids s) k)).popPathSlot s (st.side e s).path k).csDiscard e))

/-- state.py:725-745 the loader (commit eec8a73): a side without an id is not indexed and does not make the entry pending;
    a side with an id is indexed under it, and under `(path, id)` when the path is truthy -/
def loadOne (st : St) (i : Nat) : St :=
  [Sd.L, Sd.R].foldl (fun st s =>
    let sd := st.side i s
    if sd.oid.isNone then st else
      let st := if truthyS sd.path then st.setPathSlot s sd.path sd.oid i else st
      let st := st.setOids s (AL.set (st.oids s) sd.oid i)
      if sd.changed.truthy then st.csAdd i else st) st

/-- a new `SyncState` over stored entries: `priority`, `_last_gotten` are not restored (state.py:404, 84) -/
def load (now : Int) (es : List Entry) : St :=
  let es' := es.map (fun e => { e with priority := 0, l := { e.l with lastGotten := 0 }, r := { e.r with lastGotten := 0 } })
  (List.range es'.length).foldl loadOne { ents := es', now := now, last := now }

/-- harness operation `reload`: store every entry reachable from the id indexes, build a new state from it -/
def reload (st : St) : St := load st.now ((st.getAll true).map st.ent)

/-! ### state-level operations (the alphabet of the correspondence and of the theorems) -/
inductive Op where
  | tick (ms : Nat)
  | setSide (e : Nat) (s : Sd) (fv : FV)          -- `ent[side].<attr> = v`
  | setIgnored (e : Nat) (v : Ign)                -- `ent.ignored = v`
  | setPriority (e : Nat) (v : Int)               -- `ent.priority = v`
  | punt (e : Nat)                                -- `ent.punt()`
  | unignore (e : Nat) (r : Ign)                  -- `ent.unignore(reason)`
  | update (s : Sd) (ot : OType) (a : UArgs) (prior : Oid)
  | updateEntry (e : Nat) (s : Sd) (a : UArgs)
  | split (e : Nat)
  | setItem (dst : Nat) (side : Sd) (src : Nat) (srcSide : Sd)
  | forget (s : Sd) (k : Oid)
  | clear (e : Nat) (s : Sd)
  | mark (e : Nat) (s : Sd)
  | commit                                        -- `storage_commit()` without storage: clears the dirty set
  | reload
  deriving Repr, Inhabited

def Op.refs : Op → List Nat
  | .setSide e .. | .setIgnored e _ | .setPriority e _ | .punt e | .unignore e _ | .updateEntry e .. | .split e
  | .clear e _ | .mark e _ => [e]
  | .setItem d _ s _ => [d, s]
  | _ => []

/-- run one operation; an operation naming an entry that does not exist is rejected (`badref`) -/
def step (cfg : Cfg) (fuel : Nat) (op : Op) : M Unit := do
  let st ← getSt
  if op.refs.any (fun i => i ≥ st.ents.length) then throwE .badref
  match op with
  | .tick ms => modifySt (fun st => { st with now := st.now + ms })
  | .setSide e s fv => sideSet cfg fuel e s fv
  | .setIgnored e v => setIgnored e v
  | .setPriority e v => setPriority (sideSet cfg fuel) cfg e v
  | .punt e => setPriority (sideSet cfg fuel) cfg e ((st.ent e).priority + 1)
  | .unignore e r =>
    assertM ((st.ent e).ignored = r || (st.ent e).ignored = .none)
    setIgnored e .none
  | .update s ot a prior => update cfg fuel s ot a prior
  | .updateEntry e s a => updateEntry cfg fuel e s a
  | .split e => do let _ ← split cfg fuel e; pure ()
  | .setItem d sd s ss => setItem cfg fuel d sd s ss
  | .forget s k => forgetOid s k
  | .clear e s => clearSide cfg fuel e s
  | .mark e s => markChanged cfg fuel s e
  | .commit => modifySt (fun st => { st with dirty := [] })
  | .reload => modifySt reload

def run (cfg : Cfg) (fuel : Nat) : List Op → St → St
  | [], st => st
  | op :: ops, st => run cfg fuel ops (step cfg fuel op st).2

def init : St := {}

/-- configuration used by the driver: two MockProviders -/
def mkCfg (oipL oipR csL csR : Bool) (prioMode infoMode : Nat) : Cfg :=
  { pc := fun s => match s with | .L => Path.mkCfg csL false | .R => Path.mkCfg csR false
    oip := fun s => match s with | .L => oipL | .R => oipR
    prio := fun _ p => if prioMode = 0 then 0 else if p.contains 'z' then 2 else if p.contains 'y' then -1 else 0
    info := fun _ p => if infoMode = 0 then none else if infoMode = 2 && p.contains 'n' then none else some (some p)
    punt := fun s => match s with | .L => 1 | .R => 2 }

end CS.State
