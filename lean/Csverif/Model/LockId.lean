import Csverif.Model.Lock
/-
C15 — lock IDENTITY.  Model/Lock.lean has one lock by construction; the code has an ATTRIBUTE `state.lock` (state.py:721) that
every `with self.state.lock:` evaluates afresh, and a thread that finds the lock taken blocks on the OBJECT it evaluated.
This layer makes that explicit:

  * lock objects are numbered; `cur` is the object `state.lock` denotes now; `rebind` (an assignment to the attribute after
    construction: `self.lock = RLock()`) makes it denote a fresh object;
  * `acquire` evaluates `cur` ONCE: if that object is free (or already the thread's) the thread enters, otherwise it starts
    waiting ON THAT OBJECT (`waiting t = some k`) and can later enter only through that same object — even if `state.lock`
    has been re-bound meanwhile (it then owns an orphaned lock that nobody else looks at);
  * `release` releases the object the thread entered (innermost first), as `with` does;
  * accesses are as in Model/Lock.lean.

With no `rebind` in any thread (`LockIdentityStable`) this model is bisimilar to Model/Lock.lean (Proofs/LockId.lean), and the
serializability theorem carries over (Props/C15.lean).  With a `rebind` it does not: `rebindDemo` below is the schedule of a
`forget()` that re-creates the lock while an event thread is queued on it.
No Mathlib.
-/
namespace CS.LockId
open CS.Lock (Tid Loc Val upd)

abbrev LockObj := Nat

inductive MAct where
  | acquire
  | release
  | rebind
  | read (l : Loc)
  | write (l : Loc) (f : List Val → Val)
  | other

abbrev MProg := Tid → List MAct

structure MState where
  store : Loc → Val
  cur : LockObj
  fresh : LockObj
  owner : LockObj → Option Tid
  depth : LockObj → Nat
  waiting : Tid → Option LockObj
  stack : Tid → List LockObj
  code : MProg
  obs : Tid → List Val

def minit (p : MProg) (σ : Loc → Val) : MState :=
  { store := σ, cur := 0, fresh := 1, owner := fun _ => none, depth := fun _ => 0, waiting := fun _ => none,
    stack := fun _ => [], code := p, obs := fun _ => [] }

/-- one step of thread `t`; `none` = not enabled -/
def mstep (s : MState) (t : Tid) : Option MState :=
  match s.code t with
  | [] => none
  | .acquire :: rest =>
    let k := (s.waiting t).getD s.cur
    match s.owner k with
    | none => some { s with owner := upd s.owner k (some t), depth := upd s.depth k 1, waiting := upd s.waiting t none,
                            stack := upd s.stack t (k :: s.stack t), code := upd s.code t rest }
    | some o =>
      if o = t then some { s with depth := upd s.depth k (s.depth k + 1), waiting := upd s.waiting t none,
                                  stack := upd s.stack t (k :: s.stack t), code := upd s.code t rest }
      else if s.waiting t = none then some { s with waiting := upd s.waiting t (some k) }
      else none
  | .release :: rest =>
    match s.stack t with
    | [] => none
    | k :: ks =>
      if s.owner k = some t then
        (if s.depth k ≤ 1 then some { s with owner := upd s.owner k none, depth := upd s.depth k 0, stack := upd s.stack t ks,
                                             code := upd s.code t rest }
         else some { s with depth := upd s.depth k (s.depth k - 1), stack := upd s.stack t ks, code := upd s.code t rest })
      else none
  | .rebind :: rest => some { s with cur := s.fresh, fresh := s.fresh + 1, code := upd s.code t rest }
  | .read l :: rest => some { s with code := upd s.code t rest, obs := upd s.obs t (s.store l :: s.obs t) }
  | .write l f :: rest => some { s with code := upd s.code t rest, store := upd s.store l (f (s.obs t)) }
  | .other :: rest => some { s with code := upd s.code t rest }

def mrun (s : MState) : List Tid → Option MState
  | [] => some s
  | t :: rest => match mstep s t with
    | none => none
    | some s1 => mrun s1 rest

def isRebind : MAct → Bool
  | .rebind => true
  | _ => false

/-- LOCK-IDENTITY STABILITY: no thread ever re-binds `state.lock` (the constructor's binding happens before any thread exists) -/
def LockIdentityStable (p : MProg) : Prop := ∀ t, ∀ a ∈ p t, isRebind a = false

def toAct : MAct → CS.Lock.Act
  | .acquire => .acquire
  | .release => .release
  | .rebind => .other
  | .read l => .read l
  | .write l f => .write l f
  | .other => .other

/-- the one-lock program this program is when its lock identity is stable -/
def toProg (p : MProg) : CS.Lock.Prog := fun t => (p t).map toAct

/-- serial: no step by a thread other than the holder of the lock object `state.lock` denotes -/
def MSerial : MState → List Tid → Prop
  | _, [] => True
  | s, t :: rest => (s.owner s.cur = none ∨ s.owner s.cur = some t) ∧
      match mstep s t with
      | none => True
      | some s1 => MSerial s1 rest

/-- sites of the source that (re)bind, delete, alias or copy the lock attribute, as extracted by tools/gen_lock_sites.py:
    (kind, function, expression) -/
abbrev BindingSite := String × String × String

/-- the source binds the lock in the constructor of the state and nowhere else (no rebinding, deletion, alias, copy) -/
def ConstructorOnly (bs : List BindingSite) : Bool :=
  !bs.isEmpty && bs.all (fun b => b.1 == "bind" && b.2.1 == "SyncState.__init__")

/-- ABSTRACTION CONTRACT between source and model: threads model code that runs after the state was constructed, and a
    `rebind` action may only stand for a binding site of the source outside the constructor.  So a program that abstracts a
    source whose only binding site is the constructor has a stable lock identity. -/
def RespectsBindings (bs : List BindingSite) (p : MProg) : Prop := ConstructorOnly bs = true → LockIdentityStable p

/-! ### what a rebinding does: `forget()` re-creates the lock while the event thread is queued on it

thread 0 (application, `CloudSync.forget`):  acquire; rebind; release
thread 1 (event thread):                     acquire; read x; write x := seen + 1; release
thread 2 (sync thread):                      acquire; read x; write x := seen + 10; release        -/
def rebindDemo : MProg := fun t =>
  if t = 0 then [.acquire, .rebind, .release]
  else if t = 1 then [.acquire, .read 0, .write 0 (fun obs => obs.headD 0 + 1), .release]
  else if t = 2 then [.acquire, .read 0, .write 0 (fun obs => obs.headD 0 + 10), .release]
  else []

/-- 0 takes the lock; 1 queues on it; 0 rebinds and releases; 1 enters on the ORPHANED object; 2 enters on the new one -/
def rebindSchedPrefix : List Tid := [0, 1, 0, 0, 1, 1, 2]
def rebindSched : List Tid := rebindSchedPrefix ++ [2, 2, 2, 1, 1]

end CS.LockId
