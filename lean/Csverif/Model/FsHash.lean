/-
Model of the hash functions of `cloudsync/providers/filesystem.py`:
`_fast_hash_data` (541-553), `_fast_hash_path` (511-539, with its mtime/prefix keyed cache),
`hash_data` (689-695, as repaired in commit 231899d) and the pre-repair `hash_data`.

Bytes are an arbitrary type `B`; the digest `D : List B → Hh` (`get_hash`, blake2b-256) is a
parameter.  Its collision-freeness is a *hypothesis* of the theorems, never an axiom.
-/
namespace CS.FsHash

variable {B Hh : Type}

/-- `_fast_hash_data`: digest of the first KiB plus (for longer data) the last up-to-1-KiB of the
    rest; the flag says whether that digest covered all the data (`not last`) -/
def fastHashData (D : List B → Hh) (bs : List B) : Hh × Bool :=
  let n := bs.length
  let first := bs.take 1024
  let last := if n > 1024 then bs.drop (n - min 1024 (n - 1024)) else []
  (D (first ++ last), last.isEmpty)

/-- `hash_data` as it is now -/
def hashData (D : List B → Hh) (bs : List B) : Hh :=
  let r := fastHashData D bs
  if !r.2 then D bs else r.1

/-- `hash_data` before commit 231899d: `return self._fast_hash_data(file_like)[0]` -/
def hashDataOld (D : List B → Hh) (bs : List B) : Hh := (fastHashData D bs).1

/-- `CacheEnt` (filesystem.py:174-178); the falsy initial `b''` hashes are `none` -/
structure CacheEnt (Hh : Type) where
  mtime : Nat
  qhash : Option Hh
  fhash : Option Hh

def CacheEnt.fresh : CacheEnt Hh := { mtime := 0, qhash := none, fhash := none }

/-- `_fast_hash_path` for a regular file with cache enabled: returns the updated cache entry and
    the hash that `info_path` / `info_oid` / `listdir` / `hash_oid` report -/
def fastHashPath [DecidableEq Hh] (D : List B → Hh) (ci : CacheEnt Hh) (mtime : Nat) (bs : List B) :
    CacheEnt Hh × Hh :=
  let r := fastHashData D bs
  match ci.qhash with
  | some q =>
    if mtime != ci.mtime || some r.1 != ci.fhash then
      let q' := if r.2 then r.1 else D bs
      ({ mtime := mtime, qhash := some q', fhash := some r.1 }, q')
    else (ci, q)
  | none =>
    let q' := if r.2 then r.1 else D bs
    ({ mtime := mtime, qhash := some q', fhash := some r.1 }, q')

end CS.FsHash

/-
The event cursor of `FileSystemProvider` (filesystem.py:400-419 `latest_cursor` / `current_cursor` and its
setter, 459-476 `events`).  Cursors are plain integers starting at 0; the watchdog thread appends an event
and increments `_latest_cursor`; `events()` yields the events with index `_cursor+1 … _latest_cursor`
(their `new_cursor` stamps) and leaves `_cursor = _latest_cursor`.  The pruning window (`_event_window`,
1000 events) is not modelled: `_evoffset = 0`.
-/
namespace CS.FsCursor

structure St where
  cursor : Nat      -- `_cursor`
  latest : Nat      -- `_latest_cursor` = number of events received so far

inductive Val where
  | none            -- Python None
  | int (n : Nat)   -- a non-negative int
  | other           -- anything that is not an int
  deriving Repr, DecidableEq

inductive Res where
  | ok
  | cursorErr       -- CloudCursorError
  deriving Repr, DecidableEq

/-- the setter, branch by branch: None → latest; non-int → CloudCursorError; beyond `latest + 1` →
    CloudCursorError; else assigned -/
def setCursor (s : St) : Val → St × Res
  | .none => ({ s with cursor := s.latest }, .ok)
  | .other => (s, .cursorErr)
  | .int v => if v > s.latest + 1 then (s, .cursorErr) else ({ s with cursor := v }, .ok)

/-- `events()` drained: the `new_cursor` stamps yielded, and the cursor moved to the end
    (unchanged when it is already at or beyond the end) -/
def drain (s : St) : St × List Nat :=
  ({ s with cursor := max s.cursor s.latest }, (List.range (s.latest - s.cursor)).map (fun i => s.cursor + i + 1))

/-- the watchdog thread delivered `n` more events -/
def receive (s : St) (n : Nat) : St := { s with latest := s.latest + n }

end CS.FsCursor
