/-
Model of the hash functions of `cloudsync/providers/filesystem.py`:
`_fast_hash_data` (541-553), `_fast_hash_path` (511-539, with its mtime/prefix keyed cache),
`hash_data` (689-695, as repaired in commit 231899d) and the pre-repair `hash_data`.

Bytes are an arbitrary type `B`; the digest `D : List B → Hh` (`get_hash`, blake2b-256) is a
parameter.  Its collision-freeness is a *hypothesis* of the theorems, never an axiom.
-/
namespace CS.FsHash

variable {B Hh : Type}

/-- `_fast_hash_data`: digest of the first KiB plus (for longer data) the last up-to-1-KiB of the
    rest; the flag says whether that digest covered all the data (`not last`) -/
def fastHashData (D : List B → Hh) (bs : List B) : Hh × Bool :=
  let n := bs.length
  let first := bs.take 1024
  let last := if n > 1024 then bs.drop (n - min 1024 (n - 1024)) else []
  (D (first ++ last), last.isEmpty)

/-- `hash_data` as it is now -/
def hashData (D : List B → Hh) (bs : List B) : Hh :=
  let r := fastHashData D bs
  if !r.2 then D bs else r.1

/-- `hash_data` before commit 231899d: `return self._fast_hash_data(file_like)[0]` -/
def hashDataOld (D : List B → Hh) (bs : List B) : Hh := (fastHashData D bs).1

/-- `CacheEnt` (filesystem.py:174-178); the falsy initial `b''` hashes are `none` -/
structure CacheEnt (Hh : Type) where
  mtime : Nat
  qhash : Option Hh
  fhash : Option Hh

def CacheEnt.fresh : CacheEnt Hh := { mtime := 0, qhash := none, fhash := none }

/-- `_fast_hash_path` for a regular file with cache enabled: returns the updated cache entry and
    the hash that `info_path` / `info_oid` / `listdir` / `hash_oid` report -/
def fastHashPath [DecidableEq Hh] (D : List B → Hh) (ci : CacheEnt Hh) (mtime : Nat) (bs : List B) :
    CacheEnt Hh × Hh :=
  let r := fastHashData D bs
  match ci.qhash with
  | some q =>
    if mtime != ci.mtime || some r.1 != ci.fhash then
      let q' := if r.2 then r.1 else D bs
      ({ mtime := mtime, qhash := some q', fhash := some r.1 }, q')
    else (ci, q)
  | none =>
    let q' := if r.2 then r.1 else D bs
    ({ mtime := mtime, qhash := some q', fhash := some r.1 }, q')

end CS.FsHash
