/-
Model of cloudsync/runnable.py (service loop, backoff, stop protocol) and
cloudsync/notification.py (notification queue).

Part A — the sequential loop: backoff arithmetic over `Rat` and the sleep requested after each
          outcome of `do()`  (runnable.py:70-126).
Part B — the stop/start/wake protocol as a finite transition system whose steps are the individual
          reads and writes of the shared flags made by the loop thread and by an application thread
          (runnable.py:93-141, 163-207, 227-237), so that *every* interleaving is a path.
Part C — the notification queue (notification.py:54-101).
-/
namespace CS.Runnable

/-! ## Part A -/

structure Params where
  mn   : Rat
  mx   : Rat
  mult : Rat

/-- how one call of `do()` ended -/
inductive Outcome where
  | success      -- returned, did something
  | noop         -- returned after `nothing_happened()`
  | backoffReq   -- raised the internal backoff request
  | exc          -- raised an arbitrary Exception
  | baseExc      -- raised a BaseException
  | noopThenFail -- called `nothing_happened()` and then raised (backoff request or exception) in the same call
  deriving Repr, DecidableEq

/-- runnable.py:70-71 `__increment_backoff` -/
def incr (p : Params) (b : Rat) : Rat := min p.mx (max (b * p.mult) p.mn)

/-- new `in_backoff` after one iteration (runnable.py:103-117) -/
def after (p : Params) (b : Rat) : Outcome → Rat
  | .success => if b > 0 then 0 else b
  | .noop => b
  | _ => incr p b

/-- the sleep requested at the end of the iteration (runnable.py:122-126) -/
def sleepFor (sleep b : Rat) : Rat := if b > 0 then b else sleep

/-- run the loop over a sequence of outcomes; returns the final backoff and the sleeps requested -/
def runSeq (p : Params) (sleep : Rat) : Rat → List Outcome → Rat × List Rat
  | b, [] => (b, [])
  | b, o :: os =>
    let b' := after p b o
    let (bf, ss) := runSeq p sleep b' os
    (bf, sleepFor sleep b' :: ss)

/-- backoff after `k` consecutive failures starting from no backoff -/
def failK (p : Params) : Nat → Rat
  | 0 => 0
  | k+1 => incr p (failK p k)

/-! ## Part B -/

/-- program counter of the loop thread (`run`) -/
inductive LPc where
  | none        -- no thread object yet
  | r0a         -- about to: self.__interrupt = threading.Event()
  | r0b         -- about to: self.__stopped = False
  | r1a         -- loop head: read __stopping
  | r1b         --            read __shutdown
  | rDo         -- about to call do()
  | r3a         -- after do(): read __stopping
  | r3b         --             read __shutdown
  | slp         -- in interruptable_sleep: waiting on the event / timeout
  | f1          -- finally: __stopping = False
  | f2          --          __stopped = True
  | f3          --          __interrupt = None
  | f4          --          if __shutdown: done()
  | dead        -- thread has exited
  deriving Repr, DecidableEq

inductive Intr where
  | absent | clear | set
  deriving Repr, DecidableEq

/-- program counter of the application thread -/
inductive CPc where
  | idle
  | stop1 (forever wait : Bool)   -- about to: __shutdown = forever
  | stop2 (forever wait : Bool)   -- about to: __stopping = True
  | stop3 (forever wait : Bool)   -- about to: wake()
  | stop4 (forever wait : Bool)   -- about to: join if wait
  | wake1
  | start1                        -- check __shutdown
  | start2                        -- old thread alive? join(timeout=1)
  | start3                        -- still alive? raise
  | start4                        -- __stopping = False
  | start5                        -- create + start thread
  | wait1                         -- wait(): join
  deriving Repr, DecidableEq

structure St where
  lpc       : LPc
  cpc       : CPc
  stopping  : Bool
  shutdown  : Bool
  stopped   : Bool
  intr      : Intr
  -- monitors (not program state)
  doneInc   : Fin 3      -- calls of done() by the current thread incarnation, saturating at 2
  quiesced  : Bool       -- a waiting stop()/wait() has returned and start() has not been called since
  finalLive : Bool       -- the last stop request was final and was written while the loop thread was alive
  finalized : Bool       -- the last stop request was final
  bad       : Nat        -- 0 = fine; otherwise the number of the property that was seen violated
  deriving Repr, DecidableEq

def init : St :=
  { lpc := .none, cpc := .idle, stopping := false, shutdown := false, stopped := false, intr := .absent,
    doneInc := 0, quiesced := false, finalLive := false, finalized := false, bad := 0 }

def alive (s : St) : Bool := s.lpc != .none && s.lpc != .dead

def bump (n : Fin 3) : Fin 3 := if h : n.val < 2 then ⟨n.val + 1, by omega⟩ else n

def flag (s : St) (cond : Bool) (n : Nat) : St := if cond && s.bad == 0 then { s with bad := n } else s

/-- actions: one atomic step of the loop thread (a sleep may or may not time out), one atomic step of
    the application thread, or the application thread choosing its next call -/
inductive Act where
  | loop (timeout : Bool)
  | app
  | call (c : CPc)                            -- only from `idle`
  deriving Repr, DecidableEq

/-- one step of the loop thread; `none` if blocked / not running -/
def stepLoop (s : St) (timeout : Bool) : Option St :=
  match s.lpc with
  | .none | .dead => none
  | .r0a => some { s with intr := .clear, lpc := .r0b }
  | .r0b => some { s with stopped := false, lpc := .r1a }
  | .r1a => some { s with lpc := if s.stopping then .f1 else .r1b }
  | .r1b => some { s with lpc := if s.shutdown then .f1 else .rDo }
  | .rDo => some (flag { s with lpc := .r3a } s.quiesced 1)   -- P1: do() never runs once a waiting stop returned
  | .r3a => some { s with lpc := if s.stopping then .f1 else .r3b }
  | .r3b => some { s with lpc := if s.shutdown then .f1 else .slp }
  | .slp =>
    match s.intr with
    | .set => some { s with intr := .clear, lpc := .r1a }      -- wait() returned True; clear()
    | _ => if timeout then some { s with lpc := .r1a } else none
  | .f1 => some { s with stopping := false, lpc := .f2 }
  | .f2 => some { s with stopped := true, lpc := .f3 }
  | .f3 => some { s with intr := .absent, lpc := .f4 }
  | .f4 =>
    let s' := { s with lpc := .dead, doneInc := if s.shutdown then bump s.doneInc else s.doneInc }
    some (flag s' (s'.doneInc.val > 1) 2)                       -- P2: cleanup at most once

def wakeEffect (s : St) : St :=
  match s.intr with
  | .absent => s
  | _ => { s with intr := .set }

/-- a join on the loop thread has returned: P3 — after a final stop written while the loop was alive,
    cleanup has run exactly once -/
def joined (s : St) (final : Bool) : St :=
  flag { s with cpc := .idle, quiesced := true } (final && s.finalLive && s.doneInc.val != 1) 3

/-- one step of the application thread; `none` if blocked (join) or idle -/
def stepApp (s : St) : Option St :=
  match s.cpc with
  | .idle => none
  | .stop1 f w => some { s with shutdown := f, finalized := f, finalLive := f && alive s, cpc := .stop2 f w }
  | .stop2 f w => some { s with stopping := true, cpc := .stop3 f w }
  | .stop3 f w => some { wakeEffect s with cpc := .stop4 f w }
  | .stop4 f w =>
    if w && s.lpc != .none then
      (if s.lpc == .dead then some (joined s f) else none)   -- thread.join()
    else some { s with cpc := .idle }
  | .wake1 => some { wakeEffect s with cpc := .idle }
  | .start1 => some { s with cpc := if s.shutdown then .idle else .start2 }
  | .start2 => some { s with cpc := .start3 }                 -- join(timeout=1) may or may not have waited
  | .start3 => some { s with cpc := if alive s then .idle else .start4 }
  | .start4 => some { s with stopping := false, cpc := .start5 }
  | .start5 =>                                                -- P4: no thread is created after a final stop
    some (flag { s with lpc := .r0a, cpc := .idle, quiesced := false, doneInc := 0, finalLive := false } s.finalized 4)
  | .wait1 =>
    if s.lpc == .none then some { s with cpc := .idle }
    else if s.lpc == .dead then some (joined s false) else none

def callable : CPc → Bool
  | .stop1 _ _ | .wake1 | .start1 | .wait1 => true
  | _ => false

def step (s : St) : Act → Option St
  | .loop t => stepLoop s t
  | .app => stepApp s
  | .call c => if s.cpc == .idle && callable c then some { s with cpc := c } else none

def acts : List Act :=
  [.loop true, .loop false, .app, .call (.stop1 true true), .call (.stop1 true false), .call (.stop1 false true),
   .call (.stop1 false false), .call .wake1, .call .start1, .call .wait1]

/-- run a schedule; disabled actions are skipped -/
def exec (s : St) : List Act → St
  | [] => s
  | a :: as => exec ((step s a).getD s) as

/-! ### numeric encoding of protocol states (mixed radix), used for the reachability certificate -/

def LPc.code : LPc → Nat
  | .none => 0 | .r0a => 1 | .r0b => 2 | .r1a => 3 | .r1b => 4 | .rDo => 5 | .r3a => 6 | .r3b => 7
  | .slp => 8 | .f1 => 9 | .f2 => 10 | .f3 => 11 | .f4 => 12 | .dead => 13

def LPc.fromNat : Nat → LPc
  | 0 => .none | 1 => .r0a | 2 => .r0b | 3 => .r1a | 4 => .r1b | 5 => .rDo | 6 => .r3a | 7 => .r3b
  | 8 => .slp | 9 => .f1 | 10 => .f2 | 11 => .f3 | 12 => .f4 | _ => .dead

def b2n (b : Bool) : Nat := if b then 1 else 0
def n2b (n : Nat) : Bool := n % 2 == 1

def CPc.code : CPc → Nat
  | .idle => 0
  | .stop1 f w => 1 + 2 * b2n f + b2n w
  | .stop2 f w => 5 + 2 * b2n f + b2n w
  | .stop3 f w => 9 + 2 * b2n f + b2n w
  | .stop4 f w => 13 + 2 * b2n f + b2n w
  | .wake1 => 17 | .start1 => 18 | .start2 => 19 | .start3 => 20 | .start4 => 21 | .start5 => 22 | .wait1 => 23

def CPc.fromNat (n : Nat) : CPc :=
  if n == 0 then .idle
  else if n < 5 then .stop1 (n2b ((n - 1) / 2)) (n2b (n - 1))
  else if n < 9 then .stop2 (n2b ((n - 5) / 2)) (n2b (n - 5))
  else if n < 13 then .stop3 (n2b ((n - 9) / 2)) (n2b (n - 9))
  else if n < 17 then .stop4 (n2b ((n - 13) / 2)) (n2b (n - 13))
  else if n == 17 then .wake1 else if n == 18 then .start1 else if n == 19 then .start2
  else if n == 20 then .start3 else if n == 21 then .start4 else if n == 22 then .start5 else .wait1

def Intr.code : Intr → Nat | .absent => 0 | .clear => 1 | .set => 2
def Intr.fromNat : Nat → Intr | 0 => .absent | 1 => .clear | _ => .set

/-- radices: lpc 14, cpc 24, stopping 2, shutdown 2, stopped 2, intr 3, doneInc 3, quiesced 2, finalLive 2,
    finalized 2, bad 5 -/
def encode (s : St) : Nat :=
  ((((((((((min s.bad 4) * 2 + b2n s.finalized) * 2 + b2n s.finalLive) * 2 + b2n s.quiesced) * 3 + s.doneInc.val) * 3
    + s.intr.code) * 2 + b2n s.stopped) * 2 + b2n s.shutdown) * 2 + b2n s.stopping) * 24 + s.cpc.code) * 14 + s.lpc.code

def decode (n : Nat) : St :=
  let lpc := LPc.fromNat (n % 14); let n := n / 14
  let cpc := CPc.fromNat (n % 24); let n := n / 24
  let stopping := n2b n; let n := n / 2
  let shutdown := n2b n; let n := n / 2
  let stopped := n2b n; let n := n / 2
  let intr := Intr.fromNat (n % 3); let n := n / 3
  let d := n % 3; let n := n / 3
  let quiesced := n2b n; let n := n / 2
  let finalLive := n2b n; let n := n / 2
  let finalized := n2b n; let n := n / 2
  { lpc, cpc, stopping, shutdown, stopped, intr, doneInc := ⟨d, Nat.mod_lt _ (by decide)⟩, quiesced, finalLive, finalized,
    bad := n }

/-- breadth-first closure under all actions (used by the driver to *produce* the certificate; the
    certificate is then checked by the kernel, so this search is not trusted) -/
def expand (seen : List Nat) (frontier : List St) : List Nat × List St :=
  frontier.foldl (fun (acc : List Nat × List St) s =>
    acts.foldl (fun (acc : List Nat × List St) a =>
      match step s a with
      | none => acc
      | some t => if acc.1.contains (encode t) then acc else (encode t :: acc.1, t :: acc.2)) acc) (seen, [])

def bfs : Nat → List Nat → List St → List Nat
  | 0, seen, _ => seen
  | k+1, seen, frontier =>
    if frontier.isEmpty then seen else
      let (seen', fr') := expand seen frontier
      bfs k seen' fr'

def reachableCodes : List Nat := bfs 500 [encode init] [init]

def maskOf (codes : List Nat) : Nat := codes.foldl (fun m c => m ||| (1 <<< c)) 0

/-- the certificate check: every listed code decodes to a state all of whose successors are listed
    and round-trip through the encoding -/
def closedCodes (codes : List Nat) : Bool :=
  let mask := maskOf codes
  codes.all (fun c =>
    let s := decode c
    acts.all (fun a => match step s a with
      | none => true
      | some t => mask.testBit (encode t) && decide (decode (encode t) = t)))

/-! ## Part C — notification queue -/

/-- queue entries: `some n` a notification, `none` the stop marker -/
structure NState (N : Type) where
  queue     : List (Option N)
  delivered : List N          -- handler invocations, in order
  stopReq   : Bool            -- the loop was told to stop (marker consumed)

/-- one call of `NotificationManager.do` with a non-empty queue; `raises` is the handler's behaviour -/
def nDo {N} (raises : N → Bool) (s : NState N) : NState N :=
  match s.queue with
  | [] => s                                  -- would block on `queue.get()`
  | some n :: q => let _ := raises n; { s with queue := q, delivered := s.delivered ++ [n] }
  | none :: q => { s with queue := q, stopReq := true }

def nNotify {N} (n : N) (s : NState N) : NState N := { s with queue := s.queue ++ [some n] }
def nStop {N} (s : NState N) : NState N := { s with queue := s.queue ++ [none] }

/-- the service loop: `do` until told to stop or `fuel` iterations -/
def nRun {N} (raises : N → Bool) : Nat → NState N → NState N
  | 0, s => s
  | k+1, s => if s.stopReq then s else nRun raises k (nDo raises s)

end CS.Runnable
