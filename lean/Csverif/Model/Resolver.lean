/-
Model of the conflict-resolution ANSWER HANDLING of the sync engine, branch by branch from the Python
(cloudsync/sync/manager.py, cloudsync/sync/state.py; line numbers of the pinned tree):

  * `SyncEntry.hash_conflict`                     state.py:439-442      → `hashConflict`
  * `SyncState.split`                             state.py:1310-1349    → `splitSides` (which side defers)
  * `SyncManager.handle_split_conflict`           manager.py:1634-1655  → `splitDecision` (same-hash shortcut)
  * `SyncManager.__resolve_file_likes`            manager.py:841-868    → `fileLikes`
  * `SyncManager.__safe_call_resolver`            manager.py:870-908    → `safeCall`
  * `SyncManager.resolve_conflict`                manager.py:958-1027   → `resolveStep`
  * `SyncManager.__resolver_merge_upload`         manager.py:910-956    → the `both replaced` branch of `resolveStep`
  * what the later engine steps do with the bookkeeping left behind      → `settle`, `episode`, `run`

The model is at the level the property speaks about: the content at the conflict path on each side,
the '.conflicted' siblings and their contents, and how often the application's resolver is called.
Contents are an arbitrary type `α`.  No Mathlib (linked into the driver).
-/
namespace CS.Resolver

/-! ### sides, object types -/

/-- LOCAL = 0, REMOTE = 1 (cloudsync/types.py) -/
inductive Side where
  | loc
  | rem
  deriving DecidableEq, Repr

def Side.other : Side → Side
  | .loc => .rem
  | .rem => .loc

inductive OType where
  | file
  | dir
  deriving DecidableEq, Repr

/-! ### `SyncEntry.hash_conflict` (state.py:439-442)

```
if self[0].hash and self[1].hash and self[0].path and self[1].path:
    return self[0].hash != self[0].sync_hash and self[1].hash != self[1].sync_hash
return False
```
A field is `none` for Python `None`; `some 0` stands for a present but FALSY value (`b""`, `""`),
which the `and` chain treats like `None` — a quirk kept in the model. -/

structure SideAbs where
  hash : Option Nat
  syncHash : Option Nat
  path : Option Nat
  deriving DecidableEq, Repr

/-- Python truthiness of an optional bytes/str value -/
def truthy : Option Nat → Bool
  | none => false
  | some 0 => false
  | some _ => true

def hashConflict (l r : SideAbs) : Bool :=
  if truthy l.hash && truthy r.hash && truthy l.path && truthy r.path then
    (l.hash != l.syncHash) && (r.hash != r.syncHash)
  else false

/-! ### split + same-hash shortcut

`SyncState.split` (state.py:1310-1349) always makes REMOTE the deferring side and LOCAL the replaced
side.  `check_disjoint_create` (manager.py:1140-1180) calls `handle_split_conflict(found, synced, sync,
changed)`, so for create/create either orientation occurs.

`handle_split_conflict(defer_ent, defer_side, replace_ent, replace_side)` (manager.py:1634-1655):
```
if defer_ent[defer_side].otype == FILE:
    download defer side                                   -- its bytes: `cDefer`
    dhash = providers[replace_side].hash_data(f)          -- hashed with the REPLACED side's function
    if dhash == replace_ent[replace_side].hash: merge silently; return True
resolve_conflict((defer_ent[defer_side], replace_ent[replace_side]))
``` -/

/-- the orientation `SyncState.split` chooses -/
def splitSides : Side × Side := (.rem, .loc)

inductive SplitDecision where
  | mergeSilently      -- same hash: one entry discarded, the two sides merged, resolver NOT called
  | resolve            -- `resolve_conflict` is entered with (defer side state, replace side state)
  deriving DecidableEq, Repr

def splitDecision {α H : Type} [DecidableEq H] (hashOf : Side → α → H)
    (deferOtype : OType) (replaceSide : Side) (cDefer : α) (replaceHash : Option H) : SplitDecision :=
  match deferOtype with
  | .file => if some (hashOf replaceSide cDefer) = replaceHash then .mergeSilently else .resolve
  | .dir => .resolve

/-! ### handles (`ResolveFile`, manager.py:48-129; `__resolve_file_likes`, manager.py:841-868) -/

/-- one side state handed to `resolve_conflict`: its side label, object type and current content -/
structure SS (α : Type) where
  side : Side
  otype : OType
  content : α

/-- a `ResolveFile`: `.side`, `.otype` copied from the side state; `read()` yields the bytes the
    provider of THAT side holds for the object (lazy download) -/
structure Handle (α : Type) where
  side : Side
  otype : OType
  bytes : α

/-- `fhs[i] = ResolveFile(side_states[i], providers[side_states[i].side])` -/
def fileLikes {α : Type} (ss : SS α × SS α) : Handle α × Handle α :=
  (⟨ss.1.side, ss.1.otype, ss.1.content⟩, ⟨ss.2.side, ss.2.otype, ss.2.content⟩)

/-! ### what the application's resolver does, as far as `__safe_call_resolver` looks -/

/-- first element of a returned tuple -/
inductive First (α : Type) where
  | handle (second : Bool)   -- one of the two arguments: `false` = fhs[0], `true` = fhs[1]
  | data (d : α)             -- another file-like (has `read` and `close`) carrying `d`: "merged data"
  | notFile                  -- not file-like
  deriving DecidableEq, Repr

/-- the Python value returned -/
inductive PyVal (α : Type) where
  | none                                               -- `None`
  | falsy                                              -- falsy, not None, not a tuple: `0`, `False`, `""`, `[]`, `b""`, a bare handle of length 0 (`ResolveFile.__len__`)
  | truthyNonTuple                                     -- truthy and not a tuple (a bare handle, a str, a list, ...)
  | tuple (len : Nat) (first : First α) (keep : Bool)  -- a tuple (len 0 = the falsy `()`); `first`/`keep` = its first element / truth of its second (looked at only if len = 2)
  deriving DecidableEq, Repr

inductive Behaviour (α : Type) where
  | returns (v : PyVal α)
  | raises          -- any `Exception` other than CloudTemporaryError
  | raisesTemp      -- `CloudTemporaryError`
  deriving DecidableEq, Repr

/-- what comes out of `__safe_call_resolver` -/
inductive Chosen (α : Type) where
  | handle (second : Bool)
  | data (d : α)
  deriving DecidableEq, Repr

inductive SafeRes (α : Type) where
  | pair (fh : Chosen α) (keep : Bool)   -- the `(fh, keep)` that `resolve_conflict` unpacks
  | reraised                             -- CloudTemporaryError propagates (entry punted, sync manager backs off, retried later)
  deriving DecidableEq, Repr

/-- validation inside the `try` (manager.py:885-894): `none` = "ret is None afterwards".
```
if ret is not None:
    if not isinstance(ret, tuple): ret = None
    elif len(ret) != 2: ret = None
    elif not is_file_like(ret[0]): ret = None
```
(until commit <SHA_A> the first test was `if ret:`, so falsy non-None values slipped through unvalidated and were
returned as they were — finding `falsy-answer-never-resolved`, now a `fixed:` entry replayed on every run) -/
def validate {α : Type} (v : PyVal α) : Option (SafeRes α) :=
  match v with
  | .none => none
  | .falsy => none                        -- not a tuple
  | .truthyNonTuple => none               -- not a tuple
  | .tuple n first keep =>
    if n != 2 then none
    else match first with
      | .handle i => some (.pair (.handle i) keep)
      | .data d => some (.pair (.data d) keep)
      | .notFile => none

/-- the fallback (manager.py:900-906): "we defer to the remote... since this can prevent loops"
```
if fhs[0].side == REMOTE: ret = (fhs[0], True) else: ret = (fhs[1], True)
``` -/
def fallback {α : Type} (s0 : Side) : SafeRes α :=
  if s0 = .rem then .pair (.handle false) true else .pair (.handle true) true

/-- `__safe_call_resolver(fhs)`: result and whether the application's resolver was called -/
def safeCall {α : Type} (s0 : Side) (t0 t1 : OType) (b : Behaviour α) : SafeRes α × Bool :=
  -- manager.py:871-878   folder vs file: always favours the folder, resolver not consulted
  if (t0 = .dir ∨ t1 = .dir) ∧ t0 ≠ t1 then
    (if t0 = .dir then .pair (.handle false) true else .pair (.handle true) true, false)
  else
    match b with
    | .raisesTemp => (.reraised, true)
    | .raises => (fallback s0, true)
    | .returns v =>
      match validate v with
      | some r => (r, true)
      | none => (fallback s0, true)

/-! ### `resolve_conflict` (manager.py:958-1027): effect on the two sides

A side is described by what sits at the conflict path and by its '.conflicted' siblings. -/

structure SideSt (α : Type) where
  main : Option α          -- content at the conflict path (`none`: nothing there)
  conf : List α            -- contents of the '.conflicted' siblings, oldest first
  deriving DecidableEq, Repr

structure Pair (α : Type) where
  loc : SideSt α
  rem : SideSt α
  deriving DecidableEq, Repr

def Pair.get {α : Type} (p : Pair α) : Side → SideSt α
  | .loc => p.loc
  | .rem => p.rem

def Pair.set {α : Type} (p : Pair α) (s : Side) (v : SideSt α) : Pair α :=
  match s with
  | .loc => { p with loc := v }
  | .rem => { p with rem := v }

/-- what `resolve_conflict` leaves behind for the following engine steps -/
inductive Pending (α : Type) where
  | nothing                   -- entries merged and marked synced
  | propagate (src : Side)    -- winner's sync info cleared: it is re-created on the other side (manager.py:1003-1009)
  | reconflict (c0 c1 : α)    -- both originals renamed to the same '.conflicted' name, untracked: a new conflict one level down
  deriving DecidableEq, Repr

/-- bytes behind the chosen file-like -/
def Chosen.bytes {α : Type} (c0 c1 : α) : Chosen α → α
  | .handle false => c0
  | .handle true => c1
  | .data d => d

/-- the loop `for i, rfh in enumerate(fhs): if fh is not rfh: ...` for one index (manager.py:972-999):
    not keep → `upload(loser.oid, fh)`; keep → `_resolve_rename(loser)` -/
def replaceLoser {α : Type} (p : Pair α) (loser : Side) (newBytes : α) (keep : Bool) : Pair α :=
  let s := p.get loser
  if keep then
    match s.main with
    | some old => p.set loser { main := none, conf := s.conf ++ [old] }
    | none => p                                   -- CloudFileNotFoundError swallowed (manager.py:991-992)
  else p.set loser { s with main := some newBytes }

/-- `resolve_conflict` after `fh, keep = ...`.  `s0` is the side of `side_states[0]` (the other state is the other side);
    `p` holds `c0`/`c1` at the path of side `s0`/`s0.other`. -/
def resolveStep {α : Type} (p : Pair α) (s0 : Side) (c0 c1 : α) (fh : Chosen α) (keep : Bool) : Pair α × Pending α :=
  let nb := fh.bytes c0 c1
  match fh with
  | .handle false =>
    -- fhs[1] is replaced; defer = side_states[0].side
    let p' := replaceLoser p s0.other nb keep
    (p', if keep then .propagate s0 else .nothing)
  | .handle true =>
    let p' := replaceLoser p s0 nb keep
    (p', if keep then .propagate s0.other else .nothing)
  | .data d =>
    -- both replaced, defer = None → `__resolver_merge_upload` (manager.py:910-956)
    let p1 := replaceLoser p s0 nb keep
    let p2 := replaceLoser p1 s0.other nb keep
    if keep then
      -- `create(ent1.path, fh)` on both sides; the two renamed originals stay behind untracked
      let q1 := p2.set s0 { (p2.get s0) with main := some d }
      let q2 := q1.set s0.other { (q1.get s0.other) with main := some d }
      (q2, .reconflict c0 c1)
    else (p2, .nothing)

/-- later engine steps: a `propagate` is an ordinary one-sided creation (C03) -/
def settle {α : Type} (p : Pair α) : Pending α → Pair α
  | .propagate src => p.set src.other { (p.get src.other) with main := (p.get src).main }
  | _ => p

/-! ### episodes: the engine keeps offering an unresolved conflict to the resolver

State of one conflict path while the engine runs: the two sides, the open conflict (if any) with the
contents in conflict, and the number of resolver calls so far.  An open `reconflict` lives one
'.conflicted' level deeper; `depth` counts the levels already closed. -/

structure St (α : Type) where
  pair : Pair α
  «open» : Option (α × α)        -- (local content, remote content) still in conflict
  calls : Nat
  depth : Nat
  deriving DecidableEq, Repr

def initSt {α : Type} (cl cr : α) : St α :=
  { pair := { loc := ⟨some cl, []⟩, rem := ⟨some cr, []⟩ }, «open» := some (cl, cr), calls := 0, depth := 0 }

/-- the two side states handed to `resolve_conflict`.  `remFirst`: whether `side_states[0]` is the REMOTE one
    (always so after `split`; either way after `check_disjoint_create`). -/
def sideStates {α : Type} (remFirst : Bool) (cl cr : α) : SS α × SS α :=
  if remFirst then (⟨.rem, .file, cr⟩, ⟨.loc, .file, cl⟩) else (⟨.loc, .file, cl⟩, ⟨.rem, .file, cr⟩)

/-- one visit of the open conflict by the sync loop -/
def episode {α : Type} [DecidableEq α] (remFirst : Bool) (b : Behaviour α) (st : St α) : St α :=
  match st.«open» with
  | none => st
  | some (cl, cr) =>
    if cl = cr then
      -- same-hash shortcut (`splitDecision`, hash functions injective): merged without a call
      { st with «open» := none }
    else
      let fhs := fileLikes (sideStates remFirst cl cr)
      match (safeCall fhs.1.side fhs.1.otype fhs.2.otype b).1 with
      | .reraised => { st with calls := st.calls + 1 }
      | .pair fh keep =>
        let res := resolveStep st.pair fhs.1.side fhs.1.bytes fhs.2.bytes fh keep
        match res.2 with
        | .reconflict _ _ =>
          -- the untracked '.conflicted' originals are picked up as creations on both sides: same contents, next level
          { pair := res.1, «open» := some (cl, cr), calls := st.calls + 1, depth := st.depth + 1 }
        | pend => { pair := settle res.1 pend, «open» := none, calls := st.calls + 1, depth := st.depth }

/-- successive visits; the resolver's behaviour at each visit is given by the list -/
def run {α : Type} [DecidableEq α] (remFirst : Bool) (bs : List (Behaviour α)) (st : St α) : St α :=
  bs.foldl (fun s b => episode remFirst b s) st

/-! ### answers indexed by SIDE (what an application means), translated to positions -/

inductive Answer (α : Type) where
  | pick (side : Side) (keep : Bool)      -- `(f_side, keep)`
  | merged (d : α) (keep : Bool)          -- `(new file-like with d, keep)`
  | none
  | raises
  | falsy                                 -- falsy non-None non-tuple
  | nonTuple                              -- truthy non-tuple
  | wrongLen (n : Nat)                    -- tuple of length n (n ≠ 2; n = 0 is the falsy `()`)
  | notFile (keep : Bool)                 -- 2-tuple, first element not file-like
  deriving DecidableEq, Repr

def Answer.toBehaviour {α : Type} (remFirst : Bool) : Answer α → Behaviour α
  | .pick side keep => .returns (.tuple 2 (.handle (if remFirst then side == .loc else side == .rem)) keep)
  | .merged d keep => .returns (.tuple 2 (.data d) keep)
  | .none => .returns .none
  | .raises => .raises
  | .falsy => .returns .falsy
  | .nonTuple => .returns .truthyNonTuple
  | .wrongLen n => .returns (.tuple n .notFile false)
  | .notFile keep => .returns (.tuple 2 .notFile keep)

/-- the outcome the contract is about: `temp` visits at which the resolver raises CloudTemporaryError, then one visit
    with answer `a` -/
def outcome {α : Type} [DecidableEq α] (remFirst : Bool) (cl cr : α) (temp : Nat) (a : Answer α) : St α :=
  run remFirst (List.replicate temp .raisesTemp ++ [a.toBehaviour remFirst]) (initSt cl cr)

/-! ### the contract as the monitor decides it (`monc05`)

What the harness observed on one run of the real engine. -/

structure Call where
  s0 : Side
  s1 : Side
  b0 : Option Nat        -- bytes read from the first handle (tag), `none` if the resolver did not read it
  b1 : Option Nat
  pathsOk : Bool         -- each handle's `.path` is the path of the file on the side it is labelled with
  actL : Nat             -- what the local side actually held at the path when the call was made
  actR : Nat
  deriving DecidableEq, Repr

structure Obs where
  base : Option Nat      -- synchronised content before the conflict (edit/edit), `none` for create/create
  cl : Nat               -- content on the local side when the conflict is resolved
  cr : Nat
  temp : Nat
  ans : Answer Nat
  faults : Nat           -- transient provider faults the harness injected (0 in the property's own quantifier); each may abort one
                         -- visit after the resolver was asked, so it allows one more call
  calls : List Call
  quiet : Bool
  l : SideSt Nat         -- final: content at the path and '.conflicted' siblings, local side
  r : SideSt Nat
  deriving Repr

inductive Verdict where
  | ok
  | reject (why : String)
  deriving DecidableEq, Repr

/-- a side has unsynchronised content iff its content differs from the synchronised base -/
def unsynced (base : Option Nat) (c : Nat) : Bool := base != some c

def callOk (c : Call) : Bool :=
  c.s0 != c.s1 &&
  (match c.b0 with | none => true | some t => t == (if c.s0 = .loc then c.actL else c.actR)) &&
  (match c.b1 with | none => true | some t => t == (if c.s1 = .loc then c.actL else c.actR)) &&
  c.pathsOk

/-- the call that got an answer (the last one) saw the contents the contract is evaluated on -/
def lastCallOk (cl cr : Nat) (cs : List Call) : Bool :=
  match cs.getLast? with
  | none => true
  | some c => c.actL == cl && c.actR == cr

/-- exactly the expected number of calls; with injected faults up to one more per fault (never a call where none is due) -/
def callCountOk (expected faults observed : Nat) : Bool :=
  expected ≤ observed && observed ≤ expected + (if expected = 0 then 0 else faults)

def sameSet (a b : List Nat) : Bool := a.all (b.contains ·) && b.all (a.contains ·)

/-- expected state at quiescence -/
def expected (o : Obs) : St Nat :=
  match unsynced o.base o.cl, unsynced o.base o.cr with
  | true, true => outcome (match o.calls with | c :: _ => c.s0 == .rem | [] => true) o.cl o.cr o.temp o.ans
  | true, false => { pair := ⟨⟨some o.cl, []⟩, ⟨some o.cl, []⟩⟩, «open» := none, calls := 0, depth := 0 }
  | false, true => { pair := ⟨⟨some o.cr, []⟩, ⟨some o.cr, []⟩⟩, «open» := none, calls := 0, depth := 0 }
  | false, false => { pair := ⟨⟨some o.cl, []⟩, ⟨some o.cr, []⟩⟩, «open» := none, calls := 0, depth := 0 }

def contract (o : Obs) : Verdict :=
  let e := expected o
  if e.«open».isSome then .reject "model: this answer never settles (known finding shape must not be generated)"
  else if !o.quiet then .reject "not-quiet"
  else if !(callCountOk e.calls o.faults o.calls.length) then .reject s!"resolver-calls {o.calls.length} expected {e.calls}"
  else if !(o.calls.all callOk) then .reject "handles-are-not-the-two-sides"
  else if !(o.faults != 0 || lastCallOk o.cl o.cr o.calls) then .reject "answered-call-saw-other-contents"
  else if o.l.main != e.pair.loc.main then .reject "local-content"
  else if o.r.main != e.pair.rem.main then .reject "remote-content"
  else if o.l.conf.length > 1 || o.r.conf.length > 1 then .reject "more-than-one-conflicted-sibling"
  else if !(sameSet (o.l.conf ++ o.r.conf) (e.pair.loc.conf ++ e.pair.rem.conf)) then .reject "conflicted-sibling"
  else .ok

end CS.Resolver
