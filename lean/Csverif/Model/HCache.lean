import Csverif.Model.Path
/-
Model of `cloudsync/hierarchical_cache.py` (Node 17-99, HierarchicalCache 102-475), as of the commit that
evicts the previous owners of path and id before resolving the parent (`__insert_node`, `_set_oid`).

Hand-written, branch by branch.  The cache is modelled exactly as the code has it: a *heap* of node
records (index = object identity; allocation appends, nothing is ever freed) with `name`, `type`,
`oid?`, `parent?` (the weak reference), an ordered `children` dict (association list, Python dict
order), `is_root`; plus the separate `_oid_to_node` dict.  Node 0 is the root.

Conventions
* Python `None` = `Option.none`.  An oid is a `Nat`; `0` stands for the one *falsy* value of the oid
  type (the empty string): `if node.oid:` is `truthy`, `oid is not None` is `isSome`.
* Every method is a state transformer `M α = HC → HC × Except Err α`: an exception leaves the
  mutations made before it in place, exactly as in Python.
* Recursion that Python bounds by its stack is bounded by fuel computed from the heap / path size;
  running out of fuel is the error `fuel` (resp. `recursion` where Python itself would recurse
  forever, i.e. on a parent cycle; the driver prints both as RecursionError: the only way to exhaust
  `delete`'s budget is a non-root node carrying the root's id, on which Python recurses for ever too).  Props/C19.lean proves neither can happen for a guarded
  operation on a coherent cache (`no_budget_exhaustion`, `delete_terminates`, `coherent_acyclic`).
* Metadata never changes control flow for `metadata=None`/`{}` (the only values the harness passes),
  so it is left out.  `log.debug(...)` arguments are evaluated eagerly by Python; where they call
  `full_path()` (which asserts) the model evaluates it too.
* The weak parent reference is modelled as a strong index.  The two differ only when a node is
  still referenced from `_oid_to_node` while its parent object has been collected; that needs an
  incoherent cache (Props/C19.lean: in a coherent cache every node reachable from the root or the
  id map has a reachable parent), and the correspondence harness stops comparing a sequence after the
  first operation that leaves the model incoherent.
* `__insert_node`'s re-index loop iterates the lazy generator `_walk(node)` while calling `delete`;
  the model walks first and then processes.  The two differ only if a delete triggered inside the
  loop hits the subtree being walked, which needs two nodes with the same id inside it or a non-root
  node carrying the root's id (incoherent pre-state).
No Mathlib import: linked into the driver executable.
-/
namespace CS.HCache
open CS.Path

inductive OType where
  | file | dir
  deriving Repr, DecidableEq

abbrev Oid := Nat

/-- `if oid:` — `None` and the empty id are falsy -/
def truthy : Option Oid → Bool
  | some (_ + 1) => true
  | _ => false

inductive Err where
  | lookup      -- LookupError raised by `_delete` (351-352)
  | key         -- KeyError of `_oid_to_node.pop(oid)` without default (350)
  | value       -- ValueError (`_rename` of the root 377, `_get_node` without arguments 408)
  | assertion   -- AssertionError (`Node.check` 53-54, `add_child` 95, `__insert_node` 215, `set_oid` 418)
  | attr        -- AttributeError: `remove_node.parent.children` with `parent` None (338)
  | type        -- TypeError: `normalize_path(None)` in `_set_oid` (439) when `full_path()` was None
  | recursion   -- RecursionError: `_full_path_nodes` on a parent cycle
  | fuel        -- model artefact: recursion budget exhausted (proved unreachable when coherent)
  deriving Repr, DecidableEq

structure Node where
  name     : Str
  type     : OType
  oid      : Option Oid
  parent   : Option Nat
  children : List (Str × Nat)
  isRoot   : Bool
  deriving Repr, DecidableEq

def Node.dummy : Node := { name := [], type := .file, oid := none, parent := none, children := [], isRoot := false }

structure HC where
  heap  : List Node
  idmap : List (Oid × Nat)
  deriving Repr

/-! ### Python dict as an association list (insertion ordered) -/

def dget {κ ν} [DecidableEq κ] : List (κ × ν) → κ → Option ν
  | [], _ => none
  | (k', v) :: r, k => if k' = k then some v else dget r k

/-- `d[k] = v`: an existing key keeps its position -/
def dset {κ ν} [DecidableEq κ] : List (κ × ν) → κ → ν → List (κ × ν)
  | [], k, v => [(k, v)]
  | (k', v') :: r, k, v => if k' = k then (k', v) :: r else (k', v') :: dset r k v

def derase {κ ν} [DecidableEq κ] : List (κ × ν) → κ → List (κ × ν)
  | [], _ => []
  | (k', v') :: r, k => if k' = k then r else (k', v') :: derase r k

/-! ### state access -/

def HC.nd (s : HC) (i : Nat) : Node := s.heap.getD i Node.dummy

def HC.setNd (s : HC) (i : Nat) (n : Node) : HC := { s with heap := s.heap.set i n }

def HC.rootOid (s : HC) : Option Oid := (s.nd 0).oid

/-- `HierarchicalCache.__init__` (109-116) -/
def init (rootOid : Oid) : HC :=
  { heap := [{ name := [], type := .dir, oid := some rootOid, parent := none, children := [], isRoot := true }],
    idmap := [(rootOid, 0)] }

/-! ### the exception-and-state monad -/

@[reducible] def M (α : Type) := HC → HC × Except Err α

instance : Monad M where
  pure a := fun s => (s, .ok a)
  bind m f := fun s => match m s with
    | (s', .ok a) => f a s'
    | (s', .error e) => (s', .error e)

def getS : M HC := fun s => (s, .ok s)
def modS (f : HC → HC) : M Unit := fun s => (f s, .ok ())
def raise {α} (e : Err) : M α := fun s => (s, .error e)
def liftE {α} : Except Err α → M α
  | .ok a => pure a
  | .error e => raise e

/-! ### Node methods -/

/-- `Node.check` (46-54): true = both assertions pass -/
def checkOk (s : HC) (i : Nat) : Bool :=
  match (s.nd i).parent with
  | none => true
  | some p => ((s.nd i).oid.isNone || (s.nd i).oid != (s.nd p).oid) && p != i

def check (i : Nat) : M Unit := fun s => if checkOk s i then (s, .ok ()) else (s, .error .assertion)

/-- `Node._full_path_nodes` (73-90): the chain root-first; `check` on every node on the way up -/
def fullPathNodes (s : HC) : Nat → Nat → List Nat → Except Err (List Nat)
  | 0, _, _ => .error .recursion
  | f + 1, i, seen =>
    if !checkOk s i then .error .assertion else
      match (s.nd i).parent with
      | some p => fullPathNodes s f p (i :: seen)
      | none => .ok (i :: seen)

/-- `Node.full_path` (66-71) -/
def fullPath (c : Cfg) (s : HC) (i : Nat) : Except Err (Option Str) :=
  match fullPathNodes s (s.heap.length + 1) i [] with
  | .error e => .error e
  | .ok [] => .ok none
  | .ok (r :: rest) =>
    if !(s.nd r).isRoot then .ok none
    else .ok (some (join c ((r :: rest).map (fun j => (s.nd j).name))))

def fullPathM (c : Cfg) (i : Nat) : M (Option Str) := fun s => (s, fullPath c s i)

/-- `HierarchicalCache._check` (118-124): `check`, `full_path`, `check` (type assertion on the oid
    is outside the model: all ids have the root id's type) -/
def checkFull (c : Cfg) (i : Nat) : M Unit := do
  check i
  let _ ← fullPathM c i
  check i

/-! ### path lookups -/

/-- `_path_is_root` (385-387) -/
def pathIsRoot (c : Cfg) (p : Str) : Bool := (split c p).1 == p

/-- `_split` (358-363) -/
def splitLoop (c : Cfg) : Nat → Str → Str × Str
  | 0, p => split c p
  | f + 1, p =>
    let (par, name) := split c p
    if par != p && name.isEmpty then splitLoop c f par else (par, name)

def hsplit (c : Cfg) (p : Str) : Str × Str := splitLoop c (p.length + 2) p

/-- `_unsafe_path_to_node` (389-395) -/
def unsafePathToNode (c : Cfg) (s : HC) : Nat → Str → Except Err (Option Nat)
  | 0, _ => .error .fuel
  | f + 1, p =>
    if pathIsRoot c p then .ok (some 0) else
      let (pp, name) := hsplit c p
      match unsafePathToNode c s f pp with
      | .error e => .error e
      | .ok none => .ok none
      | .ok (some pn) => .ok (dget (s.nd pn).children name)

/-- `_get_node` (397-408) -/
def getNode (c : Cfg) (s : HC) (oid : Option Oid) (path : Option Str) : Except Err (Option Nat) :=
  match oid with
  | some o => if some o = s.rootOid then .ok (some 0) else .ok (dget s.idmap o)
  | none =>
    match path with
    | some p =>
      let np := normalizePath c p false
      if pathIsRoot c np then .ok (some 0) else unsafePathToNode c s (np.length + 2) np
    | none => .error .value

def getNodeM (c : Cfg) (oid : Option Oid) (path : Option Str) : M (Option Nat) := fun s => (s, getNode c s oid path)

/-! ### walking -/

/-- `provider.join(path, child_name)` where `path` may be `None` (skipped by join) -/
def joinOpt (c : Cfg) (path : Option Str) (name : Str) : Str :=
  match path with
  | some p => join c [p, name]
  | none => join c [name]

/-- the recursive part of `_walk` (244-252), pre-order, dict order -/
def walkAux (c : Cfg) (s : HC) : Nat → Nat → Option Str → List (Nat × Option Str)
  | 0, _, _ => []
  | f + 1, n, path =>
    (n, path) ::
      (if (s.nd n).type = .file then [] else
        (s.nd n).children.flatMap (fun kc =>
          let cp := some (joinOpt c path kc.1)
          if (s.nd kc.2).type = .dir then walkAux c s f kc.2 cp else [(kc.2, cp)]))

/-- `_walk(node)` (240-252) with `path=None`: `full_path()` first (it asserts) -/
def walk (c : Cfg) (s : HC) (n : Nat) : Except Err (List (Nat × Option Str)) :=
  match fullPath c s n with
  | .error e => .error e
  | .ok p => .ok (walkAux c s (s.heap.length + 1) n p)

def walkM (c : Cfg) (n : Nat) : M (List (Nat × Option Str)) := fun s => (s, walk c s n)

/-! ### `_delete` and `delete` -/

def popIds : List Nat → M Unit
  | [] => pure ()
  | n :: rest => do
    modS (fun s => if truthy (s.nd n).oid then
      match (s.nd n).oid with
      | some o => { s with idmap := derase s.idmap o }
      | none => s
      else s)
    popIds rest

/-- `_delete` (333-356) -/
def deleteNode (c : Cfg) (rn : Option Nat) : M (Option Nat) := do
  match rn with
  | none => pure none
  | some n =>
    let s ← getS
    if (s.nd n).isRoot then pure none else
      match (s.nd n).parent with
      | none => raise .attr
      | some p =>
        let popped := dget (s.nd p).children (s.nd n).name
        modS (fun s => s.setNd p { s.nd p with children := derase (s.nd p).children (s.nd n).name })
        let w ← walkM c n
        popIds (w.map (·.1))
        match popped with
        | some r =>
          if r ≠ n then do
            let s ← getS
            match (s.nd r).oid with
            | some o =>
              if (dget s.idmap o).isNone then raise .key
              else modS (fun s => { s with idmap := derase s.idmap o })
            | none => pure ()
            raise .lookup
          else pure ()
        | none => pure ()
        modS (fun s => s.setNd n { s.nd n with parent := none })
        pure (some n)

/-- the loop over the children snapshot in `delete` (326-329); `rec` is the recursive `self.delete` -/
def delLoop (c : Cfg) (rec : Option Oid → Option Str → M Unit) : List Nat → M Unit
  | [] => pure ()
  | ch :: rest => do
    let s ← getS
    let cp ← fullPathM c ch            -- also evaluated by the log.debug call
    rec (s.nd ch).oid cp
    delLoop c rec rest

/-- `delete` (314-331); `fuel` bounds the recursion depth -/
def deleteRec (c : Cfg) : Nat → Option Oid → Option Str → M Unit
  | 0, _, _ => raise .fuel
  | f + 1, oid, path => do
    let node ← getNodeM c oid path
    match node with
    | none => pure ()
    | some n =>
      let s ← getS
      (if (s.nd n).type = .dir then delLoop c (deleteRec c f) ((s.nd n).children.map (·.2)) else pure ())
      let _ ← fullPathM c n                     -- log.debug("about to delete parent …", node.full_path())
      let _ ← deleteNode c (some n)
      pure ()

def delete (c : Cfg) (oid : Option Oid) (path : Option Str) : M Unit := do
  let s ← getS
  deleteRec c (s.heap.length + 1) oid path

/-! ### insertion -/

def alloc (n : Node) : M Nat := fun s => ({ s with heap := s.heap ++ [n] }, .ok s.heap.length)

/-- `Node.add_child` (92-96) -/
def addChild (par ch : Nat) : M Unit := do
  check par
  check ch
  let s ← getS
  if (s.nd par).type ≠ .dir then raise .assertion else
    modS (fun s => s.setNd par { s.nd par with children := dset (s.nd par).children (s.nd ch).name ch })

/-- the re-index loop of `__insert_node` (224-229) -/
def reindex (c : Cfg) : List Nat → M Unit
  | [] => pure ()
  | cur :: rest => do
    let s ← getS
    (if truthy (s.nd cur).oid then
      match (s.nd cur).oid with
      | some o => do
        if dget s.idmap o ≠ some cur then delete c (some o) none
        modS (fun s => { s with idmap := dset s.idmap o cur })
      | none => pure ()
    else pure ())
    reindex c rest

/-- `__make_node` (231-238) given the insertion procedure -/
def makeNodeWith (c : Cfg) (ins : Nat → Str → M Unit) (otype : OType) (path : Str) (oid : Option Oid) : M Nat := do
  let norm := normalizePath c path false
  let name := (split c path).2
  -- `_new_node`: a parentless node passes `check`, and `full_path()` of it is None: no effect
  let i ← alloc { name := name, type := otype, oid := oid, parent := none, children := [], isRoot := false }
  ins i norm
  checkFull c i
  pure i

/-- `__insert_node` (207-231): the previous owners of the path and of the id are evicted first, then the
    parent is looked up / auto-created through `_mkdir(parent_path, None)` -/
def insertNode (c : Cfg) : Nat → Nat → Str → M Unit
  | 0, _, _ => raise .fuel
  | f + 1, i, path => do
    delete c none (some path)
    let s ← getS
    (if truthy (s.nd i).oid then delete c (s.nd i).oid none else pure ())
    let (pp, name) := hsplit c path
    let pn ← getNodeM c none (some pp)
    let s ← getS
    let par ← (match pn with
      | some p => if (s.nd p).type = .file then makeNodeWith c (insertNode c f) .dir pp none else pure p
      | none => makeNodeWith c (insertNode c f) .dir pp none)
    modS (fun s => s.setNd i { s.nd i with name := name })
    if par = i then raise .assertion else
      modS (fun s => s.setNd i { s.nd i with parent := some par })
      addChild par i
      let w ← walkM c i
      reindex c (w.map (·.1))

def insFuel (p : Str) : Nat := p.length + 2

def insert (c : Cfg) (i : Nat) (path : Str) : M Unit := insertNode c (insFuel path) i path

def makeNode (c : Cfg) (otype : OType) (path : Str) (oid : Option Oid) : M Nat :=
  makeNodeWith c (fun i p => insert c i p) otype path oid

/-! ### public mutators -/

/-- `mkdir` (285-297) -/
def mkdir (c : Cfg) (path : Str) (oid : Option Oid) : M Unit := do
  let _ ← makeNode c .dir path oid

/-- `create` (299-310) -/
def create (c : Cfg) (path : Str) (oid : Option Oid) : M Unit := do
  let _ ← makeNode c .file path oid

/-- `_rename` (374-383) -/
def rename (c : Cfg) (old new : Str) : M Unit := do
  let node ← getNodeM c none (some old)
  let s ← getS
  match node with
  | some n =>
    if (s.nd n).isRoot then raise .value else
      let _ ← deleteNode c (some n)
      delete c none (some new)
      insert c n (normalizePath c new false)
      checkFull c n
  | none =>
    delete c none (some new)

/-- `_set_oid` (427-439); `oid` is not None.  The path is read before the previous owner of `oid` is
    evicted; if the node went away with that owner (an ancestor), or has an id already, it is re-made -/
def setOidNode (c : Cfg) (n : Nat) (oid : Oid) : M Unit := do
  let s ← getS
  if (s.nd n).oid = some oid then pure () else
    let fp0 ← fullPathM c n
    delete c (some oid) none
    let s ← getS
    let inPlace ← (match (s.nd n).oid with
      | none => do
        let fp1 ← fullPathM c n               -- `node.oid is None and node.full_path() is not None`
        pure fp1.isSome
      | some _ => pure false)
    if inPlace then
      check n                                     -- the oid setter (60-64)
      modS (fun s => s.setNd n { s.nd n with oid := some oid })
      modS (fun s => { s with idmap := dset s.idmap oid n })
    else
      match fp0 with
      | none => raise .type
      | some p => do let _ ← makeNode c (s.nd n).type p (some oid)

/-- `set_oid` (410-423) -/
def setOid (c : Cfg) (path : Str) (oid : Option Oid) (otype : OType) : M Unit := do
  if !truthy oid || path.isEmpty then raise .assertion else
    match oid with
    | none => raise .assertion
    | some o =>
      let node ← getNodeM c none (some path)
      match node with
      | some n => setOidNode c n o
      | none => do let _ ← makeNode c otype path (some o)

/-- `update` / `_update` (171-205), `metadata=None` -/
def update (c : Cfg) (path : Str) (otype : OType) (oid : Option Oid) : M Unit := do
  let node ← getNodeM c none (some path)
  let s ← getS
  let node ← (match node with
    | some n => if (s.nd n).type ≠ otype then do let _ ← deleteNode c (some n); pure none else pure (some n)
    | none => pure none)
  match node with
  | none =>
    let i ← makeNode c otype path oid
    checkFull c i
  | some n =>
    (if truthy oid then
      match oid with
      | some o => setOidNode c n o
      | none => pure ()
    else pure ())
    checkFull c n

/-! ### getters -/

/-- `get_oid` (438-447) -/
def getOid (c : Cfg) (s : HC) (path : Str) : Except Err (Option Oid) :=
  match getNode c s none (some path) with
  | .error e => .error e
  | .ok none => .ok none
  | .ok (some n) => .ok (s.nd n).oid

/-- `get_path` (449-458): straight through `_oid_to_node`, no special case for the root id -/
def getPath (c : Cfg) (s : HC) (oid : Oid) : Except Err (Option Str) :=
  match dget s.idmap oid with
  | none => .ok none
  | some n => fullPath c s n

/-- `get_type` (460-470) -/
def getType (c : Cfg) (s : HC) (oid : Option Oid) (path : Option Str) : Except Err (Option OType) :=
  match getNode c s oid path with
  | .error e => .error e
  | .ok none => .ok none
  | .ok (some n) => .ok (some (s.nd n).type)

/-- `listdir` (271-283): the *names* of the child nodes, dict order -/
def listdir (c : Cfg) (s : HC) (oid : Option Oid) (path : Option Str) : Except Err (List Str) :=
  match getNode c s oid path with
  | .error e => .error e
  | .ok none => .ok []
  | .ok (some n) => .ok ((s.nd n).children.map (fun kc => (s.nd kc.2).name))

/-- `walk` (254-269) -/
def walkPaths (c : Cfg) (s : HC) (oid : Option Oid) (path : Option Str) : Except Err (List (Option Str)) :=
  let truthyPath := match path with | some p => !p.isEmpty | none => false
  let rp : Except Err (Option Str) := if !(truthy oid || truthyPath) then fullPath c s 0 else .ok path
  match rp with
  | .error e => .error e
  | .ok path =>
    match getNode c s oid path with
    | .error e => .error e
    | .ok none => .ok []
    | .ok (some n) =>
      match walk c s n with
      | .error e => .error e
      | .ok w => .ok (w.map (·.2))

/-! ### operations as data (for sequences) -/

inductive Op where
  | mkdir  (path : Str) (oid : Option Oid)
  | create (path : Str) (oid : Option Oid)
  | delete (oid : Option Oid) (path : Option Str)
  | rename (old new : Str)
  | setOid (path : Str) (oid : Option Oid) (otype : OType)
  | update (path : Str) (otype : OType) (oid : Option Oid)
  deriving Repr

def step (c : Cfg) (s : HC) : Op → HC × Except Err Unit
  | .mkdir p o => mkdir c p o s
  | .create p o => create c p o s
  | .delete o p => delete c o p s
  | .rename a b => rename c a b s
  | .setOid p o t => setOid c p o t s
  | .update p t o => update c p t o s

def run (c : Cfg) (s : HC) : List Op → HC
  | [] => s
  | op :: ops => run c (step c s op).1 ops

/-! ### the guard of the coherence theorem, as an executable test on the pre-state -/

/-- the components of `normalize_path(p)`, obtained the way `_unsafe_path_to_node` peels them -/
def compsAux (c : Cfg) : Nat → Str → List Str → List Str
  | 0, _, acc => acc
  | f + 1, q, acc =>
    if pathIsRoot c q then acc else
      let (pp, nm) := hsplit c q
      compsAux c f pp (nm :: acc)

def pcomps (c : Cfg) (p : Str) : List Str :=
  let np := normalizePath c p false
  compsAux c (np.length + 2) np []

/-- target path is not the root, and the id being assigned is not the root's id -/
def insertSafe (c : Cfg) (s : HC) (p : Str) (oid : Option Oid) : Bool :=
  !(pcomps c p).isEmpty && (match oid with
    | some (o + 1) => decide ((s.nd 0).oid ≠ some (o + 1))
    | _ => true)

def opSafe (c : Cfg) (s : HC) : Op → Bool
  | .mkdir p o => insertSafe c s p o
  | .create p o => insertSafe c s p o
  | .delete _ _ => true
  | .rename _ new => !(pcomps c new).isEmpty
  | .setOid p o _ => insertSafe c s p o
  | .update p _ o => insertSafe c s p o

end CS.HCache
