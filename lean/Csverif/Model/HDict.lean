import Csverif.Model.HCache
/-
The plain dictionary specification of the hierarchical cache: `key path ↦ (type, id?)` with
"invalidate the subtree" semantics.  This is the reference the last clause of property C19 speaks of
("lookups agree with a plain dictionary model of what was inserted and not since invalidated").

A dictionary is an association list (first match wins); keys are lists of normalised path components
(`pcomps` of Model/HCache.lean), the root is the empty key and is always present.  Every public
operation of `HierarchicalCache` has a one-step specification here (`specStep`); Props/C19.lean proves
that the cache refines it (`hcache_refines_dict`).  No Mathlib: linked into the driver (`dict` layer).
-/
namespace CS.HDict
open CS.Path CS.HCache

abbrev Key := List Str
abbrev Ent := OType × Option Oid
abbrev D := List (Key × Ent)

def dlook (d : D) (k : Key) : Option Ent := dget d k

/-- invalidate the subtree at `k` (the root entry itself is never removed) -/
def rmD (k : Key) (d : D) : D := d.filter (fun e => !(decide (k <+: e.1) && decide (e.1 ≠ [])))

def putD (k : Key) (x : Ent) (d : D) : D := (k, x) :: d

/-- the key holding the id `o`, if any -/
def holderD (d : D) (o : Oid) : Option Key :=
  (d.find? (fun e => decide (e.2.2 = some o) && decide (dlook d e.1 = some e.2))).map (·.1)

def isDirD : Option Ent → Bool
  | some (.dir, _) => true
  | _ => false

/-- every prefix of the (reversed) key becomes a folder: a missing or file entry is replaced by an id-less
    folder, parents first -/
def ensureR : List Str → D → D
  | [], d => d
  | b :: rinit, d =>
    if isDirD (dlook d (b :: rinit).reverse) then d
    else putD (b :: rinit).reverse (.dir, none) (ensureR rinit (rmD (b :: rinit).reverse d))

def ensureD (ks : Key) (d : D) : D := ensureR ks.reverse d

/-- forget the previous owner of the key `ks` and the previous owner of the (truthy) id -/
def evictD (ks : Key) (oid : Option Oid) (d : D) : D :=
  let d1 := rmD ks d
  match oid with
  | some (o + 1) =>
    match holderD d1 (o + 1) with
    | some kx => rmD kx d1
    | none => d1
  | _ => d1

/-- insert a fresh entry at `ks`: evict, make sure the parents are folders, put -/
def insertD (ks : Key) (x : Ent) (d : D) : D :=
  putD ks x (rmD ks (ensureD ks.dropLast (evictD ks x.2 d)))

/-- the entries below `k`, keyed relative to `k` (the entry at `k` itself has the empty key) -/
def subD (k : Key) (d : D) : D :=
  d.filterMap (fun e => if k <+: e.1 ∧ dlook d e.1 = some e.2 then some (e.1.drop k.length, e.2) else none)

/-- put the relative dictionary `t` at `k` -/
def graftD (k : Key) (t : D) (d : D) : D :=
  t.map (fun e => (k ++ e.1, e.2)) ++ rmD k d

inductive SRes where
  | ok | valueError | assertionError
  deriving Repr, DecidableEq

/-- forget the subtree of the previous owner of the id `o` -/
def evictOidD (o : Oid) (d : D) : D :=
  match holderD d o with
  | some kx => rmD kx d
  | none => d

/-- `set_oid` on an existing entry `(t0, i0)` at `k` -/
def setOidD (k : Key) (t0 : OType) (i0 : Option Oid) (o : Oid) (d : D) : D :=
  if i0 = some o then d else
    if i0 = none ∧ (dlook (evictOidD o d) k).isSome then putD k (t0, some o) (evictOidD o d)
    else insertD k (t0, some o) (evictOidD o d)

/-- one step of the specification -/
def specStep (c : Cfg) (d : D) : Op → D × SRes
  | .mkdir p o => (insertD (pcomps c p) (.dir, o) d, .ok)
  | .create p o => (insertD (pcomps c p) (.file, o) d, .ok)
  | .delete oid path =>
    match oid with
    | some o =>
      (match holderD d o with
       | some kx => (rmD kx d, .ok)
       | none => (d, .ok))
    | none =>
      match path with
      | some p => (if (dlook d (pcomps c p)).isSome then rmD (pcomps c p) d else d, .ok)
      | none => (d, .valueError)
  | .rename old new =>
    let ko := pcomps c old
    let kn := pcomps c new
    match dlook d ko with
    | none => (rmD kn d, .ok)
    | some _ =>
      if ko = [] then (d, .valueError) else
        let t := subD ko d
        let d2 := rmD kn (rmD ko d)
        (graftD kn t (ensureD kn.dropLast d2), .ok)
  | .setOid p oid t =>
    if !truthy oid || p.isEmpty then (d, .assertionError) else
      match oid with
      | none => (d, .assertionError)
      | some o =>
        match dlook d (pcomps c p) with
        | some (t0, i0) => (setOidD (pcomps c p) t0 i0 o d, .ok)
        | none => (insertD (pcomps c p) (t, some o) d, .ok)
  | .update p t oid =>
    match dlook d (pcomps c p) with
    | some (t0, i0) =>
      if t0 ≠ t then (insertD (pcomps c p) (t, oid) (rmD (pcomps c p) d), .ok)
      else if truthy oid then
        (match oid with
         | some o => (setOidD (pcomps c p) t0 i0 o d, .ok)
         | none => (d, .ok))
      else (d, .ok)
    | none => (insertD (pcomps c p) (t, oid) d, .ok)

def init (rootOid : Oid) : D := [([], (.dir, some rootOid))]

def specRun (c : Cfg) (d : D) : List Op → D
  | [] => d
  | op :: ops => specRun c (specStep c d op).1 ops

/-! ### lookups of the specification -/

def getOidD (c : Cfg) (d : D) (p : Str) : Option Oid := (dlook d (pcomps c p)).bind (·.2)

def getTypeD (c : Cfg) (d : D) (p : Str) : Option OType := (dlook d (pcomps c p)).map (·.1)

def getPathD (d : D) (o : Oid) : Option Key := holderD d o

/-- is `a` the name of a direct child of `k`? (`listdir` as a set) -/
def hasChildD (d : D) (k : Key) (a : Str) : Bool := (dlook d (k ++ [a])).isSome

end CS.HDict
