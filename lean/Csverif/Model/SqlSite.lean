/-
The static side of the C09 tie: what tools/gen_sql_sites.py extracts from cloudsync/sync/sqlite_storage.py
(one row per SQL statement reaching a cursor call, per other cursor-method call, per loop, per stray SQL literal),
and the statement shapes that the branches of `CS.Storage.Sqlite.step` (Model/Storage.lean) stand for.
No Mathlib; plain data and Boolean functions so that Props/C09Sql.lean can decide every fact in the kernel.
-/
import Csverif.Model.Storage
namespace CS.Storage

structure SqlSite where
  method      : String        -- qualified enclosing function
  kind        : String        -- "stmt" | "call" | "loop" | "sqlstr" | "connkw" | "connattr"
  callee      : String        -- source of the called attribute ("" for loop / sqlstr)
  sql         : String        -- statement text (loop: header source); non-literal parts `{dyn:…}` / `{param:…}`
  toks        : List String   -- upper-cased tokens of `sql`
  params      : String        -- source of the parameter argument
  ctx         : String        -- compound statements between the function body and the site, `>`-joined
  inLoop      : Bool
  underMutex  : Bool
  hasLimit    : Bool
  hasOffset   : Bool
  hasOrderBy  : Bool
  result      : String        -- how the result is consumed
  exitsBefore : Nat           -- return / raise statements lexically before the site in its function
  reach       : String        -- "connect": in a function that creates a connection (runs for every connection) |
                              -- "init-only": reachable from `__init__` only | "any"
  deriving DecidableEq, Repr

/-- statement shapes; the right-hand column is the model branch that stands for it -/
inductive Shape where
  | insertTagVal      -- `Sqlite.step (.create tag v)`      INSERT INTO cloud (tag, serialization) VALUES (?, ?)
  | updateByIdTag     -- `Sqlite.step (.update tag v eid)`  UPDATE cloud SET serialization = ? WHERE id = ? AND tag = ?
  | deleteByIdTag     -- `Sqlite.step (.delete tag eid)`    DELETE FROM cloud WHERE id = ? AND tag = ?
  | selectValByIdTag  -- `Sqlite.step (.read tag eid)`      SELECT serialization FROM cloud WHERE id = ? AND tag = ?
  | selectAllByTag    -- `Sqlite.step (.readAll (some t))`  SELECT id, tag, serialization FROM cloud WHERE tag = ?
  | selectAll         -- `Sqlite.step (.readAll none)`      SELECT id, tag, serialization FROM cloud
  | schema            -- CREATE TABLE / CREATE INDEX IF NOT EXISTS, PRAGMA: no row is touched
  | passThrough       -- the wrapper's `self.db.execute(sql, parameters)`: executes its caller's statement
  | other             -- anything the model has no branch for
  deriving DecidableEq, Repr

def shapeOf (toks : List String) : Shape :=
  if toks = ["INSERT", "INTO", "CLOUD", "(", "TAG", ",", "SERIALIZATION", ")", "VALUES", "(", "?", ",", "?", ")"] then .insertTagVal
  else if toks = ["UPDATE", "CLOUD", "SET", "SERIALIZATION", "=", "?", "WHERE", "ID", "=", "?", "AND", "TAG", "=", "?"] then .updateByIdTag
  else if toks = ["DELETE", "FROM", "CLOUD", "WHERE", "ID", "=", "?", "AND", "TAG", "=", "?"] then .deleteByIdTag
  else if toks = ["SELECT", "SERIALIZATION", "FROM", "CLOUD", "WHERE", "ID", "=", "?", "AND", "TAG", "=", "?"] then .selectValByIdTag
  else if toks = ["SELECT", "ID", ",", "TAG", ",", "SERIALIZATION", "FROM", "CLOUD", "WHERE", "TAG", "=", "?"] then .selectAllByTag
  else if toks = ["SELECT", "ID", ",", "TAG", ",", "SERIALIZATION", "FROM", "CLOUD"] then .selectAll
  else if toks = ["{param:sql}"] then .passThrough
  else match toks with
    | "PRAGMA" :: _ => .schema
    | "CREATE" :: "TABLE" :: "IF" :: "NOT" :: "EXISTS" :: _ => .schema
    | "CREATE" :: "INDEX" :: "IF" :: "NOT" :: "EXISTS" :: _ => .schema
    | _ => .other

/-- the (method, shape, parameter source, result use) of every statement row, in source order -/
def stmtShapes (sites : List SqlSite) : List (String × Shape × String × String) :=
  (sites.filter (·.kind == "stmt")).map (fun s => (s.method, shapeOf s.toks, s.params, s.result))

/-- the `WHERE id = ? AND tag = ?` key of the statements that address one row -/
def keyedByIdAndTag (toks : List String) : Bool :=
  ["WHERE", "ID", "=", "?", "AND", "TAG", "=", "?"].isSuffixOf toks

/-- does the token list mention `kw` -/
def mentions (kw : String) (toks : List String) : Bool := toks.contains kw

def mentionsOrderBy : List String → Bool
  | "ORDER" :: "BY" :: _ => true
  | _ :: rest => mentionsOrderBy rest
  | [] => false

/-- size-independence facts of one site: not in a loop, no LIMIT / OFFSET / ORDER BY (flag and tokens),
    the flags agree with the tokens, no early exit before it -/
def sizeIndependent (s : SqlSite) : Bool :=
  !s.inLoop && !s.hasLimit && !s.hasOffset && !s.hasOrderBy &&
  !mentions "LIMIT" s.toks && !mentions "OFFSET" s.toks && !mentionsOrderBy s.toks &&
  s.exitsBefore == 0

/-! connection configuration: which `Conn.Cfg` (Model/Storage.lean) the extracted sites amount to -/

def connectCalls (sites : List SqlSite) : List SqlSite :=
  sites.filter (fun s => s.kind == "call" && s.toks == ["connect"])

/-- the `connect` call in method `m` passes `kw=None` -/
def kwNone (sites : List SqlSite) (m kw : String) : Bool :=
  sites.any (fun s => s.kind == "connkw" && s.method == m && s.sql == kw && s.params == "None")

/-- an unconditional assignment `<connection>.kw = None` on call paths of class `reach` -/
def attrNoneAt (sites : List SqlSite) (reach kw : String) : Bool :=
  sites.any (fun s => s.kind == "connattr" && s.sql == kw && s.params == "None" && s.reach == reach && s.ctx == "" &&
    s.exitsBefore == 0)

/-- autocommit (`isolation_level=None`) of the connection configured by `__init__` and of a replacement made by the reconnect
    branch: a setting counts for EVERY connection only if it is an argument of every `connect` call or an unconditional
    assignment in the function that creates the connection; a setting reachable from `__init__` only counts for the first -/
def cfgOf (sites : List SqlSite) : Conn.Cfg :=
  let everyConnect :=
    (!(connectCalls sites).isEmpty &&
      (connectCalls sites).all (fun c => c.ctx == "" && c.exitsBefore == 0 && kwNone sites c.method "isolation_level")) ||
    attrNoneAt sites "connect" "isolation_level"
  { initAuto := everyConnect || attrNoneAt sites "init-only" "isolation_level", reconnAuto := everyConnect }

/-- nothing ever takes a connection out of autocommit or manages transactions by hand: no other value is given to
    `isolation_level`, `autocommit` is not used, no `commit()` / `rollback()` / `cursor()` / `executescript`, and no statement (or
    stray SQL literal) starts with BEGIN / COMMIT / ROLLBACK / END / SAVEPOINT / RELEASE -/
def staysAutocommit (sites : List SqlSite) : Bool :=
  sites.all fun s =>
    (if s.kind == "connkw" || s.kind == "connattr" then
       (s.sql != "isolation_level" || s.params == "None") && s.sql != "autocommit" && s.sql != "**"
     else true) &&
    (if s.kind == "call" then s.toks != ["commit"] && s.toks != ["rollback"] && s.toks != ["cursor"] else true) &&
    (if s.kind == "stmt" || s.kind == "sqlstr" then
       (match s.toks with
        | "BEGIN" :: _ | "COMMIT" :: _ | "ROLLBACK" :: _ | "END" :: _ | "SAVEPOINT" :: _ | "RELEASE" :: _ => false
        | _ => true)
     else true)

end CS.Storage
