/-
Model of the path helpers of `cloudsync/provider.py` (lines 455-617) and of
`CloudSync.translate` (`cloudsync/cs.py` 184-209).

Hand-written, branch by branch.  Strings are `List Char`; Python's `None` is `Option.none`;
exceptions are `Except PErr`.  `str.lower()` is modelled as a per-character map `Cfg.lower`
(true for the alphabet the correspondence check uses; Python's `lower()` is *not* a character
map on all of Unicode — that is outside the model and stated in the trusted base).
No Mathlib import: this file is also compiled into the driver executable.
-/
namespace CS.Path

abbrev Str := List Char

inductive PErr where
  | index   -- Python IndexError
  | value   -- Python ValueError
  deriving Repr, DecidableEq, BEq

structure Cfg where
  sep   : Char
  alt   : Option Char      -- `alt_sep`; falsy `alt_sep` = none
  cs    : Bool             -- case_sensitive
  win   : Bool             -- win_paths
  lower : Char → Char      -- per-character model of str.lower()

/-- `s.rstrip(c)` for a single character `c`. -/
def rstrip (c : Char) : Str → Str
  | [] => []
  | x :: xs =>
    let r := rstrip c xs
    if r.isEmpty && x == c then [] else x :: r

/-- `s.lstrip(c)`. -/
def lstrip (c : Char) : Str → Str
  | [] => []
  | x :: xs => if x == c then lstrip c xs else x :: xs

/-- `s.strip(c)`. -/
def strip (c : Char) (s : Str) : Str := rstrip c (lstrip c s)

/-- `s.replace(a, b)` for single characters. -/
def replaceChar (a b : Char) (s : Str) : Str := s.map (fun x => if x == a then b else x)

def lowerStr (c : Cfg) (s : Str) : Str := s.map c.lower

/-- provider.py:521-530 `normalize_path_separators`. -/
def normSeps (c : Cfg) (p : Str) : Str :=
  if p.isEmpty then p else
    let p1 := match c.alt with
      | some a => replaceChar a c.sep p
      | none => p
    if p1 == [c.sep] then p1 else rstrip c.sep p1

/-- provider.py:455-473 `__normalize_path_list` on an already flattened argument list. -/
def normList (c : Cfg) (ps : List Str) : List Str :=
  (ps.map (normSeps c)).filter (fun s => !s.isEmpty)

/-- provider.py:475-491 `__strip_path_list`. -/
def stripList (c : Cfg) : List Str → List Str
  | [] => []
  | p :: rest =>
    let s := rstrip c.sep p
    (if s.isEmpty then [] else [s]) ++
      (rest.map (strip c.sep)).filter (fun s => !s.isEmpty)

/-- `sep.join(parts)`. -/
def intercalate (sep : Char) : List Str → Str
  | [] => []
  | [p] => p
  | p :: q :: rest => p ++ sep :: intercalate sep (q :: rest)

def addLead (c : Cfg) (j : Str) : Str :=
  match j with
  | [] => [c.sep]          -- unreachable: joined parts are non-empty
  | x :: _ => if x == c.sep then j else c.sep :: j

/-- provider.py:493-509 `join` (with the `joined_path[1:2]` repair: total). -/
def join (c : Cfg) (ps : List Str) : Str :=
  let n := stripList c (normList c ps)
  if n.isEmpty then [c.sep] else
    let j := intercalate c.sep n
    if c.win then
      match j with
      | _ :: y :: _ => if y == ':' then j else addLead c j
      | _ => addLead c j
    else addLead c j

/-- index of the last occurrence (`str.rfind`), as an option. -/
def rfind (ch : Char) (s : Str) : Option Nat :=
  let rec go (i : Nat) (best : Option Nat) : Str → Option Nat
    | [] => best
    | x :: xs => go (i+1) (if x == ch then some i else best) xs
  go 0 none s

/-- provider.py:511-519 `split`. -/
def split (c : Cfg) (p : Str) : Str × Str :=
  let q := normSeps c p
  match rfind c.sep q with
  | none => ([], q)
  | some 0 => ([c.sep], q.drop 1)
  | some i => (q.take i, q.drop (i+1))

def dirname (c : Cfg) (p : Str) : Str := (split c p).1
def basename (c : Cfg) (p : Str) : Str := (split c p).2

/-- `re.split("[sep]+", p)`: split on maximal runs of `sep`, keeping empty leading/trailing
    fields exactly as Python's `re.split` does. -/
def reSplitRuns (sep : Char) (p : Str) : List Str :=
  let rec go (cur : Str) (inRun : Bool) : Str → List Str
    | [] => [cur.reverse]
    | x :: xs =>
      if x == sep then
        if inRun then go cur true xs else cur.reverse :: go [] true xs
      else go (x :: cur) false xs
  go [] false p

/-- provider.py:532-547 `normalize_path`. -/
def normalizePath (c : Cfg) (p : Str) (forDisplay : Bool) : Str :=
  let q := normSeps c p
  let parts := reSplitRuns c.sep q
  let norm := join c parts
  if c.cs then norm
  else if forDisplay then
    join c [lowerStr c (dirname c norm), basename c norm]
  else lowerStr c norm

/-- Result of `is_subpath`: Python returns `False`, `sep` (same path) or the relative part. -/
inductive SubRes where
  | no
  | rel (r : Str)      -- includes the "same" answer, which is `rel [sep]`
  deriving Repr, DecidableEq, BEq

def SubRes.truthy : SubRes → Bool
  | .no => false
  | .rel r => !r.isEmpty

def isPrefix : Str → Str → Bool
  | [], _ => true
  | _ :: _, [] => false
  | a :: as, b :: bs => a == b && isPrefix as bs

/-- provider.py:549-581 `is_subpath` (arguments already known to be strings; `None`/empty is
    the first branch; `startswith` repair: total). -/
def isSubpath (c : Cfg) (folder target : Str) (strict : Bool) : SubRes :=
  if folder.isEmpty || target.isEmpty then .no else
    let ff := normSeps c folder
    let tf := normSeps c target
    let ffc := if c.cs then ff else lowerStr c ff
    let tfc := if c.cs then tf else lowerStr c tf
    if ffc == tfc then (if strict then .no else .rel [c.sep])
    else if ffc == [c.sep] && isPrefix [c.sep] tfc then .rel tf
    else if tf.length > ff.length && tf[ff.length]? == some c.sep then
      (if isPrefix ffc tfc then .rel (tf.drop ff.length) else .no)
    else .no

/-- provider.py:549-557 `is_subpath` called with `None` for the folder or the target (the engine does
    this for entries without a path): `not folder or not target` is the first branch. -/
def isSubpathOpt (c : Cfg) (folder target : Option Str) (strict : Bool) : SubRes :=
  match folder, target with
  | some f, some t => isSubpath c f t strict
  | _, _ => .no

/-- provider.py:583-591 `is_subpath_of_root(target, strict)`: `is_subpath(self._root_path, …)`;
    the root path is `None` until `set_root` ran. -/
def isSubpathOfRoot (c : Cfg) (root target : Option Str) (strict : Bool) : SubRes :=
  isSubpathOpt c root target strict

/-- An argument of `join(*paths)`: a string, a (nested) list/tuple of arguments, or `None`. -/
inductive JArg where
  | str (s : Str)
  | seq (l : List JArg)
  | none

mutual
/-- provider.py:455-473 `__normalize_path_list`, the expansion of included iterables: strings are
    kept (blank ones are dropped later by `normList`), truthy iterables are expanded in place,
    falsy non-strings (`None`, `[]`, `()`) are skipped. -/
def JArg.flatten : JArg → List Str
  | .str s => [s]
  | .seq l => flattenArgs l
  | .none => []
def flattenArgs : List JArg → List Str
  | [] => []
  | a :: as => a.flatten ++ flattenArgs as
end

/-- provider.py:493-509 `join(*paths)` on arbitrary (nested) arguments. -/
def joinArgs (c : Cfg) (args : List JArg) : Str := join c (flattenArgs args)

/-- provider.py:593-598 `replace_path`. -/
def replacePath (c : Cfg) (path fromDir toDir : Str) : Except PErr Str :=
  match isSubpath c fromDir path false with
  | .no => .error .value
  | .rel r =>
    if r.isEmpty then .error .value
    else .ok (normSeps c toDir ++ (if r == [c.sep] then [] else r))

/-- provider.py:600-607 `paths_match`. -/
def pathsMatch (c : Cfg) (a b : Option Str) (forDisplay : Bool) : Bool :=
  match a, b with
  | none, none => true
  | none, some _ => false
  | some _, none => false
  | some x, some y => normalizePath c x forDisplay == normalizePath c y forDisplay

/-- cs.py:184-209 default `translate(side, path)`: `cFrom`/`rootFrom` describe side `1-side`
    (where `path` lives), `cTo`/`rootTo` the side being translated to. -/
def translate (cFrom cTo : Cfg) (rootFrom rootTo path : Str) : Option Str :=
  match isSubpath cFrom rootFrom path false with
  | .no => none
  | .rel r => if r.isEmpty then none else some (join cTo [rootTo, r])

/-- ASCII + Latin-1 simple lower-casing: agrees with Python's `str.lower()` on every character
    of the correspondence alphabet. -/
def simpleLower (ch : Char) : Char :=
  let n := ch.toNat
  if (65 ≤ n ∧ n ≤ 90) ∨ (192 ≤ n ∧ n ≤ 222 ∧ n ≠ 215) then Char.ofNat (n + 32) else ch

def mkCfg (cs win : Bool) (alt : Bool := true) : Cfg :=
  { sep := '/', alt := if alt then some '\\' else none, cs := cs, win := win, lower := simpleLower }

end CS.Path
