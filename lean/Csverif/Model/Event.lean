/-
Model of the cursor / walk state machine of cloudsync/event.py (`EventManager`), at the granularity of
individual storage writes and provider-position changes, so that a stop (graceful or not) can fall between
any two of them.  No Mathlib.

What is modelled (file:line of /repo/cloudsync/event.py unless stated otherwise)

  * the constructor and `_validate_root` (62-121): cursor tag / walk tag, the stored cursor, the stored walk
    marker, `need_walk = cursor is None or walk marker is None`; the three root configurations
    (no root, exactly one of path/oid, both), and the provider's own root overriding them (101-104);
  * `do` (171-193): `_validate_root`, `_do_unsafe`, the `CloudCursorError` handler
    (reset the provider to `latest_cursor`, `_forget_walk` = delete the stored walk marker, `_save_current_cursor`,
    `need_walk = True`, backoff);
  * `_do_first_init`: no cursor -> take the provider's current position, drop the stored walk marker if a walk
    is needed (`_forget_walk`), then persist the position; cursor -> position the provider on it, on rejection
    `need_walk` if no walk marker, re-raise;
    (the model follows the code as repaired by `fix: … need_walk did not survive a restart`: the marker is deleted
    BEFORE the re-seeded cursor is written, so the need for a walk is on disk whenever it is in memory)
  * `_do_walk_if_needed` (195-207): the walk loop (one delivery per object, the `stopped` check between
    two objects), the walk-marker write, `need_walk = False`;
  * `_do_unsafe` (226-242): queued events, the event loop (fetch = the provider advances its position,
    the `stopped` check, `_process_event` = `state.update` + `storage_commit` per event), `_save_current_cursor`
    (244-249: written only if it differs from `self.cursor`);
  * `busy` (145-152): fetches one event into the queue;
  * `forget` (126-143) together with `SyncState.forget` (state.py:761-770) as `CloudSync.forget` calls them
    (cs.py:98-104);
  * the provider feed (providers/mock.py:375-420): events are numbered 0,1,2,…; `latest` is the index of the
    newest one (-1: none), `cur` the index of the last one handed out; the cursor setter rejects non-integers
    (`CVal.bad`), and - as a provider with expiring cursors does - integers below `minValid`;
  * storage (state.py:1037-1079 `storage_get_data` / `storage_update_data` / `storage_delete_tag`) as the two
    data rows (cursor, walk marker) plus `log`, the feed events whose effect has been committed to the
    entries table ("entries committed up to event i").

`Ghost` holds specification-only variables; no transition reads them.

Not modelled: reconnect / token errors (154-169, 189-193), temporary errors (176-182), events without an id
(285-296), root-deleted / root-renamed detection (342-358), `CloudFileNotFoundError` during a walk (204-205),
the contents of entries (the walk's de-duplication against state, 298-307, happens inside one delivery).
Step-atomicity: `busy`, `forget` and the external storage manipulations interleave only between two `do()`
calls; user operations and a stop interleave anywhere.
-/
namespace CS.Event

/-- a cursor value as stored / held in memory: an integer position, or something that is not one -/
inductive CVal where
  | int (i : Int)
  | bad
  deriving DecidableEq, Repr

/-- how CloudSync constructed the EventManager: without roots, with a root path only (root oid unknown
    until `SyncManager._validate_provider_roots` ran), or with both -/
inductive RootCfg where
  | noRoot
  | pathOnly
  | both
  deriving DecidableEq, Repr

/-- the provider (survives a restart of the engine; a new provider object is `provCur` + `unsetRoot`) -/
structure Prov where
  latest   : Int      -- index of the newest event in the feed
  cur      : Int      -- `current_cursor`: index of the last event handed out
  minValid : Int      -- integer cursors below this are rejected with CloudCursorError
  objs     : Nat      -- number of objects a walk of the root yields right now
  rootSet  : Bool     -- provider.root_path and provider.root_oid are set
  deriving DecidableEq, Repr

/-- the cursor setter (mock.py:394-401 plus expiry): `some c` = accepted, position becomes `c` -/
def Prov.accept? (p : Prov) : CVal → Option Int
  | .int c => if p.minValid ≤ c then some c else none
  | .bad => none

structure Store where
  cursor : Option CVal     -- row under the cursor tag
  walked : Bool            -- a row under the walk tag exists
  log    : List Int        -- feed events whose effect is committed (newest first)
  deriving DecidableEq, Repr

/-- where inside `do()` the engine is -/
inductive PC where
  | idle                          -- between two do() calls
  | firstInit                     -- about to run `_do_first_init`
  | seedSave                      -- … no stored cursor: position taken, marker dropped; about to persist the position
  | walkItem (k : Nat)            -- in the walk loop, `k` objects left; `walkItem 0` writes the marker
  | queueLoop (rest : List Int)   -- processing `self._queue`
  | events                        -- top of the event loop
  | fetched (i : Int)             -- the provider handed out event `i`; `stopped` check; not yet processed
  | save                          -- about to run `_save_current_cursor`
  | errReset                      -- CloudCursorError handler: about to reset the provider position
  | errForget                     -- … about to delete the stored walk marker (`_forget_walk`)
  | errSave                       -- … about to persist the reset cursor and set `need_walk`
  deriving DecidableEq, Repr

/-- one delivery to `_process_event` -/
inductive Tr where
  | ev (i : Int)     -- feed event i
  | w                -- an object offered by a walk
  deriving DecidableEq, Repr

/-- the EventManager object (lost on stop) -/
structure Mem where
  validated : Bool
  rootPath  : Bool
  rootOid   : Bool
  cursor    : Option CVal
  needWalk  : Bool
  firstDo   : Bool
  queue     : List Int
  stopping  : Bool        -- Runnable's shutdown flag (`self.stopped`), raised by a final stop from another thread
  pc        : PC
  deriving DecidableEq, Repr

/-- specification-only variables (never read by a transition) -/
structure Ghost where
  seed    : Int         -- the position the stored cursor was last taken from the provider at (not reached by
                        --   processing events); events at or below it are a walk's business
  walkDue : Bool        -- the cursor was re-seeded (or the entries dropped) and no walk has completed since
  base    : Int         -- the position `_do_first_init` put the provider on
  fresh   : List Tr     -- deliveries since the last start / forget (newest first)
  deriving DecidableEq, Repr

structure St where
  cfg   : RootCfg
  prov  : Prov
  store : Store
  mem   : Option Mem     -- `none`: no engine running
  ghost : Ghost
  deriving DecidableEq, Repr

inductive Act where
  | user (objs : Nat)     -- a user operation: one more event in the feed; a walk would now yield `objs` objects
  | setRoot               -- SyncManager._validate_provider_roots -> provider.set_root
  | expire (d : Nat)      -- the provider stops accepting cursors older than `latest - d`
  | start                 -- new EventManager over the same storage and provider
  | stop                  -- the engine goes away: all in-memory state is dropped
  | shutdown              -- another thread requests the final stop: `self.stopped` becomes true (runnable.py:61-63)
  | callDo                -- a do() call begins
  | step                  -- the running do() performs its next effect
  | busy                  -- EventManager.busy
  | forget                -- CloudSync.forget
  | corrupt               -- (engine down) the stored cursor becomes a non-integer
  | delCursor             -- (engine down) the cursor row is deleted
  | delWalk               -- (engine down) the walk-marker row is deleted
  | provCur (v : Int)     -- (engine down) a new provider object, positioned at `v`
  | unsetRoot             -- (engine down) … whose root is not set yet
  deriving DecidableEq, Repr

/-- event.py:62-95 before `_validate_root()` -/
def newMem (cfg : RootCfg) : Mem :=
  { validated := false, rootPath := cfg != .noRoot, rootOid := cfg == .both, cursor := none,
    needWalk := false, firstDo := true, queue := [], stopping := false, pc := .idle }

/-- event.py:97-121 -/
def validateRoot (p : Prov) (st : Store) (m : Mem) : Mem :=
  if m.validated then m
  else
    let rp := p.rootSet || m.rootPath        -- 101-104
    let ro := p.rootSet || m.rootOid
    if !rp && !ro then                       -- 106-110
      { m with rootPath := rp, rootOid := ro, cursor := st.cursor, validated := true }
    else if rp && ro then                    -- 112-119
      { m with rootPath := rp, rootOid := ro, cursor := st.cursor,
               needWalk := st.cursor.isNone || !st.walked, validated := true }
    else { m with rootPath := rp, rootOid := ro }

/-- `_process_event` for feed event `i`: state.update + storage_commit (261-314) -/
def deliver (s : St) (i : Int) : St :=
  { s with store := { s.store with log := i :: s.store.log },
           ghost := { s.ghost with fresh := .ev i :: s.ghost.fresh } }

/-- where `_do_unsafe` continues after `_do_first_init`: the walk if needed (196), else the queue (231) -/
def afterInit (m : Mem) (p : Prov) : PC :=
  if m.needWalk && m.rootOid then .walkItem p.objs else .queueLoop m.queue

/-- the next effect of the running do() -/
def stepUp (s : St) (m : Mem) : St :=
  match m.pc with
  | .idle => s
  | .firstInit =>
    if m.firstDo then
      match m.cursor with
      | none =>                                                     -- `self.cursor = provider.current_cursor`; `_forget_walk`
        let c := CVal.int s.prov.cur
        { s with store := { s.store with walked := s.store.walked && !(m.needWalk && m.rootOid) },
                 mem := some { m with cursor := some c, pc := .seedSave },
                 ghost := { s.ghost with seed := s.prov.cur } }
      | some v =>
        match s.prov.accept? v with
        | some c =>                                                 -- 219, 224
          let m' := { m with firstDo := false }
          { s with prov := { s.prov with cur := c },
                   mem := some { m' with pc := afterInit m' s.prov },
                   ghost := { s.ghost with base := c } }
        | none =>                                                   -- 220-223
          { s with mem := some { m with needWalk := m.needWalk || !s.store.walked, pc := .errReset } }
    else { s with mem := some { m with pc := afterInit m s.prov } }
  | .seedSave =>                                                    -- `storage_update_data(cursor_tag, self.cursor)`; `_first_do = False`
    let m' := { m with firstDo := false }
    { s with store := { s.store with cursor := m.cursor },
             mem := some { m' with pc := afterInit m' s.prov },
             ghost := { s.ghost with seed := s.prov.cur, walkDue := true, base := s.prov.cur } }
  | .walkItem (k+1) =>                                              -- 200-203
    if m.stopping then
      -- 201-202: `return` leaves `_do_walk_if_needed` only; `_do_unsafe` goes on with the queue (quirk)
      { s with mem := some { m with pc := .queueLoop m.queue } }
    else
      { s with mem := some { m with pc := .walkItem k },
               ghost := { s.ghost with fresh := .w :: s.ghost.fresh } }
  | .walkItem 0 =>                                                  -- 206-207
    { s with store := { s.store with walked := true },
             mem := some { m with needWalk := false, pc := .queueLoop m.queue },
             ghost := { s.ghost with walkDue := false } }
  | .queueLoop (i :: r) =>                                          -- 233-234
    let s' := deliver s i
    { s' with mem := some { m with pc := .queueLoop r } }
  | .queueLoop [] =>                                                -- 235
    { s with mem := some { m with queue := [], pc := .events } }
  | .events =>                                                      -- 238 (mock.py:406-408)
    if s.prov.cur < s.prov.latest then
      { s with prov := { s.prov with cur := s.prov.cur + 1 },
               mem := some { m with pc := .fetched (s.prov.cur + 1) } }
    else { s with mem := some { m with pc := .save } }
  | .fetched i =>                                                   -- 239-241
    if m.stopping then
      { s with mem := some { m with pc := .idle } }                 -- 239-240: the event is dropped, nothing saved
    else
      let s' := deliver s i
      { s' with mem := some { m with pc := .events } }
  | .save =>                                                        -- 242, 244-249
    let c := CVal.int s.prov.cur
    if some c ≠ m.cursor then
      { s with store := { s.store with cursor := some c },
               mem := some { m with cursor := some c, pc := .idle } }
    else { s with mem := some { m with pc := .idle } }
  | .errReset =>                                                    -- `provider.current_cursor = provider.latest_cursor`
    { s with prov := { s.prov with cur := s.prov.latest }, mem := some { m with pc := .errForget } }
  | .errForget =>                                                   -- `_forget_walk()`
    { s with store := { s.store with walked := s.store.walked && !m.rootOid },
             mem := some { m with pc := .errSave } }
  | .errSave =>                                                     -- 186-188
    let c := CVal.int s.prov.cur
    let st' := if some c ≠ m.cursor then { s.store with cursor := some c } else s.store
    { s with store := st',
             mem := some { m with cursor := some c, needWalk := true, pc := .idle },
             ghost := { s.ghost with seed := s.prov.cur, walkDue := true } }

def CVal.toInt? : CVal → Option Int
  | .int c => some c
  | .bad => none

def apply (s : St) : Act → St
  | .user n => { s with prov := { s.prov with latest := s.prov.latest + 1, objs := n } }
  | .setRoot => if s.cfg = .noRoot then s else { s with prov := { s.prov with rootSet := true } }
  | .expire d => { s with prov := { s.prov with minValid := s.prov.latest - (d : Int) } }
  | .start =>
    match s.mem with
    | some _ => s
    | none => { s with mem := some (validateRoot s.prov s.store (newMem s.cfg)),
                       ghost := { s.ghost with fresh := [] } }
  | .stop => { s with mem := none }
  | .shutdown =>
    match s.mem with
    | none => s
    | some m => { s with mem := some { m with stopping := true } }
  | .callDo =>                                                      -- 171-175 (the run loop calls do() no more once stopped)
    match s.mem with
    | none => s
    | some m =>
      if m.pc = .idle ∧ m.stopping = false then
        let m' := validateRoot s.prov s.store m
        if m'.validated then { s with mem := some { m' with pc := .firstInit } }
        else { s with mem := some m' }
      else s
  | .step =>
    match s.mem with
    | none => s
    | some m => stepUp s m
  | .busy =>                                                        -- 145-152
    match s.mem with
    | none => s
    | some m =>
      if m.pc = .idle then
        if !m.queue.isEmpty || m.needWalk then s
        else if s.prov.cur < s.prov.latest then
          { s with prov := { s.prov with cur := s.prov.cur + 1 },
                   mem := some { m with queue := m.queue ++ [s.prov.cur + 1] } }
        else s
      else s
  | .forget =>                                                      -- cs.py:98-104, state.py:761-770, 126-143
    match s.mem with
    | none => s
    | some m =>
      if m.pc = .idle then
        { s with store := { cursor := none, walked := false, log := [] },
                 mem := some { m with firstDo := true, needWalk := true },
                 ghost := { s.ghost with
                   seed := match m.cursor.bind CVal.toInt? with
                           | some c => max s.ghost.seed c
                           | none => s.ghost.seed,
                   walkDue := true, fresh := [] } }
      else s
  | .corrupt =>
    match s.mem with
    | some _ => s
    | none => { s with store := { s.store with cursor := some .bad } }
  | .delCursor =>
    match s.mem with
    | some _ => s
    | none => { s with store := { s.store with cursor := none } }
  | .delWalk =>
    match s.mem with
    | some _ => s
    | none => { s with store := { s.store with walked := false } }
  | .provCur v =>
    match s.mem with
    | some _ => s
    | none => { s with prov := { s.prov with cur := v } }
  | .unsetRoot =>
    match s.mem with
    | some _ => s
    | none => { s with prov := { s.prov with rootSet := false } }

def run (s : St) (acts : List Act) : St := acts.foldl apply s

/-- a fresh world: empty storage, no engine, a provider whose feed already holds `n` events and whose
    object stands at position `p` -/
def init (cfg : RootCfg) (n : Nat) (p : Int) (objs : Nat) (rootSet : Bool) : St :=
  { cfg := cfg,
    prov := { latest := (n : Int) - 1, cur := p, minValid := -1, objs := objs,
              rootSet := rootSet && cfg != .noRoot },
    store := { cursor := none, walked := false, log := [] },
    mem := none,
    ghost := { seed := p, walkDue := false, base := p, fresh := [] } }

/-! ### running a do() to completion -/

def St.pcIdle (s : St) : Bool :=
  match s.mem with
  | none => true
  | some m => m.pc == .idle

/-- perform effects until the do() returns (bounded by `fuel`) -/
def finish : Nat → St → St
  | 0, s => s
  | n+1, s => if s.pcIdle then s else finish n (apply s .step)

/-- an upper bound on the number of effects left in the running do() -/
def measure (s : St) : Nat :=
  match s.mem with
  | none => 0
  | some m =>
    let d := (s.prov.latest - s.prov.cur).toNat
    match m.pc with
    | .idle => 0
    | .save => 1
    | .errSave => 1
    | .errForget => 2
    | .errReset => 3
    | .events => 2 * d + 2
    | .fetched _ => 2 * d + 3
    | .queueLoop rest => 2 * d + 4 + rest.length
    | .walkItem k => 2 * d + 6 + m.queue.length + k
    | .seedSave => 2 * d + 7 + m.queue.length + s.prov.objs
    | .firstInit =>
      let d' := match m.cursor.bind CVal.toInt? with
                | some c => (s.prov.latest - c).toNat
                | none => 0
      2 * (d + d') + 8 + m.queue.length + s.prov.objs

/-- one whole `do()` call -/
def doAll (s : St) : St :=
  let s1 := apply s .callDo
  finish (measure s1) s1

/-- is the next effect of the running do() a delivery to `_process_event`? -/
def nextDelivers (s : St) : Bool :=
  match s.mem with
  | none => false
  | some m =>
    match m.pc with
    | .walkItem (_+1) => !m.stopping
    | .fetched _ => !m.stopping
    | .queueLoop (_ :: _) => true
    | _ => false

/-- do() during which the final stop is requested right after the `k`-th delivery (k = 0: at its very
    beginning); runs until do() returns -/
def finishStop : Nat → Nat → St → St
  | 0, _, s => s
  | n+1, k, s =>
    let s := if k == 0 then apply s .shutdown else s
    if s.pcIdle then s
    else finishStop n (if nextDelivers s then k - 1 else k) (apply s .step)

/-- does the next effect of the running do() write to storage? -/
def nextWrites (s : St) : Bool :=
  match s.mem with
  | none => false
  | some m =>
    match m.pc with
    | .firstInit => m.firstDo && m.cursor.isNone && m.needWalk && m.rootOid
    | .seedSave => true
    | .errForget => m.rootOid
    | .walkItem 0 => true
    | .walkItem (_+1) => !m.stopping
    | .queueLoop (_ :: _) => true
    | .fetched _ => !m.stopping
    | .save => decide (some (CVal.int s.prov.cur) ≠ m.cursor)
    | .errSave => decide (some (CVal.int s.prov.cur) ≠ m.cursor)
    | _ => false

/-- do() abandoned (process killed) just before its `k`-th storage write (k counted from 0) -/
def finishCrash : Nat → Nat → St → St
  | 0, _, s => s
  | n+1, k, s =>
    if s.pcIdle then s
    else if nextWrites s then
      if k == 0 then { s with mem := none } else finishCrash n (k - 1) (apply s .step)
    else finishCrash n k (apply s .step)

end CS.Event
