import Csverif.Model.Hints
/-
ENG — the decision logic of the sync engine as DECISION TABLES.

Model of the branch structure of `cloudsync/sync/manager.py` and of the predicates of `cloudsync/sync/state.py`
it dispatches on, written branch by branch from the Python (line numbers of /repo HEAD):

  * `SideState.needs_sync`, `is_corrupt`, `corrupt_gone`, `__setattr__`  state.py 109-133, 185-230    → `Side.needsSync`, `Side.setEx`, …
  * the `changed` / `ignored` / `priority` hooks of `SyncState.updated`  state.py 779-810             → `Entry.setChanged`, `Entry.setIgn`, `Entry.setPrio`
  * `SideState.clear`, `SyncState.finished`, `SyncState.split`           state.py 169-178, 1220-1238, 1326-1365 → `clearSide`, `finished`, `splitEntry`
  * `SyncEntry.hash_conflict/is_path_change/is_deletion/is_creation/is_rename`  state.py 439-458      → `hashConflict` …
  * `SyncManager.path_conflict`                                          manager.py 289-317           → `pathConflict`
  * `SyncManager.check_revivify`, `pre_sync`                             manager.py 319-370           → `checkRevivify`, `preSync`
  * `SyncManager.sync`                                                   manager.py 372-464           → `syncSide`, `sync`
  * `SyncManager._left_sync`, `_unlink_peer_that_left_sync` (the first step of `sync`)   manager.py 372-402   → `leftSync`, `unlinks`, `sync`
    (`syncPre` = the function before that fix = the remaining branches)
  * `SyncManager._sync_one_entry`                                        manager.py 180-203           → `syncOne`
  * `SyncManager.delete_synced`, `_handle_dir_delete_not_empty`          manager.py 1029-1109         → `deleteSynced`, `dirNotEmpty`
  * `SyncManager.handle_path_change_or_creation`                         manager.py 1181-1259         → `hpcc`
  * `SyncManager.handle_corrupt`                                         manager.py 1261-1278         → `handleCorrupt`
  * `SyncManager.handle_rename`                                          manager.py 1280-1345         → `handleRename`
  * `SyncManager.embrace_change`                                         manager.py 1417-1517         → `embrace`
  * `SyncManager.handle_changed_is_missing`                              manager.py 1557-1574         → `handleMissing`
  * `SyncManager.handle_hash_diff`                                       manager.py 1576-1611         → `hashDiff`

ABSTRACTION.  A side keeps, instead of strings, the RELATION between the current value and the value at the last
sync (`Rel`: path vs sync_path, hash vs sync_hash), whether it has an id, its `Exists` value and `_saved_exists`,
its object type, whether its change flag is set, and `force_sync`.  The entry adds which of two set change times
is the older one, the ignore reason and the priority (in tenths: the engine adds 0.1 in the parent-conflict
branch; a punt is +10).  Everything the code asks the outside world — the application's `translate`, the provider
calls (and the exception they raise), look-ups of OTHER entries of the state table, and the transfer leaves
`download_changed`, `upload_synced`, `create_synced`, `mkdir_synced` — enters as a field of `Oracle`.
A decision function returns the code (`FINISHED`/`PUNT`/`REQUEUE`, Python `None`, or the exception that escapes),
the list of leaf calls it makes, in order (`Eff`), and the entry afterwards.

NOT modelled: a falsy-but-not-None path or hash (`""`, `b""`), size/mtime, `_last_gotten`, the path/oid indexes, the
change set, temp files, `in_backoff`, `want_raise=True`, what happens INSIDE the leaves (their success effect on the
entry is summarised: `uploadOk`, `createOk`, `mkdirOk`, the same statements the harness stubs execute on the real entry).
No Mathlib.
-/
namespace CS.Engine
open CS.Hints (Ex OT Ign)

/-! ### sides, relations -/

/-- LOCAL = 0, REMOTE = 1 -/
inductive Sd where
  | loc | rem
  deriving DecidableEq, Repr

def Sd.other : Sd → Sd
  | .loc => .rem
  | .rem => .loc

/-- a current value against the value at the last sync (`path`/`sync_path`, `hash`/`sync_hash`):
    `nn` both None, `cn` only the current one, `ns` only the synced one, `eq` both and equal
    (paths: `paths_match`), `ne` both and different -/
inductive Rel where
  | nn | cn | ns | eq | ne
  deriving DecidableEq, Repr

/-- the current value is not None -/
def Rel.cur : Rel → Bool
  | .cn | .eq | .ne => true
  | _ => false

/-- the synced value is not None -/
def Rel.sync : Rel → Bool
  | .ns | .eq | .ne => true
  | _ => false

/-- Python `cur == sync` (hashes) / `paths_match(sync, cur)` (provider.py 600-607: two `None`s match) -/
def Rel.same : Rel → Bool
  | .nn | .eq => true
  | _ => false

/-- `sync := cur` -/
def Rel.setSync : Rel → Rel
  | .nn => .nn | .cn => .eq | .ns => .nn | .eq => .eq | .ne => .eq

/-- `sync := None` -/
def Rel.clearSync : Rel → Rel
  | .nn => .nn | .cn => .cn | .ns => .nn | .eq => .cn | .ne => .cn

/-- `cur := None` -/
def Rel.clearCur : Rel → Rel
  | .nn => .nn | .cn => .nn | .ns => .ns | .eq => .ns | .ne => .ns

/-- one `SideState` -/
structure Side where
  oid : Bool            -- `oid` is not None
  p : Rel               -- `path` vs `sync_path`
  h : Rel               -- `hash` vs `sync_hash`
  ex : Ex               -- `_exists`
  saved : Option Ex     -- `_saved_exists`
  otype : OT
  changed : Bool        -- `changed` is truthy
  force : Bool          -- `force_sync`
  deriving DecidableEq, Repr

/-- state.py 205-217 -/
def Side.isCorrupt (s : Side) : Bool := s.ex == .corrupt

/-- state.py 228-230 -/
def Side.corruptGone (s : Side) : Bool :=
  s.isCorrupt && (s.saved == some .trashed || s.saved == some .missing || s.saved == some .likely)

/-- `SideState.__setattr__("exists", v)` (state.py 114-127): the corrupt state shadows assignments -/
def Side.setEx (s : Side) (v : Ex) : Side :=
  if v == .corrupt && !s.isCorrupt then { s with saved := some s.ex, ex := .corrupt }
  else if v != .corrupt && s.isCorrupt then { s with saved := some v }
  else { s with ex := v }

/-- state.py 219-222 (`_translate_exists(None)` is UNKNOWN) -/
def Side.uncorrupt (s : Side) : Side :=
  if s.isCorrupt then { s with ex := s.saved.getD .unknown, saved := none } else s

/-- `hash = None` through `__setattr__` (state.py 131-133): a hash that changes un-corrupts -/
def Side.clearHash (s : Side) : Side :=
  let s := if s.h.cur && s.isCorrupt then s.uncorrupt else s
  { s with h := s.h.clearCur }

/-- `hash = v; sync_hash = v` for a value `v` the provider just reported (different from the old hash) -/
def Side.newHashSynced (s : Side) : Side :=
  let s := if s.isCorrupt then s.uncorrupt else s
  { s with h := .eq }

/-- `SideState.needs_sync` (state.py 185-191) -/
def Side.needsSync (s : Side) : Bool :=
  s.force || (s.changed && s.oid && (!s.h.same || !s.p.same || s.ex == .trashed || s.ex == .likely || s.ex == .missing))

/-- the tail of `SyncState.update_entry(..., exists=True)` (state.py 1016-1023): the LIKELY_TRASHED rule — a tombstone
    (TRASHED or LIKELY_TRASHED) survives an "exists" report as LIKELY_TRASHED -/
def Side.existsTrue (s : Side) : Side :=
  if s.ex == .trashed || s.ex == .likely then s.setEx .likely else s.setEx .present

/-! ### entries -/

structure Entry where
  l : Side
  r : Side
  lLeR : Bool           -- when both change flags are set: LOCAL's change time ≤ REMOTE's
  ign : Ign
  prio : Int            -- `priority` in tenths
  deriving DecidableEq, Repr

def Entry.get (e : Entry) : Sd → Side
  | .loc => e.l
  | .rem => e.r

def Entry.set (e : Entry) (s : Sd) (v : Side) : Entry :=
  match s with
  | .loc => { e with l := v }
  | .rem => { e with r := v }

/-- the value a change flag is set to: `0`/`None`; `1` (older than every event); the other side's time + 0.01;
    `time.time()` (newer than every recorded time) -/
inductive When where
  | zero | oldest | afterPeer | now
  deriving DecidableEq, Repr

def When.flag : When → Bool
  | .zero => false
  | _ => true

/-- `sync[s].changed = v` (state.py 109-133 → `SyncState.updated`, key "changed", 794-800).  The hook runs BEFORE the
    assignment: when this side brings nothing into the change set and the other side is flagged but id-less, the OTHER
    side's flag is cleared too. -/
def Entry.setChanged (e : Entry) (s : Sd) (w : When) : Entry :=
  let me := e.get s
  let ot := e.get s.other
  let e := if (w.flag && me.oid) || (ot.changed && ot.oid) then e
           else if ot.changed && !ot.oid then e.set s.other { ot with changed := false } else e
  let e := e.set s { e.get s with changed := w.flag }
  match w, s with
  | .zero, _ => e
  | .oldest, .loc => { e with lLeR := true }
  | .oldest, .rem => { e with lLeR := false }
  | _, .loc => { e with lLeR := false }
  | _, .rem => { e with lLeR := true }

/-- `sync.ignored = g` (state.py 355-362 → `updated`, key "ignored", 789-793): DISCARDED clears both flags -/
def Entry.setIgn (e : Entry) (g : Ign) : Entry :=
  if e.ign = g then e
  else
    let e := if g = .discarded then { e with l := { e.l with changed := false }, r := { e.r with changed := false } } else e
    { e with ign := g }

/-- the `changed` hook for a re-assignment that keeps the flag set (`ent[s].changed += punt_secs`): state.py 794-800 -/
def Entry.bump (e : Entry) (s : Sd) : Entry :=
  let me := e.get s
  let ot := e.get s.other
  if me.oid || (ot.changed && ot.oid) then e
  else if ot.changed && !ot.oid then e.set s.other { ot with changed := false } else e

/-- `sync.priority = v` (state.py 355-362 → `updated`, key "priority", 801-807): a raise above zero pushes the change times of
    the flagged sides into the future — through `SideState.__setattr__`, i.e. through the `changed` hook -/
def Entry.setPrio (e : Entry) (v : Int) : Entry :=
  if e.prio = v then e
  else
    let e := if v > e.prio && v > 0 then
               let e := if e.l.changed then e.bump .loc else e
               if e.r.changed then e.bump .rem else e
             else e
    { e with prio := v }

/-- `SyncEntry.punt` (state.py 634-636) -/
def Entry.punt (e : Entry) : Entry := e.setPrio (e.prio + 10)

/-- `SyncState._change_path` (state.py 819-853) when a side's path is assigned a truthy string different from the prior one:
    the priority is re-derived from `prioritize(side, path)` — 0 unless the application overrides it -/
def Entry.pathMoved (e : Entry) (moved : Bool) : Entry := if moved then e.setPrio 0 else e

/-- `SideState.clear` (state.py 169-178), statement by statement -/
def Entry.clearSide (e : Entry) (s : Sd) : Entry :=
  let e := e.set s ((e.get s).setEx .unknown)
  let e := e.setChanged s .zero
  let e := e.set s (e.get s).clearHash
  let x := e.get s
  e.set s { x with h := x.h.clearSync, p := .nn, oid := false }

/-- `SyncManager.finished(side, sync)` (manager.py 478-485) with `SyncState.finished` (state.py 1220-1227) -/
def finished (e : Entry) (s : Sd) : Entry :=
  let e := e.setChanged s .zero
  let e := if !e.l.changed then { e with l := { e.l with force := false } } else e
  if !e.r.changed then { e with r := { e.r with force := false } } else e

/-- `SideState.set_force_sync` (state.py 165-167) -/
def Entry.forceSync (e : Entry) (s : Sd) : Entry :=
  let e := e.setChanged s .now
  e.set s { e.get s with force := true }

/-! ### the predicates of `SyncEntry` -/

/-- state.py 439-442 -/
def hashConflict (e : Entry) : Bool :=
  if e.l.h.cur && e.r.h.cur && e.l.p.cur && e.r.p.cur then !e.l.h.same && !e.r.h.same else false

/-- state.py 444-445 -/
def isPathChange (e : Entry) (c : Sd) : Bool := (e.get c).p.sync && !(e.get c).p.same

/-- state.py 447-448 -/
def isDeletion (e : Entry) (s : Sd) : Bool :=
  (e.get s.other).ex == .present && ((e.get s).ex == .trashed || (e.get s).ex == .missing) && (e.get s).changed

/-- state.py 450-455 -/
def isCreation (e : Entry) (s : Sd) : Bool :=
  let me := e.get s
  let ot := e.get s.other
  if me.p.cur && me.ex == .present then
    if me.needsSync then !ot.oid || ot.ex == .trashed || ot.ex == .missing || ot.corruptGone else false
  else false

/-- state.py 457-458 -/
def isRename (e : Entry) (c : Sd) : Bool := (e.get c).p.sync && (e.get c).p.cur && !(e.get c).p.same

/-- `SyncEntry.needs_sync` (state.py 467-468) -/
def Entry.needsSync (e : Entry) : Bool := e.l.needsSync || e.r.needsSync

/-! ### the outside world -/

/-- what the application's `translate(dest, <path of the other side>)` answers, classified against the DESTINATION side:
    `none`; the destination's current path; its sync_path; another spelling of its sync_path (`paths_match` but not `==`);
    a path that sorts before / after the destination's current path.  (Harness strings: current path ".../m", a sync_path
    that differs ".../k", alternative spelling: trailing separator, before ".../a", after ".../z".) -/
inductive TrAns where
  | none | path | sync | alt | lt | gt
  deriving DecidableEq, Repr

def TrAns.some : TrAns → Bool
  | .none => false
  | _ => true

/-- `translated == sync[dest].path` -/
def TrAns.eqPath (t : TrAns) (dp : Rel) : Bool := dp.cur && (t == .path || (t == .sync && dp == .eq))

/-- `normalize_path_separators(translated) == sync[dest].path` (state.py 1006-1009: a trailing separator is dropped) -/
def TrAns.normEqPath (t : TrAns) (dp : Rel) : Bool := dp.cur && (t == .path || ((t == .sync || t == .alt) && dp == .eq))

/-- `sync[dest].sync_path == translated` -/
def TrAns.eqSync (t : TrAns) (dp : Rel) : Bool := dp.sync && (t == .sync || (t == .path && dp == .eq))

/-- `providers[dest].paths_match(translated, sync[dest].sync_path, for_display=True)` -/
def TrAns.matchSync (t : TrAns) (dp : Rel) : Bool := dp.sync && (t == .sync || t == .alt || (t == .path && dp == .eq))

/-- `translated > sync[dest].path` (string order) -/
def TrAns.gtPath (t : TrAns) (dp : Rel) : Bool := t == .gt || (t == .alt && dp == .eq)

/-- `translated < sync[dest].path` (string order) -/
def TrAns.ltPath (t : TrAns) (dp : Rel) : Bool := t == .lt || ((t == .sync || t == .alt) && dp != .eq)

/-- `providers[synced].delete(oid)` in `delete_synced` -/
inductive DelRes where
  | ok | fnf | notEmpty | temp      -- CloudFileNotFoundError / CloudFileExistsError / CloudTemporaryError
  deriving DecidableEq, Repr

/-- `download_changed(changed, sync)` (manager.py 512-542) -/
inductive DlRes where
  | ok            -- True
  | fail          -- False (FileNotFoundError on the temp file)
  | failMissing   -- False after CloudFileNotFoundError: `sync[changed].exists = MISSING`
  | corrupt       -- raises CloudCorruptError
  | temp          -- raises CloudTemporaryError
  deriving DecidableEq, Repr

/-- `upload_synced(changed, sync)` (manager.py 646-696) -/
inductive UpRes where
  | ok | fail
  | failMissing   -- False after CloudFileNotFoundError and no info: `sync[synced].exists = MISSING`
  | nameErr       -- True after CloudFileNameError: `sync.ignore(IRRELEVANT)`
  | corrupt | temp
  deriving DecidableEq, Repr

/-- `mkdir_synced(changed, sync, translated_path)` (manager.py 601-644) -/
inductive MkRes where
  | ok | punt
  | none_         -- falls off the end after CloudFileExistsError (`sync.mark_dirty(synced)`): returns `None`
  | nameErr       -- FINISHED after `handle_file_name_error`
  | temp
  deriving DecidableEq, Repr

/-- `create_synced(changed, sync, translated_path)` (manager.py 750-781) -/
inductive CrRes where
  | ok | punt
  | nameErr       -- FINISHED after `handle_file_name_error`
  | corrupt       -- raises CloudCorruptError
  | tooMany       -- raises CloudTooManyRetriesError (from `handle_cloud_file_not_found_error`)
  | temp
  deriving DecidableEq, Repr

/-- `providers[synced].rename(oid, translated_path)` in `handle_rename` -/
inductive RenRes where
  | ok | fnf | nameErr | exists_ | temp
  deriving DecidableEq, Repr

/-- `providers[changed].info_oid(oid)` in `check_revivify` -/
inductive RevInfo where
  | none | noPath | path
  deriving DecidableEq, Repr

structure Oracle where
  trL : TrAns           -- `translate(LOCAL, sync[REMOTE].path)`
  trR : TrAns           -- `translate(REMOTE, sync[LOCAL].path)`
  inRoot : Bool         -- `providers[changed].is_subpath_of_root(sync[changed].path)` (manager.py 1429)
  nameConfl : Bool      -- `"conflicted" in sync[changed].path` (1448)
  parentConfl : Bool    -- `_get_parent_conflict(sync, changed)` finds a flagged, existing ancestor (1455)
  pcPrio : Int          -- that ancestor's priority, in tenths
  rdc : Bool            -- `check_rename_is_delete_create(sync, changed)` returns FINISHED (1486-1489)
  delCreate : Bool      -- another entry at `sync[changed].path` is a creation on the synced side (1035-1039)
  delRename : Bool      -- another entry at the translated path is a rename on the synced side (1048-1052)
  del : DelRes
  kidsNeedSync : Bool   -- some child entry `needs_sync()` (1076-1079)
  remaining : Bool      -- `providers[synced].listdir(oid)` is not empty (1084-1090)
  dl : DlRes
  up : UpRes
  childConfl : Bool     -- `_get_child_conflict(sync, changed)` is not empty (1198)
  disjoint : Bool       -- `check_disjoint_create(...)` (1229)
  mkd : MkRes
  cr : CrRes
  ren : RenRes
  rcEnt : Bool          -- another entry at the rename target (1307-1310)
  rcNeedsSync : Bool    -- a side of that entry `needs_sync()` (1313)
  rcDelExists : Bool    -- deleting it raises CloudFileExistsError (1325)
  fixFnf : Bool         -- the first `rename_to_fix_conflict` raises CloudFileNotFoundError (1333)
  hcTemp : Bool         -- `handle_hash_conflict` lets a CloudTemporaryError escape (1626-1632)
  revOtherL : Bool      -- `state.lookup_oid(LOCAL, oid)` is a different entry (330-332)
  revOtherR : Bool
  revInfoL : RevInfo
  revInfoR : RevInfo
  revTrL : Bool         -- `translate(REMOTE, <path the LOCAL provider reports>)` is truthy (339)
  revTrR : Bool
  deriving DecidableEq, Repr

/-- the answer toward side `d` -/
def Oracle.tr (o : Oracle) : Sd → TrAns
  | .loc => o.trL
  | .rem => o.trR

def Oracle.revOther (o : Oracle) : Sd → Bool
  | .loc => o.revOtherL
  | .rem => o.revOtherR

def Oracle.revInfo (o : Oracle) : Sd → RevInfo
  | .loc => o.revInfoL
  | .rem => o.revInfoR

def Oracle.revTr (o : Oracle) : Sd → Bool
  | .loc => o.revTrL
  | .rem => o.revTrR

/-- `self.translate(d, sync[d.other].path)`: manager.py 155, a falsy path translates to None -/
def translate (o : Oracle) (e : Entry) (d : Sd) : TrAns :=
  if (e.get d.other).p.cur then o.tr d else .none

/-! ### results -/

inductive Ret where
  | finished | punt | requeue
  | none_               -- Python `None`
  deriving DecidableEq, Repr

inductive Exc where
  | assertion | typeError | temp | tooMany | corrupt
  deriving DecidableEq, Repr

inductive Out where
  | ret (r : Ret)
  | raised (x : Exc)
  deriving DecidableEq, Repr

/-- leaf calls, in the order the code makes them; the side is the side the call is ADDRESSED to -/
inductive Eff where
  | hashConflict              -- `handle_hash_conflict(sync)`
  | split                     -- `state.split(sync)`
  | fin (s : Sd)              -- `self.finished(s, sync)`
  | punt                      -- `sync.punt()`
  | notifyCorrupt (s : Sd)    -- SYNC_CORRUPT_IGNORED for side s
  | notifyDiscarded (s : Sd)  -- SYNC_DISCARDED for side s
  | getLatest                 -- `sync.get_latest()`
  | getLatestForce            -- `sync.get_latest(force=True)`
  | reprioritise              -- parent conflict: `conflict[changed].set_aged()` and the two priorities
  | delete (s : Sd)           -- `providers[s].delete(sync[s].oid)`
  | listdir (s : Sd)          -- `providers[s].listdir(sync[s].oid)` (+ `state.update` of what is found)
  | forceKids (s : Sd)        -- `set_force_sync()` on the children of side s
  | download (s : Sd)         -- `download_changed(s, sync)`: reads from side s
  | upload (s : Sd)           -- `upload_synced`: overwrites `sync[s].oid` on side s
  | create (s : Sd)           -- `create_synced`: new file on side s
  | mkdir (s : Sd)            -- `mkdir_synced`: new folder on side s
  | rename (s : Sd)           -- `providers[s].rename(sync[s].oid, translated_path)`
  | checkDisjoint             -- `check_disjoint_create`
  | fnfHandler                -- `handle_cloud_file_not_found_error`
  | nameError (s : Sd)        -- `handle_file_name_error(sync, s, ...)`
  | deleteOther (s : Sd)      -- `providers[s].delete(conflict[s].oid)`: ANOTHER entry's object (1316)
  | conflictRename (s : Sd)   -- `rename_to_fix_conflict(sync, s, translated_path, temp_rename=True)`
  deriving DecidableEq, Repr

/-- calls that change what a provider holds -/
def Eff.isWrite : Eff → Bool
  | .delete _ | .upload _ | .create _ | .mkdir _ | .rename _ | .deleteOther _ | .conflictRename _ => true
  | .hashConflict => true     -- the resolver path uploads / renames
  | _ => false

/-- the side a provider write is addressed to -/
def Eff.target : Eff → Option Sd
  | .delete s | .upload s | .create s | .mkdir s | .rename s | .deleteOther s | .conflictRename s => some s
  | _ => none

structure Res where
  out : Out
  effs : List Eff
  ent : Entry
  deriving DecidableEq, Repr

def Res.pre (fx : List Eff) (r : Res) : Res := { r with effs := fx ++ r.effs }

/-! ### `SyncState.split` (state.py 1326-1365) as seen from the entry that is split

`replace_ent[LOCAL] = ent[LOCAL]` moves the LOCAL side to a new entry (the old side state loses path and id,
state.py 415-416); `defer_ent[LOCAL].clear()`; the REMOTE side is stamped changed and loses its sync_path. -/
def splitEntry (e : Entry) : Except Exc Entry :=
  if !e.l.oid then .error .assertion                      -- `assert ent[replace].oid` (1334)
  else
    let e := { e with l := { e.l with p := e.l.p.clearCur, oid := false } }
    let e := e.clearSide .loc                             -- 1345
    let e := e.setChanged .rem .now                       -- 1351
    .ok { e with r := { e.r with p := e.r.p.clearSync } } -- 1357

/-! ### `SyncManager.path_conflict` (manager.py 289-317) -/

def pathConflict (o : Oracle) (e : Entry) : Bool :=
  if !(e.l.p.cur && e.r.p.cur) then false                                         -- 294-296
  else if !(((e.l.h.sync && e.r.h.sync) || (e.l.otype == .dir && e.r.otype == .dir))
            && e.l.p.sync && e.r.p.sync) then false                               -- 300-304
  else if !(e.l.ex == .present && e.r.ex == .present) then false                  -- 306-309
  else if (translate o e .rem).eqPath e.r.p then false                            -- 311-313
  else !e.l.p.same && !e.r.p.same && e.ign != .tempRename                         -- 315-317

/-! ### the transfer leaves (summaries) -/

inductive DlOut where
  | ok | fail | corrupt | temp
  deriving DecidableEq, Repr

def download (o : Oracle) (e : Entry) (c : Sd) : DlOut × Entry :=
  match o.dl with
  | .ok => (.ok, e)
  | .fail => (.fail, e)
  | .failMissing => (.fail, e.set c ((e.get c).setEx .missing))                   -- 541
  | .corrupt => (.corrupt, e)
  | .temp => (.temp, e)

/-- success of `upload_synced` (manager.py 656-665) -/
def uploadOk (e : Entry) (c : Sd) : Entry :=
  let s := c.other
  let sy := (e.get s).newHashSynced                                               -- 656-657
  let sy := if !sy.p.sync then { sy with p := sy.p.setSync } else sy              -- 658-659 (info.path = the object's path)
  let me := e.get c
  let e := e.set c { me with h := me.h.setSync, p := me.p.setSync }               -- 660-661
  let moved := sy.p == .ns || sy.p == .ne                                         -- 663: update_entry(oid=…, path=sync_path, exists=True)
  let sy := { sy with oid := true }
  let sy := if sy.p.sync then { sy with p := .eq } else sy
  (e.set s sy.existsTrue).pathMoved moved

/-- success of `_create_synced` (manager.py 726-733); `t` = the translated path the file was created at -/
def createOk (e : Entry) (c : Sd) (t : TrAns) : Entry :=
  let s := c.other
  let me := e.get c
  let e := e.set c { me with h := me.h.setSync, p := me.p.setSync }               -- 731-732
  let moved := !t.normEqPath (e.get s).p
  let sy := (e.get s).newHashSynced                                               -- 726, 733 (hash=info.hash)
  (e.set s ({ sy with oid := true, p := .eq }).existsTrue).pathMoved moved        -- 727-730, 733

/-- success of `unsafe_mkdir_synced` (manager.py 593-599) -/
def mkdirOk (e : Entry) (c : Sd) (t : TrAns) : Entry :=
  let s := c.other
  let me := e.get c
  let e := e.set c { me with p := me.p.setSync }                                  -- 594
  let moved := !t.normEqPath (e.get s).p
  (e.set s ({ e.get s with oid := true, p := .eq }).existsTrue).pathMoved moved   -- 593, 596-597

/-! ### `handle_corrupt` (manager.py 1261-1278) -/

def handleCorrupt (e : Entry) (s : Sd) : Res :=
  let me := e.get s
  let me := { me with h := me.h.setSync, p := me.p.setSync }                      -- 1272-1273
  let e := e.set s (me.setEx .corrupt)                                            -- 1274
  ⟨.ret .finished, [.notifyCorrupt s], e.setChanged s.other .now⟩                 -- 1277-1278

/-! ### `handle_changed_is_missing` (manager.py 1557-1574) -/

def handleMissing (e : Entry) (c : Sd) : Res :=
  let s := c.other
  if (e.get s).ex == .present then                                                -- 1560
    if e.prio ≤ 40 then ⟨.ret .punt, [], e⟩                                       -- 1561-1563
    else
      let e := e.clearSide c                                                      -- 1568
      let sy := e.get s
      let e := e.set s { sy with p := sy.p.clearSync, h := sy.h.clearSync }       -- 1569-1570
      ⟨.ret .finished, [], e.forceSync s⟩                                         -- 1571, 1574
  else ⟨.ret .finished, [], e⟩

/-! ### `handle_hash_diff` (manager.py 1576-1611) -/

/-- 1585-1593: "zero out trashed side turning the 'upload' into a 'create'" -/
def zeroPeer (e : Entry) (c : Sd) : Entry :=
  let s := c.other
  let e := e.set s ((e.get s).setEx .unknown)                                     -- 1585
  let e := e.set s (e.get s).clearHash                                            -- 1586
  let e := e.setChanged s .zero                                                   -- 1587
  let sy := e.get s
  let e := e.set s { sy with p := .nn, oid := false, h := sy.h.clearSync }        -- 1588-1591
  let me := e.get c
  e.set c { me with p := me.p.clearSync, h := me.h.clearSync }                    -- 1592-1593

def hashDiff (o : Oracle) (e : Entry) (c : Sd) : Res :=
  let s := c.other
  if !(e.get c).p.cur then ⟨.ret .finished, [], e⟩                                -- 1577-1578
  else if (e.get s).ex == .trashed || (e.get s).ex == .missing || !(e.get s).oid then
    ⟨.ret .punt, [], zeroPeer e c⟩                                                -- 1580-1594
  else
    match download o e c with                                                     -- 1601
    | (.fail, e) => ⟨.ret .punt, [.download c], e⟩                                -- 1602-1603
    | (.corrupt, e) => (handleCorrupt e c).pre [.download c]                      -- 1606-1609
    | (.temp, e) => ⟨.raised .temp, [.download c], e⟩
    | (.ok, e) =>
      match o.up with                                                             -- 1604
      | .ok => ⟨.ret .finished, [.download c, .upload s], uploadOk e c⟩
      | .fail => ⟨.ret .punt, [.download c, .upload s], e⟩
      | .failMissing => ⟨.ret .punt, [.download c, .upload s], e.set s ((e.get s).setEx .missing)⟩
      | .nameErr => ⟨.ret .finished, [.download c, .upload s], e.setIgn .irrelevant⟩
      | .corrupt => (handleCorrupt e c).pre [.download c, .upload s]
      | .temp => ⟨.raised .temp, [.download c, .upload s], e⟩

/-! ### `delete_synced` (manager.py 1029-1070) and `_handle_dir_delete_not_empty` (1072-1109) -/

def dirNotEmpty (o : Oracle) (e : Entry) (c : Sd) : Res :=
  let s := c.other
  if e.prio > 0 then                                                              -- 1074
    if !o.kidsNeedSync then                                                       -- 1075-1080
      if o.remaining && e.prio < 100 then ⟨.ret .punt, [.listdir s], e⟩           -- 1090-1093
      else ⟨.ret .finished, [.listdir s], e⟩                                      -- 1094-1096
    else ⟨.ret .punt, [], e⟩                                                      -- 1097-1099
  else ⟨.ret .punt, [.forceKids c], e.forceSync c⟩                                -- 1101-1109

/-- 1066-1070 -/
def deleteTail (e : Entry) (c : Sd) (reason : Ign) (fx : List Eff) : Res :=
  let s := c.other
  let e := e.set s ((e.get s).setEx .trashed)                                     -- 1066
  let e := if e.ign != .conflict then e.setIgn reason else e                      -- 1067-1069
  ⟨.ret .finished, fx, e⟩

def deleteSynced (o : Oracle) (e : Entry) (c : Sd) (reason : Ign) : Res :=
  let s := c.other
  if o.delCreate then ⟨.ret .finished, [], e.setIgn reason⟩                       -- 1035-1039
  else if (translate o e s).some && o.delRename then ⟨.ret .finished, [], e.setIgn reason⟩   -- 1042-1052
  else if (e.get s).oid then                                                      -- 1054
    match o.del with
    | .ok => let me := e.get c
             deleteTail (e.set c { me with p := me.p.clearSync }) c reason [.delete s]   -- 1057-1058
    | .fnf => deleteTail e c reason [.delete s]                                   -- 1059-1060
    | .notEmpty => (dirNotEmpty o e c).pre [.delete s]                            -- 1061-1062
    | .temp => ⟨.raised .temp, [.delete s], e⟩
  else deleteTail e c reason []                                                   -- 1063-1064

/-! ### `handle_rename` (manager.py 1280-1345) -/

/-- `handle_cloud_file_not_found_error` (783-832) with no parent entry and no parent object: the retry cap, else PUNT -/
def fnfOut (e : Entry) : Out := if e.prio > 50 then .raised .tooMany else .ret .punt

/-- 1331-1338: `rename_to_fix_conflict` is called, and then called AGAIN unconditionally -/
def renameFix (o : Oracle) (s : Sd) : List Eff :=
  if o.fixFnf then [.conflictRename s, .getLatestForce, .conflictRename s] else [.conflictRename s, .conflictRename s]

def handleRename (o : Oracle) (e : Entry) (c : Sd) : Res :=
  let s := c.other
  let t := o.tr s
  let sy := e.get s
  if t.eqSync sy.p then ⟨.ret .finished, [], e⟩                                   -- 1284-1285
  else if !(sy.h.sync || sy.otype == .dir) then ⟨.raised .assertion, [], e⟩       -- 1287
  else if t.matchSync sy.p then ⟨.ret .finished, [], e⟩                           -- 1289-1291
  else
    match o.ren with                                                              -- 1295
    | .fnf => ⟨fnfOut e, [.rename s, .fnfHandler], e⟩                             -- 1296-1298
    | .nameErr => ⟨.ret .finished, [.rename s, .nameError s], e.setIgn .irrelevant⟩   -- 1299-1301
    | .temp => ⟨.raised .temp, [.rename s], e⟩
    | .exists_ =>                                                                 -- 1302-1340
      if e.prio ≤ 0 then ⟨.ret .punt, [.rename s, .getLatestForce], e⟩            -- 1304-1305
      else
        if o.rcEnt && !o.rcNeedsSync then                                         -- 1310-1313
          if !o.rcDelExists then ⟨.ret .punt, [.rename s, .deleteOther s], e⟩     -- 1316-1324
          else ⟨.ret .punt, [.rename s, .deleteOther s] ++ renameFix o s, e⟩      -- 1325-1326
        else ⟨.ret .punt, .rename s :: renameFix o s, e⟩
    | .ok =>                                                                      -- 1342-1345
      let me := e.get c
      let e := e.set c { me with p := me.p.setSync }
      if !t.some then                  -- a `None` target: `sync_path = None`, `update_entry(path=None)` leaves the path alone
        ⟨.ret .finished, [.rename s], e.set s ({ sy with oid := true, p := sy.p.clearSync }).existsTrue⟩
      else
      ⟨.ret .finished, [.rename s], (e.set s ({ sy with oid := true, p := .eq }).existsTrue).pathMoved (!t.normEqPath sy.p)⟩

/-! ### `handle_path_change_or_creation` (manager.py 1181-1259) -/

/-- 1222-1259 -/
def hpccRest (o : Oracle) (e : Entry) (c : Sd) : Res :=
  let s := c.other
  if isCreation e c && e.prio == 0 && (e.get s).ex == .missing then ⟨.ret .punt, [], e⟩   -- 1222-1224
  else if isCreation e c && o.disjoint then ⟨.ret .punt, [.checkDisjoint], e⟩     -- 1226-1231
  else if isCreation e c then                                                     -- 1233
    if (e.get c).otype == .dir then                                               -- 1236-1237
      match o.mkd with
      | .ok => ⟨.ret .finished, [.checkDisjoint, .mkdir s], mkdirOk e c (o.tr s)⟩
      | .punt => ⟨.ret .punt, [.checkDisjoint, .mkdir s], e⟩
      | .none_ => ⟨.ret .none_, [.checkDisjoint, .mkdir s], e⟩
      | .nameErr => ⟨.ret .finished, [.checkDisjoint, .mkdir s], e.setIgn .irrelevant⟩
      | .temp => ⟨.raised .temp, [.checkDisjoint, .mkdir s], e⟩
    else
      match download o e c with                                                   -- 1238-1244
      | (.fail, e) => ⟨.ret .punt, [.checkDisjoint, .download c], e⟩
      | (.corrupt, e) => (handleCorrupt e c).pre [.checkDisjoint, .download c]
      | (.temp, e) => ⟨.raised .temp, [.checkDisjoint, .download c], e⟩
      | (.ok, e) =>
        match o.cr with                                                           -- 1246-1253
        | .ok => ⟨.ret .finished, [.checkDisjoint, .download c, .create s], createOk e c (o.tr s)⟩
        | .punt => ⟨.ret .punt, [.checkDisjoint, .download c, .create s], e⟩
        | .nameErr => ⟨.ret .finished, [.checkDisjoint, .download c, .create s], e.setIgn .irrelevant⟩
        | .corrupt => (handleCorrupt e c).pre [.checkDisjoint, .download c, .create s]
        | .tooMany => ⟨.raised .tooMany, [.checkDisjoint, .download c, .create s], e⟩
        | .temp => ⟨.raised .temp, [.checkDisjoint, .download c, .create s], e⟩
  else if !(e.get c).isCorrupt then handleRename o e c                            -- 1255-1256
  else ⟨.ret .finished, [], e⟩                                                    -- 1257-1259

def hpcc (o : Oracle) (e : Entry) (c : Sd) : Res :=
  let s := c.other
  if !(translate o e s).some then ⟨.ret .finished, [], e⟩                         -- 1182-1185
  else if (e.get c).p.sync && (e.get s).ex == .trashed then                       -- 1190: the peer was trashed after the last sync
    if e.prio ≤ 0 then ⟨.ret .punt, [], e⟩                                        -- 1192-1194
    else if (e.get s).changed && !((e.get c).otype == .dir && o.childConfl) && (e.get c).h.same then   -- 1196-1203, 1213
      ⟨.ret .punt, [], e.setChanged c .afterPeer⟩                                 -- 1214-1216
    else hpccRest o (e.clearSide s) c                                             -- 1219
  else hpccRest o e c

/-! ### `embrace_change` (manager.py 1417-1517) -/

/-- 1513-1517 -/
def embraceHash (o : Oracle) (e : Entry) (c : Sd) (fx : List Eff) : Res :=
  let s := c.other
  if !(e.get c).h.same || ((e.get s).isCorrupt && !(e.get s).corruptGone) then (hashDiff o e c).pre fx   -- 1513-1514
  else ⟨.ret .finished, fx, e⟩                                                    -- 1516-1517

/-- 1501-1517: after the tombstone branches -/
def embraceTail (o : Oracle) (e : Entry) (c : Sd) : Res :=
  if isPathChange e c || isCreation e c then                                      -- 1501
    let r := hpcc o e c
    match r.out with
    | .raised _ => r
    | .ret .punt => r                                                             -- 1504-1506
    | .ret _ => if r.ent.ign.isDiscarded then { r with out := .ret .finished }    -- 1508-1509
                else embraceHash o r.ent c r.effs                                 -- "fall through in case of hash change"
  else embraceHash o e c []

/-- 1453-1517 -/
def embraceMain (o : Oracle) (e : Entry) (c : Sd) (fx : List Eff) : Res :=
  let s := c.other
  -- 1453-1484: parent conflict
  if (e.get c).p.cur && (e.get c).ex == .present && !isDeletion e c && o.parentConfl then
    let m := min e.prio o.pcPrio                                                  -- 1465
    let e := if m < 0 then e.setPrio m else e.setPrio (m + 1)                     -- 1466-1471
    let e := if isPathChange e c && (e.get s).ex == .trashed && e.prio > 20 then e.setChanged s .oldest else e   -- 1474-1482
    ⟨.ret .requeue, fx ++ [.reprioritise], e⟩                                     -- 1484
  else if o.rdc then ⟨.ret .finished, fx, e⟩                                      -- 1486-1489
  else if (e.get c).ex == .trashed then                                           -- 1491
    if isCreation e s && (e.get s).otype == .file && (e.get s).changed then ⟨.ret .finished, fx, e⟩   -- 1492-1494
    else (deleteSynced o e c .discarded).pre fx                                   -- 1496
  else if (e.get c).ex == .missing then (handleMissing e c).pre fx                -- 1498-1499
  else (embraceTail o e c).pre fx

/-- 1442-1451, then the rest -/
def embraceBody (o : Oracle) (e : Entry) (c : Sd) (fx : List Eff) : Res :=
  if e.ign.isDiscarded then ⟨.ret .finished, fx, e⟩                               -- 1442-1444
  else if e.ign == .conflict then                                                 -- 1446
    if !(e.get c).p.cur then ⟨.raised .typeError, fx, e⟩                          -- `"conflicted" in None`
    else if o.nameConfl then ⟨.ret .finished, fx, e⟩                              -- 1448-1449
    else embraceMain o (e.setIgn .no) c fx                                        -- 1451
  else embraceMain o e c fx

/-- 1432-1435: "Removing remnants of file moved out of cloud root" -/
def embraceMovedOut (o : Oracle) (e : Entry) (c : Sd) : Res :=
  let r := deleteSynced o e c .irrelevant                                         -- 1432
  match r.out with
  | .ret .finished =>                                                             -- 1433-1434
    match splitEntry r.ent with
    | .ok e' => ⟨.ret .finished, .notifyDiscarded c :: r.effs ++ [.split], e'⟩
    | .error x => ⟨.raised x, .notifyDiscarded c :: r.effs ++ [.split], r.ent⟩
  | _ => r.pre [.notifyDiscarded c]                                               -- 1435

def embrace (o : Oracle) (e : Entry) (c : Sd) : Res :=
  let s := c.other
  let me := e.get c
  if (me.p.cur || me.ex == .present) && !(translate o e s).some then              -- 1420-1422
    if me.p.sync && !o.inRoot then embraceMovedOut o e c                          -- 1429
    else embraceBody o (e.setIgn .irrelevant) c [.notifyDiscarded c]              -- 1440
  else embraceBody o e c []

/-! ### `SyncManager.sync` (manager.py 372-464) -/

inductive Step where
  | cont (e : Entry) (fx : List Eff)                  -- `continue`
  | brk (done : Bool) (e : Entry) (fx : List Eff)     -- `break` with `something_got_done`
  | raised (x : Exc) (e : Entry) (fx : List Eff)

/-- 439-462 -/
def dispatch (o : Oracle) (e : Entry) (side : Sd) (fx : List Eff) : Step :=
  let resp : Res :=
    if (e.get side).corruptGone then ⟨.ret .finished, [.notifyCorrupt side], e⟩   -- 440-444
    else
      let r := embrace o e side                                                   -- 446
      match r.out with
      | .raised .tooMany => { r with out := .ret .finished }                      -- 447-451
      | _ => r
  match resp.out with
  | .raised x => .raised x resp.ent (fx ++ resp.effs)
  | .ret .finished => .brk true (finished resp.ent side) (fx ++ resp.effs ++ [.fin side])    -- 453-455
  | .ret .punt => .brk false resp.ent.punt (fx ++ resp.effs ++ [.punt])                -- 456-458
  | .ret _ => .brk false resp.ent (fx ++ resp.effs)                               -- 459-461

/-- one iteration of the loop at 386-462 -/
def syncSide (o : Oracle) (e : Entry) (side : Sd) : Step :=
  let other := side.other
  let me := e.get side
  let ot := e.get other
  if !me.needsSync && !(me.changed && ot.isCorrupt) then                          -- 389-397
    .cont (if me.changed then e.setChanged side .zero else e) []
  else if !me.h.cur && me.otype == .file && me.ex == .present then                -- 399-403
    .brk true (finished e side) [.fin side]
  else if !me.oid && me.ex != .trashed then                                       -- 405-408
    .cont (finished e side) [.fin side]
  else if me.h.same && ot.changed && !ot.h.same then .cont e []                   -- 411-414
  else if pathConflict o e then                                                   -- 416
    let mine := translate o e other                                               -- my_name_there
    let theirs := translate o e side                                              -- their_name_here
    let pending := !me.h.same && (!ot.changed || ot.h.same)                       -- 425-427
    if mine.some && theirs.some && !pending then                                  -- 430
      if mine.gtPath ot.p && theirs.ltPath me.p && ot.needsSync then .cont e []   -- 432-435
      else dispatch o e side []
    else
      match splitEntry e with                                                     -- 437
      | .ok e' => dispatch o e' side [.split]
      | .error x => .raised x e [.split]
  else dispatch o e side []

structure SRes where
  done : Except Exc Bool
  effs : List Eff
  ent : Entry
  deriving Repr

/-- the side processed first: `sorted((LOCAL, REMOTE), key=lambda e: sync[e].changed or 0)` (382), a stable sort -/
def firstSide (e : Entry) : Sd := if !e.l.changed || (e.r.changed && e.lLeR) then .loc else .rem

/-- `sync` BEFORE the confinement fix (`fix: … _unlink_peer_that_left_sync`), and the remaining branches of `sync` after it
    (manager.py 404-491) -/
def syncPre (o : Oracle) (e : Entry) : SRes :=
  if hashConflict e then                                                          -- 404-407
    if o.hcTemp then ⟨.error .temp, [.hashConflict], e⟩ else ⟨.ok true, [.hashConflict], e⟩
  else
    let s1 := firstSide e
    match syncSide o e s1 with
    | .brk d e fx => ⟨.ok d, fx, e⟩
    | .raised x e fx => ⟨.error x, fx, e⟩
    | .cont e fx =>
      match syncSide o e s1.other with
      | .brk d e fx2 => ⟨.ok d, fx ++ fx2, e⟩
      | .raised x e fx2 => ⟨.error x, fx ++ fx2, e⟩
      | .cont e fx2 => ⟨.ok true, fx ++ fx2, e⟩                                   -- 384, 464

/-- `SyncManager._left_sync(sync, side)` (manager.py 372-378): the side's object is live (id, path, EXISTS) and its path no longer
    translates to the other side — it was moved out of the sync root -/
def leftSync (o : Oracle) (e : Entry) (s : Sd) : Bool :=
  let x := e.get s
  x.oid && x.p.cur && x.ex == .present && !(o.tr s.other).some

/-- the test of `_unlink_peer_that_left_sync` (380-394): both ids, not discarded, and for some side the OTHER side left the root
    while this side has a change of its own to propagate -/
def unlinks (o : Oracle) (e : Entry) : Bool :=
  e.l.oid && e.r.oid && !e.ign.isDiscarded &&
    ((leftSync o e .rem && e.l.needsSync) || (leftSync o e .loc && e.r.needsSync))

/-- `SyncManager.sync` (manager.py 396-491).  New FIRST step (400-402): a peer that left the sync root is unlinked by
    `state.split(sync)` and the round ends with False; nothing is written. -/
def sync (o : Oracle) (e : Entry) : SRes :=
  if unlinks o e then
    match splitEntry e with
    | .ok e' => ⟨.ok false, [.split], e'⟩
    | .error x => ⟨.error x, [.split], e⟩          -- not reached: `unlinks` asks for LOCAL's id
  else syncPre o e

/-! ### `check_revivify`, `pre_sync` (manager.py 319-370), `_sync_one_entry` (180-203) -/

def revivifySide (o : Oracle) (e : Entry) (i : Sd) : Entry :=
  let se := e.get i
  if !se.changed || se.p.sync || !se.oid || e.ign == .conflict then e            -- 328-329
  else if o.revOther i then e                                                     -- 330-332
  else if o.revInfo i != .path then e                                             -- 333-338
  else if e.ign == .irrelevant && o.revTr i then                                  -- 339-340
    let e := { e with ign := .no }                                                -- 343
    let x := e.get i
    let e := e.set i { x with p := x.p.clearSync }                                -- 344
    let e := e.setChanged i .now                                                  -- 345
    e.clearSide i.other                                                           -- 346
  else e

def checkRevivify (o : Oracle) (e : Entry) : Entry :=
  if e.ign.isDiscarded then revivifySide o (revivifySide o e .loc) .rem else e

/-- returns (`pre_sync`'s result, effects, entry) -/
def preSync (o : Oracle) (e : Entry) : Bool × List Eff × Entry :=
  let e := checkRevivify o e                                                      -- 349
  if e.ign.isDiscarded then (true, [.fin .loc, .fin .rem], finished (finished e .loc) .rem)   -- 351-354
  else (false, [.getLatest], e)                                                   -- 369-370

inductive OneOut where
  | done (b : Bool)       -- `_sync_one_entry` returns `something_got_done`
  | backoff               -- an exception: the entry is punted and `self.backoff()` raises
  deriving DecidableEq, Repr

def syncOne (o : Oracle) (e : Entry) : OneOut × List Eff × Entry :=
  match preSync o e with
  | (true, fx, e) => (.done true, fx, e)
  | (false, fx, e) =>
    let r := sync o e
    match r.done with
    | .ok b => (.done b, fx ++ r.effs, r.ent)
    | .error _ => (.backoff, fx ++ r.effs ++ [.punt], r.ent.punt)                      -- 187-202

end CS.Engine
