/-
Reference file tree: the *specification* a provider is compared with (C16).

A tree maps a folded path (a list of names, case-folded when the provider is case insensitive)
to a node: a file with opaque content or a directory, together with the display path the object
was given when it was created or last renamed.  The root is the node at the empty path `[]` and
is an ordinary directory node.

Every mutating or reading provider call has a documented result or error class:

  create   Name (bad leaf name) | Exists (something lives at the path, or the parent is a file)
           | NotFound (parent missing) | info of the new file
  mkdir    NotFound/Exists (parent) | Name | Exists (a file lives there) | path of the existing or
           new directory
  upload   NotFound (target missing) | Exists (target is a directory) | info
  download NotFound | Exists (directory) | the content
  delete   unit when the target is missing (no-op) | Exists when it is a non-empty directory
           (the code's class for "not empty", mock.py:608, filesystem.py:665) | unit
  rename   NotFound (source missing) | NotFound/Exists (parent of the destination) | Exists
           (destination occupied by a node of the other kind, by a file, or by a non-empty directory)
           | the new path; an empty directory at the destination is replaced; a directory moves
           with everything beneath it
  info / exists / listdir   read the same map

Targets are `Option Path`: `none` is an object id that resolves to nothing.
No Mathlib import: linked into the driver.
-/
namespace CS.Tree

abbrev Name := List Char
abbrev Path := List Name

inductive Kind where
  | file | dir
  deriving Repr, DecidableEq

inductive Err where
  | notFound     -- CloudFileNotFoundError
  | exists       -- CloudFileExistsError (also "directory not empty")
  | name         -- CloudFileNameError
  | other        -- anything else (never produced by the spec; the providers' internal failures)
  deriving Repr, DecidableEq

structure Cfg where
  cs        : Bool             -- case sensitive
  lower     : Char → Char      -- per-character case folding
  badName   : Name → Bool      -- names the provider refuses (forbidden characters, too long)
  nameFirst : Bool             -- `create` reports a bad name before looking at the tree (mock.py:457-459)

def foldName (cfg : Cfg) (n : Name) : Name := if cfg.cs then n else n.map cfg.lower
def fold (cfg : Cfg) (p : Path) : Path := p.map (foldName cfg)

structure Node (C : Type) where
  kind    : Kind
  content : Option C           -- `some` for files, `none` for directories
  disp    : Path               -- display path (as given at create / rename time)

abbrev T (C : Type) := List (Path × Node C)     -- key = folded path; at most one entry per key

def get {C} (t : T C) (k : Path) : Option (Node C) := (t.find? (fun e => e.1 == k)).map (·.2)

def erase {C} (t : T C) (k : Path) : T C := t.filter (fun e => !(e.1 == k))

def set {C} (t : T C) (k : Path) (n : Node C) : T C := erase t k ++ [(k, n)]

/-- entries directly beneath `k` -/
def children {C} (t : T C) (k : Path) : List (Path × Node C) :=
  t.filter (fun e => e.1.length == k.length + 1 && k.isPrefixOf e.1)

/-- every entry whose key has `src` as a prefix moves to the same place beneath `dst` -/
def move {C} (t : T C) (src dst dstDisp : Path) : T C :=
  t.map (fun e =>
    if src.isPrefixOf e.1 then
      (dst ++ e.1.drop src.length, { e.2 with disp := dstDisp ++ e.2.disp.drop src.length })
    else e)

structure Info (C : Type) where
  kind    : Kind
  content : Option C
  path    : Path
  name    : Name
  deriving Repr, DecidableEq

def infoOf {C} (n : Node C) : Info C :=
  { kind := n.kind, content := n.content, path := n.disp, name := n.disp.getLast?.getD [] }

inductive Res (C : Type) where
  | info (i : Info C)
  | none
  | path (p : Path)            -- mkdir / rename: where the object now is
  | unit
  | data (c : C)
  | bool (b : Bool)
  | list (l : List (Info C))
  | err (e : Err)
  deriving Repr, DecidableEq

/-- the parent of the new path must be a live directory; the root is never looked up
    (provider.py:619-628 `_verify_parent_folder_exists`: `if parent_path != self.sep`) -/
def parentCheck {C} (t : T C) (k : Path) : Option Err :=
  let par := k.dropLast
  if par.isEmpty then none
  else match get t par with
    | none => some .notFound
    | some n => if n.kind == .dir then none else some .exists

def leafBad (cfg : Cfg) (p : Path) : Bool := p.any cfg.badName

inductive Op (C : Type) where
  | create (p : Path) (data : C)
  | mkdir (p : Path)
  | upload (target : Option Path) (data : C)
  | download (target : Option Path)
  | rename (target : Option Path) (dst : Path)
  | delete (target : Option Path)
  | infoPath (p : Path)
  | infoOid (target : Option Path)
  | existsPath (p : Path)
  | existsOid (target : Option Path)
  | listdir (target : Option Path)
  deriving Repr

def lookupT {C} (cfg : Cfg) (t : T C) : Option Path → Option (Path × Node C)
  | none => none
  | some p => (get t (fold cfg p)).map (fun n => (fold cfg p, n))

def create {C} (cfg : Cfg) (t : T C) (p : Path) (data : C) : T C × Res C :=
  let k := fold cfg p
  if cfg.nameFirst && leafBad cfg p then (t, .err .name)
  else if (get t k).isSome then (t, .err .exists)
  else match parentCheck t k with
    | some e => (t, .err e)
    | none =>
      if leafBad cfg p then (t, .err .name)
      else
        let n : Node C := { kind := .file, content := some data, disp := p }
        (set t k n, .info (infoOf n))

def mkdir {C} (cfg : Cfg) (t : T C) (p : Path) : T C × Res C :=
  let k := fold cfg p
  match parentCheck t k with
  | some e => (t, .err e)
  | none =>
    if leafBad cfg p then (t, .err .name)
    else match get t k with
      | some n => if n.kind == .file then (t, .err .exists) else (t, .path n.disp)
      | none =>
        let n : Node C := { kind := .dir, content := none, disp := p }
        (set t k n, .path p)

def upload {C} (cfg : Cfg) (t : T C) (target : Option Path) (data : C) : T C × Res C :=
  match lookupT cfg t target with
  | none => (t, .err .notFound)
  | some (k, n) =>
    if n.kind == .dir then (t, .err .exists)
    else
      let n' := { n with content := some data }
      (set t k n', .info (infoOf n'))

def download {C} (cfg : Cfg) (t : T C) (target : Option Path) : T C × Res C :=
  match lookupT cfg t target with
  | none => (t, .err .notFound)
  | some (_, n) =>
    match n.kind, n.content with
    | .dir, _ => (t, .err .exists)
    | .file, some c => (t, .data c)
    | .file, none => (t, .err .other)      -- unreachable: files always carry content

def delete {C} (cfg : Cfg) (t : T C) (target : Option Path) : T C × Res C :=
  match lookupT cfg t target with
  | none => (t, .unit)
  | some (k, n) =>
    if n.kind == .dir && !(children t k).isEmpty then (t, .err .exists)
    else (erase t k, .unit)

/-- a rename is refused when the destination is occupied by a node of the other kind, by a file, or by a
    non-empty directory -/
def renameBlocked {C} (t : T C) (dk : Path) (sn : Node C) : Option (Node C) → Bool
  | none => false
  | some cn => cn.kind != sn.kind || cn.kind == .file || !(children t dk).isEmpty

def rename {C} (cfg : Cfg) (t : T C) (target : Option Path) (dst : Path) : T C × Res C :=
  match lookupT cfg t target with
  | none => (t, .err .notFound)
  | some (sk, sn) =>
    let dk := fold cfg dst
    -- whatever lives at the destination, unless it is the object itself
    let conflict := if dk == sk then none else get t dk
    match parentCheck t dk with
    | some e => (t, .err e)
    | none =>
      if renameBlocked t dk sn conflict then (t, .err .exists)
      else
        let t1 := if conflict.isSome then erase t dk else t
        if sn.disp == dst then (t1, .path dst)
        else if sn.kind == .file then (set (erase t1 sk) dk { sn with disp := dst }, .path dst)   -- a file moves alone
        else (move t1 sk dk dst, .path dst)

def listdir {C} (cfg : Cfg) (t : T C) (target : Option Path) : T C × Res C :=
  match lookupT cfg t target with
  | none => (t, .err .notFound)
  | some (k, n) =>
    if n.kind == .dir then (t, .list ((children t k).map (fun e => infoOf e.2)))
    else (t, .err .notFound)

def step {C} (cfg : Cfg) (t : T C) : Op C → T C × Res C
  | .create p d => create cfg t p d
  | .mkdir p => mkdir cfg t p
  | .upload tg d => upload cfg t tg d
  | .download tg => download cfg t tg
  | .rename tg dst => rename cfg t tg dst
  | .delete tg => delete cfg t tg
  | .infoPath p => (t, match get t (fold cfg p) with | some n => .info (infoOf n) | none => .none)
  | .infoOid tg => (t, match lookupT cfg t tg with | some (_, n) => .info (infoOf n) | none => .none)
  | .existsPath p => (t, .bool (get t (fold cfg p)).isSome)
  | .existsOid tg => (t, .bool (lookupT cfg t tg).isSome)
  | .listdir tg => listdir cfg t tg

/-- a fresh provider: just the root directory -/
def init {C} : T C := [([], { kind := .dir, content := none, disp := [] })]

end CS.Tree
