import Csverif.Model.Runnable
/-
Two-thread small-step model of `cloudsync/runnable.py` (class `Runnable`).

The *caller thread* executes `start()`, `stop(forever, wait)`, `wake()`, `wait(timeout)` statement by statement; the
*service thread* (created by `start()`, line 185-187) executes `run()` statement by statement.  A schedule is a list of
`Tick`s: each tick lets one of the two threads execute its next statement (or lets the idle caller begin a new API call)
and carries the nondeterministic inputs that statement may consume (whether a timed wait gives up, the outcome of `do()`,
the value of `until()`).  Every interleaving of the two threads at statement granularity is a schedule; reads of two
different shared flags inside one source line are separate steps (`r100`/`r100b`, `r119`/`r119b`/`r119c`).

One program counter per statement that touches a flag shared between the threads
    __stopping  __shutdown  __interrupt  __stopped  __thread
or calls `do()` / `done()`; these are exactly the rows of kind "S" in the statement table extracted from the source by
tools/gen_runnable_sites.py (Gen/RunnableSites.lean), and `auditedStmts` below is the copy of that table this model was
written from (Props/C18Sites.lean proves `Gen.runnableStmts = auditedStmts` and that the labels of the program counters are
the "S" rows in order).  Statements that touch only thread-local state of the service thread (`_run_until`, `service_name`,
`__log`, `__clear_on_success`, `in_backoff`: runnable.py 85-91, 104, 106-117, 122) are folded into the neighbouring step;
they commute with every step of the other thread.

The parameter `v : Prog` selects the program: `.head` is the source as it is; `.resetInRun` is the variant in which the reset
`self.__stopping = False` sits in `run()`'s prologue (after line 96, executed by the service thread) instead of in `start()`
(line 184, executed by the caller thread before the service thread exists); `.wakeTwice` is `wake()` as it was before fix fa2d0de
(the attribute `__interrupt` read twice).  The variants exist only to state, kernel-checked, why the placement / the single
read matters (Props/C18Threads.lean `variant_loses_stop`, `wake_twice_raises`).

Line numbers: the program counters are named after the lines of runnable.py as of 829af71; fix fa2d0de (wake() reads the event
once) inserted two lines at 167, so every statement from `wake()`'s body on now sits two lines further down (`start` 178 → 180, …).

Not modelled: more than one caller thread; `stop()` called from inside `do()` (the `current_thread() != thread` test of lines
207/234 is always true here); `run(timeout=...)`; `run()` called directly without `start()`.
-/
namespace CS.Runnable.Th
open CS.Runnable

/-- program counter of the service thread (`Runnable.run`, `Runnable.interruptable_sleep`); the name is the source line -/
inductive SPc where
  | none    -- no service thread has been started yet
  | r95     -- run 85-95 : (thread-local 85-91)  self.__interrupt = threading.Event()
  | r96     -- run 96    : self.__stopped = False
  | r96v    -- VARIANT only: self.__stopping = False   (the reset moved from start() into run()'s prologue)
  | r100    -- run 99-100: for …: if self.__stopping …
  | r100b   --            … or self.__shutdown: break
  | r105    -- run 104-117: self.__clear_on_success = True; self.do(); outcome handling (thread-local)
  | r119    -- run 119   : if self.__stopping …
  | r119b   --            … or self.__shutdown …
  | r119c   --            … or (until is not None and until()): break
  | s67     -- run 122-126 → interruptable_sleep 67: if self.__interrupt and …
  | s67w    --            … self.__interrupt.wait(secs)   (blocked)
  | s68     -- interruptable_sleep 68: self.__interrupt.clear()
  | f129    -- run 129 (finally): self.__stopping = False
  | f130    -- run 130: self.__stopped = True
  | f131    -- run 131: self.__interrupt = None
  | f140    -- run 140: if self.__shutdown:
  | f141    -- run 141:     self.done()
  | dead    -- run() has returned, the thread has exited
  deriving Repr, DecidableEq

/-- which call of `stop` a nested `wake()` / `wait()` returns into: `none` = called directly through the API -/
abbrev Ctx := Option (Bool × Bool)      -- (forever, wait)

/-- program counter of the caller thread -/
inductive CPc where
  | idle
  | a178                    -- start 176-178: if self.__shutdown: raise RuntimeError
  | a180                    -- start 180: if self.__thread and self.__thread.is_alive():
  | a181                    -- start 181:     self.__thread.join(timeout=1)
  | a181j                   --                (blocked in that join)
  | a182                    -- start 182-183: if self.__thread and self.__thread.is_alive(): raise RuntimeError
  | a184                    -- start 184: self.__stopping = False
  | a185                    -- start 185: self.__thread = threading.Thread(target=self.run, …)
  | a186                    -- start 186: self.__thread.name = self.service_name
  | a187                    -- start 187: self.__thread.start()
  | p202 (f w : Bool)       -- stop 202: self.__shutdown = forever
  | p203 (f w : Bool)       -- stop 203: self.__stopping = True
  | k167 (c : Ctx)          -- (stop 204 →) wake 168-171: interrupt = self.__interrupt; if interrupt is None: return
  | k170 (c : Ctx)          -- wake 172: interrupt.set()   (on the object read at 168; no second read of the attribute)
  | p205 (f w : Bool)       -- stop 205-209: thread = self.__thread; if thread: if current != thread: if wait: self.wait()
  | w233 (c : Ctx) (timed : Bool)   -- wait 233-234: thread = self.__thread; if thread and current != thread:
  | w235j (c : Ctx) (timed : Bool)  -- wait 235:     thread.join(timeout=timeout)   (blocked)
  | w236 (c : Ctx) (timed : Bool)   -- wait 236-238: if thread and thread.is_alive(): raise TimeoutError; return True
  deriving Repr, DecidableEq

/-- how the last API call of the caller thread ended (`none` while a call is in progress / before the first call) -/
inductive Ret where
  | none
  | startOk | startRefused | startAlready
  | stopRet (f w : Bool)
  | wakeRet
  | waitTrue | waitFalse | waitTimeout
  | attrErr                 -- AttributeError: 'NoneType' object has no attribute 'set'  (variant `wakeTwice` only)
  deriving Repr, DecidableEq

/-- `self.__thread` -/
inductive Thr where
  | none | created | started
  deriving Repr, DecidableEq

inductive Call where
  | start
  | stop (f w : Bool)
  | wake
  | wait (timed : Bool)
  deriving Repr, DecidableEq

structure St where
  svc      : SPc
  cal      : CPc
  stopping : Bool
  shutdown : Bool
  stopped  : Bool
  intr     : Intr
  thr      : Thr
  dos      : List Outcome     -- outcomes of the calls of do() so far, newest first
  nDone    : Nat              -- calls of done()
  nStart   : Nat              -- service threads started so far (line 187)
  nFinal   : Nat              -- executions of line 202 with forever = True so far
  ret      : Ret
  deriving Repr, DecidableEq

def init : St :=
  { svc := .none, cal := .idle, stopping := false, shutdown := false, stopped := false, intr := .absent, thr := .none,
    dos := [], nDone := 0, nStart := 0, nFinal := 0, ret := .none }

def nDo (s : St) : Nat := s.dos.length

def SPc.alive : SPc → Bool
  | .none | .dead => false
  | _ => true

def alive (s : St) : Bool := s.svc.alive

/-- which program is executed: the source as it is, or one of two *variant* programs kept to document, kernel-checked, why a
    statement is where / what it is -/
inductive Prog where
  | head          -- cloudsync/runnable.py as it is
  | resetInRun    -- `self.__stopping = False` executed by the service thread in run()'s prologue instead of by start() (line 184):
                  --   the seeded regression R3-C18
  | wakeTwice     -- wake() as it was before fix fa2d0de: `if self.__interrupt is None: …; self.__interrupt.set()`, two reads of the
                  --   attribute, the second one failing when run()'s finally block has set it to None in between
  deriving Repr, DecidableEq

def Prog.resets : Prog → Bool
  | .resetInRun => true
  | _ => false

def Prog.readsTwice : Prog → Bool
  | .wakeTwice => true
  | _ => false

inductive Tick where
  | c (tmo : Bool)                                -- caller thread: next statement (a timed join may give up iff `tmo`)
  | s (tmo : Bool) (o : Outcome) (untl : Bool)    -- service thread: next statement (sleep times out iff `tmo`; `o` = outcome of
                                                  --   do(); `untl` = "until is not None and until()")
  | call (k : Call)                               -- the idle caller thread begins an API call
  deriving Repr, DecidableEq

/-- one statement of the service thread; `none` = no such thread / blocked -/
def stepS (v : Prog) (s : St) (tmo : Bool) (o : Outcome) (untl : Bool) : Option St :=
  match s.svc with
  | .none | .dead => none
  | .r95 => some { s with intr := .clear, svc := .r96 }
  | .r96 => some { s with stopped := false, svc := if v.resets then .r96v else .r100 }
  | .r96v => if v.resets then some { s with stopping := false, svc := .r100 } else none   -- this statement exists in the variant only
  | .r100 => some { s with svc := if s.stopping then .f129 else .r100b }
  | .r100b => some { s with svc := if s.shutdown then .f129 else .r105 }
  | .r105 => some { s with dos := o :: s.dos, svc := .r119 }        -- whatever do() raises, the loop goes on (103-117)
  | .r119 => some { s with svc := if s.stopping then .f129 else .r119b }
  | .r119b => some { s with svc := if s.shutdown then .f129 else .r119c }
  | .r119c => some { s with svc := if untl then .f129 else .s67 }
  | .s67 => some { s with svc := if s.intr == .absent then .r100 else .s67w }
  | .s67w =>
    match s.intr with
    | .set => some { s with svc := .s68 }                            -- wait() returned True
    | _ => if tmo then some { s with svc := .r100 } else none      -- wait() timed out / still blocked
  | .s68 => some { s with intr := if s.intr == .absent then .absent else .clear, svc := .r100 }
  | .f129 => some { s with stopping := false, svc := .f130 }
  | .f130 => some { s with stopped := true, svc := .f131 }
  | .f131 => some { s with intr := .absent, svc := .f140 }
  | .f140 => some { s with svc := if s.shutdown then .f141 else .dead }
  | .f141 => some { s with nDone := s.nDone + 1, svc := .dead }

/-- `return` from wake(): back into stop() or to the API caller -/
def wakeReturn (s : St) : Ctx → St
  | none => { s with cal := .idle, ret := .wakeRet }
  | some (f, w) => { s with cal := .p205 f w }

/-- `return r` from wait() called through the API, or plain return into stop() (which ignores the value and returns) -/
def waitReturn (s : St) (r : Ret) : Ctx → St
  | none => { s with cal := .idle, ret := r }
  | some (f, w) => { s with cal := .idle, ret := .stopRet f w }

/-- one statement of the caller thread; `none` = idle / blocked in a join -/
def stepC (v : Prog) (s : St) (tmo : Bool) : Option St :=
  match s.cal with
  | .idle => none
  | .a178 => some (if s.shutdown then { s with cal := .idle, ret := .startRefused } else { s with cal := .a180 })
  | .a180 => some { s with cal := if s.thr != .none && alive s then .a181 else .a182 }
  | .a181 => some { s with cal := .a181j }
  | .a181j => if !alive s || tmo then some { s with cal := .a182 } else none
  | .a182 =>
    some (if s.thr != .none && alive s then { s with cal := .idle, ret := .startAlready }
          else { s with cal := if v.resets then .a185 else .a184 })
  | .a184 => some { s with stopping := false, cal := .a185 }
  | .a185 => some { s with thr := .created, cal := .a186 }
  | .a186 => some { s with cal := .a187 }
  | .a187 => some { s with thr := .started, svc := .r95, nStart := s.nStart + 1, cal := .idle, ret := .startOk }
  | .p202 f w => some { s with shutdown := f, nFinal := if f then s.nFinal + 1 else s.nFinal, cal := .p203 f w }
  | .p203 f w => some { s with stopping := true, cal := .k167 (some (f, w)) }
  | .k167 c => some (if s.intr == .absent then wakeReturn s c else { s with cal := .k170 c })
  | .k170 c =>
    some (if s.intr == .absent then
            (if v.readsTwice then { s with cal := .idle, ret := .attrErr }   -- pre-fix: None.set(); the exception leaves stop() too
             else wakeReturn s c)                                            -- set() on the event object that run() has dropped
          else wakeReturn { s with intr := .set } c)
  | .p205 f w =>
    some (if s.thr != .none && w then { s with cal := .w233 (some (f, w)) false }
          else { s with cal := .idle, ret := .stopRet f w })
  | .w233 c timed => some (if s.thr != .none then { s with cal := .w235j c timed } else waitReturn s .waitFalse c)
  | .w235j c timed => if !alive s || (timed && tmo) then some { s with cal := .w236 c timed } else none
  | .w236 c _ => some (if alive s then { s with cal := .idle, ret := .waitTimeout } else waitReturn s .waitTrue c)

def Call.entry : Call → CPc
  | .start => .a178
  | .stop f w => .p202 f w
  | .wake => .k167 none
  | .wait timed => .w233 none timed

def step (v : Prog) (s : St) : Tick → Option St
  | .c tmo => stepC v s tmo
  | .s tmo o untl => stepS v s tmo o untl
  | .call k => if s.cal == .idle then some { s with cal := k.entry, ret := .none } else none

/-- run a schedule; ticks that are not enabled are skipped -/
def exec (v : Prog) (s : St) : List Tick → St
  | [] => s
  | t :: ts => exec v ((step v s t).getD s) ts

/-! ### statement labels: the tie to the source text -/

/-- the statement a service-thread program counter is about to execute, as `method:header text` of the extracted table;
    `""` for the continuation of a line that has already begun (such a pc is never a scheduling point of the harness) -/
def SPc.label : SPc → String
  | .none | .dead => ""
  | .r95 => "run:self.__interrupt = threading.Event()"
  | .r96 => "run:self.__stopped = False"
  | .r96v => "run:self.__stopping = False"
  | .r100 => "run:if self.__stopping or self.__shutdown"
  | .r100b => ""
  | .r105 => "run:self.do()"
  | .r119 => "run:if self.__stopping or self.__shutdown or (until is not None and until())"
  | .r119b | .r119c => ""
  | .s67 => "interruptable_sleep:if self.__interrupt and self.__interrupt.wait(secs)"
  | .s67w => ""
  | .s68 => "interruptable_sleep:self.__interrupt.clear()"
  | .f129 => "run:self.__stopping = False"
  | .f130 => "run:self.__stopped = True"
  | .f131 => "run:self.__interrupt = None"
  | .f140 => "run:if self.__shutdown"
  | .f141 => "run:self.done()"

def CPc.label : CPc → String
  | .idle => ""
  | .a178 => "start:if self.__shutdown"
  | .a180 => "start:if self.__thread and self.__thread.is_alive()"
  | .a181 => "start:self.__thread.join(timeout=1)"
  | .a181j => ""
  | .a182 => "start:if self.__thread and self.__thread.is_alive()#2"
  | .a184 => "start:self.__stopping = False"
  | .a185 => "start:self.__thread = threading.Thread(target=self.run, kwargs=kwargs, daemon=daemon, name=self.service_name)"
  | .a186 => "start:self.__thread.name = self.service_name"
  | .a187 => "start:self.__thread.start()"
  | .p202 _ _ => "stop:self.__shutdown = forever"
  | .p203 _ _ => "stop:self.__stopping = True"
  | .k167 _ => "wake:interrupt = self.__interrupt"
  | .k170 _ => ""
  | .p205 _ _ => "stop:thread = self.__thread"
  | .w233 _ _ => "wait:thread = self.__thread"
  | .w235j _ _ => ""
  | .w236 _ _ => ""

/-- blocked in a wait / join (a scheduling point without a statement label) -/
def SPc.blocked : SPc → Bool
  | .s67w => true
  | _ => false

def CPc.blocked : CPc → Bool
  | .a181j | .w235j _ _ => true
  | _ => false

/-- the program counters in program order, per method of the source (program `.head`) -/
def pcLabels : List String :=
  [SPc.s67, .s68].map SPc.label
  ++ [SPc.r95, .r96, .r100, .r105, .r119, .f129, .f130, .f131, .f140, .f141].map SPc.label
  ++ [CPc.k167 none].map CPc.label
  ++ [CPc.a178, .a180, .a181, .a182, .a184, .a185, .a186, .a187].map CPc.label
  ++ [CPc.p202 false false, .p203 false false, .p205 false false].map CPc.label
  ++ [CPc.w233 none false].map CPc.label

/-- the statement table of runnable.py this model was written from (copy of the output of tools/gen_runnable_sites.py on the
    audited source): (method, block context, kind, header text) -/
def auditedStmts : List (String × String × String × String) := [
  ("stopped", "", "S", "return self.__stopped or self.__shutdown"),
  ("interruptable_sleep", "", "S", "if self.__interrupt and self.__interrupt.wait(secs)"),
  ("interruptable_sleep", "if", "S", "self.__interrupt.clear()"),
  ("__increment_backoff", "", "-", "self.in_backoff = min(self.max_backoff, max(self.in_backoff * self.mult_backoff, self.min_backoff))"),
  ("run", "", "-", "self._run_until = until"),
  ("run", "", "-", "if self.service_name is None"),
  ("run", "if", "-", "self.service_name = self.__class__.__name__"),
  ("run", "", "-", "self.__log = logging.getLogger(__name__ + '.' + self.service_name)"),
  ("run", "", "S", "self.__interrupt = threading.Event()"),
  ("run", "", "S", "self.__stopped = False"),
  ("run", "", "-", "try"),
  ("run", "try", "-", "for _ in time_helper(timeout)"),
  ("run", "try>for", "S", "if self.__stopping or self.__shutdown"),
  ("run", "try>for>if", "-", "break"),
  ("run", "try>for", "-", "try#2"),
  ("run", "try>for>try", "-", "self.__clear_on_success = True"),
  ("run", "try>for>try", "S", "self.do()"),
  ("run", "try>for>try", "-", "if self.__clear_on_success and self.in_backoff > 0"),
  ("run", "try>for>try>if", "-", "self.in_backoff = 0"),
  ("run", "try>for>except _BackoffError", "-", "self.__increment_backoff()"),
  ("run", "try>for>except Exception", "-", "self.__increment_backoff()#2"),
  ("run", "try>for>except BaseException", "-", "self.__increment_backoff()#3"),
  ("run", "try>for", "S", "if self.__stopping or self.__shutdown or (until is not None and until())"),
  ("run", "try>for>if", "-", "break#2"),
  ("run", "try>for", "-", "if self.in_backoff > 0"),
  ("run", "try>for>if", "-", "self.interruptable_sleep(self.in_backoff)"),
  ("run", "try>for>else", "-", "self.interruptable_sleep(sleep)"),
  ("run", "finally", "S", "self.__stopping = False"),
  ("run", "finally", "S", "self.__stopped = True"),
  ("run", "finally", "S", "self.__interrupt = None"),
  ("run", "finally", "S", "if self.__shutdown"),
  ("run", "finally>if", "S", "self.done()"),
  ("started", "", "S", "return self.__interrupt is not None"),
  ("nothing_happened", "", "-", "self.__clear_on_success = False"),
  ("wake", "", "S", "interrupt = self.__interrupt"),
  ("wake", "", "-", "if interrupt is None"),
  ("wake", "if", "-", "return"),
  ("wake", "", "-", "interrupt.set()"),
  ("start", "", "-", "if self.service_name is None"),
  ("start", "if", "-", "self.service_name = self.__class__.__name__"),
  ("start", "", "S", "if self.__shutdown"),
  ("start", "if", "-", "raise RuntimeError('Service was stopped, create a new instance to run.')"),
  ("start", "", "S", "if self.__thread and self.__thread.is_alive()"),
  ("start", "if", "S", "self.__thread.join(timeout=1)"),
  ("start", "", "S", "if self.__thread and self.__thread.is_alive()#2"),
  ("start", "if", "-", "raise RuntimeError('Service already started')"),
  ("start", "", "S", "self.__stopping = False"),
  ("start", "", "S", "self.__thread = threading.Thread(target=self.run, kwargs=kwargs, daemon=daemon, name=self.service_name)"),
  ("start", "", "S", "self.__thread.name = self.service_name"),
  ("start", "", "S", "self.__thread.start()"),
  ("stop", "", "S", "self.__shutdown = forever"),
  ("stop", "", "S", "self.__stopping = True"),
  ("stop", "", "-", "self.wake()"),
  ("stop", "", "S", "thread = self.__thread"),
  ("stop", "", "-", "if thread"),
  ("stop", "if", "-", "if threading.current_thread() != thread"),
  ("stop", "if>if", "-", "if wait"),
  ("stop", "if>if>if", "-", "self.wait()"),
  ("wait", "", "S", "thread = self.__thread"),
  ("wait", "", "-", "if thread and threading.current_thread() != thread"),
  ("wait", "if", "-", "thread.join(timeout=timeout)"),
  ("wait", "if", "-", "if thread and thread.is_alive()"),
  ("wait", "if>if", "-", "raise TimeoutError()"),
  ("wait", "if", "-", "return True"),
  ("wait", "else", "-", "return False")
]

/-- every assignment to an attribute of `self` in the protocol methods: (attribute, method, ordinal of the write inside the
    method, value written) -/
def auditedWrites : List (String × String × Nat × String) := [
  ("in_backoff", "__increment_backoff", 0, "min(self.max_backoff, max(self.in_backoff * self.mult_backoff, self.min_backoff))"),
  ("in_backoff", "run", 6, "0"),
  ("_run_until", "run", 0, "until"),
  ("service_name", "run", 1, "self.__class__.__name__"),
  ("service_name", "start", 0, "self.__class__.__name__"),
  ("__log", "run", 2, "logging.getLogger(__name__ + '.' + self.service_name)"),
  ("__interrupt", "run", 3, "threading.Event()"),
  ("__interrupt", "run", 9, "None"),
  ("__stopped", "run", 4, "False"),
  ("__stopped", "run", 8, "True"),
  ("__clear_on_success", "run", 5, "True"),
  ("__clear_on_success", "nothing_happened", 0, "False"),
  ("__stopping", "run", 7, "False"),
  ("__stopping", "start", 1, "False"),
  ("__stopping", "stop", 1, "True"),
  ("__thread", "start", 2, "threading.Thread(target=self.run, kwargs=kwargs, daemon=daemon, name=self.service_name)"),
  ("__shutdown", "stop", 0, "forever")
]

/-- the "S" rows that are statements of the two threads' programs (the two property getters `stopped` / `started` are read by
    the application, not by the protocol) as `method:text` -/
def auditedLabels : List String :=
  (auditedStmts.filter (fun r => r.2.2.1 == "S" && r.1 != "stopped" && r.1 != "started")).map (fun r => r.1 ++ ":" ++ r.2.2.2)

/-! ### scheduling at line granularity (what the harness can realise on the real code) -/

/-- a thread that has been granted a step runs until its next scheduling point: a labelled statement, a blocking call, or
    its end -/
def SPc.stops (p : SPc) : Bool := p.label != "" || p.blocked || !p.alive
def CPc.stops (p : CPc) : Bool := p.label != "" || p.blocked || p == .idle

def lineS (v : Prog) (s : St) (tmo : Bool) (o : Outcome) (untl : Bool) : St :=
  match stepS v s tmo o untl with
  | none => s
  | some t =>
    let rec go (fuel : Nat) (t : St) : St :=
      match fuel with
      | 0 => t
      | k+1 => if t.svc.stops then t else
        match stepS v t tmo o untl with
        | none => t
        | some u => go k u
    go 4 t

def lineC (v : Prog) (s : St) (tmo : Bool) : St :=
  match stepC v s tmo with
  | none => s
  | some t =>
    let rec go (fuel : Nat) (t : St) : St :=
      match fuel with
      | 0 => t
      | k+1 => if t.cal.stops then t else
        match stepC v t tmo with
        | none => t
        | some u => go k u
    go 4 t

def lineTick (v : Prog) (s : St) : Tick → St
  | .c tmo => lineC v s tmo
  | .s tmo o untl => lineS v s tmo o untl
  | .call k => (step v s (.call k)).getD s

end CS.Runnable.Th
