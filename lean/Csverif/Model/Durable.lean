/-
The durable-coverage machine of the event manager's intake step (cloudsync/event.py `_do_unsafe`, `_do_first_init`,
`_do_walk_if_needed`, `_process_event`; cloudsync/sync/state.py `storage_commit`).  Model/Event.lean treats "the entry a
delivery produced is stored" as atomic with the delivery; here the dirty set and the commit are explicit:

  state  = stored cursor, stored walk marker, stored entries | in-memory entries, dirty set, need_walk
  steps  = walk-begin, walk-record(entry), commit, write-marker, drop-marker, write-cursor, process-event(entry),
           fault (abandons the rest of the intake step; memory survives), restart (memory is dropped),
           and the manipulations from outside (cursor / marker lost while the engine is down, forget).

`ok` is the ORDER discipline of the code as it is: whenever the marker or the cursor is written the dirty set is empty
(every `state.update` in `_process_event` is followed by `storage_commit`, and the marker / cursor writes come after the
loops) and a walk only runs without a stored marker.  No Mathlib.
-/
namespace CS.Durable

inductive Ent where
  | w (k : Nat)        -- the k-th object a walk found
  | ev (i : Int)       -- the entry feed event i produced
  deriving DecidableEq, Repr

structure St where
  cursor   : Option Int := none     -- stored
  marker   : Bool := false          -- stored
  stored   : List Ent := []         -- stored
  mem      : List Ent := []         -- in memory
  dirty    : List Ent := []         -- in memory: changed, not yet written back
  needWalk : Bool := true           -- in memory
  found    : List Ent := []         -- ghost: what the current / last walk found
  walkOk   : Bool := true           -- ghost: nothing the current walk found has been lost
  seen     : List Int := []         -- ghost: feed events recorded and not lost
  deriving DecidableEq, Repr

inductive Step where
  | walkBegin
  | walkRecord (k : Nat)
  | commit
  | writeMarker
  | dropMarker
  | writeCursor (p : Int)
  | processEvent (i : Int)
  | fault
  | restart
  | extCursorLost       -- engine down: cursor row deleted / made unusable
  | extMarkerLost       -- engine down: marker row deleted
  | forget              -- CloudSync.forget: everything dropped
  deriving DecidableEq, Repr

def below : Option Int → Int → Bool
  | some p, i => decide (i ≤ p)
  | none, _ => false

def step (s : St) : Step → St
  | .walkBegin => { s with found := [], walkOk := true }
  | .walkRecord k => { s with mem := .w k :: s.mem, dirty := .w k :: s.dirty, found := .w k :: s.found }
  | .commit => { s with stored := s.dirty ++ s.stored, dirty := [] }
  | .writeMarker => { s with marker := true, needWalk := false }
  | .dropMarker => { s with marker := false }
  | .writeCursor p => { s with cursor := some p }
  | .processEvent i =>
    -- (an event at or below the stored cursor is a re-delivery or walk territory: not the cursor's responsibility)
    { s with mem := .ev i :: s.mem, dirty := .ev i :: s.dirty,
             seen := if below s.cursor i then s.seen else i :: s.seen }
  | .fault => s
  | .restart =>
    { s with mem := [], dirty := [], needWalk := s.cursor.isNone || !s.marker,
             walkOk := s.walkOk && s.found.all (fun e => s.stored.contains e),
             seen := s.seen.filter (fun i => s.stored.contains (.ev i)) }
  | .extCursorLost => { s with cursor := none }
  | .extMarkerLost => { s with marker := false }
  | .forget => {}

/-- the write-order discipline of the current code -/
def ok (s : St) : Step → Bool
  | .walkBegin => !s.marker
  | .walkRecord _ => !s.marker
  | .writeMarker => s.dirty.isEmpty && s.walkOk
  | .writeCursor _ => s.dirty.isEmpty
  | _ => true

def run (s : St) (steps : List Step) : St := steps.foldl step s

/-- every step of the sequence respects the discipline in the state it is taken in -/
def Disciplined : St → List Step → Prop
  | _, [] => True
  | s, a :: as => ok s a = true ∧ Disciplined (step s a) as

/-- durable coverage: a stored marker vouches for stored findings, a stored cursor for stored events -/
def DC (s : St) : Prop :=
  (s.marker = true → ∀ e ∈ s.found, e ∈ s.stored) ∧
  (∀ p, s.cursor = some p → ∀ i ∈ s.seen, i ≤ p → Ent.ev i ∈ s.stored)

def dcB (s : St) : Bool :=
  (!s.marker || s.found.all (fun e => s.stored.contains e)) &&
  (match s.cursor with
   | some p => s.seen.all (fun i => !decide (i ≤ p) || s.stored.contains (.ev i))
   | none => true)

/-- executable monitor: index and step of the first breach of the discipline or of durable coverage -/
def monitor : St → Nat → List Step → Option (Nat × Step × Bool)
  | _, _, [] => none
  | s, n, a :: as =>
    if !ok s a then some (n, a, true)
    else if !dcB (step s a) then some (n, a, false)
    else monitor (step s a) (n + 1) as

end CS.Durable
