/-
C15 — threads over ONE re-entrant lock and a shared store (layer L9).

What is modelled (cloudsync/sync/state.py:721 `self.lock = RLock()`; the three `with self.state.lock:` regions
event.py:280-314, sync/manager.py:226-231, smartsync.py:367-371; threads: cs.py:242-262, runnable.py:172-187):

  * a thread is a straight-line list of actions `acquire | release | read l | write l f | other`;
    `write l f` stores `f obs` where `obs` is the list of values this thread has read so far (most recent first),
    so a read-modify-write of the shared state is `read l; write l (fun obs => g obs.head!)`;
  * `threading.RLock`: `owner : Option Tid` and a re-entrancy `depth`; `acquire` by the owner nests, by another
    thread it is NOT ENABLED while the lock is held (the thread blocks: the scheduler cannot pick it);
    `release` by a non-owner is not enabled (CPython raises RuntimeError; `with` never does it);
  * an access made WITHOUT holding the lock is enabled and simply happens — that is the race the property forbids;
  * an interleaving is a schedule `List Tid`; `run` executes it and fails (`none`) iff it schedules a step that is
    not enabled, so "for every interleaving" is "for every schedule with `run … = some _`".

No Mathlib (the file is linked into the driver executable).
-/
namespace CS.Lock

abbrev Tid := Nat
abbrev Loc := Nat
abbrev Val := Nat

inductive Act where
  | acquire
  | release
  | read (l : Loc)
  | write (l : Loc) (f : List Val → Val)
  | other

/-- code still to be executed by every thread -/
abbrev Prog := Tid → List Act

structure State where
  store : Loc → Val
  owner : Option Tid
  depth : Nat
  code  : Prog
  obs   : Tid → List Val

def upd {α : Type} (f : Nat → α) (k : Nat) (v : α) : Nat → α := fun x => if x = k then v else f x

@[simp] theorem upd_same {α : Type} (f : Nat → α) (k : Nat) (v : α) : upd f k v k = v := by simp [upd]
@[simp] theorem upd_other {α : Type} (f : Nat → α) (k x : Nat) (v : α) (h : x ≠ k) : upd f k v x = f x := by
  simp [upd, h]

def init (p : Prog) (σ : Loc → Val) : State :=
  { store := σ, owner := none, depth := 0, code := p, obs := fun _ => [] }

/-- one step of thread `t`; `none` = not enabled (empty code, blocked acquire, release by a non-owner) -/
def step (s : State) (t : Tid) : Option State :=
  match s.code t with
  | [] => none
  | .acquire :: rest =>
    match s.owner with
    | none => some { s with owner := some t, depth := 1, code := upd s.code t rest }
    | some o => if o = t then some { s with depth := s.depth + 1, code := upd s.code t rest } else none
  | .release :: rest =>
    match s.owner with
    | none => none
    | some o =>
      if o = t then
        (if s.depth ≤ 1 then some { s with owner := none, depth := 0, code := upd s.code t rest }
         else some { s with depth := s.depth - 1, code := upd s.code t rest })
      else none
  | .read l :: rest => some { s with code := upd s.code t rest, obs := upd s.obs t (s.store l :: s.obs t) }
  | .write l f :: rest => some { s with code := upd s.code t rest, store := upd s.store l (f (s.obs t)) }
  | .other :: rest => some { s with code := upd s.code t rest }

/-- execute a schedule; `none` iff some scheduled step is not enabled -/
def run (s : State) : List Tid → Option State
  | [] => some s
  | t :: rest => match step s t with
    | none => none
    | some s1 => run s1 rest

/-- nesting depth bookkeeping along one thread's code: every access happens at depth > 0 -/
def okFrom : Nat → List Act → Prop
  | _, [] => True
  | d, .acquire :: rest => okFrom (d + 1) rest
  | d, .release :: rest => okFrom (d - 1) rest
  | d, .read _ :: rest => 0 < d ∧ okFrom d rest
  | d, .write _ _ :: rest => 0 < d ∧ okFrom d rest
  | d, .other :: rest => okFrom d rest

/-- THE DISCIPLINE: every access of every thread is made while that thread holds the lock -/
def Disciplined (p : Prog) : Prop := ∀ t, okFrom 0 (p t)

/-- executable version (used by the trace monitor) : index of the first access outside the lock -/
def firstBad : Nat → Nat → List Act → Option Nat
  | _, _, [] => none
  | d, i, .acquire :: rest => firstBad (d + 1) (i + 1) rest
  | d, i, .release :: rest => firstBad (d - 1) (i + 1) rest
  | d, i, .read _ :: rest => if d = 0 then some i else firstBad d (i + 1) rest
  | d, i, .write _ _ :: rest => if d = 0 then some i else firstBad d (i + 1) rest
  | d, i, .other :: rest => firstBad d (i + 1) rest

/-- a schedule is SERIAL from `s` when no step is taken by a thread other than the current holder of the lock:
    every critical section (outermost acquire … matching release) runs without interruption -/
def Serial : State → List Tid → Prop
  | _, [] => True
  | s, t :: rest => (s.owner = none ∨ s.owner = some t) ∧
      match step s t with
      | none => True
      | some s1 => Serial s1 rest

/-- executable version of `Serial` -/
def serialB : State → List Tid → Bool
  | _, [] => true
  | s, t :: rest => (s.owner == none || s.owner == some t) &&
      match step s t with
      | none => true
      | some s1 => serialB s1 rest

/-- what a thread does next -/
def next (s : State) (t : Tid) : Option Act := (s.code t).head?

def isAccess : Act → Bool
  | .read _ => true
  | .write _ _ => true
  | _ => false

end CS.Lock
