import Csverif.Model.Engine
/-
ENG, part 2 — the TRANSFER LEAVES of the sync engine, with the temp directory inside the model.

Branch by branch from cloudsync/sync/manager.py (line numbers of /repo HEAD 14784bb) and state.py:

  * `SyncManager._temp_file`                      manager.py 466-476   → `newTemp`
  * `SideState.clean_temp`                        state.py 193-203     → `cleanTemp`
  * `SyncManager.make_temp_file`                  manager.py 493-510   → `makeTempFile`
  * `SyncManager.download_changed`                manager.py 512-542   → `downloadChanged`
  * `SyncManager.upload_synced`                   manager.py 646-696   → `uploadSynced`
  * `SyncManager._create_synced`, `create_synced` manager.py 698-733, 750-781 → `createInner`, `createSynced`
  * `SyncManager.unsafe_mkdir_synced`, `mkdir_synced`  manager.py 560-644 → `unsafeMkdir`, `mkdirSynced`
  * `SyncManager.finished` / `clean_temps`        manager.py 478-491   → `cleanTemps`
  * the transfer part of `handle_hash_diff` (1600-1605) and of `handle_path_change_or_creation` (1238-1253)
                                                                       → `transferUpload`, `transferCreate`
  * a retry after a user re-edit                                       → `retryAfterReedit`

The temp directory is a finite map (directory, name, ".tmp"?) ↦ content tag.  A name is either KEYED — the hex md5 of
`path ++ msgpack(hash)`, i.e. determined by the (path, hash) the side had when the name was chosen — or RANDOM
(`os.urandom(16).hex()`, modelled as a fresh counter).  A content tag says FOR WHICH HASH the bytes were downloaded: the download
leaf writes the tag of the side's current hash (0 when it has none).  Values of hashes and paths are tags (naturals).
Provider answers are the fields of `XOracle`.  Not modelled: a substring hit of the md5 name inside the directory part of
`temp_file`, random-name collisions, `OSError`s other than "not found" from unlink, falsy-but-not-None hashes.  No Mathlib.
-/
namespace CS.Engine.Xfer
open CS.Hints (Ex OT Ign)
open CS.Engine (Ret)

abbrev Tag := Nat

/-- the manager's `tempdir`, or some other directory (the tempdir of an earlier engine run: `temp_file` is persisted) -/
inductive Dir where
  | cur | old
  deriving DecidableEq, Repr

inductive Name where
  | keyed (p h : Tag)     -- md5(bytes(path) + msgpack(hash)).hex() for path tag p, hash tag h
  | rand (n : Nat)        -- os.urandom(16).hex()
  deriving DecidableEq, Repr

structure Loc where
  dir : Dir
  name : Name
  deriving DecidableEq, Repr

structure File where
  loc : Loc
  part : Bool             -- the ".tmp" sibling
  bytes : Tag
  deriving DecidableEq, Repr

structure FS where
  curExists : Bool
  oldExists : Bool
  files : List File
  nextRand : Nat
  deriving DecidableEq, Repr

def FS.dirExists (fs : FS) : Dir → Bool
  | .cur => fs.curExists
  | .old => fs.oldExists

def File.is (f : File) (l : Loc) (part : Bool) : Bool := f.loc == l && f.part == part

/-- content of a file, if its directory and the file exist -/
def FS.find (fs : FS) (l : Loc) (part : Bool) : Option Tag :=
  if fs.dirExists l.dir then (fs.files.find? (·.is l part)).map (·.bytes) else none

def FS.has (fs : FS) (l : Loc) (part : Bool) : Bool := (fs.find l part).isSome

def FS.unlink (fs : FS) (l : Loc) (part : Bool) : FS := { fs with files := fs.files.filter (fun f => !f.is l part) }

def FS.write (fs : FS) (l : Loc) (part : Bool) (b : Tag) : FS :=
  { fs with files := ⟨l, part, b⟩ :: (fs.unlink l part).files }

/-- one `SideState` with values as tags -/
structure XSide where
  otype : OT
  oid : Bool
  path : Option Tag
  hash : Option Tag
  syncHash : Option Tag
  syncPath : Option Tag
  ex : Ex
  saved : Option Ex
  changed : Bool
  temp : Option Loc       -- `temp_file`
  deriving DecidableEq, Repr

/-- `SideState.__setattr__("exists", v)` (state.py 114-127) -/
def XSide.setEx (s : XSide) (v : Ex) : XSide :=
  if v == .corrupt && !(s.ex == .corrupt) then { s with saved := some s.ex, ex := .corrupt }
  else if v != .corrupt && s.ex == .corrupt then { s with saved := some v }
  else { s with ex := v }

/-- `hash = v` through `__setattr__` (state.py 131-133): a hash that changes un-corrupts -/
def XSide.setHash (s : XSide) (v : Option Tag) : XSide :=
  let s := if s.hash != v && s.ex == .corrupt then { s with ex := s.saved.getD .unknown, saved := none } else s
  { s with hash := v }

/-- the LIKELY_TRASHED rule of `update_entry(..., exists=True)` (state.py 1016-1023) -/
def XSide.existsTrue (s : XSide) : XSide :=
  if s.ex == .trashed || s.ex == .likely then s.setEx .likely else s.setEx .present

/-- the entry seen from the transfer: `c` the changed side, `s` the synced side -/
structure XEntry where
  c : XSide
  s : XSide
  ign : Ign
  prio : Int              -- tenths
  deriving DecidableEq, Repr

inductive XExc where
  | assertion | typeError | temp | tooMany | corrupt | fileNotFound | notImpl
  deriving DecidableEq, Repr

inductive XOut where
  | bool (b : Bool)
  | code (r : Ret)
  | unit
  | raised (x : XExc)
  deriving DecidableEq, Repr

inductive XEff where
  | download                    -- `providers[changed].download(oid, f)`
  | sent (bytes : Tag)          -- `providers[synced].upload(oid, fh)`: the content handed over
  | created (bytes : Tag)       -- `providers[synced].create(path, f)`: the content handed over
  | hashData (bytes : Tag)      -- `providers[synced].hash_data(f)` on the temp file (1711-1712)
  | infoPath | infoOid
  | split | splitConflict       -- `state.split`, `handle_split_conflict`
  | nameError | fnfHandler
  | discardOther                -- another entry `.ignore(DISCARDED)`
  | conflictRename              -- `rename_to_fix_conflict`
  | resolve                     -- `resolve_conflict`
  | mkdirs
  deriving DecidableEq, Repr

inductive DlAns where
  | ok | fnf | perm | cloudFnf | corrupt | temp
  deriving DecidableEq, Repr

inductive UpAns where
  | ok | fnf | cloudFnf | exists_ | nameErr | corrupt | temp
  deriving DecidableEq, Repr

inductive CrAns where
  | ok | exists_ | cloudFnf | nameErr | corrupt | temp
  deriving DecidableEq, Repr

inductive MkAns where
  | ok | exists_ | cloudFnf | nameErr | temp
  deriving DecidableEq, Repr

structure XOracle where
  dl : DlAns
  up : UpAns
  cr : CrAns
  mk_ : MkAns
  newHash : Option Tag          -- `info.hash` of the OInfo the upload / create returns (None: a provider without hashes)
  infoPath : Option Tag         -- `info.path` of that OInfo
  infoAfterFnf : Bool           -- `info_oid(sync[synced].oid)` after a CloudFileNotFoundError of upload (670)
  splitRet : Bool               -- what `handle_split_conflict` returns (688)
  atPath : Option (Option Tag)  -- `info_path(translated_path)`: nothing there / an object with this hash (708, 762)
  ourHashThere : Option Tag     -- `providers[synced].hash_data(f)`: the hash of OUR bytes in the synced provider's terms (712)
  tp : Tag                      -- the translated path
  dupDirChanged : Bool          -- another entry at `sync[changed].path` whose changed side is a DIRECTORY (611-615)
  liveOther : Bool              -- another entry there with neither side TRASHED / MISSING (617-622)
  dupDirSynced : Bool           -- another entry there whose synced side is a DIRECTORY (568-572)
  fileConflict : Bool           -- `get_folder_file_conflict` finds a live non-folder at the translated path (574)
  alreadyDir : Bool             -- the id `mkdirs` returns is already held by another DIRECTORY entry (588-591)
  deriving DecidableEq, Repr

structure XRes where
  out : XOut
  effs : List XEff
  fs : FS
  ent : XEntry
  deriving DecidableEq, Repr

/-! ### temp files -/

/-- `SideState.clean_temp` (state.py 193-203): unlink, "not found" ignored; `temp_file` itself is kept -/
def cleanTemp (fs : FS) (s : XSide) : FS :=
  match s.temp with
  | some l => fs.unlink l false
  | none => fs

/-- `ss.temp_file = self._temp_file(name=tfn)` (manager.py 466-476, 510) after cleaning the old one (508-509) -/
def newTemp (fs : FS) (s : XSide) (name : Option Name) : FS × XSide :=
  let fs := cleanTemp fs s                                                        -- 508-509
  let fs := if !fs.curExists then { fs with curExists := true, files := fs.files.filter (fun f => f.loc.dir != .cur) } else fs   -- 467-469 (a deleted tempdir is recreated, empty)
  match name with
  | some n => (fs, { s with temp := some ⟨.cur, n⟩ })
  | none => ({ fs with nextRand := fs.nextRand + 1 }, { s with temp := some ⟨.cur, .rand fs.nextRand⟩ })

/-- `make_temp_file` (manager.py 493-510) -/
def makeTempFile (fs : FS) (s : XSide) : Except XExc (FS × XSide) :=
  if s.otype == .dir then .ok (fs, s)                                             -- 497-498
  else
    match s.hash with
    | some h =>                                                                   -- 500
      match s.path with
      | none => .error .typeError                                                 -- `bytes(None, "utf8")`
      | some p =>
        let tfn := Name.keyed p h                                                 -- 504
        let keep := match s.temp with                                             -- 505
          | some l => l.name == tfn && fs.dirExists l.dir
          | none => false
        if keep then .ok (fs, s) else .ok (newTemp fs s (some tfn))
    | none => .ok (newTemp fs s none)

/-- a deleted directory holds no files -/
def FS.norm (fs : FS) : FS := { fs with files := fs.files.filter (fun f => fs.dirExists f.loc.dir) }

/-- `download_changed` (manager.py 512-542) -/
def downloadChanged (o : XOracle) (fs : FS) (e : XEntry) : XRes :=
  match makeTempFile fs e.c with                                                  -- 516
  | .error x => ⟨.raised x, [], fs, e⟩
  | .ok (fs, c) =>
    let e := { e with c := c }
    if !c.oid then ⟨.raised .assertion, [], fs, e⟩                                -- 518
    else
      match c.temp with
      | none => ⟨.raised .typeError, [], fs, e⟩                                   -- `os.path.exists(None)` (a DIRECTORY)
      | some l =>
        if fs.has l false then ⟨.bool true, [], fs, e⟩                            -- 520-522: reused
        else if !fs.dirExists l.dir then ⟨.bool false, [], fs, e⟩                 -- 527 raises FileNotFoundError → 531-534
        else
          let fsp := fs.write l true 0                                            -- 527: the ".tmp" file is created
          match o.dl with
          | .ok => ⟨.bool true, [.download], (fsp.unlink l true).write l false (c.hash.getD 0), e⟩   -- 528-530
          | .fnf => ⟨.bool false, [.download], cleanTemp fsp c, e⟩                -- 531-534
          | .perm => ⟨.raised .temp, [.download], fsp, e⟩                         -- 535-536
          | .cloudFnf => ⟨.bool false, [.download], fsp, { e with c := c.setEx .missing }⟩   -- 538-542
          | .corrupt => ⟨.raised .corrupt, [.download], fsp, e⟩
          | .temp => ⟨.raised .temp, [.download], fsp, e⟩

/-! ### `update_entry` as the leaves call it (state.py 985-1025 + `_change_path` 819-853) -/

/-- `update_entry(ent, synced, oid, path=…, hash=…, exists=True)`; `oidGiven` = the id passed is not None.  Assigning a path to a
    side without an id trips `assert ent[side].oid` in `_change_path` (state.py 821-822); a path that changes resets the priority. -/
def updateSynced (e : XEntry) (oidGiven : Bool) (path : Option Tag) (hash : Option Tag) : Except XExc XEntry :=
  let s := { e.s with oid := e.s.oid || oidGiven }
  let moved := match path with
    | some p => s.path != some p
    | none => false
  if moved && !s.oid then .error .assertion
  else
    let s := if moved then { s with path := path } else s
    let s := match hash with
      | some h => if s.hash != some h then s.setHash (some h) else s
      | none => s
    .ok { e with s := s.existsTrue, prio := if moved then 0 else e.prio }

def XRes.ofUpdate (out : XOut) (fx : List XEff) (fs : FS) (fallback : XEntry) : Except XExc XEntry → XRes
  | .ok e => ⟨out, fx, fs, e⟩
  | .error x => ⟨.raised x, fx, fs, fallback⟩

/-! ### `upload_synced` (manager.py 646-696) -/

def uploadSynced (o : XOracle) (fs : FS) (e : XEntry) : XRes :=
  match e.c.temp with
  | none => ⟨.raised .assertion, [], fs, e⟩                                       -- 647
  | some l =>
    match fs.find l false with
    | none => ⟨.bool false, [], fs, e⟩                                            -- 652 raises FileNotFoundError → 666-668
    | some b =>
      match o.up with                                                             -- 653
      | .ok =>
        let s := e.s.setHash o.newHash                                            -- 656
        let s := { s with syncHash := o.newHash }                                 -- 657
        let s := if s.syncPath.isNone then { s with syncPath := o.infoPath } else s   -- 658-659
        let c := { e.c with syncHash := e.c.hash, syncPath := e.c.path }          -- 660-661
        let e' := { e with c := c, s := s }
        XRes.ofUpdate (.bool true) [.sent b] fs e' (updateSynced e' e.s.oid s.syncPath none)   -- 663-665 (info.oid = the id uploaded to)
      | .fnf => ⟨.bool false, [.sent b], fs, e⟩                                   -- 666-668
      | .cloudFnf =>                                                              -- 669-680
        if o.infoAfterFnf then ⟨.bool false, [.sent b, .infoOid], fs, e⟩
        else ⟨.bool false, [.sent b, .infoOid], fs, { e with s := e.s.setEx .missing }⟩
      | .exists_ => ⟨.bool o.splitRet, [.sent b, .split, .splitConflict], fs, e⟩   -- 681-689 (what `split` does to the entry: Model/Engine.lean)
      | .nameErr => ⟨.bool true, [.sent b, .nameError], fs, { e with ign := .irrelevant }⟩   -- 690-693
      | .corrupt => ⟨.raised .corrupt, [.sent b], fs, e⟩
      | .temp => ⟨.raised .temp, [.sent b], fs, e⟩

/-! ### `_create_synced` (manager.py 698-733), `create_synced` (750-781) -/

inductive Inner where
  | done (fx : List XEff) (e : XEntry)
  | existsErr (fx : List XEff)
  | cloudFnf (fx : List XEff)
  | nameErr (fx : List XEff)
  | raised (x : XExc) (fx : List XEff)

def Inner.fx : Inner → List XEff
  | .done fx _ | .existsErr fx | .cloudFnf fx | .nameErr fx | .raised _ fx => fx

def Inner.ofUpdate (fx : List XEff) : Except XExc XEntry → Inner
  | .ok e' => .done fx e'
  | .error x => .raised x fx

/-- 724-733; `info` = the OInfo of the create, or — "use existing" — of `info_path` -/
def recordCreate (o : XOracle) (e : XEntry) (infoHash : Option Tag) (infoPath : Option Tag) (fx : List XEff) : Inner :=
  match infoHash with
  | none => .raised .assertion fx                                                 -- 724
  | some h =>
    if e.c.hash.isNone then .raised .assertion fx                                 -- 725
    else
      let sp := match infoPath with | some p => p | none => o.tp                  -- 727-730
      let s := { e.s with syncHash := some h, syncPath := some sp }               -- 726-730
      let c := { e.c with syncHash := e.c.hash, syncPath := e.c.path }            -- 731-732
      Inner.ofUpdate fx (updateSynced { e with c := c, s := s } true (some sp) (some h))   -- 733

def createInner (o : XOracle) (fs : FS) (e : XEntry) : Inner :=
  match e.c.temp with
  | none => .raised .typeError []                                                 -- `open(None, "rb")`
  | some l =>
    match fs.find l false with
    | none => .raised .fileNotFound []                                            -- 703 → 720-722
    | some b =>
      match o.cr with                                                             -- 704
      | .ok => recordCreate o e o.newHash o.infoPath [.created b]
      | .exists_ =>                                                               -- 706-715
        match o.atPath with
        | none => .existsErr [.created b, .infoPath]                              -- 709-710
        | some h =>
          if o.ourHashThere != h then .existsErr [.created b, .infoPath, .hashData b]   -- 711-714
          else recordCreate o e h (some o.tp) [.created b, .infoPath, .hashData b]   -- 715: "use existing" (info_path reports the path asked for)
      | .cloudFnf => .cloudFnf [.created b]
      | .nameErr => .nameErr [.created b]
      | .corrupt => .raised .corrupt [.created b]
      | .temp => .raised .temp [.created b]

def createSynced (o : XOracle) (fs : FS) (e : XEntry) : XRes :=
  match createInner o fs e with
  | .done fx e' => ⟨.code .finished, fx, fs, e'⟩                                  -- 753-754
  | .raised x fx => ⟨.raised x, fx, fs, e⟩
  | .cloudFnf fx =>                                                               -- 755-756: `handle_cloud_file_not_found_error`, no parent known
    if e.prio > 50 then ⟨.raised .tooMany, fx ++ [.fnfHandler], fs, e⟩ else ⟨.code .punt, fx ++ [.fnfHandler], fs, e⟩
  | .nameErr fx => ⟨.code .finished, fx ++ [.nameError], fs, { e with ign := .irrelevant }⟩   -- 778-780
  | .existsErr fx =>                                                              -- 757-777
    if e.prio > 0 then
      match o.atPath with                                                         -- 762
      | none =>
        if e.prio > 10 then ⟨.code .finished, fx ++ [.infoPath, .nameError], fs, { e with ign := .irrelevant }⟩   -- 765-768
        else ⟨.code .punt, fx ++ [.infoPath], fs, e⟩
      | some h =>                                                                 -- 770-773
        let s := ({ e.s with oid := true }).setHash h
        let moved := s.path != some o.tp
        let e0 := { e with s := { s with path := some o.tp }, prio := if moved then 0 else e.prio }
        XRes.ofUpdate (.code .punt) (fx ++ [.infoPath]) fs e0 (updateSynced e0 true (some o.tp) none)
    else ⟨.code .punt, fx, fs, e⟩                                                 -- 775-777, 781

/-! ### `unsafe_mkdir_synced` (manager.py 560-599), `mkdir_synced` (601-644) -/

def unsafeMkdir (o : XOracle) (fs : FS) (e : XEntry) (fx : List XEff) : XRes :=
  let fx := if o.dupDirSynced && !o.dupDirChanged then fx ++ [.discardOther] else fx   -- 566-572 (an entry discarded at 615 is no longer listed)
  if o.fileConflict then ⟨.code .punt, fx ++ [.resolve], fs, e⟩                   -- 574-580
  else
    match o.mk_ with                                                              -- 583
    | .ok =>
      let fx := fx ++ [.mkdirs] ++ (if o.alreadyDir then [.discardOther] else [])   -- 588-591
      let s := { e.s with syncPath := some o.tp }                                 -- 593
      let c := { e.c with syncPath := e.c.path }                                  -- 594
      let e' := { e with c := c, s := s }
      XRes.ofUpdate (.code .finished) fx fs e' (updateSynced e' true (some o.tp) none)   -- 596-599
    | .exists_ => ⟨.code .none_, fx ++ [.mkdirs], fs, e⟩                          -- 632-633: `mark_dirty`, falls off the end
    | .cloudFnf =>                                                                -- 635-641
      if e.prio ≤ 0 then ⟨.code .punt, fx ++ [.mkdirs], fs, e⟩ else ⟨.raised .notImpl, fx ++ [.mkdirs], fs, e⟩
    | .nameErr => ⟨.code .finished, fx ++ [.mkdirs, .nameError], fs, { e with ign := .irrelevant }⟩   -- 642-644
    | .temp => ⟨.raised .temp, fx ++ [.mkdirs], fs, e⟩

def mkdirSynced (o : XOracle) (fs : FS) (e : XEntry) : XRes :=
  let fx : List XEff := if o.dupDirChanged then [.discardOther] else []           -- 609-615
  if o.liveOther then                                                             -- 617-622
    if e.prio ≤ 0 then ⟨.code .punt, fx, fs, e⟩                                   -- 623-625
    else unsafeMkdir o fs e (fx ++ [.conflictRename])                             -- 628
  else unsafeMkdir o fs e fx

/-! ### `finished` → `clean_temps` (manager.py 478-491) -/

def cleanTemps (fs : FS) (e : XEntry) : FS := cleanTemp (cleanTemp fs e.c) e.s

/-! ### the transfer part of `handle_hash_diff` (1600-1605) and of `handle_path_change_or_creation` (1238-1253) -/

def transferUpload (o : XOracle) (fs : FS) (e : XEntry) : XRes :=
  let d := downloadChanged o fs e                                                 -- 1601
  match d.out with
  | .bool true =>
    let u := uploadSynced o d.fs d.ent                                            -- 1604
    match u.out with
    | .bool true => { u with out := .code .finished, effs := d.effs ++ u.effs }   -- 1611
    | .bool false => { u with out := .code .punt, effs := d.effs ++ u.effs }      -- 1605
    | _ => { u with effs := d.effs ++ u.effs }
  | .bool false => { d with out := .code .punt }                                  -- 1602-1603
  | _ => d

def transferCreate (o : XOracle) (fs : FS) (e : XEntry) : XRes :=
  let d := downloadChanged o fs e                                                 -- 1239
  match d.out with
  | .bool true =>
    let u := createSynced o d.fs d.ent                                            -- 1249
    { u with effs := d.effs ++ u.effs }
  | .bool false => { d with out := .code .punt }                                  -- 1240
  | _ => d

/-- a first attempt, then — if the entry is still pending — the user edits the file again (an event assigns hash `h2`,
    state.py 1013-1014) and the engine retries with possibly different provider answers -/
def retryAfterReedit (o1 o2 : XOracle) (fs : FS) (e : XEntry) (h2 : Tag) : XRes × XRes :=
  let r1 := transferUpload o1 fs e
  let e2 := { r1.ent with c := { r1.ent.c.setHash (some h2) with changed := true } }
  (r1, transferUpload o2 r1.fs e2)

end CS.Engine.Xfer
