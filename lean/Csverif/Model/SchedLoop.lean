import Csverif.Model.Sched
import Csverif.Model.Runnable
/-
Model of the sync loop at the level C17's liveness clause speaks about:
`Runnable.run` (runnable.py:73-141, loop body 100-126) calling `SyncManager.do` (manager.py:222-239) over an abstract
work queue.

  do():   sync = state.change(aging)
          if sync:  something_got_done = _sync_one_entry(sync)
          else:     time.sleep(aging)
          if not something_got_done: nothing_happened()
  _sync_one_entry (manager.py:180-203) is abstracted to its four possible effects on scheduling (`Work`):
    finished  every changed side is finished (`changed = 0`, `state.finished`): the entry leaves the queue; returns True
    punted    the sync logic defers the entry (`sync.punt()`), returns False
    requeue   nothing settled and no punt, returns False
    raised    an exception: `sync.punt()`, `self.backoff()` — the loop backs off (`Runnable.incr`)
    stuck     an exception after which the entry is left as it was (no punt, not finished) while the loop backs off.
              No handler of HEAD does this (Model/SchedSites.lean, Props/C17Sites.lean); the constructor exists so that
              "every failure lowers the entry's rank or finishes it" is a hypothesis that can be stated — and violated.
  run():  success clears a backoff, nothing_happened keeps it, a backoff request increments it; then sleep
          `in_backoff` if positive, else `sleep`  — `Runnable.after` / `Runnable.sleepFor` of Model/Runnable.lean.

The queue is a list of `Sched.Entry` in changeset order; selection is `Sched.change`, deferral is `Sched.puntE`.
Not modelled here: the priority reset of related entries by `finished` (entries of the queue are taken to be
unrelated), new work arriving while the loop runs, `_validate_provider_roots`.
-/
namespace CS.SchedLoop
open CS.Sched

inductive Work where
  | finished | punted | requeue | raised | stuck
  deriving Repr, DecidableEq

/-- the attempt got the entry out of the way: finished, or deferred by a punt -/
def Work.progress : Work → Bool
  | .finished => true
  | .punted => true
  | .raised => true
  | .requeue => false
  | .stuck => false

structure Cfg where
  age   : Rat                 -- SyncManager.aging
  sleep : Rat                 -- the `sleep` argument of Runnable.run
  punt  : Rat × Rat           -- SyncState._punt_secs
  bp    : Runnable.Params     -- min_backoff, max_backoff, mult_backoff

structure Loop where
  P       : List Entry        -- pending work, changeset order
  now     : Rat               -- the clock at the head of the iteration
  backoff : Rat               -- in_backoff

/-- what the scripted world does in one iteration: the effect of `_sync_one_entry` should an entry
    be picked, and the time that work takes -/
structure Step where
  work : Work
  dur  : Rat

def puntIn (p : Rat × Rat) (P : List Entry) (id : Nat) : List Entry :=
  P.map (fun x => if x.id == id then puntE p x else x)

def dropIn (P : List Entry) (id : Nat) : List Entry := P.filter (fun x => x.id != id)

/-- how the iteration ends for `Runnable.run` -/
def Work.outcome : Work → Runnable.Outcome
  | .finished => .success
  | .punted => .noop
  | .requeue => .noop
  | .raised => .backoffReq
  | .stuck => .backoffReq

def Work.apply (p : Rat × Rat) (P : List Entry) (id : Nat) : Work → List Entry
  | .finished => dropIn P id
  | .punted => puntIn p P id
  | .requeue => P
  | .raised => puntIn p P id
  | .stuck => P

/-- one iteration; returns the next loop state and the entry attempted (if any) -/
def iter (c : Cfg) (L : Loop) (w : Step) : Loop × Option Entry :=
  match change L.P L.now c.age with
  | none =>
    -- nothing eligible: time.sleep(aging); nothing_happened(); then the loop's own sleep
    let b := Runnable.after c.bp L.backoff .noop
    ({ L with now := L.now + c.age + Runnable.sleepFor c.sleep b, backoff := b }, none)
  | some e =>
    let b := Runnable.after c.bp L.backoff w.work.outcome
    ({ P := w.work.apply c.punt L.P e.id, now := L.now + w.dur + Runnable.sleepFor c.sleep b, backoff := b }, some e)

/-- a record of one iteration: clock at its head, entry attempted, what the world did -/
structure Rec where
  at_  : Rat
  ent  : Option Entry
  work : Work

/-- run a finite script; any number of iterations -/
def run (c : Cfg) : Loop → List Step → Loop × List Rec
  | L, [] => (L, [])
  | L, w :: ws =>
    let (L1, a) := iter c L w
    let (L2, tr) := run c L1 ws
    (L2, { at_ := L.now, ent := a, work := w.work } :: tr)

/-! ## the potential (how long an eligible entry can be kept waiting) -/

/-- how many times `z` can still be attempted (and punted) before it is strictly less urgent than `y` -/
def weight (y z : Entry) : Nat :=
  if z.id = y.id then 0
  else if z.priority ≤ y.priority then (Rat.floor (y.priority - z.priority)).toNat + 1 else 0

def potential (y : Entry) (P : List Entry) : Nat := (P.map (weight y)).sum

/-! ## a monitor for traces of the real engine

One observation per call of `SyncManager.do`: the clock, the changeset right before and right after the call, the entry
`state.change` handed out, and whether the call ended with the backoff request.  The monitor evaluates, with the very
definitions the theorems are about (`change`, `eligible`, `potential`), what the loop theorems need of each step:
the selection (`pick`), progress on failure (`stuck`; and `dropped`: no handler of HEAD finishes an entry whose
attempt raised — Props/C17Punt.lean `audited_every_exception_punts`), and the rank of every waiting eligible entry (`rank`); and over a
whole trace the no-starvation bound of `loop_no_starvation`, with arrivals (entries that enter the changeset or whose
priority value drops between two calls) added to the budget. -/

structure Obs where
  earlier   : Rat            -- `now - age` as the implementation computed it
  before    : List Entry
  attempted : Option Nat
  raised    : Bool
  after     : List Entry

inductive StepKind where
  | idle | done | punt | keep
  deriving Repr, DecidableEq

def findId (P : List Entry) (id : Nat) : Option Entry := P.find? (·.id == id)

def Obs.kind (o : Obs) : StepKind :=
  match o.attempted with
  | none => .idle
  | some x =>
    match findId o.before x, findId o.after x with
    | some _, none => .done
    | some b, some a => if a.priority > b.priority then .punt else .keep
    | none, _ => .keep

/-- per-step verdicts; `[]` = fine -/
def Obs.check (o : Obs) : List String :=
  let pick := (change o.before o.earlier 0).map (·.id)
  let k := o.kind
  (if pick != o.attempted then ["pick"] else []) ++
  (if o.raised && k == .keep && o.attempted.isSome then ["stuck"] else []) ++
  (if o.raised && k == .done then ["dropped"] else []) ++
  (match o.attempted with
   | none => []
   | some x =>
     -- entries the step itself created (a split) are arrivals, not a loss of rank
     let afterOld := o.after.filter (fun z => (findId o.before z.id).isSome)
     if (o.before.filter (fun y => y.id != x && eligible y o.earlier 0)).any (fun y =>
          if k == .done || k == .punt then decide (potential y o.before ≤ potential y afterOld)
          else decide (potential y o.before < potential y afterOld))
     then ["rank"] else [])

/-- the application's classes, checked on a trace: `cls` gives, for the entries of the changeset, the smallest
    `prioritize(side, path)` over their current paths.  `stale`: a pending entry's stored priority is neither its class plus a number of
    punts nor a punt count (Props/C17Prio.lean `Tracks`); `unaged`: the attempted entry's paths are all in non-negative classes
    and no side's change has aged (Props/C17Prio.lean `nonneg_class_ages`); `classorder`: another eligible entry that
    still carries exactly its class has a strictly smaller class than the attempted one, which carries exactly its own -/
def Obs.checkCls (o : Obs) (cls : List (Nat × Rat)) : List String :=
  let clsOf (id : Nat) : Option Rat := (cls.find? (·.1 == id)).map (·.2)
  let nat (q : Rat) : Bool := q.den == 1 && decide (0 ≤ q)
  -- PriorityCurrent (Props/C17Prio.lean `Tracks`): the stored priority is the class plus punts, or a punt count
  (if o.before.any (fun y => match clsOf y.id with
        | some c => !(nat (y.priority - c) || nat y.priority)
        | none => false) then ["stale"] else []) ++
  match o.attempted.bind (findId o.before) with
  | none => []
  | some x =>
    match clsOf x.id with
    | none => []
    | some cx =>
      (if cx ≥ 0 && !(sideAged x.l.changed o.earlier || sideAged x.r.changed o.earlier) then ["unaged"] else []) ++
      (if x.priority == cx && (o.before.any (fun y => y.id != x.id && eligible y o.earlier 0 &&
            (match clsOf y.id with
             | some cy => y.priority == cy && decide (cy < cx)
             | none => false)))
       then ["classorder"] else [])

/-- weight that entered the queue between two calls, as seen from `y` -/
def arrivals (y : Entry) (prevAfter nextBefore : List Entry) : Nat :=
  (nextBefore.map (fun z =>
    let old := match findId prevAfter z.id with
      | some z' => weight y z'
      | none => 0
    weight y z - old)).sum

/-- the wait of entry `y`: from the first observation in which it is pending and eligible to the first in which it is
    attempted.  Returns (found eligible, attempted, busy iterations, bound). -/
def waitOf (y : Nat) : List Obs → Bool × Bool × Nat × Nat
  | [] => (false, false, 0, 0)
  | o :: rest =>
    match findId o.before y with
    | some ye =>
      if eligible ye o.earlier 0 then
        -- walk from here
        let rec go (ye : Entry) (prevAfter : Option (List Entry)) (busy bound : Nat) : List Obs → Bool × Nat × Nat
          | [] => (false, busy, bound)
          | o :: rest =>
            let bound := match prevAfter with
              | some pa => bound + arrivals ye pa o.before
              | none => bound
            if o.attempted == some y then (true, busy, bound)
            else
              let busy := if o.attempted.isSome then busy + 1 else busy
              let bound := if o.kind == .keep && !o.raised then bound + 1 else bound     -- a plain requeue
              -- entries created by the step itself (a split)
              let bound := bound + ((o.after.filter (fun z => (findId o.before z.id).isNone)).map (weight ye)).sum
              go ye (some o.after) busy bound rest
        let r := go ye none 0 (potential ye o.before) (o :: rest)
        (true, r.1, r.2.1, r.2.2)
      else waitOf y rest
    | none => waitOf y rest

end CS.SchedLoop
