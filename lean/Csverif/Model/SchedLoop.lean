import Csverif.Model.Sched
import Csverif.Model.Runnable
/-
Model of the sync loop at the level C17's liveness clause speaks about:
`Runnable.run` (runnable.py:73-141, loop body 100-126) calling `SyncManager.do` (manager.py:222-239) over an abstract
work queue.

  do():   sync = state.change(aging)
          if sync:  something_got_done = _sync_one_entry(sync)
          else:     time.sleep(aging)
          if not something_got_done: nothing_happened()
  _sync_one_entry (manager.py:180-203) is abstracted to its four possible effects on scheduling (`Work`):
    finished  every changed side is finished (`changed = 0`, `state.finished`): the entry leaves the queue; returns True
    punted    the sync logic defers the entry (`sync.punt()`), returns False
    requeue   nothing settled and no punt, returns False
    raised    an exception: `sync.punt()`, `self.backoff()` — the loop backs off (`Runnable.incr`)
  run():  success clears a backoff, nothing_happened keeps it, a backoff request increments it; then sleep
          `in_backoff` if positive, else `sleep`  — `Runnable.after` / `Runnable.sleepFor` of Model/Runnable.lean.

The queue is a list of `Sched.Entry` in changeset order; selection is `Sched.change`, deferral is `Sched.puntE`.
Not modelled here: the priority reset of related entries by `finished` (entries of the queue are taken to be
unrelated), new work arriving while the loop runs, `_validate_provider_roots`.
-/
namespace CS.SchedLoop
open CS.Sched

inductive Work where
  | finished | punted | requeue | raised
  deriving Repr, DecidableEq

structure Cfg where
  age   : Rat                 -- SyncManager.aging
  sleep : Rat                 -- the `sleep` argument of Runnable.run
  punt  : Rat × Rat           -- SyncState._punt_secs
  bp    : Runnable.Params     -- min_backoff, max_backoff, mult_backoff

structure Loop where
  P       : List Entry        -- pending work, changeset order
  now     : Rat               -- the clock at the head of the iteration
  backoff : Rat               -- in_backoff

/-- what the scripted world does in one iteration: the effect of `_sync_one_entry` should an entry
    be picked, and the time that work takes -/
structure Step where
  work : Work
  dur  : Rat

def puntIn (p : Rat × Rat) (P : List Entry) (id : Nat) : List Entry :=
  P.map (fun x => if x.id == id then puntE p x else x)

def dropIn (P : List Entry) (id : Nat) : List Entry := P.filter (fun x => x.id != id)

/-- how the iteration ends for `Runnable.run` -/
def Work.outcome : Work → Runnable.Outcome
  | .finished => .success
  | .punted => .noop
  | .requeue => .noop
  | .raised => .backoffReq

def Work.apply (p : Rat × Rat) (P : List Entry) (id : Nat) : Work → List Entry
  | .finished => dropIn P id
  | .punted => puntIn p P id
  | .requeue => P
  | .raised => puntIn p P id

/-- one iteration; returns the next loop state and the entry attempted (if any) -/
def iter (c : Cfg) (L : Loop) (w : Step) : Loop × Option Entry :=
  match change L.P L.now c.age with
  | none =>
    -- nothing eligible: time.sleep(aging); nothing_happened(); then the loop's own sleep
    let b := Runnable.after c.bp L.backoff .noop
    ({ L with now := L.now + c.age + Runnable.sleepFor c.sleep b, backoff := b }, none)
  | some e =>
    let b := Runnable.after c.bp L.backoff w.work.outcome
    ({ P := w.work.apply c.punt L.P e.id, now := L.now + w.dur + Runnable.sleepFor c.sleep b, backoff := b }, some e)

/-- a record of one iteration: clock at its head, entry attempted, what the world did -/
structure Rec where
  at_  : Rat
  ent  : Option Entry
  work : Work

/-- run a finite script; any number of iterations -/
def run (c : Cfg) : Loop → List Step → Loop × List Rec
  | L, [] => (L, [])
  | L, w :: ws =>
    let (L1, a) := iter c L w
    let (L2, tr) := run c L1 ws
    (L2, { at_ := L.now, ent := a, work := w.work } :: tr)

end CS.SchedLoop
