/-
Model of the storage backends.

* `Sqlite`: cloudsync/sync/sqlite_storage.py — one table `cloud(id INTEGER PRIMARY KEY, tag, serialization)`
  and the five statements the class issues.  `INTEGER PRIMARY KEY` without AUTOINCREMENT: a new
  rowid is `max(rowid)+1` over the whole table (all tags), `1` for an empty table.
* `Mock`: cloudsync/tests/fixtures/mock_storage.py — a shared dict `tag ↦ (id ↦ bytes)` plus a
  per-instance counter.
* `Spec`: the reference map `(tag, id) ↦ value`.

Values are an arbitrary type `V` (bytes, or the ints/floats used for cursors): the backends never
inspect them.  Ids handed in by callers are `Option Nat` (`none` = a Python value that is not an
integer row id, e.g. `None`, which hits no row).
-/
namespace CS.Storage

abbrev Tag := String

structure Row (V : Type) where
  id  : Nat
  tag : Tag
  val : V
  deriving Repr, DecidableEq

/-- operations of the `Storage` interface -/
inductive Op (V : Type) where
  | create  (tag : Tag) (v : V)
  | update  (tag : Tag) (v : V) (eid : Option Nat)
  | delete  (tag : Tag) (eid : Option Nat)
  | read    (tag : Tag) (eid : Option Nat)
  | readAll (tag : Option Tag)
  | reopen                                   -- close the connection and open the file again
  deriving Repr

/-- observable results -/
inductive Res (V : Type) where
  | id (n : Nat)                              -- create
  | count (n : Nat)                           -- update: rows changed
  | unit                                      -- delete, reopen
  | val (v : Option V)                        -- read
  | rows (rs : List (Tag × Nat × V))          -- read_all: the (tag, id, value) triples, table order
  | valueError                                -- Python ValueError
  deriving Repr, DecidableEq

namespace Sqlite

abbrev Table (V : Type) := List (Row V)      -- rowid order is irrelevant to the interface; kept as inserted

def maxId {V} : Table V → Nat
  | [] => 0
  | r :: rs => max r.id (maxId rs)

def hits {V} (tag : Tag) (eid : Option Nat) (r : Row V) : Bool :=
  eid == some r.id && r.tag == tag

def step {V} (t : Table V) : Op V → Table V × Res V
  | .create tag v =>
    let n := maxId t + 1
    (t ++ [{ id := n, tag := tag, val := v }], .id n)
  | .update tag v eid =>
    let cnt := (t.filter (hits tag eid)).length
    if cnt == 0 then (t, .valueError)
    else (t.map (fun r => if hits tag eid r then { r with val := v } else r), .count cnt)
  | .delete tag eid => (t.filter (fun r => !hits tag eid r), .unit)
  | .read tag eid =>
    (t, .val ((t.find? (hits tag eid)).map (·.val)))
  | .readAll none => (t, .rows (t.map (fun r => (r.tag, r.id, r.val))))
  | .readAll (some tag) => (t, .rows ((t.filter (·.tag == tag)).map (fun r => (r.tag, r.id, r.val))))
  | .reopen => (t, .unit)

def run {V} (t : Table V) : List (Op V) → Table V × List (Res V)
  | [] => (t, [])
  | op :: ops =>
    let (t1, r) := step t op
    let (t2, rs) := run t1 ops
    (t2, r :: rs)

/-! ### Paged readers (size-independence of `read_all`)

`read_all` in the code is ONE un-paged `SELECT` per form (tools/gen_sql_sites.py + Props/C09Sql.lean pin that down).
An implementation is free to fetch the same rows in pages; the definitions below say what a keyset-paged reader
computes on the model table, for an arbitrary page size `p` and an arbitrary cursor rule, so that Props/C09.lean can
prove that paging is invisible (for every `p ≥ 1` and every reachable table) exactly when the cursor rule is the
correct one, and exhibit what the off-by-one rule loses. -/

/-- the rows selected by the two `read_all` forms (`WHERE tag = ?` / no `WHERE`) -/
def sel {V} (tag : Option Tag) (r : Row V) : Bool :=
  match tag with
  | none => true
  | some tg => r.tag == tg

/-- `ORDER BY id`: insertion sort on the row id -/
def insertById {V} (r : Row V) : Table V → Table V
  | [] => [r]
  | x :: xs => if r.id ≤ x.id then r :: x :: xs else x :: insertById r xs

def orderById {V} : Table V → Table V
  | [] => []
  | r :: rs => insertById r (orderById rs)

/-- one page: `SELECT id, tag, serialization FROM cloud WHERE [tag = ? AND] id > pos ORDER BY id LIMIT p` -/
def page {V} (t : Table V) (tag : Option Tag) (pos p : Nat) : Table V :=
  (orderById (t.filter (fun r => sel tag r && decide (pos < r.id)))).take p

/-- the paging loop: fetch a page; a short page ends the scan; after a full page the cursor becomes
    `last id + bump`.  `bump = 0` is the correct rule for the strict comparison `id > ?`; `bump = 1` is the
    off-by-one rule (`pos = rows[-1][0] + 1`).  `fuel` bounds the number of pages. -/
def pagedGo {V} (t : Table V) (tag : Option Tag) (p bump : Nat) : Nat → Nat → Table V
  | 0, _ => []
  | fuel + 1, pos =>
    let pg := page t tag pos p
    if pg.length < p then pg
    else
      match pg.getLast? with
      | none => pg
      | some l => pg ++ pagedGo t tag p bump fuel (l.id + bump)

/-- a paged `read_all` starting at cursor 0 (row ids start at 1) with enough fuel for one page per row -/
def pagedRows {V} (t : Table V) (tag : Option Tag) (p bump : Nat) : Table V :=
  pagedGo t tag p bump (t.length + 1) 0

def pagedReadAll {V} (t : Table V) (tag : Option Tag) (p bump : Nat) : Res V :=
  .rows ((pagedRows t tag p bump).map (fun r => (r.tag, r.id, r.val)))

end Sqlite

/-! ### Connection-level refinement (durability across reconnects)

`SqliteStorage` owns ONE sqlite3 connection at a time (sqlite_storage.py:21-32); `__db_execute` (33-46) replaces it when an
`execute` raises `sqlite3.OperationalError` and retries the statement once; a second failure propagates to the caller.  What other
connections - a fresh `sqlite3.connect`, or the object made by close + reopen - can see is the COMMITTED table; the current
connection sees the committed table plus its own open transaction.  In autocommit mode (`isolation_level=None`) every statement is
its own transaction; otherwise Python's sqlite3 opens an implicit transaction before INSERT / UPDATE / DELETE that nobody commits,
and `close()` rolls it back.  Whether a connection is in autocommit mode is decided where it is configured: `Cfg.initAuto` for the
connection made by `__init__` (`__db_connect` + `_ensure_table_exists`), `Cfg.reconnAuto` for a replacement made by the reconnect
branch (`__db_connect` alone).  Props/C09Sql.lean derives the `Cfg` of the code from the extracted connection-configuration sites. -/
namespace Conn

structure Cfg where
  initAuto   : Bool     -- autocommit on the connection configured by `__init__`
  reconnAuto : Bool     -- autocommit on a replacement connection made by the reconnect branch of `__db_execute`
  deriving DecidableEq, Repr

structure St (V : Type) where
  committed : Sqlite.Table V    -- the file as every other connection sees it
  view      : Sqlite.Table V    -- the file as the object's current connection sees it (committed + its open transaction)
  auto      : Bool              -- the current connection is in autocommit mode
  dirty     : Bool              -- the current connection holds an open (implicit) write transaction
  locked    : Bool              -- another connection holds the write lock (`BEGIN IMMEDIATE`) beyond the busy timeout

def init {V} (cfg : Cfg) : St V :=
  { committed := [], view := [], auto := cfg.initAuto, dirty := false, locked := false }

/-- calls on the object, with the faults that hit them, and what happens around it -/
inductive COp (V : Type) where
  /-- an interface call during which the next `execFaults` calls of `connection.execute` raise `OperationalError`
      (0 none, 1 transient: the retry succeeds, ≥ 2 persistent) and, if `fetchFault`, `cursor.fetchall` raises it -/
  | call (o : Op V) (execFaults : Nat) (fetchFault : Bool)
  | fresh (tag : Option Tag)     -- `SELECT id, tag, serialization FROM cloud [WHERE tag = ?]` through a fresh connection
  | lock                         -- another connection runs `BEGIN IMMEDIATE` and keeps the transaction open
  | unlock                       -- … and rolls it back

inductive CRes (V : Type) where
  | ok (r : Res V)
  | operationalError             -- `sqlite3.OperationalError` reaches the caller
  | busy                         -- `lock`: the other connection cannot get the write lock
  deriving Repr, DecidableEq

def isWrite {V} : Op V → Bool
  | .create .. | .update .. | .delete .. => true
  | _ => false

def usesFetch {V} : Op V → Bool
  | .read .. | .readAll .. => true
  | _ => false

/-- `__db_connect` from the reconnect branch: `self.close()` (the old connection's open transaction is rolled back),
    then a new connection configured by the connect call alone -/
def reconnect {V} (cfg : Cfg) (s : St V) : St V :=
  { s with view := s.committed, auto := cfg.reconnAuto, dirty := false }

/-- one successful `execute` of the operation's statement on the current connection -/
def exec {V} (s : St V) (o : Op V) : St V × Res V :=
  if isWrite o then
    if s.auto then
      -- autocommit: the statement is its own transaction
      ({ s with view := (Sqlite.step s.view o).1, committed := (Sqlite.step s.view o).1 }, (Sqlite.step s.view o).2)
    else
      -- implicit BEGIN, never committed
      ({ s with view := (Sqlite.step s.view o).1, dirty := true }, (Sqlite.step s.view o).2)
  else (s, (Sqlite.step s.view o).2)

/-- `__db_execute`: try, on `OperationalError` reconnect and retry once; `none` = the error reaches the caller.
    A write statement fails for as long as another connection holds the write lock (readers are not blocked: WAL). -/
def attempt {V} (cfg : Cfg) (s : St V) (o : Op V) (n : Nat) : St V × Option (Res V) :=
  if n = 0 ∧ (s.locked && isWrite o) = false then
    ((exec s o).1, some (exec s o).2)
  else if n ≤ 1 ∧ (s.locked && isWrite o) = false then
    ((exec (reconnect cfg s) o).1, some (exec (reconnect cfg s) o).2)
  else (reconnect cfg s, none)

def step {V} (cfg : Cfg) (s : St V) : COp V → St V × CRes V
  | .call .reopen n _ =>
    -- `close()` + a new object: `__db_connect`, then the five set-up statements through `__db_execute`; if one of them hits a
    -- (transient) fault the rest runs on a replacement connection.  (Not modelled: reopen while the file is locked.)
    ({ s with view := s.committed, dirty := false, auto := if n = 0 then cfg.initAuto else cfg.reconnAuto }, .ok .unit)
  | .call o n ff =>
    match (attempt cfg s o n).2 with
    | none => ((attempt cfg s o n).1, .operationalError)
    | some r => if ff && usesFetch o then ((attempt cfg s o n).1, .operationalError) else ((attempt cfg s o n).1, .ok r)
  | .fresh tag => (s, .ok (Sqlite.step s.committed (.readAll tag)).2)
  | .lock => if s.dirty || s.locked then (s, .busy) else ({ s with locked := true }, .ok .unit)
  | .unlock => ({ s with locked := false }, .ok .unit)

def run {V} (cfg : Cfg) (s : St V) : List (COp V) → St V × List (CRes V)
  | [] => (s, [])
  | op :: ops =>
    let (s1, r) := step cfg s op
    let (s2, rs) := run cfg s1 ops
    (s2, r :: rs)

/-- the operations that were acknowledged (returned normally), in order -/
def acked {V} : List (COp V) → List (CRes V) → List (Op V)
  | .call o _ _ :: ops, .ok _ :: rs => o :: acked ops rs
  | _ :: ops, _ :: rs => acked ops rs
  | _, _ => []

end Conn

namespace Mock

/-- the shared dict (tag ↦ id ↦ value) as an association list, plus the instance counter -/
structure St (V : Type) where
  rows   : List (Row V)
  cursor : Nat

def hits {V} (tag : Tag) (eid : Option Nat) (r : Row V) : Bool :=
  eid == some r.id && r.tag == tag

def step {V} (s : St V) : Op V → St V × Res V
  | .create tag v =>
    -- `storage[current_index] = serialization`: overwrites an existing key of that tag
    let n := s.cursor
    ({ rows := s.rows.filter (fun r => !hits tag (some n) r) ++ [{ id := n, tag := tag, val := v }],
       cursor := n + 1 }, .id n)
  | .update tag v eid =>
    if s.rows.any (hits tag eid) then
      ({ s with rows := s.rows.map (fun r => if hits tag eid r then { r with val := v } else r) }, .count 1)
    else (s, .valueError)
  | .delete tag eid => ({ s with rows := s.rows.filter (fun r => !hits tag eid r) }, .unit)
  | .read tag eid =>
    match s.rows.find? (hits tag eid) with
    | some r => (s, .val (some r.val))
    | none => (s, .valueError)                 -- fixture quirk: raises instead of returning None
  | .readAll none => (s, .rows (s.rows.map (fun r => (r.tag, r.id, r.val))))
  | .readAll (some tag) => (s, .rows ((s.rows.filter (·.tag == tag)).map (fun r => (r.tag, r.id, r.val))))
  | .reopen => ({ s with cursor := 0 }, .unit)   -- a new MockStorage over the same dict restarts at 0

end Mock

-- Reference semantics: a finite map (tag, id) ↦ value.
namespace Spec

abbrev M (V : Type) := Tag → Nat → Option V

def empty {V} : M V := fun _ _ => none

def set {V} (m : M V) (tag : Tag) (n : Nat) (v : Option V) : M V :=
  fun t i => if t = tag ∧ i = n then v else m t i

/-- what the interface promises for each operation, given the concrete result of `create` -/
def stepOk {V} [DecidableEq V] (m : M V) (op : Op V) (res : Res V) (m' : M V) : Prop :=
  match op with
  | .create tag v => ∃ n, res = .id n ∧ (∀ t, m t n = none) ∧ m' = set m tag n (some v)
  | .update tag v (some n) =>
    (m tag n = none ∧ res = .valueError ∧ m' = m) ∨
    (m tag n ≠ none ∧ res = .count 1 ∧ m' = set m tag n (some v))
  | .update _ _ none => res = .valueError ∧ m' = m
  | .delete tag (some n) => res = .unit ∧ m' = set m tag n none
  | .delete _ none => res = .unit ∧ m' = m
  | .read tag (some n) => res = .val (m tag n) ∧ m' = m
  | .read _ none => res = .val none ∧ m' = m
  | .readAll none =>
    m' = m ∧ ∃ rs, res = .rows rs ∧ (∀ t n v, (t, n, v) ∈ rs ↔ m t n = some v)
  | .readAll (some tag) =>
    m' = m ∧ ∃ rs, res = .rows rs ∧ (∀ t n v, (t, n, v) ∈ rs ↔ (t = tag ∧ m t n = some v))
  | .reopen => res = .unit ∧ m' = m

end Spec

end CS.Storage
