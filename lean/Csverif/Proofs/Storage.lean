import Csverif.Model.Storage
/- helper lemmas for Props/C09.lean -/
namespace CS.Storage
namespace Sqlite
variable {V : Type}

/-- primary-key invariant: row ids are unique in the table -/
def Inv (t : Table V) : Prop := (t.map (·.id)).Nodup

/-- abstraction: the table read as a map (tag, id) ↦ value -/
def abs (t : Table V) : Spec.M V := fun tag n => (t.find? (hits tag (some n))).map (·.val)

theorem hits_iff (tag : Tag) (n : Nat) (r : Row V) : hits tag (some n) r = true ↔ (r.id = n ∧ r.tag = tag) := by
  simp only [hits, Bool.and_eq_true, beq_iff_eq, Option.some.injEq]
  constructor
  · intro ⟨a, b⟩; exact ⟨a.symm, b⟩
  · intro ⟨a, b⟩; exact ⟨a.symm, b⟩

theorem hits_none (tag : Tag) (r : Row V) : hits tag none r = false := by
  simp [hits]

theorem maxId_ge (t : Table V) (r : Row V) (h : r ∈ t) : r.id ≤ maxId t := by
  induction t with
  | nil => cases h
  | cons x xs ih =>
    simp [maxId]
    cases h with
    | head => omega
    | tail _ h' => have := ih h'; omega

theorem find_none_of_fresh (t : Table V) (tag : Tag) (n : Nat) (hn : maxId t < n) :
    t.find? (hits tag (some n)) = none := by
  rw [List.find?_eq_none]
  intro r hr hh
  have := (hits_iff tag n r).1 hh
  have := maxId_ge t r hr
  omega

theorem abs_eq_some_iff (t : Table V) (hinv : Inv t) (tag : Tag) (n : Nat) (v : V) :
    abs t tag n = some v ↔ (⟨n, tag, v⟩ : Row V) ∈ t := by
  unfold abs
  constructor
  · intro h
    cases hf : t.find? (hits tag (some n)) with
    | none => simp [hf] at h
    | some r =>
      simp [hf] at h
      have hm := List.mem_of_find?_eq_some hf
      have hh := List.find?_some hf
      have := (hits_iff tag n r).1 hh
      obtain ⟨rid, rtag, rval⟩ := r
      simp at this h
      obtain ⟨a, b⟩ := this
      subst a; subst b; subst h
      exact hm
  · intro hm
    induction t with
    | nil => cases hm
    | cons x xs ih =>
      have hnd : x.id ∉ xs.map (·.id) ∧ Inv xs := by
        simpa [Inv, List.nodup_cons] using hinv
      by_cases hx : hits tag (some n) x = true
      · simp [List.find?, hx]
        have hx' := (hits_iff tag n x).1 hx
        cases hm with
        | head => rfl
        | tail _ h' =>
          exfalso
          apply hnd.1
          have : (⟨n, tag, v⟩ : Row V).id = x.id := by simp [hx'.1]
          rw [← this]
          exact List.mem_map_of_mem h'
      · have hx0 : hits tag (some n) x = false := by simpa using hx
        simp [List.find?, hx0]
        cases hm with
        | head => exfalso; apply hx; exact (hits_iff tag n _).2 ⟨rfl, rfl⟩
        | tail _ h' => simpa using ih hnd.2 h'

end Sqlite
end CS.Storage

namespace CS.Storage
namespace Sqlite
variable {V : Type}

theorem fresh_not_mem (t : Table V) : maxId t + 1 ∉ t.map (·.id) := by
  intro h
  obtain ⟨r, hr, he⟩ := List.mem_map.1 h
  have := maxId_ge t r hr
  omega

theorem map_upd_ids (t : Table V) (tag : Tag) (eid : Option Nat) (v : V) :
    (t.map (fun r => if hits tag eid r then { r with val := v } else r)).map (·.id) = t.map (·.id) := by
  induction t with
  | nil => rfl
  | cons x xs ih =>
    simp only [List.map_cons, ih]
    congr 1
    split <;> rfl

theorem inv_step (t : Table V) (op : Op V) (h : Inv t) : Inv (step t op).1 := by
  cases op with
  | create tag v =>
    simp only [step, Inv, List.map_append, List.map_cons, List.map_nil]
    rw [List.nodup_append]
    refine ⟨h, by simp, ?_⟩
    intro a ha b hb
    simp at hb
    subst hb
    intro hab
    subst hab
    exact fresh_not_mem t ha
  | update tag v eid =>
    simp only [step]
    split
    · exact h
    · simp only [Inv, map_upd_ids]; exact h
  | delete tag eid =>
    simp only [step, Inv]
    exact List.Nodup.sublist (List.Sublist.map _ (List.filter_sublist)) h
  | read tag eid => exact h
  | readAll o => cases o <;> exact h
  | reopen => exact h

theorem abs_create (t : Table V) (tag : Tag) (v : V) :
    abs (t ++ [{ id := maxId t + 1, tag := tag, val := v }]) = Spec.set (abs t) tag (maxId t + 1) (some v) := by
  funext tag' i
  simp only [abs, Spec.set, List.find?_append]
  by_cases hc : tag' = tag ∧ i = maxId t + 1
  · obtain ⟨h1, h2⟩ := hc
    subst h1; subst h2
    rw [find_none_of_fresh t tag' _ (by omega)]
    simp [List.find?, hits]
  · rw [if_neg hc]
    cases hf : t.find? (hits tag' (some i)) with
    | some r => simp
    | none =>
      have : hits tag' (some i) ({ id := maxId t + 1, tag := tag, val := v } : Row V) = false := by
        cases hh : hits tag' (some i) ({ id := maxId t + 1, tag := tag, val := v } : Row V) with
        | false => rfl
        | true =>
          have := (hits_iff tag' i _).1 hh
          simp at this
          exact absurd ⟨this.2.symm, this.1.symm⟩ hc
      simp [List.find?, this]

theorem hits_upd (tag tag' : Tag) (eid : Option Nat) (i : Nat) (v : V) (r : Row V) :
    hits tag' (some i) (if hits tag eid r then { r with val := v } else r) = hits tag' (some i) r := by
  split <;> simp [hits]

theorem abs_update (t : Table V) (tag : Tag) (n : Nat) (v : V) (hfound : abs t tag n ≠ none) :
    abs (t.map (fun r => if hits tag (some n) r then { r with val := v } else r)) = Spec.set (abs t) tag n (some v) := by
  funext tag' i
  simp only [abs, Spec.set, List.find?_map]
  have hcomp : (hits tag' (some i) ∘ fun r : Row V => if hits tag (some n) r then { r with val := v } else r)
      = hits tag' (some i) := by
    funext r; simp only [Function.comp]; exact hits_upd tag tag' (some n) i v r
  rw [hcomp]
  by_cases hc : tag' = tag ∧ i = n
  · obtain ⟨h1, h2⟩ := hc
    subst h1; subst h2
    rw [if_pos ⟨rfl, rfl⟩]
    cases hf : t.find? (hits tag' (some i)) with
    | none => simp [abs, hf] at hfound
    | some r =>
      have := List.find?_some hf
      simp [this]
  · rw [if_neg hc]
    cases hf : t.find? (hits tag' (some i)) with
    | none => simp
    | some r =>
      have h1 := (hits_iff tag' i r).1 (List.find?_some hf)
      have : hits tag (some n) r = false := by
        cases hh : hits tag (some n) r with
        | false => rfl
        | true =>
          have h2 := (hits_iff tag n r).1 hh
          exact absurd ⟨h1.2.symm.trans h2.2, h1.1.symm.trans h2.1⟩ hc
      simp [this]

theorem find_ext {α} (l : List α) (p q : α → Bool) (h : ∀ a ∈ l, p a = q a) : l.find? p = l.find? q := by
  induction l with
  | nil => rfl
  | cons x xs ih =>
    simp only [List.find?, h x (List.mem_cons_self)]
    rw [ih (fun a ha => h a (List.mem_cons_of_mem _ ha))]

theorem abs_delete (t : Table V) (tag : Tag) (n : Nat) :
    abs (t.filter (fun r => !hits tag (some n) r)) = Spec.set (abs t) tag n none := by
  funext tag' i
  simp only [abs, Spec.set, List.find?_filter]
  by_cases hc : tag' = tag ∧ i = n
  · obtain ⟨h1, h2⟩ := hc
    subst h1; subst h2
    rw [if_pos ⟨rfl, rfl⟩]
    have : t.find? (fun a => (!hits tag' (some i) a) && hits tag' (some i) a) = none := by
      rw [List.find?_eq_none]; intro r _; simp
    simp
  · rw [if_neg hc]
    congr 1
    apply find_ext
    intro r _
    cases hh : hits tag' (some i) r with
    | false => simp
    | true =>
      have h1 := (hits_iff tag' i r).1 hh
      have : hits tag (some n) r = false := by
        cases hh2 : hits tag (some n) r with
        | false => rfl
        | true =>
          have h2 := (hits_iff tag n r).1 hh2
          exact absurd ⟨h1.2.symm.trans h2.2, h1.1.symm.trans h2.1⟩ hc
      simp [this]

theorem filter_hits_le_one (t : Table V) (h : Inv t) (tag : Tag) (n : Nat) :
    (t.filter (hits tag (some n))).length ≤ 1 := by
  induction t with
  | nil => simp
  | cons x xs ih =>
    have hnd : x.id ∉ xs.map (·.id) ∧ Inv xs := by simpa [Inv, List.nodup_cons] using h
    by_cases hx : hits tag (some n) x = true
    · have hx' := (hits_iff tag n x).1 hx
      have : xs.filter (hits tag (some n)) = [] := by
        rw [List.filter_eq_nil_iff]
        intro r hr hh
        have hr' := (hits_iff tag n r).1 hh
        apply hnd.1
        rw [hx'.1, ← hr'.1]
        exact List.mem_map_of_mem hr
      simp [List.filter, hx, this]
    · have hx0 : hits tag (some n) x = false := by simpa using hx
      simp only [List.filter, hx0]
      exact ih hnd.2

theorem filter_hits_length (t : Table V) (h : Inv t) (tag : Tag) (n : Nat) :
    (t.filter (hits tag (some n))).length = if abs t tag n = none then 0 else 1 := by
  have hle := filter_hits_le_one t h tag n
  by_cases hn : abs t tag n = none
  · rw [if_pos hn]
    simp only [abs, Option.map_eq_none_iff] at hn
    rw [List.find?_eq_none] at hn
    have : t.filter (hits tag (some n)) = [] := by
      rw [List.filter_eq_nil_iff]; exact hn
    simp [this]
  · rw [if_neg hn]
    have : t.filter (hits tag (some n)) ≠ [] := by
      intro he
      apply hn
      simp only [abs, Option.map_eq_none_iff]
      rw [List.find?_eq_none]
      exact List.filter_eq_nil_iff.1 he
    have : 0 < (t.filter (hits tag (some n))).length := List.length_pos_iff.2 this
    omega

end Sqlite
end CS.Storage
