import Csverif.Proofs.Codec
import Csverif.Proofs.Storage
/- helper lemmas for Props/C08.lean, part 2: a small Hoare logic for the hook code of Model/Codec.lean
   (`CS.Persist`) and the frame it preserves. -/
namespace CS.Persist
open CS.Codec CS.Storage

/-- entry `i` may differ from its stored row: it is waiting in the dirty set, or it was changed on
    a path that reaches no dirty mark (ghost) -/
def Covered (st : St) (i : Nat) : Prop := i ∈ st.dirty ∨ i ∈ st.silent

/-- What hook code may do to the state.  `x` is the entry whose own hook is still running (it may
    be written before its dirty mark).  Storage, storage ids and the number of entries are untouched;
    an entry whose content changes is covered. -/
structure LeX (x : Option Nat) (a b : St) : Prop where
  store : b.store = a.store
  len : b.ents.length = a.ents.length
  cov : ∀ i : Nat, Covered a i → Covered b i
  ents : ∀ i : Nat, b.ents[i]? = a.ents[i]? ∨ Covered b i ∨ x = some i
  sid : ∀ i : Nat, (b.ents[i]?).map Entry.storageId = (a.ents[i]?).map Entry.storageId

theorem LeX.refl (x : Option Nat) (a : St) : LeX x a a :=
  ⟨rfl, rfl, fun _ h => h, fun _ => Or.inl rfl, fun _ => rfl⟩

theorem LeX.trans {x : Option Nat} {a b c : St} (h1 : LeX x a b) (h2 : LeX x b c) : LeX x a c where
  store := h2.store.trans h1.store
  len := h2.len.trans h1.len
  cov := fun i h => h2.cov i (h1.cov i h)
  ents := fun i => by
    rcases h2.ents i with h | h | h
    · rcases h1.ents i with g | g | g
      · exact Or.inl (h.trans g)
      · exact Or.inr (Or.inl (h2.cov i g))
      · exact Or.inr (Or.inr g)
    · exact Or.inr (Or.inl h)
    · exact Or.inr (Or.inr h)
  sid := fun i => (h2.sid i).trans (h1.sid i)

theorem LeX.weaken {x : Option Nat} {a b : St} (h : LeX none a b) : LeX x a b := by
  refine ⟨h.store, h.len, h.cov, fun i => ?_, h.sid⟩
  rcases h.ents i with g | g | g
  · exact Or.inl g
  · exact Or.inr (Or.inl g)
  · cases g

theorem LeX.close {i : Nat} {a b : St} (h : LeX (some i) a b) (hc : Covered b i) : LeX none a b := by
  refine ⟨h.store, h.len, h.cov, fun j => ?_, h.sid⟩
  rcases h.ents j with g | g | g
  · exact Or.inl g
  · exact Or.inr (Or.inl g)
  · cases g; exact Or.inr (Or.inl hc)

/-- `m` keeps the frame from every start state, whatever its outcome -/
structure Pres {α} (x : Option Nat) (m : M α) : Prop where
  run : ∀ a, LeX x a (m a).2
/-- `Q` holds after every normal return of `m` -/
structure Post {α} (Q : St → Prop) (m : M α) : Prop where
  run : ∀ a r, (m a).1 = .ok r → Q (m a).2

theorem bind_run {α β} (m : M α) (f : α → M β) (a : St) :
    (m >>= f) a = (match m a with
      | (.ok r, s') => f r s'
      | (.error e, s') => (.error e, s')) := rfl

theorem Pres_bind {α β} {x : Option Nat} {m : M α} {f : α → M β} (h1 : Pres x m) (h2 : ∀ r, Pres x (f r)) :
    Pres x (m >>= f) := by
  constructor
  intro a
  rw [bind_run]
  have := h1.run a
  rcases hm : m a with ⟨r | r, s'⟩
  · simpa [hm] using this
  · simp only [hm] at this ⊢
    exact this.trans ((h2 r).run s')

theorem Pres_pure {α} {x : Option Nat} (r : α) : Pres x (pure r : M α) := ⟨fun a => LeX.refl x a⟩
theorem Pres_raise {α} {x : Option Nat} (e : HErr) : Pres x (raise e : M α) := ⟨fun a => LeX.refl x a⟩
theorem Pres_getSt {x : Option Nat} : Pres x getSt := ⟨fun a => LeX.refl x a⟩
theorem Pres_getEnt {x : Option Nat} (i : Nat) : Pres x (getEnt i) := ⟨fun a => LeX.refl x a⟩
theorem Pres_getSide {x : Option Nat} (i : Nat) (sd : Sd) : Pres x (getSide i sd) := ⟨fun a => LeX.refl x a⟩
theorem Pres_weaken {α} {x : Option Nat} {m : M α} (h : Pres none m) : Pres x m := ⟨fun a => (h.run a).weaken⟩

theorem Pres_forEach {α} {x : Option Nat} (l : List α) (f : α → M Unit) (h : ∀ y, Pres x (f y)) :
    Pres x (forEach l f) := by
  induction l with
  | nil => exact Pres_pure ()
  | cons y ys ih => exact Pres_bind (h y) (fun _ => ih)

theorem setIx_ents (s : St) (sd : Sd) (ix : SideIdx) : (s.setIx sd ix).ents = s.ents := by
  cases sd <;> rfl

theorem Pres_modIx {x : Option Nat} (sd : Sd) (f : SideIdx → SideIdx) : Pres x (modIx sd f) := by
  constructor
  intro a
  cases sd <;> exact ⟨rfl, rfl, fun _ h => h, fun _ => Or.inl rfl, fun _ => rfl⟩

theorem Pres_modChangeset {x : Option Nat} (f : List Nat → List Nat) : Pres x (modChangeset f) :=
  ⟨fun _ => ⟨rfl, rfl, fun _ h => h, fun _ => Or.inl rfl, fun _ => rfl⟩⟩

theorem Pres_modMoving {x : Option Nat} (f : List Nat → List Nat) : Pres x (modMoving f) :=
  ⟨fun _ => ⟨rfl, rfl, fun _ h => h, fun _ => Or.inl rfl, fun _ => rfl⟩⟩

/-- `try … finally` with a handler that only touches `_kids_moving` -/
theorem Pres_finallyM {α} {x : Option Nat} {m : M α} (h : Pres x m) (f : List Nat → List Nat) :
    Pres x (finallyM m fun s => { s with moving := f s.moving }) := by
  constructor
  intro a
  have := h.run a
  simp only [finallyM]
  rcases hm : m a with ⟨r, s'⟩
  simp only [hm] at this ⊢
  exact this.trans ⟨rfl, rfl, fun _ h => h, fun _ => Or.inl rfl, fun _ => rfl⟩

theorem mem_sadd {s : List Nat} {x y : Nat} : y ∈ sadd s x ↔ y ∈ s ∨ y = x := by
  unfold sadd
  split
  · rename_i h
    constructor
    · exact Or.inl
    · rintro (g | g)
      · exact g
      · subst g; simpa using h
  · simp

theorem mem_sdiscard {s : List Nat} {x y : Nat} : y ∈ sdiscard s x ↔ y ∈ s ∧ y ≠ x := by
  simp [sdiscard]

theorem covered_markDirty (a : St) (i j : Nat) (h : Covered a j) :
    Covered { a with dirty := sadd a.dirty i, silent := sdiscard a.silent i } j := by
  rcases h with h | h
  · exact Or.inl (mem_sadd.2 (Or.inl h))
  · by_cases hj : j = i
    · exact Or.inl (mem_sadd.2 (Or.inr hj))
    · exact Or.inr (mem_sdiscard.2 ⟨h, hj⟩)

theorem Pres_markDirty {x : Option Nat} (i : Nat) : Pres x (markDirty i) :=
  ⟨fun a => ⟨rfl, rfl, fun j h => covered_markDirty a i j h, fun _ => Or.inl rfl, fun _ => rfl⟩⟩

theorem Post_markDirty (i : Nat) : Post (fun b => Covered b i) (markDirty i) :=
  ⟨fun _ _ _ => Or.inl (mem_sadd.2 (Or.inr rfl))⟩

def silentMark (i : Nat) (s : St) : St :=
  { s with silent := if s.dirty.contains i then s.silent else sadd s.silent i }

theorem covered_silentMark (a : St) (i : Nat) : Covered (silentMark i a) i := by
  unfold silentMark Covered
  by_cases h : a.dirty.contains i
  · left; simpa using h
  · right; simp only [h]; exact mem_sadd.2 (Or.inr rfl)

theorem covered_silentMark_mono (a : St) (i j : Nat) (h : Covered a j) : Covered (silentMark i a) j := by
  unfold silentMark
  rcases h with h | h
  · exact Or.inl h
  · right
    show j ∈ (if a.dirty.contains i then a.silent else sadd a.silent i)
    split
    · exact h
    · exact mem_sadd.2 (Or.inl h)

theorem LeX_silentMark (x : Option Nat) (a : St) (i : Nat) : LeX x a (silentMark i a) :=
  ⟨rfl, rfl, fun j h => covered_silentMark_mono a i j h, fun _ => Or.inl rfl, fun _ => rfl⟩

theorem Pres_markSilent {x : Option Nat} (i : Nat) : Pres x (markSilent i) := ⟨fun a => LeX_silentMark x a i⟩

theorem Post_markSilent (i : Nat) : Post (fun b => Covered b i) (markSilent i) :=
  ⟨fun a _ _ => covered_silentMark a i⟩

theorem getElem?_modify_sid (l : List Entry) (i j : Nat) (f : Entry → Entry) (hf : ∀ e, (f e).storageId = e.storageId) :
    ((l.modify i f)[j]?).map Entry.storageId = (l[j]?).map Entry.storageId := by
  rw [List.getElem?_modify]
  split <;> cases l[j]? <;> simp [hf]

/-- a direct write to the entry whose hook is running -/
theorem Pres_rawEnt_self (i : Nat) (f : Entry → Entry) (hf : ∀ e, (f e).storageId = e.storageId) :
    Pres (some i) (rawEnt i f) := by
  constructor
  intro a
  refine ⟨rfl, by simp [rawEnt, modSt], fun _ h => h, fun j => ?_, fun j => getElem?_modify_sid _ _ _ _ hf⟩
  by_cases h : i = j
  · exact Or.inr (Or.inr (by rw [h]))
  · left
    simp [rawEnt, modSt, h]

theorem setSide_sid (e : Entry) (sd : Sd) (s : Side) : (e.setSide sd s).storageId = e.storageId := by
  cases sd <;> rfl

theorem Pres_rawSide_self (i : Nat) (sd : Sd) (f : Side → Side) : Pres (some i) (rawSide i sd f) :=
  Pres_rawEnt_self i _ (fun e => setSide_sid e sd _)

/-- a direct write to some entry `j`, immediately followed by the ghost mark -/
theorem Pres_rawSide_markSilent {x : Option Nat} (j : Nat) (sd : Sd) (f : Side → Side) :
    Pres x (rawSide j sd f >>= fun _ => markSilent j) := by
  constructor
  intro a
  have h1 : LeX (some j) a ((rawSide j sd f) a).2 := (Pres_rawSide_self j sd f).run a
  have h2 := LeX_silentMark (some j) ((rawSide j sd f) a).2 j
  have h3 : LeX none a (silentMark j ((rawSide j sd f) a).2) := (h1.trans h2).close (covered_silentMark _ j)
  exact h3.weaken

theorem Post_bind_last {α β} {Q : St → Prop} (m : M α) {f : α → M β} (h : ∀ r, Post Q (f r)) : Post Q (m >>= f) := by
  constructor
  intro a r hr
  rw [bind_run] at hr ⊢
  rcases hm : m a with ⟨r' | r', s'⟩
  · simp [hm] at hr
  · simp only [hm] at hr ⊢
    exact (h r').run s' r hr

theorem Post_raise {α} {Q : St → Prop} (e : HErr) : Post Q (raise e : M α) := by
  constructor
  intro a r hr; cases hr

theorem bind_assoc_M {α β γ} (m : M α) (f : α → M β) (g : β → M γ) :
    ((m >>= f) >>= g) = (m >>= fun r => f r >>= g) := by
  funext a
  simp only [bind_run]
  rcases m a with ⟨r | r, s'⟩ <;> simp

/-- the same, with a continuation -/
theorem Pres_rawSide_markSilent_then {β} {x : Option Nat} (j : Nat) (sd : Sd) (f : Side → Side) {k : Unit → M β}
    (hk : ∀ r, Pres x (k r)) : Pres x (rawSide j sd f >>= fun _ => markSilent j >>= k) := by
  have := Pres_bind (Pres_rawSide_markSilent (x := x) j sd f) hk
  rwa [bind_assoc_M] at this

theorem Post_bind_stable {α β} {Q : St → Prop} {m : M α} {f : α → M β} (h : Post Q m)
    (hf : ∀ r a, Q a → Q ((f r) a).2) : Post Q (m >>= f) := by
  constructor
  intro a r hr
  rw [bind_run] at hr ⊢
  rcases hm : m a with ⟨r' | r', s'⟩
  · simp [hm] at hr
  · simp only [hm] at hr ⊢
    exact hf r' s' (by simpa [hm] using h.run a r' (by simp [hm]))

macro "pres_step" : tactic => `(tactic| first
  | apply Pres_rawSide_markSilent_then
  | apply Pres_rawSide_markSilent
  | apply Pres_bind
  | apply Pres_getSt | apply Pres_getEnt | apply Pres_getSide
  | apply Pres_modIx | apply Pres_modChangeset | apply Pres_markDirty | apply Pres_markSilent
  | apply Pres_rawSide_self | apply Pres_forEach
  | apply Pres_raise | apply Pres_pure
  | (apply Pres_weaken; solve | apply_assumption)
  | intro _
  | split
  | dsimp only)

macro "pres" : tactic => `(tactic| repeat' pres_step)

/-! ### every hook keeps the frame -/

theorem covered_rawEnt (a : St) (i j : Nat) (f : Entry → Entry) (h : Covered a j) : Covered ((rawEnt i f) a).2 j := h

attribute [local irreducible] rawSide rawEnt markSilent markDirty getSide getEnt getSt modIx modChangeset raise modSt forEach


section
variable (rec : Call → M Unit) (hrec : ∀ c, Pres none (rec c))
include hrec

theorem Pres_updateKidsOf (i : Nat) (sd : Sd) (pp p : Val) : Pres (some i) (updateKidsOf rec i sd pp p) := by
  unfold updateKidsOf
  pres

theorem Pres_updateKids (i : Nat) (sd : Sd) (pp p : Val) : Pres (some i) (updateKids rec i sd pp p) := by
  unfold updateKids
  exact Pres_bind (Pres_modMoving _) (fun _ => Pres_finallyM (Pres_updateKidsOf rec hrec i sd pp p) _)


theorem Pres_changePath (i : Nat) (sd : Sd) (p : Val) : Pres (some i) (changePath rec i sd p) := by
  unfold changePath
  repeat' (first | apply Pres_updateKids rec hrec | pres_step)

theorem Pres_changeOid (i : Nat) (sd : Sd) (p : Val) : Pres (some i) (changeOid rec i sd p) := by
  unfold changeOid
  pres

theorem Pres_updatedChanged (i : Nat) (sd : Sd) (p : Val) : Pres (some i) (updatedChanged i sd p) := by
  unfold updatedChanged
  pres

theorem Pres_updatedPriority (i : Nat) (p : Int) : Pres (some i) (updatedPriority rec i p) := by
  unfold updatedPriority
  pres

theorem Pres_updatedSide (i : Nat) (sd : Sd) (w : SideWrite) : Pres (some i) (updatedSide rec i sd w) := by
  unfold updatedSide
  repeat' (first | apply Pres_changePath rec hrec | apply Pres_changeOid rec hrec | apply Pres_updatedChanged rec hrec | pres_step)

theorem Pres_updatedEnt (i : Nat) (w : EntWrite) : Pres (some i) (updatedEnt rec i w) := by
  unfold updatedEnt
  repeat' (first | apply Pres_updatedPriority rec hrec | pres_step)

theorem Pres_sideSetattr (i : Nat) (sd : Sd) (w : SideWrite) : Pres (some i) (sideSetattr rec i sd w) := by
  unfold sideSetattr
  repeat' (first | apply Pres_updatedSide rec hrec | pres_step)



end

macro "post_step" : tactic => `(tactic| first
  | apply Post_bind_last
  | apply Post_markDirty | apply Post_markSilent | apply Post_raise
  | intro _
  | split
  | dsimp only)

section
variable (rec : Call → M Unit)

theorem Post_sideSetattr (i : Nat) (sd : Sd) (w : SideWrite) :
    Post (fun b => Covered b i) (sideSetattr rec i sd w) := by
  unfold sideSetattr
  repeat' post_step

theorem Post_updatedEnt (i : Nat) (w : EntWrite) : Post (fun b => Covered b i) (updatedEnt rec i w) := by
  unfold updatedEnt
  repeat' post_step



end


theorem Pres_hookBody (rec : Call → M Unit) (hrec : ∀ c, Pres none (rec c)) (c : Call) : Pres none (hookBody rec c) := by
  constructor
  intro a
  cases c with
  | side i sd w =>
    have hp := (Pres_sideSetattr rec hrec i sd w).run a
    have hq := (Post_sideSetattr rec i sd w).run a
    simp only [hookBody, onError]
    rcases hm : sideSetattr rec i sd w a with ⟨r | r, s'⟩
    · simp only [hm] at hp ⊢
      exact (hp.trans (LeX_silentMark (some i) s' i)).close (covered_silentMark s' i)
    · simp only [hm] at hp hq ⊢
      exact hp.close (hq r trivial)
  | ent i w =>
    simp only [hookBody, onError]
    have hp : Pres (some i) (updatedEnt rec i w >>= fun _ => rawEnt i fun e => entStore e w) :=
      Pres_bind (Pres_updatedEnt rec hrec i w) (fun _ => Pres_rawEnt_self i _ (fun e => by cases w <;> rfl))
    have hq : Post (fun b => Covered b i) (updatedEnt rec i w >>= fun _ => rawEnt i fun e => entStore e w) :=
      Post_bind_stable (Post_updatedEnt rec i w) (fun _ b hb => covered_rawEnt b i i _ hb)
    have he : entSetattr rec i w a =
        (if entNeq (a.ents.getD i placeholder) w then (updatedEnt rec i w >>= fun _ => rawEnt i fun e => entStore e w) a
         else (.ok (), a)) := by
      simp only [entSetattr, bind_run, getEnt]
      split <;> rfl
    rw [he]
    by_cases hn : entNeq (a.ents.getD i placeholder) w = true
    · simp only [hn, if_true]
      have hp := hp.run a
      have hq := hq.run a
      rcases hm : (updatedEnt rec i w >>= fun _ => rawEnt i fun e => entStore e w) a with ⟨r | r, s'⟩
      · simp only [hm] at hp ⊢
        exact (hp.trans (LeX_silentMark (some i) s' i)).close (covered_silentMark s' i)
      · simp only [hm] at hp hq ⊢
        exact hp.close (hq r trivial)
    · simp only [hn]
      exact LeX.refl none a

theorem Pres_hook : ∀ (n : Nat) (c : Call), Pres none (hook n c)
  | 0, _ => Pres_raise _
  | n + 1, c => Pres_hookBody (hook n) (Pres_hook n) c



end CS.Persist
