import Csverif.Model.Lock
/- Helper lemmas for C15 (Props/C15.lean): the lock invariant, commutation of a non-holder's step with the holder's
   steps (Lipton: while the lock is held by `t`, a disciplined thread `u ≠ t` can only do `other` steps, which are
   both-movers), and the schedule surgery. -/
namespace CS.Lock

theorem upd_comm {α : Type} (f : Nat → α) (a b : Nat) (x y : α) (h : a ≠ b) :
    upd (upd f a x) b y = upd (upd f b y) a x := by
  funext k
  simp only [upd]
  by_cases h1 : k = b
  · by_cases h2 : k = a
    · exact absurd (h2.symm.trans h1) h
    · simp [h1]
      intro e; exact absurd e.symm h
  · by_cases h2 : k = a
    · simp [h2]
      intro e; exact absurd e h
    · simp [h1, h2]

/-- nesting depth at which thread `u` currently holds the lock (0 = does not hold it) -/
def held (s : State) (u : Tid) : Nat := if s.owner = some u then s.depth else 0

/-- the lock state agrees with every thread's syntactic nesting depth -/
def Inv (s : State) : Prop := ∀ u, okFrom (held s u) (s.code u)

theorem inv_init {p : Prog} {σ : Loc → Val} (h : Disciplined p) : Inv (init p σ) := by
  intro u
  simpa [held, init] using h u

theorem step_code_other {s s' : State} {t u : Tid} (hs : step s t = some s') (h : u ≠ t) : s'.code u = s.code u := by
  unfold step at hs
  split at hs
  · cases hs
  · split at hs
    · cases hs; simp [h]
    · split at hs
      · cases hs; simp [h]
      · cases hs
  · split at hs
    · cases hs
    · split at hs
      · split at hs <;> (cases hs; simp [h])
      · cases hs
  · cases hs; simp [h]
  · cases hs; simp [h]
  · cases hs; simp [h]

theorem inv_step {s s' : State} {t : Tid} (hi : Inv s) (hs : step s t = some s') : Inv s' := by
  intro u
  have hu := hi u
  have ht := hi t
  by_cases hut : u = t
  · subst hut
    unfold step at hs
    split at hs
    · cases hs
    · rename_i rest hc
      rw [hc] at ht
      split at hs
      · rename_i ho
        cases hs
        simp [held, ho, okFrom] at ht ⊢
        exact ht
      · rename_i o ho
        split at hs
        · rename_i hou
          cases hs
          subst hou
          simp [held, ho, okFrom] at ht ⊢
          exact ht
        · cases hs
    · rename_i rest hc
      rw [hc] at ht
      split at hs
      · cases hs
      · rename_i o ho
        split at hs
        · rename_i hou
          subst hou
          split at hs
          · rename_i hd
            cases hs
            simp [held, ho, okFrom] at ht ⊢
            have : s.depth - 1 = 0 := by omega
            rw [this] at ht
            exact ht
          · cases hs
            simp [held, ho, okFrom] at ht ⊢
            exact ht
        · cases hs
    · rename_i l rest hc
      rw [hc] at ht
      cases hs
      simp [held, okFrom] at ht ⊢
      exact ht.2
    · rename_i l f rest hc
      rw [hc] at ht
      cases hs
      simp [held, okFrom] at ht ⊢
      exact ht.2
    · rename_i rest hc
      rw [hc] at ht
      cases hs
      simp [held, okFrom] at ht ⊢
      exact ht
  · have hcode := step_code_other hs hut
    rw [hcode]
    -- u's held depth is unchanged by a step of t
    have hheld : held s' u = held s u := by
      unfold step at hs
      split at hs
      · cases hs
      · split at hs
        · rename_i ho
          cases hs
          have : ¬ (t = u) := fun h => hut h.symm
          simp [held, ho, this]
        · rename_i o ho
          split at hs
          · cases hs
            rename_i hou
            subst hou
            have : ¬ (o = u) := fun h => hut h.symm
            simp [held, ho, this]
          · cases hs
      · split at hs
        · cases hs
        · rename_i o ho
          split at hs
          · rename_i hou
            subst hou
            have : ¬ (o = u) := fun h => hut h.symm
            split at hs <;> (cases hs; simp [held, ho, this])
          · cases hs
      · cases hs; simp [held]
      · cases hs; simp [held]
      · cases hs; simp [held]
    rw [hheld]
    exact hu

theorem inv_run {s s' : State} {l : List Tid} (hi : Inv s) (hr : run s l = some s') : Inv s' := by
  induction l generalizing s with
  | nil => simp [run] at hr; subst hr; exact hi
  | cons t rest ih =>
    simp only [run] at hr
    split at hr
    · cases hr
    · rename_i s1 h1
      exact ih (inv_step hi h1) hr

/-- advance thread `u` over one action without any other effect (what an `other` step does) -/
def skip (u : Tid) (s : State) : State := { s with code := upd s.code u (s.code u).tail }

@[simp] theorem skip_owner (u : Tid) (s : State) : (skip u s).owner = s.owner := rfl

/-- under the invariant, a thread that does not hold the lock while another thread does can only step over `other` -/
theorem step_nonholder {s s' : State} {t u : Tid} (hi : Inv s) (ho : s.owner = some t) (hut : u ≠ t)
    (hs : step s u = some s') : s' = skip u s ∧ (s.code u).head? = some .other := by
  have hu := hi u
  have hne : ¬ (t = u) := fun h => hut h.symm
  have hh : held s u = 0 := by simp [held, ho, hne]
  rw [hh] at hu
  unfold step at hs
  split at hs
  · cases hs
  · rw [ho] at hs
    simp [hne] at hs
  · rw [ho] at hs
    simp [hne] at hs
  · rename_i l rest hc
    rw [hc] at hu
    simp [okFrom] at hu
  · rename_i l f rest hc
    rw [hc] at hu
    simp [okFrom] at hu
  · rename_i rest hc
    cases hs
    simp [skip, hc]

theorem step_skip_of_other {s : State} {u : Tid} (h : (s.code u).head? = some .other) : step s u = some (skip u s) := by
  unfold step
  cases hc : s.code u with
  | nil => simp [hc] at h
  | cons a rest =>
    simp [hc] at h
    subst h
    simp [skip, hc]

/-- a step of `x ≠ u` commutes with skipping `u` -/
theorem step_skip_comm (s : State) {u x : Tid} (h : x ≠ u) : step (skip u s) x = (step s x).map (skip u) := by
  have hcx : (skip u s).code x = s.code x := by simp [skip, h]
  have hux : u ≠ x := fun e => h e.symm
  unfold step
  rw [hcx]
  cases hc : s.code x with
  | nil => simp
  | cons a rest =>
    cases a with
    | acquire =>
      simp only [skip_owner]
      cases ho : s.owner with
      | none =>
        simp [skip, hux]
        exact upd_comm _ _ _ _ _ hux
      | some o =>
        by_cases hox : o = x
        · simp [hox, skip, hux]
          exact upd_comm _ _ _ _ _ hux
        · simp [hox]
    | release =>
      simp only [skip_owner]
      cases ho : s.owner with
      | none => simp
      | some o =>
        by_cases hox : o = x
        · by_cases hd : s.depth ≤ 1
          · simp [hox, hd, skip, hux]
            exact upd_comm _ _ _ _ _ hux
          · simp [hox, hd, skip, hux]
            exact upd_comm _ _ _ _ _ hux
        · simp [hox]
    | read l =>
      simp [skip, hux]
      exact upd_comm _ _ _ _ _ hux
    | write l f =>
      simp [skip, hux]
      exact upd_comm _ _ _ _ _ hux
    | other =>
      simp [skip, hux]
      exact upd_comm _ _ _ _ _ hux

theorem run_skip_comm {u : Tid} : ∀ (l : List Tid) (s : State), (∀ x ∈ l, x ≠ u) →
    run (skip u s) l = (run s l).map (skip u)
  | [], s, _ => by simp [run]
  | x :: rest, s, h => by
    have hx : x ≠ u := h x (by simp)
    simp only [run]
    rw [step_skip_comm s hx]
    cases hs : step s x with
    | none => simp
    | some s1 =>
      simp
      exact run_skip_comm rest s1 (fun y hy => h y (by simp [hy]))

theorem run_append (s : State) (l1 l2 : List Tid) :
    run s (l1 ++ l2) = (run s l1).bind (fun sm => run sm l2) := by
  induction l1 generalizing s with
  | nil => simp [run]
  | cons t rest ih =>
    simp only [List.cons_append, run]
    cases step s t with
    | none => simp
    | some s1 => simp [ih]

theorem serial_append {s sm : State} {l1 l2 : List Tid} (h1 : Serial s l1) (hr : run s l1 = some sm)
    (h2 : Serial sm l2) : Serial s (l1 ++ l2) := by
  induction l1 generalizing s with
  | nil => simp [run] at hr; subst hr; simpa using h2
  | cons t rest ih =>
    simp only [run] at hr
    simp only [List.cons_append, Serial] at h1 ⊢
    refine ⟨h1.1, ?_⟩
    cases hs : step s t with
    | none => simp [hs] at hr
    | some s1 =>
      simp only [hs] at hr h1 ⊢
      exact ih h1.2 hr

/-- how a step of `t` may change the owner -/
theorem step_owner {s s' : State} {t : Tid} (hs : step s t = some s') :
    s'.owner = s.owner ∨ s'.owner = some t ∨ (s.owner = some t ∧ s'.owner = none) := by
  unfold step at hs
  split at hs
  · cases hs
  · split at hs
    · cases hs; simp
    · split at hs
      · cases hs; simp
      · cases hs
  · split at hs
    · cases hs
    · rename_i o ho
      split at hs
      · rename_i hou
        subst hou
        split at hs
        · cases hs; simp [ho]
        · cases hs; simp
      · cases hs
  · cases hs; simp
  · cases hs; simp
  · cases hs; simp

theorem serial_same_thread {t : Tid} : ∀ (l : List Tid) (s : State), (∀ x ∈ l, x = t) →
    (s.owner = none ∨ s.owner = some t) → Serial s l
  | [], _, _, _ => by simp [Serial]
  | x :: rest, s, h, ho => by
    have hx : x = t := h x (by simp)
    subst hx
    simp only [Serial]
    refine ⟨ho, ?_⟩
    cases hs : step s x with
    | none => trivial
    | some s1 =>
      simp only
      apply serial_same_thread rest s1 (fun y hy => h y (by simp [hy]))
      rcases step_owner hs with h1 | h1 | h1
      · rw [h1]; exact ho
      · exact Or.inr h1
      · exact Or.inl h1.2

/-- a step by `t` from a state where nobody holds the lock leaves it free or held by `t` -/
theorem step_owner_from_none {s s' : State} {t : Tid} (hs : step s t = some s') (h0 : s.owner = none) :
    s'.owner = none ∨ s'.owner = some t := by
  rcases step_owner hs with h1 | h1 | h1
  · rw [h1]; exact Or.inl h0
  · exact Or.inr h1
  · exact Or.inl h1.2

/-- a step enabled for `u` while `t` holds the lock, `u = t` : the owner stays `t` or the lock becomes free -/
theorem step_owner_holder {s s' : State} {t : Tid} (hs : step s t = some s') (h0 : s.owner = some t) :
    s'.owner = none ∨ s'.owner = some t := by
  rcases step_owner hs with h1 | h1 | h1
  · rw [h1]; exact Or.inr h0
  · exact Or.inr h1
  · exact Or.inl h1.2

/-- The strengthened induction hypothesis: the serial schedule is `pre ++ sec`, where after `pre` the lock is free and
    `sec` is the (possibly unfinished) current critical section, all steps of which belong to the final owner. -/
structure Decomp (s0 : State) (sched : List Tid) (s' : State) where
  pre : List Tid
  sm : State
  sec : List Tid
  runPre : run s0 pre = some sm
  serialPre : Serial s0 pre
  free : sm.owner = none
  runSec : run sm sec = some s'
  secOwner : ∀ t, s'.owner = some t → ∀ x ∈ sec, x = t
  secNil : s'.owner = none → sec = []
  perm : (pre ++ sec).Perm sched

theorem decomp_exists {s0 : State} (hi : Inv s0) (h0 : s0.owner = none) :
    ∀ (r : List Tid) (s' : State), run s0 r.reverse = some s' → Nonempty (Decomp s0 r.reverse s')
  | [], s', hr => by
    simp [run] at hr
    subst hr
    exact ⟨{ pre := [], sm := s0, sec := [], runPre := rfl, serialPre := trivial, free := h0, runSec := rfl,
             secOwner := fun _ _ _ hx => by simp at hx, secNil := fun _ => rfl, perm := by simp }⟩
  | u :: r, s', hr => by
    simp only [List.reverse_cons] at hr ⊢
    rw [run_append] at hr
    cases h1 : run s0 r.reverse with
    | none => simp [h1] at hr
    | some s1 =>
      simp only [h1, Option.bind_some, run] at hr
      cases hs : step s1 u with
      | none => simp [hs] at hr
      | some s2 =>
        simp only [hs] at hr
        cases hr
        obtain ⟨d⟩ := decomp_exists hi h0 r s1 h1
        have hi1 : Inv s1 := inv_run hi h1
        cases ho : s1.owner with
        | none =>
          have hsec : d.sec = [] := d.secNil ho
          have hsm : d.sm = s1 := by
            have := d.runSec
            rw [hsec] at this
            simpa [run] using this
          have hrunPre : run s0 d.pre = some s1 := d.runPre.trans (congrArg some hsm)
          have hperm : d.pre.Perm r.reverse := by
            have := d.perm
            rwa [hsec, List.append_nil] at this
          rcases step_owner_from_none hs ho with h2 | h2
          · -- a step outside any section
            refine ⟨{ pre := d.pre ++ [u], sm := s', sec := [], runPre := ?_, serialPre := ?_, free := h2, runSec := rfl,
                      secOwner := fun _ _ _ hx => by simp at hx, secNil := fun _ => rfl, perm := ?_ }⟩
            · rw [run_append, hrunPre]; simp [run, hs]
            · refine serial_append d.serialPre hrunPre ?_
              simp [Serial, ho]
              rw [hs]; trivial
            · simpa using hperm.append_right [u]
          · -- `u` opens a section
            refine ⟨{ pre := d.pre, sm := s1, sec := [u], runPre := hrunPre, serialPre := d.serialPre, free := ho,
                      runSec := by simp [run, hs],
                      secOwner := ?_, secNil := ?_, perm := hperm.append_right [u] }⟩
            · intro t ht x hx
              rw [h2] at ht
              cases ht
              simpa using hx
            · intro hn; rw [h2] at hn; cases hn
        | some t =>
          have hall : ∀ x ∈ d.sec, x = t := d.secOwner t ho
          by_cases hut : u = t
          · subst hut
            have hrunSec : run d.sm (d.sec ++ [u]) = some s' := by
              rw [run_append, d.runSec]; simp [run, hs]
            rcases step_owner_holder hs ho with h2 | h2
            · -- the section ends
              refine ⟨{ pre := d.pre ++ (d.sec ++ [u]), sm := s', sec := [], runPre := ?_, serialPre := ?_, free := h2,
                        runSec := rfl, secOwner := fun _ _ _ hx => by simp at hx, secNil := fun _ => rfl, perm := ?_ }⟩
              · rw [run_append, d.runPre]; simpa using hrunSec
              · refine serial_append d.serialPre d.runPre ?_
                apply serial_same_thread (t := u)
                · intro x hx
                  simp at hx
                  rcases hx with hx | hx
                  · exact hall x hx
                  · exact hx
                · exact Or.inl d.free
              · have := d.perm.append_right [u]
                simpa [List.append_assoc] using this
            · -- the section continues
              refine ⟨{ pre := d.pre, sm := d.sm, sec := d.sec ++ [u], runPre := d.runPre, serialPre := d.serialPre,
                        free := d.free, runSec := hrunSec, secOwner := ?_, secNil := ?_, perm := ?_ }⟩
              · intro t' ht' x hx
                rw [h2] at ht'
                cases ht'
                simp at hx
                rcases hx with hx | hx
                · exact hall x hx
                · exact hx
              · intro hn; rw [h2] at hn; cases hn
              · have := d.perm.append_right [u]
                simpa [List.append_assoc] using this
          · -- a non-holder steps while `t` holds the lock: it is an `other` step; move it before the section
            obtain ⟨hskip, hhead⟩ := step_nonholder hi1 ho hut hs
            have hne : ∀ x ∈ d.sec, x ≠ u := fun x hx => by rw [hall x hx]; exact fun e => hut e.symm
            -- u's code is the same at d.sm as at s1
            have hcode : ∀ (l : List Tid) (a b : State), (∀ x ∈ l, x ≠ u) → run a l = some b → b.code u = a.code u := by
              intro l
              induction l with
              | nil => intro a b _ hr; simp [run] at hr; subst hr; rfl
              | cons y rest ih =>
                intro a b hy hr
                simp only [run] at hr
                cases hsy : step a y with
                | none => simp [hsy] at hr
                | some a1 =>
                  simp only [hsy] at hr
                  have h1' := ih a1 b (fun z hz => hy z (by simp [hz])) hr
                  have h2' := step_code_other hsy (fun e => hy y (by simp) e.symm)
                  rw [h1', h2']
            have hcm : d.sm.code u = s1.code u := (hcode d.sec d.sm s1 hne d.runSec).symm
            have hstepm : step d.sm u = some (skip u d.sm) := step_skip_of_other (by rw [hcm]; exact hhead)
            have hrun2 : run (skip u d.sm) d.sec = some s' := by
              rw [run_skip_comm d.sec d.sm hne, d.runSec, hskip]; rfl
            have hown : s'.owner = some t := by rw [hskip]; exact ho
            refine ⟨{ pre := d.pre ++ [u], sm := skip u d.sm, sec := d.sec, runPre := ?_, serialPre := ?_, free := d.free,
                      runSec := hrun2, secOwner := ?_, secNil := ?_, perm := ?_ }⟩
            · rw [run_append, d.runPre]; simp [run, hstepm]
            · refine serial_append d.serialPre d.runPre ?_
              simp [Serial, d.free]
              rw [hstepm]; trivial
            · intro t' ht' x hx
              rw [hown] at ht'
              cases ht'
              exact hall x hx
            · intro hn; rw [hown] at hn; cases hn
            · have h3 : (d.pre ++ [u] ++ d.sec).Perm (d.pre ++ d.sec ++ [u]) := by
                rw [List.append_assoc, List.append_assoc]
                exact List.Perm.append_left d.pre List.perm_append_comm
              exact h3.trans (d.perm.append_right [u])

end CS.Lock
