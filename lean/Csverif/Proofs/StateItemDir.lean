import Csverif.Proofs.StateTotal
import Csverif.Proofs.StateItem
/-
C11: `__setitem__` onto a folder side that has a path, on a side whose ids are not paths (`oid_is_path = False`): moving the kids
of the receiving folder then assigns no id, so the id that is about to be installed stays free.
(On a path-id side the statement is false: `cex_setitem_folder_kid_takes_id`.)
-/
namespace CS.State

/-- no `oid` field changed -/
def OidF (st st' : St) : Prop := ∀ i s, (st'.side i s).oid = (st.side i s).oid

theorem OidF.refl (st : St) : OidF st st := fun _ _ => rfl
theorem OidF.trans {st st' st'' : St} (h1 : OidF st st') (h2 : OidF st' st'') : OidF st st'' := fun i s => (h2 i s).trans (h1 i s)

theorem Tr.and {α} {P : St → Prop} {m : M α} {Q Q' : α → St → Prop} {E E' : St → Prop} (h1 : Tr P m Q E) (h2 : Tr P m Q' E') :
    Tr P m (fun a st => Q a st ∧ Q' a st) (fun st => E st ∧ E' st) :=
  fun st hp => ⟨fun a ha => ⟨(h1 st hp).1 a ha, (h2 st hp).1 a ha⟩, fun x hx hne => ⟨(h1 st hp).2 x hx hne, (h2 st hp).2 x hx hne⟩⟩

/-- on a side whose ids are not paths, an assignment to anything but `oid` changes no `oid` field -/
def GoodO (cfg : Cfg) (n : Nat) : Prop :=
  ∀ e s fv st, Inv st → e < st.ents.length → e ∉ st.moving → cfg.oip s = false → (∀ v, fv ≠ .oid v) →
    Tr (fun st' => st' = st) (sideSet cfg n e s fv) (fun _ st' => OidF st st') (OidF st)

def KidsJO (L : Nat) (M : List Nat) (st0 : St) (st : St) : Prop := KidsJ L M st0 st ∧ OidF st0 st

theorem kidStepO (cfg : Cfg) (n : Nat) (hG : GoodO cfg n) (s : Sd) (hoip : cfg.oip s = false) (sub : Nat) (L : Nat) (M : List Nat) (st0 : St)
    (hsub : sub ∉ M) (hlt : sub < L) (fv : FV) (hfv : ∀ v, fv ≠ .oid v) :
    Tr (KidsJO L M st0) (sideSet cfg n sub s fv) (fun _ => KidsJO L M st0) (KidsJO L M st0) := by
  apply Tr.intro_st; intro st1
  apply Tr.with_pre (φ := KidsJO L M st0 st1) (fun st (h : st = st1 ∧ _) => h.1 ▸ h.2)
  rintro ⟨hj, ho⟩
  have h1 := (kidStep_tr cfg n s sub L M st0 hsub hlt fv).pre (P' := fun st => st = st1 ∧ KidsJO L M st0 st) (fun st h => h.2.1)
  have h2 := (hG sub s fv st1 hj.1 (hj.2.1 ▸ hlt) (hj.2.2.1 ▸ hsub) hoip hfv).pre (P' := fun st => st = st1 ∧ KidsJO L M st0 st) (fun st h => h.1)
  exact (h1.and h2).conseq (fun _ h => h) (fun _ _ h => ⟨h.1, ho.trans h.2⟩) (fun _ h => ⟨h.1, ho.trans h.2⟩)

theorem moveKidO (cfg : Cfg) (n : Nat) (hG : GoodO cfg n) (s : Sd) (hoip : cfg.oip s = false) (sub : Nat) (prior path rel : Path.Str)
    (L : Nat) (M : List Nat) (st0 : St) (hsub : sub ∉ M) (hlt : sub < L) :
    Tr (KidsJO L M st0) (moveKid (sideSet cfg n) cfg s sub prior path rel) (fun _ => KidsJO L M st0) (KidsJO L M st0) := by
  unfold moveKid
  simp only
  have step : ∀ fv, (∀ v, fv ≠ .oid v) → Tr (KidsJO L M st0) (sideSet cfg n sub s fv) (fun _ => KidsJO L M st0) (KidsJO L M st0) :=
    fun fv hfv => kidStepO cfg n hG s hoip sub L M st0 hsub hlt fv hfv
  refine Tr.bind (R := fun _ => KidsJO L M st0) ?_ (fun _ => ?_)
  · apply Tr.when
    · intro h; rw [hoip] at h; cases h
    · exact fun _ _ h => h
  refine Tr.bind (R := fun _ => KidsJO L M st0) (step _ (fun v h => by cases h)) (fun _ => ?_)
  unfold fixSyncPath
  apply Tr.getSt_bind; intro st3
  split
  · split
    · exact (step _ (fun v h => by cases h)).pre (fun _ h => h.2)
    · exact Tr.pure (fun _ h => h.2)
  · exact Tr.pure (fun _ h => h.2)

theorem kidsLoopO (cfg : Cfg) (n : Nat) (hG : GoodO cfg n) (s : Sd) (hoip : cfg.oip s = false) (prior pth : Path.Str) (L : Nat)
    (M : List Nat) (st0 : St) :
    ∀ l : List Nat, Tr (KidsJO L M st0) (kidsLoop (sideSet cfg n) cfg s prior pth l) (fun _ => KidsJO L M st0) (KidsJO L M st0)
  | [] => Tr.pure (fun _ h => h)
  | sub :: rest => by
    unfold kidsLoop
    apply Tr.getSt_bind; intro st1
    cases hk : kidRel cfg st1 s prior sub with
    | none => exact (kidsLoopO cfg n hG s hoip prior pth L M st0 rest).pre (fun st h => h.2)
    | some rel =>
      simp only
      apply Tr.with_pre (φ := KidsJO L M st0 st1) (fun st (h : st = st1 ∧ _) => h.1 ▸ h.2)
      rintro ⟨⟨hi1, hl1, hm1, hk1⟩, _⟩
      by_cases hc : st1.moving.contains sub = true
      · simp only [hc, if_true]
        exact (kidsLoopO cfg n hG s hoip prior pth L M st0 rest).pre (fun st h => h.2)
      · simp only [hc, Bool.false_eq_true, if_false]
        have hsub : sub ∉ M := by
          intro hmem; apply hc; rw [hm1]; simpa using hmem
        have hsublt : sub < L := by
          rw [← hl1]
          apply Decidable.byContradiction; intro hge
          unfold kidRel at hk; rw [path_oob st1 sub s hge] at hk; cases hk
        exact Tr.bind (R := fun _ => KidsJO L M st0) ((moveKidO cfg n hG s hoip sub prior pth rel L M st0 hsub hsublt).pre (fun st h => h.2))
          (fun _ => kidsLoopO cfg n hG s hoip prior pth L M st0 rest)

theorem updateKidsO (cfg : Cfg) (n : Nat) (hG : GoodO cfg n) (s : Sd) (hoip : cfg.oip s = false) (e : Nat) (prior : Option Path.Str)
    (pth : Path.Str) (st4 : St) (hi4 : Inv st4) :
    Tr (fun st => st = st4) (updateKids (sideSet cfg n) cfg s e prior pth)
      (fun _ st5 => Inv st5 ∧ st5.ents.length = st4.ents.length ∧ st5.moving = st4.moving ∧ KeepPaths (e :: st4.moving) st4 st5 ∧ OidF st4 st5)
      (fun st5 => Inv st5 ∧ st5.ents.length = st4.ents.length ∧ st5.moving = st4.moving ∧ KeepPaths (e :: st4.moving) st4 st5 ∧ OidF st4 st5) := by
  unfold updateKids
  have hpop : ∀ st', KidsJO st4.ents.length (e :: st4.moving) { st4 with moving := e :: st4.moving } st' →
      Inv { st' with moving := st'.moving.tail } ∧ ({ st' with moving := st'.moving.tail } : St).ents.length = st4.ents.length ∧
      ({ st' with moving := st'.moving.tail } : St).moving = st4.moving ∧
      KeepPaths (e :: st4.moving) st4 { st' with moving := st'.moving.tail } ∧ OidF st4 { st' with moving := st'.moving.tail } := by
    rintro st' ⟨⟨h1, h2, h3, h4⟩, h5⟩
    exact ⟨inv_setMoving h1 _, h2, by simp [h3], fun m hm s' => h4 m hm s', fun i s' => h5 i s'⟩
  refine Tr.finally_ (Q0 := fun _ => KidsJO st4.ents.length (e :: st4.moving) { st4 with moving := e :: st4.moving })
    (E0 := KidsJO st4.ents.length (e :: st4.moving) { st4 with moving := e :: st4.moving }) ?_ (fun _ st' h => hpop st' h) hpop
  refine Tr.bind (R := fun _ => KidsJO st4.ents.length (e :: st4.moving) { st4 with moving := e :: st4.moving }) ?_ (fun _ => ?_)
  · apply Tr.modify
    rintro st rfl
    exact ⟨⟨inv_setMoving hi4 _, rfl, rfl, KeepPaths.refl _ _⟩, OidF.refl _⟩
  · unfold updateKidsOf
    apply Tr.getSt_bind; intro st1
    cases prior with
    | none => exact Tr.pure (fun _ h => h.2)
    | some pr =>
      simp only
      apply Tr.when
      · intro _; exact (kidsLoopO cfg n hG s hoip pr pth _ _ _ _).pre (fun _ h => h.2)
      · exact fun _ _ h => h.2

theorem oidF_popPrior (st : St) (s e) : OidF st (popPrior st s e) := fun i s' => by rw [side_popPrior]

theorem oidF_pathFin (st : St) (e s v) : OidF st (pathFin st e s v) := by
  intro i s'
  rw [side_pathFin]
  split
  · next h => obtain ⟨h1, h2, _⟩ := h; subst h1; subst h2; rfl
  · rfl

theorem oidF_putPath (st : St) (s e pth) : OidF st (putPath st s e pth) := fun i s' => oid_putPath st s e pth i s'

theorem goodO_all (cfg : Cfg) : ∀ n, GoodO cfg n
  | 0 => by
    rintro e s fv st _ _ _ _ _ st' rfl
    exact ⟨fun a ha => (by cases ha), fun x hx hne => by cases hx; exact absurd rfl hne⟩
  | n + 1 => by
    have hG := goodO_all cfg n
    intro e s fv st hi hlt hm hoip hfv
    by_cases hpl : fv.plain = true
    · exact (sideSet_plain_tr cfg (n + 1) e s fv hpl st).conseq (fun _ h => h) (fun _ _ h i s' => (h.fields i s').1) (fun _ h => h.elim)
    cases fv with
    | oid v => exact absurd rfl (hfv v)
    | changed v =>
      refine (sideSet_changed_tr cfg (n + 1) noX e s v st).conseq ?_ ?_ (fun _ h => h.elim)
      · rintro st' rfl; exact ⟨rfl, hi.1, hi.2, hlt⟩
      · intro _ st' ⟨_, _, h3⟩ i s'; exact (h3.field i s').1
    | path v =>
      refine (sideSet_path_gen cfg n e s v st (fun st' => OidF st st') hi hlt (OidF.refl _) ?_ ?_ ?_ ?_).conseq (fun _ h => h)
        (fun _ _ h => h.2) (fun _ h => h.2)
      · intro w _; exact (oidF_popPrior st s e).trans (oidF_pathFin _ e s w)
      · intro st6 w h _; exact h.trans (oidF_pathFin _ e s w)
      · intro st5 st6 h hrel; exact h.trans (fun i s' => (hrel.field i s').1)
      · intro c p _ ho hp
        obtain ⟨hinv4, hfr4, hp4⟩ := Inv.putPath hi.1 hi.2 s e (c :: p) rfl ho hp hlt
        refine (updateKidsO cfg n hG s hoip e (st.side e s).path (c :: p) _ hinv4).conseq (fun _ h => h) ?_ ?_
        · rintro _ st5 ⟨h1, h2, _, h4, h5⟩
          refine ⟨h1, by rw [h2, hfr4.1]; exact hlt, ?_, ((oidF_popPrior st s e).trans (oidF_putPath _ s e _)).trans h5⟩
          rw [h4 e (List.mem_cons_self ..) s]; exact hp4
        · rintro st5 ⟨h1, _, _, _, h5⟩
          exact ⟨h1, ((oidF_popPrior st s e).trans (oidF_putPath _ s e _)).trans h5⟩
    | exists_ v => exact absurd rfl hpl
    | hash v => exact absurd rfl hpl
    | syncHash v => exact absurd rfl hpl
    | syncPath v => exact absurd rfl hpl
    | otype v => exact absurd rfl hpl
    | size v => exact absurd rfl hpl
    | mtime v => exact absurd rfl hpl

/-- hook-level outcome of `_change_path` on a side whose ids are not paths, folders with kids included -/
theorem changePath_ready (cfg : Cfg) (n : Nat) (e : Nat) (s : Sd) (v : Option Path.Str) (st : St) (hi : Inv st)
    (hlt : e < st.ents.length) (hoip : cfg.oip s = false) :
    (changePath (sideSet cfg n) cfg s e v st).1 = .error .recursion ∨
    (∃ x, (changePath (sideSet cfg n) cfg s e v st).1 = .error x ∧ Inv (changePath (sideSet cfg n) cfg s e v st).2 ∧
      (changePath (sideSet cfg n) cfg s e v st).2.ents.length = st.ents.length) ∨
    ((changePath (sideSet cfg n) cfg s e v st).1 = .ok () ∧
      Ready (changePath (sideSet cfg n) cfg s e v st).2 e s (st.side e s).oid v ∧ Pend (changePath (sideSet cfg n) cfg s e v st).2 ∧
      (∀ i s', ((changePath (sideSet cfg n) cfg s e v st).2.side i s').oid = (st.side i s').oid) ∧
      (changePath (sideSet cfg n) cfg s e v st).2.ents.length = st.ents.length) := by
  by_cases hleaf : (st.side e s).otype ≠ .dir ∨ (st.side e s).path = none
  · rcases changePath_leaf_ready cfg n e s v st hi hlt hleaf with h | ⟨h1, h2⟩ | ⟨h1, h2, h3, h4, _, h6⟩
    · exact Or.inl h
    · exact Or.inr (Or.inl ⟨.assert, h1, by rw [h2]; exact hi, by rw [h2]⟩)
    · exact Or.inr (Or.inr ⟨h1, h2, h3, h4, h6⟩)
  rw [changePath_eq]
  by_cases ha : (!truthyS v || truthyS (st.side e s).oid) = false
  · simp only [ha, if_true]; exact Or.inr (Or.inl ⟨.assert, by first | rfl | trivial, hi, by first | rfl | trivial⟩)
  · have ha' : (!truthyS v || truthyS (st.side e s).oid) = true := by
      cases hb : (!truthyS v || truthyS (st.side e s).oid) with
      | false => exact absurd hb ha
      | true => rfl
    simp only [ha', Bool.true_eq_false, if_false]
    by_cases hp : (st.side e s).path = v
    · simp only [hp, if_true]
      exact Or.inr (Or.inr ⟨trivial, hp ▸ Ready.of_inv hi.1 hlt, hi.2, fun _ _ => trivial, trivial⟩)
    · simp only [hp, if_false]
      have hfin : ∀ w : Option Path.Str, truthyS w = false →
          (Except.ok () : Except Exc Unit) = .ok () ∧ Ready (popPrior st s e) e s (st.side e s).oid w ∧ Pend (popPrior st s e) ∧
          (∀ i s', ((popPrior st s e).side i s').oid = (st.side i s').oid) ∧ (popPrior st s e).ents.length = st.ents.length := by
        intro w hw
        obtain ⟨h1, h2, _⟩ := hi.1.popPrior s e
        refine ⟨rfl, ⟨h1, by rw [len_popPrior]; exact hlt, ?_, ?_, ?_, ?_⟩, ?_, fun i s' => by rw [side_popPrior], len_popPrior ..⟩
        · intro k hk; rw [oids_popPrior] at hk; exact (hi.1.oidSlot s k e hk).symm ▸ rfl
        · intro p k hk; exact absurd hk (h2 p k)
        · intro ho; rw [oids_popPrior]; exact hi.1.byOid e s (fun h => h) ho
        · intro _ ht; rw [hw] at ht; cases ht
        · exact hi.2.congr (fun i hi' => by simpa [cs_popPrior] using hi') (fun i s' => by rw [side_popPrior]; exact ⟨rfl, rfl⟩)
      cases v with
      | none => exact Or.inr (Or.inr (hfin none rfl))
      | some q =>
        cases q with
        | nil => exact Or.inr (Or.inr (hfin (some []) rfl))
        | cons c p =>
          simp only
          have ho : truthyS (st.side e s).oid = true := by simpa [truthyS] using ha'
          obtain ⟨hinv4, hfr4, hp4⟩ := Inv.putPath hi.1 hi.2 s e (c :: p) rfl ho hp hlt
          have hfree : (popPrior st s e).slot s (some (c :: p)) ((popPrior st s e).side e s).oid = none := by
            rw [side_popPrior]
            exact (hi.1.popPrior s e).2.2 _ (by intro hh; rw [hh] at ho; cases ho) (fun hh => hp hh.symm)
          simp only [M.bind_apply, oustPathOwner_eq _ _ _ _ hfree, modifySt_apply]
          have ho4 : OidF st (putPath (popPrior st s e) s e (c :: p)) := (oidF_popPrior st s e).trans (oidF_putPath _ s e _)
          -- `_update_kids` then the priority
          have htr : Tr (fun st4 => st4 = putPath (popPrior st s e) s e (c :: p))
              (updateKids (sideSet cfg n) cfg s e (st.side e s).path (c :: p) >>= fun _ =>
                setPriority (sideSet cfg n) cfg e (cfg.prio s (c :: p)))
              (fun _ st6 => Inv st6 ∧ st6.ents.length = st.ents.length ∧ (st6.side e s).path = some (c :: p) ∧ OidF st st6)
              (fun st6 => Inv st6 ∧ st6.ents.length = st.ents.length) := by
            refine Tr.bind (R := fun _ st5 => Inv st5 ∧ st5.ents.length = st.ents.length ∧ (st5.side e s).path = some (c :: p) ∧ OidF st st5)
              ?_ (fun _ => ?_)
            · refine (updateKidsO cfg n (goodO_all cfg n) s hoip e (st.side e s).path (c :: p) _ hinv4).conseq (fun _ h => h) ?_ ?_
              · rintro _ st5 ⟨h1, h2, _, h4, h5⟩
                refine ⟨h1, h2.trans hfr4.1, ?_, ho4.trans h5⟩
                rw [h4 e (List.mem_cons_self ..) s]; exact hp4
              · rintro st5 ⟨h1, h2, _, _, _⟩; exact ⟨h1, h2.trans hfr4.1⟩
            · apply Tr.intro_st; intro st5
              refine Tr.with_pre (φ := Inv st5 ∧ st5.ents.length = st.ents.length ∧ (st5.side e s).path = some (c :: p) ∧ OidF st st5)
                (fun st (h : st = st5 ∧ _) => h.1 ▸ h.2) (fun ⟨h5, hl5, hp5, ho5⟩ => ?_)
              refine (setPriority_tr cfg n noX e (cfg.prio s (c :: p)) st5).conseq ?_ ?_ (fun _ h => h.elim)
              · rintro st ⟨rfl, _⟩; exact ⟨rfl, h5.1, h5.2, hl5 ▸ hlt⟩
              · intro _ st6 ⟨hrel, hI6, hP6⟩
                exact ⟨⟨hI6, hP6⟩, hrel.len.trans hl5, by rw [(hrel.field e s).2.1]; exact hp5,
                  ho5.trans (fun i s' => (hrel.field i s').1)⟩
          have := htr _ rfl
          cases hr : (updateKids (sideSet cfg n) cfg s e (st.side e s).path (c :: p) >>= fun _ =>
                setPriority (sideSet cfg n) cfg e (cfg.prio s (c :: p))) (putPath (popPrior st s e) s e (c :: p)) with
          | mk r st6 =>
            rw [hr] at this
            simp only [M.bind_apply] at hr
            rw [hr]
            cases r with
            | error x =>
              by_cases hx : x = .recursion
              · subst hx; exact Or.inl rfl
              · exact Or.inr (Or.inl ⟨x, rfl, this.2 x rfl hx⟩)
            | ok u =>
              obtain ⟨hI6, hl6, hp6, ho6⟩ := this.1 u rfl
              right; right
              have hr6 := Ready.of_inv hI6.1 (e := e) (s := s) (by rw [hl6]; exact hlt)
              rw [ho6 e s, hp6] at hr6
              exact ⟨rfl, hr6, hI6.2, ho6, hl6⟩

/-- the hook calls of `__setitem__` followed by the side replacement keep the invariant on a side whose ids are not paths,
    whatever the receiving entry is -/
theorem setItemHooks_installO (cfg : Cfg) (fuel : Nat) (dst : Nat) (side : Sd) (v' : Side) (st : St) (hi : Inv st)
    (hlt : dst < st.ents.length) (hoip : cfg.oip side = false) :
    (setItemHooks cfg fuel dst side v' st).1 = .error .recursion ∨
    (∃ x, (setItemHooks cfg fuel dst side v' st).1 = .error x ∧ Inv (setItemHooks cfg fuel dst side v' st).2 ∧
      (setItemHooks cfg fuel dst side v' st).2.ents.length = st.ents.length) ∨
    ((setItemHooks cfg fuel dst side v' st).1 = .ok () ∧
      Inv ((setItemHooks cfg fuel dst side v' st).2.modSide dst side (fun _ => v')) ∧
      ((setItemHooks cfg fuel dst side v' st).2.modSide dst side (fun _ => v')).ents.length = st.ents.length) := by
  cases hvo : v'.oid with
  | some k =>
    simp only [setItemHooks, hvo, M.bind_apply, updatedSide_oid_eq, updatedSide_path_eq, updatedSide_changed_eq]
    rcases changeOid_spec (oustOk_sideSet cfg fuel) hi.1 hi.2 dst side (some k) hlt with ⟨_, hrec⟩ | ⟨h, heq, hI1, hP1, ho1, hf1⟩
    · left
      cases hr : changeOid (sideSet cfg fuel) side dst (some k) st with
      | mk r h => rw [hr] at hrec; simp only at hrec; subst hrec; rfl
    · rw [heq]; simp only
      have hi1 : Inv (h.dirtyAdd dst) := (plainRel_dirtyAdd h dst).inv ⟨hI1, hP1⟩
      have hlt1 : dst < (h.dirtyAdd dst).ents.length := by simp [hf1.1]; exact hlt
      rcases changePath_ready cfg fuel dst side v'.path (h.dirtyAdd dst) hi1 hlt1 hoip with hrec | ⟨x, hx, hix, hlx⟩ | ⟨hok, hready, hP2, hoid2, hlen2⟩
      · left
        cases hr : changePath (sideSet cfg fuel) cfg side dst v'.path (h.dirtyAdd dst) with
        | mk r h2 => rw [hr] at hrec; simp only at hrec; subst hrec; rfl
      · right; left
        cases hr : changePath (sideSet cfg fuel) cfg side dst v'.path (h.dirtyAdd dst) with
        | mk r h2 =>
          rw [hr] at hx hix hlx; simp only at hx hix hlx; subst hx
          exact ⟨x, rfl, hix, by rw [hlx]; simp [hf1.1]⟩
      · right; right
        cases hr : changePath (sideSet cfg fuel) cfg side dst v'.path (h.dirtyAdd dst) with
        | mk r h2 =>
          rw [hr] at hok hready hP2 hoid2 hlen2; simp only at hok hready hP2 hoid2 hlen2; subst hok
          simp only
          simp only [side_dirtyAdd] at hready
          rw [ho1, ← hvo] at hready
          have hinst := install_inv (h2.dirtyAdd dst) dst side v' (ready_dirtyAdd hready dst)
            ((hP2.congr (st' := h2.dirtyAdd dst) (fun i hi' => by simpa using hi') (fun _ _ => ⟨rfl, rfl⟩)).but dst) ?_
          · refine ⟨by first | rfl | trivial, hinst.1, hinst.2.trans ?_⟩
            simp only [ents_dirtyAdd]; rw [hlen2]; simp [hf1.1]
          · left; simp only [side_dirtyAdd]; rw [hoid2 dst side]; simp only [side_dirtyAdd]; rw [ho1, hvo]
  | none =>
    simp only [setItemHooks, hvo, M.bind_apply, updatedSide_oid_eq, updatedSide_path_eq, updatedSide_changed_eq]
    rcases changePath_ready cfg fuel dst side v'.path st hi hlt hoip with hrec | ⟨x, hx, hix, hlx⟩ | ⟨hok, hready, hP1, _, hlen1⟩
    · left
      cases hr : changePath (sideSet cfg fuel) cfg side dst v'.path st with
      | mk r h1 => rw [hr] at hrec; simp only at hrec; subst hrec; rfl
    · right; left
      cases hr : changePath (sideSet cfg fuel) cfg side dst v'.path st with
      | mk r h1 =>
        rw [hr] at hx hix hlx; simp only at hx hix hlx; subst hx
        exact ⟨x, rfl, hix, hlx⟩
    · cases hr : changePath (sideSet cfg fuel) cfg side dst v'.path st with
      | mk r h1 =>
        rw [hr] at hok hready hP1 hlen1; simp only at hok hready hP1 hlen1; subst hok
        simp only
        have hI1 : Idx (noX.add dst side) (h1.dirtyAdd dst) := (ready_dirtyAdd hready dst).idx
        have hPd1 : Pend (h1.dirtyAdd dst) := hP1.congr (fun i hi' => by simpa using hi') (fun _ _ => ⟨rfl, rfl⟩)
        have hlt1 : dst < (h1.dirtyAdd dst).ents.length := by simp only [ents_dirtyAdd]; rw [hlen1]; exact hlt
        rcases changeOid_spec (oustOk_sideSet cfg fuel) hI1 hPd1 dst side none hlt1 with ⟨_, hrec⟩ | ⟨st1, heq, hI2, hC2, hP2, hf2⟩
        · left
          cases hr2 : changeOid (sideSet cfg fuel) side dst none (h1.dirtyAdd dst) with
          | mk r h => rw [hr2] at hrec; simp only at hrec; subst hrec; rfl
        · rw [heq]; simp only
          right; right
          have hlen2 : st1.ents.length = st.ents.length := by rw [hf2.1]; simp only [ents_dirtyAdd]; exact hlen1
          have hready2 : Ready ((oidCsRule st1 dst side none).dirtyAdd dst) dst side v'.oid v'.path := by
            rw [hvo]
            refine ⟨?_, by simp [hlen2]; exact hlt, ?_, ?_, fun h => absurd rfl h, fun h => absurd rfl h⟩
            · refine (hI2.mono ?_).congr (by simp) (by simp) (by simp) (by simp)
              intro i s' hx; rcases hx with hx | hx
              · exact hx
              · exact Or.inr hx
            · intro k hk; simp only [oids_dirtyAdd, oids_oidCsRule] at hk; exact absurd hk (hC2.1 k)
            · intro p k hk; simp only [slot_dirtyAdd, slot_oidCsRule] at hk; exact absurd hk (hC2.2 p k)
          have hpb : PendBut dst ((oidCsRule st1 dst side none).dirtyAdd dst) := by
            intro i hie ⟨s', h1', h2'⟩
            simp only [side_dirtyAdd, side_oidCsRule] at h1' h2'
            have := hP2 i ⟨s', h1', h2'⟩
            simp only [cs_dirtyAdd, oidCsRule]
            split <;> simp [this, hie]
          have hinst := install_inv _ dst side v' hready2 hpb (Or.inr hvo)
          refine ⟨by first | rfl | trivial, hinst.1, hinst.2.trans ?_⟩
          simp [hlen2]

/-- `__setitem__` on a side whose ids are not paths: any receiving entry -/
theorem setItem_trO (cfg : Cfg) (fuel : Nat) (dst : Nat) (side : Sd) (src : Nat) (srcSide : Sd) (L : Nat) (hd : dst < L) (hs : src < L)
    (hoip : cfg.oip side = false) :
    Tr (InvL L) (setItem cfg fuel dst side src srcSide) (fun _ st' => InvL L st') Inv := by
  have h0 : Tr (InvL L) (setItem cfg fuel dst side src srcSide) (fun _ st' => InvL0 L st') Inv := by
    unfold setItem
    apply Tr.getSt_bind; intro st0
    refine Tr.bind (R := fun _ => InvL L) (sideSet_keeps cfg fuel src srcSide _ L hs _ (fun st h => h.2)) (fun _ => ?_)
    refine Tr.bind (R := fun _ => InvL L) (sideSet_keeps cfg fuel src srcSide _ L hs _ (fun st h => h)) (fun _ => ?_)
    apply Tr.getSt_bind; intro st3
    simp only
    refine Tr.bind (R := fun _ st' => st' = st3 ∧ InvL L st') (Tr.assert (fun st h _ => h.2.1) (fun st h _ => h)) (fun _ => ?_)
    rintro st ⟨rfl, hi3, hl3, _⟩
    simp only [M.bind_apply, modifySt_apply]
    have hlt3 : dst < st.ents.length := hl3 ▸ hd
    rcases setItemHooks_installO cfg fuel dst side _ st hi3 hlt3 hoip with hrec | ⟨x, hx, hix, _⟩ | ⟨hok, hinv, hlen⟩
    · cases hr : setItemHooks cfg fuel dst side { st.side src srcSide with path := (st0.side src srcSide).path, oid := (st0.side src srcSide).oid } st with
      | mk r h3 =>
        rw [hr] at hrec; simp only at hrec; subst hrec
        exact ⟨fun a ha => (by cases ha), fun y hy hne => by cases hy; exact absurd rfl hne⟩
    · cases hr : setItemHooks cfg fuel dst side { st.side src srcSide with path := (st0.side src srcSide).path, oid := (st0.side src srcSide).oid } st with
      | mk r h3 =>
        rw [hr] at hx hix; simp only at hx hix; subst hx
        exact ⟨fun a ha => (by cases ha), fun y hy _ => by cases hy; exact hix⟩
    · cases hr : setItemHooks cfg fuel dst side { st.side src srcSide with path := (st0.side src srcSide).path, oid := (st0.side src srcSide).oid } st with
      | mk r h3 =>
        rw [hr] at hok hinv hlen; simp only at hok hinv hlen; subst hok
        exact ⟨fun _ _ => ⟨hinv, hlen.trans hl3⟩, fun y hy => by cases hy⟩
  exact (h0.with_mov (mov_setItem cfg fuel dst side src srcSide) []).conseq
    (fun st h => ⟨h, h.2.2⟩) (fun _ st' h => ⟨h.1.1, h.1.2, h.2⟩) (fun st' h => h.1)

/-- the guard of `__setitem__`: the receiving side is a leaf, or its ids are not paths -/
def SetOk (cfg : Cfg) (st : St) (e : Nat) (s : Sd) : Prop := LeafAt st e s ∨ cfg.oip s = false

theorem SetOk.frame {cfg : Cfg} {st st' : St} {e s} (h : SetOk cfg st e s) (hf : Frame none st st') : SetOk cfg st' e s :=
  h.elim (fun h => Or.inl (h.frame hf)) Or.inr

/-- state.py:409-437 `SyncEntry.__setitem__` keeps the invariant under `SetOk` -/
theorem setItem_trG (cfg : Cfg) (fuel : Nat) (dst : Nat) (side : Sd) (src : Nat) (srcSide : Sd) (L : Nat) (hd : dst < L) (hs : src < L) :
    Tr (fun st => InvL L st ∧ SetOk cfg st dst side) (setItem cfg fuel dst side src srcSide) (fun _ st' => InvL L st') Inv := by
  by_cases hoip : cfg.oip side = false
  · exact (setItem_trO cfg fuel dst side src srcSide L hd hs hoip).pre (fun _ h => h.1)
  · exact (setItem_tr cfg fuel dst side src srcSide L hd hs).pre (fun _ h => ⟨h.1, h.2.elim (fun h => h) (fun h => absurd h hoip)⟩)

end CS.State
