import Csverif.Proofs.StateOps
/-
C11: `update_entry` and `update` (state.py:978-1026, 1119-1172).
-/
namespace CS.State

/-! ### `SyncEntry(self, otype)` -/

def addEntry (st : St) (ot : OType) : St := { st with ents := st.ents ++ [{ l := { otype := ot }, r := { otype := ot } }] }

theorem newEntry_eq (ot : OType) (st : St) : newEntry ot st = (.ok st.ents.length, addEntry st ot) := rfl

@[simp] theorem oids_addEntry (st : St) (ot) (s : Sd) : (addEntry st ot).oids s = st.oids s := by cases s <;> rfl
@[simp] theorem paths_addEntry (st : St) (ot) (s : Sd) : (addEntry st ot).paths s = st.paths s := by cases s <;> rfl
@[simp] theorem cs_addEntry (st : St) (ot) : (addEntry st ot).cs = st.cs := rfl
@[simp] theorem len_addEntry (st : St) (ot) : (addEntry st ot).ents.length = st.ents.length + 1 := by simp [addEntry]

theorem side_addEntry (st : St) (ot : OType) (i : Nat) (s : Sd) :
    (addEntry st ot).side i s = if i = st.ents.length then ({ otype := ot } : Side) else st.side i s := by
  unfold St.side St.ent addEntry
  simp only [List.getD_eq_getElem?_getD]
  by_cases h : i = st.ents.length
  · subst h; simp; cases s <;> rfl
  · simp only [h, if_false]
    by_cases hl : i < st.ents.length
    · rw [List.getElem?_append_left hl]
    · have : st.ents.length + 1 ≤ i := by omega
      rw [List.getElem?_eq_none (by simp; omega), List.getElem?_eq_none (by omega)]

theorem inv_addEntry {st : St} (hi : Inv st) (ot : OType) : Inv (addEntry st ot) := by
  have hs := side_addEntry st ot
  have hnew : ∀ s, ((addEntry st ot).side st.ents.length s).oid = none ∧ ((addEntry st ot).side st.ents.length s).changed = .none := by
    intro s; rw [hs]; simp
  obtain ⟨⟨b1, b2, b3, b4, b5, b6, b7⟩, hP⟩ := hi
  have hold : ∀ i s, i < st.ents.length → (addEntry st ot).side i s = st.side i s := by
    intro i s hl; rw [hs]; simp [Nat.ne_of_lt hl]
  refine ⟨⟨?_, ?_, ?_, b4.congr (by simp) (by simp), ?_, ?_, ?_⟩, ?_⟩
  · intro s k i hk; simp only [oids_addEntry, len_addEntry] at hk ⊢; exact Nat.lt_succ_of_lt (b1 s k i hk)
  · intro s; simp only [oids_addEntry]; exact b2 s
  · intro s k i hk; simp only [oids_addEntry] at hk; rw [hold i s (b1 s k i hk)]; exact b3 s k i hk
  · intro s p k i hk
    rw [slot_congr (st := st) (by simp)] at hk
    have hlt := b1 s k i (b5 s p k i hk).2.2
    simp only [oids_addEntry]; rw [hold i s hlt]; exact b5 s p k i hk
  · intro i s hx ho
    by_cases hl : i < st.ents.length
    · rw [hold i s hl] at ho ⊢; simp only [oids_addEntry]; exact b6 i s hx ho
    · by_cases he : i = st.ents.length
      · subst he; exact absurd (hnew s).1 ho
      · rw [oid_oob _ i s (by simp; omega)] at ho; exact absurd rfl ho
  · intro i s hx ho ht
    by_cases hl : i < st.ents.length
    · rw [hold i s hl] at ho ht ⊢; rw [slot_congr (st := st) (by simp)]; exact b7 i s hx ho ht
    · by_cases he : i = st.ents.length
      · subst he; exact absurd (hnew s).1 ho
      · rw [oid_oob _ i s (by simp; omega)] at ho; exact absurd rfl ho
  · intro i ⟨s, h1, h2⟩
    by_cases hl : i < st.ents.length
    · rw [hold i s hl] at h1 h2; simpa using hP i ⟨s, h1, h2⟩
    · by_cases he : i = st.ents.length
      · subst he; rw [(hnew s).2] at h1; cases h1
      · rw [changed_oob _ i s (by simp; omega)] at h1; cases h1

theorem newEntry_tr (ot : OType) (P : St → Prop) (E : St → Prop) :
    Tr P (newEntry ot) (fun e st' => ∃ st, P st ∧ e = st.ents.length ∧ st' = addEntry st ot) E := by
  intro st hp
  rw [newEntry_eq]
  exact ⟨fun e he => by cases he; exact ⟨st, hp, rfl, rfl⟩, fun x hx => by cases hx⟩

/-! ### what the plain attributes leave alone -/

/-- only the side `(e, s)` differs -/
def OnlySide (e : Nat) (s : Sd) (st st' : St) : Prop := ∀ i s', (i = e ∧ s' = s) ∨ st'.side i s' = st.side i s'

theorem OnlySide.refl (e s) (st : St) : OnlySide e s st st := fun _ _ => Or.inr rfl
theorem OnlySide.trans {e s st st' st''} (h1 : OnlySide e s st st') (h2 : OnlySide e s st' st'') : OnlySide e s st st'' := by
  intro i s'
  rcases h1 i s' with h | h
  · exact Or.inl h
  · rcases h2 i s' with h' | h'
    · exact Or.inl h'
    · exact Or.inr (h'.trans h)
theorem onlySide_dirtyAdd (e s) (st : St) (j : Nat) : OnlySide e s st (st.dirtyAdd j) := fun _ _ => Or.inr rfl
theorem onlySide_modSide (e s) (st : St) (f) : OnlySide e s st (st.modSide e s f) := by
  intro i s'
  by_cases hh : i = e ∧ s' = s
  · exact Or.inl hh
  · right; rw [side_modSide]; rw [if_neg (fun h => hh ⟨h.1, h.2.1⟩)]

theorem OnlySide.dirtyAdd {e s st st'} (h : OnlySide e s st st') (j : Nat) : OnlySide e s st (st'.dirtyAdd j) := h.trans (onlySide_dirtyAdd e s st' j)
theorem OnlySide.modSide {e s st st'} (h : OnlySide e s st st') (f) : OnlySide e s st (st'.modSide e s f) := h.trans (onlySide_modSide e s st' f)

theorem sideSetBody_plain_only (setF : SetF) (cfg : Cfg) (e : Nat) (s : Sd) (fv : FV) (h : fv.plain = true) (st : St) :
    OnlySide e s st (sideSetBody setF cfg e s fv st).2 := by
  cases fv with
  | path _ => cases h
  | oid _ => cases h
  | changed _ => cases h
  | exists_ v =>
    show OnlySide e s st (existsState st e s v)
    unfold existsState; simp only
    split
    · exact (OnlySide.refl e s st).modSide _
    · split
      · exact (OnlySide.refl e s st).modSide _
      · exact (((OnlySide.refl e s st).dirtyAdd _).modSide _).dirtyAdd _
  | hash v =>
    show OnlySide e s st (hashState st e s v)
    unfold hashState; simp only
    split
    · exact (((((OnlySide.refl e s st).dirtyAdd _).modSide _).dirtyAdd _).modSide _).modSide _
    · exact ((OnlySide.refl e s st).dirtyAdd _).modSide _
  | mtime v => exact (((OnlySide.refl e s st).dirtyAdd _).modSide _).dirtyAdd _
  | syncHash v => exact ((OnlySide.refl e s st).dirtyAdd _).modSide _
  | syncPath v => exact ((OnlySide.refl e s st).dirtyAdd _).modSide _
  | otype v => exact ((OnlySide.refl e s st).dirtyAdd _).modSide _
  | size v => exact ((OnlySide.refl e s st).dirtyAdd _).modSide _

/-- the guard `update_entry` needs at its path assignment, stated so that it survives the assignments before it:
    no directory entry other than `e` lies strictly beneath `e`'s current path on side `s` -/
def KidsLeaves (cfg : Cfg) (st : St) (s : Sd) (e : Nat) : Prop := ∀ pr, (st.side e s).path = some pr → Leaves cfg st s e pr

theorem KidsLeaves.pathGuard {cfg st s e} (h : KidsLeaves cfg st s e) (v) : PathGuard cfg st e s (.path v) :=
  fun _ _ pr hpr => h pr hpr

theorem KidsLeaves.frame {cfg st st' s e} (h : KidsLeaves cfg st s e) (hf : Frame none st st') : KidsLeaves cfg st' s e := by
  intro pr hpr
  rw [(hf.2 e s).2 (by simp)] at hpr
  exact (h pr hpr).frame hf (fun d hd => by cases hd)

theorem KidsLeaves.only {cfg st st' s e} (h : KidsLeaves cfg st s e) (ho : OnlySide e s st st')
    (hp : (st'.side e s).path = (st.side e s).path) : KidsLeaves cfg st' s e := by
  intro pr hpr d hd hot
  rw [hp] at hpr
  have hds : st'.side d s = st.side d s := (ho d s).resolve_left (fun hh => hd hh.1)
  rw [kidRel_congr cfg (st := st) (st' := st') s pr d (by rw [hds])]
  exact h pr hpr d hd (by rw [← hds]; exact hot)

theorem KidsLeaves.of_no_path {cfg st s e} (h : (st.side e s).path = none) : KidsLeaves cfg st s e := by
  intro pr hpr; rw [h] at hpr; cases hpr

/-! ### `update_entry` -/

/-- what `update_entry` carries up to its path assignment -/
def UG (cfg : Cfg) (s : Sd) (e : Nat) (L : Nat) (st : St) : Prop := InvL L st ∧ KidsLeaves cfg st s e

theorem ug_plain (cfg : Cfg) (fuel : Nat) (e : Nat) (s : Sd) (fv : FV) (hpl : fv.plain = true) (L : Nat) :
    Tr (UG cfg s e L) (sideSet cfg fuel e s fv) (fun _ => UG cfg s e L) Inv := by
  apply Tr.intro_st; intro st1
  apply Tr.with_pre (φ := UG cfg s e L st1) (fun st ⟨h0, h⟩ => h0 ▸ h)
  rintro ⟨hil, hkl⟩
  rintro st ⟨rfl, _⟩
  cases fuel with
  | zero => exact ⟨fun a ha => (by cases ha), fun x hx hne => by cases hx; exact absurd rfl hne⟩
  | succ n =>
    obtain ⟨st', heq, hrel⟩ := sideSetBody_plain (sideSet cfg n) cfg e s fv hpl st
    have honly := sideSetBody_plain_only (sideSet cfg n) cfg e s fv hpl st
    have hstep : sideSet cfg (n + 1) e s fv st = (.ok (), st') := heq
    have heq2 : (sideSetBody (sideSet cfg n) cfg e s fv st).2 = st' := by rw [heq]
    rw [heq2] at honly
    rw [hstep]
    exact ⟨fun _ _ => ⟨hil.plain hrel, hkl.only honly (hrel.fields e s).2.1⟩, fun x hx => by cases hx⟩

theorem ug_oid (cfg : Cfg) (fuel : Nat) (e : Nat) (s : Sd) (v : Oid) (L : Nat) (hlt : e < L) :
    Tr (UG cfg s e L) (sideSet cfg fuel e s (.oid v)) (fun _ => UG cfg s e L) Inv := by
  apply Tr.intro_st; intro st1
  apply Tr.with_pre (φ := UG cfg s e L st1) (fun st ⟨h0, h⟩ => h0 ▸ h)
  rintro ⟨hil, hkl⟩
  refine (sideSet_oid_tr cfg fuel noX e s v st1).conseq ?_ ?_ (fun _ h => h.elim)
  · rintro st ⟨rfl, _⟩; exact ⟨rfl, hil.1.1, hil.1.2, hil.2 ▸ hlt⟩
  · intro _ st' h; exact ⟨⟨⟨h.1, h.2.1⟩, h.2.2.1.trans hil.2⟩, hkl.frame h.2.2⟩

theorem markIfChanged_tr (cfg : Cfg) (fuel : Nat) (e : Nat) (s : Sd) (a : UArgs) (L : Nat) (hlt : e < L) :
    Tr (InvL L) (markIfChanged cfg fuel e s a) (fun _ => InvL L) Inv := by
  unfold markIfChanged
  cases a.changed with
  | none => exact Tr.pure (fun _ h => h)
  | some c =>
    simp only
    apply Tr.when
    · intro _
      apply Tr.getSt_bind; intro st1
      refine Tr.bind (R := fun _ => InvL L) (Tr.assert (fun st h _ => h.2.1) (fun st h _ => h.2)) (fun _ => ?_)
      refine Tr.bind (R := fun _ => InvL L) (markChanged_tr cfg fuel s e L hlt) (fun _ => ?_)
      apply Tr.when
      · intro _
        exact Tr.modify (fun st h => h.plain (plainRel_modSide _ _ _ _ (by intro x; exact ⟨rfl, rfl, rfl⟩)))
      · exact fun _ st h => h
    · exact fun _ st h => h

theorem notKnownCheck_tr (a : UArgs) (P : St → Prop) (hP : ∀ st, P st → Inv st) : Tr P (notKnownCheck a) (fun _ => P) Inv := by
  unfold notKnownCheck
  split
  · split
    · exact Tr.assert (fun st h _ => hP st h) (fun st h _ => h)
    · exact Tr.pure (fun _ h => h)
    · exact Tr.throw (fun _ st h => hP st h)
  · exact Tr.pure (fun _ h => h)

/-- the part of `update_entry` after the entry is chosen -/
theorem updateEntry_tr (cfg : Cfg) (fuel : Nat) (ent : Nat) (s : Sd) (a : UArgs) (L : Nat) (hlt : ent < L) :
    Tr (UG cfg s ent L) (updateEntry cfg fuel ent s a) (fun _ st' => Inv st') Inv := by
  unfold updateEntry
  refine Tr.bind (R := fun e st' => ∃ L', UG cfg s e L' st' ∧ e < L') ?_ (fun e => ?_)
  · -- replaceDiscarded
    unfold replaceDiscarded
    apply Tr.getSt_bind; intro st1
    have hsame : Tr (fun st => st = st1 ∧ UG cfg s ent L st) (Pure.pure ent : M Nat)
        (fun e st' => ∃ L', UG cfg s e L' st' ∧ e < L') Inv := Tr.pure (fun st ⟨_, h⟩ => ⟨L, h, hlt⟩)
    split
    · split
      · refine (newEntry_tr _ _ Inv).conseq (fun _ h => h) ?_ (fun _ h => h)
        rintro e' st' ⟨st, ⟨_, hil, _⟩, rfl, rfl⟩
        refine ⟨L + 1, ⟨⟨inv_addEntry hil.1 _, by simp [hil.2]⟩, KidsLeaves.of_no_path ?_⟩, by simp [hil.2]⟩
        rw [side_addEntry]; simp
      · exact hsame
    · exact hsame
  · apply Tr.exists_pre; intro L'
    apply Tr.with_pre (φ := e < L') (fun st h => h.2)
    intro hlt'
    have hUG : ∀ st, (UG cfg s e L' st ∧ e < L') → UG cfg s e L' st := fun st h => h.1
    refine Tr.bind (R := fun _ => UG cfg s e L') ?_ (fun _ => ?_)
    · apply Tr.when
      · intro _; exact (ug_oid cfg fuel e s _ L' hlt').pre hUG
      · exact fun _ st h => h.1
    apply Tr.getSt_bind; intro st2
    refine Tr.bind (R := fun _ => UG cfg s e L') ?_ (fun _ => ?_)
    · apply Tr.when
      · intro _; exact (ug_plain cfg fuel e s _ rfl L').pre (fun st h => h.2)
      · exact fun _ st h => h.2
    refine Tr.bind (R := fun _ => UG cfg s e L') ?_ (fun _ => ?_)
    · apply Tr.when
      · intro _; exact ug_plain cfg fuel e s _ rfl L'
      · exact fun _ st h => h
    refine Tr.bind (R := fun _ => UG cfg s e L') ?_ (fun _ => ?_)
    · apply Tr.when
      · intro _; exact ug_plain cfg fuel e s _ rfl L'
      · exact fun _ st h => h
    refine Tr.bind (R := fun _ => UG cfg s e L') (notKnownCheck_tr a _ (fun st h => h.1.1)) (fun _ => ?_)
    apply Tr.getSt_bind; intro st3
    refine Tr.bind (R := fun _ => InvL L') ?_ (fun _ => ?_)
    · apply Tr.when
      · intro _
        exact sideSet_keeps cfg fuel e s _ L' hlt' _ (fun st h => ⟨h.2.1, h.2.2.pathGuard _⟩)
      · exact fun _ st h => h.2.1
    apply Tr.getSt_bind; intro st4
    refine Tr.bind (R := fun _ => InvL L') ?_ (fun _ => ?_)
    · apply Tr.when
      · intro _; exact sideSet_keeps cfg fuel e s _ L' hlt' _ (fun st h => ⟨h.2, trivial⟩)
      · exact fun _ st h => h.2
    apply Tr.getSt_bind; intro st5
    refine Tr.bind (R := fun _ => InvL L') (sideSet_keeps cfg fuel e s _ L' hlt' _ (fun st h => ⟨h.2, trivial⟩)) (fun _ => ?_)
    exact (markIfChanged_tr cfg fuel e s a L' hlt').conseq (fun _ h => h) (fun _ _ h => h.1) (fun _ h => h)

/-! ### `update` -/

/-- the guard of `update`: on the event's side no directory entry lies strictly beneath another entry's path -/
def FlatK (cfg : Cfg) (s : Sd) (st : St) : Prop := ∀ e, KidsLeaves cfg st s e

theorem FlatK.frame {cfg s st st'} (h : FlatK cfg s st) (hf : Frame none st st') : FlatK cfg s st' := fun e => (h e).frame hf

theorem flatK_addEntry {cfg s st} (h : FlatK cfg s st) (ot : OType) : FlatK cfg s (addEntry st ot) := by
  intro e pr hpr d hd hot
  have hs := side_addEntry st ot
  by_cases hde : d = st.ents.length
  · unfold kidRel; rw [hs, if_pos hde]
  · have hdp : ((addEntry st ot).side d s).path = (st.side d s).path := by rw [hs, if_neg hde]
    rw [kidRel_congr cfg (st := st) (st' := addEntry st ot) s pr d hdp]
    by_cases hee : e = st.ents.length
    · rw [hs, if_pos hee] at hpr; cases hpr
    · rw [hs, if_neg hee] at hpr
      exact h e pr hpr d hd (by rw [hs, if_neg hde] at hot; exact hot)

theorem frame_ignoredState (st : St) (e : Nat) (v : Ign) : Frame none st (ignoredState st e v) := by
  have hent : ∀ (st1 : St), Frame none st1 ((st1.dirtyAdd e).modEnt e (fun x => { x with ignored := v })) := by
    intro st1
    refine Frame.of_sides (by simp) (fun i s => ?_)
    have : ((st1.dirtyAdd e).modEnt e (fun x => { x with ignored := v })).side i s = st1.side i s := by
      unfold St.side; rw [ent_modEnt]
      by_cases hh : i = e ∧ e < (st1.dirtyAdd e).ents.length
      · rw [if_pos hh]; obtain ⟨a, _⟩ := hh; subst a; cases s <;> rfl
      · rw [if_neg hh]; rfl
    rw [this]; exact ⟨rfl, rfl⟩
  unfold ignoredState
  split
  · exact Frame.refl _ _
  · simp only
    split
    · refine Frame.trans ?_ (hent _)
      exact ((chgRel_setChanged e .L .fls st).trans (chgRel_setChanged e .R .fls _)).trans (chgRel_csDiscard e _) |>.frame
    · exact hent _

/-- `update` merges the other side of the found entry into the prior entry (`ent[1-side] = _copy`, state.py:1155-1157) -/
def mergeCopies (st : St) (s : Sd) (a : UArgs) (prior : Oid) : Bool :=
  truthyS prior && prior != a.oid &&
  match st.lookupOid s prior, st.lookupOid s a.oid with
  | some pe, some en =>
    !(st.ent pe).isDiscarded &&
      ((st.ent en).isDiscarded || (!(st.ent en).isConflicted && (truthyH (st.side pe s).syncHash || !truthyH (st.side en s).syncHash))) &&
      truthyS (st.side en s.other).oid && !truthyS (st.side pe s.other).oid
  | _, _ => false

/-- what `update` carries while it chooses the entry -/
def CG (cfg : Cfg) (s : Sd) (L : Nat) (st : St) : Prop := InvL L st ∧ FlatK cfg s st

theorem CG.ignored {cfg s L st} (h : CG cfg s L st) (e : Nat) (v : Ign) : CG cfg s L (ignoredState st e v) :=
  ⟨ignoredState_inv st e v L h.1, h.2.frame (frame_ignoredState st e v)⟩

theorem unignoreAll_tr (cfg : Cfg) (s : Sd) (L : Nat) : ∀ (l : List Nat) (acc : Option Nat),
    (∀ i ∈ l, i < L) → (∀ i, acc = some i → i < L) →
    Tr (CG cfg s L) (unignoreAll l acc) (fun r st' => CG cfg s L st' ∧ ∀ i, r = some i → i < L) Inv
  | [], acc, _, hacc => Tr.pure (fun _ h => ⟨h, hacc⟩)
  | i :: t, acc, hl, _ => by
    unfold unignoreAll
    apply Tr.getSt_bind; intro st1
    refine Tr.bind (R := fun _ => CG cfg s L) (Tr.assert (fun st h _ => h.2.1.1) (fun st h _ => h.2)) (fun _ => ?_)
    refine Tr.bind (R := fun _ => CG cfg s L) (Tr.modify (fun st h => h.ignored i .none)) (fun _ => ?_)
    exact unignoreAll_tr cfg s L t (some i) (fun j hj => hl j (List.mem_cons_of_mem _ hj))
      (fun j hj => by cases hj; exact hl i (List.mem_cons_self ..))

theorem lookupPath_lt {st : St} (hi : Inv st) (s : Sd) (p : Option Path.Str) (stale : Bool) :
    ∀ i ∈ st.lookupPath s p stale, i < st.ents.length := by
  intro i hm
  unfold St.lookupPath at hm
  cases hb : AL.get (st.paths s) p with
  | none => rw [hb] at hm; cases hm
  | some b =>
    rw [hb] at hm
    have hm' := (List.mem_filter.1 hm).1
    obtain ⟨x, hx, rfl⟩ := List.mem_map.1 hm'
    exact (hi.1.pathKey s p b hb).2.2 x hx

/-- the merge-copy condition at `mergePrior` time -/
def NoCopy (s : Sd) (ent priorEnt : Option Nat) (st : St) : Prop :=
  ∀ pe en, priorEnt = some pe → ent = some en →
    (!(st.ent pe).isDiscarded && ((st.ent en).isDiscarded ||
        (!(st.ent en).isConflicted && (truthyH (st.side pe s).syncHash || !truthyH (st.side en s).syncHash))) &&
      truthyS (st.side en s.other).oid && !truthyS (st.side pe s.other).oid) = false

theorem mergePrior_tr (cfg : Cfg) (fuel : Nat) (s : Sd) (a : UArgs) (ent priorEnt : Option Nat) (L : Nat)
    (hent : ∀ i, ent = some i → i < L) (hpe : ∀ i, priorEnt = some i → i < L) :
    Tr (fun st => CG cfg s L st ∧ NoCopy s ent priorEnt st) (mergePrior cfg fuel s a ent priorEnt)
      (fun r st' => CG cfg s L st' ∧ ∀ i, r = some i → i < L) Inv := by
  have hkeep : ∀ (r : Option Nat) (P : St → Prop), (∀ i, r = some i → i < L) → (∀ st, P st → CG cfg s L st) →
      Tr P (Pure.pure r : M (Option Nat)) (fun r st' => CG cfg s L st' ∧ ∀ i, r = some i → i < L) Inv :=
    fun r P hr hP => Tr.pure (fun st h => ⟨hP st h, hr⟩)
  have hun : ∀ (st1 : St) (r : Option Nat) (P : St → Prop), (∀ i, r = some i → i < L) → (∀ st, P st → st = st1 ∧ CG cfg s L st) →
      Tr P (unignoreAll (st1.lookupPath s a.path true) r) (fun r st' => CG cfg s L st' ∧ ∀ i, r = some i → i < L) Inv := by
    intro st1 r P hr hP
    apply Tr.with_pre (φ := InvL L st1) (fun st h => (hP st h).1 ▸ (hP st h).2.1)
    intro hil
    exact (unignoreAll_tr cfg s L _ r (fun i hi => hil.2 ▸ lookupPath_lt hil.1 s a.path true i hi) hr).pre (fun st h => (hP st h).2)
  unfold mergePrior
  apply Tr.getSt_bind; intro st1
  cases priorEnt with
  | none =>
    cases ent with
    | none => exact hun st1 none _ hent (fun st h => ⟨h.1, h.2.1⟩)
    | some en => exact hkeep (some en) _ hent (fun st h => h.2.1)
  | some pe =>
    have hpel : pe < L := hpe pe rfl
    have hsome : ∀ i, some pe = some i → i < L := fun i hi => by cases hi; exact hpel
    by_cases hd : (st1.ent pe).isDiscarded = true
    · simp only [hd, Bool.not_true, Bool.false_eq_true, if_false]
      cases ent with
      | none => exact hun st1 none _ hent (fun st h => ⟨h.1, h.2.1⟩)
      | some en => exact hkeep (some en) _ hent (fun st h => h.2.1)
    · simp only [hd, Bool.not_false, if_true]
      cases ent with
      | none =>
        simp only [if_true]
        exact Tr.bind (R := fun _ => CG cfg s L) (Tr.pure (fun st h => h.2.1)) (fun _ => hkeep (some pe) _ hsome (fun st h => h))
      | some en =>
        simp only
        by_cases hr : ((st1.ent en).isDiscarded ||
            (!(st1.ent en).isConflicted && (truthyH (st1.side pe s).syncHash || !truthyH (st1.side en s).syncHash))) = true
        · simp only [hr, if_true]
          refine Tr.bind (R := fun _ => CG cfg s L) ?_ (fun _ => hkeep (some pe) _ hsome (fun st h => h))
          by_cases ht : truthyS (st1.side en s.other).oid = true
          · simp only [ht, if_true]
            apply Tr.when
            · intro hc
              apply Tr.false_pre
              rintro st ⟨rfl, _, hnc⟩
              have := hnc pe en rfl rfl
              simp only [Bool.not_eq_true] at hd
              simp [hd, hr, ht, hc] at this
            · exact fun _ st h => h.2.1
          · simp only [ht, Bool.false_eq_true, if_false]
            exact Tr.pure (fun st h => h.2.1)
        · simp only [hr, Bool.false_eq_true, if_false]
          exact hkeep (some en) _ hent (fun st h => h.2.1)

theorem reusePrior_tr (cfg : Cfg) (s : Sd) (ent : Option Nat) (pe : Nat) (L : Nat) (hent : ∀ i, ent = some i → i < L) (hpe : pe < L)
    (st0 : St) :
    Tr (fun st => st = st0 ∧ CG cfg s L st) (reusePrior s ent pe)
      (fun r st' => CG cfg s L st' ∧ (∀ i, r = some i → i < L) ∧ ((r = ent ∧ st' = st0) ∨ r = some pe)) Inv := by
  unfold reusePrior
  apply Tr.getSt_bind; intro st1
  split
  · refine Tr.bind (R := fun _ => CG cfg s L) (Tr.modify (fun st h => h.2.2.ignored pe .none)) (fun _ => ?_)
    exact Tr.pure (fun st h => ⟨h, fun i hi => by cases hi; exact hpe, Or.inr rfl⟩)
  · exact Tr.pure (fun st h => ⟨h.2.2, hent, Or.inl ⟨rfl, h.2.1⟩⟩)

/-- state.py:1123-1169: the entry the event is applied to exists, and the invariant still holds -/
theorem chooseEntry_tr (cfg : Cfg) (fuel : Nat) (s : Sd) (ot : OType) (a : UArgs) (prior : Oid) (L : Nat) :
    Tr (fun st => CG cfg s L st ∧ mergeCopies st s a prior = false) (chooseEntry cfg fuel s ot a prior)
      (fun e st' => ∃ L', CG cfg s L' st' ∧ e < L') Inv := by
  unfold chooseEntry
  apply Tr.getSt_bind; intro st0
  apply Tr.with_pre (φ := CG cfg s L st0 ∧ mergeCopies st0 s a prior = false) (fun st (h : st = st0 ∧ _) => h.1 ▸ h.2)
  rintro ⟨hcg0, hmc⟩
  have hlk : ∀ k i, st0.lookupOid s k = some i → i < L := fun k i h => hcg0.1.2 ▸ hcg0.1.1.1.bnd s k i h
  simp only
  refine Tr.bind (R := fun r st' => CG cfg s L st' ∧ ∀ i, r = some i → i < L) ?_ (fun ent => ?_)
  · by_cases hc : (truthyS prior && prior != a.oid) = true
    · simp only [hc, if_true]
      cases hp : st0.lookupOid s prior with
      | none =>
        simp only
        refine Tr.bind (R := fun r st' => CG cfg s L st' ∧ r = st0.lookupOid s a.oid) (Tr.pure (fun st h => ⟨h.2.1, rfl⟩)) (fun ent1 => ?_)
        apply Tr.with_pre (φ := ent1 = st0.lookupOid s a.oid) (fun st h => h.2)
        rintro rfl
        exact (mergePrior_tr cfg fuel s a _ none L (fun i hi => hlk _ i hi) (fun i hi => by cases hi)).pre
          (fun st h => ⟨h.1, fun pe en hpe _ => by cases hpe⟩)
      | some pe =>
        simp only
        have hpel : pe < L := hlk _ pe hp
        refine Tr.bind ((reusePrior_tr cfg s (st0.lookupOid s a.oid) pe L (fun i hi => hlk _ i hi) hpel st0).pre
          (fun st h => ⟨h.1, h.2.1⟩)) (fun ent1 => ?_)
        apply Tr.with_pre (φ := ∀ i, ent1 = some i → i < L) (fun st h => h.2.1)
        intro hb1
        refine (mergePrior_tr cfg fuel s a ent1 (some pe) L hb1 (fun i hi => by cases hi; exact hpel)).pre ?_
        rintro st ⟨hcg, _, hcase⟩
        refine ⟨hcg, ?_⟩
        rintro pe' en hpe' hen
        cases hpe'
        rcases hcase with ⟨hr, hst⟩ | hr
        · -- nothing was revived: the guard speaks about this very state
          subst hst
          rw [hr] at hen
          unfold mergeCopies at hmc
          rw [hp, hen, hc] at hmc
          simpa using hmc
        · -- the prior entry itself was revived: it cannot be copied onto itself
          rw [hr] at hen; cases hen
          cases h1 : truthyS (st.side pe s.other).oid <;> simp [h1]
    · simp only [hc, Bool.false_eq_true, if_false]
      exact Tr.pure (fun st h => ⟨h.2.1, fun i hi => hlk _ i hi⟩)
  · cases ent with
    | some e => exact Tr.pure (fun st h => ⟨L, h.1, h.2 e rfl⟩)
    | none =>
      refine (newEntry_tr ot _ Inv).conseq (fun _ h => h) ?_ (fun _ h => h)
      rintro e st' ⟨st, ⟨hcg, _⟩, rfl, rfl⟩
      exact ⟨L + 1, ⟨⟨inv_addEntry hcg.1.1 ot, by simp [hcg.1.2]⟩, flatK_addEntry hcg.2 ot⟩, by simp [hcg.1.2]⟩

/-- state.py:1119-1172 `update`: one raw event keeps the invariant -/
theorem update_tr (cfg : Cfg) (fuel : Nat) (s : Sd) (ot : OType) (a : UArgs) (prior : Oid) (L : Nat) :
    Tr (fun st => CG cfg s L st ∧ mergeCopies st s a prior = false) (update cfg fuel s ot a prior) (fun _ st' => Inv st') Inv := by
  unfold update
  refine Tr.bind (chooseEntry_tr cfg fuel s ot a prior L) (fun e => ?_)
  apply Tr.exists_pre; intro L'
  apply Tr.with_pre (φ := e < L') (fun st h => h.2)
  intro hlt
  apply Tr.getSt_bind; intro st1
  exact (updateEntry_tr cfg fuel e s _ L' hlt).pre (fun st h => ⟨h.2.1.1, h.2.1.2 e⟩)

end CS.State
