import Csverif.Proofs.StateOps
/-
C11: `update_entry` and `update` (state.py:978-1026, 1119-1172).
-/
namespace CS.State

/-! ### `SyncEntry(self, otype)` -/

def addEntry (st : St) (ot : OType) : St := { st with ents := st.ents ++ [{ l := { otype := ot }, r := { otype := ot } }] }

theorem newEntry_eq (ot : OType) (st : St) : newEntry ot st = (.ok st.ents.length, addEntry st ot) := rfl

@[simp] theorem oids_addEntry (st : St) (ot) (s : Sd) : (addEntry st ot).oids s = st.oids s := by cases s <;> rfl
@[simp] theorem paths_addEntry (st : St) (ot) (s : Sd) : (addEntry st ot).paths s = st.paths s := by cases s <;> rfl
@[simp] theorem cs_addEntry (st : St) (ot) : (addEntry st ot).cs = st.cs := rfl
@[simp] theorem moving_addEntry (st : St) (ot) : (addEntry st ot).moving = st.moving := rfl
@[simp] theorem len_addEntry (st : St) (ot) : (addEntry st ot).ents.length = st.ents.length + 1 := by simp [addEntry]

theorem side_addEntry (st : St) (ot : OType) (i : Nat) (s : Sd) :
    (addEntry st ot).side i s = if i = st.ents.length then ({ otype := ot } : Side) else st.side i s := by
  unfold St.side St.ent addEntry
  simp only [List.getD_eq_getElem?_getD]
  by_cases h : i = st.ents.length
  · subst h; simp; cases s <;> rfl
  · simp only [h, if_false]
    by_cases hl : i < st.ents.length
    · rw [List.getElem?_append_left hl]
    · have : st.ents.length + 1 ≤ i := by omega
      rw [List.getElem?_eq_none (by simp; omega), List.getElem?_eq_none (by omega)]

theorem inv_addEntry {st : St} (hi : Inv st) (ot : OType) : Inv (addEntry st ot) := by
  have hs := side_addEntry st ot
  have hnew : ∀ s, ((addEntry st ot).side st.ents.length s).oid = none ∧ ((addEntry st ot).side st.ents.length s).changed = .none := by
    intro s; rw [hs]; simp
  obtain ⟨⟨b1, b2, b3, b4, b5, b6, b7⟩, hP⟩ := hi
  have hold : ∀ i s, i < st.ents.length → (addEntry st ot).side i s = st.side i s := by
    intro i s hl; rw [hs]; simp [Nat.ne_of_lt hl]
  refine ⟨⟨?_, ?_, ?_, b4.congr (by simp) (by simp), ?_, ?_, ?_⟩, ?_⟩
  · intro s k i hk; simp only [oids_addEntry, len_addEntry] at hk ⊢; exact Nat.lt_succ_of_lt (b1 s k i hk)
  · intro s; simp only [oids_addEntry]; exact b2 s
  · intro s k i hk; simp only [oids_addEntry] at hk; rw [hold i s (b1 s k i hk)]; exact b3 s k i hk
  · intro s p k i hk
    rw [slot_congr (st := st) (by simp)] at hk
    have hlt := b1 s k i (b5 s p k i hk).2.2
    simp only [oids_addEntry]; rw [hold i s hlt]; exact b5 s p k i hk
  · intro i s hx ho
    by_cases hl : i < st.ents.length
    · rw [hold i s hl] at ho ⊢; simp only [oids_addEntry]; exact b6 i s hx ho
    · by_cases he : i = st.ents.length
      · subst he; exact absurd (hnew s).1 ho
      · rw [oid_oob _ i s (by simp; omega)] at ho; exact absurd rfl ho
  · intro i s hx ho ht
    by_cases hl : i < st.ents.length
    · rw [hold i s hl] at ho ht ⊢; rw [slot_congr (st := st) (by simp)]; exact b7 i s hx ho ht
    · by_cases he : i = st.ents.length
      · subst he; exact absurd (hnew s).1 ho
      · rw [oid_oob _ i s (by simp; omega)] at ho; exact absurd rfl ho
  · intro i ⟨s, h1, h2⟩
    by_cases hl : i < st.ents.length
    · rw [hold i s hl] at h1 h2; simpa using hP i ⟨s, h1, h2⟩
    · by_cases he : i = st.ents.length
      · subst he; rw [(hnew s).2] at h1; cases h1
      · rw [changed_oob _ i s (by simp; omega)] at h1; cases h1

theorem newEntry_tr (ot : OType) (P : St → Prop) (E : St → Prop) :
    Tr P (newEntry ot) (fun e st' => ∃ st, P st ∧ e = st.ents.length ∧ st' = addEntry st ot) E := by
  intro st hp
  rw [newEntry_eq]
  exact ⟨fun e he => by cases he; exact ⟨st, hp, rfl, rfl⟩, fun x hx => by cases hx⟩

/-! ### `update_entry` -/


theorem markIfChanged_tr (cfg : Cfg) (fuel : Nat) (e : Nat) (s : Sd) (a : UArgs) (L : Nat) (hlt : e < L) :
    Tr (InvL L) (markIfChanged cfg fuel e s a) (fun _ => InvL L) Inv := by
  unfold markIfChanged
  cases a.changed with
  | none => exact Tr.pure (fun _ h => h)
  | some c =>
    simp only
    apply Tr.when
    · intro _
      apply Tr.getSt_bind; intro st1
      refine Tr.bind (R := fun _ => InvL L) (Tr.assert (fun st h _ => h.2.1) (fun st h _ => h.2)) (fun _ => ?_)
      refine Tr.bind (R := fun _ => InvL L) (markChanged_tr cfg fuel s e L hlt) (fun _ => ?_)
      apply Tr.when
      · intro _
        exact Tr.modify (fun st h => h.plain (plainRel_modSide _ _ _ _ (by intro x; exact ⟨rfl, rfl, rfl⟩)))
      · exact fun _ st h => h
    · exact fun _ st h => h

theorem notKnownCheck_tr (a : UArgs) (P : St → Prop) (hP : ∀ st, P st → Inv st) : Tr P (notKnownCheck a) (fun _ => P) Inv := by
  unfold notKnownCheck
  split
  · split
    · exact Tr.assert (fun st h _ => hP st h) (fun st h _ => h)
    · exact Tr.pure (fun _ h => h)
    · exact Tr.throw (fun _ st h => hP st h)
  · exact Tr.pure (fun _ h => h)

/-- state.py:978-1026 `update_entry` keeps the invariant (no guard) -/
theorem updateEntry_tr (cfg : Cfg) (fuel : Nat) (ent : Nat) (s : Sd) (a : UArgs) (L : Nat) (hlt : ent < L) :
    Tr (InvL L) (updateEntry cfg fuel ent s a) (fun _ st' => Inv st') Inv := by
  unfold updateEntry
  refine Tr.bind (R := fun e st' => ∃ L', InvL L' st' ∧ e < L') ?_ (fun e => ?_)
  · -- replaceDiscarded
    unfold replaceDiscarded
    apply Tr.getSt_bind; intro st1
    have hsame : Tr (fun st => st = st1 ∧ InvL L st) (Pure.pure ent : M Nat)
        (fun e st' => ∃ L', InvL L' st' ∧ e < L') Inv := Tr.pure (fun st ⟨_, h⟩ => ⟨L, h, hlt⟩)
    split
    · split
      · refine (newEntry_tr _ _ Inv).conseq (fun _ h => h) ?_ (fun _ h => h)
        rintro e' st' ⟨st, ⟨_, hil⟩, rfl, rfl⟩
        exact ⟨L + 1, ⟨inv_addEntry hil.1 _, by simp [hil.2.1], (by rw [moving_addEntry]; exact hil.2.2)⟩, by simp [hil.2.1]⟩
      · exact hsame
    · exact hsame
  · apply Tr.exists_pre; intro L'
    apply Tr.with_pre (φ := e < L') (fun st h => h.2)
    intro hlt'
    have step : ∀ fv (P : St → Prop), (∀ st, P st → InvL L' st) → Tr P (sideSet cfg fuel e s fv) (fun _ => InvL L') Inv :=
      fun fv P hP => sideSet_keeps cfg fuel e s fv L' hlt' P hP
    refine Tr.bind (R := fun _ => InvL L') ?_ (fun _ => ?_)
    · apply Tr.when
      · intro _; exact step _ _ (fun st h => h.1)
      · exact fun _ st h => h.1
    apply Tr.getSt_bind; intro st2
    refine Tr.bind (R := fun _ => InvL L') ?_ (fun _ => ?_)
    · apply Tr.when
      · intro _; exact step _ _ (fun st h => h.2)
      · exact fun _ st h => h.2
    refine Tr.bind (R := fun _ => InvL L') ?_ (fun _ => ?_)
    · apply Tr.when
      · intro _; exact step _ _ (fun st h => h)
      · exact fun _ st h => h
    refine Tr.bind (R := fun _ => InvL L') ?_ (fun _ => ?_)
    · apply Tr.when
      · intro _; exact step _ _ (fun st h => h)
      · exact fun _ st h => h
    refine Tr.bind (R := fun _ => InvL L') (notKnownCheck_tr a _ (fun st h => h.1)) (fun _ => ?_)
    apply Tr.getSt_bind; intro st3
    refine Tr.bind (R := fun _ => InvL L') ?_ (fun _ => ?_)
    · apply Tr.when
      · intro _; exact step _ _ (fun st h => h.2)
      · exact fun _ st h => h.2
    apply Tr.getSt_bind; intro st4
    refine Tr.bind (R := fun _ => InvL L') ?_ (fun _ => ?_)
    · apply Tr.when
      · intro _; exact step _ _ (fun st h => h.2)
      · exact fun _ st h => h.2
    apply Tr.getSt_bind; intro st5
    refine Tr.bind (R := fun _ => InvL L') (step _ _ (fun st h => h.2)) (fun _ => ?_)
    exact (markIfChanged_tr cfg fuel e s a L' hlt').conseq (fun _ h => h) (fun _ _ h => h.1) (fun _ h => h)

end CS.State
