import Csverif.Proofs.StatePath
/-
C11: the remaining attributes, the kids loop, and the theorem for `ent[side].<attr> = v` (`sideSet_inv`).
-/
namespace CS.State

/-- `st'` differs from `st` in nothing the invariant reads -/
structure PlainRel (st st' : St) : Prop where
  len : st'.ents.length = st.ents.length
  oids : ∀ s, st'.oids s = st.oids s
  paths : ∀ s, st'.paths s = st.paths s
  cs : st'.cs = st.cs
  fields : ∀ i s, (st'.side i s).oid = (st.side i s).oid ∧ (st'.side i s).path = (st.side i s).path ∧
    (st'.side i s).changed = (st.side i s).changed
  mov : st'.moving = st.moving

theorem PlainRel.refl (st : St) : PlainRel st st := ⟨rfl, fun _ => rfl, fun _ => rfl, rfl, fun _ _ => ⟨rfl, rfl, rfl⟩, rfl⟩
theorem PlainRel.trans {st st' st''} (h1 : PlainRel st st') (h2 : PlainRel st' st'') : PlainRel st st'' :=
  ⟨h2.len.trans h1.len, fun s => (h2.oids s).trans (h1.oids s), fun s => (h2.paths s).trans (h1.paths s), h2.cs.trans h1.cs,
   fun i s => ⟨(h2.fields i s).1.trans (h1.fields i s).1, (h2.fields i s).2.1.trans (h1.fields i s).2.1,
     (h2.fields i s).2.2.trans (h1.fields i s).2.2⟩, h2.mov.trans h1.mov⟩

theorem PlainRel.inv {st st'} (h : PlainRel st st') (hi : Inv st) : Inv st' :=
  ⟨hi.1.congr h.len h.oids h.paths (fun i s => ⟨(h.fields i s).1, (h.fields i s).2.1⟩),
   hi.2.congr (fun i hi' => h.cs ▸ hi') (fun i s => ⟨(h.fields i s).1, (h.fields i s).2.2⟩)⟩

theorem plainRel_dirtyAdd (st : St) (j : Nat) : PlainRel st (st.dirtyAdd j) :=
  ⟨rfl, fun s => by simp, fun s => by simp, rfl, fun _ _ => ⟨rfl, rfl, rfl⟩, rfl⟩

theorem plainRel_modSide (st : St) (e : Nat) (s : Sd) (f : Side → Side)
    (hf : ∀ x, (f x).oid = x.oid ∧ (f x).path = x.path ∧ (f x).changed = x.changed) : PlainRel st (st.modSide e s f) := by
  refine ⟨by simp, fun s => by simp, fun s => by simp, rfl, fun i s' => ?_, rfl⟩
  rw [side_modSide]
  by_cases hh : i = e ∧ s' = s ∧ e < st.ents.length
  · rw [if_pos hh]; obtain ⟨a, b, _⟩ := hh; subst a; subst b; exact hf _
  · rw [if_neg hh]; exact ⟨rfl, rfl, rfl⟩

theorem plainRel_modEnt (st : St) (e : Nat) (f : Entry → Entry) (hf : ∀ x s, (f x).side s = x.side s) : PlainRel st (st.modEnt e f) := by
  have hs : ∀ i s, (st.modEnt e f).side i s = st.side i s := by
    intro i s; unfold St.side; rw [ent_modEnt]
    by_cases hh : i = e ∧ e < st.ents.length
    · rw [if_pos hh]; obtain ⟨a, _⟩ := hh; subst a; exact hf _ s
    · rw [if_neg hh]
  exact ⟨by simp, fun s => by simp, fun s => by simp, rfl, fun i s => by rw [hs]; exact ⟨rfl, rfl, rfl⟩, rfl⟩

theorem PlainRel.dirtyAdd {st st'} (h : PlainRel st st') (j : Nat) : PlainRel st (st'.dirtyAdd j) := h.trans (plainRel_dirtyAdd _ _)
theorem PlainRel.modSide {st st'} (h : PlainRel st st') (e : Nat) (s : Sd) (f : Side → Side)
    (hf : ∀ x, (f x).oid = x.oid ∧ (f x).path = x.path ∧ (f x).changed = x.changed) : PlainRel st (st'.modSide e s f) :=
  h.trans (plainRel_modSide _ _ _ _ hf)

theorem plainRel_existsState (st : St) (e : Nat) (s : Sd) (v : ExVal) : PlainRel st (existsState st e s v) := by
  unfold existsState
  simp only
  split
  · exact (PlainRel.refl st).modSide _ _ _ (by intro x; exact ⟨rfl, rfl, rfl⟩)
  · split
    · exact (PlainRel.refl st).modSide _ _ _ (by intro x; exact ⟨rfl, rfl, rfl⟩)
    · exact (((PlainRel.refl st).dirtyAdd _).modSide _ _ _ (by intro x; exact ⟨rfl, rfl, rfl⟩)).dirtyAdd _

theorem plainRel_hashState (st : St) (e : Nat) (s : Sd) (v : Option Nat) : PlainRel st (hashState st e s v) := by
  unfold hashState
  simp only
  split
  · exact ((((((PlainRel.refl st).dirtyAdd _).modSide _ _ _ (by intro x; exact ⟨rfl, rfl, rfl⟩)).dirtyAdd _).modSide _ _ _
      (by intro x; exact ⟨rfl, rfl, rfl⟩))).modSide _ _ _ (by intro x; exact ⟨rfl, rfl, rfl⟩)
  · exact ((PlainRel.refl st).dirtyAdd _).modSide _ _ _ (by intro x; exact ⟨rfl, rfl, rfl⟩)

/-- attributes without index significance -/
def FV.plain : FV → Bool
  | .path _ | .oid _ | .changed _ => false
  | _ => true

theorem sideSetBody_plain (setF : SetF) (cfg : Cfg) (e : Nat) (s : Sd) (fv : FV) (h : fv.plain = true) (st : St) :
    ∃ st', sideSetBody setF cfg e s fv st = (.ok (), st') ∧ PlainRel st st' := by
  cases fv with
  | path _ => cases h
  | oid _ => cases h
  | changed _ => cases h
  | exists_ v => exact ⟨_, rfl, plainRel_existsState ..⟩
  | hash v => exact ⟨_, rfl, plainRel_hashState ..⟩
  | mtime v => exact ⟨_, rfl, (((PlainRel.refl st).dirtyAdd _).modSide _ _ _ (by intro x; exact ⟨rfl, rfl, rfl⟩)).dirtyAdd _⟩
  | syncHash v => exact ⟨_, rfl, ((PlainRel.refl st).dirtyAdd _).modSide _ _ _ (by intro x; exact ⟨rfl, rfl, rfl⟩)⟩
  | syncPath v => exact ⟨_, rfl, ((PlainRel.refl st).dirtyAdd _).modSide _ _ _ (by intro x; exact ⟨rfl, rfl, rfl⟩)⟩
  | otype v => exact ⟨_, rfl, ((PlainRel.refl st).dirtyAdd _).modSide _ _ _ (by intro x; exact ⟨rfl, rfl, rfl⟩)⟩
  | size v => exact ⟨_, rfl, ((PlainRel.refl st).dirtyAdd _).modSide _ _ _ (by intro x; exact ⟨rfl, rfl, rfl⟩)⟩

theorem sideSet_plain_tr (cfg : Cfg) (n : Nat) (e : Nat) (s : Sd) (fv : FV) (h : fv.plain = true) (st0 : St) :
    Tr (fun st => st = st0) (sideSet cfg n e s fv) (fun _ st' => PlainRel st0 st') (fun _ => False) := by
  rintro st rfl
  cases n with
  | zero => exact ⟨fun a ha => (by cases ha), fun x hx hne => by cases hx; exact absurd rfl hne⟩
  | succ n =>
    obtain ⟨st', heq, hrel⟩ := sideSetBody_plain (sideSet cfg n) cfg e s fv h st
    have hstep : sideSet cfg (n + 1) e s fv st = (.ok (), st') := heq
    rw [hstep]
    exact ⟨fun _ _ => hrel, fun x hx => by cases hx⟩

theorem frame_syncPath (st : St) (e : Nat) (s : Sd) (v : Option Path.Str) :
    Frame none st ((st.dirtyAdd e).modSide e s (fun x => { x with syncPath := v })) := by
  refine Frame.of_sides (by simp) (fun i s' => ?_)
  rw [side_modSide]
  by_cases hh : i = e ∧ s' = s ∧ e < (st.dirtyAdd e).ents.length
  · rw [if_pos hh]; obtain ⟨a, b, _⟩ := hh; subst a; subst b; exact ⟨rfl, rfl⟩
  · rw [if_neg hh]; exact ⟨rfl, rfl⟩

/-! ### moving a directory with its kids (fix C: entries on the `_kids_moving` stack are nobody's kid) -/

theorem kidRel_congr (cfg : Cfg) {st st' : St} (s : Sd) (prior : Path.Str) (i : Nat)
    (h : (st'.side i s).path = (st.side i s).path) : kidRel cfg st' s prior i = kidRel cfg st s prior i := by
  unfold kidRel; rw [h]

/-- `ent[side].path = v` for an entry that is not a directory (or has no previous path): no kids are moved -/
theorem sideSet_path_leaf_tr (cfg : Cfg) (n : Nat) (e : Nat) (s : Sd) (v : Option Path.Str) (st0 : St)
    (hi : Inv st0) (hlt : e < st0.ents.length) (hleaf : (st0.side e s).otype ≠ .dir ∨ (st0.side e s).path = none) :
    Tr (fun st => st = st0) (sideSet cfg n e s (.path v))
      (fun _ st' => Inv st' ∧ Frame (some (e, s)) st0 st') (fun st' => Inv st' ∧ Frame (some (e, s)) st0 st') := by
  cases n with
  | zero => rintro st rfl; exact ⟨fun a ha => (by cases ha), fun x hx hne => by cases hx; exact absurd rfl hne⟩
  | succ n =>
    have hfr0 : Frame (some (e, s)) st0 (popPrior st0 s e) :=
      (Frame.of_sides (len_popPrior ..) (fun i s' => by rw [side_popPrior]; exact ⟨rfl, rfl⟩)).weaken
    refine sideSet_path_gen cfg n e s v st0 (fun st' => Frame (some (e, s)) st0 st') hi hlt (Frame.refl _ _)
      (fun w _ => hfr0.trans (frame_pathFin ..)) (fun st6 w h6 _ => h6.trans (frame_pathFin ..))
      (fun st5 st6 h5 hrel => h5.trans hrel.frame.weaken) ?_
    intro c p _ ho hp
    rintro st4 rfl
    obtain ⟨hinv4, hfr4, hp4⟩ := Inv.putPath hi.1 hi.2 s e (c :: p) rfl ho hp hlt
    have hot : ((putPath (popPrior st0 s e) s e (c :: p)).side e s).otype = (st0.side e s).otype := (hfr4.2 e s).1
    rw [updateKids_skip_eq _ _ _ _ _ _ _ (by rw [hot]; exact hleaf)]
    exact ⟨fun _ _ => ⟨hinv4, by rw [hfr4.1]; exact hlt, hp4, hfr4⟩, fun x hx => by cases hx⟩

theorem sideSet_syncPath_tr (cfg : Cfg) (n : Nat) (e : Nat) (s : Sd) (v : Option Path.Str) (st0 : St) (hi : Inv st0) :
    Tr (fun st => st = st0) (sideSet cfg n e s (.syncPath v)) (fun _ st' => Inv st' ∧ Frame none st0 st') (fun _ => False) := by
  rintro st rfl
  cases n with
  | zero => exact ⟨fun a ha => (by cases ha), fun x hx hne => by cases hx; exact absurd rfl hne⟩
  | succ n =>
    have hstep : sideSet cfg (n + 1) e s (.syncPath v) st = (.ok (), (st.dirtyAdd e).modSide e s (fun x => { x with syncPath := v })) := rfl
    rw [hstep]
    have hpr : PlainRel st ((st.dirtyAdd e).modSide e s (fun x => { x with syncPath := v })) :=
      ((PlainRel.refl st).dirtyAdd _).modSide _ _ _ (by intro x; exact ⟨rfl, rfl, rfl⟩)
    exact ⟨fun _ _ => ⟨hpr.inv hi, frame_syncPath ..⟩, fun x hx => by cases hx⟩

/-- the paths of the entries in `M` are untouched -/
def KeepPaths (M : List Nat) (st st' : St) : Prop := ∀ m ∈ M, ∀ s, (st'.side m s).path = (st.side m s).path

theorem KeepPaths.refl (M) (st : St) : KeepPaths M st st := fun _ _ _ => rfl
theorem KeepPaths.trans {M st st' st''} (h1 : KeepPaths M st st') (h2 : KeepPaths M st' st'') : KeepPaths M st st'' :=
  fun m hm s => (h2 m hm s).trans (h1 m hm s)
theorem KeepPaths.mono {M M' st st'} (h : KeepPaths M st st') (hs : ∀ m ∈ M', m ∈ M) : KeepPaths M' st st' :=
  fun m hm s => h m (hs m hm) s
theorem Frame.keep {t st st'} (h : Frame t st st') (M : List Nat) (ht : ∀ e s, t = some (e, s) → e ∉ M) : KeepPaths M st st' :=
  fun m hm s => (h.2 m s).2 (fun heq => ht m s heq.symm hm)

/-- `Tr` with the stack recorded -/
theorem Tr.with_mov {α} {P : St → Prop} {m : M α} {Q : α → St → Prop} {E : St → Prop} (h : Tr P m Q E) (hm : Mov m) (M : List Nat) :
    Tr (fun st => P st ∧ st.moving = M) m (fun a st' => Q a st' ∧ st'.moving = M) (fun st' => E st' ∧ st'.moving = M) := by
  intro st ⟨hp, hM⟩
  have := h st hp
  have hmv : (m st).2.moving = M := (hm st).trans hM
  exact ⟨fun a ha => ⟨this.1 a ha, hmv⟩, fun x hx hne => ⟨this.2 x hx hne, hmv⟩⟩

theorem inv_setMoving {st : St} (hi : Inv st) (x : List Nat) : Inv { st with moving := x } :=
  ⟨hi.1.congr rfl (fun s => by cases s <;> rfl) (fun s => by cases s <;> rfl) (fun _ _ => ⟨rfl, rfl⟩),
   hi.2.congr (fun _ h => h) (fun _ _ => ⟨rfl, rfl⟩)⟩

/-- what a hooked assignment guarantees: the invariant, the number of entries, and the paths of the folders whose kids are
    being moved -/
def GoodPost (st : St) (st' : St) : Prop := Inv st' ∧ st'.ents.length = st.ents.length ∧ KeepPaths st.moving st st'

def Good (cfg : Cfg) (n : Nat) : Prop :=
  ∀ e s fv st, Inv st → e < st.ents.length → e ∉ st.moving →
    Tr (fun st' => st' = st) (sideSet cfg n e s fv) (fun _ st' => GoodPost st st') (GoodPost st)

/-- loop invariant of `_update_kids` -/
def KidsJ (L : Nat) (M : List Nat) (st0 : St) (st : St) : Prop :=
  Inv st ∧ st.ents.length = L ∧ st.moving = M ∧ KeepPaths M st0 st

/-- one kid is moved (state.py:869-890): its id (path-id providers), its path — recursively, `_update_kids` of the kid —, its sync_path -/
theorem moveKid_tr (cfg : Cfg) (n : Nat) (hG : Good cfg n) (s : Sd) (sub : Nat) (prior path rel : Path.Str) (L : Nat) (M : List Nat)
    (st0 : St) (hsub : sub ∉ M) (hlt : sub < L) :
    Tr (KidsJ L M st0) (moveKid (sideSet cfg n) cfg s sub prior path rel) (fun _ => KidsJ L M st0) (KidsJ L M st0) := by
  unfold moveKid
  simp only
  -- every step is a hooked assignment on `sub`
  have step : ∀ fv, Tr (KidsJ L M st0) (sideSet cfg n sub s fv) (fun _ => KidsJ L M st0) (KidsJ L M st0) := by
    intro fv
    apply Tr.intro_st; intro st1
    apply Tr.with_pre (φ := KidsJ L M st0 st1) (fun st (h : st = st1 ∧ _) => h.1 ▸ h.2)
    rintro ⟨hi1, hl1, hm1, hk1⟩
    have hg := hG sub s fv st1 hi1 (hl1 ▸ hlt) (hm1 ▸ hsub)
    refine ((hg.with_mov (movF_sideSet cfg n sub s fv) M)).conseq ?_ ?_ ?_
    · rintro st ⟨rfl, _⟩; exact ⟨rfl, hm1⟩
    · rintro _ st' ⟨⟨h1, h2, h3⟩, h4⟩; exact ⟨h1, h2.trans hl1, h4, hk1.trans (hm1 ▸ h3)⟩
    · rintro st' ⟨⟨h1, h2, h3⟩, h4⟩; exact ⟨h1, h2.trans hl1, h4, hk1.trans (hm1 ▸ h3)⟩
  refine Tr.bind (R := fun _ => KidsJ L M st0) ?_ (fun _ => ?_)
  · apply Tr.when
    · intro _
      split
      · exact step _
      · exact Tr.pure (fun _ h => h)
    · exact fun _ _ h => h
  refine Tr.bind (R := fun _ => KidsJ L M st0) (step _) (fun _ => ?_)
  unfold fixSyncPath
  apply Tr.getSt_bind; intro st3
  split
  · split
    · exact (step _).pre (fun _ h => h.2)
    · exact Tr.pure (fun _ h => h.2)
  · exact Tr.pure (fun _ h => h.2)

theorem kidsLoop_tr (cfg : Cfg) (n : Nat) (hG : Good cfg n) (s : Sd) (prior pth : Path.Str) (L : Nat) (M : List Nat) (st0 : St) :
    ∀ l : List Nat, Tr (KidsJ L M st0) (kidsLoop (sideSet cfg n) cfg s prior pth l) (fun _ => KidsJ L M st0) (KidsJ L M st0)
  | [] => Tr.pure (fun _ h => h)
  | sub :: rest => by
    unfold kidsLoop
    apply Tr.getSt_bind; intro st1
    cases hk : kidRel cfg st1 s prior sub with
    | none => exact (kidsLoop_tr cfg n hG s prior pth L M st0 rest).pre (fun st h => h.2)
    | some rel =>
      simp only
      apply Tr.with_pre (φ := KidsJ L M st0 st1) (fun st (h : st = st1 ∧ _) => h.1 ▸ h.2)
      rintro ⟨hi1, hl1, hm1, hk1⟩
      by_cases hc : st1.moving.contains sub = true
      · simp only [hc, if_true]
        exact (kidsLoop_tr cfg n hG s prior pth L M st0 rest).pre (fun st h => h.2)
      · simp only [hc, Bool.false_eq_true, if_false]
        have hsub : sub ∉ M := by
          intro hmem; apply hc; rw [hm1]; simpa using hmem
        have hsublt : sub < L := by
          rw [← hl1]
          apply Decidable.byContradiction; intro hge
          unfold kidRel at hk; rw [path_oob st1 sub s hge] at hk; cases hk
        exact Tr.bind (R := fun _ => KidsJ L M st0) ((moveKid_tr cfg n hG s sub prior pth rel L M st0 hsub hsublt).pre (fun st h => h.2))
          (fun _ => kidsLoop_tr cfg n hG s prior pth L M st0 rest)

@[simp] theorem moving_popPrior (st : St) (s e) : (popPrior st s e).moving = st.moving := by unfold popPrior; split <;> simp
@[simp] theorem moving_putPath (st : St) (s e pth) : (putPath st s e pth).moving = st.moving := by simp [putPath]
@[simp] theorem moving_pathFin (st : St) (e s v) : (pathFin st e s v).moving = st.moving := by simp [pathFin]

/-- `_update_kids` (fix C): the folder is on the stack while its kids are moved -/
theorem updateKids_tr (cfg : Cfg) (n : Nat) (hG : Good cfg n) (s : Sd) (e : Nat) (prior : Option Path.Str) (pth : Path.Str) (st4 : St)
    (hi4 : Inv st4) :
    Tr (fun st => st = st4) (updateKids (sideSet cfg n) cfg s e prior pth)
      (fun _ st5 => Inv st5 ∧ st5.ents.length = st4.ents.length ∧ st5.moving = st4.moving ∧ KeepPaths (e :: st4.moving) st4 st5)
      (fun st5 => Inv st5 ∧ st5.ents.length = st4.ents.length ∧ st5.moving = st4.moving ∧ KeepPaths (e :: st4.moving) st4 st5) := by
  unfold updateKids
  have hpop : ∀ st', KidsJ st4.ents.length (e :: st4.moving) { st4 with moving := e :: st4.moving } st' →
      Inv { st' with moving := st'.moving.tail } ∧ ({ st' with moving := st'.moving.tail } : St).ents.length = st4.ents.length ∧
      ({ st' with moving := st'.moving.tail } : St).moving = st4.moving ∧
      KeepPaths (e :: st4.moving) st4 { st' with moving := st'.moving.tail } := by
    rintro st' ⟨h1, h2, h3, h4⟩
    exact ⟨inv_setMoving h1 _, h2, by simp [h3], fun m hm s' => h4 m hm s'⟩
  refine Tr.finally_ (Q0 := fun _ => KidsJ st4.ents.length (e :: st4.moving) { st4 with moving := e :: st4.moving })
    (E0 := KidsJ st4.ents.length (e :: st4.moving) { st4 with moving := e :: st4.moving }) ?_ (fun _ st' h => hpop st' h) hpop
  refine Tr.bind (R := fun _ => KidsJ st4.ents.length (e :: st4.moving) { st4 with moving := e :: st4.moving }) ?_ (fun _ => ?_)
  · apply Tr.modify
    rintro st rfl
    exact ⟨inv_setMoving hi4 _, rfl, rfl, KeepPaths.refl _ _⟩
  · unfold updateKidsOf
    apply Tr.getSt_bind; intro st1
    cases prior with
    | none => exact Tr.pure (fun _ h => h.2)
    | some pr =>
      simp only
      apply Tr.when
      · intro _; exact (kidsLoop_tr cfg n hG s pr pth _ _ _ _).pre (fun _ h => h.2)
      · exact fun _ _ h => h.2

/-- every hooked assignment, at every recursion depth: by induction on the fuel -/
theorem good_all (cfg : Cfg) : ∀ n, Good cfg n
  | 0 => by
    rintro e s fv st _ _ _ st' rfl
    exact ⟨fun a ha => (by cases ha), fun x hx hne => by cases hx; exact absurd rfl hne⟩
  | n + 1 => by
    have hG := good_all cfg n
    intro e s fv st hi hlt hm
    have hkeepF : ∀ {t st'}, Frame t st st' → (∀ e' s', t = some (e', s') → e' = e) → KeepPaths st.moving st st' :=
      fun hf ht => hf.keep _ (fun e' s' h hmem => hm ((ht e' s' h) ▸ hmem))
    cases hfv : fv with
    | oid v =>
      refine (sideSet_oid_tr cfg (n + 1) noX e s v st).conseq ?_ ?_ (fun _ h => h.elim)
      · rintro st' rfl; exact ⟨rfl, hi.1, hi.2, hlt⟩
      · intro _ st' ⟨h1, h2, h3⟩; exact ⟨⟨h1, h2⟩, h3.1, hkeepF h3 (fun _ _ h => by cases h)⟩
    | changed v =>
      refine (sideSet_changed_tr cfg (n + 1) noX e s v st).conseq ?_ ?_ (fun _ h => h.elim)
      · rintro st' rfl; exact ⟨rfl, hi.1, hi.2, hlt⟩
      · intro _ st' ⟨h1, h2, h3⟩; exact ⟨⟨h1, h2⟩, h3.len, hkeepF h3.frame (fun _ _ h => by cases h)⟩
    | path v =>
      by_cases hleaf : (st.side e s).otype ≠ .dir ∨ (st.side e s).path = none
      · refine (sideSet_path_leaf_tr cfg (n + 1) e s v st hi hlt hleaf).conseq (fun _ h => h) ?_ ?_
        · intro _ st' h; exact ⟨h.1, h.2.1, hkeepF h.2 (fun e' s' h' => by cases h'; rfl)⟩
        · intro st' h; exact ⟨h.1, h.2.1, hkeepF h.2 (fun e' s' h' => by cases h'; rfl)⟩
      · have hfr0 : Frame (some (e, s)) st (popPrior st s e) :=
          (Frame.of_sides (len_popPrior ..) (fun i s' => by rw [side_popPrior]; exact ⟨rfl, rfl⟩)).weaken
        have hte : ∀ e' s', some (e, s) = some (e', s') → e' = e := fun e' s' h => by cases h; rfl
        refine (sideSet_path_gen cfg n e s v st
          (fun st' => st'.ents.length = st.ents.length ∧ st'.moving = st.moving ∧ KeepPaths st.moving st st') hi hlt
          ⟨rfl, rfl, KeepPaths.refl _ _⟩ ?_ ?_ ?_ ?_).conseq (fun _ h => h) (fun _ _ h => ⟨h.1, h.2.1, h.2.2.2⟩)
          (fun _ h => ⟨h.1, h.2.1, h.2.2.2⟩)
        · intro w _
          exact ⟨by simp [pathFin, len_popPrior], by simp, hkeepF (hfr0.trans (frame_pathFin ..)) hte⟩
        · rintro st6 w ⟨h1, h2, h3⟩ _
          refine ⟨by simpa [pathFin] using h1, by simpa using h2, h3.trans ?_⟩
          exact (frame_pathFin st6 e s w).keep _ (fun e' s' h hmem => hm (by cases h; exact hmem))
        · rintro st5 st6 ⟨h1, h2, h3⟩ hrel
          exact ⟨hrel.len.trans h1, hrel.mov.trans h2, h3.trans (hrel.frame.keep _ (fun _ _ h => by cases h))⟩
        · intro c p _ ho hp
          obtain ⟨hinv4, hfr4, hp4⟩ := Inv.putPath hi.1 hi.2 s e (c :: p) rfl ho hp hlt
          refine (updateKids_tr cfg n hG s e (st.side e s).path (c :: p) _ hinv4).conseq (fun _ h => h) ?_ ?_
          · rintro _ st5 ⟨h1, h2, h3, h4⟩
            have hmv : st5.moving = st.moving := by rw [h3]; simp
            refine ⟨h1, by rw [h2, hfr4.1]; exact hlt, ?_, h2.trans hfr4.1, hmv, ?_⟩
            · rw [h4 e (List.mem_cons_self ..) s]; exact hp4
            · refine (hkeepF hfr4 hte).trans (h4.mono (fun m hmem => List.mem_cons_of_mem _ (by simpa using hmem)))
          · rintro st5 ⟨h1, h2, h3, h4⟩
            have hmv : st5.moving = st.moving := by rw [h3]; simp
            exact ⟨h1, h2.trans hfr4.1, hmv, (hkeepF hfr4 hte).trans (h4.mono (fun m hmem => List.mem_cons_of_mem _ (by simpa using hmem)))⟩
    | exists_ v => exact (sideSet_plain_tr cfg (n + 1) e s _ rfl st).conseq (fun _ h => h) (fun _ _ h => ⟨h.inv hi, h.len, fun m _ s' => (h.fields m s').2.1⟩) (fun _ h => h.elim)
    | hash v => exact (sideSet_plain_tr cfg (n + 1) e s _ rfl st).conseq (fun _ h => h) (fun _ _ h => ⟨h.inv hi, h.len, fun m _ s' => (h.fields m s').2.1⟩) (fun _ h => h.elim)
    | syncHash v => exact (sideSet_plain_tr cfg (n + 1) e s _ rfl st).conseq (fun _ h => h) (fun _ _ h => ⟨h.inv hi, h.len, fun m _ s' => (h.fields m s').2.1⟩) (fun _ h => h.elim)
    | syncPath v => exact (sideSet_plain_tr cfg (n + 1) e s _ rfl st).conseq (fun _ h => h) (fun _ _ h => ⟨h.inv hi, h.len, fun m _ s' => (h.fields m s').2.1⟩) (fun _ h => h.elim)
    | otype v => exact (sideSet_plain_tr cfg (n + 1) e s _ rfl st).conseq (fun _ h => h) (fun _ _ h => ⟨h.inv hi, h.len, fun m _ s' => (h.fields m s').2.1⟩) (fun _ h => h.elim)
    | size v => exact (sideSet_plain_tr cfg (n + 1) e s _ rfl st).conseq (fun _ h => h) (fun _ _ h => ⟨h.inv hi, h.len, fun m _ s' => (h.fields m s').2.1⟩) (fun _ h => h.elim)
    | mtime v => exact (sideSet_plain_tr cfg (n + 1) e s _ rfl st).conseq (fun _ h => h) (fun _ _ h => ⟨h.inv hi, h.len, fun m _ s' => (h.fields m s').2.1⟩) (fun _ h => h.elim)

/-- `ent[side].<attr> = v` keeps the invariant: on a normal return and on every exception except fuel exhaustion (no guard) -/
theorem sideSet_inv (cfg : Cfg) (n : Nat) (e : Nat) (s : Sd) (fv : FV) (st : St) (hi : Inv st) (hlt : e < st.ents.length)
    (hm : e ∉ st.moving) :
    Tr (fun st' => st' = st) (sideSet cfg n e s fv) (fun _ st' => Inv st' ∧ st'.ents.length = st.ents.length)
      (fun st' => Inv st' ∧ st'.ents.length = st.ents.length) :=
  (good_all cfg n e s fv st hi hlt hm).conseq (fun _ h => h) (fun _ _ h => ⟨h.1, h.2.1⟩) (fun _ h => ⟨h.1, h.2.1⟩)

end CS.State
