import Csverif.Proofs.StatePath
/-
C11: the remaining attributes, the kids loop, and the theorem for `ent[side].<attr> = v` (`sideSet_inv`).
-/
namespace CS.State

/-- `st'` differs from `st` in nothing the invariant reads -/
structure PlainRel (st st' : St) : Prop where
  len : st'.ents.length = st.ents.length
  oids : ∀ s, st'.oids s = st.oids s
  paths : ∀ s, st'.paths s = st.paths s
  cs : st'.cs = st.cs
  fields : ∀ i s, (st'.side i s).oid = (st.side i s).oid ∧ (st'.side i s).path = (st.side i s).path ∧
    (st'.side i s).changed = (st.side i s).changed

theorem PlainRel.refl (st : St) : PlainRel st st := ⟨rfl, fun _ => rfl, fun _ => rfl, rfl, fun _ _ => ⟨rfl, rfl, rfl⟩⟩
theorem PlainRel.trans {st st' st''} (h1 : PlainRel st st') (h2 : PlainRel st' st'') : PlainRel st st'' :=
  ⟨h2.len.trans h1.len, fun s => (h2.oids s).trans (h1.oids s), fun s => (h2.paths s).trans (h1.paths s), h2.cs.trans h1.cs,
   fun i s => ⟨(h2.fields i s).1.trans (h1.fields i s).1, (h2.fields i s).2.1.trans (h1.fields i s).2.1,
     (h2.fields i s).2.2.trans (h1.fields i s).2.2⟩⟩

theorem PlainRel.inv {st st'} (h : PlainRel st st') (hi : Inv st) : Inv st' :=
  ⟨hi.1.congr h.len h.oids h.paths (fun i s => ⟨(h.fields i s).1, (h.fields i s).2.1⟩),
   hi.2.congr (fun i hi' => h.cs ▸ hi') (fun i s => ⟨(h.fields i s).1, (h.fields i s).2.2⟩)⟩

theorem plainRel_dirtyAdd (st : St) (j : Nat) : PlainRel st (st.dirtyAdd j) :=
  ⟨rfl, fun s => by simp, fun s => by simp, rfl, fun _ _ => ⟨rfl, rfl, rfl⟩⟩

theorem plainRel_modSide (st : St) (e : Nat) (s : Sd) (f : Side → Side)
    (hf : ∀ x, (f x).oid = x.oid ∧ (f x).path = x.path ∧ (f x).changed = x.changed) : PlainRel st (st.modSide e s f) := by
  refine ⟨by simp, fun s => by simp, fun s => by simp, rfl, fun i s' => ?_⟩
  rw [side_modSide]
  by_cases hh : i = e ∧ s' = s ∧ e < st.ents.length
  · rw [if_pos hh]; obtain ⟨a, b, _⟩ := hh; subst a; subst b; exact hf _
  · rw [if_neg hh]; exact ⟨rfl, rfl, rfl⟩

theorem plainRel_modEnt (st : St) (e : Nat) (f : Entry → Entry) (hf : ∀ x s, (f x).side s = x.side s) : PlainRel st (st.modEnt e f) := by
  have hs : ∀ i s, (st.modEnt e f).side i s = st.side i s := by
    intro i s; unfold St.side; rw [ent_modEnt]
    by_cases hh : i = e ∧ e < st.ents.length
    · rw [if_pos hh]; obtain ⟨a, _⟩ := hh; subst a; exact hf _ s
    · rw [if_neg hh]
  exact ⟨by simp, fun s => by simp, fun s => by simp, rfl, fun i s => by rw [hs]; exact ⟨rfl, rfl, rfl⟩⟩

theorem PlainRel.dirtyAdd {st st'} (h : PlainRel st st') (j : Nat) : PlainRel st (st'.dirtyAdd j) := h.trans (plainRel_dirtyAdd _ _)
theorem PlainRel.modSide {st st'} (h : PlainRel st st') (e : Nat) (s : Sd) (f : Side → Side)
    (hf : ∀ x, (f x).oid = x.oid ∧ (f x).path = x.path ∧ (f x).changed = x.changed) : PlainRel st (st'.modSide e s f) :=
  h.trans (plainRel_modSide _ _ _ _ hf)

theorem plainRel_existsState (st : St) (e : Nat) (s : Sd) (v : ExVal) : PlainRel st (existsState st e s v) := by
  unfold existsState
  simp only
  split
  · exact (PlainRel.refl st).modSide _ _ _ (by intro x; exact ⟨rfl, rfl, rfl⟩)
  · split
    · exact (PlainRel.refl st).modSide _ _ _ (by intro x; exact ⟨rfl, rfl, rfl⟩)
    · exact (((PlainRel.refl st).dirtyAdd _).modSide _ _ _ (by intro x; exact ⟨rfl, rfl, rfl⟩)).dirtyAdd _

theorem plainRel_hashState (st : St) (e : Nat) (s : Sd) (v : Option Nat) : PlainRel st (hashState st e s v) := by
  unfold hashState
  simp only
  split
  · exact ((((((PlainRel.refl st).dirtyAdd _).modSide _ _ _ (by intro x; exact ⟨rfl, rfl, rfl⟩)).dirtyAdd _).modSide _ _ _
      (by intro x; exact ⟨rfl, rfl, rfl⟩))).modSide _ _ _ (by intro x; exact ⟨rfl, rfl, rfl⟩)
  · exact ((PlainRel.refl st).dirtyAdd _).modSide _ _ _ (by intro x; exact ⟨rfl, rfl, rfl⟩)

/-- attributes without index significance -/
def FV.plain : FV → Bool
  | .path _ | .oid _ | .changed _ => false
  | _ => true

theorem sideSetBody_plain (setF : SetF) (cfg : Cfg) (e : Nat) (s : Sd) (fv : FV) (h : fv.plain = true) (st : St) :
    ∃ st', sideSetBody setF cfg e s fv st = (.ok (), st') ∧ PlainRel st st' := by
  cases fv with
  | path _ => cases h
  | oid _ => cases h
  | changed _ => cases h
  | exists_ v => exact ⟨_, rfl, plainRel_existsState ..⟩
  | hash v => exact ⟨_, rfl, plainRel_hashState ..⟩
  | mtime v => exact ⟨_, rfl, (((PlainRel.refl st).dirtyAdd _).modSide _ _ _ (by intro x; exact ⟨rfl, rfl, rfl⟩)).dirtyAdd _⟩
  | syncHash v => exact ⟨_, rfl, ((PlainRel.refl st).dirtyAdd _).modSide _ _ _ (by intro x; exact ⟨rfl, rfl, rfl⟩)⟩
  | syncPath v => exact ⟨_, rfl, ((PlainRel.refl st).dirtyAdd _).modSide _ _ _ (by intro x; exact ⟨rfl, rfl, rfl⟩)⟩
  | otype v => exact ⟨_, rfl, ((PlainRel.refl st).dirtyAdd _).modSide _ _ _ (by intro x; exact ⟨rfl, rfl, rfl⟩)⟩
  | size v => exact ⟨_, rfl, ((PlainRel.refl st).dirtyAdd _).modSide _ _ _ (by intro x; exact ⟨rfl, rfl, rfl⟩)⟩

theorem sideSet_plain_tr (cfg : Cfg) (n : Nat) (e : Nat) (s : Sd) (fv : FV) (h : fv.plain = true) (st0 : St) :
    Tr (fun st => st = st0) (sideSet cfg n e s fv) (fun _ st' => PlainRel st0 st') (fun _ => False) := by
  rintro st rfl
  cases n with
  | zero => exact ⟨fun a ha => (by cases ha), fun x hx hne => by cases hx; exact absurd rfl hne⟩
  | succ n =>
    obtain ⟨st', heq, hrel⟩ := sideSetBody_plain (sideSet cfg n) cfg e s fv h st
    have hstep : sideSet cfg (n + 1) e s fv st = (.ok (), st') := heq
    rw [hstep]
    exact ⟨fun _ _ => hrel, fun x hx => by cases hx⟩

theorem frame_syncPath (st : St) (e : Nat) (s : Sd) (v : Option Path.Str) :
    Frame none st ((st.dirtyAdd e).modSide e s (fun x => { x with syncPath := v })) := by
  refine Frame.of_sides (by simp) (fun i s' => ?_)
  rw [side_modSide]
  by_cases hh : i = e ∧ s' = s ∧ e < (st.dirtyAdd e).ents.length
  · rw [if_pos hh]; obtain ⟨a, b, _⟩ := hh; subst a; subst b; exact ⟨rfl, rfl⟩
  · rw [if_neg hh]; exact ⟨rfl, rfl⟩

/-! ### moving a directory whose kids are not directories -/

theorem kidRel_congr (cfg : Cfg) {st st' : St} (s : Sd) (prior : Path.Str) (i : Nat)
    (h : (st'.side i s).path = (st.side i s).path) : kidRel cfg st' s prior i = kidRel cfg st s prior i := by
  unfold kidRel; rw [h]

/-- no directory entry other than `e` lies strictly beneath `prior` on side `s` -/
def Leaves (cfg : Cfg) (st : St) (s : Sd) (e : Nat) (prior : Path.Str) : Prop :=
  ∀ d, d ≠ e → (st.side d s).otype = .dir → kidRel cfg st s prior d = none

theorem Leaves.frame {cfg st st' s e prior} (h : Leaves cfg st s e prior) {t : Option (Nat × Sd)} (hf : Frame t st st')
    (ht : ∀ d, t = some (d, s) → d = e ∨ (st.side d s).otype ≠ .dir) : Leaves cfg st' s e prior := by
  intro d hd hot
  have hot' : (st.side d s).otype = .dir := by rw [← (hf.2 d s).1]; exact hot
  have hp : (st'.side d s).path = (st.side d s).path :=
    (hf.2 d s).2 (fun heq => (ht d heq.symm).elim (fun h => hd h) (fun h => h hot'))
  rw [kidRel_congr cfg s prior d hp]
  exact h d hd hot'

/-- `ent[side].path = v` for an entry that is not a directory (or has no previous path): no kids are moved -/
theorem sideSet_path_leaf_tr (cfg : Cfg) (n : Nat) (e : Nat) (s : Sd) (v : Option Path.Str) (st0 : St)
    (hi : Inv st0) (hlt : e < st0.ents.length) (hleaf : (st0.side e s).otype ≠ .dir ∨ (st0.side e s).path = none) :
    Tr (fun st => st = st0) (sideSet cfg n e s (.path v))
      (fun _ st' => Inv st' ∧ Frame (some (e, s)) st0 st') (fun st' => Inv st' ∧ Frame (some (e, s)) st0 st') := by
  cases n with
  | zero => rintro st rfl; exact ⟨fun a ha => (by cases ha), fun x hx hne => by cases hx; exact absurd rfl hne⟩
  | succ n =>
    have hfr0 : Frame (some (e, s)) st0 (popPrior st0 s e) :=
      (Frame.of_sides (len_popPrior ..) (fun i s' => by rw [side_popPrior]; exact ⟨rfl, rfl⟩)).weaken
    refine sideSet_path_gen cfg n e s v st0 (fun st' => Frame (some (e, s)) st0 st') hi hlt (Frame.refl _ _)
      (fun w _ => hfr0.trans (frame_pathFin ..)) (fun st6 w h6 _ => h6.trans (frame_pathFin ..))
      (fun st5 st6 h5 hrel => h5.trans hrel.frame.weaken) ?_
    intro c p _ ho hp
    rintro st4 rfl
    obtain ⟨hinv4, hfr4, hp4⟩ := Inv.putPath hi.1 hi.2 s e (c :: p) rfl ho hp hlt
    have hot : ((putPath (popPrior st0 s e) s e (c :: p)).side e s).otype = (st0.side e s).otype := (hfr4.2 e s).1
    rw [updateKids_skip_eq _ _ _ _ _ _ _ (by rw [hot]; exact hleaf)]
    exact ⟨fun _ _ => ⟨hinv4, by rw [hfr4.1]; exact hlt, hp4, hfr4⟩, fun x hx => by cases hx⟩

theorem sideSet_syncPath_tr (cfg : Cfg) (n : Nat) (e : Nat) (s : Sd) (v : Option Path.Str) (st0 : St) (hi : Inv st0) :
    Tr (fun st => st = st0) (sideSet cfg n e s (.syncPath v)) (fun _ st' => Inv st' ∧ Frame none st0 st') (fun _ => False) := by
  rintro st rfl
  cases n with
  | zero => exact ⟨fun a ha => (by cases ha), fun x hx hne => by cases hx; exact absurd rfl hne⟩
  | succ n =>
    have hstep : sideSet cfg (n + 1) e s (.syncPath v) st = (.ok (), (st.dirtyAdd e).modSide e s (fun x => { x with syncPath := v })) := rfl
    rw [hstep]
    have hpr : PlainRel st ((st.dirtyAdd e).modSide e s (fun x => { x with syncPath := v })) :=
      ((PlainRel.refl st).dirtyAdd _).modSide _ _ _ (by intro x; exact ⟨rfl, rfl, rfl⟩)
    exact ⟨fun _ _ => ⟨hpr.inv hi, frame_syncPath ..⟩, fun x hx => by cases hx⟩

/-- one kid that is not a directory is moved (state.py:855-876) -/
theorem moveKid_tr (cfg : Cfg) (n : Nat) (s : Sd) (sub : Nat) (prior path rel : Path.Str) (st1 : St) :
    Tr (fun st => st = st1 ∧ Inv st ∧ sub < st.ents.length ∧ (st.side sub s).otype ≠ .dir)
      (moveKid (sideSet cfg n) cfg s sub prior path rel)
      (fun _ st' => Inv st' ∧ Frame (some (sub, s)) st1 st') (fun st' => Inv st' ∧ Frame (some (sub, s)) st1 st') := by
  apply Tr.with_pre (φ := sub < st1.ents.length ∧ (st1.side sub s).otype ≠ .dir) (fun st ⟨h0, _, h2, h3⟩ => h0 ▸ ⟨h2, h3⟩)
  rintro ⟨hlt1, hot1⟩
  unfold moveKid
  simp only
  refine Tr.bind (R := fun _ st' => Inv st' ∧ Frame none st1 st') ?_ ?_
  · apply Tr.when
    · intro _
      cases cfg.info s (Path.join (cfg.pc s) [path, rel]) with
      | none => exact Tr.pure (fun st ⟨h0, h1, _, _⟩ => ⟨h1, h0 ▸ Frame.refl _ _⟩)
      | some o =>
        simp only
        refine (sideSet_oid_tr cfg n noX sub s o st1).conseq ?_ ?_ (fun _ h => h.elim)
        · rintro st ⟨rfl, h1, h2, _⟩; exact ⟨rfl, h1.1, h1.2, h2⟩
        · intro _ st' ⟨h1, h2, h3⟩; exact ⟨⟨h1, h2⟩, h3⟩
    · rintro _ st ⟨h0, h1, _, _⟩; exact ⟨h1, h0 ▸ Frame.refl _ _⟩
  · intro _
    refine Tr.bind (R := fun _ st' => Inv st' ∧ Frame (some (sub, s)) st1 st') ?_ ?_
    · apply Tr.intro_st; intro st2
      apply Tr.with_pre (φ := Inv st2 ∧ Frame none st1 st2) (fun st ⟨h0, h⟩ => h0 ▸ h)
      rintro ⟨hi2, hf2⟩
      refine (sideSet_path_leaf_tr cfg n sub s _ st2 hi2 (by rw [hf2.1]; exact hlt1)
        (Or.inl (by rw [(hf2.2 sub s).1]; exact hot1))).conseq ?_ ?_ ?_
      · rintro st ⟨h0, _⟩; exact h0
      · intro _ st' ⟨h1, h2⟩; exact ⟨h1, hf2.weaken.trans h2⟩
      · intro st' ⟨h1, h2⟩; exact ⟨h1, hf2.weaken.trans h2⟩
    · intro _
      unfold fixSyncPath
      apply Tr.getSt_bind; intro st3
      have hpure : Tr (fun st => st = st3 ∧ Inv st ∧ Frame (some (sub, s)) st1 st) (Pure.pure () : M Unit)
          (fun _ st' => Inv st' ∧ Frame (some (sub, s)) st1 st') (fun st' => Inv st' ∧ Frame (some (sub, s)) st1 st') :=
        Tr.pure (fun st ⟨_, h⟩ => h)
      split
      · split
        · apply Tr.with_pre (φ := Inv st3 ∧ Frame (some (sub, s)) st1 st3) (fun st ⟨h0, h⟩ => h0 ▸ h)
          rintro ⟨hi3, hf3⟩
          refine (sideSet_syncPath_tr cfg n sub s _ st3 hi3).conseq ?_ ?_ (fun _ h => h.elim)
          · rintro st ⟨h0, _⟩; exact h0
          · intro _ st' ⟨h1, h2⟩; exact ⟨h1, hf3.trans h2.weaken⟩
        · exact hpure
      · exact hpure

/-- the loop invariant of `_update_kids` when no kid is a directory -/
def KidsJ (cfg : Cfg) (s : Sd) (e : Nat) (prior pth : Path.Str) (L : Nat) (st : St) : Prop :=
  Inv st ∧ (st.ents.length = L ∧ e < st.ents.length) ∧ (st.side e s).path = some pth ∧ Leaves cfg st s e prior

theorem kidsLoop_tr (cfg : Cfg) (n : Nat) (s : Sd) (e : Nat) (prior pth : Path.Str) (L : Nat) :
    ∀ l : List Nat, Tr (KidsJ cfg s e prior pth L) (kidsLoop (sideSet cfg n) cfg s e prior pth l)
      (fun _ => KidsJ cfg s e prior pth L) (KidsJ cfg s e prior pth L)
  | [] => Tr.pure (fun _ h => h)
  | sub :: rest => by
    unfold kidsLoop
    apply Tr.getSt_bind; intro st1
    cases hk : kidRel cfg st1 s prior sub with
    | none => exact (kidsLoop_tr cfg n s e prior pth L rest).pre (fun st ⟨_, h⟩ => h)
    | some rel =>
      simp only
      by_cases hse : sub = e
      · simp only [hse, if_true]
        exact (kidsLoop_tr cfg n s e prior pth L rest).pre (fun st ⟨_, h⟩ => h)
      · simp only [hse, if_false]
        apply Tr.with_pre (φ := KidsJ cfg s e prior pth L st1) (fun st ⟨h0, h⟩ => h0 ▸ h)
        rintro ⟨hi1, ⟨hL1, hlt1⟩, hp1, hl1⟩
        have hsublt : sub < st1.ents.length := by
          apply Decidable.byContradiction; intro hge
          unfold kidRel at hk; rw [path_oob st1 sub s hge] at hk; cases hk
        have hsubot : (st1.side sub s).otype ≠ .dir := fun hd => by rw [hl1 sub hse hd] at hk; cases hk
        refine Tr.bind (R := fun _ => KidsJ cfg s e prior pth L) ?_ (fun _ => kidsLoop_tr cfg n s e prior pth L rest)
        refine (moveKid_tr cfg n s sub prior pth rel st1).conseq ?_ ?_ ?_
        · rintro st ⟨h0, _⟩; exact ⟨h0, h0 ▸ hi1, h0 ▸ hsublt, h0 ▸ hsubot⟩
        · intro _ st' ⟨h1, h2⟩
          refine ⟨h1, ⟨by rw [h2.1]; exact hL1, by rw [h2.1]; exact hlt1⟩, ?_, hl1.frame h2 (fun d hd => ?_)⟩
          · rw [(h2.2 e s).2 (fun heq => by cases heq; exact hse rfl)]; exact hp1
          · cases hd; exact Or.inr hsubot
        · intro st' ⟨h1, h2⟩
          refine ⟨h1, ⟨by rw [h2.1]; exact hL1, by rw [h2.1]; exact hlt1⟩, ?_, hl1.frame h2 (fun d hd => ?_)⟩
          · rw [(h2.2 e s).2 (fun heq => by cases heq; exact hse rfl)]; exact hp1
          · cases hd; exact Or.inr hsubot

/-- guard of the theorems: when a directory entry that already has a path gets a new path, no *other* directory
    entry lies strictly beneath its current path on that side (its kids are leaves) -/
def PathGuard (cfg : Cfg) (st : St) (e : Nat) (s : Sd) : FV → Prop
  | .path v => truthyS v = true → (st.side e s).otype = .dir → ∀ pr, (st.side e s).path = some pr → Leaves cfg st s e pr
  | _ => True

/-- `ent[side].<attr> = v` keeps the invariant: on a normal return and on every exception except fuel exhaustion -/
theorem sideSet_inv (cfg : Cfg) (n : Nat) (e : Nat) (s : Sd) (fv : FV) (st : St) (hi : Inv st) (hlt : e < st.ents.length)
    (hg : PathGuard cfg st e s fv) :
    Tr (fun st' => st' = st) (sideSet cfg n e s fv) (fun _ st' => Inv st' ∧ st'.ents.length = st.ents.length)
      (fun st' => Inv st' ∧ st'.ents.length = st.ents.length) := by
  cases hfv : fv with
  | oid v =>
    refine (sideSet_oid_tr cfg n noX e s v st).conseq ?_ ?_ (fun _ h => h.elim)
    · rintro st' rfl; exact ⟨rfl, hi.1, hi.2, hlt⟩
    · intro _ st' ⟨h1, h2, h3⟩; exact ⟨⟨h1, h2⟩, h3.1⟩
  | changed v =>
    refine (sideSet_changed_tr cfg n noX e s v st).conseq ?_ ?_ (fun _ h => h.elim)
    · rintro st' rfl; exact ⟨rfl, hi.1, hi.2, hlt⟩
    · intro _ st' ⟨h1, h2, h3⟩; exact ⟨⟨h1, h2⟩, h3.len⟩
  | path v =>
    subst hfv
    by_cases hleaf : (st.side e s).otype ≠ .dir ∨ (st.side e s).path = none
    · exact (sideSet_path_leaf_tr cfg n e s v st hi hlt hleaf).conseq (fun _ h => h) (fun _ _ h => ⟨h.1, h.2.1⟩) (fun _ h => ⟨h.1, h.2.1⟩)
    · have hdir : (st.side e s).otype = .dir := Decidable.not_not.mp (fun h => hleaf (Or.inl h))
      cases hpr : (st.side e s).path with
      | none => exact absurd (Or.inr hpr) hleaf
      | some pr =>
        cases n with
        | zero => rintro st' rfl; exact ⟨fun a ha => (by cases ha), fun x hx hne => by cases hx; exact absurd rfl hne⟩
        | succ n =>
          refine (sideSet_path_gen cfg n e s v st (fun st' => st'.ents.length = st.ents.length) hi hlt rfl
            (fun _ _ => by simp [pathFin, len_popPrior]) (fun _ _ h _ => by simpa [pathFin] using h)
            (fun _ _ h hrel => hrel.len.trans h) ?_).conseq (fun _ h => h) (fun _ _ h => h) (fun _ h => h)
          intro c p hv ho hp
          have hlv : Leaves cfg st s e pr := hg (by rw [hv]; rfl) hdir pr hpr
          obtain ⟨hinv4, hfr4, hp4⟩ := Inv.putPath hi.1 hi.2 s e (c :: p) rfl ho hp hlt
          have hj4 : KidsJ cfg s e pr (c :: p) st.ents.length (putPath (popPrior st s e) s e (c :: p)) :=
            ⟨hinv4, ⟨hfr4.1, by rw [hfr4.1]; exact hlt⟩, hp4, hlv.frame hfr4 (fun d hd => by cases hd; exact Or.inl rfl)⟩
          unfold updateKids
          apply Tr.getSt_bind; intro st4
          rw [hpr]
          simp only
          apply Tr.when
          · intro _
            refine (kidsLoop_tr cfg n s e pr (c :: p) st.ents.length _).conseq ?_ ?_ ?_
            · rintro st' ⟨h0, h1⟩; rw [h0] at h1; rw [h1] at h0; subst h0; exact hj4
            · intro _ st5 ⟨h1, h2, h3, _⟩; exact ⟨h1, h2.2, h3, h2.1⟩
            · intro st5 ⟨h1, h2, _⟩; exact ⟨h1, h2.1⟩
          · rintro _ st' ⟨h0, h1⟩
            rw [h0] at h1; rw [h0, h1]
            exact ⟨hinv4, by rw [hfr4.1]; exact hlt, hp4, hfr4.1⟩
  | exists_ v => exact (sideSet_plain_tr cfg n e s _ rfl st).conseq (fun _ h => h) (fun _ _ h => ⟨h.inv hi, h.len⟩) (fun _ h => h.elim)
  | hash v => exact (sideSet_plain_tr cfg n e s _ rfl st).conseq (fun _ h => h) (fun _ _ h => ⟨h.inv hi, h.len⟩) (fun _ h => h.elim)
  | syncHash v => exact (sideSet_plain_tr cfg n e s _ rfl st).conseq (fun _ h => h) (fun _ _ h => ⟨h.inv hi, h.len⟩) (fun _ h => h.elim)
  | syncPath v => exact (sideSet_plain_tr cfg n e s _ rfl st).conseq (fun _ h => h) (fun _ _ h => ⟨h.inv hi, h.len⟩) (fun _ h => h.elim)
  | otype v => exact (sideSet_plain_tr cfg n e s _ rfl st).conseq (fun _ h => h) (fun _ _ h => ⟨h.inv hi, h.len⟩) (fun _ h => h.elim)
  | size v => exact (sideSet_plain_tr cfg n e s _ rfl st).conseq (fun _ h => h) (fun _ _ h => ⟨h.inv hi, h.len⟩) (fun _ h => h.elim)
  | mtime v => exact (sideSet_plain_tr cfg n e s _ rfl st).conseq (fun _ h => h) (fun _ _ h => ⟨h.inv hi, h.len⟩) (fun _ h => h.elim)

end CS.State
