import Csverif.Proofs.StateMovOps
import Csverif.Proofs.StateLoad
/-
C11: the model's dictionaries are association lists read by first match.  Here: their keys are pairwise different in every state
the model can reach (every operation keeps that, on every outcome, without any guard), so first-match lookup is dictionary lookup.
-/
namespace CS.State

namespace AL
variable {κ β : Type} [DecidableEq κ]

/-- the keys are pairwise different -/
def ND (l : List (κ × β)) : Prop := (l.map (·.1)).Nodup

omit [DecidableEq κ] in
theorem nd_nil : ND ([] : List (κ × β)) := List.nodup_nil

theorem key_mem_erase {l : List (κ × β)} {k k' : κ} (h : k' ∈ (erase l k).map (·.1)) : k' ∈ l.map (·.1) := by
  obtain ⟨x, hx, rfl⟩ := List.mem_map.1 h
  exact List.mem_map.2 ⟨x, mem_of_mem_erase hx, rfl⟩

theorem nd_erase : ∀ {l : List (κ × β)} (k : κ), ND l → ND (erase l k)
  | [], _, h => h
  | (k', v) :: t, k, h => by
    unfold ND at h ⊢
    rw [List.map_cons, List.nodup_cons] at h
    unfold erase
    split
    · exact nd_erase k h.2
    · rw [List.map_cons, List.nodup_cons]
      exact ⟨fun hm => h.1 (key_mem_erase hm), nd_erase k h.2⟩

theorem key_mem_set {l : List (κ × β)} {k k' : κ} {v : β} (h : k' ∈ (set l k v).map (·.1)) : k' = k ∨ k' ∈ l.map (·.1) := by
  obtain ⟨x, hx, rfl⟩ := List.mem_map.1 h
  rcases mem_of_mem_set hx with rfl | hx'
  · exact Or.inl rfl
  · exact Or.inr (List.mem_map.2 ⟨x, hx', rfl⟩)

theorem nd_set : ∀ {l : List (κ × β)} (k : κ) (v : β), ND l → ND (set l k v)
  | [], k, v, _ => by simp [ND, set]
  | (k', v') :: t, k, v, h => by
    unfold ND at h ⊢
    rw [List.map_cons, List.nodup_cons] at h
    unfold set
    split
    · next heq => rw [List.map_cons, List.nodup_cons]; exact ⟨heq ▸ h.1, h.2⟩
    · next hne =>
      rw [List.map_cons, List.nodup_cons]
      refine ⟨fun hm => ?_, nd_set k v h.2⟩
      rcases key_mem_set hm with heq | hm'
      · exact hne heq
      · exact h.1 hm'

/-- with pairwise different keys, first-match lookup is membership -/
theorem get_iff_mem : ∀ {l : List (κ × β)}, ND l → ∀ (k : κ) (v : β), get l k = some v ↔ (k, v) ∈ l
  | [], _, k, v => by simp [get]
  | (k', v') :: t, h, k, v => by
    unfold ND at h
    rw [List.map_cons, List.nodup_cons] at h
    unfold get
    split
    · next heq =>
      subst heq
      constructor
      · intro hh; cases hh; exact List.mem_cons_self ..
      · intro hm
        cases hm with
        | head => rfl
        | tail _ hm' => exact absurd (List.mem_map.2 ⟨_, hm', rfl⟩) h.1
    · next hne =>
      rw [get_iff_mem h.2 k v]
      constructor
      · exact fun hm => List.mem_cons_of_mem _ hm
      · intro hm
        cases hm with
        | head => exact absurd rfl hne
        | tail _ hm' => exact hm'

end AL

/-- the keys of both id indexes, of both path indexes and of every path bucket are pairwise different -/
def KeysOk (st : St) : Prop :=
  ∀ s, AL.ND (st.oids s) ∧ AL.ND (st.paths s) ∧ ∀ x ∈ st.paths s, AL.ND x.2

theorem keysOk_congr {st st' : St} (ho : ∀ s, st'.oids s = st.oids s) (hp : ∀ s, st'.paths s = st.paths s) : KeysOk st' ↔ KeysOk st := by
  unfold KeysOk; simp only [ho, hp]

section keyproj
variable (st : St)
@[simp] theorem keysOk_modEnt (i f) : KeysOk (st.modEnt i f) ↔ KeysOk st := keysOk_congr (by simp) (by simp)
@[simp] theorem keysOk_modSide (i s f) : KeysOk (st.modSide i s f) ↔ KeysOk st := keysOk_congr (by simp) (by simp)
@[simp] theorem keysOk_csAdd (i) : KeysOk (st.csAdd i) ↔ KeysOk st := keysOk_congr (by simp) (by simp)
@[simp] theorem keysOk_csDiscard (i) : KeysOk (st.csDiscard i) ↔ KeysOk st := keysOk_congr (by simp) (by simp)
@[simp] theorem keysOk_dirtyAdd (i) : KeysOk (st.dirtyAdd i) ↔ KeysOk st := keysOk_congr (by simp) (by simp)
@[simp] theorem keysOk_addEntry (ot) : KeysOk (addEntry st ot) ↔ KeysOk st := keysOk_congr (by simp) (by simp)
@[simp] theorem keysOk_oidCsRule (e s k) : KeysOk (oidCsRule st e s k) ↔ KeysOk st := keysOk_congr (by simp) (by simp)
@[simp] theorem keysOk_ignoredState (e v) : KeysOk (ignoredState st e v) ↔ KeysOk st := by
  unfold ignoredState; split
  · rfl
  · simp only; split <;> simp
@[simp] theorem keysOk_existsState (e s v) : KeysOk (existsState st e s v) ↔ KeysOk st := by
  unfold existsState; simp only; split
  · simp
  · split <;> simp
@[simp] theorem keysOk_hashState (e s v) : KeysOk (hashState st e s v) ↔ KeysOk st := by
  unfold hashState; simp only; split <;> simp
end keyproj

theorem keysOk_setOids {st : St} (h : KeysOk st) (s : Sd) (o : List (Oid × Nat)) (ho : AL.ND o) : KeysOk (st.setOids s o) := by
  intro s'
  by_cases hs : s' = s
  · subst hs; simp only [oids_setOids, paths_setOids, if_true]; exact ⟨ho, (h s').2⟩
  · simp only [oids_setOids, paths_setOids, hs, if_false]; exact h s'

theorem keysOk_setPaths {st : St} (h : KeysOk st) (s : Sd) (p : List (Option Path.Str × List (Oid × Nat))) (hp : AL.ND p)
    (hb : ∀ x ∈ p, AL.ND x.2) : KeysOk (st.setPaths s p) := by
  intro s'
  by_cases hs : s' = s
  · subst hs; simp only [oids_setPaths, paths_setPaths, if_true]; exact ⟨(h s').1, hp, hb⟩
  · simp only [oids_setPaths, paths_setPaths, hs, if_false]; exact h s'

@[simp] theorem keysOk_setOids_erase {st : St} (h : KeysOk st) (s : Sd) (k : Oid) : KeysOk (st.setOids s (AL.erase (st.oids s) k)) :=
  keysOk_setOids h s _ (AL.nd_erase k (h s).1)
@[simp] theorem keysOk_setOids_set {st : St} (h : KeysOk st) (s : Sd) (k : Oid) (i : Nat) : KeysOk (st.setOids s (AL.set (st.oids s) k i)) :=
  keysOk_setOids h s _ (AL.nd_set k i (h s).1)

@[simp] theorem keysOk_popPathSlot {st : St} (h : KeysOk st) (s : Sd) (p : Option Path.Str) (k : Oid) : KeysOk (st.popPathSlot s p k) := by
  unfold St.popPathSlot
  cases hg : AL.get (st.paths s) p with
  | none => exact h
  | some b =>
    simp only
    split
    · exact keysOk_setPaths h s _ (AL.nd_erase p (h s).2.1) (fun x hx => (h s).2.2 x (AL.mem_of_mem_erase hx))
    · refine keysOk_setPaths h s _ (AL.nd_set p _ (h s).2.1) (fun x hx => ?_)
      rcases AL.mem_of_mem_set hx with rfl | hx'
      · exact AL.nd_erase k ((h s).2.2 _ (AL.mem_of_get hg))
      · exact (h s).2.2 x hx'

@[simp] theorem keysOk_setPathSlot {st : St} (h : KeysOk st) (s : Sd) (p : Option Path.Str) (k : Oid) (i : Nat) : KeysOk (st.setPathSlot s p k i) := by
  unfold St.setPathSlot
  refine keysOk_setPaths h s _ (AL.nd_set p _ (h s).2.1) (fun x hx => ?_)
  rcases AL.mem_of_mem_set hx with rfl | hx'
  · apply AL.nd_set
    cases hg : AL.get (st.paths s) p with
    | none => exact AL.nd_nil
    | some b => exact (h s).2.2 _ (AL.mem_of_get hg)
  · exact (h s).2.2 x hx'

@[simp] theorem keysOk_unindex {st : St} (h : KeysOk st) (s r p) : KeysOk (unindex st s r p) := by
  unfold unindex; simp only; split <;> simp [h]

@[simp] theorem keysOk_indexOid {st : St} (h : KeysOk st) (e s k) : KeysOk (indexOid st e s k) := by
  unfold indexOid; simp only
  have h1 : KeysOk ((st.modSide e s fun x => { x with oid := k }).setOids s (AL.set (st.oids s) k e)) := by
    have h0 : KeysOk (st.modSide e s fun x => { x with oid := k }) := (keysOk_modSide st e s _).2 h
    have := keysOk_setOids_set h0 s k e
    simpa using this
  split
  · exact keysOk_setPathSlot h1 _ _ _ _
  · exact h1

/-- `m` keeps the keys pairwise different, whatever the outcome -/
def Kp {α} (m : M α) : Prop := ∀ st, KeysOk st → KeysOk (m st).2

namespace Kp
variable {α β : Type}

theorem pure (a : α) : Kp (Pure.pure a : M α) := fun _ h => h
theorem bind {m : M α} {f : α → M β} (h1 : Kp m) (h2 : ∀ a, Kp (f a)) : Kp (m >>= f) := by
  intro st hk
  simp only [M.bind_apply]
  have := h1 st hk
  cases hm : m st with
  | mk r st' =>
    rw [hm] at this
    cases r with
    | ok a => exact h2 a st' this
    | error x => exact this
theorem getSt : Kp getSt := fun _ h => h
theorem modify {f : St → St} (h : ∀ st, KeysOk st → KeysOk (f st)) : Kp (modifySt f) := fun st hk => h st hk
theorem throw (x : Exc) : Kp (throwE x : M α) := fun _ h => h
theorem assert (b : Bool) : Kp (assertM b) := by intro st h; rw [assertM_apply]; split <;> exact h
theorem when {c : Bool} {m : M Unit} (h : Kp m) : Kp (whenM c m) := by
  unfold whenM; cases c
  · exact pure ()
  · exact h
theorem ite {c : Prop} [Decidable c] {a b : M α} (h : Kp a) (h' : Kp b) : Kp (if c then a else b) := by split <;> assumption
theorem finally_ {m : M α} {f : St → St} (h : Kp m) (hf : ∀ st, KeysOk st → KeysOk (f st)) : Kp (finallyM m f) := by
  intro st hk
  rw [finallyM_apply]
  exact hf _ (h st hk)
theorem apply {m : M α} (h : Kp m) (st : St) (hk : KeysOk st) : KeysOk (m st).2 := h st hk
end Kp
attribute [irreducible] Kp

/-- record updates that do not touch the indexes -/
theorem keysOk_rec {st st' : St} (h : KeysOk st) (hL : st'.ixL = st.ixL) (hR : st'.ixR = st.ixR) : KeysOk st' :=
  (keysOk_congr (fun s => by cases s <;> simp [St.oids, St.ix, hL, hR]) (fun s => by cases s <;> simp [St.paths, St.ix, hL, hR])).2 h

/-- close a `KeysOk st → KeysOk (f st)` goal -/
macro "keys" : tactic =>
  `(tactic| first
    | assumption
    | (simp [*]; done)
    | exact keysOk_rec ‹_› rfl rfl
    | (split <;> first | assumption | (simp [*]; done) | exact keysOk_rec ‹_› rfl rfl)
    | (split <;> split <;> first | assumption | (simp [*]; done) | exact keysOk_rec ‹_› rfl rfl))


/-! ### the loader builds its dictionaries from nothing -/

theorem keysOk_loadSide {st : St} (h : KeysOk st) (i : Nat) (s : Sd) : KeysOk (loadSide st i s) := by
  unfold loadSide; dsimp only
  split
  · exact h
  · have h1 : KeysOk (if truthyS (st.side i s).path = true then st.setPathSlot s (st.side i s).path (st.side i s).oid i else st) := by
      split
      · exact keysOk_setPathSlot h _ _ _ _
      · exact h
    have h2 := keysOk_setOids_set h1 s (st.side i s).oid i
    split
    · exact (keysOk_csAdd _ _).2 h2
    · exact h2

theorem keysOk_foldl_loadOne : ∀ (l : List Nat) (st : St), KeysOk st → KeysOk (l.foldl loadOne st)
  | [], _, h => h
  | i :: t, st, h => keysOk_foldl_loadOne t _ (by rw [loadOne_eq]; exact keysOk_loadSide (keysOk_loadSide h _ _) _ _)

theorem keysOk_reload (st : St) : KeysOk (reload st) := by
  unfold reload load
  apply keysOk_foldl_loadOne
  intro s; cases s <;> exact ⟨AL.nd_nil, AL.nd_nil, fun x hx => by cases hx⟩

theorem keysOk_init : KeysOk init := by
  intro s; cases s <;> exact ⟨AL.nd_nil, AL.nd_nil, fun x hx => by cases hx⟩

/-! ### every operation -/

/-- a setter that keeps the keys pairwise different -/
def KpF (setF : SetF) : Prop := ∀ e s fv, Kp (setF e s fv)

theorem kp_removeOne {setF : SetF} (h : KpF setF) (s e r) : Kp (removeOne setF s e r) := by
  unfold removeOne
  refine Kp.bind Kp.getSt (fun st => ?_)
  split
  · exact Kp.pure _
  · exact Kp.bind (Kp.modify (fun st h => by keys)) (fun _ => Kp.when (h _ _ _))

theorem kp_changeOid {setF : SetF} (h : KpF setF) (s e oid) : Kp (changeOid setF s e oid) := by
  unfold changeOid
  refine Kp.bind Kp.getSt (fun st => ?_)
  refine Kp.bind (kp_removeOne h _ _ _) (fun _ => ?_)
  refine Kp.bind (Kp.when (kp_removeOne h _ _ _)) (fun _ => ?_)
  refine Kp.bind (Kp.when ?_) (fun _ => Kp.modify (fun st h => by keys))
  exact Kp.bind (Kp.modify (fun st h => by keys)) (fun _ => Kp.bind Kp.getSt (fun _ => Kp.assert _))

theorem kp_bumpChanged {setF : SetF} (h : KpF setF) (cfg e s) : Kp (bumpChanged setF cfg e s) := by
  unfold bumpChanged
  refine Kp.bind Kp.getSt (fun st => ?_)
  split
  · exact Kp.when (h _ _ _)
  · exact Kp.pure _

theorem kp_setPriority {setF : SetF} (h : KpF setF) (cfg e v) : Kp (setPriority setF cfg e v) := by
  unfold setPriority
  refine Kp.bind Kp.getSt (fun st => Kp.when ?_)
  refine Kp.bind (Kp.when (Kp.bind (kp_bumpChanged h _ _ _) (fun _ => kp_bumpChanged h _ _ _))) (fun _ => Kp.modify (fun st h => by keys))

theorem kp_fixSyncPath {setF : SetF} (h : KpF setF) (cfg s sub prior path) : Kp (fixSyncPath setF cfg s sub prior path) := by
  unfold fixSyncPath
  refine Kp.bind Kp.getSt (fun st => ?_)
  split
  · split
    · exact h _ _ _
    · exact Kp.pure _
  · exact Kp.pure _

theorem kp_moveKid {setF : SetF} (h : KpF setF) (cfg s sub prior path rel) : Kp (moveKid setF cfg s sub prior path rel) := by
  unfold moveKid
  simp only
  refine Kp.bind (Kp.when ?_) (fun _ => Kp.bind (h _ _ _) (fun _ => kp_fixSyncPath h _ _ _ _ _))
  split
  · exact h _ _ _
  · exact Kp.pure _

theorem kp_kidsLoop {setF : SetF} (h : KpF setF) (cfg s prior path) : ∀ l, Kp (kidsLoop setF cfg s prior path l)
  | [] => Kp.pure _
  | sub :: rest => by
    unfold kidsLoop
    refine Kp.bind Kp.getSt (fun st => ?_)
    split
    · exact kp_kidsLoop h cfg s prior path rest
    · split
      · exact kp_kidsLoop h cfg s prior path rest
      · exact Kp.bind (kp_moveKid h _ _ _ _ _ _) (fun _ => kp_kidsLoop h cfg s prior path rest)

theorem kp_updateKidsOf {setF : SetF} (h : KpF setF) (cfg s e prior path) : Kp (updateKidsOf setF cfg s e prior path) := by
  unfold updateKidsOf
  refine Kp.bind Kp.getSt (fun st => ?_)
  split
  · exact Kp.pure _
  · exact Kp.when (kp_kidsLoop h _ _ _ _ _)

theorem kp_updateKids {setF : SetF} (h : KpF setF) (cfg s e prior path) : Kp (updateKids setF cfg s e prior path) := by
  unfold updateKids
  exact Kp.finally_ (Kp.bind (Kp.modify (fun st h => by keys)) (fun _ => kp_updateKidsOf h _ _ _ _ _)) (fun st h => keysOk_rec h rfl rfl)

theorem kp_oustPathOwner (s e pth) : Kp (oustPathOwner s e pth) := by
  unfold oustPathOwner
  refine Kp.bind Kp.getSt (fun st => ?_)
  split
  · exact Kp.bind (Kp.assert _) (fun _ => Kp.modify (fun st h => by keys))
  · exact Kp.pure _

theorem kp_changePath {setF : SetF} (h : KpF setF) (cfg s e path) : Kp (changePath setF cfg s e path) := by
  unfold changePath
  refine Kp.bind Kp.getSt (fun st => Kp.bind (Kp.assert _) (fun _ => ?_))
  simp only
  apply Kp.ite (Kp.pure _)
  refine Kp.bind (Kp.modify (fun st h => by keys)) (fun _ => ?_)
  split
  · refine Kp.bind (kp_oustPathOwner _ _ _) (fun _ => Kp.bind (Kp.modify (fun st h => by keys)) (fun _ => ?_))
    exact Kp.bind (kp_updateKids h _ _ _ _ _) (fun _ => kp_setPriority h _ _ _)
  · exact Kp.pure _

theorem kp_changedRule (s e v) : Kp (changedRule s e v) := by
  unfold changedRule
  refine Kp.bind Kp.getSt (fun st => ?_)
  simp only
  apply Kp.ite (Kp.modify (fun st h => by keys))
  exact Kp.modify (fun st h => by keys)

theorem kp_updatedSide {setF : SetF} (h : KpF setF) (cfg e s fv) : Kp (updatedSide setF cfg e s fv) := by
  unfold updatedSide
  refine Kp.bind ?_ (fun _ => Kp.modify (fun st h => by keys))
  split
  · exact kp_changePath h _ _ _ _
  · exact kp_changeOid h _ _ _
  · exact kp_changedRule _ _ _
  · exact Kp.pure _

theorem kp_sideSetBody {setF : SetF} (h : KpF setF) (cfg e s fv) : Kp (sideSetBody setF cfg e s fv) := by
  unfold sideSetBody
  split
  all_goals first
    | exact Kp.bind (kp_updatedSide h _ _ _ _) (fun _ => Kp.modify (fun st h => by keys))
    | exact Kp.modify (fun st h => by keys)

theorem kpF_sideSet (cfg : Cfg) : ∀ n, KpF (sideSet cfg n)
  | 0 => fun _ _ _ => Kp.throw _
  | n + 1 => fun e s fv => kp_sideSetBody (kpF_sideSet cfg n) cfg e s fv

theorem kp_setItemHooks (cfg : Cfg) (fuel : Nat) (dst : Nat) (side : Sd) (v' : Side) : Kp (setItemHooks cfg fuel dst side v') := by
  unfold setItemHooks
  simp only
  refine Kp.bind ?_ (fun _ => kp_updatedSide (kpF_sideSet cfg fuel) _ _ _ _)
  split
  · exact Kp.bind (kp_updatedSide (kpF_sideSet cfg fuel) _ _ _ _) (fun _ => kp_updatedSide (kpF_sideSet cfg fuel) _ _ _ _)
  · exact Kp.bind (kp_updatedSide (kpF_sideSet cfg fuel) _ _ _ _) (fun _ => kp_updatedSide (kpF_sideSet cfg fuel) _ _ _ _)

theorem kp_setItem (cfg : Cfg) (fuel : Nat) (dst : Nat) (side : Sd) (src : Nat) (srcSide : Sd) : Kp (setItem cfg fuel dst side src srcSide) := by
  unfold setItem
  refine Kp.bind Kp.getSt (fun _ => Kp.bind (kpF_sideSet cfg fuel _ _ _) (fun _ => Kp.bind (kpF_sideSet cfg fuel _ _ _) (fun _ => ?_)))
  refine Kp.bind Kp.getSt (fun _ => Kp.bind (Kp.assert _) (fun _ => Kp.bind (kp_setItemHooks _ _ _ _ _) (fun _ => Kp.modify (fun st h => by keys))))


theorem kp_sideSet (cfg : Cfg) (n : Nat) (e : Nat) (s : Sd) (fv : FV) : Kp (sideSet cfg n e s fv) := kpF_sideSet cfg n e s fv

theorem kp_markChanged (cfg : Cfg) (fuel : Nat) (s : Sd) (e : Nat) : Kp (markChanged cfg fuel s e) := by
  unfold markChanged
  refine Kp.bind Kp.getSt (fun _ => Kp.bind (kp_sideSet _ _ _ _ _) (fun _ => Kp.bind ?_ (fun _ => Kp.modify (fun st h => by keys))))
  unfold bumpPastLast
  refine Kp.bind Kp.getSt (fun st => ?_)
  split
  · exact Kp.when (kp_sideSet _ _ _ _ _)
  · exact Kp.pure _

theorem kp_clearSide (cfg : Cfg) (fuel : Nat) (e : Nat) (s : Sd) : Kp (clearSide cfg fuel e s) := by
  unfold clearSide
  repeat (first | exact kp_sideSet _ _ _ _ _ | refine Kp.bind (kp_sideSet _ _ _ _ _) (fun _ => ?_))

theorem kp_newEntry (ot : OType) : Kp (newEntry ot) := by
  unfold newEntry
  exact Kp.bind Kp.getSt (fun _ => Kp.bind (Kp.modify (fun st h => keysOk_rec h rfl rfl)) (fun _ => Kp.pure _))

theorem kp_split (cfg : Cfg) (fuel : Nat) (e : Nat) : Kp (split cfg fuel e) := by
  unfold split
  repeat (first
    | exact Kp.pure _
    | refine Kp.bind Kp.getSt (fun _ => ?_)
    | refine Kp.bind (Kp.assert _) (fun _ => ?_)
    | refine Kp.bind (kp_newEntry _) (fun _ => ?_)
    | refine Kp.bind (kp_setItem _ _ _ _ _ _) (fun _ => ?_)
    | refine Kp.bind (kp_clearSide _ _ _ _) (fun _ => ?_)
    | refine Kp.bind (kp_markChanged _ _ _ _) (fun _ => ?_)
    | refine Kp.bind (kp_sideSet _ _ _ _ _) (fun _ => ?_))

theorem kp_updateEntry (cfg : Cfg) (fuel : Nat) (ent : Nat) (s : Sd) (a : UArgs) : Kp (updateEntry cfg fuel ent s a) := by
  unfold updateEntry
  have hrd : Kp (replaceDiscarded cfg ent s a) := by
    unfold replaceDiscarded
    refine Kp.bind Kp.getSt (fun _ => ?_)
    split
    · split
      · exact kp_newEntry _
      · exact Kp.pure _
    · exact Kp.pure _
  have hnk : Kp (notKnownCheck a) := by
    unfold notKnownCheck
    split
    · split
      · exact Kp.assert _
      · exact Kp.pure _
      · exact Kp.throw _
    · exact Kp.pure _
  have hmk : ∀ e, Kp (markIfChanged cfg fuel e s a) := by
    intro e
    unfold markIfChanged
    split
    · refine Kp.when (Kp.bind Kp.getSt (fun _ => Kp.bind (Kp.assert _) (fun _ => Kp.bind (kp_markChanged _ _ _ _) (fun _ => Kp.when (Kp.modify (fun st h => by keys))))))
    · exact Kp.pure _
  refine Kp.bind hrd (fun e => ?_)
  refine Kp.bind (Kp.when (kp_sideSet _ _ _ _ _)) (fun _ => Kp.bind Kp.getSt (fun _ => ?_))
  refine Kp.bind (Kp.when (kp_sideSet _ _ _ _ _)) (fun _ => Kp.bind (Kp.when (kp_sideSet _ _ _ _ _)) (fun _ => Kp.bind (Kp.when (kp_sideSet _ _ _ _ _)) (fun _ => ?_)))
  refine Kp.bind hnk (fun _ => Kp.bind Kp.getSt (fun _ => ?_))
  simp only
  refine Kp.bind (Kp.when (kp_sideSet _ _ _ _ _)) (fun _ => Kp.bind Kp.getSt (fun _ => ?_))
  refine Kp.bind (Kp.when (kp_sideSet _ _ _ _ _)) (fun _ => Kp.bind Kp.getSt (fun _ => ?_))
  exact Kp.bind (kp_sideSet _ _ _ _ _) (fun _ => hmk e)

theorem kp_setIgnored (e : Nat) (v : Ign) : Kp (setIgnored e v) := Kp.modify (fun st h => by keys)

theorem kp_unignoreAll : ∀ (l : List Nat) (acc : Option Nat), Kp (unignoreAll l acc)
  | [], _ => Kp.pure _
  | i :: t, _ => by
    unfold unignoreAll
    exact Kp.bind Kp.getSt (fun _ => Kp.bind (Kp.assert _) (fun _ => Kp.bind (kp_setIgnored _ _) (fun _ => kp_unignoreAll t _)))

theorem kp_update (cfg : Cfg) (fuel : Nat) (s : Sd) (ot : OType) (a : UArgs) (prior : Oid) : Kp (update cfg fuel s ot a prior) := by
  unfold update
  have hre : ∀ ent pe, Kp (reusePrior s ent pe) := by
    intro ent pe
    unfold reusePrior
    refine Kp.bind Kp.getSt (fun _ => ?_)
    split
    · exact Kp.bind (kp_setIgnored _ _) (fun _ => Kp.pure _)
    · exact Kp.pure _
  have hmp : ∀ ent pe?, Kp (mergePrior cfg fuel s a ent pe?) := by
    intro ent pe?
    unfold mergePrior
    refine Kp.bind Kp.getSt (fun st => ?_)
    cases pe? with
    | none => cases ent with
      | none => exact kp_unignoreAll _ _
      | some en => exact Kp.pure _
    | some pe =>
      by_cases hd : (st.ent pe).isDiscarded = true
      · simp only [hd, Bool.not_true, Bool.false_eq_true, if_false]
        cases ent with
        | none => exact kp_unignoreAll _ _
        | some en => exact Kp.pure _
      · simp only [hd, Bool.not_false, if_true]
        cases ent with
        | none => simp only [if_true]; exact Kp.bind (Kp.pure _) (fun _ => Kp.pure _)
        | some en =>
          simp only
          apply Kp.ite
          · refine Kp.bind ?_ (fun _ => Kp.pure _)
            split
            · exact Kp.when (kp_setItem _ _ _ _ _ _)
            · exact Kp.pure _
          · exact Kp.pure _
  have hch : Kp (chooseEntry cfg fuel s ot a prior) := by
    unfold chooseEntry
    refine Kp.bind Kp.getSt (fun st => ?_)
    simp only
    refine Kp.bind ?_ (fun ent => ?_)
    · split
      · refine Kp.bind ?_ (fun _ => hmp _ _)
        split
        · exact hre _ _
        · exact Kp.pure _
      · exact Kp.pure _
    · split
      · exact Kp.pure _
      · exact kp_newEntry _
  exact Kp.bind hch (fun e => Kp.bind Kp.getSt (fun _ => kp_updateEntry _ _ _ _ _))

theorem kp_forgetOid (s : Sd) (k : Oid) : Kp (forgetOid s k) := by
  unfold forgetOid
  refine Kp.bind Kp.getSt (fun st => ?_)
  split
  · exact Kp.pure _
  · exact Kp.modify (fun st h => by keys)

/-- every operation -/
theorem kp_step (cfg : Cfg) (fuel : Nat) (op : Op) : Kp (step cfg fuel op) := by
  unfold step
  refine Kp.bind Kp.getSt (fun st => ?_)
  dsimp only
  apply Kp.ite
  · exact Kp.throw _
  · cases op with
    | tick ms => exact Kp.modify (fun st h => by keys)
    | setSide e s fv => exact kp_sideSet _ _ _ _ _
    | setIgnored e v => exact kp_setIgnored _ _
    | setPriority e v => exact kp_setPriority (kpF_sideSet cfg fuel) _ _ _
    | punt e => exact kp_setPriority (kpF_sideSet cfg fuel) _ _ _
    | unignore e r => exact Kp.bind (Kp.assert _) (fun _ => kp_setIgnored _ _)
    | update s ot a prior => exact kp_update _ _ _ _ _ _
    | updateEntry e s a => exact kp_updateEntry _ _ _ _ _
    | split e => exact Kp.bind (kp_split _ _ _) (fun _ => Kp.pure _)
    | setItem d sd s ss => exact kp_setItem _ _ _ _ _ _
    | forget s k => exact kp_forgetOid _ _
    | clear e s => exact kp_clearSide _ _ _ _
    | mark e s => exact kp_markChanged _ _ _ _
    | commit => exact Kp.modify (fun st h => by keys)
    | reload => exact Kp.modify (fun st _ => keysOk_reload st)


/-- **dictionary keys are unique**: in every state the model reaches — whatever the operations, whatever their outcomes, fuel
    exhaustion included — the keys of the id indexes, of the path indexes and of every path bucket are pairwise different -/
theorem run_keysOk (cfg : Cfg) (fuel : Nat) : ∀ (ops : List Op) (st : St), KeysOk st → KeysOk (run cfg fuel ops st)
  | [], _, h => h
  | op :: ops, st, h => run_keysOk cfg fuel ops _ ((kp_step cfg fuel op).apply st h)

end CS.State
