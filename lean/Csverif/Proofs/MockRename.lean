import Csverif.Proofs.MockOps
/- re-filing one object (`_rename_single_object`) and the rename of a file -/
namespace CS.MockFS
open CS.Path
open CS.Tree (Kind Err)
set_option linter.unusedVariables false
variable {C H : Type}

theorem dget_store_nk {c : Cfg} (s : St C) (h : Nat) (o : Obj C) :
    dget (store c s h o).dict (norm c o.path) = some h := by
  simp only [store]
  split
  · rw [dget_dset]; simp
  · rw [dget_dset]
    split
    · rfl
    · rw [dget_dset]; simp

/-- the renamed object -/
def refiled (fl : Flavour) (o : Obj C) (p : Str) : Obj C :=
  { o with path := p, oid := if fl.oip then p else o.oid }

theorem unstore_spec {c : Cfg} {s : St C} {o : Obj C} {x : Nat} (hk : dget s.dict (norm c o.path) = some x) :
    ∃ s1, unstore c s o = some s1 ∧ s1.heap = s.heap ∧ s1.events = s.events ∧ s1.cursor = s.cursor ∧
      s1.nextId = s.nextId ∧ ((s.dict.map (·.1)).Nodup → (s1.dict.map (·.1)).Nodup) ∧
      ∀ q, dget s1.dict q = if q = norm c o.path then none else if q = o.oid then none else dget s.dict q := by
  simp only [unstore, hk]
  refine ⟨_, rfl, rfl, rfl, rfl, rfl, ?_, ?_⟩
  · intro hn
    simp only
    split
    · exact nodup_ddel (nodup_ddel hn _) _
    · exact nodup_ddel hn _
  · intro q
    simp only
    split
    · rw [dget_ddel, dget_ddel]
      by_cases h1 : q = norm c o.path
      · simp [h1]
      · simp [h1]
    · rename_i hns
      rw [dget_ddel]
      by_cases h1 : q = norm c o.path
      · simp [h1]
      · simp only [h1, if_false]
        by_cases h2 : q = o.oid
        · subst h2
          simp only [if_true]
          rw [dget_ddel] at hns
          simp only [h1, if_false] at hns
          simpa using hns
        · simp [h2]

/-- `_rename_single_object` when the object is filed under its own path key: what the state looks like after -/
theorem renameSingle_spec {c : Cfg} (hc : COk2 c) {fl : Flavour} {s : St C} (hi : Inv c fl s)
    {h : Nat} {o : Obj C} (hho : s.heap[h]? = some o) (hfiled : dget s.dict (norm c o.path) = some h)
    {p : Str} (hp : Clean c fl p) (hpn : Path.C c p ≠ []) (ev : Bool) :
    ∃ sR, renameSingle c fl s h p ev = (sR, none) ∧
      sR.heap = s.heap.set h (refiled fl o p) ∧ sR.nextId = s.nextId ∧ (sR.dict.map (·.1)).Nodup ∧
      (∀ q, dget sR.dict q =
        if q = norm c p ∨ q = (refiled fl o p).oid then some h
        else if q = norm c o.path ∨ q = o.oid then none else dget s.dict q) := by
  obtain ⟨hl, hpp, hfold⟩ := clean_C hc hp
  have hrs : rstrip '/' p = p := by
    conv => lhs; rw [hpp]
    conv => rhs; rw [hpp]
    rw [← hc.sep]; exact rstrip_canon hl.1 hpn
  obtain ⟨s1, hu, hh1, _, _, hn1, hnd1, hd1⟩ := unstore_spec (c := c) (s := s) (o := o) hfiled
  have hro : refiled fl o p = { o with path := p, oid := if fl.oip then p else o.oid } := rfl
  have hres : renameSingle c fl s h p ev =
      ((if ev then registerEvent (store c { s1 with heap := s1.heap.set h (refiled fl o p) } h (refiled fl o p))
          .rename (refiled fl o p) (if fl.oip then some o.oid else none)
        else store c { s1 with heap := s1.heap.set h (refiled fl o p) } h (refiled fl o p)), none) := by
    simp only [renameSingle, hho, hrs, hu, hro]
  refine ⟨_, hres, ?_, ?_, ?_, ?_⟩
  · cases ev <;> simp [store_heap, hh1, registerEvent]
  · cases ev <;> simp [store_nextId, hn1, registerEvent]
  · have := nodup_store (c := c) (s := { s1 with heap := s1.heap.set h (refiled fl o p) }) (hnd1 hi.nodup) h (refiled fl o p)
    cases ev
    · simpa using this
    · simpa [registerEvent] using this
  · intro q
    have hdict : (if ev then registerEvent (store c { s1 with heap := s1.heap.set h (refiled fl o p) } h (refiled fl o p))
          .rename (refiled fl o p) (if fl.oip then some o.oid else none)
        else store c { s1 with heap := s1.heap.set h (refiled fl o p) } h (refiled fl o p)).dict =
        (store c { s1 with heap := s1.heap.set h (refiled fl o p) } h (refiled fl o p)).dict := by
      cases ev <;> rfl
    rw [hdict]
    have hpathR : (refiled fl o p).path = p := rfl
    -- the object's new oid key is the new path key (path style) or was just removed (id style)
    have hfresh : (refiled fl o p).oid = norm c (refiled fl o p).path ∨
        dget ({ s1 with heap := s1.heap.set h (refiled fl o p) } : St C).dict (refiled fl o p).oid = none := by
      cases ho : fl.oip with
      | true => left; simp only [refiled, ho, if_true]; exact (norm_eq_self_of_oip hc hp ho).symm
      | false =>
        right
        simp only [refiled, ho, Bool.false_eq_true, if_false]
        rw [hd1]; simp
    by_cases hq1 : q = norm c p
    · subst hq1
      simp only [true_or, if_true]
      exact dget_store_nk _ _ _
    · by_cases hq2 : q = (refiled fl o p).oid
      · subst hq2
        simp only [or_true, if_true]
        exact dget_store_oid _ _ _ hfresh
      · simp only [hq1, hq2, or_self, if_false]
        rw [dget_store_other _ _ _ (by rw [hpathR]; exact hq1) hq2]
        simp only
        rw [hd1]
        by_cases h3 : q = norm c o.path
        · simp [h3]
        · by_cases h4 : q = o.oid
          · simp [h4]
          · simp [h3, h4]

/-- re-filing any object (live or tombstoned) that is filed under its own path key, to a destination that holds no
    other live object, keeps the table invariant -/
theorem inv_refile {c : Cfg} (hc : COk2 c) {fl : Flavour} {s : St C} (hi : Inv c fl s)
    {h : Nat} {o : Obj C} (hho : s.heap[h]? = some o) (hfo : dget s.dict (norm c o.path) = some h)
    {p : Str} (hp : Clean c fl p)
    (hfree : ∀ (h' : Nat) (o' : Obj C), pv s (norm c p) = some (h', o') → h' = h)
    {sR : St C} (hheap : sR.heap = s.heap.set h (refiled fl o p)) (hnext : sR.nextId = s.nextId)
    (hnd : (sR.dict.map (·.1)).Nodup)
    (hd : ∀ q, dget sR.dict q =
        if q = norm c p ∨ q = (refiled fl o p).oid then some h
        else if q = norm c o.path ∨ q = o.oid then none else dget s.dict q) :
    Inv c fl sR := by
  have hlt : h < s.heap.length := by
    rcases List.getElem?_eq_some_iff.1 hho with ⟨hl, _⟩; exact hl
  have hget : ∀ (j : Nat), sR.heap[j]? = if h = j then some (refiled fl o p) else s.heap[j]? := by
    intro j; rw [hheap, List.getElem?_set]; simp [hlt]
  have hclo := hi.clean h o hho
  have hco := clean_C hc hclo
  have hcp := clean_C hc hp
  have hsk := comps_foldL_ok hc hco.1
  have hdk := comps_foldL_ok hc hcp.1
  have hks : norm c o.path = canon c.sep (foldL c (Path.C c o.path)) := norm_clean hc hclo
  have hnk : norm c p = canon c.sep (foldL c (Path.C c p)) := norm_clean hc hp
  have hksh : (norm c o.path).head? = some '/' := norm_head hc hclo
  have hnkh : (norm c p).head? = some '/' := norm_head hc hp
  -- the oid keys: equal to the path keys (path style) or not path-like (id style)
  have hoid : (fl.oip = true ∧ o.oid = norm c o.path ∧ (refiled fl o p).oid = norm c p) ∨
      (fl.oip = false ∧ o.oid.head? ≠ some '/' ∧ (refiled fl o p).oid = o.oid) := by
    cases ho : fl.oip with
    | true =>
      left
      refine ⟨rfl, ?_, ?_⟩
      · rw [hi.pathOid ho h o hho, norm_eq_self_of_oip hc hclo ho]
      · simp only [refiled, ho, if_true]; exact (norm_eq_self_of_oip hc hp ho).symm
    | false =>
      right
      exact ⟨rfl, hi.idHead ho h o hho, by simp [refiled, ho]⟩
  -- lookups of path-like keys
  have hdpath : ∀ (q : Str), q.head? = some '/' →
      dget sR.dict q = if q = norm c p then some h else if q = norm c o.path then none else dget s.dict q := by
    intro q hq
    rw [hd q]
    rcases hoid with ⟨_, h1, h2⟩ | ⟨_, h1, h2⟩
    · rw [h1, h2]; simp
    · have hq1 : q ≠ o.oid := by intro e; rw [e] at hq; exact h1 hq
      rw [h2]; simp [hq1]
  -- a live object other than h is filed neither under the old nor under the new key
  have hother : ∀ (j : Nat) (ob : Obj C), s.heap[j]? = some ob → ob.live = true → j ≠ h →
      norm c ob.path ≠ norm c p ∧ norm c ob.path ≠ norm c o.path := by
    intro j ob hj hl hne
    have hf := hi.filed j ob hj hl
    constructor
    · intro e
      rw [e] at hf
      exact hne (hfree j ob (pv_some.2 ⟨hf, hj, hl⟩))
    · intro e
      rw [e, hfo] at hf
      exact hne (Option.some.inj hf).symm
  -- a path-like key that points at cell h is the old key
  have hown : ∀ (q : Str), q.head? = some '/' → dget s.dict q = some h → q = norm c o.path := by
    intro q hq hdq
    exact (hi.pathKey q h o hq hdq hho).symm
  have hvals : ∀ (q : Str) (j : Nat), dget sR.dict q = some j → j = h ∨ dget s.dict q = some j := by
    intro q j hdq
    rw [hd q] at hdq
    split at hdq
    · left; exact (Option.some.inj hdq).symm
    · split at hdq
      · cases hdq
      · right; exact hdq
  have hcell : fl.oip = false → ∀ (j : Nat) (ob : Obj C), sR.heap[j]? = some ob →
      ∃ ob0, s.heap[j]? = some ob0 ∧ ob0.oid = ob.oid := by
    intro ho j ob hg
    rw [hget j] at hg
    split at hg
    · rename_i e; subst e; cases hg; exact ⟨o, hho, by simp [refiled, ho]⟩
    · exact ⟨ob, hg, rfl⟩
  refine ⟨hnd, ?_, ?_, ?_, ?_, ?_, ?_, ?_, ?_, ?_, ?_, ?_, ?_⟩
  · intro q j hdq
    rw [hheap, List.length_set]
    rcases hvals q j hdq with e | e
    · rw [e]; exact hlt
    · exact hi.valsLt q j e
  · intro j ob hg
    rw [hget j] at hg
    split at hg
    · cases hg; exact hp
    · exact hi.clean j ob hg
  · intro q j ob hq hdq hg
    rw [hdpath q hq] at hdq
    rw [hget j] at hg
    split at hdq
    · rename_i e
      have : j = h := (Option.some.inj hdq).symm
      subst this
      simp only [if_true] at hg
      cases hg
      exact e.symm
    · split at hdq
      · cases hdq
      · rename_i hq1 hq2
        have hjh : h ≠ j := by intro e; subst e; exact hq2 (hown q hq hdq)
        simp only [hjh, if_false] at hg
        exact hi.pathKey q j ob hq hdq hg
  · intro j ob hg hl
    rw [hget j] at hg
    split at hg
    · rename_i e; subst e; cases hg
      show dget sR.dict (norm c p) = some h
      rw [hdpath _ hnkh]; simp
    · rename_i hjh
      have hne : j ≠ h := fun e => hjh e.symm
      obtain ⟨h1, h2⟩ := hother j ob hg hl hne
      rw [hdpath _ (norm_head hc (hi.clean j ob hg)), if_neg h1, if_neg h2]
      exact hi.filed j ob hg hl
  · intro j ob hg hl
    rw [hget j] at hg
    split at hg
    · rename_i e; subst e; cases hg
      rw [hd]; simp
    · rename_i hjh
      have hne : j ≠ h := fun e => hjh e.symm
      obtain ⟨h1, h2⟩ := hother j ob hg hl hne
      have hold := hi.oidFiled j ob hg hl
      have hne3 : ob.oid ≠ o.oid := by
        intro e
        rcases hoid with ⟨ho, e1, _⟩ | ⟨ho, _, _⟩
        · rw [hi.pathOid ho j ob hg, ← norm_eq_self_of_oip hc (hi.clean j ob hg) ho, e1] at e
          exact h2 e
        · exact hne (hi.oidUnique ho j h ob o hg hho e)
      rw [hd]
      rcases hoid with ⟨ho, e1, e2⟩ | ⟨ho, e1, e2⟩
      · have hob : ob.oid = norm c ob.path := by
          rw [hi.pathOid ho j ob hg, norm_eq_self_of_oip hc (hi.clean j ob hg) ho]
        rw [e2, ← e1]
        have h1' : ob.oid ≠ norm c p := by rw [hob]; exact h1
        simp [h1', hne3, hold]
      · have hobh := hi.idHead ho j ob hg
        have h1' : ob.oid ≠ norm c p := by intro e; rw [e] at hobh; exact hobh hnkh
        have h2' : ob.oid ≠ norm c o.path := by intro e; rw [e] at hobh; exact hobh hksh
        rw [e2]
        simp [h1', h2', hne3, hold]
  · intro ho j ob hg
    rw [hget j] at hg
    split at hg
    · cases hg; simp [refiled, ho]
    · exact hi.pathOid ho j ob hg
  · intro ho j ob hg
    rw [hget j] at hg
    split at hg
    · cases hg; simp only [refiled, ho, Bool.false_eq_true, if_false]; exact hi.idHead ho h o hho
    · exact hi.idHead ho j ob hg
  · intro ho q j hdq hq
    rw [hnext]
    rw [hd q] at hdq
    split at hdq
    · rename_i hor
      rcases hor with e | e
      · rw [e] at hq; exact absurd hnkh hq
      · rcases hoid with ⟨ho', _, _⟩ | ⟨_, _, e2⟩
        · rw [ho] at ho'; cases ho'
        · rw [e, e2]; exact hi.idAll ho h o hho
    · split at hdq
      · cases hdq
      · exact hi.idKeys ho q j hdq hq
  · intro ho q j hdq
    rw [hd q] at hdq
    split at hdq
    · rename_i hor
      rcases hoid with ⟨_, _, e2⟩ | ⟨ho', _, _⟩
      · rcases hor with e | e
        · rw [e]; exact hnkh
        · rw [e, e2]; exact hnkh
      · rw [ho] at ho'; cases ho'
    · split at hdq
      · cases hdq
      · exact hi.pathKeysHead ho q j hdq
  · intro ho q j ob hq hdq hg
    rcases hoid with ⟨ho', _, _⟩ | ⟨_, e1, e2⟩
    · rw [ho] at ho'; cases ho'
    · rw [hd q] at hdq
      rw [hget j] at hg
      split at hdq
      · rename_i hor
        have : j = h := (Option.some.inj hdq).symm
        subst this
        simp only [if_true] at hg
        cases hg
        rcases hor with e | e
        · rw [e] at hq; exact absurd hnkh hq
        · exact e.symm
      · rename_i hnor
        split at hdq
        · cases hdq
        · rename_i hnor2
          have hjh : h ≠ j := by
            intro e; subst e
            have := hi.idKeyOid ho q h o hq hdq hho
            exact hnor2 (Or.inr this.symm)
          simp only [hjh, if_false] at hg
          exact hi.idKeyOid ho q j ob hq hdq hg
  · intro ho j ob hg
    obtain ⟨ob0, h0, e0⟩ := hcell ho j ob hg
    rw [← e0, hnext]; exact hi.idAll ho j ob0 h0
  · intro ho j j' ob ob' hg hg' he
    obtain ⟨ob0, h0, e0⟩ := hcell ho j ob hg
    obtain ⟨ob0', h0', e0'⟩ := hcell ho j' ob' hg'
    exact hi.oidUnique ho j j' ob0 ob0' h0 h0' (by rw [e0, e0', he])

/-- re-filing a live object under a free destination keeps the invariant and moves exactly one tree entry -/
theorem sim_refile {c : Cfg} (hc : COk2 c) {fl : Flavour} {s : St C} {t : Tree.T C} (hi : Inv c fl s) (hr : Rel c s t)
    {h : Nat} {o : Obj C} (hho : s.heap[h]? = some o) (hlive : o.live = true)
    {p : Str} (hp : Clean c fl p)
    (hfree : ∀ (h' : Nat) (o' : Obj C), pv s (norm c p) = some (h', o') → h' = h)
    {sR : St C} (hheap : sR.heap = s.heap.set h (refiled fl o p)) (hnext : sR.nextId = s.nextId)
    (hnd : (sR.dict.map (·.1)).Nodup)
    (hd : ∀ q, dget sR.dict q =
        if q = norm c p ∨ q = (refiled fl o p).oid then some h
        else if q = norm c o.path ∨ q = o.oid then none else dget s.dict q) :
    Inv c fl sR ∧
    Rel c sR (Tree.set (Tree.erase t (foldL c (Path.C c o.path))) (foldL c (Path.C c p)) (nodeOf c (refiled fl o p))) := by
  have hlt : h < s.heap.length := by
    rcases List.getElem?_eq_some_iff.1 hho with ⟨hl, _⟩; exact hl
  have hget : ∀ (j : Nat), sR.heap[j]? = if h = j then some (refiled fl o p) else s.heap[j]? := by
    intro j; rw [hheap, List.getElem?_set]; simp [hlt]
  have hclo := hi.clean h o hho
  have hco := clean_C hc hclo
  have hcp := clean_C hc hp
  have hsk := comps_foldL_ok hc hco.1
  have hdk := comps_foldL_ok hc hcp.1
  have hks : norm c o.path = canon c.sep (foldL c (Path.C c o.path)) := norm_clean hc hclo
  have hnk : norm c p = canon c.sep (foldL c (Path.C c p)) := norm_clean hc hp
  have hksh : (norm c o.path).head? = some '/' := norm_head hc hclo
  have hnkh : (norm c p).head? = some '/' := norm_head hc hp
  have hfo : dget s.dict (norm c o.path) = some h := hi.filed h o hho hlive
  have hoo : dget s.dict o.oid = some h := hi.oidFiled h o hho hlive
  -- the oid keys: equal to the path keys (path style) or not path-like (id style)
  have hoid : (fl.oip = true ∧ o.oid = norm c o.path ∧ (refiled fl o p).oid = norm c p) ∨
      (fl.oip = false ∧ o.oid.head? ≠ some '/' ∧ (refiled fl o p).oid = o.oid) := by
    cases ho : fl.oip with
    | true =>
      left
      refine ⟨rfl, ?_, ?_⟩
      · rw [hi.pathOid ho h o hho, norm_eq_self_of_oip hc hclo ho]
      · simp only [refiled, ho, if_true]; exact (norm_eq_self_of_oip hc hp ho).symm
    | false =>
      right
      exact ⟨rfl, hi.idHead ho h o hho, by simp [refiled, ho]⟩
  -- lookups of path-like keys
  have hdpath : ∀ (q : Str), q.head? = some '/' →
      dget sR.dict q = if q = norm c p then some h else if q = norm c o.path then none else dget s.dict q := by
    intro q hq
    rw [hd q]
    rcases hoid with ⟨_, h1, h2⟩ | ⟨_, h1, h2⟩
    · rw [h1, h2]; simp
    · have hq1 : q ≠ o.oid := by intro e; rw [e] at hq; exact h1 hq
      rw [h2]; simp [hq1]
  -- a live object other than h is filed neither under the old nor under the new key
  have hother : ∀ (j : Nat) (ob : Obj C), s.heap[j]? = some ob → ob.live = true → j ≠ h →
      norm c ob.path ≠ norm c p ∧ norm c ob.path ≠ norm c o.path := by
    intro j ob hj hl hne
    have hf := hi.filed j ob hj hl
    constructor
    · intro e
      rw [e] at hf
      exact hne (hfree j ob (pv_some.2 ⟨hf, hj, hl⟩))
    · intro e
      rw [e, hfo] at hf
      exact hne (Option.some.inj hf).symm
  -- a path-like key that points at cell h is the old key
  have hown : ∀ (q : Str), q.head? = some '/' → dget s.dict q = some h → q = norm c o.path := by
    intro q hq hdq
    exact (hi.pathKey q h o hq hdq hho).symm
  have hvals : ∀ (q : Str) (j : Nat), dget sR.dict q = some j → j = h ∨ dget s.dict q = some j := by
    intro q j hdq
    rw [hd q] at hdq
    split at hdq
    · left; exact (Option.some.inj hdq).symm
    · split at hdq
      · cases hdq
      · right; exact hdq
  have hlive' : (refiled fl o p).live = true := hlive
  have hcell : fl.oip = false → ∀ (j : Nat) (ob : Obj C), sR.heap[j]? = some ob →
      ∃ ob0, s.heap[j]? = some ob0 ∧ ob0.oid = ob.oid := by
    intro ho j ob hg
    rw [hget j] at hg
    split at hg
    · rename_i e; subst e; cases hg; exact ⟨o, hho, by simp [refiled, ho]⟩
    · exact ⟨ob, hg, rfl⟩
  refine ⟨⟨hnd, ?_, ?_, ?_, ?_, ?_, ?_, ?_, ?_, ?_, ?_, ?_, ?_⟩, ⟨?_, ?_, ?_⟩⟩
  · intro q j hdq
    rw [hheap, List.length_set]
    rcases hvals q j hdq with e | e
    · rw [e]; exact hlt
    · exact hi.valsLt q j e
  · intro j ob hg
    rw [hget j] at hg
    split at hg
    · cases hg; exact hp
    · exact hi.clean j ob hg
  · intro q j ob hq hdq hg
    rw [hdpath q hq] at hdq
    rw [hget j] at hg
    split at hdq
    · rename_i e
      have : j = h := (Option.some.inj hdq).symm
      subst this
      simp only [if_true] at hg
      cases hg
      exact e.symm
    · split at hdq
      · cases hdq
      · rename_i hq1 hq2
        have hjh : h ≠ j := by intro e; subst e; exact hq2 (hown q hq hdq)
        simp only [hjh, if_false] at hg
        exact hi.pathKey q j ob hq hdq hg
  · intro j ob hg hl
    rw [hget j] at hg
    split at hg
    · rename_i e; subst e; cases hg
      show dget sR.dict (norm c p) = some h
      rw [hdpath _ hnkh]; simp
    · rename_i hjh
      have hne : j ≠ h := fun e => hjh e.symm
      obtain ⟨h1, h2⟩ := hother j ob hg hl hne
      rw [hdpath _ (norm_head hc (hi.clean j ob hg)), if_neg h1, if_neg h2]
      exact hi.filed j ob hg hl
  · intro j ob hg hl
    rw [hget j] at hg
    split at hg
    · rename_i e; subst e; cases hg
      rw [hd]; simp
    · rename_i hjh
      have hne : j ≠ h := fun e => hjh e.symm
      obtain ⟨h1, h2⟩ := hother j ob hg hl hne
      have hold := hi.oidFiled j ob hg hl
      have hne3 : ob.oid ≠ o.oid := by
        intro e; rw [e, hoo] at hold; exact hne (Option.some.inj hold).symm
      rw [hd]
      rcases hoid with ⟨ho, e1, e2⟩ | ⟨ho, e1, e2⟩
      · have hob : ob.oid = norm c ob.path := by
          rw [hi.pathOid ho j ob hg, norm_eq_self_of_oip hc (hi.clean j ob hg) ho]
        rw [e2, ← e1]
        have h1' : ob.oid ≠ norm c p := by rw [hob]; exact h1
        simp [h1', hne3, hold]
      · have hobh := hi.idHead ho j ob hg
        have h1' : ob.oid ≠ norm c p := by intro e; rw [e] at hobh; exact hobh hnkh
        have h2' : ob.oid ≠ norm c o.path := by intro e; rw [e] at hobh; exact hobh hksh
        rw [e2]
        simp [h1', h2', hne3, hold]
  · intro ho j ob hg
    rw [hget j] at hg
    split at hg
    · cases hg; simp [refiled, ho]
    · exact hi.pathOid ho j ob hg
  · intro ho j ob hg
    rw [hget j] at hg
    split at hg
    · cases hg; simp only [refiled, ho, Bool.false_eq_true, if_false]; exact hi.idHead ho h o hho
    · exact hi.idHead ho j ob hg
  · intro ho q j hdq hq
    rw [hnext]
    rw [hd q] at hdq
    split at hdq
    · rename_i hor
      rcases hor with e | e
      · rw [e] at hq; exact absurd hnkh hq
      · rcases hoid with ⟨ho', _, _⟩ | ⟨_, _, e2⟩
        · rw [ho] at ho'; cases ho'
        · rw [e, e2]; exact hi.idKeys ho _ h hoo (by rw [← e2, ← e]; exact hq)
    · split at hdq
      · cases hdq
      · exact hi.idKeys ho q j hdq hq
  · intro ho q j hdq
    rw [hd q] at hdq
    split at hdq
    · rename_i hor
      rcases hoid with ⟨_, _, e2⟩ | ⟨ho', _, _⟩
      · rcases hor with e | e
        · rw [e]; exact hnkh
        · rw [e, e2]; exact hnkh
      · rw [ho] at ho'; cases ho'
    · split at hdq
      · cases hdq
      · exact hi.pathKeysHead ho q j hdq
  · intro ho q j ob hq hdq hg
    rcases hoid with ⟨ho', _, _⟩ | ⟨_, e1, e2⟩
    · rw [ho] at ho'; cases ho'
    · rw [hd q] at hdq
      rw [hget j] at hg
      split at hdq
      · rename_i hor
        have : j = h := (Option.some.inj hdq).symm
        subst this
        simp only [if_true] at hg
        cases hg
        rcases hor with e | e
        · rw [e] at hq; exact absurd hnkh hq
        · exact e.symm
      · rename_i hnor
        split at hdq
        · cases hdq
        · rename_i hnor2
          have hjh : h ≠ j := by
            intro e; subst e
            have := hi.idKeyOid ho q h o hq hdq hho
            exact hnor2 (Or.inr this.symm)
          simp only [hjh, if_false] at hg
          exact hi.idKeyOid ho q j ob hq hdq hg
  · intro ho j ob hg
    obtain ⟨ob0, h0, e0⟩ := hcell ho j ob hg
    rw [← e0, hnext]; exact hi.idAll ho j ob0 h0
  · intro ho j j' ob ob' hg hg' he
    obtain ⟨ob0, h0, e0⟩ := hcell ho j ob hg
    obtain ⟨ob0', h0', e0'⟩ := hcell ho j' ob' hg'
    exact hi.oidUnique ho j j' ob0 ob0' h0 h0' (by rw [e0, e0', he])
  · intro k hk
    rw [Tree.get_set, Tree.get_erase]
    have hkh : (canon c.sep k).head? = some '/' := by rw [head_canon, hc.sep]
    have hkey := hdpath (canon c.sep k) hkh
    by_cases hk1 : k = foldL c (Path.C c p)
    · subst hk1
      simp only [if_true]
      have : pv sR (canon c.sep (foldL c (Path.C c p))) = some (h, refiled fl o p) := by
        apply pv_some.2
        refine ⟨?_, ?_, hlive'⟩
        · rw [hkey, ← hnk]; simp
        · rw [hget h]; simp
      rw [this]; rfl
    · have hne1 : canon c.sep k ≠ norm c p := by rw [hnk]; exact fun e => hk1 (canon_inj hk.1 hdk.1 e)
      simp only [hk1, if_false]
      by_cases hk2 : k = foldL c (Path.C c o.path)
      · subst hk2
        simp only [if_true]
        have : pv sR (canon c.sep (foldL c (Path.C c o.path))) = none := by
          unfold pv getObj
          rw [hkey, if_neg hne1, ← hks]; simp
        rw [this]; rfl
      · have hne2 : canon c.sep k ≠ norm c o.path := by rw [hks]; exact fun e => hk2 (canon_inj hk.1 hsk.1 e)
        simp only [hk2, if_false]
        rw [hr.get k hk]
        congr 1
        unfold pv getObj
        rw [hkey, if_neg hne1, if_neg hne2]
        cases hdq : dget s.dict (canon c.sep k) with
        | none => rfl
        | some j =>
          have hjh : h ≠ j := by intro e; subst e; exact hne2 (hown _ hkh hdq)
          simp only [hget j, hjh, if_false]
  · intro e he
    rcases Tree.mem_set he with rfl | ⟨h1, _⟩
    · exact hdk
    · exact hr.keys e (Tree.mem_erase h1).1
  · exact Tree.nodup_set (Tree.nodup_erase hr.tnodup _) _ _

/-- the id handed to a call really is the id of the object it resolves to -/
theorem oid_of_resolved {c : Cfg} (hc : COk2 c) {fl : Flavour} {s : St C} (hi : Inv c fl s)
    {oid : Str} (harg : fl.oip = false → oid.head? ≠ some '/')
    {h : Nat} {o : Obj C} (hg : getObj s oid = some (h, o)) : o.oid = oid := by
  obtain ⟨hd, hho⟩ := getObj_some.1 hg
  cases ho : fl.oip with
  | true =>
    have hk := hi.pathKeysHead ho oid h hd
    have := hi.pathKey oid h o hk hd hho
    rw [hi.pathOid ho h o hho, ← norm_eq_self_of_oip hc (hi.clean h o hho) ho]
    exact this
  | false => exact hi.idKeyOid ho oid h o (harg ho) hd hho

/-- for a file, whatever else is live at the destination refuses the rename; nothing is deleted -/
theorem conflict_file {c : Cfg} (hc : COk2 c) {fl : Flavour} (hcfg : HashCfg C H) {s : St C} (hi : Inv c fl s)
    {oid p : Str} {h : Nat} {o : Obj C} (hg : getObj s oid = some (h, o)) (hl : o.live = true) (hk : o.kind = .file)
    (hoeq : o.oid = oid) :
    resolveConflict c hcfg s o (conflictOf c s oid p) =
      (s, match pv s (norm c p) with
          | some (ch, _) => if ch = h then none else some .exists
          | none => none) := by
  have hho := (getObj_some.1 hg).2
  unfold conflictOf getByPath
  cases hgp : getObj s (norm c p) with
  | none => rw [pv_of_getObj_none hgp]; rfl
  | some cho =>
    obtain ⟨ch, co⟩ := cho
    have hcho := (getObj_some.1 hgp).2
    rw [pv_of_getObj hgp]
    simp only
    cases hcl : co.live with
    | false =>
      simp only [Bool.false_eq_true, if_false]
      split <;> simp [resolveConflict, hcl]
    | true =>
      simp only [if_true]
      by_cases hch : ch = h
      · subst hch
        rw [hho] at hcho
        cases hcho
        simp [hoeq, resolveConflict]
      · have hne : (co.oid == oid) = false := by
          simp only [beq_eq_false_iff_ne, ne_eq]
          intro e
          have h1 := hi.oidFiled ch co hcho hcl
          have h2 := hi.oidFiled h o hho hl
          rw [e, ← hoeq, h2] at h1
          exact hch (Option.some.inj h1).symm
        simp only [hne, Bool.false_eq_true, if_false, hch, resolveConflict, hcl, if_true, hk]
        cases hck : co.kind <;> simp

/-- after a successful rename the returned id resolves to a live object that reports the new path -/
def RenameOk (r : St C × Res C H) (p : Str) : Prop :=
  ∀ x, r.2 = .oid x → ∃ o', liveObj r.1 x = some o' ∧ o'.path = p ∧ o'.oid = x

theorem renameOk_err (s : St C) (e : Err) (p : Str) : RenameOk (H := H) (s, Res.err e) p := by
  intro x hx; cases hx

/-- the part of `rename` after the conflict handling, for a file and a destination that holds nothing else -/
theorem rename_tail_file {c : Cfg} (hc : COk2 c) {fl : Flavour} (hcfg : HashCfg C H)
    {s : St C} {t : Tree.T C} (hi : Inv c fl s) (hr : Rel c s t) {oid p : Str}
    (hp : Clean c fl p) (hpn : Path.C c p ≠ [])
    {h : Nat} {o : Obj C} (hg : getObj s oid = some (h, o))
    (hho : s.heap[h]? = some o) (hl : o.live = true) (hk : o.kind = .file) (hoeq : o.oid = oid)
    (hfree : ∀ (h' : Nat) (o' : Obj C), pv s (norm c p) = some (h', o') → h' = h) :
    RenameOk (H := H) (if (o.path == p) = true then (s, Res.oid oid)
       else match renameMove c fl s h o p with
         | (s2, some e) => (s2, Res.err e)
         | (s2, none) => (s2, renameFinish fl s2 h o oid)) p ∧
    Sim c fl hcfg
      (if (o.path == p) = true then (s, Res.oid oid)
       else match renameMove c fl s h o p with
         | (s2, some e) => (s2, Res.err e)
         | (s2, none) => (s2, renameFinish fl s2 h o oid))
      (if ((nodeOf c o).disp == Path.C c p) = true then (t, Tree.Res.path (Path.C c p))
       else if ((nodeOf c o).kind == Kind.file) = true then
         (Tree.set (Tree.erase t (foldL c (Path.C c o.path))) (foldL c (Path.C c p))
            { kind := (nodeOf c o).kind, content := (nodeOf c o).content, disp := Path.C c p },
          Tree.Res.path (Path.C c p))
       else (Tree.move t (foldL c (Path.C c o.path)) (foldL c (Path.C c p)) (Path.C c p), Tree.Res.path (Path.C c p))) := by
  have hclo := hi.clean h o hho
  have hco := clean_C hc hclo
  have hcp := clean_C hc hp
  by_cases hsame : o.path = p
  · have h1 : (o.path == p) = true := by simpa using hsame
    have h2 : ((nodeOf c o).disp == Path.C c p) = true := by simp [nodeOf, hsame]
    rw [if_pos h1, if_pos h2]
    refine ⟨?_, hi, hr, .oid ?_⟩
    · intro x hx
      simp only [Res.oid.injEq] at hx
      subst hx
      refine ⟨o, ?_, hsame, hoeq⟩
      rw [liveObj_eq, pv_of_getObj hg, hl]; rfl
    intro ho
    rw [← hoeq, hi.pathOid ho h o hho, hsame]
    exact hcp.2.1
  · have h1 : ¬ (o.path == p) = true := by simpa using hsame
    have h2 : ¬ ((nodeOf c o).disp == Path.C c p) = true := by
      simp only [nodeOf, beq_iff_eq]
      intro e
      apply hsame
      rw [hco.2.1, hcp.2.1, e]
    have h3 : ((nodeOf c o).kind == Kind.file) = true := by simp [nodeOf, hk]
    rw [if_neg h1, if_neg h2, if_pos h3]
    obtain ⟨sR, hres, hheap, hnext, hnd, hd⟩ :=
      renameSingle_spec hc hi hho (hi.filed h o hho hl) hp hpn true
    have hmove : renameMove c fl s h o p = (sR, none) := by
      simp only [renameMove, hk, beq_self_eq_true, if_true]; exact hres
    rw [hmove]
    simp only
    obtain ⟨hi', hr'⟩ := sim_refile hc hi hr hho hl hp hfree hheap hnext hnd hd
    have hlt : h < s.heap.length := by
      rcases List.getElem?_eq_some_iff.1 hho with ⟨hl', _⟩; exact hl'
    have hget : sR.heap[h]? = some (refiled fl o p) := by
      rw [hheap, List.getElem?_set]; simp [hlt]
    have hfin : renameFinish (C := C) (H := H) fl sR h o oid = .oid (refiled fl o p).oid := by
      simp only [renameFinish, hget]
      cases ho : fl.oip with
      | true =>
        have : ((refiled fl o p).oid == o.oid) = false := by
          simp only [refiled, ho, if_true, beq_eq_false_iff_ne, ne_eq]
          rw [hi.pathOid ho h o hho]
          exact fun e => hsame e.symm
        simp [this]
      | false =>
        have : ((refiled fl o p).oid != oid) = false := by
          simp [refiled, ho, hoeq]
        simp [this]
    rw [hfin]
    refine ⟨?_, hi', hr', .oid ?_⟩
    · intro x hx
      simp only [Res.oid.injEq] at hx
      subst hx
      refine ⟨refiled fl o p, ?_, rfl, rfl⟩
      rw [liveObj_eq]
      have : pv sR (refiled fl o p).oid = some (h, refiled fl o p) := by
        apply pv_some.2
        refine ⟨?_, hget, hl⟩
        rw [hd]; simp
      rw [this]; rfl
    intro ho
    simp only [refiled, ho, if_true]
    exact hcp.2.1

theorem sim_rename_file {c : Cfg} (hc : COk2 c) {fl : Flavour} (hcfg : HashCfg C H)
    {s : St C} {t : Tree.T C} (hi : Inv c fl s) (hr : Rel c s t) (oid p : Str)
    (hp : Clean c fl p) (hpn : Path.C c p ≠ [])
    (harg : fl.oip = false → oid.head? ≠ some '/')
    (hfile : ∀ (h : Nat) (o : Obj C), pv s oid = some (h, o) → o.kind = .file) :
    RenameOk (rename c fl hcfg s oid p) p ∧
    Sim c fl hcfg (rename c fl hcfg s oid p) (Tree.rename (tcfg c fl) t (resolve c s oid) (Path.C c p)) := by
  unfold Tree.rename
  rw [lookupT_resolve hc hi hr]
  cases hg : getObj s oid with
  | none =>
    rw [pv_of_getObj_none hg]
    simp only [rename, hg]
    exact ⟨renameOk_err _ _ _, hi, hr, .err⟩
  | some ho =>
    obtain ⟨h, o⟩ := ho
    have hho := (getObj_some.1 hg).2
    rw [pv_of_getObj hg]
    cases hl : o.live with
    | false =>
      simp only [rename, hg, hl]
      exact ⟨renameOk_err _ _ _, hi, hr, .err⟩
    | true =>
      have hk : o.kind = .file := hfile h o (by rw [pv_of_getObj hg, hl]; rfl)
      have hoeq := oid_of_resolved hc hi harg hg
      have hclo := hi.clean h o hho
      have hco := clean_C hc hclo
      have hcp := clean_C hc hp
      have hsk := comps_foldL_ok hc hco.1
      have hdk := comps_foldL_ok hc hcp.1
      have hpvo : pv s (canon c.sep (foldL c (Path.C c o.path))) = some (h, o) :=
        (pv_canon_iff hc hi hsk).2 ⟨hho, hl, rfl⟩
      simp only [rename, hg, hl, Bool.not_true, Bool.false_eq_true, if_false, if_true, Option.map_some]
      rw [← parent_rel hc hr hp]
      cases hvp : verifyParent c s p with
      | some e => exact ⟨renameOk_err _ _ _, hi, hr, .err⟩
      | none =>
        simp only
        -- the tree's conflict in terms of what is live under the destination key
        have hct : (if (Tree.fold (tcfg c fl) (Path.C c p) == foldL c (Path.C c o.path)) = true then none
              else Tree.get t (Tree.fold (tcfg c fl) (Path.C c p))) =
            (match pv s (norm c p) with
             | some (ch, co) => if ch = h then none else some (nodeOf c co)
             | none => none) := by
          rw [tfold_eq, hr.get _ hdk, ← norm_clean hc hp]
          cases hpd : pv s (norm c p) with
          | none => simp
          | some cho =>
            obtain ⟨ch, co⟩ := cho
            simp only [Option.map_some]
            by_cases hch : ch = h
            · subst hch
              rw [norm_clean hc hp] at hpd
              have := ((pv_canon_iff hc hi hdk).1 hpd).2.2
              have hco' : co = o := by
                obtain ⟨_, h2, _⟩ := pv_some.1 hpd
                rw [hho] at h2; exact (Option.some.inj h2).symm
              subst hco'
              simp [this]
            · have : (foldL c (Path.C c p) == foldL c (Path.C c o.path)) = false := by
                simp only [beq_eq_false_iff_ne, ne_eq]
                intro e
                rw [norm_clean hc hp, e, hpvo] at hpd
                simp only [Option.some.injEq, Prod.mk.injEq] at hpd
                exact hch hpd.1.symm
              simp [this, hch]
        rw [hct, conflict_file hc hcfg hi hg hl hk hoeq]
        cases hpd : pv s (norm c p) with
        | some cho =>
          obtain ⟨ch, co⟩ := cho
          by_cases hch : ch = h
          · simp only [hch, if_true, hho, Option.getD_some, Option.isSome_none, Bool.false_eq_true, if_false, tfold_eq]
            exact rename_tail_file hc hcfg hi hr hp hpn hg hho hl hk hoeq
              (fun h' o' e => by rw [hpd] at e; cases e; exact hch)
          · simp only [hch, if_false]
            have : Tree.renameBlocked t (Tree.fold (tcfg c fl) (Path.C c p)) (nodeOf c o) (some (nodeOf c co)) = true := by
              simp only [Tree.renameBlocked, nodeOf, hk]
              cases co.kind <;> simp
            rw [if_pos this]
            exact ⟨renameOk_err _ _ _, hi, hr, .err⟩
        | none =>
          simp only [hho, Option.getD_some, Option.isSome_none, Bool.false_eq_true, if_false, tfold_eq]
          exact rename_tail_file hc hcfg hi hr hp hpn hg hho hl hk hoeq
            (fun h' o' e => by rw [hpd] at e; cases e)

end CS.MockFS
