import Csverif.Model.Spec.ObjTree
import Csverif.Proofs.Spec
/-
Helper lemmas for the object-identity specification of C04 (Model/Spec/ObjTree.lean):
look-ups after each operation, id order, commutation of operations on different objects,
validity after the other operation (`Compatible`), fuel-independence of derived paths,
well-formedness and its preservation, injectivity of derived paths.
-/
namespace CS.Spec.Obj
open CS.Spec
set_option linter.unusedVariables false
set_option linter.unusedSimpArgs false

/-! ### look-ups -/

theorem get_nil (i : Nat) : OTree.get [] i = none := rfl

theorem get_cons (x : Obj) (xs : OTree) (i : Nat) :
    OTree.get (x :: xs) i = if x.id = i then some x else OTree.get xs i := by
  simp only [OTree.get, List.find?_cons]
  by_cases h : x.id = i
  · simp [h]
  · have : (x.id == i) = false := by simp [h]
    simp [this, h]

theorem get_some {t : OTree} {i : Nat} {o : Obj} (h : t.get i = some o) : o ∈ t ∧ o.id = i := by
  induction t with
  | nil => simp [get_nil] at h
  | cons x xs ih =>
    rw [get_cons] at h
    by_cases hx : x.id = i
    · rw [if_pos hx] at h
      cases h
      exact ⟨List.mem_cons_self, hx⟩
    · rw [if_neg hx] at h
      exact ⟨List.mem_cons_of_mem _ (ih h).1, (ih h).2⟩

theorem get_none_iff {t : OTree} {i : Nat} : t.get i = none ↔ ∀ o ∈ t, o.id ≠ i := by
  induction t with
  | nil => simp [get_nil]
  | cons x xs ih =>
    rw [get_cons]
    by_cases hx : x.id = i
    · simp [hx]
    · simp [hx, ih]

theorem has_eq_isSome (t : OTree) (i : Nat) : t.has i = (t.get i).isSome := by
  induction t with
  | nil => rfl
  | cons x xs ih =>
    rw [get_cons]
    simp only [OTree.has, List.any_cons] at ih ⊢
    by_cases hx : x.id = i
    · simp [hx]
    · simp [hx, ih]

theorem has_iff {t : OTree} {i : Nat} : t.has i = true ↔ ∃ o ∈ t, o.id = i := by
  simp [OTree.has, List.any_eq_true]

theorem has_false_iff {t : OTree} {i : Nat} : t.has i = false ↔ ∀ o ∈ t, o.id ≠ i := by
  rw [has_eq_isSome]
  cases h : t.get i with
  | none =>
    simp only [Option.isSome_none, true_iff]
    exact get_none_iff.mp h
  | some o =>
    simp only [Option.isSome_some, Bool.true_eq_false, false_iff]
    intro hh
    exact hh o (get_some h).1 (get_some h).2

/-- look-up after a row-wise update that keeps ids -/
theorem get_map (f : Obj → Obj) (hf : ∀ o, (f o).id = o.id) (t : OTree) (i : Nat) :
    OTree.get (t.map f) i = (t.get i).map f := by
  induction t with
  | nil => rfl
  | cons x xs ih =>
    rw [List.map_cons, get_cons, get_cons, hf]
    by_cases hx : x.id = i
    · simp [hx]
    · simp [hx, ih]

theorem get_filter_ne (t : OTree) (j i : Nat) :
    OTree.get (t.filter (fun o => o.id != j)) i = if i = j then none else t.get i := by
  induction t with
  | nil => simp [get_nil]
  | cons x xs ih =>
    by_cases hxj : x.id = j
    · have : (x.id != j) = false := by simp [hxj]
      rw [List.filter_cons_of_neg (by simp [hxj]), ih, get_cons]
      by_cases hij : i = j
      · simp [hij]
      · have : x.id ≠ i := fun h => hij (h ▸ hxj)
        simp [hij, this]
    · rw [List.filter_cons_of_pos (by simp [hxj]), get_cons, get_cons, ih]
      by_cases hxi : x.id = i
      · have : i ≠ j := fun h => hxj (hxi ▸ h)
        simp [hxi, this]
      · simp [hxi]

theorem mem_ins {o y : Obj} {t : OTree} : y ∈ ins o t ↔ y = o ∨ y ∈ t := by
  induction t with
  | nil => simp [ins]
  | cons x xs ih =>
    simp only [ins]
    by_cases h : o.id ≤ x.id
    · simp [h]
    · simp only [h, if_false, List.mem_cons, ih]
      constructor
      · rintro (h1 | h1 | h1)
        · exact Or.inr (Or.inl h1)
        · exact Or.inl h1
        · exact Or.inr (Or.inr h1)
      · rintro (h1 | h1 | h1)
        · exact Or.inr (Or.inl h1)
        · exact Or.inl h1
        · exact Or.inr (Or.inr h1)

theorem length_ins (o : Obj) (t : OTree) : (ins o t).length = t.length + 1 := by
  induction t with
  | nil => rfl
  | cons x xs ih =>
    simp only [ins]
    by_cases h : o.id ≤ x.id
    · simp [h]
    · simp [h, ih]

theorem get_ins (o : Obj) (t : OTree) (i : Nat) :
    OTree.get (ins o t) i = if o.id = i then some o else t.get i := by
  induction t with
  | nil => simp [ins, get_cons, get_nil]
  | cons x xs ih =>
    simp only [ins]
    by_cases h : o.id ≤ x.id
    · simp only [h, if_true]
      rw [get_cons]
    · simp only [h, if_false]
      rw [get_cons, ih, get_cons]
      by_cases hx : x.id = i
      · have : o.id ≠ i := fun ho => h (by omega)
        simp [hx, this]
      · simp [hx]

/-! ### id order -/

/-- ids strictly ascending (hence unique) -/
def Sorted (t : OTree) : Prop := t.Pairwise (fun a b => a.id < b.id)

theorem sortedB_iff (t : OTree) : sortedB t = true ↔ Sorted t := by
  induction t with
  | nil => simp [sortedB, Sorted]
  | cons a r ih =>
    cases r with
    | nil => simp [sortedB, Sorted]
    | cons b r =>
      simp only [sortedB, Bool.and_eq_true, decide_eq_true_eq, ih]
      simp only [Sorted, List.pairwise_cons]
      constructor
      · rintro ⟨hab, hb, hr⟩
        refine ⟨?_, hb, hr⟩
        intro c hc
        rcases List.mem_cons.mp hc with rfl | hc
        · exact hab
        · exact Nat.lt_trans hab (hb c hc)
      · rintro ⟨ha, hb, hr⟩
        exact ⟨ha b List.mem_cons_self, hb, hr⟩

theorem Sorted.tail {x : Obj} {xs : OTree} (h : Sorted (x :: xs)) : Sorted xs := (List.pairwise_cons.mp h).2

theorem Sorted.head_lt {x : Obj} {xs : OTree} (h : Sorted (x :: xs)) : ∀ y ∈ xs, x.id < y.id := (List.pairwise_cons.mp h).1

theorem Sorted.get_of_mem {t : OTree} (hs : Sorted t) {o : Obj} (ho : o ∈ t) : t.get o.id = some o := by
  induction t with
  | nil => cases ho
  | cons x xs ih =>
    rw [get_cons]
    rcases List.mem_cons.mp ho with rfl | ho
    · simp
    · have := hs.head_lt o ho
      rw [if_neg (by omega)]
      exact ih hs.tail ho

theorem Sorted.eq_of_id {t : OTree} (hs : Sorted t) {a b : Obj} (ha : a ∈ t) (hb : b ∈ t) (h : a.id = b.id) : a = b := by
  have h1 := hs.get_of_mem ha
  have h2 := hs.get_of_mem hb
  rw [h] at h1
  rw [h1] at h2
  exact Option.some.inj h2

theorem Sorted.map {t : OTree} (hs : Sorted t) (f : Obj → Obj) (hf : ∀ o, (f o).id = o.id) : Sorted (t.map f) := by
  unfold Sorted at *
  rw [List.pairwise_map]
  simpa [hf] using hs

theorem Sorted.filter {t : OTree} (hs : Sorted t) (p : Obj → Bool) : Sorted (t.filter p) :=
  List.Pairwise.filter p hs

theorem ins_of_le_all (o : Obj) (t : OTree) (h : ∀ y ∈ t, o.id ≤ y.id) : ins o t = o :: t := by
  cases t with
  | nil => rfl
  | cons x xs => simp [ins, h x List.mem_cons_self]

theorem Sorted.ins {t : OTree} (hs : Sorted t) (o : Obj) (hf : t.has o.id = false) : Sorted (ins o t) := by
  induction t with
  | nil => simp [Obj.ins, Sorted]
  | cons x xs ih =>
    have hne : ∀ y ∈ x :: xs, y.id ≠ o.id := has_false_iff.mp hf
    simp only [Obj.ins]
    by_cases h : o.id ≤ x.id
    · simp only [h, if_true]
      unfold Sorted
      rw [List.pairwise_cons]
      refine ⟨?_, hs⟩
      intro y hy
      have hx : x.id ≠ o.id := hne x List.mem_cons_self
      rcases List.mem_cons.mp hy with rfl | hy
      · omega
      · have := hs.head_lt y hy
        omega
    · simp only [h, if_false]
      unfold Sorted
      rw [List.pairwise_cons]
      have hxs : OTree.has xs o.id = false := has_false_iff.mpr (fun y hy => hne y (List.mem_cons_of_mem _ hy))
      refine ⟨?_, ih hs.tail hxs⟩
      intro y hy
      rcases mem_ins.mp hy with rfl | hy
      · omega
      · exact hs.head_lt y hy

/-! ### the three shapes of an operation -/

inductive Shape where
  | add (o : Obj)
  | upd (f : Obj → Obj)
  | del (i : Nat)

def Shape.run (t : OTree) : Shape → OTree
  | .add o => ins o t
  | .upd f => t.map f
  | .del i => t.filter (fun o => o.id != i)

def OOp.shape : OOp → Shape
  | .create i p n tag => .add ⟨i, p, n, .file tag⟩
  | .mkdir i p n => .add ⟨i, p, n, .dir⟩
  | .write i tag => .upd (setKind i (.file tag))
  | .delete i => .del i
  | .move i p n => .upd (setPlace i p n)

theorem applyOp_shape (t : OTree) (a : OOp) : applyOp t a = a.shape.run t := by
  cases a <;> rfl

theorem setPlace_id (i : Nat) (p : Option Nat) (n : String) (o : Obj) : (setPlace i p n o).id = o.id := by
  unfold setPlace; split <;> rfl

theorem setKind_id (i : Nat) (k : Node) (o : Obj) : (setKind i k o).id = o.id := by
  unfold setKind; split <;> rfl

theorem setPlace_ne {i : Nat} {p : Option Nat} {n : String} {o : Obj} (h : o.id ≠ i) : setPlace i p n o = o := by
  unfold setPlace; rw [if_neg h]

theorem setKind_ne {i : Nat} {k : Node} {o : Obj} (h : o.id ≠ i) : setKind i k o = o := by
  unfold setKind; rw [if_neg h]

/-- what an operation's shape is about: only rows with the target's id -/
def Shape.About (s : Shape) (i : Nat) : Prop :=
  match s with
  | .add o => o.id = i
  | .upd f => (∀ o, (f o).id = o.id) ∧ (∀ o, o.id ≠ i → f o = o)
  | .del j => j = i

theorem OOp.shape_about (a : OOp) : a.shape.About a.target := by
  cases a with
  | create i p n tag => rfl
  | mkdir i p n => rfl
  | write i tag => exact ⟨setKind_id i _, fun o h => setKind_ne h⟩
  | delete i => rfl
  | move i p n => exact ⟨setPlace_id i p n, fun o h => setPlace_ne h⟩

/-! ### commutation -/

theorem ins_ins_comm (a b : Obj) (h : a.id ≠ b.id) (t : OTree) : ins a (ins b t) = ins b (ins a t) := by
  induction t with
  | nil =>
    simp only [ins]
    by_cases h1 : a.id ≤ b.id
    · have h2 : ¬ b.id ≤ a.id := by omega
      simp [h1, h2, ins]
    · have h2 : b.id ≤ a.id := by omega
      simp [h1, h2, ins]
  | cons x xs ih =>
    by_cases ha : a.id ≤ x.id <;> by_cases hb : b.id ≤ x.id
    · by_cases h1 : a.id ≤ b.id
      · have h2 : ¬ b.id ≤ a.id := by omega
        simp [ins, ha, hb, h1, h2]
      · have h2 : b.id ≤ a.id := by omega
        simp [ins, ha, hb, h1, h2]
    · have h1 : a.id ≤ b.id := by omega
      have h2 : ¬ b.id ≤ a.id := by omega
      simp [ins, ha, hb, h1, h2]
    · have h1 : ¬ a.id ≤ b.id := by omega
      have h2 : b.id ≤ a.id := by omega
      simp [ins, ha, hb, h1, h2]
    · simp [ins, ha, hb, ih]

theorem map_ins (f : Obj → Obj) (hf : ∀ o, (f o).id = o.id) (o : Obj) (t : OTree) :
    (ins o t).map f = ins (f o) (t.map f) := by
  induction t with
  | nil => rfl
  | cons x xs ih =>
    simp only [ins, List.map_cons, hf]
    by_cases h : o.id ≤ x.id
    · simp [h]
    · simp [h, ih]

theorem filter_ins {t : OTree} (hs : Sorted t) (p : Obj → Bool) (o : Obj) (hp : p o = true) :
    (ins o t).filter p = ins o (t.filter p) := by
  induction t with
  | nil => simp [ins, hp]
  | cons x xs ih =>
    simp only [ins]
    by_cases h : o.id ≤ x.id
    · simp only [h, if_true]
      rw [List.filter_cons_of_pos hp]
      symm
      apply ins_of_le_all
      intro y hy
      have hy' := (List.mem_filter.mp hy).1
      rcases List.mem_cons.mp hy' with rfl | hy'
      · exact h
      · have := hs.head_lt y hy'
        omega
    · simp only [h, if_false]
      by_cases hx : p x = true
      · rw [List.filter_cons_of_pos hx, List.filter_cons_of_pos hx, ih hs.tail]
        simp [ins, h]
      · rw [List.filter_cons_of_neg hx, List.filter_cons_of_neg hx, ih hs.tail]

theorem Shape.run_comm {t : OTree} (hs : Sorted t) {s1 s2 : Shape} {i j : Nat} (h1 : s1.About i) (h2 : s2.About j)
    (hij : i ≠ j) : s2.run (s1.run t) = s1.run (s2.run t) := by
  cases s1 with
  | add a =>
    cases s2 with
    | add b =>
      simp only [Shape.About] at h1 h2
      exact (ins_ins_comm a b (by omega) t).symm
    | upd g =>
      obtain ⟨hg1, hg2⟩ := h2
      simp only [Shape.About] at h1
      simp only [Shape.run]
      rw [map_ins g hg1, hg2 a (by omega)]
    | del k =>
      simp only [Shape.About] at h1 h2
      simp only [Shape.run]
      exact filter_ins hs _ a (by simp; omega)
  | upd f =>
    obtain ⟨hf1, hf2⟩ := h1
    cases s2 with
    | add b =>
      simp only [Shape.About] at h2
      simp only [Shape.run]
      rw [map_ins f hf1, hf2 b (by omega)]
    | upd g =>
      obtain ⟨hg1, hg2⟩ := h2
      simp only [Shape.run, List.map_map]
      apply List.map_congr_left
      intro o _
      simp only [Function.comp]
      by_cases hi : o.id = i
      · have hj : o.id ≠ j := by omega
        rw [hg2 o hj, hg2 (f o) (by rw [hf1]; exact hj)]
      · rw [hf2 o hi, hf2 (g o) (by rw [hg1]; exact hi)]
    | del k =>
      simp only [Shape.run]
      rw [List.filter_map]
      congr 1
      apply List.filter_congr
      intro o _
      simp [Function.comp, hf1]
  | del k =>
    simp only [Shape.About] at h1
    cases s2 with
    | add b =>
      simp only [Shape.About] at h2
      simp only [Shape.run]
      exact (filter_ins hs _ b (by simp; omega)).symm
    | upd g =>
      obtain ⟨hg1, hg2⟩ := h2
      simp only [Shape.run]
      rw [List.filter_map]
      congr 1
      apply List.filter_congr
      intro o _
      simp [Function.comp, hg1]
    | del l =>
      simp only [Shape.run, List.filter_filter]
      apply List.filter_congr
      intro o _
      exact Bool.and_comm _ _

/-- operations on different objects commute — literally the same tree -/
theorem applyOp_comm {t : OTree} (hs : Sorted t) (a b : OOp) (h : a.target ≠ b.target) :
    applyOp (applyOp t a) b = applyOp (applyOp t b) a := by
  simp only [applyOp_shape]
  exact Shape.run_comm hs a.shape_about b.shape_about h

/-! ### look-ups after an operation on another object -/

theorem get_applyOp_ne (t : OTree) (a : OOp) {j : Nat} (h : a.target ≠ j) : (applyOp t a).get j = t.get j := by
  cases a with
  | create i p n tag =>
    simp only [OOp.target] at h
    simp only [applyOp, get_ins, if_neg h]
  | mkdir i p n =>
    simp only [OOp.target] at h
    simp only [applyOp, get_ins, if_neg h]
  | write i tag =>
    simp only [OOp.target] at h
    simp only [applyOp]
    rw [get_map _ (setKind_id i _)]
    cases hg : t.get j with
    | none => rfl
    | some o =>
      have := (get_some hg).2
      simp only [Option.map_some]
      rw [setKind_ne (by omega)]
  | delete i =>
    simp only [OOp.target] at h
    simp only [applyOp, get_filter_ne]
    rw [if_neg (by omega)]
  | move i p n =>
    simp only [OOp.target] at h
    simp only [applyOp]
    rw [get_map _ (setPlace_id i p n)]
    cases hg : t.get j with
    | none => rfl
    | some o =>
      have := (get_some hg).2
      simp only [Option.map_some]
      rw [setPlace_ne (by omega)]

theorem has_applyOp_ne (t : OTree) (a : OOp) {j : Nat} (h : a.target ≠ j) : (applyOp t a).has j = t.has j := by
  rw [has_eq_isSome, has_eq_isSome, get_applyOp_ne t a h]

theorem isFile_applyOp_ne (t : OTree) (a : OOp) {j : Nat} (h : a.target ≠ j) : isFile (applyOp t a) j = isFile t j := by
  simp only [isFile, get_applyOp_ne t a h]

theorem parentOk_some {t : OTree} {p : Nat} : parentOk t (some p) = true ↔ ∃ o, t.get p = some o ∧ o.kind = .dir := by
  simp only [parentOk]
  cases h : t.get p with
  | none => simp
  | some o => simp

/-- the destination folder of `b` is still there after `a`, unless `a` deletes it -/
theorem parentOk_after {t : OTree} {a : OOp} {q : Option Nat} (hva : valid t a = true) (hq : parentOk t q = true)
    (hno : ∀ i, a = .delete i → q ≠ some i) : parentOk (applyOp t a) q = true := by
  cases q with
  | none => rfl
  | some p =>
    by_cases hp : a.target = p
    · obtain ⟨o, ho, hk⟩ := parentOk_some.mp hq
      have hhas : t.has p = true := by rw [has_eq_isSome, ho]; rfl
      cases a with
      | create i q n tag =>
        simp only [OOp.target] at hp
        simp only [valid, Bool.and_eq_true, Bool.not_eq_true'] at hva
        rw [hp, hhas] at hva
        exact absurd hva.1.1 (by simp)
      | mkdir i q n =>
        simp only [OOp.target] at hp
        simp only [valid, Bool.and_eq_true, Bool.not_eq_true'] at hva
        rw [hp, hhas] at hva
        exact absurd hva.1.1 (by simp)
      | write i tag =>
        simp only [OOp.target] at hp
        simp only [valid, isFile, hp, ho, hk] at hva
        exact absurd hva (by simp)
      | delete i =>
        simp only [OOp.target] at hp
        exact absurd (by rw [hp]) (hno i rfl)
      | move i q n =>
        simp only [OOp.target] at hp
        apply parentOk_some.mpr
        refine ⟨setPlace i q n o, ?_, ?_⟩
        · simp only [applyOp]
          rw [get_map _ (setPlace_id i q n), ho]
          rfl
        · unfold setPlace
          split <;> exact hk
    · simp only [parentOk, get_applyOp_ne t a hp]
      exact hq

theorem slotFree_iff {t : OTree} {j : Nat} {q : Option Nat} {m : String} :
    slotFree t j q m = true ↔ ∀ o ∈ t, o.id = j ∨ ¬ (o.parent = q ∧ o.name = m) := by
  simp only [slotFree, List.all_eq_true, Bool.or_eq_true, beq_iff_eq, Bool.not_eq_true', Bool.and_eq_false_iff]
  constructor
  · intro h o ho
    rcases h o ho with h1 | h1 | h1
    · exact Or.inl h1
    · exact Or.inr (fun hh => by simp [hh.1] at h1)
    · exact Or.inr (fun hh => by simp [hh.2] at h1)
  · intro h o ho
    rcases h o ho with h1 | h1
    · exact Or.inl h1
    · by_cases hp : o.parent = q
      · right; right
        simp only [beq_eq_false_iff_ne]
        exact fun hn => h1 ⟨hp, hn⟩
      · right; left
        simp only [beq_eq_false_iff_ne]
        exact hp

/-- the slot `b` wants is still free after `a`, unless `a` fills it -/
theorem slotFree_after {t : OTree} {a : OOp} {j : Nat} {q : Option Nat} {m : String} (hf : slotFree t j q m = true)
    (hd : a.dest ≠ some (q, m)) : slotFree (applyOp t a) j q m = true := by
  rw [slotFree_iff] at hf ⊢
  cases a with
  | create i p n tag =>
    intro o ho
    simp only [applyOp] at ho
    rcases mem_ins.mp ho with rfl | ho
    · right
      simp only [OOp.dest] at hd
      rintro ⟨h1, h2⟩
      exact hd (by simp at h1 h2; rw [h1, h2])
    · exact hf o ho
  | mkdir i p n =>
    intro o ho
    simp only [applyOp] at ho
    rcases mem_ins.mp ho with rfl | ho
    · right
      simp only [OOp.dest] at hd
      rintro ⟨h1, h2⟩
      exact hd (by simp at h1 h2; rw [h1, h2])
    · exact hf o ho
  | write i tag =>
    intro o ho
    simp only [applyOp, List.mem_map] at ho
    obtain ⟨o', ho', rfl⟩ := ho
    have := hf o' ho'
    unfold setKind
    split
    · exact this
    · exact this
  | delete i =>
    intro o ho
    simp only [applyOp] at ho
    exact hf o (List.mem_filter.mp ho).1
  | move i p n =>
    intro o ho
    simp only [applyOp, List.mem_map] at ho
    obtain ⟨o', ho', rfl⟩ := ho
    have := hf o' ho'
    unfold setPlace
    split
    · rcases this with h1 | h1
      · exact Or.inl h1
      · right
        simp only [OOp.dest] at hd
        rintro ⟨h1, h2⟩
        exact hd (by simp at h1 h2; rw [h1, h2])
    · exact this

theorem noKids_iff {t : OTree} {j : Nat} : noKids t j = true ↔ ∀ o ∈ t, o.parent ≠ some j := by
  simp [noKids, List.all_eq_true]

/-- the folder `b` deletes is still empty after `a`, unless `a` puts its object there -/
theorem noKids_after {t : OTree} {a : OOp} {j : Nat} (hk : noKids t j = true)
    (hd : ∀ n, a.dest ≠ some (some j, n)) : noKids (applyOp t a) j = true := by
  rw [noKids_iff] at hk ⊢
  cases a with
  | create i p n tag =>
    intro o ho
    simp only [applyOp] at ho
    rcases mem_ins.mp ho with rfl | ho
    · intro h; exact hd n (by simp only [OOp.dest]; simp at h; rw [h])
    · exact hk o ho
  | mkdir i p n =>
    intro o ho
    simp only [applyOp] at ho
    rcases mem_ins.mp ho with rfl | ho
    · intro h; exact hd n (by simp only [OOp.dest]; simp at h; rw [h])
    · exact hk o ho
  | write i tag =>
    intro o ho
    simp only [applyOp, List.mem_map] at ho
    obtain ⟨o', ho', rfl⟩ := ho
    have := hk o' ho'
    unfold setKind
    split <;> exact this
  | delete i =>
    intro o ho
    simp only [applyOp] at ho
    exact hk o (List.mem_filter.mp ho).1
  | move i p n =>
    intro o ho
    simp only [applyOp, List.mem_map] at ho
    obtain ⟨o', ho', rfl⟩ := ho
    have := hk o' ho'
    unfold setPlace
    split
    · intro h; exact hd n (by simp only [OOp.dest]; simp at h; rw [h])
    · exact this

/-! ### `Compatible` is exactly "both orders are valid" -/

theorem clash_false_iff {a b : OOp} : clash a b = false ↔ ∀ q m, b.dest = some (q, m) → a.dest ≠ some (q, m) := by
  unfold clash
  cases ha : a.dest with
  | none => simp
  | some x =>
    obtain ⟨p, n⟩ := x
    cases hb : b.dest with
    | none => simp
    | some y =>
      obtain ⟨q, m⟩ := y
      simp only [ne_eq, Bool.and_eq_false_iff, beq_eq_false_iff_ne, Option.some.injEq, Prod.mk.injEq]
      constructor
      · intro h q' m' hqm hpn
        obtain ⟨rfl, rfl⟩ := hqm
        obtain ⟨rfl, rfl⟩ := hpn
        rcases h with h | h <;> exact h rfl
      · intro h
        by_cases hp : p = q
        · right
          intro hn
          exact h q m ⟨rfl, rfl⟩ ⟨hp, hn⟩
        · exact Or.inl hp

theorem orphans_false_iff {a b : OOp} : orphans a b = false ↔ ∀ i, a = .delete i → ∀ n, b.dest ≠ some (some i, n) := by
  unfold orphans
  cases a with
  | delete i =>
    cases hb : b.dest with
    | none => simp
    | some y =>
      obtain ⟨q, m⟩ := y
      cases q with
      | none => simp
      | some p =>
        simp only [ne_eq, beq_eq_false_iff_ne, OOp.delete.injEq, Option.some.injEq, Prod.mk.injEq, forall_eq']
        constructor
        · intro h n hh; exact h hh.1.symm
        · intro h hh; exact h m ⟨hh.symm, rfl⟩
  | create _ _ _ _ => simp
  | write _ _ => simp
  | mkdir _ _ _ => simp
  | move _ _ _ => simp

/-- if `a` and `b` are about different objects, both valid in `t`, and `Compatible`, then `b` is still valid after `a` -/
theorem compatible_valid_after {t : OTree} {a b : OOp} (hva : valid t a = true) (hvb : valid t b = true)
    (hne : a.target ≠ b.target) (hcl : clash a b = false) (hoab : orphans a b = false) (hoba : orphans b a = false)
    (hcy : cycleAfter t a b = false) : valid (applyOp t a) b = true := by
  rw [clash_false_iff] at hcl
  rw [orphans_false_iff] at hoab hoba
  cases b with
  | create j q m tag =>
    simp only [OOp.target] at hne
    simp only [valid, Bool.and_eq_true, Bool.not_eq_true'] at hvb ⊢
    refine ⟨⟨?_, ?_⟩, ?_⟩
    · rw [has_applyOp_ne t a hne]; exact hvb.1.1
    · exact parentOk_after hva hvb.1.2 (fun i hi hq => hoab i hi m (by rw [hq]; rfl))
    · exact slotFree_after hvb.2 (hcl q m rfl)
  | mkdir j q m =>
    simp only [OOp.target] at hne
    simp only [valid, Bool.and_eq_true, Bool.not_eq_true'] at hvb ⊢
    refine ⟨⟨?_, ?_⟩, ?_⟩
    · rw [has_applyOp_ne t a hne]; exact hvb.1.1
    · exact parentOk_after hva hvb.1.2 (fun i hi hq => hoab i hi m (by rw [hq]; rfl))
    · exact slotFree_after hvb.2 (hcl q m rfl)
  | write j tag =>
    simp only [OOp.target] at hne
    simp only [valid] at hvb ⊢
    rw [isFile_applyOp_ne t a hne]; exact hvb
  | delete j =>
    simp only [OOp.target] at hne
    simp only [valid, Bool.and_eq_true] at hvb ⊢
    refine ⟨?_, ?_⟩
    · rw [has_applyOp_ne t a hne]; exact hvb.1
    · exact noKids_after hvb.2 (fun n => hoba j rfl n)
  | move j q m =>
    simp only [OOp.target] at hne
    simp only [valid, Bool.and_eq_true, Bool.not_eq_true'] at hvb ⊢
    refine ⟨⟨⟨?_, ?_⟩, ?_⟩, ?_⟩
    · rw [has_applyOp_ne t a hne]; exact hvb.1.1.1
    · exact parentOk_after hva hvb.1.1.2 (fun i hi hq => hoab i hi m (by rw [hq]; rfl))
    · exact slotFree_after hvb.1.2 (hcl q m rfl)
    · simpa [cycleAfter] using hcy

/-- a valid operation with a destination leaves its object in that slot -/
theorem exists_at_dest {t : OTree} {a : OOp} (hva : valid t a = true) {p : Option Nat} {n : String} (hd : a.dest = some (p, n)) :
    ∃ o ∈ applyOp t a, o.id = a.target ∧ o.parent = p ∧ o.name = n := by
  cases a with
  | create i p' n' tag =>
    simp only [OOp.dest, Option.some.injEq, Prod.mk.injEq] at hd
    obtain ⟨rfl, rfl⟩ := hd
    exact ⟨_, mem_ins.mpr (Or.inl rfl), rfl, rfl, rfl⟩
  | mkdir i p' n' =>
    simp only [OOp.dest, Option.some.injEq, Prod.mk.injEq] at hd
    obtain ⟨rfl, rfl⟩ := hd
    exact ⟨_, mem_ins.mpr (Or.inl rfl), rfl, rfl, rfl⟩
  | write i tag => simp [OOp.dest] at hd
  | delete i => simp [OOp.dest] at hd
  | move i p' n' =>
    simp only [OOp.dest, Option.some.injEq, Prod.mk.injEq] at hd
    obtain ⟨rfl, rfl⟩ := hd
    simp only [valid, Bool.and_eq_true] at hva
    obtain ⟨o, ho, hid⟩ := has_iff.mp hva.1.1.1
    refine ⟨setPlace i p' n' o, List.mem_map.mpr ⟨o, ho, rfl⟩, ?_, ?_, ?_⟩
    · rw [setPlace_id]; exact hid
    · unfold setPlace; rw [if_pos hid]
    · unfold setPlace; rw [if_pos hid]

/-- an operation with a destination is valid only if its slot is free of other objects -/
theorem valid_dest_slotFree {t : OTree} {b : OOp} (hvb : valid t b = true) {q : Option Nat} {m : String} (hd : b.dest = some (q, m)) :
    slotFree t b.target q m = true ∧ parentOk t q = true := by
  cases b with
  | create j q' m' tag =>
    simp only [OOp.dest, Option.some.injEq, Prod.mk.injEq] at hd
    obtain ⟨rfl, rfl⟩ := hd
    simp only [valid, Bool.and_eq_true] at hvb
    exact ⟨hvb.2, hvb.1.2⟩
  | mkdir j q' m' =>
    simp only [OOp.dest, Option.some.injEq, Prod.mk.injEq] at hd
    obtain ⟨rfl, rfl⟩ := hd
    simp only [valid, Bool.and_eq_true] at hvb
    exact ⟨hvb.2, hvb.1.2⟩
  | write j tag => simp [OOp.dest] at hd
  | delete j => simp [OOp.dest] at hd
  | move j q' m' =>
    simp only [OOp.dest, Option.some.injEq, Prod.mk.injEq] at hd
    obtain ⟨rfl, rfl⟩ := hd
    simp only [valid, Bool.and_eq_true] at hvb
    exact ⟨hvb.1.2, hvb.1.1.2⟩

/-- conversely: if `b` is valid after `a` then none of the three conflicts of `a` against `b` is present -/
theorem valid_after_no_conflict {t : OTree} {a b : OOp} (hva : valid t a = true) (hne : a.target ≠ b.target)
    (hvab : valid (applyOp t a) b = true) :
    clash a b = false ∧ orphans a b = false ∧ cycleAfter t a b = false := by
  refine ⟨?_, ?_, ?_⟩
  · rw [clash_false_iff]
    intro q m hb ha
    obtain ⟨o, ho, hid, hp, hn⟩ := exists_at_dest hva ha
    have := (slotFree_iff.mp (valid_dest_slotFree hvab hb).1) o ho
    rcases this with h | h
    · exact hne (hid ▸ h)
    · exact h ⟨hp, hn⟩
  · rw [orphans_false_iff]
    intro i hi n hb
    subst hi
    have := (valid_dest_slotFree hvab hb).2
    simp only [parentOk, applyOp, get_filter_ne, if_true] at this
    exact absurd this (by simp)
  · cases b with
    | move j q m =>
      simp only [valid, Bool.and_eq_true, Bool.not_eq_true'] at hvab
      simpa [cycleAfter] using hvab.2
    | create _ _ _ _ => rfl
    | write _ _ => rfl
    | mkdir _ _ _ => rfl
    | delete _ => rfl

theorem clash_comm (a b : OOp) : clash a b = clash b a := by
  unfold clash
  cases a.dest with
  | none => cases b.dest <;> rfl
  | some x =>
    cases b.dest with
    | none => rfl
    | some y =>
      obtain ⟨p, n⟩ := x
      obtain ⟨q, m⟩ := y
      rw [Bool.eq_iff_iff]
      simp only [Bool.and_eq_true, beq_iff_eq]
      exact ⟨fun h => ⟨h.1.symm, h.2.symm⟩, fun h => ⟨h.1.symm, h.2.symm⟩⟩

theorem Compatible_comm (t : OTree) (a b : OOp) : Compatible t a b = Compatible t b a := by
  simp only [Compatible, clash_comm a b]
  cases clash b a <;> cases orphans a b <;> cases orphans b a <;> cases cycleAfter t a b <;> cases cycleAfter t b a <;> rfl

/-! ### sequences -/

theorem Sorted.applyOp {t : OTree} (hs : Sorted t) {a : OOp} (hv : valid t a = true) : Sorted (applyOp t a) := by
  cases a with
  | create i p n tag =>
    simp only [valid, Bool.and_eq_true, Bool.not_eq_true'] at hv
    exact hs.ins _ hv.1.1
  | mkdir i p n =>
    simp only [valid, Bool.and_eq_true, Bool.not_eq_true'] at hv
    exact hs.ins _ hv.1.1
  | write i tag => exact hs.map _ (setKind_id i _)
  | delete i => exact hs.filter _
  | move i p n => exact hs.map _ (setPlace_id i p n)

theorem applyOps_nil (t : OTree) : applyOps t [] = t := rfl
theorem applyOps_cons (t : OTree) (a : OOp) (as : List OOp) : applyOps t (a :: as) = applyOps (applyOp t a) as := rfl
theorem applyOps_append (t : OTree) (as bs : List OOp) : applyOps t (as ++ bs) = applyOps (applyOps t as) bs := by
  simp [applyOps, List.foldl_append]

theorem validSeq_cons (t : OTree) (a : OOp) (as : List OOp) :
    validSeq t (a :: as) = true ↔ valid t a = true ∧ validSeq (applyOp t a) as = true := by
  simp [validSeq]

theorem validSeq_append (t : OTree) (as bs : List OOp) :
    validSeq t (as ++ bs) = true ↔ validSeq t as = true ∧ validSeq (applyOps t as) bs = true := by
  induction as generalizing t with
  | nil => simp [validSeq, applyOps_nil]
  | cons a as ih =>
    rw [List.cons_append, validSeq_cons, validSeq_cons, applyOps_cons, ih]
    exact and_assoc.symm

theorem Sorted.applyOps {t : OTree} (hs : Sorted t) {as : List OOp} (hv : validSeq t as = true) : Sorted (applyOps t as) := by
  induction as generalizing t with
  | nil => exact hs
  | cons a as ih =>
    rw [validSeq_cons] at hv
    exact ih (hs.applyOp hv.1) hv.2

/-- one operation moves past a valid sequence of operations on other objects -/
theorem applyOps_comm_one {t : OTree} (hs : Sorted t) (b : OOp) {as : List OOp} (hv : validSeq t as = true)
    (hd : ∀ a ∈ as, a.target ≠ b.target) : applyOps (applyOp t b) as = applyOp (applyOps t as) b := by
  induction as generalizing t with
  | nil => rfl
  | cons a as ih =>
    rw [validSeq_cons] at hv
    rw [applyOps_cons, applyOps_cons, ← applyOp_comm hs a b (hd a List.mem_cons_self)]
    exact ih (hs.applyOp hv.1) hv.2 (fun x hx => hd x (List.mem_cons_of_mem _ hx))

/-- `m` is an interleaving of `as` and `bs` (each keeps its own order) -/
inductive Interleaving : List OOp → List OOp → List OOp → Prop where
  | nil : Interleaving [] [] []
  | left (a : OOp) {as bs m : List OOp} : Interleaving as bs m → Interleaving (a :: as) bs (a :: m)
  | right (b : OOp) {as bs m : List OOp} : Interleaving as bs m → Interleaving as (b :: bs) (b :: m)

theorem Interleaving.nil_left (bs : List OOp) : Interleaving [] bs bs := by
  induction bs with
  | nil => exact .nil
  | cons b bs ih => exact .right b ih

theorem Interleaving.nil_right (as : List OOp) : Interleaving as [] as := by
  induction as with
  | nil => exact .nil
  | cons a as ih => exact .left a ih

theorem Interleaving.append (as bs : List OOp) : Interleaving as bs (as ++ bs) := by
  induction as with
  | nil => exact Interleaving.nil_left bs
  | cons a as ih => exact .left a ih

theorem Interleaving.append' (as bs : List OOp) : Interleaving as bs (bs ++ as) := by
  induction bs with
  | nil => simpa using Interleaving.nil_right as
  | cons b bs ih => exact .right b ih

theorem Interleaving.symm {as bs m : List OOp} (h : Interleaving as bs m) : Interleaving bs as m := by
  induction h with
  | nil => exact .nil
  | left a _ ih => exact .right a ih
  | right b _ ih => exact .left b ih

theorem Interleaving.eq_of_nil_left {bs m : List OOp} (h : Interleaving [] bs m) : m = bs := by
  generalize hn : ([] : List OOp) = as at h
  induction h with
  | nil => rfl
  | left a _ _ => cases hn
  | right b _ ih => rw [ih hn]

/-- every interleaving is a valid history -/
def AllValid (t : OTree) (as bs : List OOp) : Prop := ∀ m, Interleaving as bs m → validSeq t m = true

theorem AllValid.left {t : OTree} {a : OOp} {as bs : List OOp} (h : AllValid t (a :: as) bs) :
    valid t a = true ∧ AllValid (applyOp t a) as bs := by
  refine ⟨?_, ?_⟩
  · exact ((validSeq_cons _ _ _).mp (h _ (.left a (Interleaving.append as bs)))).1
  · intro m hm
    exact ((validSeq_cons _ _ _).mp (h _ (.left a hm))).2

theorem AllValid.symm {t : OTree} {as bs : List OOp} (h : AllValid t as bs) : AllValid t bs as :=
  fun m hm => h m hm.symm

theorem AllValid.right {t : OTree} {b : OOp} {as bs : List OOp} (h : AllValid t as (b :: bs)) :
    valid t b = true ∧ AllValid (applyOp t b) as bs := by
  have := h.symm.left
  exact ⟨this.1, this.2.symm⟩

theorem AllValid.seq_left {t : OTree} {as bs : List OOp} (h : AllValid t as bs) : validSeq t as = true :=
  ((validSeq_append _ _ _).mp (h _ (Interleaving.append as bs))).1

/-- the decidable form is sound and complete -/
theorem allValidF_iff (f : Nat) (t : OTree) (as bs : List OOp) (hf : as.length + bs.length ≤ f) :
    allValidF f t as bs = true ↔ AllValid t as bs := by
  induction f generalizing t as bs with
  | zero =>
    have ha : as = [] := List.eq_nil_of_length_eq_zero (by omega)
    have hb : bs = [] := List.eq_nil_of_length_eq_zero (by omega)
    subst ha; subst hb
    simp only [allValidF, validSeq]
    exact ⟨fun _ m hm => by rw [hm.eq_of_nil_left]; rfl, fun _ => trivial⟩
  | succ f ih =>
    cases as with
    | nil =>
      simp only [allValidF]
      exact ⟨fun h m hm => by rw [hm.eq_of_nil_left]; exact h, fun h => h _ (Interleaving.nil_left bs)⟩
    | cons a as =>
      cases bs with
      | nil =>
        simp only [allValidF]
        exact ⟨fun h m hm => by rw [hm.symm.eq_of_nil_left]; exact h, fun h => h _ (Interleaving.nil_right _)⟩
      | cons b bs =>
        simp only [allValidF, Bool.and_eq_true]
        simp only [List.length_cons] at hf
        rw [ih _ as (b :: bs) (by simp only [List.length_cons]; omega), ih _ (a :: as) bs (by simp only [List.length_cons]; omega)]
        constructor
        · rintro ⟨⟨⟨hva, hvb⟩, hl⟩, hr⟩ m hm
          cases hm with
          | left _ hm' => exact (validSeq_cons _ _ _).mpr ⟨hva, hl _ hm'⟩
          | right _ hm' => exact (validSeq_cons _ _ _).mpr ⟨hvb, hr _ hm'⟩
        · intro h
          exact ⟨⟨⟨h.left.1, h.right.1⟩, h.left.2⟩, h.right.2⟩

theorem disjointSeqs_iff {as bs : List OOp} : disjointSeqs as bs = true ↔ ∀ a ∈ as, ∀ b ∈ bs, a.target ≠ b.target := by
  simp [disjointSeqs, disjointOp, List.all_eq_true]

/-- whatever the real-time interleaving of the two sides' operations was, the resulting object tree is the merged tree -/
theorem applyOps_interleaving {t : OTree} (hs : Sorted t) {as bs m : List OOp}
    (hd : ∀ a ∈ as, ∀ b ∈ bs, a.target ≠ b.target) (hv : AllValid t as bs) (hm : Interleaving as bs m) :
    applyOps t m = objMerge t as bs := by
  induction hm generalizing t with
  | nil => rfl
  | left a _ ih =>
    have h := hv.left
    rw [applyOps_cons]
    exact ih (hs.applyOp h.1) (fun x hx y hy => hd x (List.mem_cons_of_mem _ hx) y hy) h.2
  | @right b as bs m _ ih =>
    have h := hv.right
    rw [applyOps_cons, ih (hs.applyOp h.1) (fun x hx y hy => hd x hx y (List.mem_cons_of_mem _ hy)) h.2]
    simp only [objMerge]
    rw [applyOps_comm_one hs b hv.seq_left (fun x hx => hd x hx b List.mem_cons_self), applyOps_cons]

/-! ### derived paths: inversion, fuel independence, completeness of `pathOf` -/

theorem pathFuel_zero (t : OTree) (i : Nat) : pathFuel t 0 i = none := rfl

theorem pathFuel_succ_iff {t : OTree} {f i : Nat} {p : RPath} :
    pathFuel t (f + 1) i = some p ↔
      ∃ o, t.get i = some o ∧
        ((o.parent = none ∧ p = [o.name]) ∨
         (∃ q pp, o.parent = some q ∧ pathFuel t f q = some pp ∧ p = pp ++ [o.name])) := by
  simp only [pathFuel]
  cases hg : t.get i with
  | none => simp
  | some o =>
    cases hp : o.parent with
    | none =>
      simp only [hp, Option.some.injEq]
      constructor
      · intro h; exact ⟨o, rfl, Or.inl ⟨hp, h.symm⟩⟩
      · rintro ⟨o', ho', h⟩
        cases ho'
        rcases h with ⟨_, h⟩ | ⟨q, pp, hq, _, _⟩
        · exact h.symm
        · rw [hp] at hq; cases hq
    | some q =>
      simp only [hp, Option.map_eq_some_iff]
      constructor
      · rintro ⟨pp, hpp, h⟩
        exact ⟨o, rfl, Or.inr ⟨q, pp, hp, hpp, h.symm⟩⟩
      · rintro ⟨o', ho', h⟩
        cases ho'
        rcases h with ⟨h, _⟩ | ⟨q', pp, hq, hpp, h⟩
        · rw [hp] at h; cases h
        · rw [hp] at hq; cases hq
          exact ⟨pp, hpp, h.symm⟩

theorem pathFuel_mono {t : OTree} {f i : Nat} {p : RPath} (h : pathFuel t f i = some p) :
    pathFuel t (f + 1) i = some p := by
  induction f generalizing i p with
  | zero => simp [pathFuel_zero] at h
  | succ f ih =>
    rw [pathFuel_succ_iff] at h ⊢
    obtain ⟨o, ho, h⟩ := h
    refine ⟨o, ho, ?_⟩
    rcases h with h | ⟨q, pp, hq, hpp, hp⟩
    · exact Or.inl h
    · exact Or.inr ⟨q, pp, hq, ih hpp, hp⟩

theorem pathFuel_mono_le {t : OTree} {f f' i : Nat} {p : RPath} (h : pathFuel t f i = some p) (hle : f ≤ f') :
    pathFuel t f' i = some p := by
  induction hle with
  | refl => exact h
  | step _ ih => exact pathFuel_mono ih

theorem pathFuel_unique {t : OTree} {f f' i : Nat} {p p' : RPath} (h : pathFuel t f i = some p)
    (h' : pathFuel t f' i = some p') : p = p' := by
  have h1 := pathFuel_mono_le h (Nat.le_max_left f f')
  have h2 := pathFuel_mono_le h' (Nat.le_max_right f f')
  rw [h1] at h2
  exact Option.some.inj h2

theorem pathFuel_length {t : OTree} {f i : Nat} {p : RPath} (h : pathFuel t f i = some p) :
    1 ≤ p.length ∧ p.length ≤ f := by
  induction f generalizing i p with
  | zero => simp [pathFuel_zero] at h
  | succ f ih =>
    rw [pathFuel_succ_iff] at h
    obtain ⟨o, ho, h⟩ := h
    rcases h with ⟨_, rfl⟩ | ⟨q, pp, hq, hpp, rfl⟩
    · simp
    · have := ih hpp
      simp only [List.length_append, List.length_cons, List.length_nil]
      omega

/-- exactly as much fuel as the path is long suffices -/
theorem pathFuel_exact {t : OTree} {f i : Nat} {p : RPath} (h : pathFuel t f i = some p) :
    pathFuel t p.length i = some p := by
  induction f generalizing i p with
  | zero => simp [pathFuel_zero] at h
  | succ f ih =>
    rw [pathFuel_succ_iff] at h
    obtain ⟨o, ho, h⟩ := h
    rcases h with ⟨hp, rfl⟩ | ⟨q, pp, hq, hpp, rfl⟩
    · show pathFuel t (0 + 1) i = _
      rw [pathFuel_succ_iff]
      exact ⟨o, ho, Or.inl ⟨hp, rfl⟩⟩
    · have hl : (pp ++ [o.name]).length = pp.length + 1 := by simp
      rw [hl, pathFuel_succ_iff]
      exact ⟨o, ho, Or.inr ⟨q, pp, hq, ih hpp, rfl⟩⟩

/-- the objects along the parent chain of an object with a path are pairwise distinct -/
theorem path_chain {t : OTree} {f i : Nat} {p : RPath} (h : pathFuel t f i = some p) :
    ∃ ids : List Nat, ids.length = p.length ∧ ids.Nodup ∧ (∀ j ∈ ids, j ∈ t.map (·.id)) ∧
      (∀ j ∈ ids, ∃ f' q, pathFuel t f' j = some q ∧ q.length ≤ p.length) := by
  induction f generalizing i p with
  | zero => simp [pathFuel_zero] at h
  | succ f ih =>
    have h0 := h
    rw [pathFuel_succ_iff] at h
    obtain ⟨o, ho, h⟩ := h
    have hmem : i ∈ t.map (·.id) := List.mem_map.mpr ⟨o, (get_some ho).1, (get_some ho).2⟩
    rcases h with ⟨hp, rfl⟩ | ⟨q, pp, hq, hpp, rfl⟩
    · refine ⟨[i], rfl, by simp, ?_, ?_⟩
      · intro j hj; simp only [List.mem_singleton] at hj; subst hj; exact hmem
      · intro j hj; simp only [List.mem_singleton] at hj; subst hj
        exact ⟨f + 1, _, h0, Nat.le_refl _⟩
    · obtain ⟨ids, hlen, hnd, hin, hpath⟩ := ih hpp
      refine ⟨i :: ids, by simp only [List.length_cons, List.length_append, List.length_nil, hlen], ?_, ?_, ?_⟩
      · rw [List.nodup_cons]
        refine ⟨?_, hnd⟩
        intro hi
        obtain ⟨f', q', hq', hl⟩ := hpath i hi
        have := pathFuel_unique h0 hq'
        rw [← this] at hl
        simp only [List.length_append, List.length_cons, List.length_nil] at hl
        omega
      · intro j hj
        rcases List.mem_cons.mp hj with rfl | hj
        · exact hmem
        · exact hin j hj
      · intro j hj
        rcases List.mem_cons.mp hj with rfl | hj
        · exact ⟨f + 1, _, h0, Nat.le_refl _⟩
        · obtain ⟨f', q', hq', hl⟩ := hpath j hj
          exact ⟨f', q', hq', by simp only [List.length_append, List.length_cons, List.length_nil]; omega⟩

/-- a path is never longer than the tree has objects -/
theorem path_length_le {t : OTree} {f i : Nat} {p : RPath} (h : pathFuel t f i = some p) : p.length ≤ t.length := by
  obtain ⟨ids, hlen, hnd, hin, _⟩ := path_chain h
  have := List.Nodup.length_le_of_subset hnd (fun j hj => hin j hj)
  rw [List.length_map] at this
  omega

/-- `pathOf` (fuel = number of objects) finds the path whenever any amount of fuel does -/
theorem pathOf_complete {t : OTree} {f i : Nat} {p : RPath} (h : pathFuel t f i = some p) : pathOf t i = some p :=
  pathFuel_mono_le (pathFuel_exact h) (path_length_le h)

theorem pathOf_iff {t : OTree} {i : Nat} {p : RPath} : pathOf t i = some p ↔ ∃ f, pathFuel t f i = some p :=
  ⟨fun h => ⟨_, h⟩, fun ⟨_, h⟩ => pathOf_complete h⟩

/-- the defining equations of the derived path, free of fuel -/
theorem pathOf_root {t : OTree} {i : Nat} {o : Obj} (ho : t.get i = some o) (hp : o.parent = none) :
    pathOf t i = some [o.name] :=
  pathOf_complete (f := 1) (pathFuel_succ_iff.mpr ⟨o, ho, Or.inl ⟨hp, rfl⟩⟩)

theorem pathOf_child {t : OTree} {i q : Nat} {o : Obj} {pp : RPath} (ho : t.get i = some o) (hp : o.parent = some q)
    (hq : pathOf t q = some pp) : pathOf t i = some (pp ++ [o.name]) :=
  pathOf_complete (f := t.length + 1) (pathFuel_succ_iff.mpr ⟨o, ho, Or.inr ⟨q, pp, hp, hq, rfl⟩⟩)

theorem pathOf_inv {t : OTree} {i : Nat} {p : RPath} (h : pathOf t i = some p) :
    ∃ o, t.get i = some o ∧
      ((o.parent = none ∧ p = [o.name]) ∨ (∃ q pp, o.parent = some q ∧ pathOf t q = some pp ∧ p = pp ++ [o.name])) := by
  unfold pathOf at h
  cases hl : t.length with
  | zero => rw [hl] at h; simp [pathFuel_zero] at h
  | succ n =>
    rw [hl, pathFuel_succ_iff] at h
    obtain ⟨o, ho, h⟩ := h
    refine ⟨o, ho, ?_⟩
    rcases h with h | ⟨q, pp, hq, hpp, hp⟩
    · exact Or.inl h
    · exact Or.inr ⟨q, pp, hq, pathOf_complete hpp, hp⟩

theorem pathOf_ne_nil {t : OTree} {i : Nat} {p : RPath} (h : pathOf t i = some p) : p ≠ [] := by
  have := (pathFuel_length h).1
  intro hp; rw [hp] at this; simp at this

/-! ### well-formed object trees -/

/-- ids ascending (hence unique); sibling names unique; every parent an existing folder; every
    object has a derived path (the parent chains end at the root: no cycles, no dangling parents) -/
structure OTree.WF (t : OTree) : Prop where
  sorted : Sorted t
  sib : ∀ a ∈ t, ∀ b ∈ t, a.parent = b.parent → a.name = b.name → a.id = b.id
  par : ∀ a ∈ t, parentOk t a.parent = true
  rooted : ∀ a ∈ t, ∃ p, pathOf t a.id = some p

theorem wfB_iff (t : OTree) : wfB t = true ↔ t.WF := by
  simp only [wfB, Bool.and_eq_true, sortedB_iff, List.all_eq_true, Bool.or_eq_true, beq_iff_eq, Bool.not_eq_true',
    Bool.and_eq_false_iff, beq_eq_false_iff_ne, Option.isSome_iff_exists]
  constructor
  · rintro ⟨⟨⟨h1, h2⟩, h3⟩, h4⟩
    refine ⟨h1, ?_, h3, h4⟩
    intro a ha b hb hp hn
    rcases h2 a ha b hb with h | h | h
    · exact h
    · exact absurd hp h
    · exact absurd hn h
  · intro h
    refine ⟨⟨⟨h.sorted, ?_⟩, h.par⟩, h.rooted⟩
    intro a ha b hb
    by_cases hp : a.parent = b.parent
    · by_cases hn : a.name = b.name
      · exact Or.inl (h.sib a ha b hb hp hn)
      · exact Or.inr (Or.inr hn)
    · exact Or.inr (Or.inl hp)

/-- distinct objects have distinct derived paths -/
theorem pathFuel_inj {t : OTree} (hsib : ∀ a ∈ t, ∀ b ∈ t, a.parent = b.parent → a.name = b.name → a.id = b.id)
    {f f' i j : Nat} {p : RPath} (hi : pathFuel t f i = some p) (hj : pathFuel t f' j = some p) : i = j := by
  induction f generalizing f' i j p with
  | zero => simp [pathFuel_zero] at hi
  | succ f ih =>
    cases f' with
    | zero => simp [pathFuel_zero] at hj
    | succ f' =>
      rw [pathFuel_succ_iff] at hi hj
      obtain ⟨a, ha, hi⟩ := hi
      obtain ⟨b, hb, hj⟩ := hj
      have hai := get_some ha
      have hbj := get_some hb
      rcases hi with ⟨hpa, rfl⟩ | ⟨q, pp, hqa, hpp, rfl⟩
      · rcases hj with ⟨hpb, hn⟩ | ⟨q', pp', hqb, hpp', hn⟩
        · have := hsib a hai.1 b hbj.1 (by rw [hpa, hpb]) (by simpa using hn)
          rw [← hai.2, ← hbj.2, this]
        · have h1 := (pathFuel_length hpp').1
          have := congrArg List.length hn
          simp only [List.length_append, List.length_cons, List.length_nil] at this
          omega
      · rcases hj with ⟨hpb, hn⟩ | ⟨q', pp', hqb, hpp', hn⟩
        · have h1 := (pathFuel_length hpp).1
          have := congrArg List.length hn
          simp only [List.length_append, List.length_cons, List.length_nil] at this
          omega
        · have hh := List.append_inj' hn (by simp)
          have hq : q = q' := ih hpp (hh.1 ▸ hpp')
          have := hsib a hai.1 b hbj.1 (by rw [hqa, hqb, hq]) (by simpa using hh.2)
          rw [← hai.2, ← hbj.2, this]

theorem pathOf_inj {t : OTree} (hw : t.WF) {i j : Nat} {p : RPath} (hi : pathOf t i = some p) (hj : pathOf t j = some p) : i = j :=
  pathFuel_inj hw.sib hi hj

/-- projection: the path view of an object tree (unique ids, unique sibling names) lists every path once -/
theorem toPaths_WF {t : OTree} (hs : Sorted t)
    (hsib : ∀ a ∈ t, ∀ b ∈ t, a.parent = b.parent → a.name = b.name → a.id = b.id) : (toPaths t).WF := by
  unfold Tree.WF toPaths
  rw [List.map_filterMap]
  unfold List.Nodup
  apply List.Pairwise.filterMap (R := fun a b : Obj => a.id < b.id) _ _ hs
  intro a a' hlt p hp p' hp'
  simp only [Option.map_map, Option.map_eq_some_iff, Function.comp] at hp hp'
  obtain ⟨x, hx, rfl⟩ := hp
  obtain ⟨y, hy, rfl⟩ := hp'
  intro he
  have := pathFuel_inj hsib hx (he ▸ hy)
  omega

/-- membership in the path view -/
theorem mem_toPaths {t : OTree} {e : RPath × Node} : e ∈ toPaths t ↔ ∃ o ∈ t, pathOf t o.id = some e.1 ∧ o.kind = e.2 := by
  simp only [toPaths, List.mem_filterMap, Option.map_eq_some_iff]
  constructor
  · rintro ⟨o, ho, p, hp, rfl⟩
    exact ⟨o, ho, hp, rfl⟩
  · rintro ⟨o, ho, hp, hk⟩
    exact ⟨o, ho, e.1, hp, by rw [hk]⟩

/-- in a well-formed tree the path view finds every object at its derived path, with its kind -/
theorem toPaths_get {t : OTree} (hw : t.WF) {o : Obj} (ho : o ∈ t) {p : RPath} (hp : pathOf t o.id = some p) :
    (toPaths t).get p = some o.kind :=
  Tree.get_eq_some_of_mem (toPaths_WF hw.sorted hw.sib) (mem_toPaths.mpr ⟨o, ho, hp, rfl⟩)

/-! ### valid operations keep an object tree well formed -/

theorem pathFuel_ins {t : OTree} {o : Obj} (hf : t.has o.id = false) {f j : Nat} {p : RPath}
    (h : pathFuel t f j = some p) : pathFuel (ins o t) f j = some p := by
  induction f generalizing j p with
  | zero => simp [pathFuel_zero] at h
  | succ f ih =>
    rw [pathFuel_succ_iff] at h ⊢
    obtain ⟨a, ha, h⟩ := h
    have hj : o.id ≠ j := fun e => (has_false_iff.mp hf) a (get_some ha).1 ((get_some ha).2.trans e.symm)
    refine ⟨a, by rw [get_ins, if_neg hj]; exact ha, ?_⟩
    rcases h with h | ⟨q, pp, hq, hpp, hp⟩
    · exact Or.inl h
    · exact Or.inr ⟨q, pp, hq, ih hpp, hp⟩

theorem pathFuel_map {t : OTree} (g : Obj → Obj) (hid : ∀ o, (g o).id = o.id) (hpar : ∀ o, (g o).parent = o.parent)
    (hname : ∀ o, (g o).name = o.name) (f j : Nat) : pathFuel (t.map g) f j = pathFuel t f j := by
  induction f generalizing j with
  | zero => rfl
  | succ f ih =>
    simp only [pathFuel, get_map g hid]
    cases t.get j with
    | none => rfl
    | some o =>
      simp only [Option.map_some, hpar, hname]
      cases o.parent with
      | none => rfl
      | some q => simp only [ih]

theorem pathFuel_filter {t : OTree} {i : Nat} (hk : noKids t i = true) {f j : Nat} {p : RPath} (hj : j ≠ i)
    (h : pathFuel t f j = some p) : pathFuel (t.filter (fun o => o.id != i)) f j = some p := by
  induction f generalizing j p with
  | zero => simp [pathFuel_zero] at h
  | succ f ih =>
    rw [pathFuel_succ_iff] at h ⊢
    obtain ⟨a, ha, h⟩ := h
    refine ⟨a, by rw [get_filter_ne, if_neg hj]; exact ha, ?_⟩
    rcases h with h | ⟨q, pp, hq, hpp, hp⟩
    · exact Or.inl h
    · have hqi : q ≠ i := fun e => (noKids_iff.mp hk) a (get_some ha).1 (e ▸ hq)
      exact Or.inr ⟨q, pp, hq, ih hqi hpp, hp⟩

/-- a move does not change the path of an object whose parent chain does not pass through the moved object -/
theorem pathFuel_move_unaffected {t : OTree} {i : Nat} {p : Option Nat} {n : String} {f q : Nat} {pq : RPath}
    (hanc : ¬ i ∈ ancFuel t f (some q)) (h : pathFuel t f q = some pq) :
    pathFuel (t.map (setPlace i p n)) f q = some pq := by
  induction f generalizing q pq with
  | zero => simp [pathFuel_zero] at h
  | succ f ih =>
    rw [pathFuel_succ_iff] at h ⊢
    obtain ⟨a, ha, h⟩ := h
    simp only [ancFuel, ha, List.mem_cons, not_or] at hanc
    have haq := (get_some ha).2
    refine ⟨a, ?_, ?_⟩
    · rw [get_map _ (setPlace_id i p n), ha, Option.map_some, setPlace_ne (by omega)]
    · rcases h with h | ⟨r, pp, hr, hpp, hp⟩
      · exact Or.inl h
      · rw [hr] at hanc
        exact Or.inr ⟨r, pp, hr, ih hanc.2 hpp, hp⟩

theorem parentOk_map {t : OTree} (g : Obj → Obj) (hid : ∀ o, (g o).id = o.id) (hk : ∀ o, (g o).kind = o.kind)
    (q : Option Nat) : parentOk (t.map g) q = parentOk t q := by
  cases q with
  | none => rfl
  | some p =>
    simp only [parentOk, get_map g hid]
    cases t.get p with
    | none => rfl
    | some o => simp only [Option.map_some, hk]

theorem setPlace_kind (i : Nat) (p : Option Nat) (n : String) (o : Obj) : (setPlace i p n o).kind = o.kind := by
  unfold setPlace; split <;> rfl

theorem setKind_parent (i : Nat) (k : Node) (o : Obj) : (setKind i k o).parent = o.parent := by
  unfold setKind; split <;> rfl

theorem setKind_name (i : Nat) (k : Node) (o : Obj) : (setKind i k o).name = o.name := by
  unfold setKind; split <;> rfl

theorem OTree.WF.get_of_mem {t : OTree} (hw : t.WF) {o : Obj} (ho : o ∈ t) : t.get o.id = some o :=
  hw.sorted.get_of_mem ho

theorem OTree.WF.add {t : OTree} (hw : t.WF) (o : Obj) (hf : t.has o.id = false) (hp : parentOk t o.parent = true)
    (hs : slotFree t o.id o.parent o.name = true) : OTree.WF (ins o t) := by
  have hfree := slotFree_iff.mp hs
  have hne := has_false_iff.mp hf
  have hpok : ∀ q, parentOk t q = true → parentOk (ins o t) q = true := by
    intro q hq
    cases q with
    | none => rfl
    | some r =>
      obtain ⟨x, hx, hk⟩ := parentOk_some.mp hq
      have : o.id ≠ r := fun e => hne x (get_some hx).1 ((get_some hx).2.trans e.symm)
      exact parentOk_some.mpr ⟨x, by rw [get_ins, if_neg this]; exact hx, hk⟩
  have hroot_old : ∀ a ∈ t, ∃ p, pathOf (ins o t) a.id = some p := by
    intro a ha
    obtain ⟨p, hp⟩ := hw.rooted a ha
    exact ⟨p, pathOf_complete (pathFuel_ins hf hp)⟩
  refine ⟨hw.sorted.ins o hf, ?_, ?_, ?_⟩
  · intro a ha b hb hpar hname
    rcases mem_ins.mp ha with ea | ha' <;> rcases mem_ins.mp hb with eb | hb'
    · rw [ea, eb]
    · rw [ea] at hpar hname ⊢
      rcases hfree b hb' with h | h
      · exact h.symm
      · exact absurd ⟨hpar.symm, hname.symm⟩ h
    · rw [eb] at hpar hname ⊢
      rcases hfree a ha' with h | h
      · exact h
      · exact absurd ⟨hpar, hname⟩ h
    · exact hw.sib a ha' b hb' hpar hname
  · intro a ha
    rcases mem_ins.mp ha with rfl | ha
    · exact hpok _ hp
    · exact hpok _ (hw.par a ha)
  · intro a ha
    rcases mem_ins.mp ha with rfl | ha
    · have hget : OTree.get (ins a t) a.id = some a := by rw [get_ins, if_pos rfl]
      cases hpa : a.parent with
      | none => exact ⟨_, pathOf_root hget hpa⟩
      | some q =>
        rw [hpa] at hp
        obtain ⟨x, hx, _⟩ := parentOk_some.mp hp
        obtain ⟨pq, hpq⟩ := hroot_old x (get_some hx).1
        rw [(get_some hx).2] at hpq
        exact ⟨_, pathOf_child hget hpa hpq⟩
    · exact hroot_old a ha

theorem OTree.WF.write {t : OTree} (hw : t.WF) (i tag : Nat) (hv : isFile t i = true) :
    OTree.WF (t.map (setKind i (.file tag))) := by
  refine ⟨hw.sorted.map _ (setKind_id i _), ?_, ?_, ?_⟩
  · intro a ha b hb
    obtain ⟨a', ha', rfl⟩ := List.mem_map.mp ha
    obtain ⟨b', hb', rfl⟩ := List.mem_map.mp hb
    simp only [setKind_parent, setKind_name, setKind_id]
    exact hw.sib a' ha' b' hb'
  · intro a ha
    obtain ⟨a', ha', rfl⟩ := List.mem_map.mp ha
    rw [setKind_parent]
    have hp := hw.par a' ha'
    cases hq : a'.parent with
    | none => rfl
    | some q =>
      rw [hq] at hp
      obtain ⟨x, hx, hk⟩ := parentOk_some.mp hp
      have hqi : q ≠ i := by
        intro e
        subst e
        simp only [isFile, hx, hk] at hv
        exact absurd hv (by simp)
      apply parentOk_some.mpr
      refine ⟨x, ?_, hk⟩
      rw [get_map _ (setKind_id i _), hx, Option.map_some, setKind_ne (by rw [(get_some hx).2]; exact hqi)]
  · intro a ha
    obtain ⟨a', ha', rfl⟩ := List.mem_map.mp ha
    obtain ⟨p, hp⟩ := hw.rooted a' ha'
    refine ⟨p, ?_⟩
    rw [setKind_id]
    unfold pathOf at hp ⊢
    rw [List.length_map, pathFuel_map _ (setKind_id i _) (setKind_parent i _) (setKind_name i _)]
    exact hp

theorem OTree.WF.delete {t : OTree} (hw : t.WF) (i : Nat) (hk : noKids t i = true) :
    OTree.WF (t.filter (fun o => o.id != i)) := by
  have hkids := noKids_iff.mp hk
  refine ⟨hw.sorted.filter _, ?_, ?_, ?_⟩
  · intro a ha b hb
    exact hw.sib a (List.mem_filter.mp ha).1 b (List.mem_filter.mp hb).1
  · intro a ha
    have ha' := (List.mem_filter.mp ha).1
    have hp := hw.par a ha'
    cases hq : a.parent with
    | none => rfl
    | some q =>
      rw [hq] at hp
      have hqi : q ≠ i := fun e => hkids a ha' (e ▸ hq)
      simp only [parentOk, get_filter_ne, if_neg hqi]
      exact hp
  · intro a ha
    have ha' := List.mem_filter.mp ha
    obtain ⟨p, hp⟩ := hw.rooted a ha'.1
    have hai : a.id ≠ i := by simpa using ha'.2
    exact ⟨p, pathOf_complete (pathFuel_filter hk hai hp)⟩

theorem OTree.WF.move {t : OTree} (hw : t.WF) (i : Nat) (p : Option Nat) (n : String) (hh : t.has i = true)
    (hp : parentOk t p = true) (hs : slotFree t i p n = true) (hc : (ancSelf t p).contains i = false) :
    OTree.WF (t.map (setPlace i p n)) := by
  have hfree := slotFree_iff.mp hs
  obtain ⟨oi, hoi, hoid⟩ := has_iff.mp hh
  have hgeti : OTree.get (t.map (setPlace i p n)) i = some (setPlace i p n oi) := by
    rw [get_map _ (setPlace_id i p n), ← hoid, hw.get_of_mem hoi]; rfl
  have hpl : (setPlace i p n oi).parent = p ∧ (setPlace i p n oi).name = n := by
    unfold setPlace; rw [if_pos hoid]; exact ⟨rfl, rfl⟩
  -- the moved object has a path in the new tree
  have hmoved : ∃ pi, pathOf (t.map (setPlace i p n)) i = some pi := by
    cases p with
    | none => exact ⟨_, pathOf_root hgeti hpl.1⟩
    | some q =>
      obtain ⟨x, hx, _⟩ := parentOk_some.mp hp
      obtain ⟨pq, hq⟩ := hw.rooted x (get_some hx).1
      rw [(get_some hx).2] at hq
      have hnot : ¬ i ∈ ancFuel t t.length (some q) := by
        intro hin
        have : (ancSelf t (some q)).contains i = true := by simpa [ancSelf] using hin
        rw [hc] at this
        cases this
      have := pathFuel_move_unaffected (p := some q) (n := n) hnot hq
      exact ⟨_, pathOf_child hgeti hpl.1 (pathOf_complete this)⟩
  have hall : ∀ f j pj, pathFuel t f j = some pj → ∃ p', pathOf (t.map (setPlace i p n)) j = some p' := by
    intro f
    induction f with
    | zero => intro j pj h; simp [pathFuel_zero] at h
    | succ f ih =>
      intro j pj h
      by_cases hji : j = i
      · subst hji; exact hmoved
      · rw [pathFuel_succ_iff] at h
        obtain ⟨a, ha, h⟩ := h
        have haj := (get_some ha).2
        have hget : OTree.get (t.map (setPlace i p n)) j = some a := by
          rw [get_map _ (setPlace_id i p n), ha, Option.map_some, setPlace_ne (by omega)]
        rcases h with ⟨hpa, _⟩ | ⟨r, pp, hr, hpp, _⟩
        · exact ⟨_, pathOf_root hget hpa⟩
        · obtain ⟨pr, hpr⟩ := ih r pp hpp
          exact ⟨_, pathOf_child hget hr hpr⟩
  refine ⟨hw.sorted.map _ (setPlace_id i p n), ?_, ?_, ?_⟩
  · intro a ha b hb
    obtain ⟨a', ha', rfl⟩ := List.mem_map.mp ha
    obtain ⟨b', hb', rfl⟩ := List.mem_map.mp hb
    simp only [setPlace_id]
    by_cases hai : a'.id = i <;> by_cases hbi : b'.id = i
    · intro _ _; rw [hai, hbi]
    · intro hpar hname
      rw [setPlace_ne hbi] at hpar hname
      have h1 : (setPlace i p n a').parent = p ∧ (setPlace i p n a').name = n := by
        unfold setPlace; rw [if_pos hai]; exact ⟨rfl, rfl⟩
      rcases hfree b' hb' with h | h
      · exact absurd h hbi
      · exact absurd ⟨by rw [← hpar, h1.1], by rw [← hname, h1.2]⟩ h
    · intro hpar hname
      rw [setPlace_ne hai] at hpar hname
      have h1 : (setPlace i p n b').parent = p ∧ (setPlace i p n b').name = n := by
        unfold setPlace; rw [if_pos hbi]; exact ⟨rfl, rfl⟩
      rcases hfree a' ha' with h | h
      · exact absurd h hai
      · exact absurd ⟨by rw [hpar, h1.1], by rw [hname, h1.2]⟩ h
    · rw [setPlace_ne hai, setPlace_ne hbi]
      exact hw.sib a' ha' b' hb'
  · intro a ha
    obtain ⟨a', ha', rfl⟩ := List.mem_map.mp ha
    rw [parentOk_map _ (setPlace_id i p n) (setPlace_kind i p n)]
    by_cases hai : a'.id = i
    · have : (setPlace i p n a').parent = p := by unfold setPlace; rw [if_pos hai]
      rw [this]; exact hp
    · rw [setPlace_ne hai]; exact hw.par a' ha'
  · intro a ha
    obtain ⟨a', ha', rfl⟩ := List.mem_map.mp ha
    rw [setPlace_id]
    obtain ⟨pa, hpa⟩ := hw.rooted a' ha'
    exact hall _ _ _ hpa

/-- a valid operation keeps the object tree well formed -/
theorem OTree.WF.applyOp {t : OTree} (hw : t.WF) {a : OOp} (hv : valid t a = true) : OTree.WF (applyOp t a) := by
  cases a with
  | create i p n tag =>
    simp only [valid, Bool.and_eq_true, Bool.not_eq_true'] at hv
    exact hw.add ⟨i, p, n, .file tag⟩ hv.1.1 hv.1.2 hv.2
  | mkdir i p n =>
    simp only [valid, Bool.and_eq_true, Bool.not_eq_true'] at hv
    exact hw.add ⟨i, p, n, .dir⟩ hv.1.1 hv.1.2 hv.2
  | write i tag => exact hw.write i tag hv
  | delete i =>
    simp only [valid, Bool.and_eq_true] at hv
    exact hw.delete i hv.2
  | move i p n =>
    simp only [valid, Bool.and_eq_true, Bool.not_eq_true'] at hv
    exact hw.move i p n hv.1.1.1 hv.1.1.2 hv.1.2 hv.2

theorem OTree.WF.applyOps {t : OTree} (hw : t.WF) {as : List OOp} (hv : validSeq t as = true) : OTree.WF (applyOps t as) := by
  induction as generalizing t with
  | nil => exact hw
  | cons a as ih =>
    rw [validSeq_cons] at hv
    exact ih (hw.applyOp hv.1) hv.2

/-! ### a move of an object is, in the path view, the rename of its subtree: children follow -/

theorem prefix_snoc {s pp : RPath} {x : String} (h : isPrefixOf s (pp ++ [x]) = true) :
    isPrefixOf s pp = true ∨ s = pp ++ [x] := by
  obtain ⟨r, hr⟩ := (isPrefixOf_iff _ _).1 h
  rcases List.eq_nil_or_concat r with rfl | ⟨r', y, rfl⟩
  · right; simpa using hr.symm
  · left
    rw [List.concat_eq_append, ← List.append_assoc] at hr
    have := (List.append_inj' hr (by simp)).1
    rw [this]
    exact isPrefixOf_append s r'

theorem rebase_snoc {s d pp : RPath} {x : String} (hne : s ≠ pp ++ [x]) :
    rebase s d (pp ++ [x]) = rebase s d pp ++ [x] := by
  cases hp : isPrefixOf s pp with
  | true =>
    obtain ⟨r, rfl⟩ := (isPrefixOf_iff _ _).1 hp
    rw [List.append_assoc, rebase_append, rebase_append, List.append_assoc]
  | false =>
    rw [rebase_of_not_prefix hp]
    apply rebase_of_not_prefix
    cases h : isPrefixOf s (pp ++ [x]) with
    | false => rfl
    | true =>
      rcases prefix_snoc h with h1 | h1
      · rw [hp] at h1; cases h1
      · exact absurd h1 hne

/-- after moving object `i` (old path `po`, new path `pn`) every object's path is rebased: an object
    beneath `i` keeps its relative position beneath the new path, every other object keeps its path -/
theorem pathOf_move {t : OTree} (hw : t.WF) {i : Nat} {p : Option Nat} {n : String}
    {po pn : RPath} (hpo : pathOf t i = some po) (hpn : pathOf (t.map (setPlace i p n)) i = some pn)
    {j : Nat} {pj : RPath} (hj : pathOf t j = some pj) :
    pathOf (t.map (setPlace i p n)) j = some (rebase po pn pj) := by
  have key : ∀ f j pj, pathFuel t f j = some pj → pathOf (t.map (setPlace i p n)) j = some (rebase po pn pj) := by
    intro f
    induction f with
    | zero => intro j pj h; simp [pathFuel_zero] at h
    | succ f ih =>
      intro j pj h
      by_cases hji : j = i
      · subst hji
        have := pathFuel_unique h hpo
        subst this
        have := rebase_append pj pn []
        simp only [List.append_nil] at this
        rw [this]; exact hpn
      · have hne : po ≠ pj := fun e => hji (pathFuel_inj hw.sib h (e ▸ hpo))
        rw [pathFuel_succ_iff] at h
        obtain ⟨a, ha, h⟩ := h
        have haj := (get_some ha).2
        have hget : OTree.get (t.map (setPlace i p n)) j = some a := by
          rw [get_map _ (setPlace_id i p n), ha, Option.map_some, setPlace_ne (by omega)]
        rcases h with ⟨hpa, rfl⟩ | ⟨r, pp, hr, hpp, rfl⟩
        · have : rebase po pn [a.name] = [a.name] := by
            apply rebase_of_not_prefix
            cases hpre : isPrefixOf po [a.name] with
            | false => rfl
            | true =>
              rcases prefix_snoc (pp := []) (by simpa using hpre) with h1 | h1
              · obtain ⟨r, hr⟩ := (isPrefixOf_iff _ _).1 h1
                have : po = [] := by
                  cases po with
                  | nil => rfl
                  | cons _ _ => simp at hr
                exact absurd this (pathOf_ne_nil hpo)
              · exact absurd (by simpa using h1) hne
          rw [this]
          exact pathOf_root hget hpa
        · rw [rebase_snoc hne]
          exact pathOf_child hget hr (ih r pp hpp)
  exact key _ _ _ hj

theorem filterMap_congr_mem {α β : Type} {f g : α → Option β} {l : List α} (h : ∀ a ∈ l, f a = g a) :
    l.filterMap f = l.filterMap g := by
  induction l with
  | nil => rfl
  | cons x xs ih =>
    simp only [List.filterMap_cons, h x List.mem_cons_self]
    rw [ih (fun a ha => h a (List.mem_cons_of_mem _ ha))]

/-- the path view of a move is the path-level rename of `Spec/Sync.lean` -/
theorem toPaths_move {t : OTree} (hw : t.WF) {i : Nat} {p : Option Nat} {n : String}
    {po pn : RPath} (hpo : pathOf t i = some po) (hpn : pathOf (t.map (setPlace i p n)) i = some pn) :
    toPaths (t.map (setPlace i p n)) = CS.Spec.applyOp (toPaths t) (.rename po pn) := by
  rw [CS.Spec.applyOp_rename]
  unfold toPaths
  rw [List.filterMap_map, List.map_filterMap]
  apply filterMap_congr_mem
  intro o ho
  obtain ⟨pj, hpj⟩ := hw.rooted o ho
  simp only [Function.comp, setPlace_id, setPlace_kind, hpj, pathOf_move hw hpo hpn hpj, Option.map_some, renameEntry]

/-! ### the pairwise premise suffices: a compatible grid makes every interleaving valid -/

theorem Compatible.both {t : OTree} {a b : OOp} (hva : valid t a = true) (hvb : valid t b = true) (hne : a.target ≠ b.target)
    (hc : Compatible t a b = true) : valid (applyOp t a) b = true ∧ valid (applyOp t b) a = true := by
  simp only [Compatible, Bool.and_eq_true, Bool.not_eq_true'] at hc
  obtain ⟨⟨⟨⟨h1, h2⟩, h3⟩, h4⟩, h5⟩ := hc
  exact ⟨compatible_valid_after hva hvb hne h1 h2 h3 h4,
    compatible_valid_after hvb hva hne.symm (by rw [clash_comm]; exact h1) h3 h2 h5⟩

/-- `a` moves past a valid sequence it is row-compatible with: the sequence stays valid after `a`, and `a` stays valid after it -/
theorem compatRow_valid {t : OTree} (hs : Sorted t) {a : OOp} {bs : List OOp} (hva : valid t a = true)
    (hvb : validSeq t bs = true) (hd : ∀ b ∈ bs, a.target ≠ b.target) (hr : compatRow t a bs = true) :
    validSeq (applyOp t a) bs = true ∧ valid (applyOps t bs) a = true := by
  induction bs generalizing t with
  | nil => exact ⟨rfl, hva⟩
  | cons b bs ih =>
    simp only [compatRow, Bool.and_eq_true] at hr
    rw [validSeq_cons] at hvb
    have hne := hd b List.mem_cons_self
    obtain ⟨hab, hba⟩ := Compatible.both hva hvb.1 hne hr.1
    obtain ⟨h1, h2⟩ := ih (hs.applyOp hvb.1) hba hvb.2 (fun x hx => hd x (List.mem_cons_of_mem _ hx)) hr.2
    refine ⟨?_, ?_⟩
    · rw [validSeq_cons, applyOp_comm hs a b hne]
      exact ⟨hab, h1⟩
    · rw [applyOps_cons]; exact h2

theorem compatGrid_shift {t : OTree} (hs : Sorted t) {as : List OOp} {b : OOp} {bs : List OOp} (hva : validSeq t as = true)
    (hd : ∀ a ∈ as, a.target ≠ b.target) (hg : compatGrid t as (b :: bs) = true) : compatGrid (applyOp t b) as bs = true := by
  induction as generalizing t with
  | nil => rfl
  | cons a as ih =>
    simp only [compatGrid, compatRow, Bool.and_eq_true] at hg ⊢
    rw [validSeq_cons] at hva
    have hne := hd a List.mem_cons_self
    refine ⟨hg.1.2, ?_⟩
    rw [← applyOp_comm hs a b hne]
    exact ih (hs.applyOp hva.1) hva.2 (fun x hx => hd x (List.mem_cons_of_mem _ hx)) hg.2

theorem compatGrid_col {t : OTree} (hs : Sorted t) {as : List OOp} {b : OOp} {bs : List OOp} (hva : validSeq t as = true)
    (hvb : valid t b = true) (hd : ∀ a ∈ as, a.target ≠ b.target) (hg : compatGrid t as (b :: bs) = true) :
    validSeq (applyOp t b) as = true := by
  induction as generalizing t with
  | nil => rfl
  | cons a as ih =>
    simp only [compatGrid, compatRow, Bool.and_eq_true] at hg
    rw [validSeq_cons] at hva
    have hne := hd a List.mem_cons_self
    obtain ⟨hab, hba⟩ := Compatible.both hva.1 hvb hne hg.1.1
    rw [validSeq_cons, ← applyOp_comm hs a b hne]
    exact ⟨hba, ih (hs.applyOp hva.1) hva.2 hab (fun x hx => hd x (List.mem_cons_of_mem _ hx)) hg.2⟩

/-- pairwise `Compatible` along the grid (+ each side's own sequence valid, different objects) makes every interleaving a valid history -/
theorem compatGrid_allValid {t : OTree} (hs : Sorted t) {as bs : List OOp} (hva : validSeq t as = true) (hvb : validSeq t bs = true)
    (hd : ∀ a ∈ as, ∀ b ∈ bs, a.target ≠ b.target) (hg : compatGrid t as bs = true) : AllValid t as bs := by
  intro m hm
  induction hm generalizing t with
  | nil => rfl
  | @left a as bs m _ ih =>
    have hva' := (validSeq_cons _ _ _).mp hva
    simp only [compatGrid, Bool.and_eq_true] at hg
    rw [validSeq_cons]
    refine ⟨hva'.1, ih (hs.applyOp hva'.1) hva'.2 ?_ (fun x hx y hy => hd x (List.mem_cons_of_mem _ hx) y hy) hg.2⟩
    exact (compatRow_valid hs hva'.1 hvb (fun y hy => hd a List.mem_cons_self y hy) hg.1).1
  | @right b as bs m _ ih =>
    have hvb' := (validSeq_cons _ _ _).mp hvb
    have hdb : ∀ a ∈ as, a.target ≠ b.target := fun x hx => hd x hx b List.mem_cons_self
    rw [validSeq_cons]
    refine ⟨hvb'.1, ih (hs.applyOp hvb'.1) (compatGrid_col hs hva hvb'.1 hdb hg) hvb'.2
      (fun x hx y hy => hd x hx y (List.mem_cons_of_mem _ hy)) (compatGrid_shift hs hva hdb hg)⟩

end CS.Spec.Obj
