import Csverif.Proofs.State
/-
C11: the invariant (`Idx X` = index clauses with an exemption set for entry sides whose index update is in
flight, `Pend Y` = the pending-set clause) and its behaviour under the atomic index mutations.
-/
namespace CS.State

/-! ### more projections -/
section proj
variable (st : St)

@[simp] theorem oids_popPathSlot (s : Sd) (p k) (s' : Sd) : (st.popPathSlot s p k).oids s' = st.oids s' := by
  unfold St.popPathSlot; split
  · rfl
  · dsimp only; split <;> simp
@[simp] theorem ents_popPathSlot (s : Sd) (p k) : (st.popPathSlot s p k).ents = st.ents := by
  unfold St.popPathSlot; split
  · rfl
  · dsimp only; split <;> simp
@[simp] theorem cs_popPathSlot (s : Sd) (p k) : (st.popPathSlot s p k).cs = st.cs := by
  unfold St.popPathSlot; split
  · rfl
  · dsimp only; split <;> simp
@[simp] theorem side_popPathSlot (s : Sd) (p k) (i : Nat) (s' : Sd) : (st.popPathSlot s p k).side i s' = st.side i s' := by
  simp [St.side, St.ent]

theorem get_paths_popPathSlot (s : Sd) (p : Option Path.Str) (k : Oid) (s' : Sd) (p' : Option Path.Str) :
    AL.get ((st.popPathSlot s p k).paths s') p' =
      if s' = s ∧ p' = p then
        (match AL.get (st.paths s) p with
          | none => none
          | some b => if (AL.erase b k).isEmpty then none else some (AL.erase b k))
      else AL.get (st.paths s') p' := by
  unfold St.popPathSlot
  cases h : AL.get (st.paths s) p with
  | none =>
    simp only
    split
    · next h' => obtain ⟨h1, h2⟩ := h'; subst h1; subst h2; exact h
    · rfl
  | some b =>
    simp only
    by_cases he : (AL.erase b k).isEmpty
    · simp only [he, if_true, paths_setPaths]
      by_cases hs : s' = s
      · subst hs; simp only [if_true, true_and, AL.get_erase]
      · simp [hs]
    · simp only [he, paths_setPaths]
      by_cases hs : s' = s
      · subst hs; simp [AL.get_set]
      · simp [hs]

@[simp] theorem oids_setPathSlot (s : Sd) (p k) (i : Nat) (s' : Sd) : (st.setPathSlot s p k i).oids s' = st.oids s' := by
  simp [St.setPathSlot]
@[simp] theorem ents_setPathSlot (s : Sd) (p k) (i : Nat) : (st.setPathSlot s p k i).ents = st.ents := by
  simp [St.setPathSlot]
@[simp] theorem cs_setPathSlot (s : Sd) (p k) (i : Nat) : (st.setPathSlot s p k i).cs = st.cs := by
  simp [St.setPathSlot]
@[simp] theorem side_setPathSlot (s : Sd) (p k) (i j : Nat) (s' : Sd) : (st.setPathSlot s p k i).side j s' = st.side j s' := by
  simp [St.side, St.ent]

theorem get_paths_setPathSlot (s : Sd) (p : Option Path.Str) (k : Oid) (i : Nat) (s' : Sd) (p' : Option Path.Str) :
    AL.get ((st.setPathSlot s p k i).paths s') p' =
      if s' = s ∧ p' = p then some (AL.set ((AL.get (st.paths s) p).getD []) k i) else AL.get (st.paths s') p' := by
  unfold St.setPathSlot
  simp only [paths_setPaths]
  by_cases hs : s' = s
  · subst hs; simp only [if_true, true_and, AL.get_set]
  · simp [hs]

end proj

/-! ### flat view of the path index -/

theorem slot_congr {st st' : St} (h : ∀ s, st'.paths s = st.paths s) (s p k) : st'.slot s p k = st.slot s p k := by
  unfold St.slot; rw [h]

section slot
variable (st : St)
@[simp] theorem slot_setOids (s o s' p k) : (st.setOids s o).slot s' p k = st.slot s' p k := slot_congr (by simp) ..
@[simp] theorem slot_modSide (i s f s' p k) : (st.modSide i s f).slot s' p k = st.slot s' p k := slot_congr (by simp) ..
@[simp] theorem slot_modEnt (i f s' p k) : (st.modEnt i f).slot s' p k = st.slot s' p k := slot_congr (by simp) ..
@[simp] theorem slot_csAdd (i s' p k) : (st.csAdd i).slot s' p k = st.slot s' p k := slot_congr (by simp) ..
@[simp] theorem slot_csDiscard (i s' p k) : (st.csDiscard i).slot s' p k = st.slot s' p k := slot_congr (by simp) ..
@[simp] theorem slot_dirtyAdd (i s' p k) : (st.dirtyAdd i).slot s' p k = st.slot s' p k := slot_congr (by simp) ..

theorem slot_popPathSlot (s : Sd) (p : Option Path.Str) (k : Oid) (s' : Sd) (p' : Option Path.Str) (k' : Oid) :
    (st.popPathSlot s p k).slot s' p' k' = if s' = s ∧ p' = p ∧ k' = k then none else st.slot s' p' k' := by
  unfold St.slot
  rw [get_paths_popPathSlot]
  by_cases h : s' = s ∧ p' = p
  · obtain ⟨h1, h2⟩ := h; subst h1; subst h2
    simp only [and_self, if_true, true_and]
    cases hb : AL.get (st.paths s') p' with
    | none => simp
    | some b =>
      simp only
      by_cases he : (AL.erase b k).isEmpty
      · simp only [he, if_true]
        by_cases hk : k' = k
        · simp [hk]
        · simp only [hk, if_false]
          have : AL.erase b k = [] := by simpa using he
          exact (AL.erase_eq_nil_of_get b k this k' hk).symm
      · simp [he, AL.get_erase]
  · have : ¬ (s' = s ∧ p' = p ∧ k' = k) := fun hh => h ⟨hh.1, hh.2.1⟩
    simp only [h, this, if_false]

theorem slot_setPathSlot (s : Sd) (p : Option Path.Str) (k : Oid) (i : Nat) (s' : Sd) (p' : Option Path.Str) (k' : Oid) :
    (st.setPathSlot s p k i).slot s' p' k' = if s' = s ∧ p' = p ∧ k' = k then some i else st.slot s' p' k' := by
  unfold St.slot
  rw [get_paths_setPathSlot]
  by_cases h : s' = s ∧ p' = p
  · obtain ⟨h1, h2⟩ := h; subst h1; subst h2
    simp only [and_self, if_true, true_and, AL.get_set]
    cases hb : AL.get (st.paths s') p' <;> simp
  · have : ¬ (s' = s ∧ p' = p ∧ k' = k) := fun hh => h ⟨hh.1, hh.2.1⟩
    simp only [h, this, if_false]
end slot

/-- path keys are truthy strings, no bucket is empty, every bucket member names an existing entry -/
def PathKeyOk (st : St) : Prop :=
  ∀ s p b, AL.get (st.paths s) p = some b → truthyS p = true ∧ b ≠ [] ∧ ∀ x ∈ b, x.2 < st.ents.length

theorem PathKeyOk.congr {st st' : St} (h : PathKeyOk st) (hp : ∀ s, st'.paths s = st.paths s)
    (hl : st.ents.length ≤ st'.ents.length) : PathKeyOk st' := by
  intro s p b hb; rw [hp] at hb
  obtain ⟨h1, h2, h3⟩ := h s p b hb
  exact ⟨h1, h2, fun x hx => Nat.lt_of_lt_of_le (h3 x hx) hl⟩

theorem PathKeyOk.pop {st : St} (h : PathKeyOk st) (s p k) : PathKeyOk (st.popPathSlot s p k) := by
  intro s' p' b hb
  rw [get_paths_popPathSlot] at hb
  simp only [ents_popPathSlot]
  by_cases hc : s' = s ∧ p' = p
  · obtain ⟨h1, h2⟩ := hc; subst h1; subst h2
    simp only [and_self, if_true] at hb
    cases hb0 : AL.get (st.paths s') p' with
    | none => rw [hb0] at hb; cases hb
    | some b0 =>
      rw [hb0] at hb; simp only at hb
      by_cases he : (AL.erase b0 k).isEmpty
      · simp [he] at hb
      · simp only [he] at hb
        cases hb
        obtain ⟨g1, _, g3⟩ := h s' p' b0 hb0
        refine ⟨g1, ?_, fun x hx => g3 x (AL.mem_of_mem_erase hx)⟩
        intro hnil; rw [hnil] at he; simp at he
  · simp only [hc, if_false] at hb; exact h s' p' b hb

theorem PathKeyOk.setSlot {st : St} (h : PathKeyOk st) (s p k i) (ht : truthyS p = true) (hi : i < st.ents.length) :
    PathKeyOk (st.setPathSlot s p k i) := by
  intro s' p' b hb
  rw [get_paths_setPathSlot] at hb
  simp only [ents_setPathSlot]
  by_cases hc : s' = s ∧ p' = p
  · simp only [hc, and_self, if_true] at hb
    cases hb
    refine ⟨hc.2 ▸ ht, AL.set_ne_nil _ _ _, fun x hx => ?_⟩
    rcases AL.mem_of_mem_set hx with hx | hx
    · rw [hx]; exact hi
    · cases hb0 : AL.get (st.paths s) p with
      | none => rw [hb0] at hx; simp at hx
      | some b0 => rw [hb0] at hx; exact (h s p b0 hb0).2.2 x hx
  · simp only [hc, if_false] at hb; exact h s' p' b hb

/-! ### the invariant -/

/-- exemption set: entry sides whose index update is in flight -/
abbrev Ex2 := Nat → Sd → Prop
def Ex2.add (X : Ex2) (e : Nat) (s : Sd) : Ex2 := fun i s' => X i s' ∨ (i = e ∧ s' = s)
def noX : Ex2 := fun _ _ => False

structure Idx (X : Ex2) (st : St) : Prop where
  /-- every id slot names an existing entry -/
  bnd : ∀ s k i, AL.get (st.oids s) k = some i → i < st.ents.length
  /-- `None` is never an id key -/
  oidKey : ∀ s, AL.get (st.oids s) none = none
  /-- every id slot points to an entry that carries that id -/
  oidSlot : ∀ s k i, AL.get (st.oids s) k = some i → (st.side i s).oid = k
  /-- path keys are truthy strings, no bucket is empty, bucket members name existing entries -/
  pathKey : PathKeyOk st
  /-- every (path, id) slot points to an entry that carries that path and that id and owns the id slot -/
  pathSlot : ∀ s p k i, st.slot s p k = some i →
      (st.side i s).path = p ∧ (st.side i s).oid = k ∧ AL.get (st.oids s) k = some i
  /-- every entry (live or not) that carries an id on a side is found under it -/
  byOid : ∀ i s, ¬ X i s → (st.side i s).oid ≠ none → AL.get (st.oids s) (st.side i s).oid = some i
  /-- … and under its (path, id) when it also carries a path -/
  byPath : ∀ i s, ¬ X i s → (st.side i s).oid ≠ none → truthyS (st.side i s).path = true →
      st.slot s (st.side i s).path (st.side i s).oid = some i

/-- the pending set contains every entry that has a change flag on a side that has an id -/
def Pend (st : St) : Prop :=
  ∀ i, (∃ s, (st.side i s).changed.truthy = true ∧ truthyS (st.side i s).oid = true) → i ∈ st.cs

theorem Idx.mono {X X' : Ex2} {st} (h : Idx X st) (hx : ∀ i s, X i s → X' i s) : Idx X' st :=
  { h with byOid := fun i s hn => h.byOid i s (fun hx' => hn (hx i s hx')),
           byPath := fun i s hn => h.byPath i s (fun hx' => hn (hx i s hx')) }

/-- `Idx` only reads the indexes, the number of entries and the `oid`/`path` fields -/
theorem Idx.congr {X st st'} (h : Idx X st) (hl : st'.ents.length = st.ents.length)
    (ho : ∀ s, st'.oids s = st.oids s) (hp : ∀ s, st'.paths s = st.paths s)
    (hf : ∀ i s, (st'.side i s).oid = (st.side i s).oid ∧ (st'.side i s).path = (st.side i s).path) : Idx X st' := by
  have hs : ∀ s p k, st'.slot s p k = st.slot s p k := slot_congr hp
  constructor
  · intro s k i hg; rw [ho] at hg; rw [hl]; exact h.bnd s k i hg
  · intro s; rw [ho]; exact h.oidKey s
  · intro s k i hg; rw [ho] at hg; rw [(hf i s).1]; exact h.oidSlot s k i hg
  · exact h.pathKey.congr hp (Nat.le_of_eq hl.symm)
  · intro s p k i hg; rw [hs] at hg; rw [(hf i s).1, (hf i s).2, ho]; exact h.pathSlot s p k i hg
  · intro i s hx hn; rw [(hf i s).1] at hn ⊢; rw [ho]; exact h.byOid i s hx hn
  · intro i s hx hn ht; rw [(hf i s).1] at hn ⊢; rw [(hf i s).2] at ht ⊢; rw [hs]; exact h.byPath i s hx hn ht

/-- `Pend` only reads the pending set and the `changed`/`oid` fields -/
theorem Pend.congr {st st'} (h : Pend st) (hc : ∀ i, i ∈ st.cs → i ∈ st'.cs)
    (hf : ∀ i s, (st'.side i s).oid = (st.side i s).oid ∧ (st'.side i s).changed = (st.side i s).changed) : Pend st' := by
  intro i ⟨s, h1, h2⟩
  rw [(hf i s).2] at h1; rw [(hf i s).1] at h2
  exact hc i (h i ⟨s, h1, h2⟩)

/-- no slot of side `s` points to entry `e` -/
def Clean (st : St) (e : Nat) (s : Sd) : Prop :=
  (∀ k, AL.get (st.oids s) k ≠ some e) ∧ (∀ p k, st.slot s p k ≠ some e)

theorem Idx.clean_of {X st} (h : Idx X st) {e s} (hg : AL.get (st.oids s) (st.side e s).oid = none) : Clean st e s := by
  constructor
  · intro k hk
    have := h.oidSlot s k e hk
    rw [this] at hg; rw [hg] at hk; cases hk
  · intro p k hk
    obtain ⟨_, h2, h3⟩ := h.pathSlot s p k e hk
    rw [h2] at hg; rw [hg] at h3; cases h3

theorem side_oob (st : St) (i : Nat) (s : Sd) (h : ¬ i < st.ents.length) : st.side i s = (default : Entry).side s := by
  simp [St.side, St.ent, List.getD_eq_getElem?_getD, List.getElem?_eq_none (Nat.le_of_not_lt h)]
theorem side_default (s : Sd) : (default : Entry).side s = ({} : Side) := by cases s <;> rfl
theorem oid_oob (st : St) (i : Nat) (s : Sd) (h : ¬ i < st.ents.length) : (st.side i s).oid = none := by
  rw [side_oob st i s h, side_default]
theorem path_oob (st : St) (i : Nat) (s : Sd) (h : ¬ i < st.ents.length) : (st.side i s).path = none := by
  rw [side_oob st i s h, side_default]
theorem changed_oob (st : St) (i : Nat) (s : Sd) (h : ¬ i < st.ents.length) : (st.side i s).changed = .none := by
  rw [side_oob st i s h, side_default]

theorem AL.get_ite {κ β : Type} [DecidableEq κ] (c : Prop) [Decidable c] (a b : List (κ × β)) (k : κ) :
    AL.get (if c then a else b) k = if c then AL.get a k else AL.get b k := by split <;> rfl

/-- rewrite every projection of a modified state into projections of the original state -/
macro "st_norm" " at " loc:Lean.Parser.Tactic.locationHyp : tactic =>
  `(tactic| simp only [oids_setOids, paths_setOids, ents_setOids, cs_setOids, oids_setPaths, paths_setPaths, ents_setPaths,
      cs_setPaths, side_setOids, side_setPaths, oids_modSide, paths_modSide, cs_modSide, len_modSide, oids_modEnt, paths_modEnt,
      cs_modEnt, len_modEnt, oids_csAdd, paths_csAdd, ents_csAdd, side_csAdd, oids_csDiscard, paths_csDiscard, ents_csDiscard,
      side_csDiscard, oids_dirtyAdd, paths_dirtyAdd, ents_dirtyAdd, cs_dirtyAdd, side_dirtyAdd, mem_csAdd, mem_csDiscard,
      oids_popPathSlot, ents_popPathSlot, cs_popPathSlot, side_popPathSlot, oids_setPathSlot, ents_setPathSlot, cs_setPathSlot,
      side_setPathSlot, slot_setOids, slot_modSide, slot_modEnt, slot_csAdd, slot_csDiscard, slot_dirtyAdd, slot_popPathSlot,
      slot_setPathSlot, side_modSide, apply_ite Side.oid, apply_ite Side.path,
      apply_ite Side.changed, apply_ite Side.otype, apply_ite Side.syncPath, AL.get_ite, AL.get_set, AL.get_erase] at $loc)
macro "st_norm" : tactic =>
  `(tactic| simp only [oids_setOids, paths_setOids, ents_setOids, cs_setOids, oids_setPaths, paths_setPaths, ents_setPaths,
      cs_setPaths, side_setOids, side_setPaths, oids_modSide, paths_modSide, cs_modSide, len_modSide, oids_modEnt, paths_modEnt,
      cs_modEnt, len_modEnt, oids_csAdd, paths_csAdd, ents_csAdd, side_csAdd, oids_csDiscard, paths_csDiscard, ents_csDiscard,
      side_csDiscard, oids_dirtyAdd, paths_dirtyAdd, ents_dirtyAdd, cs_dirtyAdd, side_dirtyAdd, mem_csAdd, mem_csDiscard,
      oids_popPathSlot, ents_popPathSlot, cs_popPathSlot, side_popPathSlot, oids_setPathSlot, ents_setPathSlot, cs_setPathSlot,
      side_setPathSlot, slot_setOids, slot_modSide, slot_modEnt, slot_csAdd, slot_csDiscard, slot_dirtyAdd, slot_popPathSlot,
      slot_setPathSlot, side_modSide, apply_ite Side.oid, apply_ite Side.path,
      apply_ite Side.changed, apply_ite Side.otype, apply_ite Side.syncPath, AL.get_ite, AL.get_set, AL.get_erase])

/-! ### atomic index mutations -/

/-- (U) un-index: remove the id slot `r` (owned by `p`) and `p`'s path slot -/
theorem Idx.unindex {X st} (h : Idx X st) {s r p} (hg : AL.get (st.oids s) r = some p) :
    Idx (X.add p s) (unindex st s r p) ∧ Clean (unindex st s r p) p s := by
  have hpo := h.oidSlot s r p hg
  obtain ⟨b1, b2, b3, b4, b5, b6, b7⟩ := h
  have hI : Idx (X.add p s) (CS.State.unindex st s r p) := by
    unfold CS.State.unindex Ex2.add
    by_cases ht : truthyS (st.side p s).path = true
    · simp only [ht, if_true]
      refine ⟨?_, ?_, ?_, (b4.congr (by simp) (by simp)).pop _ _ _, ?_, ?_, ?_⟩
      · intro s' k i hk; st_norm at hk ⊢; grind
      · intro s'; st_norm; grind
      · intro s' k i hk; st_norm at hk ⊢; grind
      · intro s' p' k i hk; st_norm at hk ⊢; grind
      · intro i s' hx ho; st_norm at ho ⊢; grind
      · intro i s' hx ho ht2; st_norm at ho ht2 ⊢; grind
    · simp only [ht, Bool.false_eq_true, if_false]
      have hns : ∀ p' k, st.slot s p' k ≠ some p := by
        intro p' k hk
        have := b5 s p' k p hk
        have := b4 s p'
        unfold St.slot at hk
        cases hb : AL.get (st.paths s) p' with
        | none => rw [hb] at hk; cases hk
        | some b => grind
      refine ⟨?_, ?_, ?_, b4.congr (by simp) (by simp), ?_, ?_, ?_⟩
      · intro s' k i hk; st_norm at hk ⊢; grind
      · intro s'; st_norm; grind
      · intro s' k i hk; st_norm at hk ⊢; grind
      · intro s' p' k i hk; st_norm at hk ⊢; grind
      · intro i s' hx ho; st_norm at ho ⊢; grind
      · intro i s' hx ho ht2; st_norm at ho ht2 ⊢; grind
  refine ⟨hI, hI.clean_of ?_⟩
  unfold CS.State.unindex
  split <;> (st_norm; simp [hpo])

/-- (O) an entry side without slots loses its id field -/
theorem Idx.clearOid {X st} {p s} (h : Idx (X.add p s) st) (hc : Clean st p s) :
    Idx X (st.modSide p s (fun x => { x with oid := none })) := by
  obtain ⟨hc1, hc2⟩ := hc
  obtain ⟨b1, b2, b3, b4, b5, b6, b7⟩ := h
  have hoob := oid_oob st p s
  unfold Ex2.add at b6 b7
  refine ⟨?_, ?_, ?_, b4.congr (by simp) (by simp), ?_, ?_, ?_⟩
  · intro s' k i hk; st_norm at hk ⊢; grind
  · intro s'; st_norm; grind
  · intro s' k i hk; st_norm at hk ⊢; grind
  · intro s' p' k i hk; st_norm at hk ⊢; grind
  · intro i s' hx ho; st_norm at ho ⊢; grind
  · intro i s' hx ho ht; st_norm at ho ht ⊢; grind

/-- (I) index an un-indexed entry side under a free id -/
theorem Idx.indexOid {X st} {e s} {k : Path.Str} (h : Idx (X.add e s) st) (hc : Clean st e s)
    (hfree : AL.get (st.oids s) (some k) = none) (hlt : e < st.ents.length) :
    Idx X (CS.State.indexOid st e s (some k)) := by
  obtain ⟨hc1, hc2⟩ := hc
  obtain ⟨b1, b2, b3, b4, b5, b6, b7⟩ := h
  unfold Ex2.add at b6 b7
  unfold CS.State.indexOid
  have hp : (((st.modSide e s fun x => { x with oid := some k }).setOids s (AL.set (st.oids s) (some k) e)).side e s).path
      = (st.side e s).path := by st_norm; simp [hlt]
  simp only [hp]
  by_cases ht : truthyS (st.side e s).path = true
  · simp only [ht, if_true]
    refine ⟨?_, ?_, ?_, (b4.congr (by simp) (by simp)).setSlot _ _ _ _ ht (by simpa using hlt), ?_, ?_, ?_⟩
    · intro s' k' i hk; st_norm at hk ⊢; grind
    · intro s'; st_norm; grind
    · intro s' k' i hk; st_norm at hk ⊢; grind
    · intro s' p' k' i hk; st_norm at hk ⊢; grind
    · intro i s' hx ho; st_norm at ho ⊢; grind
    · intro i s' hx ho ht2; st_norm at ho ht2 ⊢; grind
  · simp only [ht, Bool.false_eq_true, if_false]
    refine ⟨?_, ?_, ?_, b4.congr (by simp) (by simp), ?_, ?_, ?_⟩
    · intro s' k' i hk; st_norm at hk ⊢; grind
    · intro s'; st_norm; grind
    · intro s' k' i hk; st_norm at hk ⊢; grind
    · intro s' p' k' i hk; st_norm at hk ⊢; grind
    · intro i s' hx ho; st_norm at ho ⊢; grind
    · intro i s' hx ho ht2; st_norm at ho ht2 ⊢; grind

/-- (PP) remove a path slot whose owner (if any) is `e` -/
theorem Idx.popPath {X st} {e s} {p : Option Path.Str} {k : Oid} (h : Idx X st) (hown : ∀ j, st.slot s p k = some j → j = e) :
    Idx (X.add e s) (st.popPathSlot s p k) := by
  obtain ⟨b1, b2, b3, b4, b5, b6, b7⟩ := h
  unfold Ex2.add
  refine ⟨?_, ?_, ?_, b4.pop _ _ _, ?_, ?_, ?_⟩
  · intro s' k i hk; st_norm at hk ⊢; grind
  · intro s'; st_norm; grind
  · intro s' k i hk; st_norm at hk ⊢; grind
  · intro s' p' k i hk; st_norm at hk ⊢; grind
  · intro i s' hx ho; st_norm at ho ⊢; grind
  · intro i s' hx ho ht2; st_norm at ho ht2 ⊢; grind

/-- (PI) give an entry side that has no path slot a truthy path and its slot -/
theorem Idx.indexPath {X st} {e s} {pth : Path.Str} (h : Idx (X.add e s) st) (hc : ∀ p k, st.slot s p k ≠ some e)
    (hown : AL.get (st.oids s) (st.side e s).oid = some e) (ht : truthyS (some pth) = true)
    (hfree : st.slot s (some pth) (st.side e s).oid = none) (hlt : e < st.ents.length) :
    Idx X ((st.setPathSlot s (some pth) (st.side e s).oid e).modSide e s (fun x => { x with path := some pth })) := by
  obtain ⟨b1, b2, b3, b4, b5, b6, b7⟩ := h
  unfold Ex2.add at b6 b7
  refine ⟨?_, ?_, ?_, ((b4.setSlot s (some pth) (st.side e s).oid e ht hlt).congr (by simp) (by simp)), ?_, ?_, ?_⟩
  · intro s' k i hk; st_norm at hk ⊢; grind
  · intro s'; st_norm; grind
  · intro s' k i hk; st_norm at hk ⊢; grind
  · intro s' p' k i hk; st_norm at hk ⊢; grind
  · intro i s' hx ho; st_norm at ho ⊢; grind
  · intro i s' hx ho ht2; st_norm at ho ht2 ⊢; grind

/-- (PC) an entry side that has no path slot gets a falsy path -/
theorem Idx.clearPath {X st} {e s} {v : Option Path.Str} (h : Idx (X.add e s) st) (hc : ∀ p k, st.slot s p k ≠ some e)
    (hown : (st.side e s).oid ≠ none → AL.get (st.oids s) (st.side e s).oid = some e) (hv : truthyS v = false) : Idx X (st.modSide e s (fun x => { x with path := v })) := by
  obtain ⟨b1, b2, b3, b4, b5, b6, b7⟩ := h
  unfold Ex2.add at b6 b7
  have hoob := path_oob st e s
  have hnone : truthyS (none : Option Path.Str) = false := rfl
  refine ⟨?_, ?_, ?_, b4.congr (by simp) (by simp), ?_, ?_, ?_⟩
  · intro s' k i hk; st_norm at hk ⊢; grind
  · intro s'; st_norm; grind
  · intro s' k i hk; st_norm at hk ⊢; grind
  · intro s' p' k i hk; st_norm at hk ⊢; grind
  · intro i s' hx ho; st_norm at ho ⊢; grind
  · intro i s' hx ho ht2
    by_cases hie : i = e ∧ s' = s
    · obtain ⟨h1, h2⟩ := hie; subst h1; subst h2
      rw [side_modSide] at ht2
      by_cases hl : i < st.ents.length
      · simp [hl, hv] at ht2
      · simp [hl, path_oob st i s' hl] at ht2; exact absurd ht2 (by simp [truthyS])
    · have e1 : (st.modSide e s fun x => { x with path := v }).side i s' = st.side i s' := by
        rw [side_modSide]; split
        · next hh => exact absurd ⟨hh.1, hh.2.1⟩ hie
        · rfl
      rw [e1] at ho ht2 ⊢
      st_norm
      exact b7 i s' (by grind) ho ht2

/-- modifications of fields other than `oid`/`path` -/
theorem Idx.modSide_other {X st} (h : Idx X st) (e : Nat) (s : Sd) (f : Side → Side)
    (hf : ∀ x, (f x).oid = x.oid ∧ (f x).path = x.path) : Idx X (st.modSide e s f) := by
  apply h.congr (by simp) (by simp) (by simp)
  intro i s'; rw [side_modSide]; split
  · next hh => obtain ⟨h1, h2, _⟩ := hh; subst h1; subst h2; exact hf _
  · exact ⟨rfl, rfl⟩

theorem Pend.modSide_other {st} (h : Pend st) (e : Nat) (s : Sd) (f : Side → Side)
    (hf : ∀ x, (f x).oid = x.oid ∧ (f x).changed = x.changed) : Pend (st.modSide e s f) := by
  apply h.congr (by simp)
  intro i s'; rw [side_modSide]; split
  · next hh => obtain ⟨h1, h2, _⟩ := hh; subst h1; subst h2; exact hf _
  · exact ⟨rfl, rfl⟩

end CS.State
