import Csverif.Proofs.StateMoving
/-
C11: `ent[side].changed = v` (the `changed` branch of `updated`, state.py:787-793) and `ent.priority = v`.
The hook recurses (it may zero the other side's flag); everything it does is confined to the `changed` fields of
that entry, its membership in the pending set, and the dirty set.
-/
namespace CS.State

/-- `st'` differs from `st` at most in the `changed` fields of entry `e`, its pending-set membership and the dirty set
    (and `priority`/`ignored`/clock, which no invariant reads) -/
structure ChgRel (e : Nat) (st st' : St) : Prop where
  len : st'.ents.length = st.ents.length
  oids : ∀ s, st'.oids s = st.oids s
  paths : ∀ s, st'.paths s = st.paths s
  sides : ∀ i s, { st'.side i s with changed := .none } = { st.side i s with changed := .none }
  others : ∀ i, i ≠ e → (∀ s, (st'.side i s).changed = (st.side i s).changed) ∧ (i ∈ st'.cs ↔ i ∈ st.cs)
  mov : st'.moving = st.moving

theorem ChgRel.refl (e : Nat) (st : St) : ChgRel e st st := ⟨rfl, fun _ => rfl, fun _ => rfl, fun _ _ => rfl, fun _ _ => ⟨fun _ => rfl, Iff.rfl⟩, rfl⟩
theorem ChgRel.trans {e st st' st''} (h1 : ChgRel e st st') (h2 : ChgRel e st' st'') : ChgRel e st st'' :=
  ⟨h2.len.trans h1.len, fun s => (h2.oids s).trans (h1.oids s), fun s => (h2.paths s).trans (h1.paths s),
   fun i s => (h2.sides i s).trans (h1.sides i s),
   fun i hi => ⟨fun s => ((h2.others i hi).1 s).trans ((h1.others i hi).1 s), (h2.others i hi).2.trans (h1.others i hi).2⟩,
   h2.mov.trans h1.mov⟩

theorem ChgRel.field {e st st'} (h : ChgRel e st st') (i : Nat) (s : Sd) :
    (st'.side i s).oid = (st.side i s).oid ∧ (st'.side i s).path = (st.side i s).path ∧
    (st'.side i s).otype = (st.side i s).otype ∧ (st'.side i s).syncPath = (st.side i s).syncPath := by
  have := h.sides i s
  have h1 := congrArg Side.oid this
  have h2 := congrArg Side.path this
  have h3 := congrArg Side.otype this
  have h4 := congrArg Side.syncPath this
  exact ⟨h1, h2, h3, h4⟩

theorem ChgRel.idx {e st st' X} (h : ChgRel e st st') (hI : Idx X st) : Idx X st' :=
  hI.congr h.len h.oids h.paths (fun i s => ⟨(h.field i s).1, (h.field i s).2.1⟩)

theorem ChgRel.frame {e st st'} (h : ChgRel e st st') : Frame none st st' :=
  Frame.of_sides h.len (fun i s => ⟨(h.field i s).2.2.1, (h.field i s).2.1⟩)

/-- the pending-set clause for one entry -/
def PendE (e : Nat) (st : St) : Prop :=
  (∃ s, (st.side e s).changed.truthy = true ∧ truthyS (st.side e s).oid = true) → e ∈ st.cs

theorem ChgRel.pend {e st st'} (h : ChgRel e st st') (hP : Pend st) (he : PendE e st') : Pend st' := by
  intro i hi
  by_cases hie : i = e
  · subst hie; exact he hi
  · obtain ⟨s, h1, h2⟩ := hi
    rw [(h.others i hie).1 s] at h1; rw [(h.field i s).1] at h2
    exact (h.others i hie).2.2 (hP i ⟨s, h1, h2⟩)

theorem chgRel_csAdd (e : Nat) (st : St) : ChgRel e st (st.csAdd e) :=
  ⟨rfl, fun s => by simp, fun s => by simp, fun _ _ => rfl, fun i hi => ⟨fun _ => rfl, by simp [hi]⟩, rfl⟩
theorem chgRel_csDiscard (e : Nat) (st : St) : ChgRel e st (st.csDiscard e) :=
  ⟨rfl, fun s => by simp, fun s => by simp, fun _ _ => rfl, fun i hi => ⟨fun _ => rfl, by simp [hi]⟩, rfl⟩
theorem chgRel_dirtyAdd (e j : Nat) (st : St) : ChgRel e st (st.dirtyAdd j) :=
  ⟨rfl, fun s => by simp, fun s => by simp, fun _ _ => rfl, fun i _ => ⟨fun _ => rfl, by simp⟩, rfl⟩
theorem chgRel_setChanged (e : Nat) (s : Sd) (v : Chg) (st : St) : ChgRel e st (st.modSide e s (fun x => { x with changed := v })) := by
  refine ⟨by simp, fun s => by simp, fun s => by simp, fun i s' => ?_, fun i hi => ⟨fun s' => ?_, by simp⟩, rfl⟩
  · rw [side_modSide]; split
    · next hh => obtain ⟨h1, h2, _⟩ := hh; subst h1; subst h2; rfl
    · rfl
  · rw [side_modSide]; split
    · next hh => exact absurd hh.1 hi
    · rfl
theorem chgRel_modEnt_prio (e : Nat) (v : Int) (st : St) : ChgRel e st (st.modEnt e (fun x => { x with priority := v })) := by
  have hs : ∀ i s, (st.modEnt e (fun x => { x with priority := v })).side i s = st.side i s := by
    intro i s; unfold St.side; rw [ent_modEnt]; split
    · next hh => obtain ⟨h1, _⟩ := hh; subst h1; cases s <;> rfl
    · rfl
  exact ⟨by simp, fun s => by simp, fun s => by simp, fun i s => by rw [hs], fun i _ => ⟨fun s => by rw [hs], by simp⟩, rfl⟩

/-- the state after the `changed` branch of `updated` -/
def chgHook (st : St) (e : Nat) (s : Sd) (v : Chg) : St :=
  if ((v.truthy && truthyS (st.side e s).oid) || ((st.side e s.other).changed.truthy && truthyS (st.side e s.other).oid)) = true then
    st.csAdd e
  else if ((st.side e s.other).changed.truthy && !truthyS (st.side e s.other).oid) = true then
    (st.csDiscard e).modSide e s.other (fun x => { x with changed := .num 0 })
  else st.csDiscard e

theorem changedRule_eq (s : Sd) (e : Nat) (v : Chg) (st : St) : changedRule s e v st = (.ok (), chgHook st e s v) := by
  simp only [changedRule, chgHook, M.bind_apply, getSt_apply, M.ite_apply, modifySt_apply]
  split
  · rfl
  · split <;> rfl

theorem sideSetBody_changed_eq (setF : SetF) (cfg : Cfg) (e : Nat) (s : Sd) (v : Chg) (st : St) :
    sideSetBody setF cfg e s (.changed v) st =
      (.ok (), ((chgHook st e s v).dirtyAdd e).modSide e s (fun x => { x with changed := v })) := by
  simp only [sideSetBody, updatedSide, M.bind_apply, changedRule_eq, modifySt_apply]

theorem chgRel_chgHook (st : St) (e : Nat) (s : Sd) (v : Chg) : ChgRel e st (chgHook st e s v) := by
  unfold chgHook
  split
  · exact chgRel_csAdd e st
  · split
    · exact (chgRel_csDiscard e st).trans (chgRel_setChanged e s.other _ _)
    · exact chgRel_csDiscard e st

/-- everything `ent[side].changed = v` does stays within `ChgRel`, whatever the outcome -/
theorem chg_rel (cfg : Cfg) : ∀ (n : Nat) (e : Nat) (s : Sd) (v : Chg) (st : St), ChgRel e st (sideSet cfg n e s (.changed v) st).2
  | 0, e, s, v, st => ChgRel.refl e st
  | n + 1, e, s, v, st => by
    show ChgRel e st (sideSetBody (sideSet cfg n) cfg e s (.changed v) st).2
    rw [sideSetBody_changed_eq]
    exact ((chgRel_chgHook st e s v).trans (chgRel_dirtyAdd e e _)).trans (chgRel_setChanged e s v _)

/-- the pending-set clause for the entry after the hook and the field write -/
theorem pendE_chg (st : St) (e : Nat) (s : Sd) (v : Chg) (hlt : e < st.ents.length) :
    PendE e (((chgHook st e s v).dirtyAdd e).modSide e s (fun x => { x with changed := v })) := by
  have hne : ¬ (s.other = s) := by cases s <;> simp [Sd.other]
  have hne2 : ¬ (s = s.other) := by cases s <;> simp [Sd.other]
  unfold chgHook
  by_cases hc : ((v.truthy && truthyS (st.side e s).oid) || ((st.side e s.other).changed.truthy && truthyS (st.side e s.other).oid)) = true
  · simp only [hc, if_true]
    intro _; simp
  · simp only [hc, Bool.false_eq_true, if_false]
    simp only [Bool.or_eq_true, Bool.and_eq_true, not_or, not_and] at hc
    by_cases hw : ((st.side e s.other).changed.truthy && !truthyS (st.side e s.other).oid) = true
    · simp only [hw, if_true]
      rintro ⟨s', h1, h2⟩
      exfalso
      rcases Sd.eq_or_other s s' with hs | hs
      · subst hs
        st_norm at h1 h2
        simp only [hlt, and_true, and_self, if_true, hne, hne2, false_and, if_false] at h1 h2
        exact absurd h2 (by simpa using hc.1 h1)
      · subst hs
        st_norm at h1 h2
        simp only [hlt, and_true, hne, false_and, if_false, and_self, if_true] at h1 h2
        simp [Chg.truthy] at h1
    · simp only [hw, Bool.false_eq_true, if_false]
      rintro ⟨s', h1, h2⟩
      exfalso
      rcases Sd.eq_or_other s s' with hs | hs
      · subst hs
        st_norm at h1 h2
        simp only [hlt, and_true, and_self, if_true] at h1 h2
        exact absurd h2 (by simpa using hc.1 h1)
      · subst hs
        st_norm at h1 h2
        simp only [hlt, and_true, hne, false_and, if_false] at h1 h2
        exact absurd h2 (by simpa using hc.2 h1)

/-- `ent[side].changed = v` raises nothing but fuel exhaustion (and needs one level only); on a normal return the field
    is set and the pending-set clause holds for the entry -/
theorem chg_ok (cfg : Cfg) : ∀ (n : Nat) (e : Nat) (s : Sd) (v : Chg) (st : St), e < st.ents.length →
    (sideSet cfg n e s (.changed v) st).1 = .error .recursion ∨
    ((sideSet cfg n e s (.changed v) st).1 = .ok () ∧ PendE e (sideSet cfg n e s (.changed v) st).2 ∧
      ((sideSet cfg n e s (.changed v) st).2.side e s).changed = v)
  | 0, e, s, v, st, _ => Or.inl rfl
  | n + 1, e, s, v, st, hlt => by
    show (sideSetBody (sideSet cfg n) cfg e s (.changed v) st).1 = _ ∨ ((sideSetBody (sideSet cfg n) cfg e s (.changed v) st).1 = _ ∧
      PendE e (sideSetBody (sideSet cfg n) cfg e s (.changed v) st).2 ∧ ((sideSetBody (sideSet cfg n) cfg e s (.changed v) st).2.side e s).changed = v)
    rw [sideSetBody_changed_eq]
    right
    refine ⟨by first | rfl | trivial, pendE_chg st e s v hlt, ?_⟩
    have hl : e < (chgHook st e s v).ents.length := by
      rw [(chgRel_chgHook st e s v).len]; exact hlt
    rw [side_modSide]; simp [hl]

/-- one level of fuel is enough for `ent[side].changed = v` (fix B removed the recursion) -/
theorem chg_total (cfg : Cfg) (n : Nat) (e : Nat) (s : Sd) (v : Chg) (st : St) :
    (sideSet cfg (n + 1) e s (.changed v) st).1 = .ok () := by
  show (sideSetBody (sideSet cfg n) cfg e s (.changed v) st).1 = _
  rw [sideSetBody_changed_eq]

/-! ### the same facts as Hoare triples -/

theorem Tr.of_spec {P : St → Prop} {m : M Unit} {Q : St → Prop} {E : St → Prop} {R : Prop}
    (h : ∀ st, P st → (R ∧ (m st).1 = .error .recursion) ∨ ((m st).1 = .ok () ∧ Q (m st).2)) : Tr P m (fun _ => Q) E := by
  intro st hp
  rcases h st hp with ⟨_, hr⟩ | ⟨hok, hq⟩
  · exact ⟨fun a ha => (by rw [hr] at ha; cases ha), fun x hx hne => by rw [hr] at hx; cases hx; exact _root_.absurd rfl hne⟩
  · exact ⟨fun _ _ => hq, fun x hx => by rw [hok] at hx; cases hx⟩

theorem sideSet_oid_tr (cfg : Cfg) (n : Nat) (X0 : Ex2) (e : Nat) (s : Sd) (v : Oid) (st0 : St) :
    Tr (fun st => st = st0 ∧ Idx X0 st ∧ Pend st ∧ e < st.ents.length) (sideSet cfg n e s (.oid v))
      (fun _ st' => Idx X0 st' ∧ Pend st' ∧ Frame none st0 st') (fun _ => False) := by
  cases n with
  | zero => intro st _; exact ⟨fun a ha => (by cases ha), fun x hx hne => by cases hx; exact _root_.absurd rfl hne⟩
  | succ n =>
    apply Tr.of_spec (R := True)
    rintro st ⟨rfl, hI, hP, hlt⟩
    exact sideSet_oid_spec (oustOk_sideSet cfg n) cfg hI hP e s v hlt

theorem sideSet_changed_tr (cfg : Cfg) (n : Nat) (X0 : Ex2) (e : Nat) (s : Sd) (v : Chg) (st0 : St) :
    Tr (fun st => st = st0 ∧ Idx X0 st ∧ Pend st ∧ e < st.ents.length) (sideSet cfg n e s (.changed v))
      (fun _ st' => Idx X0 st' ∧ Pend st' ∧ ChgRel e st0 st') (fun _ => False) := by
  apply Tr.of_spec (R := True)
  rintro st ⟨rfl, hI, hP, hlt⟩
  have hrel := chg_rel cfg n e s v st
  rcases chg_ok cfg n e s v st hlt with h | ⟨hok, hpe, _⟩
  · exact Or.inl ⟨trivial, h⟩
  · exact Or.inr ⟨hok, hrel.idx hI, hrel.pend hP hpe, hrel⟩

/-- `ent[side].changed += punt` -/
theorem bumpChanged_tr (cfg : Cfg) (n : Nat) (X0 : Ex2) (e : Nat) (s : Sd) (st0 : St) :
    Tr (fun st => ChgRel e st0 st ∧ Idx X0 st ∧ Pend st ∧ e < st.ents.length) (bumpChanged (sideSet cfg n) cfg e s)
      (fun _ st' => ChgRel e st0 st' ∧ Idx X0 st' ∧ Pend st' ∧ e < st'.ents.length) (fun _ => False) := by
  unfold bumpChanged
  apply Tr.getSt_bind
  intro st1
  apply Tr.with_pre (φ := ChgRel e st0 st1 ∧ e < st1.ents.length) (fun st ⟨h1, h2, _, _, h5⟩ => h1 ▸ ⟨h2, h5⟩)
  rintro ⟨hrel0, hlt0⟩
  cases hc : (st1.side e s).changed with
  | num m =>
    simp only
    apply Tr.when
    · intro _
      refine (sideSet_changed_tr cfg n X0 e s _ st1).conseq ?_ ?_ (fun _ h => h)
      · rintro st ⟨rfl, _, hI, hP, hlt⟩; exact ⟨rfl, hI, hP, hlt⟩
      · rintro _ st' ⟨hI, hP, hrel⟩
        exact ⟨hrel0.trans hrel, hI, hP, by rw [hrel.len]; exact hlt0⟩
    · rintro _ st ⟨rfl, h⟩; exact h
  | none => exact Tr.pure (fun st ⟨_, h⟩ => h)
  | fls => exact Tr.pure (fun st ⟨_, h⟩ => h)

/-- `ent.priority = v` (state.py:355-362, 794-800) -/
theorem setPriority_tr (cfg : Cfg) (n : Nat) (X0 : Ex2) (e : Nat) (v : Int) (st0 : St) :
    Tr (fun st => st = st0 ∧ Idx X0 st ∧ Pend st ∧ e < st.ents.length) (setPriority (sideSet cfg n) cfg e v)
      (fun _ st' => ChgRel e st0 st' ∧ Idx X0 st' ∧ Pend st') (fun _ => False) := by
  unfold setPriority
  apply Tr.getSt_bind
  intro st1
  apply Tr.when
  · intro _
    refine Tr.bind (R := fun _ st' => ChgRel e st0 st' ∧ Idx X0 st' ∧ Pend st' ∧ e < st'.ents.length) ?_ ?_
    · apply Tr.when
      · intro _
        refine Tr.bind (R := fun _ st' => ChgRel e st0 st' ∧ Idx X0 st' ∧ Pend st' ∧ e < st'.ents.length) ?_ ?_
        · exact (bumpChanged_tr cfg n X0 e .L st0).pre (fun st ⟨_, h1, h2, h3, h4⟩ => ⟨h1 ▸ ChgRel.refl e st, h2, h3, h4⟩)
        · intro _; exact bumpChanged_tr cfg n X0 e .R st0
      · rintro _ st ⟨_, h1, h2, h3, h4⟩; exact ⟨h1 ▸ ChgRel.refl e st, h2, h3, h4⟩
    · intro _
      apply Tr.modify
      rintro st ⟨hrel, hI, hP, hlt⟩
      have hr2 : ChgRel e st ((st.dirtyAdd e).modEnt e fun x => { x with priority := v }) :=
        (chgRel_dirtyAdd e e st).trans (chgRel_modEnt_prio e v _)
      refine ⟨hrel.trans hr2, hr2.idx hI, hr2.pend hP ?_⟩
      intro ⟨s, h1, h2⟩
      have hs : ∀ s, ((st.dirtyAdd e).modEnt e fun x => { x with priority := v }).side e s = st.side e s := by
        intro s; unfold St.side; rw [ent_modEnt]; split
        · cases s <;> rfl
        · rfl
      rw [hs] at h1 h2
      have := hP e ⟨s, h1, h2⟩
      simpa using this
  · rintro _ st ⟨_, h1, h2, h3, _⟩; exact ⟨h1 ▸ ChgRel.refl e st, h2, h3⟩

end CS.State
