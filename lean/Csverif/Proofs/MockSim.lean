import Csverif.Proofs.MockInv
/- Simulation of the mock provider by the reference tree, one primitive / operation at a time. -/
namespace CS.MockFS
open CS.Path
open CS.Tree (Kind Err)
set_option linter.unusedVariables false
variable {C H : Type}

/-! ### result relation -/

/-- a mock `OInfo` and a tree info describe the same object (the oid is the subject of separate theorems) -/
def InfoRel (c : Cfg) (hc : HashCfg C H) (i : Info H) (ti : Tree.Info C) : Prop :=
  i.kind = ti.kind ∧
  i.hash = (match ti.kind with | .dir => none | .file => ti.content.map hc.hashOf) ∧
  i.size = (match ti.content with | some x => hc.sizeOf x | none => 0) ∧
  i.path = canon c.sep ti.path ∧
  i.name = ti.name

inductive ResRel (c : Cfg) (fl : Flavour) (hc : HashCfg C H) : Res C H → Tree.Res C → Prop where
  | info {i ti} : InfoRel c hc i ti → ResRel c fl hc (.info i) (.info ti)
  | none : ResRel c fl hc .none .none
  | oid {o p} : (fl.oip = true → o = canon c.sep p) → ResRel c fl hc (.oid o) (.path p)
  | unit : ResRel c fl hc .unit .unit
  | data {x} : ResRel c fl hc (.data x) (.data x)
  | bool {b} : ResRel c fl hc (.bool b) (.bool b)
  | list {l tl} : (∀ i ∈ l, ∃ ti ∈ tl, InfoRel c hc i ti) → (∀ ti ∈ tl, ∃ i ∈ l, InfoRel c hc i ti) →
      ResRel c fl hc (.list l) (.list tl)
  | err {e} : ResRel c fl hc (.err e) (.err e)

theorem name_canon {c : Cfg} (hc : COk2 c) {l : List Str} (hl : Comps c l) :
    (split c (canon c.sep l)).2 = l.getLast?.getD [] := by
  rcases List.eq_nil_or_concat l with rfl | ⟨init, a, rfl⟩
  · rw [split_canon_nil hc.ok]; rfl
  · rw [List.concat_eq_append] at hl ⊢
    rw [basename_canon_concat hc.ok init a hl]; simp

theorem infoRel_obj {c : Cfg} (hc : COk2 c) {fl : Flavour} (hcfg : HashCfg C H) {o : Obj C} (hcl : Clean c fl o.path) :
    InfoRel c hcfg (infoOfObj c hcfg o) (Tree.infoOf (nodeOf c o)) := by
  obtain ⟨hl, hp, _⟩ := clean_C hc hcl
  refine ⟨rfl, rfl, ?_, hp, ?_⟩
  · simp only [infoOfObj, objSize, Tree.infoOf, nodeOf]
    cases o.contents <;> rfl
  · simp only [infoOfObj, Tree.infoOf, nodeOf]
    conv => lhs; rw [hp]
    exact name_canon hc hl

/-! ### id resolution -/

/-- where the object an id refers to lives (display components), if it is live -/
def resolve (c : Cfg) (s : St C) (oid : Str) : Option (List Str) := (pv s oid).map (fun ho => Path.C c ho.2.path)

theorem lookupT_resolve {c : Cfg} (hc : COk2 c) {fl : Flavour} {s : St C} {t : Tree.T C}
    (hi : Inv c fl s) (hr : Rel c s t) (oid : Str) :
    Tree.lookupT (tcfg c fl) t (resolve c s oid) =
      (pv s oid).map (fun ho => (foldL c (Path.C c ho.2.path), nodeOf c ho.2)) := by
  unfold resolve
  cases hp : pv s oid with
  | none => rfl
  | some ho =>
    obtain ⟨h, o⟩ := ho
    obtain ⟨h1, h2, h3⟩ := pv_some.1 hp
    have hcl := clean_C hc (hi.clean h o h2)
    have hk := comps_foldL_ok hc hcl.1
    simp only [Option.map_some, Tree.lookupT, tfold_eq]
    rw [hr.get _ hk, (pv_canon_iff hc hi hk).2 ⟨h2, h3, rfl⟩]
    rfl

/-- a clean path argument looks up the same thing on both sides -/
theorem get_clean {c : Cfg} (hc : COk2 c) {fl : Flavour} {s : St C} {t : Tree.T C}
    (hr : Rel c s t) {p : Str} (hp : Clean c fl p) :
    Tree.get t (Tree.fold (tcfg c fl) (Path.C c p)) = (infoPath c s p).map (fun ho => nodeOf c ho.2) := by
  have hcl := clean_C hc hp
  rw [tfold_eq, hr.get _ (comps_foldL_ok hc hcl.1), infoPath_eq, norm_clean hc hp]

/-! ### Inv / Rel are insensitive to the event log and the cursor -/

theorem inv_of_same {c : Cfg} {fl : Flavour} {s s' : St C} (hh : s'.heap = s.heap) (hd : s'.dict = s.dict)
    (hn : s'.nextId = s.nextId) (hi : Inv c fl s) : Inv c fl s' :=
  ⟨hd ▸ hi.nodup, fun k h => by rw [hd, hh]; exact hi.valsLt k h, fun h o => by rw [hh]; exact hi.clean h o,
   fun k h o => by rw [hd, hh]; exact hi.pathKey k h o, fun h o => by rw [hd, hh]; exact hi.filed h o,
   fun h o => by rw [hd, hh]; exact hi.oidFiled h o, fun ho h o => by rw [hh]; exact hi.pathOid ho h o,
   fun ho h o => by rw [hh]; exact hi.idHead ho h o, fun ho k h => by rw [hd, hn]; exact hi.idKeys ho k h,
   fun ho k h => by rw [hd]; exact hi.pathKeysHead ho k h, fun ho k h o => by rw [hd, hh]; exact hi.idKeyOid ho k h o,
   fun ho h o => by rw [hh, hn]; exact hi.idAll ho h o, fun ho h h' o o' => by rw [hh]; exact hi.oidUnique ho h h' o o'⟩

theorem pv_of_same {s s' : St C} (hh : s'.heap = s.heap) (hd : s'.dict = s.dict) (k : Str) : pv s' k = pv s k := by
  unfold pv getObj; rw [hh, hd]

theorem rel_of_same {c : Cfg} {s s' : St C} {t : Tree.T C} (hh : s'.heap = s.heap) (hd : s'.dict = s.dict)
    (hr : Rel c s t) : Rel c s' t :=
  ⟨fun k hk => by rw [pv_of_same hh hd]; exact hr.get k hk, hr.keys, hr.tnodup⟩

/-! ### `store` and object allocation (create, mkdir) -/

theorem dget_store_cases {c : Cfg} (s : St C) (h : Nat) (o : Obj C) {k : Str} {h' : Nat}
    (hg : dget (store c s h o).dict k = some h') : h' = h ∨ dget s.dict k = some h' := by
  simp only [store] at hg
  split at hg
  · rw [dget_dset] at hg
    split at hg
    · left; exact (Option.some.inj hg).symm
    · right; exact hg
  · rw [dget_dset] at hg
    split at hg
    · left; exact (Option.some.inj hg).symm
    · rw [dget_dset] at hg
      split at hg
      · left; exact (Option.some.inj hg).symm
      · right; exact hg

theorem dget_store {c : Cfg} (s : St C) (h : Nat) (o : Obj C) (q : Str)
    (hoid : o.oid = norm c o.path ∨ o.oid.head? ≠ some '/') (hq : q.head? = some '/') :
    dget (store c s h o).dict q = if q = norm c o.path then some h else dget s.dict q := by
  simp only [store]
  rcases hoid with he | hn
  · have : (dget (dset s.dict (norm c o.path) h) o.oid).isSome = true := by
      rw [he, dget_dset]; simp
    rw [if_pos this, dget_dset]
  · have hqo : q ≠ o.oid := by intro e; rw [e] at hq; exact hn hq
    split
    · rw [dget_dset]
    · rw [dget_dset, dget_dset]; simp [hqo]

theorem dget_store_cases3 {c : Cfg} (s : St C) (h : Nat) (o : Obj C) {k : Str} {h' : Nat}
    (hg : dget (store c s h o).dict k = some h') : k = norm c o.path ∨ k = o.oid ∨ dget s.dict k = some h' := by
  simp only [store] at hg
  split at hg
  · rw [dget_dset] at hg
    split at hg
    · left; assumption
    · right; right; exact hg
  · rw [dget_dset] at hg
    split at hg
    · right; left; assumption
    · rw [dget_dset] at hg
      split at hg
      · left; assumption
      · right; right; exact hg

theorem dget_store_other {c : Cfg} (s : St C) (h : Nat) (o : Obj C) {q : Str}
    (h1 : q ≠ norm c o.path) (h2 : q ≠ o.oid) : dget (store c s h o).dict q = dget s.dict q := by
  simp only [store]
  split
  · rw [dget_dset, if_neg h1]
  · rw [dget_dset, if_neg h2, dget_dset, if_neg h1]

/-- the object's own oid key after `store`, when it is the path key or was not in use -/
theorem dget_store_oid {c : Cfg} (s : St C) (h : Nat) (o : Obj C)
    (hf : o.oid = norm c o.path ∨ dget s.dict o.oid = none) : dget (store c s h o).dict o.oid = some h := by
  simp only [store]
  by_cases he : o.oid = norm c o.path
  · have : (dget (dset s.dict (norm c o.path) h) o.oid).isSome = true := by rw [he, dget_dset]; simp
    rw [if_pos this, dget_dset, if_pos he]
  · rcases hf with hf | hf
    · exact absurd hf he
    · have : ¬ (dget (dset s.dict (norm c o.path) h) o.oid).isSome = true := by
        rw [dget_dset, if_neg he, hf]; simp
      rw [if_neg this, dget_dset]; simp

theorem nodup_store {c : Cfg} {s : St C} (hn : (s.dict.map (·.1)).Nodup) (h : Nat) (o : Obj C) :
    ((store c s h o).dict.map (·.1)).Nodup := by
  simp only [store]
  split
  · exact nodup_dset hn _ _
  · exact nodup_dset (nodup_dset hn _ _) _ _

theorem newObj_path {c : Cfg} (hc : COk2 c) {fl : Flavour} (s : St C) {p : Str} (hp : Clean c fl p) (kind : Kind) (x : Option C) :
    (newObj fl s p kind x).1.path = p := by
  obtain ⟨l, hl, rfl, _⟩ := hp
  simp only [newObj]
  split
  · rfl
  · rename_i hne
    have hln : l ≠ [] := by
      intro e; subst e; apply hne
      simp [canon, intercalate, hc.sep]
    have h1 : rstrip c.sep (canon c.sep l) = canon c.sep l := rstrip_canon hl.1 hln
    rw [← hc.sep]; exact h1

theorem norm_head {c : Cfg} (hc : COk2 c) {fl : Flavour} {p : Str} (hp : Clean c fl p) : (norm c p).head? = some '/' := by
  rw [norm_clean hc hp, head_canon, hc.sep]

theorem norm_eq_self_of_oip {c : Cfg} (hc : COk2 c) {fl : Flavour} {p : Str} (hp : Clean c fl p) (ho : fl.oip = true) :
    norm c p = p := by
  obtain ⟨hl, hpp, hf⟩ := clean_C hc hp
  rw [norm_clean hc hp, hf ho, ← hpp]

theorem sim_alloc {c : Cfg} (hc : COk2 c) {fl : Flavour} {s : St C} {t : Tree.T C} (hi : Inv c fl s) (hr : Rel c s t)
    {p : Str} (hp : Clean c fl p) (hfree : infoPath c s p = none) (kind : Kind) (x : Option C) :
    Inv c fl (allocStore c fl s p kind x).1 ∧
    Rel c (allocStore c fl s p kind x).1
      (Tree.set t (foldL c (Path.C c p)) (nodeOf c (allocStore c fl s p kind x).2.2)) ∧
    (allocStore c fl s p kind x).2.2.path = p ∧ (allocStore c fl s p kind x).2.2.live = true ∧
    (allocStore c fl s p kind x).2.2.kind = kind ∧ (allocStore c fl s p kind x).2.2.contents = x ∧
    (fl.oip = true → (allocStore c fl s p kind x).2.2.oid = p) := by
  -- name the pieces
  have hopath := newObj_path hc s hp kind x
  generalize hno : newObj fl s p kind x = no at hopath
  obtain ⟨o, nid⟩ := no
  simp only at hopath
  have hlive : o.live = true := by have := congrArg (·.1.live) hno; simpa [newObj] using this.symm
  have hkind : o.kind = kind := by have := congrArg (·.1.kind) hno; simpa [newObj] using this.symm
  have hcont : o.contents = x := by have := congrArg (·.1.contents) hno; simpa [newObj] using this.symm
  have hoid1 : fl.oip = true → o.oid = p := by
    intro ho; have := congrArg (·.1.oid) hno; simp only [newObj, ho, if_true] at this; exact this.symm
  have hoid2 : fl.oip = false → o.oid = (toString s.nextId).toList := by
    intro ho; have := congrArg (·.1.oid) hno
    simp only [newObj, ho, Bool.false_eq_true, if_false] at this; exact this.symm
  have hoid : o.oid = norm c o.path ∨ o.oid.head? ≠ some '/' := by
    cases ho : fl.oip with
    | true => left; rw [hoid1 ho, hopath, norm_eq_self_of_oip hc hp ho]
    | false => right; rw [hoid2 ho]; exact idStr_head _
  have hoidp : fl.oip = true → o.oid = norm c o.path := by
    intro ho; rw [hoid1 ho, hopath, norm_eq_self_of_oip hc hp ho]
  have hnid : nid = s.nextId + 1 := by
    have := congrArg (·.2) hno; simp only [newObj] at this; exact this.symm
  have hfresh : fl.oip = false → dget s.dict o.oid = none := by
    intro ho
    cases hd : dget s.dict o.oid with
    | none => rfl
    | some x =>
      obtain ⟨n, hn, hkn⟩ := hi.idKeys ho _ x hd (by rw [hoid2 ho]; exact idStr_head _)
      rw [hoid2 ho] at hkn
      have := idStr_injective hkn
      omega
  have hall : allocStore c fl s p kind x =
      (store c { s with heap := s.heap ++ [o], nextId := nid } s.heap.length o, s.heap.length, o) := by
    simp only [allocStore, hno]
  rw [hall]
  simp only
  generalize hs1 : ({ s with heap := s.heap ++ [o], nextId := nid } : St C) = s1
  have hd1 : s1.dict = s.dict := by rw [← hs1]
  have hh1 : s1.heap = s.heap ++ [o] := by rw [← hs1]
  have hheap : (store c s1 s.heap.length o).heap = s.heap ++ [o] := by rw [store_heap, hh1]
  have hn1 : (store c s1 s.heap.length o).nextId = s.nextId + 1 := by rw [store_nextId, ← hs1]; exact hnid
  have hnk : norm c o.path = canon c.sep (foldL c (Path.C c p)) := by rw [hopath]; exact norm_clean hc hp
  have hcl := clean_C hc hp
  have hK := comps_foldL_ok hc hcl.1
  -- nothing live is filed under the new key
  have hnolive : ∀ (h' : Nat) (o' : Obj C), s.heap[h']? = some o' → o'.live = true → norm c o'.path ≠ norm c o.path := by
    intro h' o' h1 h2 he
    have := hi.filed h' o' h1 h2
    rw [he, hopath] at this
    have hpv : pv s (norm c p) = some (h', o') := pv_some.2 ⟨this, h1, h2⟩
    rw [infoPath_eq] at hfree
    rw [hfree] at hpv; cases hpv
  have hget_new : (s.heap ++ [o])[s.heap.length]? = some o := by simp
  have hget_old : ∀ (h' : Nat), h' < s.heap.length → (s.heap ++ [o])[h']? = s.heap[h']? :=
    fun h' hlt => List.getElem?_append_left hlt
  have hsplit : ∀ (h' : Nat) (o' : Obj C), (s.heap ++ [o])[h']? = some o' → (h' < s.heap.length ∧ s.heap[h']? = some o') ∨ (h' = s.heap.length ∧ o' = o) := by
    intro h' o' hg
    by_cases hlt : h' < s.heap.length
    · left; exact ⟨hlt, by rw [← hget_old h' hlt]; exact hg⟩
    · right
      have hge : s.heap.length ≤ h' := by omega
      rw [List.getElem?_append_right hge] at hg
      have : h' - s.heap.length = 0 := by
        by_cases h0 : h' - s.heap.length = 0
        · exact h0
        · have : ([o] : List (Obj C))[h' - s.heap.length]? = none := by
            apply List.getElem?_eq_none; simp; omega
          rw [this] at hg; cases hg
      rw [this] at hg
      simp at hg
      exact ⟨by omega, hg.symm⟩
  refine ⟨⟨?_, ?_, ?_, ?_, ?_, ?_, ?_, ?_, ?_, ?_, ?_, ?_, ?_⟩, ⟨?_, ?_, ?_⟩, hopath, hlive, hkind, hcont, hoid1⟩
  · exact nodup_store (hd1 ▸ hi.nodup) _ _
  · intro k h' hg
    rw [hheap, List.length_append]
    rcases dget_store_cases s1 _ o hg with e | e
    · subst e; simp
    · rw [hd1] at e; have := hi.valsLt k h' e; simp; omega
  · intro h' o' hg
    rw [hheap] at hg
    rcases hsplit h' o' hg with ⟨_, h1⟩ | ⟨_, e2⟩
    · exact hi.clean h' o' h1
    · rw [e2, hopath]; exact hp
  · intro k h' o' hk hg hg2
    rw [hheap] at hg2
    rw [dget_store s1 _ o k hoid hk, hd1] at hg
    split at hg
    · rename_i hkk
      have : h' = s.heap.length := (Option.some.inj hg).symm
      subst this
      rw [hget_new] at hg2
      cases hg2
      exact hkk.symm
    · have hlt := hi.valsLt k h' hg
      rw [hget_old h' hlt] at hg2
      exact hi.pathKey k h' o' hk hg hg2
  · intro h' o' hg hl'
    rw [hheap] at hg
    rcases hsplit h' o' hg with ⟨hlt, h1⟩ | ⟨e1, e2⟩
    · have hcl' := hi.clean h' o' h1
      rw [dget_store s1 _ o _ hoid (norm_head hc hcl'), if_neg (hnolive h' o' h1 hl'), hd1]
      exact hi.filed h' o' h1 hl'
    · rw [e2, e1, dget_store s1 _ o _ hoid (norm_head hc (hopath ▸ hp))]; simp
  · intro h' o' hg hl'
    rw [hheap] at hg
    rcases hsplit h' o' hg with ⟨hlt, h1⟩ | ⟨e1, e2⟩
    · have hold := hi.oidFiled h' o' h1 hl'
      have hne1 : o'.oid ≠ norm c o.path := by
        cases ho : fl.oip with
        | true =>
          rw [hi.pathOid ho h' o' h1, ← norm_eq_self_of_oip hc (hi.clean h' o' h1) ho]
          exact hnolive h' o' h1 hl'
        | false =>
          intro e
          have := hi.idHead ho h' o' h1
          rw [e, norm_head hc (hopath ▸ hp)] at this
          exact this rfl
      have hne2 : o'.oid ≠ o.oid := by
        cases ho : fl.oip with
        | true => rw [hoidp ho]; exact hne1
        | false =>
          intro e
          obtain ⟨n, hn, hkn⟩ := hi.idKeys ho _ h' hold (hi.idHead ho h' o' h1)
          rw [e, hoid2 ho] at hkn
          have := idStr_injective hkn
          omega
      rw [dget_store_other s1 _ o hne1 hne2, hd1]; exact hold
    · rw [e2, e1]
      apply dget_store_oid
      cases ho : fl.oip with
      | true => left; exact hoidp ho
      | false => right; rw [hd1]; exact hfresh ho
  · intro ho h' o' hg
    rw [hheap] at hg
    rcases hsplit h' o' hg with ⟨_, h1⟩ | ⟨_, e2⟩
    · exact hi.pathOid ho h' o' h1
    · rw [e2, hoid1 ho, hopath]
  · intro ho h' o' hg
    rw [hheap] at hg
    rcases hsplit h' o' hg with ⟨_, h1⟩ | ⟨_, e2⟩
    · exact hi.idHead ho h' o' h1
    · rw [e2, hoid2 ho]; exact idStr_head _
  · intro ho k h' hg hk
    rw [hn1]
    rcases dget_store_cases3 s1 _ o hg with e | e | e
    · exact absurd (e ▸ norm_head hc (hopath ▸ hp)) hk
    · exact ⟨s.nextId, by omega, by rw [e, hoid2 ho]⟩
    · rw [hd1] at e
      obtain ⟨n, hn, hkn⟩ := hi.idKeys ho k h' e hk
      exact ⟨n, by omega, hkn⟩
  · intro ho k h' hg
    rcases dget_store_cases3 s1 _ o hg with e | e | e
    · rw [e]; exact norm_head hc (hopath ▸ hp)
    · rw [e, hoid1 ho]; obtain ⟨_, hpp, _⟩ := clean_C hc hp; rw [hpp, head_canon, hc.sep]
    · rw [hd1] at e; exact hi.pathKeysHead ho k h' e
  · intro ho k h' ob hk hg hg2
    rw [hheap] at hg2
    rcases dget_store_cases3 s1 _ o hg with e | e | e
    · exact absurd (e ▸ norm_head hc (hopath ▸ hp)) hk
    · have hown : dget (store c s1 s.heap.length o).dict o.oid = some s.heap.length := by
        apply dget_store_oid; right; rw [hd1]; exact hfresh ho
      rw [e, hown] at hg
      have : h' = s.heap.length := (Option.some.inj hg).symm
      subst this
      rw [hget_new] at hg2
      cases hg2; exact e.symm
    · rw [hd1] at e
      have hlt := hi.valsLt k h' e
      rw [hget_old h' hlt] at hg2
      exact hi.idKeyOid ho k h' ob hk e hg2
  · intro ho h' o' hg
    rw [hheap] at hg
    rw [hn1]
    rcases hsplit h' o' hg with ⟨_, h1⟩ | ⟨_, e2⟩
    · obtain ⟨n, hn, hkn⟩ := hi.idAll ho h' o' h1
      exact ⟨n, by omega, hkn⟩
    · exact ⟨s.nextId, by omega, by rw [e2, hoid2 ho]⟩
  · intro ho h' h'' o' o'' hg hg' he
    rw [hheap] at hg hg'
    rcases hsplit h' o' hg with ⟨_, h1⟩ | ⟨e1, e2⟩
    · rcases hsplit h'' o'' hg' with ⟨_, h1'⟩ | ⟨e1', e2'⟩
      · exact hi.oidUnique ho h' h'' o' o'' h1 h1' he
      · obtain ⟨n, hn, hkn⟩ := hi.idAll ho h' o' h1
        rw [he, e2', hoid2 ho] at hkn
        have := idStr_injective hkn
        omega
    · rcases hsplit h'' o'' hg' with ⟨_, h1'⟩ | ⟨e1', e2'⟩
      · obtain ⟨n, hn, hkn⟩ := hi.idAll ho h'' o'' h1'
        rw [← he, e2, hoid2 ho] at hkn
        have := idStr_injective hkn
        omega
      · rw [e1, e1']
  · intro k hk
    rw [Tree.get_set]
    have hkey : dget (store c s1 s.heap.length o).dict (canon c.sep k) =
        if canon c.sep k = norm c o.path then some s.heap.length else dget s.dict (canon c.sep k) :=
      hd1 ▸ dget_store s1 _ o _ hoid (by rw [head_canon, hc.sep])
    by_cases hkk : k = foldL c (Path.C c p)
    · subst hkk
      have : pv (store c s1 s.heap.length o) (canon c.sep (foldL c (Path.C c p))) = some (s.heap.length, o) := by
        apply pv_some.2
        refine ⟨?_, by rw [hheap]; exact hget_new, hlive⟩
        rw [hkey, hnk]; simp
      rw [this]; simp
    · have hne : canon c.sep k ≠ norm c o.path := by
        rw [hnk]; exact fun e => hkk (canon_inj hk.1 hK.1 e)
      simp only [hkk, if_false]
      rw [hr.get k hk]
      congr 1
      unfold pv getObj
      rw [hkey, if_neg hne, hheap]
      cases hd : dget s.dict (canon c.sep k) with
      | none => rfl
      | some h' => simp only; rw [hget_old h' (hi.valsLt _ _ hd)]
  · intro e he
    rcases Tree.mem_set he with rfl | ⟨h1, _⟩
    · exact hK
    · exact hr.keys e h1
  · exact Tree.nodup_set hr.tnodup _ _

/-! ### updating one object in place (upload, delete) -/

theorem sim_set {c : Cfg} (hc : COk2 c) {fl : Flavour} {s : St C} {t : Tree.T C} (hi : Inv c fl s) (hr : Rel c s t)
    {h : Nat} {o o' : Obj C} (hho : s.heap[h]? = some o) (hlive : o.live = true) (hpath : o'.path = o.path)
    (hoid' : o'.oid = o.oid) :
    Inv c fl { s with heap := s.heap.set h o' } ∧
    (o'.live = true → Rel c { s with heap := s.heap.set h o' } (Tree.set t (foldL c (Path.C c o.path)) (nodeOf c o'))) ∧
    (o'.live = false → Rel c { s with heap := s.heap.set h o' } (Tree.erase t (foldL c (Path.C c o.path)))) := by
  have hlt : h < s.heap.length := by
    rcases List.getElem?_eq_some_iff.1 hho with ⟨hl, _⟩; exact hl
  have hget : ∀ (j : Nat), (s.heap.set h o')[j]? = if h = j then some o' else s.heap[j]? := by
    intro j; rw [List.getElem?_set]; simp [hlt]
  have hclo := clean_C hc (hi.clean h o hho)
  have hK := comps_foldL_ok hc hclo.1
  have hfiledK : dget s.dict (canon c.sep (foldL c (Path.C c o.path))) = some h := by
    have := hi.filed h o hho hlive
    rwa [norm_clean hc (hi.clean h o hho)] at this
  -- a clean key that points at cell h is the object's own key
  have hown : ∀ (k : List Str), Comps c k → dget s.dict (canon c.sep k) = some h → k = foldL c (Path.C c o.path) := by
    intro k hk hd
    have := hi.pathKey _ h o (by rw [head_canon, hc.sep]) hd hho
    rw [norm_clean hc (hi.clean h o hho)] at this
    exact (canon_inj hK.1 hk.1 this).symm
  -- lookups of other clean keys are unchanged
  have hother : ∀ (k : List Str), Comps c k → k ≠ foldL c (Path.C c o.path) →
      pv { s with heap := s.heap.set h o' } (canon c.sep k) = pv s (canon c.sep k) := by
    intro k hk hne
    unfold pv getObj
    simp only
    cases hd : dget s.dict (canon c.sep k) with
    | none => rfl
    | some j =>
      have : h ≠ j := by intro e; subst e; exact hne (hown k hk hd)
      simp only [hget j, this, if_false]
  have hself : pv { s with heap := s.heap.set h o' } (canon c.sep (foldL c (Path.C c o.path))) =
      if o'.live then some (h, o') else none := by
    unfold pv getObj
    simp only [hfiledK, hget h, if_true, Option.map_some]
  have hcell : ∀ (j : Nat) (ob : Obj C), (s.heap.set h o')[j]? = some ob →
      ∃ ob0, s.heap[j]? = some ob0 ∧ ob0.oid = ob.oid := by
    intro j ob hg
    rw [hget j] at hg
    split at hg
    · rename_i e; subst e; cases hg; exact ⟨o, hho, hoid'.symm⟩
    · exact ⟨ob, hg, rfl⟩
  refine ⟨⟨hi.nodup, ?_, ?_, ?_, ?_, ?_, ?_, ?_, fun ho k j hd hk => hi.idKeys ho k j hd hk,
    fun ho k j hd => hi.pathKeysHead ho k j hd, ?_, ?_, ?_⟩, ?_, ?_⟩
  · intro k j hd
    simp only [List.length_set]
    exact hi.valsLt k j hd
  · intro j ob hg
    simp only [hget j] at hg
    split at hg
    · cases hg; rw [hpath]; exact hi.clean h o hho
    · exact hi.clean j ob hg
  · intro k j ob hk hd hg
    simp only [hget j] at hg
    split at hg
    · rename_i e; subst e; cases hg; rw [hpath]; exact hi.pathKey k h o hk hd hho
    · exact hi.pathKey k j ob hk hd hg
  · intro j ob hg hl
    simp only [hget j] at hg
    split at hg
    · rename_i e; subst e; cases hg; rw [hpath]; exact hi.filed h o hho hlive
    · exact hi.filed j ob hg hl
  · intro j ob hg hl
    simp only [hget j] at hg
    split at hg
    · rename_i e; subst e; cases hg; rw [hoid']; exact hi.oidFiled h o hho hlive
    · exact hi.oidFiled j ob hg hl
  · intro ho j ob hg
    simp only [hget j] at hg
    split at hg
    · cases hg; rw [hoid', hpath]; exact hi.pathOid ho h o hho
    · exact hi.pathOid ho j ob hg
  · intro ho j ob hg
    simp only [hget j] at hg
    split at hg
    · cases hg; rw [hoid']; exact hi.idHead ho h o hho
    · exact hi.idHead ho j ob hg
  · intro ho k j ob hk hd hg
    simp only [hget j] at hg
    split at hg
    · rename_i e; subst e; cases hg; rw [hoid']; exact hi.idKeyOid ho k h o hk hd hho
    · exact hi.idKeyOid ho k j ob hk hd hg
  · intro ho j ob hg
    obtain ⟨ob0, h0, e0⟩ := hcell j ob hg
    rw [← e0]; exact hi.idAll ho j ob0 h0
  · intro ho j j' ob ob' hg hg' he
    obtain ⟨ob0, h0, e0⟩ := hcell j ob hg
    obtain ⟨ob0', h0', e0'⟩ := hcell j' ob' hg'
    exact hi.oidUnique ho j j' ob0 ob0' h0 h0' (by rw [e0, e0', he])
  · intro hl'
    refine ⟨?_, ?_, Tree.nodup_set hr.tnodup _ _⟩
    · intro k hk
      rw [Tree.get_set]
      by_cases hkk : k = foldL c (Path.C c o.path)
      · subst hkk; rw [hself]; simp [hl']
      · simp only [hkk, if_false]; rw [hother k hk hkk]; exact hr.get k hk
    · intro e he
      rcases Tree.mem_set he with rfl | ⟨h1, _⟩
      · exact hK
      · exact hr.keys e h1
  · intro hl'
    refine ⟨?_, ?_, Tree.nodup_erase hr.tnodup _⟩
    · intro k hk
      rw [Tree.get_erase]
      by_cases hkk : k = foldL c (Path.C c o.path)
      · subst hkk; rw [hself]; simp [hl']
      · simp only [hkk, if_false]; rw [hother k hk hkk]; exact hr.get k hk
    · intro e he
      exact hr.keys e (Tree.mem_erase he).1

/-! ### listing -/

theorem mem_fsObjects {s : St C} {h : Nat} : h ∈ fsObjects s ↔ ∃ k, (k, h) ∈ s.dict ∧ k.head? = some '/' := by
  unfold fsObjects
  rw [List.mem_filterMap]
  constructor
  · rintro ⟨⟨k, h'⟩, hm, hf⟩
    simp only at hf
    split at hf
    · rename_i hk; cases hf; exact ⟨k, hm, by simpa using hk⟩
    · cases hf
  · rintro ⟨k, hm, hk⟩
    exact ⟨(k, h), hm, by simp [hk]⟩

theorem mem_listHandles {c : Cfg} {s : St C} {fp : Str} {h : Nat} {o : Obj C} {nm : Str} :
    (h, o, nm) ∈ listHandles c s fp ↔
      h ∈ fsObjects s ∧ s.heap[h]? = some o ∧ o.live = true ∧ childName c fp o.path = some nm := by
  unfold listHandles
  rw [List.mem_filterMap]
  constructor
  · rintro ⟨h', hm, hf⟩
    cases hh : s.heap[h']? with
    | none => simp [hh] at hf
    | some o' =>
      simp only [hh] at hf
      split at hf
      · rename_i hl
        cases hc : childName c fp o'.path with
        | none => simp [hc] at hf
        | some nm' =>
          simp only [hc, Option.map_some, Option.some.injEq, Prod.mk.injEq] at hf
          obtain ⟨rfl, rfl, rfl⟩ := hf
          exact ⟨hm, hh, hl, hc⟩
      · cases hf
  · rintro ⟨hm, hh, hl, hc⟩
    exact ⟨h, hm, by simp [hh, hl, hc]⟩

theorem mem_children {t : Tree.T C} {k : Tree.Path} {e : Tree.Path × Tree.Node C} :
    e ∈ Tree.children t k ↔ e ∈ t ∧ e.1.length = k.length + 1 ∧ k.isPrefixOf e.1 = true := by
  simp [Tree.children, List.mem_filter]

/-- the listing of a live folder and the tree's children describe the same objects -/
theorem listing_rel {c : Cfg} (hc : COk2 c) {fl : Flavour} {s : St C} {t : Tree.T C} (hi : Inv c fl s) (hr : Rel c s t)
    {fd : List Str} (hfd : Comps c fd) :
    (∀ h o nm, (h, o, nm) ∈ listHandles c s (canon c.sep fd) →
        (foldL c (Path.C c o.path), nodeOf c o) ∈ Tree.children t (foldL c fd) ∧ (Path.C c o.path).getLast? = some nm) ∧
    (∀ e ∈ Tree.children t (foldL c fd), ∃ h o nm, (h, o, nm) ∈ listHandles c s (canon c.sep fd) ∧
        e = (foldL c (Path.C c o.path), nodeOf c o) ∧ (Path.C c o.path).getLast? = some nm) := by
  constructor
  · intro h o nm hm
    obtain ⟨_, hh, hl, hcn⟩ := mem_listHandles.1 hm
    have hclo := clean_C hc (hi.clean h o hh)
    rw [hclo.2.1, childName_canon hc.toCOk hfd hclo.1] at hcn
    split at hcn
    · rename_i hcond
      simp only [Bool.and_eq_true, beq_iff_eq] at hcond
      refine ⟨mem_children.2 ⟨?_, ?_, ?_⟩, hcn⟩
      · apply Tree.mem_of_get
        have hk := comps_foldL_ok hc hclo.1
        rw [hr.get _ hk, (pv_canon_iff hc hi hk).2 ⟨hh, hl, rfl⟩]; rfl
      · simp only [foldL_length]; exact hcond.2
      · exact hcond.1
    · cases hcn
  · intro e he
    obtain ⟨hmem, hlen, hpre⟩ := mem_children.1 he
    obtain ⟨k', n⟩ := e
    have hk' := hr.keys _ hmem
    have hget := Tree.get_of_mem hr.tnodup hmem
    rw [hr.get k' hk'] at hget
    cases hp : pv s (canon c.sep k') with
    | none => rw [hp] at hget; cases hget
    | some ho =>
      obtain ⟨h, o⟩ := ho
      rw [hp] at hget
      simp only [Option.map_some, Option.some.injEq] at hget
      obtain ⟨h1, h2, h3⟩ := pv_some.1 hp
      obtain ⟨_, _, hfo⟩ := (pv_canon_iff hc hi hk').1 hp
      have hclo := clean_C hc (hi.clean h o h2)
      have hlen' : (Path.C c o.path).length = fd.length + 1 := by
        have := congrArg List.length hfo
        simp only [foldL_length] at this hlen
        omega
      have hne : Path.C c o.path ≠ [] := by intro e; rw [e] at hlen'; simp at hlen'
      obtain ⟨nm, hnm⟩ : ∃ nm, (Path.C c o.path).getLast? = some nm := by
        cases hgl : (Path.C c o.path).getLast? with
        | none => exact absurd (List.getLast?_eq_none_iff.1 hgl) hne
        | some nm => exact ⟨nm, rfl⟩
      refine ⟨h, o, nm, mem_listHandles.2 ⟨mem_fsObjects.2 ⟨_, mem_of_dget h1, by rw [head_canon, hc.sep]⟩, h2, h3, ?_⟩, ?_, hnm⟩
      · conv => lhs; rw [hclo.2.1]
        rw [childName_canon hc.toCOk hfd hclo.1, hfo, hpre, hlen']; simp [hnm]
      · rw [hfo, ← hget]

end CS.MockFS
