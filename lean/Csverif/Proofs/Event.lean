import Csverif.Model.Event
/-
Invariants of the EventManager model (Model/Event.lean), preserved by every action, hence true after every
sequence of actions from a fresh world.  Props/C06.lean derives the property theorems from them.
-/
namespace CS.Event
set_option linter.unusedVariables false

/-- pcs of the part of `_do_unsafe` that follows `_do_first_init` -/
def PC.late : PC → Bool
  | .walkItem _ | .queueLoop _ | .events | .fetched _ | .save => true
  | _ => false

/-- pcs at which `_first_do` is still set although do() is past the entry of `_do_first_init` -/
def PC.err : PC → Bool
  | .errReset | .errForget | .errSave | .seedSave => true
  | _ => false

/-- pcs from which the walk is still ahead (or which never get to the event loop) -/
def PC.preWalk : PC → Bool
  | .idle | .firstInit | .seedSave | .walkItem _ | .errReset | .errForget | .errSave => true
  | _ => false

def PC.evLoop : PC → Bool
  | .events | .fetched _ | .save => true
  | _ => false

structure UpInv (s : St) (m : Mem) : Prop where
  u1 : m.validated = false → m.pc = .idle ∧ m.firstDo = true ∧ m.cursor = none
  u2 : m.firstDo = false → ∃ c, m.cursor = some (.int c) ∧ s.ghost.base ≤ c ∧ c ≤ s.prov.cur
  u3a : m.pc.late = true → m.firstDo = false
  u3b : m.pc ≠ .idle → m.validated = true
  u3c : m.pc.err = true → m.firstDo = true
  u4 : m.firstDo = false → (m.stopping = true ∧ m.pc = .idle) ∨
        ∀ i, s.ghost.base < i → i ≤ s.prov.cur → (Tr.ev i ∈ s.ghost.fresh ∨ i ∈ m.queue ∨ m.pc = .fetched i)
  u5 : ∀ rest, m.pc = .queueLoop rest → ∀ i ∈ m.queue, i ∈ rest ∨ Tr.ev i ∈ s.ghost.fresh
  u6 : m.pc.evLoop = true → m.queue = []
  u7 : m.validated = true → s.store.cursor = none ∨ s.store.cursor = m.cursor
  u8 : s.store.cursor = none → ∀ c, m.cursor = some (.int c) → c ≤ s.ghost.seed
  u9 : m.rootOid = true → m.needWalk = true → m.stopping = false → m.pc.preWalk = true
  u10 : m.validated = true → m.rootOid = true → m.cursor = none → m.needWalk = true
  u11 : s.cfg ≠ .noRoot → m.rootPath = true ∧ (m.validated = true → m.rootOid = true)
  u12 : m.pc = .seedSave → m.cursor = some (.int s.prov.cur)
  -- the repaired code: whenever a walk is needed, that need is visible on disk
  u13 : m.validated = true → m.rootOid = true → m.needWalk = true → s.store.walked = false ∨ m.cursor = none
  u14 : m.pc = .errSave → m.rootOid = true → s.store.walked = false
  u15 : m.pc = .seedSave → m.rootOid = true → m.needWalk = true

structure Inv (s : St) : Prop where
  g1 : ∀ c i, s.store.cursor = some (.int c) → s.ghost.seed < i → i ≤ c → i ∈ s.store.log
  g2 : ∀ i, Tr.ev i ∈ s.ghost.fresh → i ∈ s.store.log
  g3 : s.prov.minValid ≤ s.prov.latest
  up : ∀ m, s.mem = some m → UpInv s m

theorem inv_init (cfg : RootCfg) (n : Nat) (p : Int) (objs : Nat) (r : Bool) : Inv (init cfg n p objs r) := by
  refine ⟨?_, ?_, ?_, ?_⟩ <;> simp [init] <;> omega

theorem inv_user (s : St) (n : Nat) (h : Inv s) : Inv (apply s (.user n)) := by
  obtain ⟨g1, g2, g3, up⟩ := h
  refine ⟨g1, g2, by simp [apply]; omega, ?_⟩
  intro m hm
  obtain ⟨u1, u2, u3a, u3b, u3c, u4, u5, u6, u7, u8, u9, u10, u11, u12, u13, u14, u15⟩ := up m hm
  exact ⟨u1, u2, u3a, u3b, u3c, u4, u5, u6, u7, u8, u9, u10, u11, u12, u13, u14, u15⟩


theorem inv_start (s : St) (h : Inv s) : Inv (apply s .start) := by
  obtain ⟨g1, g2, g3, up⟩ := h
  simp only [apply]
  split
  · exact ⟨g1, g2, g3, up⟩
  · rename_i hnone
    refine ⟨g1, by simp, g3, ?_⟩
    intro m hm
    simp only [Option.some.injEq] at hm
    subst hm
    constructor <;> simp [validateRoot, newMem, PC.late, PC.err, PC.preWalk, PC.evLoop] <;> (repeat' split) <;> simp_all
    all_goals (intro h; exact Or.symm h)


theorem inv_stop (s : St) (h : Inv s) : Inv (apply s .stop) := by
  obtain ⟨g1, g2, g3, up⟩ := h
  exact ⟨g1, g2, g3, by intro m hm; simp [apply] at hm⟩

theorem inv_setRoot (s : St) (h : Inv s) : Inv (apply s .setRoot) := by
  obtain ⟨g1, g2, g3, up⟩ := h
  simp only [apply]
  split
  · exact ⟨g1, g2, g3, up⟩
  · refine ⟨g1, g2, g3, ?_⟩
    intro m hm
    obtain ⟨u1, u2, u3a, u3b, u3c, u4, u5, u6, u7, u8, u9, u10, u11, u12, u13, u14, u15⟩ := up m hm
    exact ⟨u1, u2, u3a, u3b, u3c, u4, u5, u6, u7, u8, u9, u10, u11, u12, u13, u14, u15⟩

theorem inv_expire (s : St) (d : Nat) (h : Inv s) : Inv (apply s (.expire d)) := by
  obtain ⟨g1, g2, g3, up⟩ := h
  refine ⟨g1, g2, by simp [apply]; omega, ?_⟩
  intro m hm
  obtain ⟨u1, u2, u3a, u3b, u3c, u4, u5, u6, u7, u8, u9, u10, u11, u12, u13, u14, u15⟩ := up m hm
  exact ⟨u1, u2, u3a, u3b, u3c, u4, u5, u6, u7, u8, u9, u10, u11, u12, u13, u14, u15⟩

theorem inv_shutdown (s : St) (h : Inv s) : Inv (apply s .shutdown) := by
  obtain ⟨g1, g2, g3, up⟩ := h
  simp only [apply]
  split
  · exact ⟨g1, g2, g3, up⟩
  · rename_i m hm
    refine ⟨g1, g2, g3, ?_⟩
    intro m' hm'
    simp only [Option.some.injEq] at hm'
    subst hm'
    obtain ⟨u1, u2, u3a, u3b, u3c, u4, u5, u6, u7, u8, u9, u10, u11, u12, u13, u14, u15⟩ := up m hm
    refine ⟨u1, u2, u3a, u3b, u3c, ?_, u5, u6, u7, u8, by simp, u10, u11, u12, u13, u14, u15⟩
    intro hf
    rcases u4 hf with h | h
    · exact Or.inl ⟨rfl, h.2⟩
    · exact Or.inr h

/-- the manipulations from outside, possible only while no engine is running -/
theorem inv_down (s : St) (a : Act) (h : Inv s)
    (ha : a = .corrupt ∨ a = .delCursor ∨ a = .delWalk ∨ (∃ v, a = .provCur v) ∨ a = .unsetRoot) :
    Inv (apply s a) := by
  obtain ⟨g1, g2, g3, up⟩ := h
  rcases ha with rfl | rfl | rfl | ⟨v, rfl⟩ | rfl <;> simp only [apply] <;> split <;>
    first
    | exact ⟨g1, g2, g3, up⟩
    | (refine ⟨?_, g2, g3, ?_⟩
       · simp_all
       · intro m hm; simp_all)


set_option maxHeartbeats 1000000 in
theorem inv_callDo (s : St) (h : Inv s) : Inv (apply s .callDo) := by
  obtain ⟨g1, g2, g3, up⟩ := h
  simp only [apply]
  split
  · exact ⟨g1, g2, g3, up⟩
  · rename_i m hm
    obtain ⟨u1, u2, u3a, u3b, u3c, u4, u5, u6, u7, u8, u9, u10, u11, u12, u13, u14, u15⟩ := up m hm
    split
    · rename_i hidle
      obtain ⟨hpc, hst⟩ := hidle
      by_cases hv : m.validated = true
      · have hvr : validateRoot s.prov s.store m = m := by simp [validateRoot, hv]
        simp only [hvr, hv, if_true]
        refine ⟨g1, g2, g3, ?_⟩
        intro m' hm'
        simp only [Option.some.injEq] at hm'
        subst hm'
        constructor <;> simp_all [PC.late, PC.err, PC.preWalk, PC.evLoop]
      · simp only [Bool.not_eq_true] at hv
        obtain ⟨_, hfd, hcur⟩ := u1 hv
        split
        · rename_i hval
          refine ⟨g1, g2, g3, ?_⟩
          intro m' hm'
          simp only [Option.some.injEq] at hm'
          subst hm'
          constructor <;> simp [validateRoot, hv, PC.late, PC.err, PC.preWalk, PC.evLoop] at hval ⊢ <;>
            (repeat' split) <;> simp_all
          all_goals (intro h; exact Or.symm h)
        · rename_i hval
          refine ⟨g1, g2, g3, ?_⟩
          intro m' hm'
          simp only [Option.some.injEq] at hm'
          subst hm'
          constructor <;> simp [validateRoot, hv, PC.late, PC.err, PC.preWalk, PC.evLoop] at hval ⊢ <;>
            (repeat' split) <;> simp_all
    · exact ⟨g1, g2, g3, up⟩


theorem inv_busy (s : St) (h : Inv s) : Inv (apply s .busy) := by
  obtain ⟨g1, g2, g3, up⟩ := h
  simp only [apply]
  split
  · exact ⟨g1, g2, g3, up⟩
  · rename_i m hm
    obtain ⟨u1, u2, u3a, u3b, u3c, u4, u5, u6, u7, u8, u9, u10, u11, u12, u13, u14, u15⟩ := up m hm
    split
    · rename_i hpc
      split
      · exact ⟨g1, g2, g3, up⟩
      · split
        · rename_i hq hlt
          refine ⟨g1, g2, g3, ?_⟩
          intro m' hm'
          simp only [Option.some.injEq] at hm'
          subst hm'
          refine ⟨by simpa using u1, ?_, by simp [hpc, PC.late], by simp [hpc], by simp [hpc, PC.err], ?_,
            by simp [hpc], by simp [hpc, PC.evLoop], by simpa using u7, by simpa using u8,
            by simp [hpc, PC.preWalk], by simpa using u10, by simpa using u11, by simp [hpc], by simpa using u13,
            by simp [hpc], by simp [hpc]⟩
          · intro hf
            obtain ⟨c, hc, hb, hcur⟩ := u2 hf
            exact ⟨c, hc, hb, by simp; omega⟩
          · intro hf
            rcases u4 hf with h | h
            · exact Or.inl h
            · right
              intro i hb hi
              simp only at hi
              by_cases hlast : i = s.prov.cur + 1
              · right; left; simp [hlast]
              · have : i ≤ s.prov.cur := by omega
                rcases h i hb this with h | h | h
                · exact Or.inl h
                · right; left; simp [h]
                · simp [hpc] at h
        · exact ⟨g1, g2, g3, up⟩
    · exact ⟨g1, g2, g3, up⟩

theorem inv_forget (s : St) (h : Inv s) : Inv (apply s .forget) := by
  obtain ⟨g1, g2, g3, up⟩ := h
  simp only [apply]
  split
  · exact ⟨g1, g2, g3, up⟩
  · rename_i m hm
    obtain ⟨u1, u2, u3a, u3b, u3c, u4, u5, u6, u7, u8, u9, u10, u11, u12, u13, u14, u15⟩ := up m hm
    split
    · rename_i hpc
      refine ⟨by simp, by simp, g3, ?_⟩
      intro m' hm'
      simp only [Option.some.injEq] at hm'
      subst hm'
      refine ⟨fun hv => ⟨(u1 hv).1, rfl, (u1 hv).2.2⟩, by simp, by simp [hpc, PC.late], by simp [hpc], by simp [hpc, PC.err], by simp,
        by simp [hpc], by simp [hpc, PC.evLoop], by simp, ?_, by simp [hpc, PC.preWalk], by simp, by simpa using u11,
        by simp [hpc], by simp, by simp [hpc], by simp [hpc]⟩
      intro _ c hc
      have hc' : m.cursor = some (.int c) := hc
      show c ≤ (match m.cursor.bind CVal.toInt? with
                | some c => max s.ghost.seed c
                | none => s.ghost.seed)
      rw [hc']
      simp only [Option.bind_some, CVal.toInt?]
      exact Int.le_max_right _ _
    · exact ⟨g1, g2, g3, up⟩


local macro "upgoal" : tactic =>
  `(tactic| (intro m' hm'; simp only [Option.some.injEq] at hm'; subst hm';
             constructor <;> simp_all [PC.late, PC.err, PC.preWalk, PC.evLoop, deliver]))

local macro "upgoal'" : tactic =>
  `(tactic| (intro m' hm'; simp only [Option.some.injEq] at hm'; subst hm';
             constructor <;> simp only [afterInit] <;> (repeat' split) <;>
               simp_all [PC.late, PC.err, PC.preWalk, PC.evLoop]))

theorem accept_some {p : Prov} {v : CVal} {c : Int} (h : p.accept? v = some c) : v = .int c ∧ p.minValid ≤ c := by
  cases v with
  | bad => simp [Prov.accept?] at h
  | int d =>
    simp only [Prov.accept?] at h
    split at h
    · simp only [Option.some.injEq] at h; subst h; exact ⟨rfl, by assumption⟩
    · simp at h

theorem inv_step_firstInit (s : St) (m : Mem) (hm : s.mem = some m) (hpc : m.pc = .firstInit) (h : Inv s) :
    Inv (stepUp s m) := by
  obtain ⟨g1, g2, g3, up⟩ := h
  obtain ⟨u1, u2, u3a, u3b, u3c, u4, u5, u6, u7, u8, u9, u10, u11, u12, u13, u14, u15⟩ := up m hm
  have hval : m.validated = true := u3b (by simp [hpc])
  cases hnw : (m.needWalk && m.rootOid) <;> cases hfd : m.firstDo
  all_goals simp only [stepUp, hpc, hfd, afterInit, hnw, if_true, if_false, Bool.false_eq_true]
  · refine ⟨g1, g2, g3, ?_⟩
    upgoal
    case u9 => intro h1 h2; simp [hnw h2] at h1
    case u13 => intro h1 h2; simp [hnw h2] at h1
  ·
    cases hc : m.cursor with
    | none =>
      simp only
      have hsn : s.store.cursor = none := by
        rcases u7 hval with h | h
        · exact h
        · rw [h, hc]
      refine ⟨?_, g2, g3, ?_⟩
      · intro c i hc'
        simp [hsn] at hc'
      · upgoal
        all_goals first
          | (intro i h1 h2; exfalso; omega)
          | (intro h1 h2; rcases h2 with h2 | h2 <;> first | exact h2 | (simp [hnw h2] at h1))
          | (intro h1 h2; simp [hnw h2] at h1)
          | (intro h1; have := hnw (u10 h1); simp [h1] at this)
          | (intro h1 _; exact u13 h1 hnw.1)
    | some v =>
      simp only
      cases hacc : s.prov.accept? v with
      | some c =>
        obtain ⟨hv, hmin⟩ := accept_some hacc
        subst hv
        simp only
        refine ⟨g1, g2, g3, ?_⟩
        upgoal
        all_goals first
          | (intro i h1 h2; exfalso; omega)
          | (intro h1 h2; simp [hnw h2] at h1)
          | (intro h1; have := hnw (u10 h1); simp [h1] at this)
      | none =>
        simp only
        refine ⟨g1, g2, g3, ?_⟩
        upgoal
        all_goals first
          | (intro i h1 h2; exfalso; omega)
          | (intro h1 h2; rcases h2 with h2 | h2 <;> first | exact h2 | (simp [hnw h2] at h1))
          | (intro h1 h2; simp [hnw h2] at h1)
          | (intro h1; have := hnw (u10 h1); simp [h1] at this)
          | (intro h1 _; exact u13 h1 hnw.1)
  · refine ⟨g1, g2, g3, ?_⟩
    upgoal
  ·
    cases hc : m.cursor with
    | none =>
      simp only
      have hsn : s.store.cursor = none := by
        rcases u7 hval with h | h
        · exact h
        · rw [h, hc]
      refine ⟨?_, g2, g3, ?_⟩
      · intro c i hc'
        simp [hsn] at hc'
      · upgoal
        all_goals first
          | (intro i h1 h2; exfalso; omega)
          | (intro h1 h2; rcases h2 with h2 | h2 <;> first | exact h2 | (simp [hnw h2] at h1))
          | (intro h1 h2; simp [hnw h2] at h1)
          | (intro h1; have := hnw (u10 h1); simp [h1] at this)
          | (intro h1 _; exact u13 h1 hnw.1)
    | some v =>
      simp only
      cases hacc : s.prov.accept? v with
      | some c =>
        obtain ⟨hv, hmin⟩ := accept_some hacc
        subst hv
        simp only
        refine ⟨g1, g2, g3, ?_⟩
        upgoal
        all_goals first
          | (intro i h1 h2; exfalso; omega)
          | (intro h1 h2; simp [hnw h2] at h1)
          | (intro h1; have := hnw (u10 h1); simp [h1] at this)
      | none =>
        simp only
        refine ⟨g1, g2, g3, ?_⟩
        upgoal
        all_goals first
          | (intro i h1 h2; exfalso; omega)
          | (intro h1 h2; rcases h2 with h2 | h2 <;> first | exact h2 | (simp [hnw h2] at h1))
          | (intro h1 h2; simp [hnw h2] at h1)
          | (intro h1; have := hnw (u10 h1); simp [h1] at this)
          | (intro h1 _; exact u13 h1 hnw.1)

set_option maxHeartbeats 2000000 in
theorem inv_step (s : St) (h : Inv s) : Inv (apply s .step) := by
  obtain ⟨g1, g2, g3, up⟩ := h
  simp only [apply]
  split
  · exact ⟨g1, g2, g3, up⟩
  · rename_i m hm
    obtain ⟨u1, u2, u3a, u3b, u3c, u4, u5, u6, u7, u8, u9, u10, u11, u12, u13, u14, u15⟩ := up m hm
    cases hpc : m.pc with
    | idle => simp only [stepUp, hpc]; exact ⟨g1, g2, g3, up⟩
    | events =>
      simp only [stepUp, hpc]
      split
      · refine ⟨g1, g2, g3, ?_⟩
        upgoal
        case u2 => obtain ⟨c, hc, hb, hcur⟩ := u2; exact ⟨c, hc, hb, by omega⟩
        case u4 =>
          intro i hb hi
          by_cases h : s.prov.cur + 1 = i
          · exact Or.inr h
          · exact Or.inl (u4 i hb (by omega))
      · refine ⟨g1, g2, g3, ?_⟩
        upgoal
    | fetched i =>
      simp only [stepUp, hpc]
      split
      · refine ⟨g1, g2, g3, ?_⟩
        upgoal
      · refine ⟨?_, ?_, g3, ?_⟩
        · simp_all [deliver]
        · simp_all [deliver]
        · upgoal
          case u4 =>
            intro j hb hj
            rcases u4 j hb hj with h | h
            · exact Or.inr h
            · exact Or.inl h.symm
    | save =>
      simp only [stepUp, hpc]
      split
      · refine ⟨?_, g2, g3, ?_⟩
        · have hfd : m.firstDo = false := u3a (by simp [hpc, PC.late])
          obtain ⟨c0, hc0, hb, hcur⟩ := u2 hfd
          have hq : m.queue = [] := u6 (by simp [hpc, PC.evLoop])
          intro c i hc hs hi
          simp only [Option.some.injEq, CVal.int.injEq] at hc
          subst hc
          by_cases hle : i ≤ c0
          · rcases u7 (u3b (by simp [hpc])) with h7 | h7
            · have := u8 h7 c0 hc0
              exact absurd hs (by simp only at this ⊢; omega)
            · exact g1 c0 i (by rw [h7, hc0]) hs hle
          · rcases u4 hfd with h | h
            · simp [hpc] at h
            · rcases h i (by omega) hi with h | h | h
              · exact g2 i h
              · simp [hq] at h
              · simp [hpc] at h
        · upgoal
          case u2 => obtain ⟨c, hc, hb, hcur⟩ := u2; omega
          case u13 =>
            intro h1 h2
            rcases u13 h1 h2 with h | h
            · exact h
            · obtain ⟨c, hc, _⟩ := u2
              simp [hc] at h
      · refine ⟨g1, g2, g3, ?_⟩
        upgoal
    | queueLoop rest =>
      cases rest with
      | nil =>
        simp only [stepUp, hpc]
        refine ⟨g1, g2, g3, ?_⟩
        upgoal
        case u4 =>
          intro i hb hi
          rcases u4 i hb hi with h | h
          · exact h
          · exact u5 i h
      | cons i r =>
        simp only [stepUp, hpc]
        refine ⟨?_, ?_, g3, ?_⟩
        · simp_all [deliver]
        · simp_all [deliver]
        · upgoal
          case u4 =>
            intro j hb hj
            rcases u4 j hb hj with h | h
            · exact Or.inl (Or.inr h)
            · exact Or.inr h
          case u5 =>
            intro j hj
            rcases u5 j hj with (h | h) | h
            · exact Or.inr (Or.inl h)
            · exact Or.inl h
            · exact Or.inr (Or.inr h)
    | walkItem k =>
      cases k with
      | zero =>
        simp only [stepUp, hpc]
        refine ⟨g1, g2, g3, ?_⟩
        upgoal
        case u10 =>
          intro _ h
          obtain ⟨c, hc, _⟩ := u2
          simp [hc] at h
      | succ k =>
        simp only [stepUp, hpc]
        split
        · refine ⟨g1, g2, g3, ?_⟩
          upgoal
        · refine ⟨g1, ?_, g3, ?_⟩
          · simp_all
          · upgoal
    | errReset =>
      simp only [stepUp, hpc]
      refine ⟨g1, g2, g3, ?_⟩
      upgoal
    | errSave =>
      by_cases hEq : some (CVal.int s.prov.cur) = m.cursor
      · simp only [stepUp, hpc, hEq, ne_eq, not_true_eq_false, if_false]
        refine ⟨?_, g2, g3, ?_⟩
        · intro c i hc hs hi
          rcases u7 (u3b (by simp [hpc])) with h7 | h7
          · simp [h7] at hc
          · have : c = s.prov.cur := by
              have h := h7.symm.trans hc
              rw [← hEq] at h
              simpa using h.symm
            simp only at hs
            omega
        · upgoal
          case u8 =>
            intro _ c hc
            rw [← hEq] at hc
            simp only [Option.some.injEq, CVal.int.injEq] at hc
            omega
      · simp only [stepUp, hpc, hEq, ne_eq, not_false_eq_true, if_true]
        refine ⟨?_, g2, g3, ?_⟩
        · intro c i hc hs hi
          simp only [Option.some.injEq, CVal.int.injEq] at hc
          simp only at hs
          omega
        · upgoal
    | firstInit => exact inv_step_firstInit s m hm hpc ⟨g1, g2, g3, up⟩
    | seedSave =>
      have hc := u12 hpc
      have hfd : m.firstDo = true := u3c (by simp [hpc, PC.err])
      have hval : m.validated = true := u3b (by simp [hpc])
      cases hnw : (m.needWalk && m.rootOid)
      all_goals simp only [stepUp, hpc, afterInit, hnw, if_true, if_false, Bool.false_eq_true]
      all_goals
        refine ⟨?_, g2, g3, ?_⟩
        · intro c i hc' hs hi
          rw [hc] at hc'
          simp only [Option.some.injEq, CVal.int.injEq] at hc'
          simp only at hs
          omega
        · upgoal
          all_goals first
            | (intro i h1 h2; exfalso; omega)
            | (intro h1; have := hnw (u15 h1); simp [h1] at this)
    | errForget =>
      simp only [stepUp, hpc]
      refine ⟨g1, g2, g3, ?_⟩
      upgoal


theorem inv_apply (s : St) (a : Act) (h : Inv s) : Inv (apply s a) := by
  cases a with
  | user n => exact inv_user s n h
  | setRoot => exact inv_setRoot s h
  | expire d => exact inv_expire s d h
  | start => exact inv_start s h
  | stop => exact inv_stop s h
  | shutdown => exact inv_shutdown s h
  | callDo => exact inv_callDo s h
  | step => exact inv_step s h
  | busy => exact inv_busy s h
  | forget => exact inv_forget s h
  | corrupt => exact inv_down s _ h (by simp)
  | delCursor => exact inv_down s _ h (by simp)
  | delWalk => exact inv_down s _ h (by simp)
  | provCur v => exact inv_down s _ h (by simp)
  | unsetRoot => exact inv_down s _ h (by simp)

theorem inv_run (s : St) (acts : List Act) (h : Inv s) : Inv (run s acts) := by
  induction acts generalizing s with
  | nil => exact h
  | cons a as ih => exact ih (apply s a) (inv_apply s a h)

/-! ### a due walk is not forgotten, unless the engine goes away inside the window -/

/-- what makes the (next) engine walk: in memory `need_walk`, or a cursor it will see rejected on its first
    do(); on disk (engine down or root not validated yet) a missing cursor row, a non-integer cursor, or a
    missing walk marker -/
def WalkPending (s : St) : Prop :=
  match s.mem with
  | some m =>
    if m.validated then m.needWalk = true ∨ (m.firstDo = true ∧ m.cursor = some .bad)
    else s.store.cursor = none ∨ s.store.cursor = some .bad ∨ s.store.walked = false
  | none => s.store.cursor = none ∨ s.store.cursor = some .bad ∨ s.store.walked = false

instance (s : St) : Decidable (WalkPending s) := by
  unfold WalkPending
  split
  · split <;> infer_instance
  · infer_instance

/-- the window of the former finding (fixed): `need_walk` set only in memory while storage holds both a walk marker
    and an integer cursor -/
def FormerWindow (s : St) : Prop :=
  ∃ m, s.mem = some m ∧ m.validated = true ∧ m.rootOid = true ∧ m.needWalk = true ∧ s.store.walked = true ∧
    ∃ c, s.store.cursor = some (.int c)

/-- the walk that is due has not been forgotten -/
def NoLost (s : St) : Prop := s.ghost.walkDue = true → WalkPending s


theorem stepUp_cfg (s : St) (m : Mem) : (stepUp s m).cfg = s.cfg := by
  unfold stepUp
  repeat' split
  all_goals simp [deliver, apply_ite St.cfg]

theorem apply_cfg (s : St) (a : Act) : (apply s a).cfg = s.cfg := by
  cases a <;> simp only [apply] <;> (repeat' split) <;> simp [stepUp_cfg]

theorem run_cfg (s : St) (acts : List Act) : (run s acts).cfg = s.cfg := by
  induction acts generalizing s with
  | nil => rfl
  | cons a as ih => simp only [run, List.foldl_cons] at ih ⊢; rw [ih, apply_cfg]

/-- `WalkPending` with the engine object at hand -/
theorem walkPending_up (s : St) (m : Mem) (hm : s.mem = some m) (hv : m.validated = true) :
    WalkPending s ↔ (m.needWalk = true ∨ (m.firstDo = true ∧ m.cursor = some .bad)) := by
  simp [WalkPending, hm, hv]

theorem nolost_step (s : St) (m : Mem) (hm : s.mem = some m) (h : Inv s) (hcfg : s.cfg ≠ .noRoot)
    (hn : NoLost s) : NoLost (stepUp s m) := by
  obtain ⟨g1, g2, g3, up⟩ := h
  obtain ⟨u1, u2, u3a, u3b, u3c, u4, u5, u6, u7, u8, u9, u10, u11, u12, u13, u14, u15⟩ := up m hm
  have hro := (u11 hcfg).2
  cases hpc : m.pc with
  | idle => simp only [stepUp, hpc]; exact hn
  | firstInit =>
    have hval : m.validated = true := u3b (by simp [hpc])
    have hn' := (walkPending_up s m hm hval).mp ∘ hn
    cases hnw : (m.needWalk && m.rootOid) <;> cases hfd : m.firstDo
    all_goals simp only [stepUp, hpc, hfd, afterInit, hnw, if_true, if_false, Bool.false_eq_true]
    · simp only [NoLost, WalkPending, hval, if_true]
      intro hd
      simpa [hfd] using hn' hd
    · cases hc : m.cursor with
      | none =>
        simp only [NoLost, WalkPending, hval, if_true]
        intro _
        exact Or.inl (u10 hval (hro hval) hc)
      | some v =>
        dsimp only
        cases hacc : s.prov.accept? v with
        | some c =>
          obtain ⟨hv, _⟩ := accept_some hacc
          subst hv
          simp only [NoLost, WalkPending, hval, if_true]
          intro hd
          simpa [hc] using hn' hd
        | none =>
          simp only [NoLost, WalkPending, hval, if_true]
          intro hd
          rcases hn' hd with h | h
          · left; simp [h]
          · right; exact ⟨trivial, by simpa [hc] using h.2⟩
    · simp only [NoLost, WalkPending, hval, if_true]
      intro hd
      simpa [hfd] using hn' hd
    · cases hc : m.cursor with
      | none =>
        simp only [NoLost, WalkPending, hval, if_true]
        intro _
        exact Or.inl (u10 hval (hro hval) hc)
      | some v =>
        dsimp only
        cases hacc : s.prov.accept? v with
        | some c =>
          obtain ⟨hv, _⟩ := accept_some hacc
          subst hv
          simp only [NoLost, WalkPending, hval, if_true]
          intro hd
          simpa [hc] using hn' hd
        | none =>
          simp only [NoLost, WalkPending, hval, if_true]
          intro hd
          rcases hn' hd with h | h
          · left; simp [h]
          · right; exact ⟨trivial, by simpa [hc] using h.2⟩
  | walkItem k =>
    have hval : m.validated = true := u3b (by simp [hpc])
    have hn' := (walkPending_up s m hm hval).mp ∘ hn
    cases k with
    | zero => simp only [stepUp, hpc, NoLost]; intro hd; simp at hd
    | succ k =>
      simp only [stepUp, hpc]
      split <;> (simp only [NoLost, WalkPending, hval, if_true]; exact hn')
  | queueLoop r =>
    have hval : m.validated = true := u3b (by simp [hpc])
    have hn' := (walkPending_up s m hm hval).mp ∘ hn
    cases r <;> simp only [stepUp, hpc, deliver] <;> (simp only [NoLost, WalkPending, hval, if_true]; exact hn')
  | events =>
    have hval : m.validated = true := u3b (by simp [hpc])
    have hn' := (walkPending_up s m hm hval).mp ∘ hn
    simp only [stepUp, hpc]
    split <;> (simp only [NoLost, WalkPending, hval, if_true]; exact hn')
  | fetched i =>
    have hval : m.validated = true := u3b (by simp [hpc])
    have hn' := (walkPending_up s m hm hval).mp ∘ hn
    simp only [stepUp, hpc, deliver]
    split <;> (simp only [NoLost, WalkPending, hval, if_true]; exact hn')
  | save =>
    have hval : m.validated = true := u3b (by simp [hpc])
    have hfd : m.firstDo = false := u3a (by simp [hpc, PC.late])
    have hn' := (walkPending_up s m hm hval).mp ∘ hn
    simp only [stepUp, hpc]
    split
    · simp only [NoLost, WalkPending, hval, if_true]
      intro hd
      rcases hn' hd with h | h
      · exact Or.inl h
      · simp [hfd] at h
    · simp only [NoLost, WalkPending, hval, if_true]; exact hn'
  | seedSave =>
    have hval : m.validated = true := u3b (by simp [hpc])
    simp only [stepUp, hpc]
    simp only [NoLost, WalkPending, hval, if_true]
    intro _
    exact Or.inl (u15 hpc (hro hval))
  | errForget =>
    have hval : m.validated = true := u3b (by simp [hpc])
    have hn' := (walkPending_up s m hm hval).mp ∘ hn
    simp only [stepUp, hpc]
    simp only [NoLost, WalkPending, hval, if_true]; exact hn'
  | errReset =>
    have hval : m.validated = true := u3b (by simp [hpc])
    have hn' := (walkPending_up s m hm hval).mp ∘ hn
    simp only [stepUp, hpc]
    simp only [NoLost, WalkPending, hval, if_true]; exact hn'
  | errSave =>
    have hval : m.validated = true := u3b (by simp [hpc])
    simp only [stepUp, hpc]
    simp only [NoLost, WalkPending, hval, if_true]
    intro _
    exact Or.inl trivial


theorem validate_fields (p : Prov) (st : Store) (m : Mem) (hv : m.validated = false) (hrp : m.rootPath = true) :
    ((validateRoot p st m).validated = true ∧ (validateRoot p st m).cursor = st.cursor ∧
      (validateRoot p st m).needWalk = (st.cursor.isNone || !st.walked) ∧ (validateRoot p st m).firstDo = m.firstDo)
    ∨ (validateRoot p st m).validated = false := by
  simp only [validateRoot, hv, hrp]
  cases p.rootSet <;> cases m.rootOid <;> simp [hv]

theorem nolost_apply (s : St) (a : Act) (h : Inv s) (hcfg : s.cfg ≠ .noRoot) (hn : NoLost s) :
    NoLost (apply s a) := by
  cases a with
  | user n => exact hn
  | expire d => exact hn
  | setRoot => simp only [apply]; split <;> exact hn
  | shutdown =>
    simp only [apply]
    split
    · exact hn
    · rename_i m hm
      simp only [NoLost, WalkPending, hm] at hn ⊢
      exact hn
  | step =>
    simp only [apply]
    split
    · exact hn
    · rename_i m hm
      exact nolost_step s m hm h hcfg hn
  | start =>
    simp only [apply]
    split
    · exact hn
    · rename_i hm
      simp only [NoLost, WalkPending, hm] at hn
      simp only [NoLost, WalkPending]
      intro hd
      have hp := hn hd
      have hrp : (newMem s.cfg).rootPath = true := by cases hc : s.cfg <;> simp_all [newMem]
      rcases validate_fields s.prov s.store (newMem s.cfg) rfl hrp with ⟨hv', hc', hnw', hfd'⟩ | hv'
      · simp only [hv', if_true, hc', hnw', hfd']
        rcases hp with hp | hp | hp
        · left; simp [hp]
        · right; exact ⟨rfl, hp⟩
        · left; simp [hp]
      · simp only [hv']
        exact hp
  | stop =>
    simp only [apply, NoLost, WalkPending]
    intro hd
    have hp := hn hd
    unfold WalkPending at hp
    cases hm : s.mem with
    | none => simpa [hm] using hp
    | some m =>
      simp only [hm] at hp
      obtain ⟨u1, u2, u3a, u3b, u3c, u4, u5, u6, u7, u8, u9, u10, u11, u12, u13, u14, u15⟩ := h.up m hm
      by_cases hv : m.validated = true
      · simp only [hv, if_true] at hp
        rcases hp with hp | hp
        · rcases u13 hv ((u11 hcfg).2 hv) hp with h | h
          · exact Or.inr (Or.inr h)
          · rcases u7 hv with h7 | h7
            · exact Or.inl h7
            · exact Or.inl (h7.trans h)
        · rcases u7 hv with h7 | h7
          · exact Or.inl h7
          · exact Or.inr (Or.inl (h7.trans hp.2))
      · simp only [hv] at hp
        exact hp
  | callDo =>
    simp only [apply]
    split
    · exact hn
    · rename_i m hm
      obtain ⟨u1, u2, u3a, u3b, u3c, u4, u5, u6, u7, u8, u9, u10, u11, u12, u13, u14, u15⟩ := h.up m hm
      simp only [NoLost, WalkPending, hm] at hn
      split
      · by_cases hv : m.validated = true
        · have hvr : validateRoot s.prov s.store m = m := by simp [validateRoot, hv]
          simp only [hvr, hv, if_true, NoLost, WalkPending]
          simpa [hv] using hn
        · simp only [Bool.not_eq_true] at hv
          obtain ⟨_, hfd, hcur⟩ := u1 hv
          simp only [hv] at hn
          have hrp := (u11 hcfg).1
          rcases validate_fields s.prov s.store m hv hrp with ⟨hv', hc', hnw', hfd'⟩ | hv'
          · simp only [hv', if_true, NoLost, WalkPending, hc', hnw', hfd']
            intro hd
            rcases hn hd with hp | hp | hp
            · left; simp [hp]
            · right; exact ⟨hfd, hp⟩
            · left; simp [hp]
          · simp only [hv', NoLost, WalkPending, Bool.false_eq_true, if_false]
            simpa using hn
      · simpa [NoLost, WalkPending, hm] using hn
  | busy =>
    simp only [apply]
    split
    · exact hn
    · rename_i m hm
      simp only [NoLost, WalkPending, hm] at hn
      repeat' split
      all_goals simp_all [NoLost, WalkPending]
  | forget =>
    simp only [apply]
    split
    · exact hn
    · rename_i m hm
      split
      · simp only [NoLost, WalkPending]
        intro _
        split <;> simp
      · exact hn
  | corrupt =>
    simp only [apply]
    split
    · exact hn
    · rename_i hm
      simp only [NoLost, WalkPending, hm] at hn ⊢
      intro _; exact Or.inr (Or.inl trivial)
  | delCursor =>
    simp only [apply]
    split
    · exact hn
    · rename_i hm
      simp only [NoLost, WalkPending, hm] at hn ⊢
      intro _; exact Or.inl trivial
  | delWalk =>
    simp only [apply]
    split
    · exact hn
    · rename_i hm
      simp only [NoLost, WalkPending, hm] at hn ⊢
      intro _; exact Or.inr (Or.inr trivial)
  | provCur v =>
    simp only [apply]
    split
    · exact hn
    · rename_i hm
      simp only [NoLost, WalkPending, hm] at hn ⊢
      exact hn
  | unsetRoot =>
    simp only [apply]
    split
    · exact hn
    · rename_i hm
      simp only [NoLost, WalkPending, hm] at hn ⊢
      exact hn


/-! ### a do() runs to completion -/

theorem finish_inv (n : Nat) (s : St) (h : Inv s) : Inv (finish n s) := by
  induction n generalizing s with
  | zero => exact h
  | succ n ih =>
    simp only [finish]
    split
    · exact h
    · exact ih _ (inv_apply s .step h)

theorem measure_step (s : St) (hni : s.pcIdle = false) : measure (apply s .step) < measure s := by
  simp only [St.pcIdle] at hni
  cases hm : s.mem with
  | none => simp [hm] at hni
  | some m =>
    simp only [hm] at hni
    simp only [apply, hm]
    cases hpc : m.pc with
    | idle => simp [hpc] at hni
    | firstInit =>
      cases hfd : m.firstDo <;> cases hnw : (m.needWalk && m.rootOid)
      · simp only [stepUp, hpc, hfd, hnw, afterInit, measure, hm, Bool.false_eq_true, if_false]
        split <;> omega
      · simp only [stepUp, hpc, hfd, hnw, afterInit, measure, hm, Bool.false_eq_true, if_false, if_true]
        split <;> omega
      all_goals
        cases hc : m.cursor with
        | none =>
          simp only [stepUp, hpc, hfd, hnw, hc, afterInit, measure, hm, Bool.false_eq_true, if_false, if_true,
            Option.bind_none]
          omega
        | some v =>
          cases hacc : s.prov.accept? v with
          | some c =>
            obtain ⟨hv, _⟩ := accept_some hacc
            subst hv
            simp only [stepUp, hpc, hfd, hnw, hc, hacc, afterInit, measure, hm, Bool.false_eq_true, if_false, if_true,
              Option.bind_some, CVal.toInt?]
            generalize (s.prov.latest - c).toNat = x
            generalize (s.prov.latest - s.prov.cur).toNat = y
            omega
          | none =>
            simp only [stepUp, hpc, hfd, hnw, hc, hacc, afterInit, measure, hm, Bool.false_eq_true, if_false, if_true]
            omega
    | walkItem k =>
      cases k with
      | zero => simp only [stepUp, hpc, measure, hm]; omega
      | succ k =>
        simp only [stepUp, hpc]
        split <;> (simp only [measure, hm, hpc]; omega)
    | queueLoop r =>
      cases r with
      | nil => simp only [stepUp, hpc, measure, hm]; omega
      | cons i r => simp only [stepUp, hpc, measure, hm, deliver, List.length_cons]; omega
    | events =>
      simp only [stepUp, hpc]
      split <;> (simp only [measure, hm, hpc]; omega)
    | fetched i =>
      simp only [stepUp, hpc]
      split <;> (simp only [measure, hm, hpc, deliver]; omega)
    | save =>
      simp only [stepUp, hpc]
      split <;> (simp only [measure, hm, hpc]; omega)
    | errReset => simp only [stepUp, hpc, measure, hm]; omega
    | errForget => simp only [stepUp, hpc, measure, hm]; omega
    | errSave => simp only [stepUp, hpc, measure, hm]; omega
    | seedSave =>
      cases hnw : (m.needWalk && m.rootOid) <;>
        simp only [stepUp, hpc, afterInit, hnw, measure, hm, Bool.false_eq_true, if_false, if_true] <;> omega

/-- every do() returns -/
theorem finish_idle (n : Nat) (s : St) (h : measure s ≤ n) : (finish n s).pcIdle = true := by
  induction n generalizing s with
  | zero =>
    simp only [finish]
    cases hi : s.pcIdle with
    | true => rfl
    | false => have := measure_step s hi; omega
  | succ n ih =>
    simp only [finish]
    cases hi : s.pcIdle with
    | true => simp [hi]
    | false =>
      simp only [hi, Bool.false_eq_true, if_false]
      exact ih _ (by have := measure_step s hi; omega)

end CS.Event
