import Csverif.Proofs.StateChanged
/-
C11: `ent[side].path = v` (`_change_path`, `_update_kids`; state.py:812-876).
-/
namespace CS.State

/-- the state after `self._paths[side][prior_path].pop(ent[side].oid)` (state.py:822-826) -/
def popPrior (st : St) (s : Sd) (e : Nat) : St :=
  if truthyS (st.side e s).path then st.popPathSlot s (st.side e s).path (st.side e s).oid else st

/-- the state after `self._paths[side][path][oid] = ent; ent[side]._path = path` (state.py:839-840) -/
def putPath (st : St) (s : Sd) (e : Nat) (pth : Path.Str) : St :=
  (st.setPathSlot s (some pth) (st.side e s).oid e).modSide e s (fun x => { x with path := some pth })

theorem changePath_eq (setF : SetF) (cfg : Cfg) (s : Sd) (e : Nat) (path : Option Path.Str) (st : St) :
    changePath setF cfg s e path st =
      if (!truthyS path || truthyS (st.side e s).oid) = false then (.error .assert, st)
      else if (st.side e s).path = path then (.ok (), st)
      else match path with
        | some (c :: p) =>
          (oustPathOwner s e (c :: p) >>= fun _ => modifySt (fun st => putPath st s e (c :: p)) >>= fun _ =>
            updateKids setF cfg s e (st.side e s).path (c :: p) >>= fun _ => setPriority setF cfg e (cfg.prio s (c :: p))) (popPrior st s e)
        | _ => (.ok (), popPrior st s e) := by
  simp only [changePath, M.bind_apply, getSt_apply, assertM_apply]
  by_cases ha : (!truthyS path || truthyS (st.side e s).oid) = true
  · simp only [ha, if_true, Bool.true_eq_false, if_false]
    by_cases hp : (st.side e s).path = path
    · simp [hp]
    · simp only [hp, if_false, M.ite_apply, modifySt_apply, popPrior]
      cases path with
      | none => rfl
      | some q =>
        cases q with
        | nil => rfl
        | cons c p => rfl
  · have : (!truthyS path || truthyS (st.side e s).oid) = false := by simpa using ha
    simp [this]

theorem side_popPrior (st : St) (s e i s') : (popPrior st s e).side i s' = st.side i s' := by
  unfold popPrior; split <;> simp
theorem oids_popPrior (st : St) (s e s') : (popPrior st s e).oids s' = st.oids s' := by
  unfold popPrior; split <;> simp
theorem len_popPrior (st : St) (s e) : (popPrior st s e).ents.length = st.ents.length := by
  unfold popPrior; split <;> simp
theorem cs_popPrior (st : St) (s e) : (popPrior st s e).cs = st.cs := by
  unfold popPrior; split <;> simp

/-- after the pop, `e` has no path slot on `s`, the other clauses hold with `e` exempt, and the target slot is free -/
theorem Idx.popPrior {st : St} (h : Idx noX st) (s : Sd) (e : Nat) :
    Idx (noX.add e s) (popPrior st s e) ∧ (∀ p k, (popPrior st s e).slot s p k ≠ some e) ∧
    (∀ p, (st.side e s).oid ≠ none → p ≠ (st.side e s).path → (popPrior st s e).slot s p (st.side e s).oid = none) := by
  have hown : ∀ j, st.slot s (st.side e s).path (st.side e s).oid = some j → j = e := by
    intro j hj
    obtain ⟨_, h2, h3⟩ := h.pathSlot s _ _ j hj
    by_cases ho : (st.side e s).oid = none
    · rw [ho, h.oidKey s] at h3; cases h3
    · have := h.byOid e s (fun hx => hx) ho
      rw [this] at h3; cases h3; rfl
  unfold CS.State.popPrior
  by_cases ht : truthyS (st.side e s).path = true
  · simp only [ht, if_true]
    refine ⟨h.popPath hown, ?_, ?_⟩
    · intro p k hk
      rw [slot_popPathSlot] at hk
      split at hk
      · cases hk
      · next hne =>
        obtain ⟨h1, h2, _⟩ := h.pathSlot s p k e hk
        exact hne ⟨rfl, h1.symm, h2.symm⟩
    · intro p ho hp
      rw [slot_popPathSlot]
      split
      · rfl
      · cases hs : st.slot s p (st.side e s).oid with
        | none => rfl
        | some j =>
          obtain ⟨h1, _, h3⟩ := h.pathSlot s p _ j hs
          have := h.byOid e s (fun hx => hx) ho
          rw [this] at h3; cases h3
          exact absurd h1.symm hp
  · simp only [ht, Bool.false_eq_true, if_false]
    refine ⟨h.mono (fun i s' hx => Or.inl hx), ?_, ?_⟩
    · intro p k hk
      obtain ⟨h1, _, _⟩ := h.pathSlot s p k e hk
      unfold St.slot at hk
      cases hb : AL.get (st.paths s) p with
      | none => rw [hb] at hk; cases hk
      | some b => exact ht (h1 ▸ (h.pathKey s p b hb).1)
    · intro p ho hp
      cases hs : st.slot s p (st.side e s).oid with
      | none => rfl
      | some j =>
        obtain ⟨h1, _, h3⟩ := h.pathSlot s p _ j hs
        have := h.byOid e s (fun hx => hx) ho
        rw [this] at h3; cases h3
        exact absurd h1.symm hp

theorem oustPathOwner_eq (s : Sd) (e : Nat) (pth : Path.Str) (st : St) (h : st.slot s (some pth) (st.side e s).oid = none) :
    oustPathOwner s e pth st = (.ok (), st) := by
  simp only [oustPathOwner, M.bind_apply, getSt_apply, h, M.pure_apply]

theorem Pend.path_irrelevant {st st' : St} (h : Pend st) (hc : st'.cs = st.cs)
    (hf : ∀ i s, (st'.side i s).oid = (st.side i s).oid ∧ (st'.side i s).changed = (st.side i s).changed) : Pend st' :=
  h.congr (fun i hi => hc ▸ hi) hf

/-- the state after the slot insertion satisfies the invariant again -/
theorem Inv.putPath {st : St} (hI : Idx noX st) (hP : Pend st) (s : Sd) (e : Nat) (pth : Path.Str)
    (ht : truthyS (some pth) = true) (ho : truthyS (st.side e s).oid = true) (hne : (st.side e s).path ≠ some pth)
    (hlt : e < st.ents.length) :
    Inv (putPath (popPrior st s e) s e pth) ∧ Frame (some (e, s)) st (putPath (popPrior st s e) s e pth) ∧
    ((putPath (popPrior st s e) s e pth).side e s).path = some pth := by
  obtain ⟨h1, h2, h3⟩ := hI.popPrior s e
  have hon : (st.side e s).oid ≠ none := by intro hh; rw [hh] at ho; cases ho
  have hside := side_popPrior st s e
  unfold CS.State.putPath
  refine ⟨⟨?_, ?_⟩, ?_, ?_⟩
  · apply Idx.indexPath h1 h2
    · rw [hside, oids_popPrior]; exact hI.byOid e s (fun hx => hx) hon
    · exact ht
    · rw [hside]; exact h3 (some pth) hon (fun hh => hne hh.symm)
    · rw [len_popPrior]; exact hlt
  · apply hP.congr
    · intro i hi; simpa [cs_popPrior] using hi
    · intro i s'
      rw [side_modSide]; simp only [side_setPathSlot, hside]
      split
      · next hh => obtain ⟨a, b, _⟩ := hh; subst a; subst b; exact ⟨rfl, rfl⟩
      · exact ⟨rfl, rfl⟩
  · refine ⟨by simp [len_popPrior], fun i s' => ?_⟩
    rw [side_modSide]; simp only [side_setPathSlot, hside]
    split
    · next hh =>
      obtain ⟨a, b, _⟩ := hh; subst a; subst b
      exact ⟨rfl, fun hn => absurd rfl hn⟩
    · exact ⟨rfl, fun _ => rfl⟩
  · rw [side_modSide]; simp [len_popPrior, hlt]

/-- the final, redundant `object.__setattr__(self, "_path", v)` and the dirty mark -/
def pathFin (st : St) (e : Nat) (s : Sd) (v : Option Path.Str) : St :=
  (st.dirtyAdd e).modSide e s (fun x => { x with path := v })

theorem sideSet_path_eq (cfg : Cfg) (n : Nat) (e : Nat) (s : Sd) (v : Option Path.Str) (st : St) :
    sideSet cfg (n + 1) e s (.path v) st =
      match changePath (sideSet cfg n) cfg s e v st with
      | (.error x, s') => (.error x, s')
      | (.ok _, s') => (.ok (), pathFin s' e s v) := by
  show sideSetBody (sideSet cfg n) cfg e s (.path v) st = _
  simp only [sideSetBody, updatedSide, M.bind_apply, modifySt_apply, pathFin]
  cases changePath (sideSet cfg n) cfg s e v st with
  | mk r s' => cases r <;> rfl

theorem side_pathFin (st : St) (e : Nat) (s : Sd) (v : Option Path.Str) (i : Nat) (s' : Sd) :
    (pathFin st e s v).side i s' = if i = e ∧ s' = s ∧ e < st.ents.length then { st.side e s with path := v } else st.side i s' := by
  unfold pathFin; rw [side_modSide]; rfl

theorem pathFin_same {st : St} {e s v} (h : (st.side e s).path = v) (i : Nat) (s' : Sd) :
    (pathFin st e s v).side i s' = st.side i s' := by
  rw [side_pathFin]
  by_cases hh : i = e ∧ s' = s ∧ e < st.ents.length
  · rw [if_pos hh]; obtain ⟨a, b, _⟩ := hh; subst a; subst b; rw [← h]
  · rw [if_neg hh]

theorem inv_pathFin_same {st : St} (hi : Inv st) {e s v} (h : (st.side e s).path = v) : Inv (pathFin st e s v) := by
  have hs := pathFin_same h
  refine ⟨hi.1.congr (by simp [pathFin]) (by simp [pathFin]) (by simp [pathFin]) (fun i s' => by rw [hs]; exact ⟨rfl, rfl⟩), ?_⟩
  exact hi.2.congr (by simp [pathFin]) (fun i s' => by rw [hs]; exact ⟨rfl, rfl⟩)

theorem frame_pathFin (st : St) (e s v) : Frame (some (e, s)) st (pathFin st e s v) := by
  refine ⟨by simp [pathFin], fun i s' => ?_⟩
  rw [side_pathFin]
  by_cases hh : i = e ∧ s' = s ∧ e < st.ents.length
  · rw [if_pos hh]; obtain ⟨a, b, _⟩ := hh; subst a; subst b; exact ⟨rfl, fun hn => absurd rfl hn⟩
  · rw [if_neg hh]; exact ⟨rfl, fun _ => rfl⟩

/-- a falsy path: the slot is gone, the field is cleared -/
theorem inv_pathFin_falsy {st : St} (hi : Inv st) (s : Sd) (e : Nat) (v : Option Path.Str) (hv : truthyS v = false) :
    Inv (pathFin (popPrior st s e) e s v) := by
  obtain ⟨h1, h2, _⟩ := hi.1.popPrior s e
  have hside := side_popPrior st s e
  unfold pathFin
  constructor
  · apply Idx.clearPath (h1.congr (by simp) (by simp) (by simp) (by simp)) (by simpa using h2) ?_ hv
    intro ho
    simp only [side_dirtyAdd, hside, oids_dirtyAdd, oids_popPrior] at ho ⊢
    exact hi.1.byOid e s (fun hx => hx) ho
  · apply hi.2.congr
    · intro i hi'; simpa [cs_popPrior] using hi'
    · intro i s'
      rw [side_modSide]; simp only [side_dirtyAdd, hside]
      by_cases hh : i = e ∧ s' = s ∧ e < ((popPrior st s e).dirtyAdd e).ents.length
      · rw [if_pos hh]; obtain ⟨a, b, _⟩ := hh; subst a; subst b; exact ⟨rfl, rfl⟩
      · rw [if_neg hh]; exact ⟨rfl, rfl⟩

theorem finallyM_apply {α} (m : M α) (f : St → St) (st : St) : finallyM m f st = ((m st).1, f (m st).2) := by
  unfold finallyM; cases m st; rfl

theorem pushpop (st : St) (e : Nat) : ({ ({ st with moving := e :: st.moving } : St) with moving := (e :: st.moving).tail } : St) = st := rfl

theorem updateKidsOf_skip_eq (setF : SetF) (cfg : Cfg) (s : Sd) (e : Nat) (prior : Option Path.Str) (pth : Path.Str) (st : St)
    (h : (st.side e s).otype ≠ .dir ∨ prior = none) : updateKidsOf setF cfg s e prior pth st = (.ok (), st) := by
  simp only [updateKidsOf, M.bind_apply, getSt_apply]
  cases prior with
  | none => rfl
  | some pr =>
    rcases h with h | h
    · have : ((st.side e s).otype == OType.dir) = false := by simpa using h
      simp [whenM, this]
    · cases h

theorem updateKids_skip_eq (setF : SetF) (cfg : Cfg) (s : Sd) (e : Nat) (prior : Option Path.Str) (pth : Path.Str) (st : St)
    (h : (st.side e s).otype ≠ .dir ∨ prior = none) : updateKids setF cfg s e prior pth st = (.ok (), st) := by
  unfold updateKids
  rw [finallyM_apply]
  simp only [M.bind_apply, modifySt_apply]
  have h' : (({ st with moving := e :: st.moving } : St).side e s).otype ≠ .dir ∨ prior = none := h
  rw [updateKidsOf_skip_eq setF cfg s e prior pth { st with moving := e :: st.moving } h']
  rfl

/-- the `some (c :: p)` branch of `_change_path` after the pop, given what `_update_kids` does -/
theorem changePath_some_tr (cfg : Cfg) (n : Nat) (e : Nat) (s : Sd) (c : Char) (p : Path.Str) (st : St)
    (Q : St → Prop) (hi : Inv st) (hlt : e < st.ents.length) (ha : truthyS (st.side e s).oid = true)
    (hp : (st.side e s).path ≠ some (c :: p))
    (hK : Tr (fun st4 => st4 = putPath (popPrior st s e) s e (c :: p))
      (updateKids (sideSet cfg n) cfg s e (st.side e s).path (c :: p))
      (fun _ st5 => Inv st5 ∧ e < st5.ents.length ∧ (st5.side e s).path = some (c :: p) ∧ Q st5) (fun st5 => Inv st5 ∧ Q st5))
    (hQ : ∀ st5 st6, Q st5 → ChgRel e st5 st6 → Q st6) :
    Tr (fun st' => st' = st) (sideSet cfg (n + 1) e s (.path (some (c :: p))))
      (fun _ st' => ∃ st6, Inv st6 ∧ Q st6 ∧ (st6.side e s).path = some (c :: p) ∧ st' = pathFin st6 e s (some (c :: p)))
      (fun st' => Inv st' ∧ Q st') := by
  rintro st' rfl
  have hfree : (popPrior st' s e).slot s (some (c :: p)) ((popPrior st' s e).side e s).oid = none := by
    rw [side_popPrior]
    exact (hi.1.popPrior s e).2.2 _ (by intro hh; rw [hh] at ha; cases ha) (fun hh => hp hh.symm)
  have hcp : changePath (sideSet cfg n) cfg s e (some (c :: p)) st' =
      (updateKids (sideSet cfg n) cfg s e (st'.side e s).path (c :: p) >>= fun _ =>
        setPriority (sideSet cfg n) cfg e (cfg.prio s (c :: p))) (putPath (popPrior st' s e) s e (c :: p)) := by
    rw [changePath_eq]
    have h1 : (!truthyS (some (c :: p)) || truthyS (st'.side e s).oid) = true := by simp [ha]
    simp only [h1, Bool.true_eq_false, if_false, hp, M.bind_apply, oustPathOwner_eq _ _ _ _ hfree, modifySt_apply]
  have htr : Tr (fun st4 => st4 = putPath (popPrior st' s e) s e (c :: p))
      (updateKids (sideSet cfg n) cfg s e (st'.side e s).path (c :: p) >>= fun _ =>
        setPriority (sideSet cfg n) cfg e (cfg.prio s (c :: p)))
      (fun _ st6 => Inv st6 ∧ Q st6 ∧ (st6.side e s).path = some (c :: p)) (fun st6 => Inv st6 ∧ Q st6) := by
    refine Tr.bind hK (fun _ => ?_)
    apply Tr.intro_st
    intro st5
    refine Tr.with_pre (φ := (st5.side e s).path = some (c :: p) ∧ Q st5) (fun st ⟨h1, _, _, h4, h5⟩ => h1 ▸ ⟨h4, h5⟩)
      (fun ⟨hp5, hq5⟩ => ?_)
    refine (setPriority_tr cfg n noX e (cfg.prio s (c :: p)) st5).conseq ?_ ?_ (fun _ h => h.elim)
    · rintro st ⟨rfl, h5, hl5, _, _⟩; exact ⟨rfl, h5.1, h5.2, hl5⟩
    · intro _ st6 ⟨hrel, hI6, hP6⟩
      exact ⟨⟨hI6, hP6⟩, hQ st5 st6 hq5 hrel, by rw [(hrel.field e s).2.1]; exact hp5⟩
  have := htr _ rfl
  rw [← hcp] at this
  rw [sideSet_path_eq]
  cases hr : changePath (sideSet cfg n) cfg s e (some (c :: p)) st' with
  | mk r st6 =>
    rw [hr] at this
    cases r with
    | error x => exact ⟨fun a ha => (by cases ha), fun y hy hne => by cases hy; exact this.2 x rfl hne⟩
    | ok u =>
      obtain ⟨h6, hq6, hp6⟩ := this.1 u rfl
      exact ⟨fun a _ => ⟨st6, h6, hq6, hp6, rfl⟩, fun y hy => by cases hy⟩

/-- `ent[side].path = v`, given what `_update_kids` does in the state reached after the slot insertion.
    `Q` is whatever the caller tracks through the kids loop (it must survive changes of `changed` fields). -/
theorem sideSet_path_gen (cfg : Cfg) (n : Nat) (e : Nat) (s : Sd) (v : Option Path.Str) (st : St)
    (Q : St → Prop) (hi : Inv st) (hlt : e < st.ents.length) (hQ0 : Q st)
    (hQpop : ∀ w, truthyS w = false → Q (pathFin (popPrior st s e) e s w))
    (hQfin : ∀ st6 w, Q st6 → (st6.side e s).path = w → Q (pathFin st6 e s w))
    (hQ : ∀ st5 st6, Q st5 → ChgRel e st5 st6 → Q st6)
    (hK : ∀ c p, v = some (c :: p) → truthyS (st.side e s).oid = true → (st.side e s).path ≠ some (c :: p) →
      Tr (fun st4 => st4 = putPath (popPrior st s e) s e (c :: p))
      (updateKids (sideSet cfg n) cfg s e (st.side e s).path (c :: p))
      (fun _ st5 => Inv st5 ∧ e < st5.ents.length ∧ (st5.side e s).path = some (c :: p) ∧ Q st5) (fun st5 => Inv st5 ∧ Q st5)) :
    Tr (fun st' => st' = st) (sideSet cfg (n + 1) e s (.path v)) (fun _ st' => Inv st' ∧ Q st') (fun st' => Inv st' ∧ Q st') := by
  rintro st' rfl
  by_cases ha : (!truthyS v || truthyS (st'.side e s).oid) = false
  · have hcp : changePath (sideSet cfg n) cfg s e v st' = (.error .assert, st') := by rw [changePath_eq]; simp [ha]
    rw [sideSet_path_eq, hcp]
    exact ⟨fun a h => (by cases h), fun x hx _ => by cases hx; exact ⟨hi, hQ0⟩⟩
  · by_cases hp : (st'.side e s).path = v
    · have hcp : changePath (sideSet cfg n) cfg s e v st' = (.ok (), st') := by rw [changePath_eq]; simp [ha, hp]
      rw [sideSet_path_eq, hcp]
      exact ⟨fun a _ => ⟨inv_pathFin_same hi hp, hQfin _ _ hQ0 hp⟩, fun x hx => by cases hx⟩
    · have hfalsy : ∀ w : Option Path.Str, v = w → truthyS w = false →
          (∀ a, (sideSet cfg (n + 1) e s (.path v) st').1 = .ok a → Inv (sideSet cfg (n + 1) e s (.path v) st').2 ∧ Q (sideSet cfg (n + 1) e s (.path v) st').2) ∧
          (∀ x, (sideSet cfg (n + 1) e s (.path v) st').1 = .error x → x ≠ .recursion → Inv (sideSet cfg (n + 1) e s (.path v) st').2 ∧ Q (sideSet cfg (n + 1) e s (.path v) st').2) := by
        intro w hw hf
        have hcp : changePath (sideSet cfg n) cfg s e v st' = (.ok (), popPrior st' s e) := by
          rw [changePath_eq]; simp only [ha, Bool.false_eq_true, if_false, hp]
          subst hw
          cases v with
          | none => rfl
          | some q => cases q with
            | nil => rfl
            | cons c p => simp [truthyS] at hf
        rw [sideSet_path_eq, hcp]
        exact ⟨fun a _ => ⟨hw ▸ inv_pathFin_falsy hi s e w hf, hw ▸ hQpop w hf⟩, fun x hx => by cases hx⟩
      cases hv : v with
      | none => exact hv ▸ hfalsy none hv rfl
      | some q =>
        cases q with
        | nil => exact hv ▸ hfalsy (some []) hv rfl
        | cons c p =>
          have ho : truthyS (st'.side e s).oid = true := by
            cases hb : (!truthyS v || truthyS (st'.side e s).oid) with
            | false => exact absurd hb ha
            | true => rw [hv] at hb; simpa [truthyS] using hb
          have hp' : (st'.side e s).path ≠ some (c :: p) := hv ▸ hp
          have := changePath_some_tr cfg n e s c p st' Q hi hlt ho hp' (hK c p hv ho hp') hQ st' rfl
          refine ⟨fun a ha' => ?_, fun x hx hne => this.2 x hx hne⟩
          obtain ⟨st6, h6, hq6, hp6, heq⟩ := this.1 a ha'
          rw [heq]
          exact ⟨inv_pathFin_same h6 hp6, hQfin _ _ hq6 hp6⟩

end CS.State
