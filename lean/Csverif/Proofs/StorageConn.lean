import Csverif.Proofs.Storage
/- helper lemmas for the connection-level part of Props/C09.lean (Model/Storage.lean `namespace Conn`) -/
namespace CS.Storage
namespace Conn
variable {V : Type}

/-- the configuration under which every connection the object can ever use is in autocommit mode -/
def Good (cfg : Cfg) : Prop := cfg.initAuto = true ∧ cfg.reconnAuto = true

/-- autocommit connection, no open transaction, the connection's view is the committed file -/
def CInv (s : St V) : Prop := s.auto = true ∧ s.dirty = false ∧ s.view = s.committed

theorem step_nonwrite (t : Sqlite.Table V) (o : Op V) (h : isWrite o = false) : (Sqlite.step t o).1 = t := by
  cases o with
  | create => simp [isWrite] at h
  | update => simp [isWrite] at h
  | delete => simp [isWrite] at h
  | read => rfl
  | readAll tg => cases tg <;> rfl
  | reopen => rfl

theorem exec_good (s : St V) (h : CInv s) (o : Op V) :
    CInv (exec s o).1 ∧ (exec s o).2 = (Sqlite.step s.committed o).2 ∧
    (exec s o).1.committed = (Sqlite.step s.committed o).1 ∧ (exec s o).1.locked = s.locked := by
  obtain ⟨ha, hd, hv⟩ := h
  unfold exec
  by_cases hw : isWrite o = true
  · rw [if_pos hw, if_pos ha]
    refine ⟨⟨ha, hd, rfl⟩, ?_, ?_, rfl⟩
    · show (Sqlite.step s.view o).2 = _
      rw [hv]
    · show (Sqlite.step s.view o).1 = _
      rw [hv]
  · have hw' : isWrite o = false := by simpa using hw
    rw [if_neg hw]
    refine ⟨⟨ha, hd, hv⟩, ?_, ?_, rfl⟩
    · show (Sqlite.step s.view o).2 = _
      rw [hv]
    · show s.committed = _
      rw [step_nonwrite _ o hw']

theorem reconnect_good (cfg : Cfg) (hc : Good cfg) (s : St V) :
    CInv (reconnect cfg s) ∧ (reconnect cfg s).committed = s.committed ∧ (reconnect cfg s).locked = s.locked :=
  ⟨⟨hc.2, rfl, rfl⟩, rfl, rfl⟩

/-- `__db_execute` under a good configuration: either the statement ran exactly once on the committed table (and was
    committed at once), or the error reached the caller and the committed table is untouched -/
theorem attempt_good (cfg : Cfg) (hc : Good cfg) (s : St V) (h : CInv s) (o : Op V) (n : Nat) :
    CInv (attempt cfg s o n).1 ∧ (attempt cfg s o n).1.locked = s.locked ∧
    (((attempt cfg s o n).2 = some (Sqlite.step s.committed o).2 ∧
        (attempt cfg s o n).1.committed = (Sqlite.step s.committed o).1) ∨
     ((attempt cfg s o n).2 = none ∧ (attempt cfg s o n).1.committed = s.committed)) := by
  unfold attempt
  have hr := reconnect_good cfg hc s
  split
  · have he := exec_good s h o
    exact ⟨he.1, he.2.2.2, Or.inl ⟨by rw [he.2.1], he.2.2.1⟩⟩
  · split
    · have he := exec_good (reconnect cfg s) hr.1 o
      rw [hr.2.1] at he
      exact ⟨he.1, he.2.2.2.trans hr.2.2, Or.inl ⟨by rw [he.2.1], he.2.2.1⟩⟩
    · exact ⟨hr.1, hr.2.2, Or.inr ⟨rfl, hr.2.1⟩⟩

end Conn
end CS.Storage
