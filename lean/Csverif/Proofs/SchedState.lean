import Csverif.Proofs.Sched
/-
Helper lemmas for C17, state level (Model/Sched.lean):
* what each hooked write may change on the two sides of an entry (`SameBut`, `KeepIds`);
* frame of the fill-in loop (`FillRel`);
* the changeset-membership invariant (`EInv`, `Inv`) and its preservation by every modelled call.
-/
namespace CS.Sched

/-! ## what a write may change -/

/-- same side up to the change stamp -/
def SameBut (a b : Side) : Prop :=
  b.oid = a.oid ∧ b.path = a.path ∧ b.syncPath = a.syncPath ∧ b.ex = a.ex ∧ b.lastGotten = a.lastGotten

theorem SameBut.refl (a : Side) : SameBut a a := ⟨rfl, rfl, rfl, rfl, rfl⟩

theorem SameBut.trans {a b c : Side} (h1 : SameBut a b) (h2 : SameBut b c) : SameBut a c :=
  ⟨h2.1.trans h1.1, h2.2.1.trans h1.2.1, h2.2.2.1.trans h1.2.2.1, h2.2.2.2.1.trans h1.2.2.2.1,
   h2.2.2.2.2.trans h1.2.2.2.2⟩

theorem sameBut_changed (a : Side) (v : Option Rat) : SameBut a { a with changed := v } := ⟨rfl, rfl, rfl, rfl, rfl⟩

/-- both sides keep everything but their stamps; id kept -/
def StampsOnly (e e' : Entry) : Prop := e'.id = e.id ∧ SameBut e.l e'.l ∧ SameBut e.r e'.r

theorem StampsOnly.refl (e : Entry) : StampsOnly e e := ⟨rfl, SameBut.refl _, SameBut.refl _⟩

theorem StampsOnly.trans {a b c : Entry} (h1 : StampsOnly a b) (h2 : StampsOnly b c) : StampsOnly a c :=
  ⟨h2.1.trans h1.1, h1.2.1.trans h2.2.1, h1.2.2.trans h2.2.2⟩

theorem StampsOnly.side {e e' : Entry} (h : StampsOnly e e') (t : Bool) : SameBut (e.side t) (e'.side t) := by
  cases t
  · exact h.2.1
  · exact h.2.2

theorem stampsOnly_of_sides {e e' : Entry} (hid : e'.id = e.id) (h : ∀ t, SameBut (e.side t) (e'.side t)) :
    StampsOnly e e' := ⟨hid, h false, h true⟩

theorem setChangedA_stampsOnly (e : Entry) (s : Bool) (v : Option Rat) : StampsOnly e (setChangedA e s v).1 := by
  apply stampsOnly_of_sides (setChangedA_id e s v)
  intro t
  by_cases ht : t = s
  · subst ht; rw [setChangedA_self]; exact sameBut_changed _ _
  · have : t = !s := by cases t <;> cases s <;> simp_all
    subst this
    rcases setChangedA_other e s v with h | ⟨_, _, _, h⟩
    · rw [h]; exact SameBut.refl _
    · rw [h]; exact sameBut_changed _ _

theorem bumpA_stampsOnly (p : Rat × Rat) (x : Entry × Acts) (s : Bool) : StampsOnly x.1 (bumpA p x s).1 := by
  simp only [bumpA]
  split
  · exact setChangedA_stampsOnly _ _ _
  · exact StampsOnly.refl _

theorem priority_stampsOnly (e : Entry) (v : Rat) : StampsOnly e { e with priority := v } :=
  ⟨rfl, SameBut.refl _, SameBut.refl _⟩

theorem setPriorityA_stampsOnly (p : Rat × Rat) (e : Entry) (v : Rat) : StampsOnly e (setPriorityA p e v).1 := by
  simp only [setPriorityA]
  split
  · exact StampsOnly.refl _
  · split
    · exact ((bumpA_stampsOnly p (e, []) false).trans (bumpA_stampsOnly p _ true)).trans (priority_stampsOnly _ _)
    · exact priority_stampsOnly _ _

/-- a write that concerns side `s` only: the other side keeps everything but its stamp, side `s`
    keeps its id and synced path -/
def SideWrite (s : Bool) (e e' : Entry) : Prop :=
  e'.id = e.id ∧ SameBut (e.side (!s)) (e'.side (!s)) ∧
  (e'.side s).oid = (e.side s).oid ∧ (e'.side s).syncPath = (e.side s).syncPath

theorem SideWrite.refl (s : Bool) (e : Entry) : SideWrite s e e := ⟨rfl, SameBut.refl _, rfl, rfl⟩

theorem SideWrite.trans {s : Bool} {a b c : Entry} (h1 : SideWrite s a b) (h2 : SideWrite s b c) : SideWrite s a c :=
  ⟨h2.1.trans h1.1, h1.2.1.trans h2.2.1, h2.2.2.1.trans h1.2.2.1, h2.2.2.2.trans h1.2.2.2⟩

theorem StampsOnly.sideWrite {e e' : Entry} (h : StampsOnly e e') (s : Bool) : SideWrite s e e' :=
  ⟨h.1, h.side _, (h.side s).1, (h.side s).2.2.1⟩

theorem sideWrite_setSide (e : Entry) (s : Bool) (x : Side) (ho : x.oid = (e.side s).oid)
    (hs : x.syncPath = (e.side s).syncPath) : SideWrite s e (e.setSide s x) := by
  refine ⟨by simp, ?_, ?_, ?_⟩
  · rw [side_setSide_not]; exact SameBut.refl _
  · rw [side_setSide_same]; exact ho
  · rw [side_setSide_same]; exact hs

theorem setPathA_sideWrite (p : Rat × Rat) (e : Entry) (s : Bool) (path : String) (prio : Rat) :
    SideWrite s e (setPathA p e s path prio).1 := by
  simp only [setPathA]
  split
  · exact SideWrite.refl _ _
  · have h1 : SideWrite s e (e.setSide s { e.side s with path := some path }) := sideWrite_setSide e s _ rfl rfl
    split
    · exact h1
    · exact h1.trans ((setPriorityA_stampsOnly p _ prio).sideWrite s)

@[simp] theorem seqA_fst (x : Entry × Acts) (f : Entry → Entry × Acts) : (seqA x f).1 = (f x.1).1 := rfl
@[simp] theorem seqA_snd (x : Entry × Acts) (f : Entry → Entry × Acts) : (seqA x f).2 = x.2 ++ (f x.1).2 := rfl

theorem getLatestA_sideWrite (p : Rat × Rat) (now : Rat) (ans : Option (String × Rat)) (e : Entry) (s : Bool) :
    SideWrite s e (getLatestA p now ans e s).1 := by
  simp only [getLatestA]
  split
  · -- the inner result `x`
    have key : ∀ x : Entry × Acts, SideWrite s e x.1 →
        SideWrite s e (x.1.setSide s { x.1.side s with lastGotten := orZero (e.side s).changed }) := by
      intro x hx
      exact hx.trans (sideWrite_setSide x.1 s _ rfl rfl)
    apply key
    split
    · exact sideWrite_setSide e s _ rfl rfl
    · split
      · exact sideWrite_setSide e s _ rfl rfl
      · rename_i path prio
        have h1 : SideWrite s e (e.setSide s { e.side s with ex := Ex.exists }) := sideWrite_setSide e s _ rfl rfl
        split
        · exact h1
        · split
          · exact h1.trans (setPathA_sideWrite p _ s path prio)
          · exact (h1.trans (setPathA_sideWrite p _ s path prio)).trans
              ((setChangedA_stampsOnly _ s _).sideWrite s)
  · exact SideWrite.refl _ _

/-! ## the fill-in loop: frame -/

/-- the loop's guard is false for this side: it has a path, or `exists` is neither EXISTS nor UNKNOWN -/
def Side.settled (sd : Side) : Bool := truthyS sd.path || !sd.ex.fillable

theorem settled_sameBut {a b : Side} (h : SameBut a b) : b.settled = a.settled := by
  simp only [Side.settled, h.2.1, h.2.2.2.1]

theorem fillSideA_settled (p : Rat × Rat) (now : Rat) (ans : Option (String × Rat)) (e : Entry) (s : Bool)
    (h : (e.side s).settled = true) : fillSideA p now ans e s = (e, []) := by
  simp only [fillSideA]
  split
  · rename_i hc
    simp only [Side.settled, Bool.or_eq_true, Bool.not_eq_true', Bool.and_eq_true] at h hc
    rcases h with h | h
    · rw [h] at hc; exact absurd hc.1 (by simp)
    · rw [h] at hc; exact absurd hc.2 (by simp)
  · rfl

theorem fillSideA_sideWrite (p : Rat × Rat) (now : Rat) (ans : Option (String × Rat)) (e : Entry) (s : Bool) :
    SideWrite s e (fillSideA p now ans e s).1 := by
  simp only [fillSideA]
  split
  · exact getLatestA_sideWrite p now ans e s
  · exact SideWrite.refl _ _

/-- what the fill-in may do to an entry: ids and synced paths stay; a side for which the guard is
    false keeps everything but (possibly) its stamp; an entry with two such sides is untouched -/
structure FillRel (e e' : Entry) : Prop where
  id : e'.id = e.id
  oid : ∀ t, (e'.side t).oid = (e.side t).oid ∧ (e'.side t).syncPath = (e.side t).syncPath
  kept : ∀ t, (e.side t).settled = true → SameBut (e.side t) (e'.side t)
  same : e.l.settled = true → e.r.settled = true → e' = e

theorem FillRel.refl (e : Entry) : FillRel e e :=
  ⟨rfl, fun _ => ⟨rfl, rfl⟩, fun _ _ => SameBut.refl _, fun _ _ => rfl⟩

theorem FillRel.trans {a b c : Entry} (h1 : FillRel a b) (h2 : FillRel b c) : FillRel a c where
  id := h2.id.trans h1.id
  oid := fun t => ⟨(h2.oid t).1.trans (h1.oid t).1, (h2.oid t).2.trans (h1.oid t).2⟩
  kept := fun t ht => (h1.kept t ht).trans (h2.kept t (by rw [settled_sameBut (h1.kept t ht)]; exact ht))
  same := fun hl hr => by
    have hb := h1.same hl hr
    subst hb
    exact h2.same hl hr

theorem fillEntryA_fillRel (p : Rat × Rat) (now : Rat) (aL aR : Option (String × Rat)) (e : Entry) :
    FillRel e (fillEntryA p now aL aR e).1 := by
  have w1 := fillSideA_sideWrite p now aL e false
  have w2 := fillSideA_sideWrite p now aR (fillSideA p now aL e false).1 true
  refine ⟨?_, ?_, ?_, ?_⟩
  · simp only [fillEntryA, seqA_fst]; exact w2.1.trans w1.1
  · intro t
    simp only [fillEntryA, seqA_fst]
    cases t with
    | false => exact ⟨w2.2.1.1.trans w1.2.2.1, w2.2.1.2.2.1.trans w1.2.2.2⟩
    | true => exact ⟨w2.2.2.1.trans w1.2.1.1, w2.2.2.2.trans w1.2.1.2.2.1⟩
  · intro t ht
    simp only [fillEntryA, seqA_fst]
    cases t with
    | false =>
      rw [fillSideA_settled p now aL e false ht] at w2 ⊢
      exact w2.2.1
    | true =>
      have hsb : SameBut (e.side true) ((fillSideA p now aL e false).1.side true) := w1.2.1
      have hs : ((fillSideA p now aL e false).1.side true).settled = true := by
        rw [settled_sameBut hsb]; exact ht
      rw [fillSideA_settled p now aR _ true hs]
      exact w1.2.1
  · intro hl hr
    have hl' : (e.side false).settled = true := hl
    have hr' : (e.side true).settled = true := hr
    simp only [fillEntryA, seqA_fst]
    rw [fillSideA_settled p now aL e false hl', fillSideA_settled p now aR e true hr']

/-! ## the changeset-membership invariant -/

/-- some side has both an id and a change flag -/
def hasIdChange (e : Entry) : Bool :=
  (truthy e.l.changed && truthyS e.l.oid) || (truthy e.r.changed && truthyS e.r.oid)

/-- some side has a change flag -/
def anyChange (e : Entry) : Bool := truthy e.l.changed || truthy e.r.changed

/-- membership `m` of an entry in the changeset is consistent with its fields -/
def EInv (e : Entry) (m : Bool) : Prop := (hasIdChange e = true → m = true) ∧ (m = true → anyChange e = true)

/-- membership after a run of changeset actions -/
def lastAct (a : Acts) (m : Bool) : Bool := a.getLast?.getD m

@[simp] theorem lastAct_nil (m : Bool) : lastAct [] m = m := rfl
@[simp] theorem lastAct_single (b m : Bool) : lastAct [b] m = b := rfl

theorem lastAct_append (a b : Acts) (m : Bool) : lastAct (a ++ b) m = lastAct b (lastAct a m) := by
  cases b with
  | nil => simp
  | cons y b =>
    simp only [lastAct, List.getLast?_append]
    cases h : (y :: b).getLast? with
    | none => simp at h
    | some v => simp

theorem hasIdChange_sides (e : Entry) :
    hasIdChange e = true ↔ ∃ t, truthy (e.side t).changed = true ∧ truthyS (e.side t).oid = true := by
  simp only [hasIdChange, Bool.or_eq_true, Bool.and_eq_true]
  constructor
  · rintro (h | h)
    · exact ⟨false, h⟩
    · exact ⟨true, h⟩
  · rintro ⟨t, h⟩
    cases t
    · exact Or.inl h
    · exact Or.inr h

theorem anyChange_sides (e : Entry) : anyChange e = true ↔ ∃ t, truthy (e.side t).changed = true := by
  simp only [anyChange, Bool.or_eq_true]
  constructor
  · rintro (h | h)
    · exact ⟨false, h⟩
    · exact ⟨true, h⟩
  · rintro ⟨t, h⟩
    cases t
    · exact Or.inl h
    · exact Or.inr h

/-- `EInv` only looks at the stamps and ids of the two sides -/
theorem EInv_congr {e e' : Entry} {m : Bool}
    (h : ∀ t, (e'.side t).changed = (e.side t).changed ∧ (e'.side t).oid = (e.side t).oid) (hi : EInv e m) :
    EInv e' m := by
  have h1 : hasIdChange e' = hasIdChange e := by
    have hl := h false; have hr := h true
    simp only [Entry.side, Bool.false_eq_true, if_false, if_true] at hl hr
    simp only [hasIdChange, hl.1, hl.2, hr.1, hr.2]
  have h2 : anyChange e' = anyChange e := by
    have hl := h false; have hr := h true
    simp only [Entry.side, Bool.false_eq_true, if_false, if_true] at hl hr
    simp only [anyChange, hl.1, hr.1]
  simpa only [EInv, h1, h2] using hi

/-- an entry-level write preserves the invariant (whatever the membership was, the membership the
    hooks leave behind is consistent with the written entry) and keeps the entry's id -/
def Pres (f : Entry → Entry × Acts) : Prop :=
  ∀ e, (f e).1.id = e.id ∧ ∀ m, EInv e m → EInv (f e).1 (lastAct (f e).2 m)

/-- the hook of a `changed` write decides membership consistently on its own -/
theorem setChangedA_einv (e : Entry) (s : Bool) (v : Option Rat) : EInv (setChangedA e s v).1 (hookKeep e s v) := by
  have hself := setChangedA_self e s v
  have hoth := setChangedA_other e s v
  constructor
  · intro h
    rw [hasIdChange_sides] at h
    obtain ⟨t, ht1, ht2⟩ := h
    by_cases hts : t = s
    · subst hts
      rw [hself] at ht1 ht2
      simp only [hookKeep, Bool.or_eq_true, Bool.and_eq_true]
      exact Or.inl ⟨ht1, ht2⟩
    · have : t = !s := by cases t <;> cases s <;> simp_all
      subst this
      rcases hoth with h | ⟨_, _, _, h⟩
      · rw [h] at ht1 ht2
        simp only [hookKeep, Bool.or_eq_true, Bool.and_eq_true]
        exact Or.inr ⟨ht1, ht2⟩
      · rw [h] at ht1; simp [truthy] at ht1
  · intro h
    rw [anyChange_sides]
    simp only [hookKeep, Bool.or_eq_true, Bool.and_eq_true] at h
    rcases h with h | h
    · exact ⟨s, by rw [hself]; exact h.1⟩
    · rcases hoth with h' | ⟨hk, _, _, _⟩
      · exact ⟨!s, by rw [h']; exact h.1⟩
      · simp only [hookKeep, h.1, h.2, Bool.and_self, Bool.or_true] at hk
        exact absurd hk (by simp)

theorem pres_setChangedA (s : Bool) (v : Option Rat) : Pres (fun e => setChangedA e s v) :=
  fun e => ⟨setChangedA_id e s v, fun _ _ => by simpa using setChangedA_einv e s v⟩

theorem pres_seq {f g : Entry → Entry × Acts} (hf : Pres f) (hg : Pres g) : Pres (fun e => seqA (f e) g) := by
  intro e
  refine ⟨by simp only [seqA_fst]; exact (hg _).1.trans (hf e).1, ?_⟩
  intro m hm
  simp only [seqA_fst, seqA_snd, lastAct_append]
  exact (hg _).2 _ ((hf e).2 m hm)

theorem pres_id : Pres (fun e => (e, [])) := fun _ => ⟨rfl, fun _ h => h⟩

/-- a write that leaves stamps and ids alone and issues no action -/
theorem pres_fields (g : Entry → Entry) (hid : ∀ e, (g e).id = e.id)
    (h : ∀ e t, ((g e).side t).changed = (e.side t).changed ∧ ((g e).side t).oid = (e.side t).oid) :
    Pres (fun e => (g e, [])) :=
  fun e => ⟨hid e, fun _ hm => EInv_congr (h e) hm⟩

theorem bumpA_einv (p : Rat × Rat) (x : Entry × Acts) (s : Bool) (m : Bool) (h : EInv x.1 (lastAct x.2 m)) :
    EInv (bumpA p x s).1 (lastAct (bumpA p x s).2 m) := by
  simp only [bumpA]
  split
  · simp only [lastAct_append, setChangedA_acts, lastAct_single]
    exact setChangedA_einv _ _ _
  · exact h

theorem pres_setPriorityA (p : Rat × Rat) (v : Rat) : Pres (fun e => setPriorityA p e v) := by
  intro e
  refine ⟨setPriorityA_id p e v, ?_⟩
  intro m hm
  simp only [setPriorityA]
  split
  · exact hm
  · split
    · have h1 := bumpA_einv p (e, []) false m (by simpa using hm)
      have h2 := bumpA_einv p _ true m h1
      exact EInv_congr (fun t => by cases t <;> exact ⟨rfl, rfl⟩) h2
    · have hm' : EInv e (lastAct [] m) := by simpa using hm
      exact EInv_congr (e := e) (fun t => by cases t <;> exact ⟨rfl, rfl⟩) hm'

theorem pres_markA (last now : Rat) (s : Bool) : Pres (fun e => markA last now e s) := by
  intro e
  refine ⟨markA_id' last now e s, ?_⟩
  intro m _
  simp only [markA]
  split
  · simp only [lastAct_append, setChangedA_acts, lastAct_single]
    exact setChangedA_einv _ _ _
  · simpa using setChangedA_einv e s (some now)
where
  markA_id' (last now : Rat) (e : Entry) (s : Bool) : (markA last now e s).1.id = e.id := by
    simp only [markA]; split <;> simp

theorem pres_setOidA (s : Bool) (oid : String) : Pres (fun e => setOidA e s oid) := by
  intro e
  refine ⟨by simp [setOidA], ?_⟩
  intro m hm
  have hch : ∀ t, ((e.setSide s { e.side s with oid := some oid }).side t).changed = (e.side t).changed := by
    intro t
    by_cases hts : t = s
    · subst hts; simp
    · have : t = !s := by cases t <;> cases s <;> simp_all
      subst this; simp
  have hany : anyChange (e.setSide s { e.side s with oid := some oid }) = true ↔ anyChange e = true := by
    rw [anyChange_sides, anyChange_sides]
    exact exists_congr (fun t => by rw [hch t])
  simp only [setOidA]
  split
  · rename_i hc
    simp only [lastAct_single]
    refine ⟨fun _ => rfl, fun _ => ?_⟩
    apply hany.2
    rw [anyChange_sides]
    simp only [Bool.or_eq_true] at hc
    rcases hc with hc | hc
    · exact ⟨s, hc⟩
    · exact ⟨!s, hc⟩
  · rename_i hc
    simp only [lastAct_nil]
    have hnone : anyChange e = false := by
      simp only [Bool.or_eq_true, not_or, Bool.not_eq_true] at hc
      cases s <;> simp_all [anyChange, Entry.side]
    refine ⟨fun h => ?_, fun h => ?_⟩
    · rw [hasIdChange_sides] at h
      obtain ⟨t, ht, _⟩ := h
      have : anyChange e = true := by rw [anyChange_sides]; exact ⟨t, by rw [← hch t]; exact ht⟩
      rw [hnone] at this; exact absurd this (by simp)
    · have := hm.2 h
      rw [hnone] at this; exact absurd this (by simp)

theorem pres_setPathA (p : Rat × Rat) (s : Bool) (path : String) (prio : Rat) :
    Pres (fun e => setPathA p e s path prio) := by
  intro e
  have hg : Pres (fun e => (e.setSide s { e.side s with path := some path }, [])) :=
    pres_fields _ (fun e => by simp) (fun e t => by
      by_cases hts : t = s
      · subst hts; simp
      · have : t = !s := by cases t <;> cases s <;> simp_all
        subst this; simp)
  simp only [setPathA]
  split
  · exact pres_id e
  · split
    · exact hg e
    · have := pres_seq hg (pres_setPriorityA p prio) e
      simpa [seqA] using this

/-- threading form of `pres_seq` -/
theorem einv_seq (x : Entry × Acts) (g : Entry → Entry × Acts) (hg : Pres g) (m : Bool)
    (h : EInv x.1 (lastAct x.2 m)) : EInv (seqA x g).1 (lastAct (seqA x g).2 m) := by
  simp only [seqA_fst, seqA_snd, lastAct_append]
  exact (hg _).2 _ h

theorem setSide_keep (e : Entry) (s : Bool) (x : Side) (hc : x.changed = (e.side s).changed)
    (ho : x.oid = (e.side s).oid) (t : Bool) :
    ((e.setSide s x).side t).changed = (e.side t).changed ∧ ((e.setSide s x).side t).oid = (e.side t).oid := by
  by_cases hts : t = s
  · subst hts; simp [hc, ho]
  · have : t = !s := by cases t <;> cases s <;> simp_all
    subst this; simp

@[simp] theorem setOidA_id (e : Entry) (s : Bool) (oid : String) : (setOidA e s oid).1.id = e.id := by
  simp [setOidA]

@[simp] theorem setPathA_id (p : Rat × Rat) (e : Entry) (s : Bool) (path : String) (prio : Rat) :
    (setPathA p e s path prio).1.id = e.id := (setPathA_sideWrite p e s path prio).1

@[simp] theorem markA_id (last now : Rat) (e : Entry) (s : Bool) : (markA last now e s).1.id = e.id :=
  ((pres_markA last now s) e).1

@[simp] theorem getLatestA_id (p : Rat × Rat) (now : Rat) (ans : Option (String × Rat)) (e : Entry) (s : Bool) :
    (getLatestA p now ans e s).1.id = e.id := (getLatestA_sideWrite p now ans e s).1

@[simp] theorem fillSideA_id (p : Rat × Rat) (now : Rat) (ans : Option (String × Rat)) (e : Entry) (s : Bool) :
    (fillSideA p now ans e s).1.id = e.id := (fillSideA_sideWrite p now ans e s).1

@[simp] theorem fillEntryA_id (p : Rat × Rat) (now : Rat) (aL aR : Option (String × Rat)) (e : Entry) :
    (fillEntryA p now aL aR e).1.id = e.id := (fillEntryA_fillRel p now aL aR e).id

@[simp] theorem updateA_id (p : Rat × Rat) (last now : Rat) (e : Entry) (s : Bool) (oid : String)
    (path : Option String) (prio : Rat) : (updateA p last now e s oid path prio).1.id = e.id := by
  simp only [updateA]
  cases path <;> split <;> simp

theorem pres_updateA (p : Rat × Rat) (last now : Rat) (s : Bool) (oid : String) (path : Option String) (prio : Rat) :
    Pres (fun e => updateA p last now e s oid path prio) := by
  intro e
  refine ⟨updateA_id _ _ _ _ _ _ _ _, ?_⟩
  intro m hm
  have h1 := (pres_setOidA s oid e).2 m hm
  simp only [updateA]
  cases path with
  | none =>
    simp only
    split
    · apply einv_seq _ _ (pres_markA last now s) m
      exact EInv_congr (setSide_keep _ s _ rfl rfl) h1
    · exact EInv_congr (setSide_keep _ s _ rfl rfl) h1
  | some pth =>
    have h2 := einv_seq _ _ (pres_setPathA p s pth prio) m h1
    simp only
    split
    · apply einv_seq _ _ (pres_markA last now s) m
      exact EInv_congr (setSide_keep _ s _ rfl rfl) h2
    · exact EInv_congr (setSide_keep _ s _ rfl rfl) h2

theorem pres_getLatestA (p : Rat × Rat) (now : Rat) (ans : Option (String × Rat)) (s : Bool) :
    Pres (fun e => getLatestA p now ans e s) := by
  intro e
  refine ⟨getLatestA_id _ _ _ _ _, ?_⟩
  intro m hm
  simp only [getLatestA]
  split
  · -- it suffices to show the inner pair is consistent; the `_last_gotten` write moves no stamp or id
    have key : ∀ x : Entry × Acts, EInv x.1 (lastAct x.2 m) →
        EInv (x.1.setSide s { x.1.side s with lastGotten := orZero (e.side s).changed }) (lastAct x.2 m) :=
      fun x hx => EInv_congr (setSide_keep _ s _ rfl rfl) hx
    apply key
    split
    · exact EInv_congr (setSide_keep _ s _ rfl rfl) (by simpa using hm)
    · split
      · exact EInv_congr (setSide_keep _ s _ rfl rfl) (by simpa using hm)
      · rename_i path prio
        have h1 : EInv (e.setSide s { e.side s with ex := Ex.exists }) (lastAct [] m) :=
          EInv_congr (setSide_keep _ s _ rfl rfl) (by simpa using hm)
        split
        · exact h1
        · have h2 := ((pres_setPathA p s path prio) _).2 _ h1
          simp only [lastAct_nil] at h2
          split
          · exact h2
          · exact einv_seq _ _ (pres_setChangedA s (some now)) m h2
  · simpa using hm

theorem pres_fillSideA (p : Rat × Rat) (now : Rat) (ans : Option (String × Rat)) (s : Bool) :
    Pres (fun e => fillSideA p now ans e s) := by
  intro e
  refine ⟨fillSideA_id _ _ _ _ _, ?_⟩
  intro m hm
  simp only [fillSideA]
  split
  · exact (pres_getLatestA p now ans s e).2 m hm
  · simpa using hm

theorem pres_fillEntryA (p : Rat × Rat) (now : Rat) (aL aR : Option (String × Rat)) :
    Pres (fun e => fillEntryA p now aL aR e) :=
  pres_seq (pres_fillSideA p now aL false) (pres_fillSideA p now aR true)

/-! ## the state invariant -/

structure Inv (st : St) : Prop where
  /-- ids are positions -/
  ids : ∀ e ∈ st.ents, e.id < st.ents.length
  /-- the changeset only holds existing entries -/
  pend : ∀ j ∈ st.pending, (st.get? j).isSome = true
  /-- membership is consistent with the entry's fields: an entry with a changed side that has an id is
      pending; a pending entry has a changed side -/
  mem : ∀ j e, st.get? j = some e → EInv e (decide (j ∈ st.pending))

theorem decide_mem_act (st : St) (id j : Nat) (a : Acts) :
    decide (j ∈ (st.act id a).pending) =
      if j = id then lastAct a (decide (id ∈ st.pending)) else decide (j ∈ st.pending) := by
  have := mem_act st id j a
  by_cases h : j = id
  · simp only [h, if_true] at this ⊢
    rw [Bool.eq_iff_iff]
    simp only [decide_eq_true_eq]
    exact this
  · simp only [h, if_false] at this ⊢
    rw [Bool.eq_iff_iff]
    simp only [decide_eq_true_eq]
    exact this

theorem withE_inv (st : St) (id : Nat) (f : Entry → Entry × Acts) (hf : Pres f) (h : Inv st) :
    Inv (st.withE id f) := by
  cases hg : st.get? id with
  | none => rw [withE_none _ _ _ hg]; exact h
  | some e =>
    have hfid : ∀ x, (f x).1.id = x.id := fun x => (hf x).1
    have hsame := withE_get?_same st id f e hg (hfid e)
    have hents : (st.withE id f).ents = st.ents.map (fun x => if x.id == (f e).1.id then (f e).1 else x) := by
      simp only [St.withE, hg, St.act, St.put]
    have hpend : (st.withE id f).pending = (st.act id (f e).2).pending := by
      simp only [St.withE, hg, St.act, St.put]
    refine ⟨?_, ?_, ?_⟩
    · intro x hx
      rw [hents] at hx ⊢
      rw [List.length_map]
      obtain ⟨y, hy, rfl⟩ := List.mem_map.1 hx
      split
      · rw [hfid]; exact h.ids e (get?_mem hg)
      · exact h.ids y hy
    · intro j hj
      rw [hpend] at hj
      by_cases hji : j = id
      · subst hji; rw [hsame]; rfl
      · rw [withE_get?_other st id j f hfid hji]
        have := (mem_act st id j (f e).2).1 hj
        simp only [hji, if_false] at this
        exact h.pend j this
    · intro j e2 he2
      have hdec : decide (j ∈ (st.withE id f).pending) = decide (j ∈ (st.act id (f e).2).pending) := by rw [hpend]
      rw [hdec, decide_mem_act]
      by_cases hji : j = id
      · subst hji
        rw [hsame] at he2
        cases he2
        simp only [if_true]
        exact (hf e).2 _ (h.mem j e hg)
      · simp only [hji, if_false]
        rw [withE_get?_other st id j f hfid hji] at he2
        exact h.mem j e2 he2

theorem inv_last (st : St) (x : Rat) (h : Inv st) : Inv { st with last := x } := ⟨h.ids, h.pend, h.mem⟩
theorem inv_unmodelled (st : St) (b : Bool) (h : Inv st) : Inv { st with unmodelled := b } := ⟨h.ids, h.pend, h.mem⟩

theorem einv_fresh (id : Nat) : EInv ({ id := id } : Entry) false :=
  ⟨fun h => by simp [hasIdChange, truthy] at h, fun h => absurd h (by simp)⟩

theorem get?_append (st : St) (n : Entry) (j : Nat) :
    ({ st with ents := st.ents ++ [n] } : St).get? j = (st.get? j).or (if n.id == j then some n else none) := by
  simp only [St.get?, List.find?_append, List.find?_cons, List.find?_nil]
  cases (n.id == j) <;> rfl

theorem get?_ge (st : St) (h : ∀ e ∈ st.ents, e.id < st.ents.length) (j : Nat) (hj : st.ents.length ≤ j) :
    st.get? j = none := by
  simp only [St.get?, List.find?_eq_none]
  intro e he
  have := h e he
  simp only [beq_iff_eq]
  omega

/-- a new entry (id = number of entries so far) appended to the table -/
theorem inv_append_gen (st : St) (n : Entry) (hn : n.id = st.ents.length) (hfresh : EInv n false) (h : Inv st) :
    Inv { st with ents := st.ents ++ [n] } := by
  refine ⟨?_, ?_, ?_⟩
  · intro e he
    simp only [List.length_append, List.length_singleton]
    rcases List.mem_append.1 he with he | he
    · exact Nat.lt_succ_of_lt (h.ids e he)
    · simp only [List.mem_singleton] at he; subst he; rw [hn]; exact Nat.lt_succ_self _
  · intro j hj
    rw [get?_append]
    have := h.pend j hj
    obtain ⟨e, he⟩ := Option.isSome_iff_exists.1 this
    simp [he]
  · intro j e he
    rw [get?_append] at he
    cases hj : st.get? j with
    | some e0 =>
      rw [hj] at he
      have he' : e0 = e := by simpa using he
      subst he'
      exact h.mem j e0 hj
    | none =>
      rw [hj] at he
      simp only [Option.none_or] at he
      split at he
      · cases he
        have hnp : j ∉ st.pending := by
          intro hp
          have := h.pend j hp
          rw [hj] at this; exact absurd this (by simp)
        simp only [hnp, decide_false]
        exact hfresh
      · exact absurd he (by simp)

theorem einv_fresh_dir (id : Nat) : EInv ({ id := id, l := { dir := true }, r := { dir := true } } : Entry) false :=
  ⟨fun h => by simp [hasIdChange, truthy] at h, fun h => absurd h (by simp)⟩

theorem inv_append (st : St) (h : Inv st) :
    Inv { st with ents := st.ents ++ [({ id := st.ents.length } : Entry)] } := by
  have hnone := get?_ge st h.ids st.ents.length (le_refl _)
  refine ⟨?_, ?_, ?_⟩
  · intro e he
    simp only [List.length_append, List.length_singleton]
    rcases List.mem_append.1 he with he | he
    · exact Nat.lt_succ_of_lt (h.ids e he)
    · simp only [List.mem_singleton] at he; subst he; exact Nat.lt_succ_self _
  · intro j hj
    rw [get?_append]
    have := h.pend j hj
    obtain ⟨e, he⟩ := Option.isSome_iff_exists.1 this
    simp [he]
  · intro j e he
    rw [get?_append] at he
    cases hj : st.get? j with
    | some e0 =>
      rw [hj] at he
      have he' : e0 = e := by simpa using he
      subst he'
      exact h.mem j e0 hj
    | none =>
      rw [hj] at he
      simp only [Option.none_or] at he
      split at he
      · rename_i hid
        cases he
        have hnp : j ∉ st.pending := by
          intro hp
          have := h.pend j hp
          rw [hj] at this; exact absurd this (by simp)
        simp only [hnp, decide_false]
        exact einv_fresh _
      · exact absurd he (by simp)

/-- lookup in a table whose entries were rewritten by an id-preserving function -/
theorem find?_map_id (l : List Entry) (g : Entry → Entry) (hg : ∀ e, (g e).id = e.id) (j : Nat) :
    (l.map g).find? (·.id == j) = (l.find? (·.id == j)).map g := by
  induction l with
  | nil => rfl
  | cons a l ih =>
    simp only [List.map_cons, List.find?_cons, hg]
    cases (a.id == j) with
    | true => rfl
    | false => exact ih

end CS.Sched
