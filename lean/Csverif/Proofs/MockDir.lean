import Csverif.Proofs.MockRename
import Csverif.Proofs.TreeMove
/- the rename of a folder: every object beneath it is re-filed, then the folder itself -/
namespace CS.MockFS
open CS.Path
open CS.Tree (Kind Err)
set_option linter.unusedVariables false
variable {C H : Type}

/-- strictly beneath the folder whose folded key is `sk` -/
def Under (c : Cfg) (sk : List Str) (path : Str) : Prop :=
  sk <+: foldL c (Path.C c path) ∧ foldL c (Path.C c path) ≠ sk

/-- where an object beneath (or equal to) the folder `sd` ends up when the folder moves to `dd` -/
def newPath (c : Cfg) (sd dd : List Str) (path : Str) : Str :=
  canon c.sep (dd ++ (Path.C c path).drop sd.length)

theorem under_iff_subpath {c : Cfg} (hc : COk2 c) {fl : Flavour} {sd : List Str} (hsd : Comps c sd)
    {path : Str} (hp : Clean c fl path) :
    (isSubpath c (canon c.sep sd) path true).truthy = true ↔ Under c (foldL c sd) path := by
  obtain ⟨hl, hpp, _⟩ := clean_C hc hp
  conv => lhs; rw [hpp]
  rw [isSubpath_canon hc.ok hsd hl true]
  unfold Under
  by_cases h1 : foldL c sd = foldL c (Path.C c path)
  · simp [h1, SubRes.truthy]
  · by_cases h2 : (foldL c sd).isPrefixOf (foldL c (Path.C c path)) = true
    · simp only [h1, if_false, h2, if_true, SubRes.truthy]
      simp only [List.isEmpty_cons, Bool.not_false, true_iff]
      exact ⟨List.isPrefixOf_iff_prefix.1 h2, fun e => h1 e.symm⟩
    · simp only [h1, if_false, h2, SubRes.truthy]
      simp only [Bool.false_eq_true, if_false, false_iff]
      rintro ⟨h3, _⟩
      exact h2 (List.isPrefixOf_iff_prefix.2 h3)

theorem clean_newPath {c : Cfg} (hc : COk2 c) {fl : Flavour} {sd dd : List Str} (hdd : Comps c dd)
    (hddf : fl.oip = true → foldL c dd = dd) {path : Str} (hp : Clean c fl path) :
    Clean c fl (newPath c sd dd path) := by
  obtain ⟨hl, _, hf⟩ := clean_C hc hp
  refine ⟨_, Comps.append hdd (Comps.drop hl _), rfl, ?_⟩
  intro ho
  rw [foldL_append, hddf ho, comps_foldL_drop, hf ho]

theorem C_newPath {c : Cfg} (hc : COk2 c) {fl : Flavour} {sd dd : List Str} (hdd : Comps c dd)
    {path : Str} (hp : Clean c fl path) :
    Path.C c (newPath c sd dd path) = dd ++ (Path.C c path).drop sd.length := by
  obtain ⟨hl, _, _⟩ := clean_C hc hp
  exact C_canon hc.ok (Comps.append hdd (Comps.drop hl _))

theorem newPath_ne_nil {c : Cfg} (hc : COk2 c) {fl : Flavour} {sd dd : List Str} (hdd : Comps c dd) (hne : dd ≠ [])
    {path : Str} (hp : Clean c fl path) : Path.C c (newPath c sd dd path) ≠ [] := by
  rw [C_newPath hc hdd hp]; simp [hne]

/-- the folded key of the new path: the destination key followed by what followed the source key -/
theorem key_newPath {c : Cfg} (hc : COk2 c) {fl : Flavour} {sd dd : List Str} (hdd : Comps c dd)
    {path : Str} (hp : Clean c fl path) {r : List Str} (hr : foldL c (Path.C c path) = foldL c sd ++ r) :
    foldL c (Path.C c (newPath c sd dd path)) = foldL c dd ++ r := by
  rw [C_newPath hc hdd hp, foldL_append, comps_foldL_drop, hr]
  congr 1
  rw [← foldL_length c sd, List.drop_left]

theorem replacePath_under {c : Cfg} (hc : COk2 c) {fl : Flavour} {sd dd : List Str} (hsd : Comps c sd) (hdd : Comps c dd)
    (hne : dd ≠ []) {path : Str} (hp : Clean c fl path) (hu : Under c (foldL c sd) path) :
    replacePath c path (canon c.sep sd) (canon c.sep dd) = .ok (newPath c sd dd path) := by
  obtain ⟨hl, hpp, _⟩ := clean_C hc hp
  conv => lhs; rw [hpp]
  exact replacePath_canon hc.ok hsd hl hdd (List.isPrefixOf_iff_prefix.2 hu.1) (fun e => hu.2 e.symm) hne

theorem rstrip_clean {c : Cfg} (hc : COk2 c) {fl : Flavour} {p : Str} (hp : Clean c fl p) (hpn : Path.C c p ≠ []) :
    rstrip '/' p = p := by
  obtain ⟨hl, hpp, _⟩ := clean_C hc hp
  conv => lhs; rw [hpp]
  conv => rhs; rw [hpp]
  rw [← hc.sep]; exact rstrip_canon hl.1 hpn

/-- the standing assumptions of a folder move from display path `sd` to `dd`, over the state `s1` it starts from -/
structure DirCtx (c : Cfg) (fl : Flavour) (s1 : St C) (sd dd : List Str) : Prop where
  hc   : COk2 c
  hi1  : Inv c fl s1
  hsd  : Comps c sd
  hdd  : Comps c dd
  hne  : dd ≠ []
  hddf : fl.oip = true → foldL c dd = dd
  /-- source and destination keys are equal or incomparable -/
  hinc : ∀ q, foldL c sd <+: q → foldL c dd <+: q → foldL c sd = foldL c dd
  /-- nothing live lies at or beneath the destination (unless it is the source region itself) -/
  hF   : foldL c dd ≠ foldL c sd → ∀ (j : Nat) (ob : Obj C), s1.heap[j]? = some ob → ob.live = true →
          ¬ foldL c dd <+: foldL c (Path.C c ob.path)

/-- the moved object -/
def mv (c : Cfg) (fl : Flavour) (sd dd : List Str) (ob : Obj C) : Obj C := refiled fl ob (newPath c sd dd ob.path)

/-- loop invariant: the handles in `done` have been re-filed, everything else is as in `s1` -/
structure LInv (c : Cfg) (fl : Flavour) (s1 : St C) (sd dd : List Str) (done : List Nat) (s : St C) : Prop where
  inv   : Inv c fl s
  heap  : ∀ (j : Nat), s.heap[j]? = if j ∈ done then (s1.heap[j]?).map (mv c fl sd dd) else s1.heap[j]?
  moved : ∀ j ∈ done, ∃ ob, s1.heap[j]? = some ob ∧ foldL c sd <+: foldL c (Path.C c ob.path)
  keys  : ∀ (y : Nat) (ob : Obj C), y ∉ done → s1.heap[y]? = some ob → dget s1.dict (norm c ob.path) = some y →
            foldL c sd <+: foldL c (Path.C c ob.path) → dget s.dict (norm c ob.path) = some y

/-- re-filing one more object that lies beneath or at the source (the loop body, and the folder itself at the end) -/
theorem refile_step {c : Cfg} {fl : Flavour} {s1 : St C} {sd dd : List Str} (ctx : DirCtx c fl s1 sd dd)
    {done : List Nat} {s : St C} (hL : LInv c fl s1 sd dd done s) {x : Nat} (hx : x ∉ done)
    {ob : Obj C} (h1x : s1.heap[x]? = some ob) (hkx : dget s1.dict (norm c ob.path) = some x)
    (hpre : foldL c sd <+: foldL c (Path.C c ob.path)) (ev : Bool) :
    ∃ sR, renameSingle c fl s x (newPath c sd dd ob.path) ev = (sR, none) ∧
      LInv c fl s1 sd dd (done ++ [x]) sR ∧ sR.nextId = s.nextId := by
  have hc := ctx.hc
  have hcl : Clean c fl ob.path := ctx.hi1.clean x ob h1x
  have hsx : s.heap[x]? = some ob := by rw [hL.heap x, if_neg hx]; exact h1x
  obtain ⟨rx, hrx⟩ := hpre
  have hclN := clean_newPath hc (sd := sd) ctx.hdd ctx.hddf hcl
  have hkeyN : foldL c (Path.C c (newPath c sd dd ob.path)) = foldL c dd ++ rx := key_newPath hc ctx.hdd hcl hrx.symm
  have hfiled : dget s.dict (norm c ob.path) = some x := hL.keys x ob hx h1x hkx ⟨rx, hrx⟩
  obtain ⟨sR, hres, hheap, hnext, hnd, hd⟩ :=
    renameSingle_spec hc hL.inv hsx hfiled hclN (newPath_ne_nil hc ctx.hdd ctx.hne hcl) ev
  have hnormO : norm c ob.path = canon c.sep (foldL c sd ++ rx) := by rw [norm_clean hc hcl, hrx]
  have hnormN : norm c (newPath c sd dd ob.path) = canon c.sep (foldL c dd ++ rx) := by rw [norm_clean hc hclN, hkeyN]
  have hcompsO : Comps c (foldL c sd ++ rx) := by rw [hrx]; exact comps_foldL_ok hc (clean_C hc hcl).1
  have hcompsN : Comps c (foldL c dd ++ rx) := by rw [← hkeyN]; exact comps_foldL_ok hc (clean_C hc hclN).1
  -- nothing else live sits at the destination
  have hfree : ∀ (h' : Nat) (o' : Obj C), pv s (norm c (newPath c sd dd ob.path)) = some (h', o') → h' = x := by
    intro j ob' hpv
    rw [hnormN] at hpv
    obtain ⟨hj, hlive, hkey⟩ := (pv_canon_iff hc hL.inv hcompsN).1 hpv
    by_cases hjd : j ∈ done
    · exfalso
      obtain ⟨ob1, h1j, ⟨r1, hr1⟩⟩ := hL.moved j hjd
      rw [hL.heap j, if_pos hjd, h1j] at hj
      simp only [Option.map_some, Option.some.injEq] at hj
      subst hj
      have hcl1 := ctx.hi1.clean j ob1 h1j
      have : foldL c (Path.C c (mv c fl sd dd ob1).path) = foldL c dd ++ r1 := key_newPath hc ctx.hdd hcl1 hr1.symm
      rw [this] at hkey
      have hrr := List.append_cancel_left hkey
      have hf1 := ctx.hi1.filed j ob1 h1j hlive
      rw [norm_clean hc hcl1, ← hr1, hrr, ← hnormO, hkx] at hf1
      exact hx ((Option.some.inj hf1) ▸ hjd)
    · rw [hL.heap j, if_neg hjd] at hj
      by_cases hds : foldL c dd = foldL c sd
      · have hf1 := ctx.hi1.filed j ob' hj hlive
        rw [norm_clean hc (ctx.hi1.clean j ob' hj), hkey, hds, ← hnormO, hkx] at hf1
        exact (Option.some.inj hf1).symm
      · exact absurd (hkey ▸ List.prefix_append _ _) (ctx.hF hds j ob' hj hlive)
  have hinv := inv_refile hc hL.inv hsx hfiled hclN hfree hheap hnext hnd hd
  have hlt : x < s.heap.length := by
    rcases List.getElem?_eq_some_iff.1 hsx with ⟨hl, _⟩; exact hl
  refine ⟨sR, hres, ⟨hinv, ?_, ?_, ?_⟩, hnext⟩
  · intro j
    rw [hheap, List.getElem?_set]
    by_cases hjx : x = j
    · subst hjx
      simp [hlt, h1x, mv]
    · have h2 : ¬ j = x := fun e => hjx e.symm
      simp only [hjx, if_false, List.mem_append, List.mem_singleton, h2, or_false]
      exact hL.heap j
  · intro j hj
    rcases List.mem_append.1 hj with hj | hj
    · exact hL.moved j hj
    · simp only [List.mem_singleton] at hj; subst hj; exact ⟨ob, h1x, ⟨rx, hrx⟩⟩
  · intro y oby hy h1y hky hprey
    have hyd : y ∉ done := fun e => hy (List.mem_append_left _ e)
    have hyx : y ≠ x := fun e => hy (List.mem_append_right _ (by simp [e]))
    obtain ⟨ry, hry⟩ := hprey
    have hcly := ctx.hi1.clean y oby h1y
    have hnormY : norm c oby.path = canon c.sep (foldL c sd ++ ry) := by rw [norm_clean hc hcly, hry]
    have hcompsY : Comps c (foldL c sd ++ ry) := by rw [hry]; exact comps_foldL_ok hc (clean_C hc hcly).1
    have hneO : norm c oby.path ≠ norm c ob.path := by
      intro e; rw [e, hkx] at hky; exact hyx (Option.some.inj hky).symm
    have hneN : norm c oby.path ≠ norm c (newPath c sd dd ob.path) := by
      intro e
      rw [hnormY, hnormN] at e
      have e' := canon_inj hcompsY.1 hcompsN.1 e
      have hsd : foldL c sd = foldL c dd := ctx.hinc (foldL c sd ++ ry) (List.prefix_append _ _) ⟨rx, e'.symm⟩
      rw [hsd] at e'
      have := List.append_cancel_left e'
      apply hneO
      rw [hnormY, hnormO, this]
    have hneOid : norm c oby.path ≠ ob.oid ∧ norm c oby.path ≠ (refiled fl ob (newPath c sd dd ob.path)).oid := by
      cases ho : fl.oip with
      | true =>
        constructor
        · rw [ctx.hi1.pathOid ho x ob h1x, ← norm_eq_self_of_oip hc hcl ho]; exact hneO
        · simp only [refiled, ho, if_true]
          rw [← norm_eq_self_of_oip hc hclN ho]; exact hneN
      | false =>
        have hh := ctx.hi1.idHead ho x ob h1x
        have hyh := norm_head hc hcly
        constructor
        · intro e; rw [e] at hyh; exact hh hyh
        · simp only [refiled, ho, Bool.false_eq_true, if_false]
          intro e; rw [e] at hyh; exact hh hyh
    rw [hd]
    simp only [hneN, hneOid.2, or_self, if_false, hneO, hneOid.1]
    exact hL.keys y oby hyd h1y hky ⟨ry, hry⟩

theorem linv_init {c : Cfg} {fl : Flavour} {s1 : St C} {sd dd : List Str} (ctx : DirCtx c fl s1 sd dd) :
    LInv c fl s1 sd dd [] s1 :=
  ⟨ctx.hi1, fun j => by simp, fun j hj => by simp at hj, fun y ob _ _ hk _ => hk⟩

/-- the loop of `rename` over the snapshot: every handle whose object lies strictly beneath the folder is re-filed -/
theorem loop_children {c : Cfg} {fl : Flavour} {s1 : St C} {sd dd : List Str} (ctx : DirCtx c fl s1 sd dd)
    (L : List Nat) (hnd : L.Nodup)
    (hLk : ∀ x ∈ L, ∃ k, k.head? = some '/' ∧ dget s1.dict k = some x)
    {done : List Nat} {s : St C} (hL : LInv c fl s1 sd dd done s) (hdisj : ∀ x ∈ L, x ∉ done) :
    ∃ done' sF, L.foldl (childStep c fl (canon c.sep sd) (canon c.sep dd)) (s, none) = (sF, none) ∧
      LInv c fl s1 sd dd done' sF ∧ sF.nextId = s.nextId ∧
      (∀ j, j ∈ done' ↔ j ∈ done ∨ (j ∈ L ∧ ∃ ob, s1.heap[j]? = some ob ∧ Under c (foldL c sd) ob.path)) := by
  induction L generalizing done s with
  | nil => exact ⟨done, s, rfl, hL, rfl, fun j => by simp⟩
  | cons x xs ih =>
    have hc := ctx.hc
    simp only [List.nodup_cons] at hnd
    obtain ⟨k, hk, hkx⟩ := hLk x (by simp)
    have hxd : x ∉ done := hdisj x (by simp)
    have hlt := ctx.hi1.valsLt k x hkx
    obtain ⟨ob, h1x⟩ : ∃ ob, s1.heap[x]? = some ob := ⟨s1.heap[x], List.getElem?_eq_getElem hlt⟩
    have hsx : s.heap[x]? = some ob := by rw [hL.heap x, if_neg hxd]; exact h1x
    have hcl := ctx.hi1.clean x ob h1x
    have hnk : norm c ob.path = k := ctx.hi1.pathKey k x ob hk hkx h1x
    rw [List.foldl_cons]
    by_cases hu : Under c (foldL c sd) ob.path
    · have htr := (under_iff_subpath hc ctx.hsd hcl).2 hu
      obtain ⟨sR, hres, hLR, hnext⟩ := refile_step ctx hL hxd h1x (hnk ▸ hkx) hu.1 false
      have hstep : childStep c fl (canon c.sep sd) (canon c.sep dd) (s, none) x = (sR, none) := by
        simp only [childStep, hsx, htr, if_true, replacePath_under hc ctx.hsd ctx.hdd ctx.hne hcl hu]
        exact hres
      rw [hstep]
      obtain ⟨done', sF, h1, h2, h3, h4⟩ := ih hnd.2 (fun y hy => hLk y (List.mem_cons_of_mem _ hy)) hLR
        (fun y hy e => by
          rcases List.mem_append.1 e with e | e
          · exact hdisj y (List.mem_cons_of_mem _ hy) e
          · simp only [List.mem_singleton] at e; subst e; exact hnd.1 hy)
      refine ⟨done', sF, h1, h2, by rw [h3, hnext], ?_⟩
      intro j
      rw [h4 j]
      constructor
      · rintro (hj | ⟨hj, hob⟩)
        · rcases List.mem_append.1 hj with hj | hj
          · left; exact hj
          · simp only [List.mem_singleton] at hj; subst hj
            right; exact ⟨by simp, ob, h1x, hu⟩
        · right; exact ⟨List.mem_cons_of_mem _ hj, hob⟩
      · rintro (hj | ⟨hj, hob⟩)
        · left; exact List.mem_append_left _ hj
        · rcases List.mem_cons.1 hj with e | hj
          · subst e; left; exact List.mem_append_right _ (by simp)
          · right; exact ⟨hj, hob⟩
    · have htr : ¬ (isSubpath c (canon c.sep sd) ob.path true).truthy = true :=
        fun e => hu ((under_iff_subpath hc ctx.hsd hcl).1 e)
      have hstep : childStep c fl (canon c.sep sd) (canon c.sep dd) (s, none) x = (s, none) := by
        simp only [childStep, hsx, htr, Bool.false_eq_true, if_false]
      rw [hstep]
      obtain ⟨done', sF, h1, h2, h3, h4⟩ := ih hnd.2 (fun y hy => hLk y (List.mem_cons_of_mem _ hy)) hL
        (fun y hy => hdisj y (List.mem_cons_of_mem _ hy))
      refine ⟨done', sF, h1, h2, h3, ?_⟩
      intro j
      rw [h4 j]
      constructor
      · rintro (hj | ⟨hj, hob⟩)
        · left; exact hj
        · right; exact ⟨List.mem_cons_of_mem _ hj, hob⟩
      · rintro (hj | ⟨hj, hob⟩)
        · left; exact hj
        · rcases List.mem_cons.1 hj with e | hj
          · subst e
            obtain ⟨ob2, h2x, hu2⟩ := hob
            rw [h1x] at h2x; cases h2x
            exact absurd hu2 hu
          · right; exact ⟨hj, hob⟩

theorem eraseDups_of_nodup {l : List Nat} (h : l.Nodup) : l.eraseDups = l := by
  induction l with
  | nil => rfl
  | cons a as ih =>
    simp only [List.nodup_cons] at h
    rw [List.eraseDups_cons]
    have : as.filter (fun b => !(b == a)) = as := by
      rw [List.filter_eq_self]
      intro b hb
      have : b ≠ a := fun e => h.1 (e ▸ hb)
      simpa using this
    rw [this, ih h.2]

/-- under the invariant every handle is filed under at most one path key -/
theorem nodup_fsObjects {c : Cfg} {fl : Flavour} {s : St C} (hi : Inv c fl s) : (fsObjects s).Nodup := by
  unfold fsObjects
  have hn := hi.nodup
  have hpk := hi.pathKey
  have hv := hi.valsLt
  generalize s.dict = d at hn hpk hv
  induction d with
  | nil => simp
  | cons e d ih =>
    simp only [List.map_cons, List.nodup_cons] at hn
    have hsub : ∀ (k : Str) (h : Nat), dget d k = some h → dget (e :: d) k = some h := by
      intro k h hd
      rw [dget_cons]
      have : e.1 ≠ k := by
        intro eq
        apply hn.1
        rw [eq]
        exact List.mem_map.2 ⟨(k, h), mem_of_dget hd, rfl⟩
      simp [this, hd]
    have ih' := ih hn.2 (fun k h o hk hd hh => hpk k h o hk (hsub k h hd) hh) (fun k h hd => hv k h (hsub k h hd))
    simp only [List.filterMap_cons]
    split
    · exact ih'
    · rename_i hx hsome
      split at hsome
      · rename_i hhead
        cases hsome
        rw [List.nodup_cons]
        refine ⟨?_, ih'⟩
        intro hm
        obtain ⟨e', he', hf⟩ := List.mem_filterMap.1 hm
        split at hf
        · rename_i hhead'
          simp only [Option.some.injEq] at hf
          -- two path keys for the same handle: both equal the object's normalised path
          have h1 : dget (e :: d) e.1 = some e.2 := by rw [dget_cons]; simp
          have h2 : dget (e :: d) e'.1 = some e'.2 := hsub _ _ (dget_of_mem hn.2 (by cases e'; exact he'))
          have hlt := hv e.1 e.2 h1
          have hob : s.heap[e.2]? = some s.heap[e.2] := List.getElem?_eq_getElem hlt
          have k1 := hpk e.1 e.2 _ (by simpa using hhead) h1 hob
          have k2 := hpk e'.1 e.2 _ (by simpa using hhead') (by rw [h2, hf]) hob
          apply hn.1
          rw [← k1, k2]
          exact List.mem_map.2 ⟨e', he', rfl⟩
        · cases hf
      · cases hsome

theorem nodeOf_mv {c : Cfg} (hc : COk2 c) {fl : Flavour} {sd dd : List Str} (hdd : Comps c dd) {ob : Obj C}
    (hcl : Clean c fl ob.path) :
    nodeOf c (mv c fl sd dd ob) = Tree.moveNode (foldL c sd) dd (nodeOf c ob) := by
  simp only [nodeOf, mv, refiled, Tree.moveNode, C_newPath hc hdd hcl, foldL_length]

/-- the whole folder move: children loop, then the folder itself (with its event) -/
theorem move_folder {c : Cfg} {fl : Flavour} {s1 : St C} {sd dd : List Str} (ctx : DirCtx c fl s1 sd dd)
    {h : Nat} {o : Obj C} (h1h : s1.heap[h]? = some o) (hlive : o.live = true) (hkind : o.kind = .dir)
    (hsdo : Path.C c o.path = sd) :
    ∃ sF D, renameMove c fl s1 h o (canon c.sep dd) = (sF, none) ∧ LInv c fl s1 sd dd D sF ∧ sF.nextId = s1.nextId ∧
      h ∈ D ∧
      (∀ (j : Nat) (ob : Obj C), s1.heap[j]? = some ob → ob.live = true →
          foldL c sd <+: foldL c (Path.C c ob.path) → j ∈ D) := by
  have hc := ctx.hc
  have hclo := ctx.hi1.clean h o h1h
  have hopath : o.path = canon c.sep sd := by rw [← hsdo]; exact (clean_C hc hclo).2.1
  have hnf := nodup_fsObjects ctx.hi1
  have hLk : ∀ x ∈ fsObjects s1, ∃ k, k.head? = some '/' ∧ dget s1.dict k = some x := by
    intro x hx
    obtain ⟨k, hm, hk⟩ := mem_fsObjects.1 hx
    exact ⟨k, hk, dget_of_mem ctx.hi1.nodup hm⟩
  obtain ⟨done, sL, hfold, hLL, hnL, hiff⟩ :=
    loop_children ctx (fsObjects s1) hnf hLk (linv_init ctx) (fun x _ hx => by simp at hx)
  have hkeyo : foldL c (Path.C c o.path) = foldL c sd := by rw [hsdo]
  have hhd : h ∉ done := by
    intro e
    rcases (hiff h).1 e with e | ⟨_, ob, hob, hu⟩
    · simp at e
    · rw [h1h] at hob; cases hob
      exact hu.2 hkeyo
  have hnp : newPath c sd dd o.path = canon c.sep dd := by
    simp [newPath, hsdo]
  obtain ⟨sF, hres, hLF, hnF⟩ := refile_step ctx hLL hhd h1h (ctx.hi1.filed h o h1h hlive) (hkeyo ▸ List.prefix_refl _) true
  rw [hnp] at hres
  refine ⟨sF, done ++ [h], ?_, hLF, by rw [hnF, hnL], List.mem_append_right _ (by simp), ?_⟩
  · have hk2 : (o.kind == Kind.file) = false := by simp [hkind]
    simp only [renameMove, hk2, Bool.false_eq_true, if_false, renameChildren_eq, eraseDups_of_nodup hnf, hopath, hfold]
    exact hres
  · intro j ob hj hl hpre
    by_cases hkj : foldL c (Path.C c ob.path) = foldL c sd
    · -- the folder itself
      have hf1 := ctx.hi1.filed j ob hj hl
      have hf2 := ctx.hi1.filed h o h1h hlive
      rw [norm_clean hc (ctx.hi1.clean j ob hj), hkj, ← hkeyo, ← norm_clean hc hclo, hf2] at hf1
      rw [← Option.some.inj hf1]
      exact List.mem_append_right _ (by simp)
    · apply List.mem_append_left
      apply (hiff j).2
      right
      have hf1 := ctx.hi1.filed j ob hj hl
      exact ⟨mem_fsObjects.2 ⟨_, mem_of_dget hf1, norm_head hc (ctx.hi1.clean j ob hj)⟩, ob, hj, hpre, hkj⟩

/-- after the move the table describes the moved tree -/
theorem rel_after_move {c : Cfg} {fl : Flavour} {s1 : St C} {sd dd : List Str} (ctx : DirCtx c fl s1 sd dd)
    {D : List Nat} {sF : St C} (hL : LInv c fl s1 sd dd D sF)
    (hall : ∀ (j : Nat) (ob : Obj C), s1.heap[j]? = some ob → ob.live = true →
          foldL c sd <+: foldL c (Path.C c ob.path) → j ∈ D)
    {t1 : Tree.T C} (hr1 : Rel c s1 t1) (hfree : Tree.Free t1 (foldL c sd) (foldL c dd)) :
    Rel c sF (Tree.move t1 (foldL c sd) (foldL c dd) dd) := by
  have hc := ctx.hc
  have hsk := comps_foldL_ok hc ctx.hsd
  have hdk := comps_foldL_ok hc ctx.hdd
  -- what a moved cell looks like
  have hmoved : ∀ j ∈ D, ∃ ob1 r, s1.heap[j]? = some ob1 ∧ foldL c (Path.C c ob1.path) = foldL c sd ++ r ∧
      sF.heap[j]? = some (mv c fl sd dd ob1) ∧ foldL c (Path.C c (mv c fl sd dd ob1).path) = foldL c dd ++ r := by
    intro j hj
    obtain ⟨ob1, h1, ⟨r, hr⟩⟩ := hL.moved j hj
    refine ⟨ob1, r, h1, hr.symm, ?_, key_newPath hc ctx.hdd (ctx.hi1.clean j ob1 h1) hr.symm⟩
    rw [hL.heap j, if_pos hj, h1]; rfl
  have hstay : ∀ j, j ∉ D → sF.heap[j]? = s1.heap[j]? := fun j hj => by rw [hL.heap j, if_neg hj]
  -- a live cell of the final state, classified
  have hclass : ∀ (q : List Str), Comps c q → ∀ (j : Nat) (ob' : Obj C), pv sF (canon c.sep q) = some (j, ob') →
      (∃ ob1 r, s1.heap[j]? = some ob1 ∧ ob1.live = true ∧ foldL c (Path.C c ob1.path) = foldL c sd ++ r ∧
          q = foldL c dd ++ r ∧ ob' = mv c fl sd dd ob1) ∨
      (j ∉ D ∧ s1.heap[j]? = some ob' ∧ ob'.live = true ∧ foldL c (Path.C c ob'.path) = q) := by
    intro q hq j ob' hpv
    obtain ⟨hj, hl, hk⟩ := (pv_canon_iff hc hL.inv hq).1 hpv
    by_cases hjD : j ∈ D
    · left
      obtain ⟨ob1, r, h1, hr, hF, hkF⟩ := hmoved j hjD
      rw [hF] at hj; cases hj
      exact ⟨ob1, r, h1, hl, hr, by rw [← hk, hkF], rfl⟩
    · right
      rw [hstay j hjD] at hj
      exact ⟨hjD, hj, hl, hk⟩
  refine ⟨?_, ?_, Tree.nodup_move dd hfree hr1.tnodup⟩
  · intro q hq
    rw [Tree.get_move dd hfree hr1.tnodup q]
    by_cases hdq : (foldL c dd).isPrefixOf q = true
    · simp only [hdq, if_true]
      obtain ⟨r, hr⟩ := List.isPrefixOf_iff_prefix.1 hdq
      have hdrop : q.drop (foldL c dd).length = r := by rw [← hr, List.drop_left]
      rw [hdrop]
      have hcr : Comps c r := by rw [← hdrop]; exact Comps.drop hq _
      have hcs : Comps c (foldL c sd ++ r) := Comps.append hsk hcr
      rw [hr1.get _ hcs]
      cases hp1 : pv s1 (canon c.sep (foldL c sd ++ r)) with
      | some jo =>
        obtain ⟨j, ob1⟩ := jo
        obtain ⟨h1, hl1, hk1⟩ := (pv_canon_iff hc ctx.hi1 hcs).1 hp1
        have hjD : j ∈ D := hall j ob1 h1 hl1 (hk1 ▸ List.prefix_append _ _)
        obtain ⟨ob1', r', h1', hr', hF, hkF⟩ := hmoved j hjD
        rw [h1] at h1'; cases h1'
        have hrr : r' = r := by rw [hk1] at hr'; exact (List.append_cancel_left hr').symm
        subst hrr
        have : pv sF (canon c.sep q) = some (j, mv c fl sd dd ob1) :=
          (pv_canon_iff hc hL.inv hq).2 ⟨hF, hl1, by rw [hkF, hr]⟩
        rw [this]
        simp only [Option.map_some]
        rw [nodeOf_mv hc ctx.hdd (ctx.hi1.clean j ob1 h1)]
      | none =>
        simp only [Option.map_none]
        cases hpF : pv sF (canon c.sep q) with
        | none => rfl
        | some jo =>
          exfalso
          obtain ⟨j, ob'⟩ := jo
          rcases hclass q hq j ob' hpF with ⟨ob1, r', h1, hl1, hk1, hqr, _⟩ | ⟨hjD, h1, hl1, hk1⟩
          · have hrr : r' = r := by rw [← hr] at hqr; exact (List.append_cancel_left hqr).symm
            subst hrr
            have := (pv_canon_iff hc ctx.hi1 hcs).2 ⟨h1, hl1, hk1⟩
            rw [hp1] at this; cases this
          · by_cases hds : foldL c dd = foldL c sd
            · apply hjD
              apply hall j ob' h1 hl1
              rw [hk1, ← hr, hds]; exact List.prefix_append _ _
            · exact ctx.hF hds j ob' h1 hl1 (by rw [hk1, ← hr]; exact List.prefix_append _ _)
    · simp only [hdq, Bool.false_eq_true, if_false]
      by_cases hsq : (foldL c sd).isPrefixOf q = true
      · simp only [hsq, if_true]
        cases hpF : pv sF (canon c.sep q) with
        | none => rfl
        | some jo =>
          exfalso
          obtain ⟨j, ob'⟩ := jo
          rcases hclass q hq j ob' hpF with ⟨ob1, r', _, _, _, hqr, _⟩ | ⟨hjD, h1, hl1, hk1⟩
          · apply hdq; rw [hqr]; exact List.isPrefixOf_iff_prefix.2 (List.prefix_append _ _)
          · exact hjD (hall j ob' h1 hl1 (hk1 ▸ List.isPrefixOf_iff_prefix.1 hsq))
      · simp only [hsq, Bool.false_eq_true, if_false]
        rw [hr1.get q hq]
        cases hp1 : pv s1 (canon c.sep q) with
        | some jo =>
          obtain ⟨j, ob1⟩ := jo
          obtain ⟨h1, hl1, hk1⟩ := (pv_canon_iff hc ctx.hi1 hq).1 hp1
          have hjD : j ∉ D := by
            intro e
            obtain ⟨ob1', r', h1', hr', _, _⟩ := hmoved j e
            rw [h1] at h1'; cases h1'
            apply hsq
            rw [← hk1, hr']; exact List.isPrefixOf_iff_prefix.2 (List.prefix_append _ _)
          have : pv sF (canon c.sep q) = some (j, ob1) :=
            (pv_canon_iff hc hL.inv hq).2 ⟨by rw [hstay j hjD]; exact h1, hl1, hk1⟩
          rw [this]
        | none =>
          cases hpF : pv sF (canon c.sep q) with
          | none => rfl
          | some jo =>
            exfalso
            obtain ⟨j, ob'⟩ := jo
            rcases hclass q hq j ob' hpF with ⟨ob1, r', _, _, _, hqr, _⟩ | ⟨hjD, h1, hl1, hk1⟩
            · apply hdq; rw [hqr]; exact List.isPrefixOf_iff_prefix.2 (List.prefix_append _ _)
            · have := (pv_canon_iff hc ctx.hi1 hq).2 ⟨h1, hl1, hk1⟩
              rw [hp1] at this; cases this
  · intro e he
    obtain ⟨e0, he0, rfl⟩ := Tree.mem_move.1 he
    have hk0 := hr1.keys e0 he0
    split
    · exact Comps.append hdk (Comps.drop hk0 _)
    · exact hk0

/-- deleting a live, empty folder through its own id (the "secret delete" of `rename`) -/
theorem delete_empty_dir {c : Cfg} (hc : COk2 c) {fl : Flavour} (hcfg : HashCfg C H) {s : St C} {t : Tree.T C}
    (hi : Inv c fl s) (hr : Rel c s t) {ch : Nat} {co : Obj C} (hco : s.heap[ch]? = some co) (hl : co.live = true)
    (hk : co.kind = .dir) (hempty : Tree.children t (foldL c (Path.C c co.path)) = []) :
    ∃ s', delete c hcfg s co.oid = (s', Res.unit) ∧ Inv c fl s' ∧ Rel c s' (Tree.erase t (foldL c (Path.C c co.path))) ∧
      (∀ (j : Nat), j ≠ ch → s'.heap[j]? = s.heap[j]?) := by
  have hg : getObj s co.oid = some (ch, co) := getObj_some.2 ⟨hi.oidFiled ch co hco hl, hco⟩
  have hb := dirBlocked_rel hc hcfg hi hr hco hl hk
  rw [hempty] at hb
  simp only [List.isEmpty_nil, if_true] at hb
  obtain ⟨h1, _, h3⟩ := sim_set hc hi hr hco hl (o' := { co with live := false }) rfl rfl
  have hlt : ch < s.heap.length := by
    rcases List.getElem?_eq_some_iff.1 hco with ⟨hl', _⟩; exact hl'
  refine ⟨registerEvent { s with heap := s.heap.set ch { co with live := false } } Action.delete { co with live := false } none,
    ?_, inv_of_same (s := { s with heap := s.heap.set ch { co with live := false } }) rfl rfl rfl h1,
    rel_of_same (s := { s with heap := s.heap.set ch { co with live := false } }) rfl rfl (h3 rfl), ?_⟩
  · simp only [delete, hg, hl, Bool.not_true, Bool.false_eq_true, if_false, hk, beq_self_eq_true, if_true, hb]
  · intro j hj
    show (s.heap.set ch _)[j]? = _
    rw [List.getElem?_set]
    have : ¬ ch = j := fun e => hj e.symm
    simp [this]

theorem sim_rename_dir {c : Cfg} (hc : COk2 c) {fl : Flavour} (hcfg : HashCfg C H)
    {s : St C} {t : Tree.T C} (hi : Inv c fl s) (hr : Rel c s t) (hw : Tree.TWf t) (oid p : Str)
    (hp : Clean c fl p) (hpn : Path.C c p ≠ [])
    (harg : fl.oip = false → oid.head? ≠ some '/')
    (hdir : ∀ (h : Nat) (o : Obj C), pv s oid = some (h, o) → o.kind = .dir)
    (hguard : ∀ (h : Nat) (o : Obj C), pv s oid = some (h, o) →
      foldL c (Path.C c o.path) <+: foldL c (Path.C c p) → foldL c (Path.C c o.path) = foldL c (Path.C c p)) :
    RenameOk (rename c fl hcfg s oid p) p ∧
    Sim c fl hcfg (rename c fl hcfg s oid p) (Tree.rename (tcfg c fl) t (resolve c s oid) (Path.C c p)) := by
  unfold Tree.rename
  rw [lookupT_resolve hc hi hr]
  cases hg : getObj s oid with
  | none =>
    rw [pv_of_getObj_none hg]
    simp only [rename, hg]
    exact ⟨renameOk_err _ _ _, hi, hr, .err⟩
  | some ho =>
    obtain ⟨h, o⟩ := ho
    have hho := (getObj_some.1 hg).2
    rw [pv_of_getObj hg]
    cases hl : o.live with
    | false =>
      simp only [rename, hg, hl]
      exact ⟨renameOk_err _ _ _, hi, hr, .err⟩
    | true =>
      have hpvo' : pv s oid = some (h, o) := by rw [pv_of_getObj hg, hl]; rfl
      have hk : o.kind = .dir := hdir h o hpvo'
      have hgd := hguard h o hpvo'
      have hoeq := oid_of_resolved hc hi harg hg
      have hclo := hi.clean h o hho
      have hco := clean_C hc hclo
      have hcp := clean_C hc hp
      have hsk := comps_foldL_ok hc hco.1
      have hdk := comps_foldL_ok hc hcp.1
      have hpvo : pv s (canon c.sep (foldL c (Path.C c o.path))) = some (h, o) :=
        (pv_canon_iff hc hi hsk).2 ⟨hho, hl, rfl⟩
      have hgs : Tree.get t (foldL c (Path.C c o.path)) = some (nodeOf c o) := by rw [hr.get _ hsk, hpvo]; rfl
      have hdkne : foldL c (Path.C c p) ≠ [] := fun e => hpn ((foldL_nil_iff c _).1 e)
      simp only [rename, hg, hl, Bool.not_true, Bool.false_eq_true, if_false, if_true, Option.map_some]
      rw [← parent_rel hc hr hp]
      cases hvp : verifyParent c s p with
      | some e => exact ⟨renameOk_err _ _ _, hi, hr, .err⟩
      | none =>
        simp only
        have hpc : Tree.parentCheck t (foldL c (Path.C c p)) = none := by
          rw [← tfold_eq c fl, ← parent_rel hc hr hp]; exact hvp
        -- the tree's conflict in terms of what is live under the destination key
        have hct : (if (Tree.fold (tcfg c fl) (Path.C c p) == foldL c (Path.C c o.path)) = true then none
              else Tree.get t (Tree.fold (tcfg c fl) (Path.C c p))) =
            (match pv s (norm c p) with
             | some (ch, co) => if ch = h then none else some (nodeOf c co)
             | none => none) := by
          rw [tfold_eq, hr.get _ hdk, ← norm_clean hc hp]
          cases hpd : pv s (norm c p) with
          | none => simp
          | some cho =>
            obtain ⟨ch, co⟩ := cho
            simp only [Option.map_some]
            by_cases hch : ch = h
            · subst hch
              rw [norm_clean hc hp] at hpd
              have := ((pv_canon_iff hc hi hdk).1 hpd).2.2
              have hco' : co = o := by
                obtain ⟨_, h2, _⟩ := pv_some.1 hpd
                rw [hho] at h2; exact (Option.some.inj h2).symm
              subst hco'
              simp [this]
            · have : (foldL c (Path.C c p) == foldL c (Path.C c o.path)) = false := by
                simp only [beq_eq_false_iff_ne, ne_eq]
                intro e
                rw [norm_clean hc hp, e, hpvo] at hpd
                simp only [Option.some.injEq, Prod.mk.injEq] at hpd
                exact hch hpd.1.symm
              simp [this, hch]
        -- everything after the conflict handling, from a state s1 / tree t1 in which the destination is free
        have htail : ∀ (s1 : St C) (conf : Option (Tree.Node C)),
            conf = (if (Tree.fold (tcfg c fl) (Path.C c p) == foldL c (Path.C c o.path)) = true then none
              else Tree.get t (Tree.fold (tcfg c fl) (Path.C c p))) →
            Tree.renameBlocked t (Tree.fold (tcfg c fl) (Path.C c p)) (nodeOf c o) conf = false →
            Inv c fl s1 → Rel c s1 (if conf.isSome then Tree.erase t (Tree.fold (tcfg c fl) (Path.C c p)) else t) →
            s1.heap[h]? = some o → (conf.isSome = true → o.path ≠ p) → (conf.isSome = false → s1 = s) →
            RenameOk (H := H) (if ((s1.heap[h]?.getD o).path == p) = true then (s1, Res.oid oid)
                else match renameMove c fl s1 h (s1.heap[h]?.getD o) p with
                  | (s2, some e) => (s2, Res.err e)
                  | (s2, none) => (s2, renameFinish fl s2 h (s1.heap[h]?.getD o) oid)) p ∧
            Sim c fl hcfg (if ((s1.heap[h]?.getD o).path == p) = true then (s1, Res.oid oid)
                else match renameMove c fl s1 h (s1.heap[h]?.getD o) p with
                  | (s2, some e) => (s2, Res.err e)
                  | (s2, none) => (s2, renameFinish fl s2 h (s1.heap[h]?.getD o) oid))
              (if ((nodeOf c o).disp == Path.C c p) = true then
                  (if conf.isSome = true then Tree.erase t (Tree.fold (tcfg c fl) (Path.C c p)) else t, Tree.Res.path (Path.C c p))
               else if ((nodeOf c o).kind == Kind.file) = true then
                  (Tree.set (Tree.erase (if conf.isSome = true then Tree.erase t (Tree.fold (tcfg c fl) (Path.C c p)) else t)
                      (foldL c (Path.C c o.path))) (Tree.fold (tcfg c fl) (Path.C c p))
                    { kind := (nodeOf c o).kind, content := (nodeOf c o).content, disp := Path.C c p }, Tree.Res.path (Path.C c p))
               else (Tree.move (if conf.isSome = true then Tree.erase t (Tree.fold (tcfg c fl) (Path.C c p)) else t)
                      (foldL c (Path.C c o.path)) (Tree.fold (tcfg c fl) (Path.C c p)) (Path.C c p), Tree.Res.path (Path.C c p))) := by
          intro s1 conf hconf hnb hi1 hr1 h1h hconfp hsame_s
          rw [tfold_eq] at hconf hnb hr1 ⊢
          simp only [h1h, Option.getD_some]
          by_cases hsame : o.path = p
          · have hcn : conf.isSome = false := by
              cases hcs : conf.isSome with
              | false => rfl
              | true => exact absurd hsame (hconfp hcs)
            have hs1 := hsame_s hcn
            subst hs1
            have h1 : (o.path == p) = true := by simpa using hsame
            have h2 : ((nodeOf c o).disp == Path.C c p) = true := by simp [nodeOf, hsame]
            rw [if_pos h1, if_pos h2]
            simp only [hcn, Bool.false_eq_true, if_false] at hr1 ⊢
            refine ⟨?_, hi1, hr1, .oid ?_⟩
            · intro x hx
              simp only [Res.oid.injEq] at hx
              subst hx
              refine ⟨o, ?_, hsame, hoeq⟩
              rw [liveObj_eq, pv_of_getObj hg, hl]; rfl
            · intro ho
              rw [← hoeq, hi1.pathOid ho h o hho, hsame]
              exact hcp.2.1
          · have h1 : ¬ (o.path == p) = true := by simpa using hsame
            have h2 : ¬ ((nodeOf c o).disp == Path.C c p) = true := by
              simp only [nodeOf, beq_iff_eq]
              intro e
              apply hsame
              rw [hco.2.1, hcp.2.1, e]
            have h3 : ¬ ((nodeOf c o).kind == Kind.file) = true := by simp [nodeOf, hk]
            rw [if_neg h1, if_neg h2, if_neg h3]
            -- the tree side is ready for the move
            obtain ⟨hw1, hn1, hf1, hs1, hpar1, hfree1, hsub⟩ :=
              Tree.rename_ready hw hr.tnodup hgs hdkne hgd hpc conf hconf hnb
            generalize ht1 : (if conf.isSome = true then Tree.erase t (foldL c (Path.C c p)) else t) = t1
              at hr1 hw1 hn1 hf1 hs1 hpar1 hfree1 hsub ⊢
            -- source and destination keys are equal or incomparable
            have hinc : ∀ q, foldL c (Path.C c o.path) <+: q → foldL c (Path.C c p) <+: q →
                foldL c (Path.C c o.path) = foldL c (Path.C c p) := by
              intro q h1q h2q
              rcases List.prefix_or_prefix_of_prefix h1q h2q with hpp | hpp
              · exact hgd hpp
              · by_cases hne : foldL c (Path.C c p) = foldL c (Path.C c o.path)
                · exact hne.symm
                · exfalso
                  obtain ⟨cn, hcn1, hcn2⟩ := Tree.blocked_of_ancestor hw hgs hpp hne
                  have hb : (foldL c (Path.C c p) == foldL c (Path.C c o.path)) = false := by simpa using hne
                  rw [hconf, hb] at hnb
                  simp only [Bool.false_eq_true, if_false, hcn1] at hnb
                  rw [hcn2] at hnb; cases hnb
            have ctx : DirCtx c fl s1 (Path.C c o.path) (Path.C c p) :=
              { hc := hc, hi1 := hi1, hsd := hco.1, hdd := hcp.1, hne := hpn, hddf := hcp.2.2, hinc := hinc
                hF := by
                  intro hds j ob hj hlj hpre
                  have hclj := clean_C hc (hi1.clean j ob hj)
                  have hkj := comps_foldL_ok hc hclj.1
                  have hgj : Tree.get t1 (foldL c (Path.C c ob.path)) = some (nodeOf c ob) := by
                    rw [hr1.get _ hkj, (pv_canon_iff hc hi1 hkj).2 ⟨hj, hlj, rfl⟩]; rfl
                  have := hf1 _ (Tree.mem_of_get hgj) hpre
                  exact hds (hinc _ this hpre).symm }
            obtain ⟨sF, D, hmove, hLF, hnF, hhD, hall⟩ := move_folder ctx h1h hl hk rfl
            have hpeq : canon c.sep (Path.C c p) = p := hcp.2.1.symm
            rw [hpeq] at hmove
            rw [hmove]
            simp only
            have hrelF := rel_after_move ctx hLF hall hr1 hf1
            -- the folder's own cell
            have hcellF : sF.heap[h]? = some (refiled fl o p) := by
              rw [hLF.heap h, if_pos hhD, h1h]
              simp only [Option.map_some, mv, newPath, List.drop_length, List.append_nil, hpeq]
            have hfin : renameFinish (C := C) (H := H) fl sF h o oid = .oid (refiled fl o p).oid := by
              simp only [renameFinish, hcellF]
              cases ho : fl.oip with
              | true =>
                have : ((refiled fl o p).oid == o.oid) = false := by
                  simp only [refiled, ho, if_true, beq_eq_false_iff_ne, ne_eq]
                  rw [hi1.pathOid ho h o h1h]
                  exact fun e => hsame e.symm
                simp [this]
              | false =>
                have : ((refiled fl o p).oid != oid) = false := by
                  simp [refiled, ho, hoeq]
                simp [this]
            rw [hfin]
            refine ⟨?_, hLF.inv, hrelF, .oid ?_⟩
            · intro x hx
              simp only [Res.oid.injEq] at hx
              subst hx
              refine ⟨refiled fl o p, ?_, rfl, rfl⟩
              rw [liveObj_eq, pv_some.2 ⟨hLF.inv.oidFiled h _ hcellF hl, hcellF, hl⟩]; rfl
            · intro ho
              simp only [refiled, ho, if_true]
              exact hcp.2.1
        generalize hconf : (if (Tree.fold (tcfg c fl) (Path.C c p) == foldL c (Path.C c o.path)) = true then none
              else Tree.get t (Tree.fold (tcfg c fl) (Path.C c p))) = conf
        have hconf' := hconf.symm
        rw [hconf] at hct
        cases hpd : pv s (norm c p) with
        | none =>
          have hrc : resolveConflict c hcfg s o (conflictOf c s oid p) = (s, none) := by
            unfold conflictOf getByPath
            cases hgp : getObj s (norm c p) with
            | none => rfl
            | some cho =>
              obtain ⟨ch, co⟩ := cho
              have := pv_of_getObj hgp
              rw [hpd] at this
              have hcl : co.live = false := by
                cases hcl : co.live with
                | false => rfl
                | true => rw [hcl] at this; cases this
              simp only
              split <;> simp [resolveConflict, hcl]
          have hcv : conf = none := by rw [hct, hpd]
          subst hcv
          rw [hrc, if_neg (by simp [Tree.renameBlocked])]
          exact htail s none hconf' rfl hi (by simpa using hr) hho (by simp) (fun _ => rfl)
        | some cho =>
          obtain ⟨ch, co⟩ := cho
          obtain ⟨hcd, hcho, hcl⟩ := pv_some.1 hpd
          have hgp : getObj s (norm c p) = some (ch, co) := getObj_some.2 ⟨hcd, hcho⟩
          by_cases hch : ch = h
          · subst hch
            rw [hho] at hcho; cases hcho
            have hrc : resolveConflict c hcfg s o (conflictOf c s oid p) = (s, none) := by
              simp [conflictOf, getByPath, hgp, hoeq, resolveConflict]
            have hcv : conf = none := by rw [hct, hpd]; simp
            subst hcv
            rw [hrc, if_neg (by simp [Tree.renameBlocked])]
            exact htail s none hconf' rfl hi (by simpa using hr) hho (by simp) (fun _ => rfl)
          · have hne : (co.oid == oid) = false := by
              simp only [beq_eq_false_iff_ne, ne_eq]
              intro e
              have h1 := hi.oidFiled ch co hcho hcl
              have h2 := hi.oidFiled h o hho hl
              rw [e, ← hoeq, h2] at h1
              exact hch (Option.some.inj h1).symm
            have hcof : conflictOf c s oid p = some (ch, co) := by
              simp [conflictOf, getByPath, hgp, hne]
            have hkco : foldL c (Path.C c co.path) = foldL c (Path.C c p) := by
              rw [norm_clean hc hp] at hpd
              exact ((pv_canon_iff hc hi hdk).1 hpd).2.2
            have hcv : conf = some (nodeOf c co) := by rw [hct, hpd]; simp [hch]
            subst hcv
            rw [hcof]
            have hdb := dirBlocked_rel hc hcfg hi hr hcho hcl
            by_cases hblk : Tree.renameBlocked t (Tree.fold (tcfg c fl) (Path.C c p)) (nodeOf c o) (some (nodeOf c co)) = true
            · -- refused on both sides
              rw [if_pos hblk]
              have hrc : resolveConflict c hcfg s o (some (ch, co)) = (s, some Err.exists) := by
                simp only [Tree.renameBlocked, nodeOf, hk, tfold_eq] at hblk
                cases hkc : co.kind with
                | file => simp [resolveConflict, hcl, hkc, hk]
                | dir =>
                  have hne' : (Tree.children t (foldL c (Path.C c p))).isEmpty = false := by
                    simpa [hkc] using hblk
                  simp only [resolveConflict, hcl, if_true, hkc, hk, bne_self_eq_false, Bool.false_eq_true, if_false,
                    beq_self_eq_true]
                  rw [hdb hkc, hkco, hne']
                  simp
              rw [hrc]
              exact ⟨renameOk_err _ _ _, hi, hr, .err⟩
            · -- an empty folder at the destination: secretly deleted
              have hblk' := Bool.eq_false_iff.2 hblk
              rw [if_neg hblk]
              have hblk2 := hblk'
              simp only [Tree.renameBlocked, nodeOf, hk, tfold_eq, Bool.or_eq_false_iff, Bool.not_eq_false',
                List.isEmpty_iff] at hblk2
              obtain ⟨⟨hk1, hk2⟩, hempty⟩ := hblk2
              have hkc : co.kind = .dir := by
                cases hkc : co.kind with
                | file => rw [hkc] at hk2; cases hk2
                | dir => rfl
              rw [← hkco] at hempty
              obtain ⟨s', hdel, hi', hr', hheap'⟩ := delete_empty_dir hc hcfg hi hr hcho hcl hkc hempty
              have hrc : resolveConflict c hcfg s o (some (ch, co)) = (s', none) := by
                simp only [resolveConflict, hcl, if_true, hkc, hk, bne_self_eq_false, Bool.false_eq_true, if_false,
                  beq_self_eq_true]
                rw [hdb hkc, hempty]
                simp only [List.isEmpty_nil, if_true, hdel]
              rw [hrc]
              have hne_path : o.path ≠ p := by
                intro e
                apply hch
                have h1 := hi.filed ch co hcho hcl
                have h2 := hi.filed h o hho hl
                rw [norm_clean hc (hi.clean ch co hcho), hkco, ← norm_clean hc hp, ← e, h2] at h1
                exact (Option.some.inj h1).symm
              rw [hkco, ← tfold_eq c fl] at hr'
              exact htail s' (some (nodeOf c co)) hconf' hblk' hi' (by simpa using hr')
                (by rw [hheap' h (fun e => hch e.symm)]; exact hho) (fun _ => hne_path) (by simp)

end CS.MockFS
