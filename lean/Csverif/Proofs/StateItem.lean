import Csverif.Proofs.StateUpdate
/-
C11: `SyncEntry.__setitem__` (state.py:409-437) and `split` (1313-1352).
`__setitem__` calls the hooks (`self.updated(side, …)`) on the side state that is still installed in the receiving entry
and only then replaces it, so the hook-level (not attribute-level) specifications are needed.
-/
namespace CS.State

/-- hook-level outcome of `_change_oid` -/
theorem changeOid_spec {R : Prop} {setF : SetF} (hO : OustOk R setF) {X0 : Ex2} {st : St} (hI : Idx X0 st) (hP : Pend st)
    (e : Nat) (s : Sd) (v : Oid) (hlt : e < st.ents.length) :
    (R ∧ (changeOid setF s e v st).1 = .error .recursion) ∨
    (match v with
      | some k => ∃ h, changeOid setF s e v st = (.ok (), h) ∧ Idx X0 h ∧ Pend h ∧ (h.side e s).oid = some k ∧ Frame none st h
      | none => ∃ st1, changeOid setF s e v st = (.ok (), oidCsRule st1 e s none) ∧ Idx (X0.add e s) st1 ∧ Clean st1 e s ∧ Pend st1 ∧
          Frame none st st1) := by
  have hI1 : Idx (X0.add e s) st := hI.mono (fun i s' h => Or.inl h)
  have hxe : (X0.add e s) e s := Or.inr ⟨rfl, rfl⟩
  rw [changeOid_eq]
  rcases removeOne_spec hO hI1 hP s e (st.side e s).oid hxe with hrec | ⟨hok, hI2, hP2, hg1, hmono1, hside1, hfr1⟩
  · cases hr1 : removeOne setF s e (st.side e s).oid st with
    | mk r1 st1 => rw [hr1] at hrec; simp only at hrec; obtain ⟨hR, hrec⟩ := hrec; subst hrec; exact Or.inl ⟨hR, rfl⟩
  · cases hr1 : removeOne setF s e (st.side e s).oid st with
    | mk r1 st1 =>
      rw [hr1] at hok hI2 hP2 hg1 hmono1 hside1 hfr1
      simp only at hok hI2 hP2 hg1 hmono1 hside1 hfr1
      subst hok
      simp only
      rcases whenRemove_spec hO hI2 hP2 s e v (decide (v ≠ (st.side e s).oid)) hxe with hrec | ⟨hok, hI3, hP3, hfree, hmono2, hside2, hfr2⟩
      · cases hr2 : whenM (decide (v ≠ (st.side e s).oid)) (removeOne setF s e v) st1 with
        | mk r2 st2 => rw [hr2] at hrec; simp only at hrec; obtain ⟨hR, hrec⟩ := hrec; subst hrec; exact Or.inl ⟨hR, rfl⟩
      · cases hr2 : whenM (decide (v ≠ (st.side e s).oid)) (removeOne setF s e v) st1 with
        | mk r2 st2 =>
          rw [hr2] at hok hI3 hP3 hfree hmono2 hside2 hfr2
          simp only at hok hI3 hP3 hfree hmono2 hside2 hfr2
          subst hok
          simp only
          have hgone : AL.get (st2.oids s) (st2.side e s).oid = none := by
            rw [hside2 s, hside1 s]; exact hmono2 _ hg1
          have hlen : e < st2.ents.length := by rw [hfr2.1, hfr1.1]; exact hlt
          have hcl : Clean st2 e s := hI3.clean_of hgone
          right
          cases v with
          | none =>
            simp only [Option.isSome_none, Bool.false_eq_true, if_false]
            exact ⟨st2, rfl, hI3, hcl, hP3, hfr1.trans hfr2⟩
          | some k =>
            simp only [Option.isSome_some, if_true]
            have hfree' : AL.get (st2.oids s) (some k) = none := by
              by_cases hne : some k ≠ (st.side e s).oid
              · exact hfree (by simp [hne])
              · have heq : some k = (st.side e s).oid := Decidable.not_not.mp hne
                rw [heq]; exact hmono2 _ hg1
            have hI4 : Idx X0 (indexOid st2 e s (some k)) := Idx.indexOid hI3 hcl hfree' hlen
            refine ⟨_, rfl, ?_, Pend.index hP3 e s k, ?_, ?_⟩
            · exact hI4.congr (by simp) (by simp) (by simp) (by simp)
            · rw [side_oidCsRule, side_indexOid]; simp [hlen]
            · refine hfr1.trans (hfr2.trans ((frame_indexOid st2 e s (some k)).trans ?_))
              exact Frame.of_sides (by simp) (fun i s' => by simp)

/-- what `__setitem__`'s final side replacement needs to know about the receiving entry side -/
structure Ready (st : St) (e : Nat) (s : Sd) (oid : Oid) (path : Option Path.Str) : Prop where
  idx : Idx (noX.add e s) st
  lt : e < st.ents.length
  oidSlots : ∀ k, AL.get (st.oids s) k = some e → oid = k
  pathSlots : ∀ p k, st.slot s p k = some e → path = p ∧ oid = k
  byOid : oid ≠ none → AL.get (st.oids s) oid = some e
  byPath : oid ≠ none → truthyS path = true → st.slot s path oid = some e

/-- a consistent state in which `e` already carries `(oid, path)` on `s` is ready -/
theorem Ready.of_inv {st : St} (hi : Idx noX st) {e s} (hlt : e < st.ents.length) :
    Ready st e s (st.side e s).oid (st.side e s).path :=
  ⟨hi.mono (fun _ _ h => Or.inl h), hlt, fun k hk => (hi.oidSlot s k e hk),
   fun p k hk => ⟨(hi.pathSlot s p k e hk).1, (hi.pathSlot s p k e hk).2.1⟩,
   fun ho => hi.byOid e s (fun h => h) ho, fun ho ht => hi.byPath e s (fun h => h) ho ht⟩

theorem Ready.congr {st st' : St} {e s oid path} (h : Ready st e s oid path) (hl : st'.ents.length = st.ents.length)
    (ho : ∀ s, st'.oids s = st.oids s) (hp : ∀ s, st'.paths s = st.paths s)
    (hf : ∀ i s, (st'.side i s).oid = (st.side i s).oid ∧ (st'.side i s).path = (st.side i s).path) : Ready st' e s oid path :=
  ⟨h.idx.congr hl ho hp hf, hl ▸ h.lt, fun k hk => h.oidSlots k (ho s ▸ hk),
   fun p k hk => h.pathSlots p k (by rw [← slot_congr hp]; exact hk),
   fun hn => by rw [ho]; exact h.byOid hn, fun hn ht => by rw [slot_congr hp]; exact h.byPath hn ht⟩

/-- the side replacement `self.__states[side] = copy.copy(val)` (state.py:437) re-establishes the index clauses -/
theorem Ready.install {st : St} {e s} {v' : Side} (h : Ready st e s v'.oid v'.path) :
    Idx noX (st.modSide e s (fun _ => v')) := by
  obtain ⟨⟨b1, b2, b3, b4, b5, b6, b7⟩, hlt, r1, r2, r3, r4⟩ := h
  unfold Ex2.add noX at b6 b7
  refine ⟨?_, ?_, ?_, b4.congr (by simp) (by simp), ?_, ?_, ?_⟩
  · intro s' k i hk; st_norm at hk ⊢; grind
  · intro s'; st_norm; grind
  · intro s' k i hk; st_norm at hk ⊢; grind
  · intro s' p' k i hk; st_norm at hk ⊢; grind
  · intro i s' hx ho; st_norm at ho ⊢; grind
  · intro i s' hx ho ht2; st_norm at ho ht2 ⊢; grind

theorem oid_putPath (st : St) (s : Sd) (e : Nat) (pth : Path.Str) (i : Nat) (s' : Sd) :
    ((putPath st s e pth).side i s').oid = (st.side i s').oid := by
  unfold putPath; rw [side_modSide]; simp only [side_setPathSlot, ents_setPathSlot]
  by_cases hh : i = e ∧ s' = s ∧ e < st.ents.length
  · rw [if_pos hh]; obtain ⟨a, b, _⟩ := hh; subst a; subst b; rfl
  · rw [if_neg hh]

/-- hook-level outcome of `_change_path` for an entry whose kids are not touched (not a directory, or no previous path) -/
theorem changePath_leaf_ready (cfg : Cfg) (n : Nat) (e : Nat) (s : Sd) (v : Option Path.Str) (st : St) (hi : Inv st)
    (hlt : e < st.ents.length) (hleaf : (st.side e s).otype ≠ .dir ∨ (st.side e s).path = none) :
    (changePath (sideSet cfg n) cfg s e v st).1 = .error .recursion ∨
    ((changePath (sideSet cfg n) cfg s e v st).1 = .error .assert ∧ (changePath (sideSet cfg n) cfg s e v st).2 = st) ∨
    ((changePath (sideSet cfg n) cfg s e v st).1 = .ok () ∧
      Ready (changePath (sideSet cfg n) cfg s e v st).2 e s (st.side e s).oid v ∧ Pend (changePath (sideSet cfg n) cfg s e v st).2 ∧
      (∀ i s', ((changePath (sideSet cfg n) cfg s e v st).2.side i s').oid = (st.side i s').oid) ∧
      (∀ s', ((changePath (sideSet cfg n) cfg s e v st).2.side e s').otype = (st.side e s').otype) ∧
      (changePath (sideSet cfg n) cfg s e v st).2.ents.length = st.ents.length) := by
  rw [changePath_eq]
  by_cases ha : (!truthyS v || truthyS (st.side e s).oid) = false
  · simp only [ha, if_true]; exact Or.inr (Or.inl ⟨by first | rfl | trivial, by first | rfl | trivial⟩)
  · have ha' : (!truthyS v || truthyS (st.side e s).oid) = true := by
      cases hb : (!truthyS v || truthyS (st.side e s).oid) with
      | false => exact absurd hb ha
      | true => rfl
    simp only [ha', Bool.true_eq_false, if_false]
    by_cases hp : (st.side e s).path = v
    · simp only [hp, if_true]
      exact Or.inr (Or.inr ⟨trivial, hp ▸ Ready.of_inv hi.1 hlt, hi.2, fun _ _ => trivial, fun _ => trivial, trivial⟩)
    · simp only [hp, if_false]
      have hfalsy : ∀ w : Option Path.Str, truthyS w = false →
          Ready (popPrior st s e) e s (st.side e s).oid w ∧ Pend (popPrior st s e) := by
        intro w hw
        obtain ⟨h1, h2, _⟩ := hi.1.popPrior s e
        refine ⟨⟨h1, by rw [len_popPrior]; exact hlt, ?_, ?_, ?_, ?_⟩, ?_⟩
        · intro k hk; rw [oids_popPrior] at hk; exact (hi.1.oidSlot s k e hk).symm ▸ rfl
        · intro p k hk; exact absurd hk (h2 p k)
        · intro ho; rw [oids_popPrior]; exact hi.1.byOid e s (fun h => h) ho
        · intro _ ht; rw [hw] at ht; cases ht
        · exact hi.2.congr (fun i hi' => by simpa [cs_popPrior] using hi') (fun i s' => by rw [side_popPrior]; exact ⟨rfl, rfl⟩)
      have hfin : ∀ w : Option Path.Str, truthyS w = false →
          (Except.ok () : Except Exc Unit) = .ok () ∧ Ready (popPrior st s e) e s (st.side e s).oid w ∧ Pend (popPrior st s e) ∧
          (∀ i s', ((popPrior st s e).side i s').oid = (st.side i s').oid) ∧
          (∀ s', ((popPrior st s e).side e s').otype = (st.side e s').otype) ∧ (popPrior st s e).ents.length = st.ents.length :=
        fun w hw => ⟨rfl, (hfalsy w hw).1, (hfalsy w hw).2, fun i s' => by rw [side_popPrior], fun s' => by rw [side_popPrior], len_popPrior ..⟩
      cases v with
      | none => exact Or.inr (Or.inr (hfin none rfl))
      | some q =>
        cases q with
        | nil => exact Or.inr (Or.inr (hfin (some []) rfl))
        | cons c p =>
          simp only
          have ho : truthyS (st.side e s).oid = true := by simpa [truthyS] using ha'
          obtain ⟨hinv4, hfr4, hp4⟩ := Inv.putPath hi.1 hi.2 s e (c :: p) rfl ho hp hlt
          have hfree : (popPrior st s e).slot s (some (c :: p)) ((popPrior st s e).side e s).oid = none := by
            rw [side_popPrior]
            exact (hi.1.popPrior s e).2.2 _ (by intro hh; rw [hh] at ho; cases ho) (fun hh => hp hh.symm)
          simp only [M.bind_apply, oustPathOwner_eq _ _ _ _ hfree, modifySt_apply]
          have hot : ((putPath (popPrior st s e) s e (c :: p)).side e s).otype = (st.side e s).otype := (hfr4.2 e s).1
          rw [updateKids_skip_eq _ _ _ _ _ _ _ (by rw [hot]; exact hleaf)]
          simp only
          have hlt4 : e < (putPath (popPrior st s e) s e (c :: p)).ents.length := by rw [hfr4.1]; exact hlt
          have := setPriority_tr cfg n noX e (cfg.prio s (c :: p)) _ _ ⟨rfl, hinv4.1, hinv4.2, hlt4⟩
          cases hr : setPriority (sideSet cfg n) cfg e (cfg.prio s (c :: p)) (putPath (popPrior st s e) s e (c :: p)) with
          | mk r st6 =>
            rw [hr] at this
            cases r with
            | error x =>
              left
              by_cases hx : x = .recursion
              · subst hx; rfl
              · exact (this.2 x rfl hx).elim
            | ok u =>
              obtain ⟨hrel, hI6, hP6⟩ := this.1 u rfl
              right; right
              have hlen6 : st6.ents.length = st.ents.length := hrel.len.trans hfr4.1
              have hoid6 : ∀ i s', (st6.side i s').oid = (st.side i s').oid := by
                intro i s'; rw [(hrel.field i s').1, oid_putPath, side_popPrior]
              have hp6 : (st6.side e s).path = some (c :: p) := by rw [(hrel.field e s).2.1]; exact hp4
              have hr6 := Ready.of_inv hI6 (e := e) (s := s) (by rw [hlen6]; exact hlt)
              rw [hoid6 e s, hp6] at hr6
              refine ⟨rfl, hr6, hP6, hoid6, fun s' => ?_, hlen6⟩
              rw [(hrel.field e s').2.2.1]; exact (hfr4.2 e s').1

/-! ### the three hook calls of `__setitem__` -/

theorem updatedSide_oid_eq (setF : SetF) (cfg : Cfg) (e : Nat) (s : Sd) (v : Oid) (st : St) :
    updatedSide setF cfg e s (.oid v) st =
      match changeOid setF s e v st with
      | (.error x, h) => (.error x, h)
      | (.ok _, h) => (.ok (), h.dirtyAdd e) := by
  simp only [updatedSide, M.bind_apply, modifySt_apply]
  cases changeOid setF s e v st with
  | mk r h => cases r <;> rfl

theorem updatedSide_path_eq (setF : SetF) (cfg : Cfg) (e : Nat) (s : Sd) (v : Option Path.Str) (st : St) :
    updatedSide setF cfg e s (.path v) st =
      match changePath setF cfg s e v st with
      | (.error x, h) => (.error x, h)
      | (.ok _, h) => (.ok (), h.dirtyAdd e) := by
  simp only [updatedSide, M.bind_apply, modifySt_apply]
  cases changePath setF cfg s e v st with
  | mk r h => cases r <;> rfl

theorem updatedSide_changed_eq (setF : SetF) (cfg : Cfg) (e : Nat) (s : Sd) (v : Chg) (st : St) :
    updatedSide setF cfg e s (.changed v) st = (.ok (), (chgHook st e s v).dirtyAdd e) := by
  simp only [updatedSide, M.bind_apply, changedRule_eq, modifySt_apply]

/-- the pending-set clause for every entry but `e` -/
def PendBut (e : Nat) (st : St) : Prop := ∀ i, i ≠ e → PendE i st

theorem Pend.but {st : St} (h : Pend st) (e : Nat) : PendBut e st := fun i _ => h i

theorem PendBut.chgRel {e st st'} (h : PendBut e st) (hr : ChgRel e st st') : PendBut e st' := by
  intro i hie ⟨s, h1, h2⟩
  rw [(hr.others i hie).1 s] at h1; rw [(hr.field i s).1] at h2
  exact (hr.others i hie).2.2 (h i hie ⟨s, h1, h2⟩)

/-- after the `changed` hook and the side replacement the receiving entry is pending when it must be -/
theorem pendE_install (h2 : St) (e : Nat) (s : Sd) (v' : Side) (hlt : e < h2.ents.length)
    (hoid : v'.oid = (h2.side e s).oid ∨ v'.oid = none) :
    PendE e (((chgHook h2 e s v'.changed).dirtyAdd e).modSide e s (fun _ => v')) := by
  have hrel : ChgRel e h2 ((chgHook h2 e s v'.changed).dirtyAdd e) := (chgRel_chgHook h2 e s v'.changed).trans (chgRel_dirtyAdd e e _)
  have hl3 : e < ((chgHook h2 e s v'.changed).dirtyAdd e).ents.length := by rw [hrel.len]; exact hlt
  have ha := pendE_chg h2 e s v'.changed hlt
  have hne : ¬ (s.other = s) := by cases s <;> simp [Sd.other]
  rintro ⟨s', h1, h2p⟩
  have : e ∈ (((chgHook h2 e s v'.changed).dirtyAdd e).modSide e s (fun x => { x with changed := v'.changed })).cs := by
    apply ha
    rcases Sd.eq_or_other s s' with hs | hs
    · subst hs
      rw [side_modSide] at h1 h2p
      simp only [hl3, and_self, if_true] at h1 h2p
      have hvo : v'.oid = (h2.side e s').oid := by
        rcases hoid with h | h
        · exact h
        · rw [h] at h2p; cases h2p
      refine ⟨s', ?_, ?_⟩
      · rw [side_modSide]; simp only [hl3, and_self, if_true]; exact h1
      · rw [side_modSide]; simp only [hl3, and_self, if_true]
        rw [(hrel.field e s').1, ← hvo]; exact h2p
    · subst hs
      rw [side_modSide] at h1 h2p
      simp only [hne, false_and, and_false, if_false] at h1 h2p
      refine ⟨s.other, ?_, ?_⟩
      · rw [side_modSide]; simp only [hne, false_and, and_false, if_false]; exact h1
      · rw [side_modSide]; simp only [hne, false_and, and_false, if_false]; exact h2p
  simpa using this

/-- the `changed` hook followed by the side replacement, from a state that is ready for it -/
theorem install_inv (h2 : St) (e : Nat) (s : Sd) (v' : Side) (hr : Ready h2 e s v'.oid v'.path) (hp : PendBut e h2)
    (hoid : v'.oid = (h2.side e s).oid ∨ v'.oid = none) :
    Inv (((chgHook h2 e s v'.changed).dirtyAdd e).modSide e s (fun _ => v')) ∧
    (((chgHook h2 e s v'.changed).dirtyAdd e).modSide e s (fun _ => v')).ents.length = h2.ents.length := by
  have hrel : ChgRel e h2 ((chgHook h2 e s v'.changed).dirtyAdd e) := (chgRel_chgHook h2 e s v'.changed).trans (chgRel_dirtyAdd e e _)
  have hr3 : Ready ((chgHook h2 e s v'.changed).dirtyAdd e) e s v'.oid v'.path :=
    hr.congr hrel.len hrel.oids hrel.paths (fun i s' => ⟨(hrel.field i s').1, (hrel.field i s').2.1⟩)
  have hp3 : PendBut e ((chgHook h2 e s v'.changed).dirtyAdd e) := hp.chgRel hrel
  refine ⟨⟨hr3.install, ?_⟩, by simp only [len_modSide]; exact hrel.len⟩
  intro i hi
  by_cases hie : i = e
  · subst hie; exact pendE_install h2 i s v' hr.lt hoid hi
  · obtain ⟨s', h1, h2'⟩ := hi
    have hs : ((((chgHook h2 e s v'.changed).dirtyAdd e).modSide e s (fun _ => v')).side i s') =
        ((chgHook h2 e s v'.changed).dirtyAdd e).side i s' := by
      rw [side_modSide]; rw [if_neg (fun hh => hie hh.1)]
    rw [hs] at h1 h2'
    simpa using hp3 i hie ⟨s', h1, h2'⟩

theorem ready_dirtyAdd {st : St} {e s oid path} (h : Ready st e s oid path) (j : Nat) : Ready (st.dirtyAdd j) e s oid path :=
  h.congr rfl (fun s => by simp) (fun s => by simp) (fun _ _ => ⟨rfl, rfl⟩)

/-- the hook calls of `__setitem__` followed by the side replacement keep the invariant (receiving entry: not a directory,
    or without a path) -/
theorem setItemHooks_install (cfg : Cfg) (fuel : Nat) (dst : Nat) (side : Sd) (v' : Side) (st : St) (hi : Inv st)
    (hlt : dst < st.ents.length) (hleaf : (st.side dst side).otype ≠ .dir ∨ (st.side dst side).path = none) :
    (setItemHooks cfg fuel dst side v' st).1 = .error .recursion ∨
    (∃ x, (setItemHooks cfg fuel dst side v' st).1 = .error x ∧ Inv (setItemHooks cfg fuel dst side v' st).2 ∧
      (setItemHooks cfg fuel dst side v' st).2.ents.length = st.ents.length) ∨
    ((setItemHooks cfg fuel dst side v' st).1 = .ok () ∧
      Inv ((setItemHooks cfg fuel dst side v' st).2.modSide dst side (fun _ => v')) ∧
      ((setItemHooks cfg fuel dst side v' st).2.modSide dst side (fun _ => v')).ents.length = st.ents.length) := by
  cases hvo : v'.oid with
  | some k =>
    simp only [setItemHooks, hvo, M.bind_apply, updatedSide_oid_eq, updatedSide_path_eq, updatedSide_changed_eq]
    rcases changeOid_spec (oustOk_sideSet cfg fuel) hi.1 hi.2 dst side (some k) hlt with ⟨_, hrec⟩ | ⟨h, heq, hI1, hP1, ho1, hf1⟩
    · left
      cases hr : changeOid (sideSet cfg fuel) side dst (some k) st with
      | mk r h => rw [hr] at hrec; simp only at hrec; subst hrec; rfl
    · rw [heq]; simp only
      have hi1 : Inv (h.dirtyAdd dst) := (plainRel_dirtyAdd h dst).inv ⟨hI1, hP1⟩
      have hlt1 : dst < (h.dirtyAdd dst).ents.length := by simp [hf1.1]; exact hlt
      have hleaf1 : ((h.dirtyAdd dst).side dst side).otype ≠ .dir ∨ ((h.dirtyAdd dst).side dst side).path = none := by
        simp only [side_dirtyAdd]; rw [(hf1.2 dst side).1, (hf1.2 dst side).2 (by simp)]; exact hleaf
      rcases changePath_leaf_ready cfg fuel dst side v'.path (h.dirtyAdd dst) hi1 hlt1 hleaf1 with hrec | ⟨hass, hst⟩ | ⟨hok, hready, hP2, hoid2, _, hlen2⟩
      · left
        cases hr : changePath (sideSet cfg fuel) cfg side dst v'.path (h.dirtyAdd dst) with
        | mk r h2 => rw [hr] at hrec; simp only at hrec; subst hrec; rfl
      · right; left
        cases hr : changePath (sideSet cfg fuel) cfg side dst v'.path (h.dirtyAdd dst) with
        | mk r h2 =>
          rw [hr] at hass hst; simp only at hass hst; subst hass; subst hst
          exact ⟨.assert, rfl, hi1, by simp [hf1.1]⟩
      · right; right
        cases hr : changePath (sideSet cfg fuel) cfg side dst v'.path (h.dirtyAdd dst) with
        | mk r h2 =>
          rw [hr] at hok hready hP2 hoid2 hlen2; simp only at hok hready hP2 hoid2 hlen2; subst hok
          simp only
          simp only [side_dirtyAdd] at hready
          rw [ho1, ← hvo] at hready
          have hinst := install_inv (h2.dirtyAdd dst) dst side v' (ready_dirtyAdd hready dst)
            ((hP2.congr (st' := h2.dirtyAdd dst) (fun i hi' => by simpa using hi') (fun _ _ => ⟨rfl, rfl⟩)).but dst) ?_
          · refine ⟨by first | rfl | trivial, hinst.1, hinst.2.trans ?_⟩
            simp only [ents_dirtyAdd]; rw [hlen2]; simp [hf1.1]
          · left; simp only [side_dirtyAdd]; rw [hoid2 dst side]; simp only [side_dirtyAdd]; rw [ho1, hvo]
  | none =>
    simp only [setItemHooks, hvo, M.bind_apply, updatedSide_oid_eq, updatedSide_path_eq, updatedSide_changed_eq]
    rcases changePath_leaf_ready cfg fuel dst side v'.path st hi hlt hleaf with hrec | ⟨hass, hst⟩ | ⟨hok, hready, hP1, _, _, hlen1⟩
    · left
      cases hr : changePath (sideSet cfg fuel) cfg side dst v'.path st with
      | mk r h1 => rw [hr] at hrec; simp only at hrec; subst hrec; rfl
    · right; left
      cases hr : changePath (sideSet cfg fuel) cfg side dst v'.path st with
      | mk r h1 =>
        rw [hr] at hass hst; simp only at hass hst; subst hass; subst hst
        exact ⟨.assert, rfl, hi, rfl⟩
    · cases hr : changePath (sideSet cfg fuel) cfg side dst v'.path st with
      | mk r h1 =>
        rw [hr] at hok hready hP1 hlen1; simp only at hok hready hP1 hlen1; subst hok
        simp only
        have hI1 : Idx (noX.add dst side) (h1.dirtyAdd dst) := (ready_dirtyAdd hready dst).idx
        have hPd1 : Pend (h1.dirtyAdd dst) := hP1.congr (fun i hi' => by simpa using hi') (fun _ _ => ⟨rfl, rfl⟩)
        have hlt1 : dst < (h1.dirtyAdd dst).ents.length := by simp only [ents_dirtyAdd]; rw [hlen1]; exact hlt
        rcases changeOid_spec (oustOk_sideSet cfg fuel) hI1 hPd1 dst side none hlt1 with ⟨_, hrec⟩ | ⟨st1, heq, hI2, hC2, hP2, hf2⟩
        · left
          cases hr2 : changeOid (sideSet cfg fuel) side dst none (h1.dirtyAdd dst) with
          | mk r h => rw [hr2] at hrec; simp only at hrec; subst hrec; rfl
        · rw [heq]; simp only
          right; right
          have hlen2 : st1.ents.length = st.ents.length := by rw [hf2.1]; simp only [ents_dirtyAdd]; exact hlen1
          have hready2 : Ready ((oidCsRule st1 dst side none).dirtyAdd dst) dst side v'.oid v'.path := by
            rw [hvo]
            refine ⟨?_, by simp [hlen2]; exact hlt, ?_, ?_, fun h => absurd rfl h, fun h => absurd rfl h⟩
            · refine (hI2.mono ?_).congr (by simp) (by simp) (by simp) (by simp)
              intro i s' hx; rcases hx with hx | hx
              · exact hx
              · exact Or.inr hx
            · intro k hk; simp only [oids_dirtyAdd, oids_oidCsRule] at hk; exact absurd hk (hC2.1 k)
            · intro p k hk; simp only [slot_dirtyAdd, slot_oidCsRule] at hk; exact absurd hk (hC2.2 p k)
          have hpb : PendBut dst ((oidCsRule st1 dst side none).dirtyAdd dst) := by
            intro i hie ⟨s', h1', h2'⟩
            simp only [side_dirtyAdd, side_oidCsRule] at h1' h2'
            have := hP2 i ⟨s', h1', h2'⟩
            simp only [cs_dirtyAdd, oidCsRule]
            split <;> simp [this, hie]
          have hinst := install_inv _ dst side v' hready2 hpb (Or.inr hvo)
          refine ⟨by first | rfl | trivial, hinst.1, hinst.2.trans ?_⟩
          simp [hlen2]

/-! ### `__setitem__` -/

theorem sideSet_path_none_eq (cfg : Cfg) (n : Nat) (e : Nat) (s : Sd) (st : St) :
    sideSet cfg (n + 1) e s (.path none) st =
      (.ok (), pathFin (if (st.side e s).path = none then st else popPrior st s e) e s none) := by
  rw [sideSet_path_eq, changePath_eq]
  have h1 : (!truthyS (none : Option Path.Str) || truthyS (st.side e s).oid) = true := rfl
  simp only [h1, Bool.true_eq_false, if_false]
  by_cases hp : (st.side e s).path = none <;> simp [hp]

/-- a leaf: `_update_kids` does nothing for it -/
def LeafAt (st : St) (e : Nat) (s : Sd) : Prop := (st.side e s).otype ≠ .dir ∨ (st.side e s).path = none

theorem LeafAt.frame {st st' : St} {e s} (h : LeafAt st e s) (hf : Frame none st st') : LeafAt st' e s := by
  unfold LeafAt; rw [(hf.2 e s).1, (hf.2 e s).2 (by simp)]; exact h

/-- invariant + number of entries (the stack is added afterwards, see `setItem_tr`) -/
def InvL0 (L : Nat) (st : St) : Prop := Inv st ∧ st.ents.length = L

/-- `val.path = None` on the giving side -/
theorem clearPath_tr (cfg : Cfg) (fuel : Nat) (src : Nat) (srcSide : Sd) (dst : Nat) (side : Sd) (L : Nat) (hs : src < L) :
    Tr (fun st => InvL0 L st ∧ LeafAt st dst side) (sideSet cfg fuel src srcSide (.path none))
      (fun _ st' => InvL0 L st' ∧ LeafAt st' dst side) (fun _ => False) := by
  rintro st ⟨⟨hi, hl⟩, hleaf⟩
  cases fuel with
  | zero => exact ⟨fun a ha => (by cases ha), fun x hx hne => by cases hx; exact absurd rfl hne⟩
  | succ n =>
    rw [sideSet_path_none_eq]
    refine ⟨fun _ _ => ?_, fun x hx => by cases hx⟩
    have hlt : src < st.ents.length := hl ▸ hs
    by_cases hp : (st.side src srcSide).path = none
    · simp only [hp, if_true]
      refine ⟨⟨inv_pathFin_same hi hp, by simp [pathFin, hl]⟩, ?_⟩
      unfold LeafAt; rw [pathFin_same hp]; exact hleaf
    · simp only [hp, if_false]
      refine ⟨⟨inv_pathFin_falsy hi srcSide src none rfl, by simp [pathFin, len_popPrior, hl]⟩, ?_⟩
      unfold LeafAt
      rw [side_pathFin]
      by_cases hh : dst = src ∧ side = srcSide ∧ src < (popPrior st srcSide src).ents.length
      · rw [if_pos hh]; exact Or.inr rfl
      · rw [if_neg hh, side_popPrior]; exact hleaf

/-- state.py:409-437 `SyncEntry.__setitem__` keeps the invariant when the receiving entry side is a leaf -/
theorem setItem_tr0 (cfg : Cfg) (fuel : Nat) (dst : Nat) (side : Sd) (src : Nat) (srcSide : Sd) (L : Nat) (hd : dst < L) (hs : src < L) :
    Tr (fun st => InvL0 L st ∧ LeafAt st dst side) (setItem cfg fuel dst side src srcSide) (fun _ st' => InvL0 L st') Inv := by
  unfold setItem
  apply Tr.getSt_bind; intro st0
  refine Tr.bind (R := fun _ st' => InvL0 L st' ∧ LeafAt st' dst side) ((clearPath_tr cfg fuel src srcSide dst side L hs).conseq
    (fun st h => h.2) (fun _ _ h => h) (fun _ h => h.elim)) (fun _ => ?_)
  refine Tr.bind (R := fun _ st' => InvL0 L st' ∧ LeafAt st' dst side) ?_ (fun _ => ?_)
  · apply Tr.intro_st; intro st2
    apply Tr.with_pre (φ := InvL0 L st2 ∧ LeafAt st2 dst side) (fun st (h : st = st2 ∧ _) => h.1 ▸ h.2)
    rintro ⟨⟨hi2, hl2⟩, hleaf2⟩
    refine (sideSet_oid_tr cfg fuel noX src srcSide none st2).conseq ?_ ?_ (fun _ h => h.elim)
    · rintro st ⟨rfl, _⟩; exact ⟨rfl, hi2.1, hi2.2, hl2 ▸ hs⟩
    · intro _ st' h; exact ⟨⟨⟨h.1, h.2.1⟩, h.2.2.1.trans hl2⟩, hleaf2.frame h.2.2⟩
  apply Tr.getSt_bind; intro st3
  simp only
  refine Tr.bind (R := fun _ st' => st' = st3 ∧ InvL0 L st' ∧ LeafAt st' dst side) (Tr.assert (fun st h _ => h.2.1.1) (fun st h _ => h)) (fun _ => ?_)
  rintro st ⟨rfl, ⟨hi3, hl3⟩, hleaf3⟩
  simp only [M.bind_apply, modifySt_apply]
  have hlt3 : dst < st.ents.length := hl3 ▸ hd
  rcases setItemHooks_install cfg fuel dst side _ st hi3 hlt3 hleaf3 with hrec | ⟨x, hx, hix, _⟩ | ⟨hok, hinv, hlen⟩
  · cases hr : setItemHooks cfg fuel dst side { st.side src srcSide with path := (st0.side src srcSide).path, oid := (st0.side src srcSide).oid } st with
    | mk r h3 =>
      rw [hr] at hrec; simp only at hrec; subst hrec
      exact ⟨fun a ha => (by cases ha), fun y hy hne => by cases hy; exact absurd rfl hne⟩
  · cases hr : setItemHooks cfg fuel dst side { st.side src srcSide with path := (st0.side src srcSide).path, oid := (st0.side src srcSide).oid } st with
    | mk r h3 =>
      rw [hr] at hx hix; simp only at hx hix; subst hx
      exact ⟨fun a ha => (by cases ha), fun y hy _ => by cases hy; exact hix⟩
  · cases hr : setItemHooks cfg fuel dst side { st.side src srcSide with path := (st0.side src srcSide).path, oid := (st0.side src srcSide).oid } st with
    | mk r h3 =>
      rw [hr] at hok hinv hlen; simp only at hok hinv hlen; subst hok
      exact ⟨fun _ _ => ⟨hinv, hlen.trans hl3⟩, fun y hy => by cases hy⟩

theorem mov_setItemHooks (cfg : Cfg) (fuel : Nat) (dst : Nat) (side : Sd) (v' : Side) : Mov (setItemHooks cfg fuel dst side v') := by
  unfold setItemHooks
  simp only
  refine Mov.bind ?_ (fun _ => mov_updatedSide (movF_sideSet cfg fuel) _ _ _ _)
  split
  · exact Mov.bind (mov_updatedSide (movF_sideSet cfg fuel) _ _ _ _) (fun _ => mov_updatedSide (movF_sideSet cfg fuel) _ _ _ _)
  · exact Mov.bind (mov_updatedSide (movF_sideSet cfg fuel) _ _ _ _) (fun _ => mov_updatedSide (movF_sideSet cfg fuel) _ _ _ _)

theorem mov_setItem (cfg : Cfg) (fuel : Nat) (dst : Nat) (side : Sd) (src : Nat) (srcSide : Sd) : Mov (setItem cfg fuel dst side src srcSide) := by
  unfold setItem
  refine Mov.bind Mov.getSt (fun _ => Mov.bind (movF_sideSet cfg fuel _ _ _) (fun _ => Mov.bind (movF_sideSet cfg fuel _ _ _) (fun _ => ?_)))
  refine Mov.bind Mov.getSt (fun _ => Mov.bind (Mov.assert _) (fun _ => Mov.bind (mov_setItemHooks _ _ _ _ _) (fun _ => Mov.modify (fun st => by simp))))

/-- state.py:409-437 `SyncEntry.__setitem__` keeps the invariant when the receiving entry side is a leaf -/
theorem setItem_tr (cfg : Cfg) (fuel : Nat) (dst : Nat) (side : Sd) (src : Nat) (srcSide : Sd) (L : Nat) (hd : dst < L) (hs : src < L) :
    Tr (fun st => InvL L st ∧ LeafAt st dst side) (setItem cfg fuel dst side src srcSide) (fun _ st' => InvL L st') Inv :=
  ((setItem_tr0 cfg fuel dst side src srcSide L hd hs).with_mov (mov_setItem cfg fuel dst side src srcSide) []).conseq
    (fun st h => ⟨⟨⟨h.1.1, h.1.2.1⟩, h.2⟩, h.1.2.2⟩) (fun _ st' h => ⟨h.1.1, h.1.2, h.2⟩) (fun st' h => h.1)

/-! ### `split` -/

theorem assert_keeps (N : Nat) (P : St → Prop) (hP : ∀ st, P st → InvL N st) (b : Bool) :
    Tr P (assertM b) (fun _ => InvL N) Inv :=
  Tr.assert (fun st h _ => (hP st h).1) (fun st h _ => hP st h)

/-- state.py:1313-1352 `split` keeps the invariant (one entry is added) -/
theorem split_tr (cfg : Cfg) (fuel : Nat) (e : Nat) (L : Nat) (he : e < L) :
    Tr (InvL L) (split cfg fuel e) (fun _ st' => InvL (L + 1) st') Inv := by
  unfold split
  apply Tr.getSt_bind; intro st0
  refine Tr.bind (R := fun rep st' => rep = L ∧ InvL (L + 1) st' ∧ LeafAt st' L .L) ?_ (fun rep => ?_)
  · refine (newEntry_tr _ _ Inv).conseq (fun _ h => h) ?_ (fun _ h => h)
    rintro rep st' ⟨st, ⟨_, hil⟩, rfl, rfl⟩
    refine ⟨hil.2.1, ⟨inv_addEntry hil.1 _, by simp [hil.2.1], (by rw [moving_addEntry]; exact hil.2.2)⟩, Or.inr ?_⟩
    rw [side_addEntry]; simp [hil.2.1]
  apply Tr.with_pre (φ := rep = L) (fun st h => h.1)
  rintro rfl
  have hkeep : ∀ (P : St → Prop), (∀ st, P st → InvL (rep + 1) st) → ∀ b, Tr P (assertM b) (fun _ => InvL (rep + 1)) Inv :=
    fun P hP b => assert_keeps (rep + 1) P hP b
  have he1 : e < rep + 1 := Nat.lt_succ_of_lt he
  have hr1 : rep < rep + 1 := Nat.lt_succ_self rep
  apply Tr.getSt_bind; intro s1
  refine Tr.bind (R := fun _ st' => InvL (rep + 1) st' ∧ LeafAt st' rep .L)
    (Tr.assert (fun st h _ => h.2.2.1.1) (fun st h _ => h.2.2)) (fun _ => ?_)
  refine Tr.bind (R := fun _ => InvL (rep + 1)) ((setItem_tr cfg fuel rep .L e .L (rep + 1) hr1 he1).conseq (fun _ h => h) (fun _ _ h => h) (fun _ h => h)) (fun _ => ?_)
  apply Tr.getSt_bind; intro s2
  refine Tr.bind (R := fun _ => InvL (rep + 1)) (hkeep _ (fun st h => h.2) _) (fun _ => ?_)
  apply Tr.getSt_bind; intro s3
  refine Tr.bind (R := fun _ => InvL (rep + 1)) (hkeep _ (fun st h => h.2) _) (fun _ => ?_)
  refine Tr.bind (R := fun _ => InvL (rep + 1)) (hkeep _ (fun st h => h) _) (fun _ => ?_)
  refine Tr.bind (R := fun _ => InvL (rep + 1)) ((clearSide_tr cfg fuel e .L (rep + 1) he1).conseq (fun _ h => h) (fun _ _ h => h) (fun _ h => h)) (fun _ => ?_)
  apply Tr.getSt_bind; intro s4
  refine Tr.bind (R := fun _ => InvL (rep + 1)) (hkeep _ (fun st h => h.2) _) (fun _ => ?_)
  apply Tr.getSt_bind; intro s5
  refine Tr.bind (R := fun _ => InvL (rep + 1)) (hkeep _ (fun st h => h.2) _) (fun _ => ?_)
  refine Tr.bind (R := fun _ => InvL (rep + 1)) (markChanged_tr cfg fuel .L rep (rep + 1) hr1) (fun _ => ?_)
  refine Tr.bind (R := fun _ => InvL (rep + 1)) (markChanged_tr cfg fuel .R e (rep + 1) he1) (fun _ => ?_)
  apply Tr.getSt_bind; intro s6
  refine Tr.bind (R := fun _ => InvL (rep + 1)) (hkeep _ (fun st h => h.2) _) (fun _ => ?_)
  refine Tr.bind (R := fun _ => InvL (rep + 1)) (sideSet_keeps cfg fuel rep .L _ (rep + 1) hr1 _ (fun st h => h)) (fun _ => ?_)
  refine Tr.bind (R := fun _ => InvL (rep + 1)) (sideSet_keeps cfg fuel e .R _ (rep + 1) he1 _ (fun st h => h)) (fun _ => ?_)
  apply Tr.getSt_bind; intro s7
  refine Tr.bind (R := fun _ => InvL (rep + 1)) (hkeep _ (fun st h => h.2) _) (fun _ => ?_)
  exact Tr.pure (fun _ h => h)

end CS.State
