import Csverif.Proofs.StateInv
/-
C11: the attribute hook.  A small Hoare calculus for the model's monad and the specifications of `_change_oid`,
the `changed` rule, `_change_path`/`_update_kids` and `SideState.__setattr__` (`sideSet`) with respect to `Idx`/`Pend`.
-/
namespace CS.State

@[simp] theorem M.pure_apply {α} (a : α) (st : St) : (pure a : M α) st = (.ok a, st) := rfl
@[simp] theorem M.bind_apply {α β} (m : M α) (f : α → M β) (st : St) :
    (m >>= f) st = match m st with | (.ok a, s') => f a s' | (.error e, s') => (.error e, s') := rfl
@[simp] theorem getSt_apply (st : St) : getSt st = (.ok st, st) := rfl
@[simp] theorem modifySt_apply (f : St → St) (st : St) : modifySt f st = (.ok (), f st) := rfl
@[simp] theorem throwE_apply {α} (e : Exc) (st : St) : (throwE e : M α) st = (.error e, st) := rfl
@[simp] theorem M.ite_apply {α} (c : Prop) [Decidable c] (a b : M α) (st : St) :
    (if c then a else b) st = if c then a st else b st := by split <;> rfl
theorem assertM_apply (b : Bool) (st : St) : assertM b st = if b then (.ok (), st) else (.error .assert, st) := by
  unfold assertM; split <;> rfl

/-- the full invariant at operation boundaries -/
def Inv (st : St) : Prop := Idx noX st ∧ Pend st

/-! ### Hoare triples: from `P`, `m` ends — unless the fuel ran out — in `Q a` on a normal return, in `E` on an exception -/
def Tr {α} (P : St → Prop) (m : M α) (Q : α → St → Prop) (E : St → Prop) : Prop :=
  ∀ st, P st → (∀ a, (m st).1 = .ok a → Q a (m st).2) ∧ (∀ x, (m st).1 = .error x → x ≠ .recursion → E (m st).2)

namespace Tr
variable {α β : Type} {P P' : St → Prop} {Q Q' : α → St → Prop} {E E' : St → Prop}

theorem pure {a : α} (h : ∀ st, P st → Q a st) : Tr P (Pure.pure a : M α) Q E :=
  fun st hp => ⟨fun a' ha => (by cases ha; exact h st hp), fun x hx => by cases hx⟩

theorem bind {m : M α} {f : α → M β} {R : α → St → Prop} {Q : β → St → Prop}
    (h1 : Tr P m R E) (h2 : ∀ a, Tr (R a) (f a) Q E) : Tr P (m >>= f) Q E := by
  intro st hp
  have := h1 st hp
  simp only [M.bind_apply]
  cases hm : m st with
  | mk r st' =>
    rw [hm] at this
    cases r with
    | ok a => exact h2 a st' (this.1 a rfl)
    | error x => exact ⟨fun a ha => (by cases ha), fun y hy => by cases hy; exact this.2 x rfl⟩

theorem getSt_bind {f : St → M β} {Q : β → St → Prop} (h : ∀ st0, Tr (fun st => st = st0 ∧ P st) (f st0) Q E) :
    Tr P (getSt >>= f) Q E := fun st hp => h st st ⟨rfl, hp⟩

theorem modify {f : St → St} {Q : Unit → St → Prop} (h : ∀ st, P st → Q () (f st)) : Tr P (modifySt f) Q E :=
  fun st hp => ⟨fun _ _ => h st hp, fun x hx => by cases hx⟩

theorem throw {x : Exc} (h : x ≠ .recursion → ∀ st, P st → E st) : Tr P (throwE x : M α) Q E :=
  fun st hp => ⟨fun a ha => (by cases ha), fun y hy hne => by cases hy; exact h hne st hp⟩

theorem assert {b : Bool} {Q : Unit → St → Prop} (hE : ∀ st, P st → b = false → E st) (hQ : ∀ st, P st → b = true → Q () st) :
    Tr P (assertM b) Q E := by
  intro st hp; rw [assertM_apply]
  cases b with
  | true => exact ⟨fun _ _ => hQ st hp rfl, fun x hx => by cases hx⟩
  | false => exact ⟨fun a ha => (by cases ha), fun y hy _ => by cases hy; exact hE st hp rfl⟩

theorem when {c : Bool} {m : M Unit} {Q : Unit → St → Prop} (h : c = true → Tr P m Q E) (h' : c = false → ∀ st, P st → Q () st) :
    Tr P (whenM c m) Q E := by
  unfold whenM
  cases c with
  | true => exact h rfl
  | false => exact fun st hp => ⟨fun _ _ => h' rfl st hp, fun x hx => by cases hx⟩

theorem ite {c : Prop} [Decidable c] {a b : M α} (h : c → Tr P a Q E) (h' : ¬ c → Tr P b Q E) : Tr P (if c then a else b) Q E := by
  split
  · next hc => exact h hc
  · next hc => exact h' hc

theorem conseq {m : M α} (h : Tr P m Q E) (hP : ∀ st, P' st → P st) (hQ : ∀ a st, Q a st → Q' a st) (hE : ∀ st, E st → E' st) :
    Tr P' m Q' E' := by
  intro st hp
  have := h st (hP st hp)
  exact ⟨fun a ha => hQ a _ (this.1 a ha), fun x hx hne => hE _ (this.2 x hx hne)⟩

theorem pre {m : M α} (h : Tr P m Q E) (hP : ∀ st, P' st → P st) : Tr P' m Q E := h.conseq hP (fun _ _ h => h) (fun _ h => h)

/-- pure facts implied by the precondition may be used -/
theorem with_pre {m : M α} {φ : Prop} (hφ : ∀ st, P st → φ) (h : φ → Tr P m Q E) : Tr P m Q E :=
  fun st hp => h (hφ st hp) st hp

/-- name the initial state -/
theorem intro_st {m : M α} (h : ∀ st1, Tr (fun st => st = st1 ∧ P st) m Q E) : Tr P m Q E :=
  fun st hp => h st st ⟨rfl, hp⟩

/-- an existential in the precondition -/
theorem exists_pre {ι : Type} {m : M α} {P : ι → St → Prop} (h : ∀ x, Tr (P x) m Q E) : Tr (fun st => ∃ x, P x st) m Q E :=
  fun st ⟨x, hp⟩ => h x st hp

/-- `try … finally` -/
theorem finally_ {m : M α} {f : St → St} {Q0 : α → St → Prop} {E0 : St → Prop} (h : Tr P m Q0 E0)
    (hQ : ∀ a st, Q0 a st → Q a (f st)) (hE : ∀ st, E0 st → E (f st)) : Tr P (finallyM m f) Q E := by
  intro st hp
  have := h st hp
  unfold finallyM
  cases hm : m st with
  | mk r st' =>
    rw [hm] at this
    exact ⟨fun a ha => hQ a st' (this.1 a ha), fun x hx hne => hE st' (this.2 x hx hne)⟩

/-- a precondition that cannot hold -/
theorem false_pre {m : M α} (h : ∀ st, P st → False) : Tr P m Q E := fun st hp => (h st hp).elim

/-- from an explicit outcome -/
theorem of_eq {m : M α} {st : St} {r : Except Exc α} {st' : St} (h : m st = (r, st'))
    (hok : ∀ a, r = .ok a → Q a st') (herr : ∀ x, r = .error x → x ≠ .recursion → E st') :
    (∀ a, (m st).1 = .ok a → Q a (m st).2) ∧ (∀ x, (m st).1 = .error x → x ≠ .recursion → E (m st).2) := by
  rw [h]; exact ⟨hok, herr⟩

end Tr

/-! ### ousting -/

/-- effect of `prior_ent[side].oid = None` on an entry whose id slot is already gone (state.py:893-895, 913-916) -/
def oustState (st : St) (p : Nat) (s : Sd) : St :=
  ((oidCsRule st p s none).dirtyAdd p).modSide p s (fun x => { x with oid := none })

theorem removeOne_eq (setF : SetF) (s : Sd) (e : Nat) (r : Oid) (st : St) :
    removeOne setF s e r st =
      match AL.get (st.oids s) r with
      | none => (.ok (), st)
      | some p => if p ≠ e then setF p s (.oid none) (unindex st s r p) else (.ok (), unindex st s r p) := by
  simp only [removeOne, M.bind_apply, getSt_apply]
  cases AL.get (st.oids s) r with
  | none => rfl
  | some p =>
    by_cases hp : p = e <;> simp [hp, whenM, M.bind_apply, modifySt_apply, M.pure_apply]

theorem sideSetBody_oid_none_eq (setF : SetF) (cfg : Cfg) (p : Nat) (s : Sd) (st : St)
    (h1 : AL.get (st.oids s) (st.side p s).oid = none) (h2 : AL.get (st.oids s) none = none) :
    sideSetBody setF cfg p s (.oid none) st = (.ok (), oustState st p s) := by
  simp only [sideSetBody, updatedSide, changeOid, M.bind_apply, getSt_apply, removeOne_eq, h1, whenM]
  by_cases hc : (st.side p s).oid = none
  · simp [hc, oustState]
  · have : none ≠ (st.side p s).oid := fun h => hc h.symm
    simp [this, h2, oustState, removeOne_eq]

/-- `setF` on an already un-indexed entry: out of fuel, or exactly the ousting effect -/
def OustOk (R : Prop) (setF : SetF) : Prop :=
  ∀ p s st, AL.get (st.oids s) (st.side p s).oid = none → AL.get (st.oids s) none = none →
    (R ∧ (setF p s (.oid none) st).1 = .error .recursion) ∨ setF p s (.oid none) st = (.ok (), oustState st p s)

theorem oustOk_sideSet (cfg : Cfg) (n : Nat) : OustOk True (sideSet cfg n) := by
  intro p s st h1 h2
  cases n with
  | zero => left; exact ⟨trivial, rfl⟩
  | succ n => right; exact sideSetBody_oid_none_eq _ cfg p s st h1 h2

theorem oustOk_sideSet_succ (cfg : Cfg) (n : Nat) : OustOk False (sideSet cfg (n + 1)) :=
  fun p s st h1 h2 => Or.inr (sideSetBody_oid_none_eq _ cfg p s st h1 h2)

@[simp] theorem oids_oidCsRule (st : St) (e s k s') : (oidCsRule st e s k).oids s' = st.oids s' := by
  unfold oidCsRule; split <;> split <;> simp
@[simp] theorem paths_oidCsRule (st : St) (e s k s') : (oidCsRule st e s k).paths s' = st.paths s' := by
  unfold oidCsRule; split <;> split <;> simp
@[simp] theorem ents_oidCsRule (st : St) (e s k) : (oidCsRule st e s k).ents = st.ents := by
  unfold oidCsRule; split <;> split <;> simp
@[simp] theorem side_oidCsRule (st : St) (e s k i s') : (oidCsRule st e s k).side i s' = st.side i s' := by
  unfold oidCsRule; split <;> split <;> simp
@[simp] theorem slot_oidCsRule (st : St) (e s k s' p k') : (oidCsRule st e s k).slot s' p k' = st.slot s' p k' :=
  slot_congr (by simp) ..

theorem Idx.oust {X st} {p s} (h : Idx (X.add p s) st) (hc : Clean st p s) : Idx X (oustState st p s) := by
  unfold oustState
  apply Idx.clearOid
  · exact h.congr (by simp) (by simp) (by simp) (by simp)
  · obtain ⟨c1, c2⟩ := hc
    exact ⟨fun k => by simpa using c1 k, fun p' k => by simpa using c2 p' k⟩

theorem Pend.oust {st} (h : Pend st) (p : Nat) (s : Sd) : Pend (oustState st p s) := by
  intro i ⟨s', h1, h2⟩
  unfold oustState oidCsRule at h1 h2 ⊢
  have hoc := changed_oob st p
  have hi := h i
  have hn : truthyS (none : Option Path.Str) = false := rfl
  simp only at h1 h2 ⊢
  by_cases hc : ((st.side p s).changed.truthy && !(st.side p s.other).changed.truthy) = true
  · simp only [hc, if_true] at h1 h2 ⊢
    simp only [Bool.and_eq_true, Bool.not_eq_true'] at hc
    cases s <;> cases s' <;> simp only [Sd.other] at * <;> st_norm at h1 h2 ⊢ <;> grind
  · simp only [hc, Bool.false_eq_true, if_false] at h1 h2 ⊢
    cases s <;> cases s' <;> simp only [Sd.other] at * <;> st_norm at h1 h2 ⊢ <;> grind

/-! ### projections of `unindex` / `oustState` / `indexOid` -/
@[simp] theorem oids_unindex (st : St) (s r p s') : (unindex st s r p).oids s' = if s' = s then AL.erase (st.oids s) r else st.oids s' := by
  unfold unindex; split <;> simp
@[simp] theorem ents_unindex (st : St) (s r p) : (unindex st s r p).ents = st.ents := by unfold unindex; split <;> simp
@[simp] theorem cs_unindex (st : St) (s r p) : (unindex st s r p).cs = st.cs := by unfold unindex; split <;> simp
@[simp] theorem side_unindex (st : St) (s r p i s') : (unindex st s r p).side i s' = st.side i s' := by unfold unindex; split <;> simp

@[simp] theorem oids_oustState (st : St) (p s s') : (oustState st p s).oids s' = st.oids s' := by simp [oustState]
@[simp] theorem len_oustState (st : St) (p s) : (oustState st p s).ents.length = st.ents.length := by simp [oustState]
theorem side_oustState (st : St) (p s i s') :
    (oustState st p s).side i s' = if i = p ∧ s' = s ∧ p < st.ents.length then { st.side p s with oid := none } else st.side i s' := by
  unfold oustState; rw [side_modSide]; simp

@[simp] theorem len_indexOid (st : St) (e s k) : (indexOid st e s k).ents.length = st.ents.length := by
  unfold indexOid; simp only []; split <;> simp
theorem side_indexOid (st : St) (e s k i s') :
    (indexOid st e s k).side i s' = if i = e ∧ s' = s ∧ e < st.ents.length then { st.side e s with oid := k } else st.side i s' := by
  unfold indexOid; simp only []; split <;> (st_norm; try rfl)
@[simp] theorem cs_indexOid (st : St) (e s k) : (indexOid st e s k).cs = st.cs := by
  unfold indexOid; simp only []; split <;> simp
theorem lookupOid_indexOid (st : St) (e s k) : (indexOid st e s k).lookupOid s k = some e := by
  unfold indexOid St.lookupOid; simp only []; split <;> simp [AL.get_set]

/-- what an operation may do to the fields the directory-move bookkeeping reads: nothing, except to the `path` of `t` -/
def Frame (t : Option (Nat × Sd)) (st st' : St) : Prop :=
  st'.ents.length = st.ents.length ∧
  ∀ i s, (st'.side i s).otype = (st.side i s).otype ∧ (some (i, s) ≠ t → (st'.side i s).path = (st.side i s).path)

theorem Frame.refl (t) (st : St) : Frame t st st := ⟨rfl, fun _ _ => ⟨rfl, fun _ => rfl⟩⟩
theorem Frame.trans {t st st' st''} (h1 : Frame t st st') (h2 : Frame t st' st'') : Frame t st st'' :=
  ⟨h2.1.trans h1.1, fun i s => ⟨((h2.2 i s).1).trans (h1.2 i s).1, fun hn => ((h2.2 i s).2 hn).trans ((h1.2 i s).2 hn)⟩⟩
theorem Frame.weaken {t st st'} (h : Frame none st st') : Frame t st st' :=
  ⟨h.1, fun i s => ⟨(h.2 i s).1, fun _ => (h.2 i s).2 (by simp)⟩⟩
/-- a modification that touches neither `otype` nor `path` -/
theorem Frame.of_sides {st st' : St} (hl : st'.ents.length = st.ents.length)
    (h : ∀ i s, (st'.side i s).otype = (st.side i s).otype ∧ (st'.side i s).path = (st.side i s).path) : Frame none st st' :=
  ⟨hl, fun i s => ⟨(h i s).1, fun _ => (h i s).2⟩⟩

theorem frame_unindex (st : St) (s r p) : Frame none st (unindex st s r p) := Frame.of_sides (by simp) (by simp)
theorem frame_oustState (st : St) (p s) : Frame none st (oustState st p s) := by
  refine Frame.of_sides (by simp) (fun i s' => ?_)
  rw [side_oustState]; split
  · next h => obtain ⟨h1, h2, _⟩ := h; subst h1; subst h2; simp
  · simp
theorem frame_indexOid (st : St) (e s k) : Frame none st (indexOid st e s k) := by
  refine Frame.of_sides (by simp) (fun i s' => ?_)
  rw [side_indexOid]; split
  · next h => obtain ⟨h1, h2, _⟩ := h; subst h1; subst h2; simp
  · simp

/-- outcome of one `remove_oid` iteration (state.py:882-895) -/
theorem removeOne_spec {R : Prop} {setF : SetF} (hO : OustOk R setF) {X : Ex2} {st : St} (hI : Idx X st) (hP : Pend st)
    (s : Sd) (e : Nat) (r : Oid) (hxe : X e s) :
    (R ∧ (removeOne setF s e r st).1 = .error .recursion) ∨
    ((removeOne setF s e r st).1 = .ok () ∧ Idx X (removeOne setF s e r st).2 ∧ Pend (removeOne setF s e r st).2 ∧
      AL.get ((removeOne setF s e r st).2.oids s) r = none ∧
      (∀ k, AL.get (st.oids s) k = none → AL.get ((removeOne setF s e r st).2.oids s) k = none) ∧
      (∀ s', (removeOne setF s e r st).2.side e s' = st.side e s') ∧
      Frame none st (removeOne setF s e r st).2) := by
  rw [removeOne_eq]
  cases hg : AL.get (st.oids s) r with
  | none =>
    dsimp only
    right
    refine ⟨?_, hI, hP, hg, ?_, ?_, ?_⟩
    · rfl
    · exact fun k hk => hk
    · exact fun _ => rfl
    · exact Frame.refl _ _
  | some p =>
    obtain ⟨hI1, hC⟩ := hI.unindex hg
    have hP1 : Pend (unindex st s r p) := hP.congr (by simp) (by simp)
    have hpo := hI.oidSlot s r p hg
    dsimp only
    by_cases hp : p = e
    · subst hp
      simp only [ne_eq, not_true_eq_false, if_false]
      refine Or.inr ⟨?_, hI1.mono ?_, hP1, ?_, ?_, fun _ => by simp, frame_unindex ..⟩
      · first | rfl | trivial
      · intro i s' hx; rcases hx with hx | ⟨h1, h2⟩
        · exact hx
        · subst h1; subst h2; exact hxe
      · simp [AL.get_erase]
      · intro k hk; simp [AL.get_erase, hk]
    · simp only [ne_eq, hp, not_false_eq_true, if_true]
      rcases hO p s (unindex st s r p) (by simp [hpo, AL.get_erase]) (by simp [AL.get_erase, hI.oidKey s]) with hr | hr
      · exact Or.inl hr
      · rw [hr]
        refine Or.inr ⟨?_, hI1.oust hC, hP1.oust p s, ?_, ?_, ?_, (frame_unindex ..).trans (frame_oustState ..)⟩
        · first | rfl | trivial
        · simp [AL.get_erase]
        · intro k hk; simp [AL.get_erase, hk]
        · intro s'; rw [side_oustState]
          have : ¬ (e = p ∧ s' = s ∧ p < (unindex st s r p).ents.length) := fun h => hp h.1.symm
          rw [if_neg this]; simp

theorem Sd.eq_or_other (s s' : Sd) : s' = s ∨ s' = s.other := by cases s <;> cases s' <;> simp [Sd.other]

theorem Pend.index {st} (h : Pend st) (e : Nat) (s : Sd) (k : Path.Str) :
    Pend (oidCsRule (indexOid st e s (some k)) e s (some k)) := by
  have hch : ∀ j s'', ((indexOid st e s (some k)).side j s'').changed = (st.side j s'').changed := by
    intro j s''; rw [side_indexOid]; split
    · next hh => obtain ⟨h1, h2, _⟩ := hh; subst h1; subst h2; rfl
    · rfl
  have hoid : ∀ j s'', j ≠ e → ((indexOid st e s (some k)).side j s'').oid = (st.side j s'').oid := by
    intro j s'' hj; rw [side_indexOid]; split
    · next hh => exact absurd hh.1 hj
    · rfl
  intro i ⟨s', h1, h2⟩
  rw [side_oidCsRule] at h1 h2
  rw [hch] at h1
  simp only [oidCsRule, hch]
  by_cases hie : i = e
  · subst hie
    have : ((st.side i s).changed.truthy || (st.side i s.other).changed.truthy) = true := by
      rcases Sd.eq_or_other s s' with hs | hs <;> subst hs <;> simp [h1]
    simp [this]
  · rw [hoid i s' hie] at h2
    have := h i ⟨s', h1, h2⟩
    split <;> simp [this]

/-! ### `ent[side].oid = v` -/

theorem changeOid_eq (setF : SetF) (s : Sd) (e : Nat) (v : Oid) (st : St) :
    changeOid setF s e v st =
      match removeOne setF s e (st.side e s).oid st with
      | (.error x, s1) => (.error x, s1)
      | (.ok _, s1) =>
        match whenM (decide (v ≠ (st.side e s).oid)) (removeOne setF s e v) s1 with
        | (.error x, s2) => (.error x, s2)
        | (.ok _, s2) => (.ok (), oidCsRule (if v.isSome then indexOid s2 e s v else s2) e s v) := by
  simp only [changeOid, M.bind_apply, getSt_apply]
  cases removeOne setF s e (st.side e s).oid st with
  | mk r1 s1 =>
    cases r1 with
    | error x => rfl
    | ok u =>
      simp only
      cases whenM (decide (v ≠ (st.side e s).oid)) (removeOne setF s e v) s1 with
      | mk r2 s2 =>
        cases r2 with
        | error x => rfl
        | ok u2 =>
          cases v with
          | none => simp [whenM]
          | some k => simp [whenM, assertM_apply, lookupOid_indexOid]

theorem sideSetBody_oid_eq (setF : SetF) (cfg : Cfg) (e : Nat) (s : Sd) (v : Oid) (st : St) :
    sideSetBody setF cfg e s (.oid v) st =
      match changeOid setF s e v st with
      | (.error x, s3) => (.error x, s3)
      | (.ok _, s3) => (.ok (), (s3.dirtyAdd e).modSide e s (fun x => { x with oid := v })) := by
  simp only [sideSetBody, updatedSide, M.bind_apply, modifySt_apply]
  cases changeOid setF s e v st with
  | mk r s3 => cases r <;> rfl

/-- `whenM c (removeOne …)` -/
theorem whenRemove_spec {R : Prop} {setF : SetF} (hO : OustOk R setF) {X : Ex2} {st : St} (hI : Idx X st) (hP : Pend st)
    (s : Sd) (e : Nat) (r : Oid) (c : Bool) (hxe : X e s) :
    (R ∧ (whenM c (removeOne setF s e r) st).1 = .error .recursion) ∨
    ((whenM c (removeOne setF s e r) st).1 = .ok () ∧ Idx X (whenM c (removeOne setF s e r) st).2 ∧
      Pend (whenM c (removeOne setF s e r) st).2 ∧
      (c = true → AL.get ((whenM c (removeOne setF s e r) st).2.oids s) r = none) ∧
      (∀ k, AL.get (st.oids s) k = none → AL.get ((whenM c (removeOne setF s e r) st).2.oids s) k = none) ∧
      (∀ s', (whenM c (removeOne setF s e r) st).2.side e s' = st.side e s') ∧
      Frame none st (whenM c (removeOne setF s e r) st).2) := by
  cases c with
  | true =>
    simp only [whenM, if_true]
    rcases removeOne_spec hO hI hP s e r hxe with h | ⟨a0, a1, a2, a3, a4, a5, a6⟩
    · exact Or.inl h
    · exact Or.inr ⟨a0, a1, a2, fun _ => a3, a4, a5, a6⟩
  | false =>
    simp only [whenM, Bool.false_eq_true, if_false, M.pure_apply]
    refine Or.inr ⟨?_, hI, hP, ?_, ?_, ?_, ?_⟩
    · first | rfl | trivial
    · intro h; cases h
    · exact fun k hk => hk
    · intro s'; first | rfl | trivial
    · exact Frame.refl _ _

/-- `ent[side].oid = v` keeps the invariant (for any exemption set), and only touches `oid` fields, the id/path
    indexes of that side, the pending set and the dirty set -/
theorem sideSet_oid_spec {R : Prop} {setF : SetF} (hO : OustOk R setF) (cfg : Cfg) {X0 : Ex2} {st : St} (hI : Idx X0 st) (hP : Pend st)
    (e : Nat) (s : Sd) (v : Oid) (hlt : e < st.ents.length) :
    (R ∧ (sideSetBody setF cfg e s (.oid v) st).1 = .error .recursion) ∨
    ((sideSetBody setF cfg e s (.oid v) st).1 = .ok () ∧ Idx X0 (sideSetBody setF cfg e s (.oid v) st).2 ∧
      Pend (sideSetBody setF cfg e s (.oid v) st).2 ∧ Frame none st (sideSetBody setF cfg e s (.oid v) st).2) := by
  have hI1 : Idx (X0.add e s) st := hI.mono (fun i s' h => Or.inl h)
  have hxe : (X0.add e s) e s := Or.inr ⟨rfl, rfl⟩
  rw [sideSetBody_oid_eq, changeOid_eq]
  rcases removeOne_spec hO hI1 hP s e (st.side e s).oid hxe with hrec | ⟨hok, hI2, hP2, hg1, hmono1, hside1, hfr1⟩
  · cases hr1 : removeOne setF s e (st.side e s).oid st with
    | mk r1 st1 => rw [hr1] at hrec; simp only at hrec; obtain ⟨hR, hrec⟩ := hrec; subst hrec; exact Or.inl ⟨hR, rfl⟩
  · cases hr1 : removeOne setF s e (st.side e s).oid st with
    | mk r1 st1 =>
      rw [hr1] at hok hI2 hP2 hg1 hmono1 hside1 hfr1
      simp only at hok hI2 hP2 hg1 hmono1 hside1 hfr1
      subst hok
      simp only
      rcases whenRemove_spec hO hI2 hP2 s e v (decide (v ≠ (st.side e s).oid)) hxe with hrec | ⟨hok, hI3, hP3, hfree, hmono2, hside2, hfr2⟩
      · cases hr2 : whenM (decide (v ≠ (st.side e s).oid)) (removeOne setF s e v) st1 with
        | mk r2 st2 => rw [hr2] at hrec; simp only at hrec; obtain ⟨hR, hrec⟩ := hrec; subst hrec; exact Or.inl ⟨hR, rfl⟩
      · cases hr2 : whenM (decide (v ≠ (st.side e s).oid)) (removeOne setF s e v) st1 with
        | mk r2 st2 =>
          rw [hr2] at hok hI3 hP3 hfree hmono2 hside2 hfr2
          simp only at hok hI3 hP3 hfree hmono2 hside2 hfr2
          subst hok
          simp only
          have hgone : AL.get (st2.oids s) (st2.side e s).oid = none := by
            rw [hside2 s, hside1 s]; exact hmono2 _ hg1
          have hlen : e < st2.ents.length := by rw [hfr2.1, hfr1.1]; exact hlt
          have hcl : Clean st2 e s := hI3.clean_of hgone
          right
          cases v with
          | none =>
            simp only [Option.isSome_none, Bool.false_eq_true, if_false]
            refine ⟨by first | rfl | trivial, Idx.oust hI3 hcl, hP3.oust e s, hfr1.trans (hfr2.trans (frame_oustState ..))⟩
          | some k =>
            simp only [Option.isSome_some, if_true]
            have hfree' : AL.get (st2.oids s) (some k) = none := by
              by_cases hne : some k ≠ (st.side e s).oid
              · exact hfree (by simp [hne])
              · have heq : some k = (st.side e s).oid := Decidable.not_not.mp hne
                rw [heq]; exact hmono2 _ hg1
            have hI4 : Idx X0 (indexOid st2 e s (some k)) := Idx.indexOid hI3 hcl hfree' hlen
            refine ⟨by first | rfl | trivial, ?_, ?_, ?_⟩
            · refine Idx.congr (X := X0) (st := indexOid st2 e s (some k)) hI4 (by simp) (by simp) (by simp) ?_
              intro i s'
              rw [side_modSide]; simp only [side_dirtyAdd, side_oidCsRule]
              split
              · next hh =>
                obtain ⟨h1, h2, _⟩ := hh; subst h1; subst h2
                rw [side_indexOid]; simp [hlen]
              · exact ⟨rfl, rfl⟩
            · refine Pend.congr (Pend.index hP3 e s k) (by simp) ?_
              intro i s'
              rw [side_modSide]; simp only [side_dirtyAdd]
              split
              · next hh =>
                obtain ⟨h1, h2, _⟩ := hh; subst h1; subst h2
                rw [side_oidCsRule, side_indexOid]; simp [hlen]
              · exact ⟨rfl, rfl⟩
            · refine hfr1.trans (hfr2.trans ((frame_indexOid st2 e s (some k)).trans ?_))
              refine Frame.of_sides (by simp) (fun i s' => ?_)
              rw [side_modSide]; simp only [side_dirtyAdd, side_oidCsRule]
              split
              · next hh => obtain ⟨h1, h2, _⟩ := hh; subst h1; subst h2; simp
              · simp

end CS.State
