import Csverif.Proofs.Lock
import Csverif.Model.LockId
/- C15 lock identity: with a stable lock identity (no `rebind`) the lock-object model (Model/LockId.lean) is bisimilar, up to the
   stutter step "start waiting", to the one-lock model (Model/Lock.lean). -/
namespace CS.LockId
open CS.Lock (Tid Loc Val upd)

/-- the one-lock state seen when only lock object 0 matters -/
def proj (s : MState) : CS.Lock.State :=
  { store := s.store, owner := s.owner 0, depth := s.depth 0, code := fun t => (s.code t).map toAct, obs := s.obs }

theorem code_upd (c : MProg) (t : Tid) (rest : List MAct) :
    (fun u => (upd c t rest u).map toAct) = upd (fun u => (c u).map toAct) t (rest.map toAct) := by
  funext u
  by_cases h : u = t
  · subst h; simp
  · simp [h]

structure MInv (s : MState) : Prop where
  hcur : s.cur = 0
  hwait : ∀ t, s.waiting t = none ∨ s.waiting t = some 0
  hstack : ∀ t, s.stack t = List.replicate (if s.owner 0 = some t then s.depth 0 else 0) 0
  hdepth : ∀ t, s.owner 0 = some t → 1 ≤ s.depth 0
  hnr : ∀ t, ∀ a ∈ s.code t, isRebind a = false

theorem minv_init {p : MProg} {σ : Loc → Val} (h : LockIdentityStable p) : MInv (minit p σ) :=
  { hcur := rfl, hwait := fun _ => Or.inl rfl, hstack := fun _ => by simp [minit],
    hdepth := fun _ h0 => by simp [minit] at h0, hnr := h }

theorem proj_init (p : MProg) (σ : Loc → Val) : proj (minit p σ) = CS.Lock.init (toProg p) σ := rfl

theorem key_zero {s : MState} (hi : MInv s) (t : Tid) : (s.waiting t).getD s.cur = 0 := by
  rcases hi.hwait t with h | h <;> simp [h, hi.hcur]

theorem hnr_tail {s : MState} (hi : MInv s) {t : Tid} {a : MAct} {rest : List MAct} (hc : s.code t = a :: rest) :
    ∀ u, ∀ b ∈ upd s.code t rest u, isRebind b = false := by
  intro u b hb
  by_cases h : u = t
  · subst h
    simp at hb
    exact hi.hnr u b (by rw [hc]; simp [hb])
  · simp [h] at hb
    exact hi.hnr u b hb

/-- forward simulation: an M-step is either the stutter "start waiting" (not enabled in the one-lock model, projection
    unchanged) or a step of the one-lock model -/
theorem fwd {s s' : MState} {t : Tid} (hi : MInv s) (h : mstep s t = some s') :
    MInv s' ∧ ((proj s' = proj s ∧ CS.Lock.step (proj s) t = none) ∨ CS.Lock.step (proj s) t = some (proj s')) := by
  have hk := key_zero hi t
  unfold mstep at h
  cases hc : s.code t with
  | nil => simp [hc] at h
  | cons a rest =>
    have hpc : (proj s).code t = toAct a :: rest.map toAct := by simp [proj, hc]
    have hnr' := hnr_tail hi hc
    cases a with
    | acquire =>
      simp only [hc, hk] at h
      cases ho : s.owner 0 with
      | none =>
        simp only [ho] at h
        cases h
        refine ⟨{ hcur := hi.hcur, hwait := ?_, hstack := ?_, hdepth := ?_, hnr := hnr' }, Or.inr ?_⟩
        · intro u
          by_cases hu : u = t
          · subst hu; simp
          · simp [hu]; exact hi.hwait u
        · intro u
          have hsu := hi.hstack u
          simp [ho] at hsu
          by_cases hu : u = t
          · subst hu; simp [hsu]
          · have : ¬ (t = u) := fun e => hu e.symm
            simp [hu, this, hsu]
        · intro u _; simp
        · unfold CS.Lock.step
          rw [hpc]
          simp [toAct, proj, ho, code_upd]
      | some o =>
        simp only [ho] at h
        by_cases hot : o = t
        · subst hot
          simp at h
          cases h
          refine ⟨{ hcur := hi.hcur, hwait := ?_, hstack := ?_, hdepth := ?_, hnr := hnr' }, Or.inr ?_⟩
          · intro u
            by_cases hu : u = o
            · subst hu; simp
            · simp [hu]; exact hi.hwait u
          · intro u
            have hsu := hi.hstack u
            by_cases hu : u = o
            · subst hu
              simp [ho] at hsu ⊢
              rw [hsu, List.replicate_succ]
            · have : ¬ (o = u) := fun e => hu e.symm
              simp [ho, this] at hsu
              simp [hu, ho, this, hsu]
          · intro u _; simp
          · unfold CS.Lock.step
            rw [hpc]
            simp [toAct, proj, ho, code_upd]
        · simp only [hot, if_false] at h
          by_cases hw : s.waiting t = none
          · simp only [hw, if_true] at h
            cases h
            refine ⟨{ hcur := hi.hcur, hwait := ?_, hstack := hi.hstack, hdepth := hi.hdepth, hnr := hi.hnr }, Or.inl ⟨rfl, ?_⟩⟩
            · intro u
              by_cases hu : u = t
              · subst hu; simp
              · simp [hu]; exact hi.hwait u
            · unfold CS.Lock.step
              rw [hpc]
              simp [toAct, proj, ho, hot]
          · simp [hw] at h
    | release =>
      simp only [hc] at h
      have hst := hi.hstack t
      cases hs : s.stack t with
      | nil => simp [hs] at h
      | cons k ks =>
        simp only [hs] at h
        -- the stack is a replicate of zeros: k = 0, the thread owns object 0
        have hown : s.owner 0 = some t := by
          by_cases ho : s.owner 0 = some t
          · exact ho
          · simp [ho, hs] at hst
        have hd1 := hi.hdepth t hown
        rw [hs] at hst
        simp only [hown, if_true] at hst
        obtain ⟨n, hn⟩ : ∃ n, s.depth 0 = n + 1 := ⟨s.depth 0 - 1, by omega⟩
        rw [hn, List.replicate_succ] at hst
        have hk0 : k = 0 := (List.cons.inj hst).1
        have hks : ks = List.replicate n 0 := (List.cons.inj hst).2
        subst hk0
        simp only [hown, if_true] at h
        by_cases hd : s.depth 0 ≤ 1
        · simp only [hd, if_true] at h
          cases h
          have hn0 : n = 0 := by omega
          subst hn0
          refine ⟨{ hcur := hi.hcur, hwait := hi.hwait, hstack := ?_, hdepth := ?_, hnr := hnr' }, Or.inr ?_⟩
          · intro u
            by_cases hu : u = t
            · subst hu; simp [hks]
            · have hsu := hi.hstack u
              have : ¬ (t = u) := fun e => hu e.symm
              simp [hown, this] at hsu
              simp [hu, hsu]
          · intro u h0; simp at h0
          · unfold CS.Lock.step
            rw [hpc]
            simp [toAct, proj, hown, hd, code_upd]
        · simp only [hd, if_false] at h
          cases h
          refine ⟨{ hcur := hi.hcur, hwait := hi.hwait, hstack := ?_, hdepth := ?_, hnr := hnr' }, Or.inr ?_⟩
          · intro u
            by_cases hu : u = t
            · subst hu
              simp [hown, hks, hn]
            · have hsu := hi.hstack u
              have : ¬ (t = u) := fun e => hu e.symm
              simp [hown, this] at hsu
              simp [hu, hown, this, hsu]
          · intro u _; simp; omega
          · unfold CS.Lock.step
            rw [hpc]
            simp [toAct, proj, hown, hd, code_upd]
    | rebind =>
      have := hi.hnr t .rebind (by rw [hc]; simp)
      simp [isRebind] at this
    | read l =>
      simp only [hc] at h
      cases h
      refine ⟨{ hcur := hi.hcur, hwait := hi.hwait, hstack := hi.hstack, hdepth := hi.hdepth, hnr := hnr' }, Or.inr ?_⟩
      unfold CS.Lock.step
      rw [hpc]
      simp [toAct, proj, code_upd]
    | write l f =>
      simp only [hc] at h
      cases h
      refine ⟨{ hcur := hi.hcur, hwait := hi.hwait, hstack := hi.hstack, hdepth := hi.hdepth, hnr := hnr' }, Or.inr ?_⟩
      unfold CS.Lock.step
      rw [hpc]
      simp [toAct, proj, code_upd]
    | other =>
      simp only [hc] at h
      cases h
      refine ⟨{ hcur := hi.hcur, hwait := hi.hwait, hstack := hi.hstack, hdepth := hi.hdepth, hnr := hnr' }, Or.inr ?_⟩
      unfold CS.Lock.step
      rw [hpc]
      simp [toAct, proj, code_upd]

/-- a step enabled in the one-lock model is enabled in the lock-object model -/
theorem enabled {s : MState} {t : Tid} {x : CS.Lock.State} (hi : MInv s) (h : CS.Lock.step (proj s) t = some x) :
    ∃ s', mstep s t = some s' := by
  have hk := key_zero hi t
  cases hc : s.code t with
  | nil =>
    unfold CS.Lock.step at h
    simp [proj, hc] at h
  | cons a rest =>
    have hpc : (proj s).code t = toAct a :: rest.map toAct := by simp [proj, hc]
    unfold CS.Lock.step at h
    rw [hpc] at h
    unfold mstep
    cases a with
    | acquire =>
      simp only [hc, hk]
      cases ho : s.owner 0 with
      | none => exact ⟨_, rfl⟩
      | some o =>
        by_cases hot : o = t
        · simp [hot]
        · simp [toAct, proj, ho, hot] at h
    | release =>
      simp only [hc]
      have hown : s.owner 0 = some t := by
        cases ho : s.owner 0 with
        | none => simp [toAct, proj, ho] at h
        | some o =>
          by_cases hot : o = t
          · rw [hot]
          · simp [toAct, proj, ho, hot] at h
      have hst := hi.hstack t
      have hd1 := hi.hdepth t hown
      simp only [hown, if_true] at hst
      obtain ⟨n, hn⟩ : ∃ n, s.depth 0 = n + 1 := ⟨s.depth 0 - 1, by omega⟩
      rw [hn, List.replicate_succ] at hst
      rw [hst]
      simp only [hown, if_true]
      by_cases hd : n + 1 ≤ 1
      · simp [hn, hd]
      · simp [hn, hd]
    | rebind =>
      have := hi.hnr t .rebind (by rw [hc]; simp)
      simp [isRebind] at this
    | read l => simp [hc]
    | write l f => simp [hc]
    | other => simp [hc]

/-- backward simulation -/
theorem bwd {s : MState} {t : Tid} {x : CS.Lock.State} (hi : MInv s) (h : CS.Lock.step (proj s) t = some x) :
    ∃ s', mstep s t = some s' ∧ proj s' = x ∧ MInv s' := by
  obtain ⟨s', hs'⟩ := enabled hi h
  obtain ⟨hi', hcase⟩ := fwd hi hs'
  rcases hcase with ⟨_, hnone⟩ | hsome
  · rw [hnone] at h; cases h
  · rw [hsome] at h
    exact ⟨s', hs', Option.some.inj h, hi'⟩

/-- every run of the lock-object model projects to a run of the one-lock model (the stutter steps disappear) -/
theorem run_fwd : ∀ (sched : List Tid) (s s' : MState), MInv s → mrun s sched = some s' →
    ∃ sched1, CS.Lock.run (proj s) sched1 = some (proj s')
  | [], s, s', _, h => by
    simp [mrun] at h; subst h; exact ⟨[], rfl⟩
  | t :: rest, s, s', hi, h => by
    simp only [mrun] at h
    cases hs : mstep s t with
    | none => simp [hs] at h
    | some s1 =>
      simp only [hs] at h
      obtain ⟨hi1, hcase⟩ := fwd hi hs
      obtain ⟨sched1, h1⟩ := run_fwd rest s1 s' hi1 h
      rcases hcase with ⟨heq, _⟩ | hstep
      · exact ⟨sched1, by rw [← heq]; exact h1⟩
      · exact ⟨t :: sched1, by simp [CS.Lock.run, hstep, h1]⟩

/-- every run of the one-lock model is a run of the lock-object model with the same schedule, and serial stays serial -/
theorem run_bwd : ∀ (sched : List Tid) (s : MState) (x : CS.Lock.State), MInv s → CS.Lock.run (proj s) sched = some x →
    CS.Lock.Serial (proj s) sched → ∃ s', mrun s sched = some s' ∧ proj s' = x ∧ MSerial s sched
  | [], s, x, _, h, _ => by
    simp [CS.Lock.run] at h; subst h; exact ⟨s, rfl, rfl, trivial⟩
  | t :: rest, s, x, hi, h, hser => by
    simp only [CS.Lock.run] at h
    cases hs : CS.Lock.step (proj s) t with
    | none => simp [hs] at h
    | some y =>
      simp only [hs] at h
      obtain ⟨s1, hm, hp, hi1⟩ := bwd hi hs
      simp only [CS.Lock.Serial, hs] at hser
      subst hp
      obtain ⟨s', hr, hp', hms⟩ := run_bwd rest s1 x hi1 h hser.2
      refine ⟨s', by simp [mrun, hm, hr], hp', ?_⟩
      simp only [MSerial, hm]
      refine ⟨?_, hms⟩
      have := hser.1
      simpa [proj, hi.hcur] using this

end CS.LockId
