import Csverif.Proofs.StateHook
/-
C11: the loader (state.py:725-745 after commit eec8a73).  A state rebuilt from stored entries whose ids are pairwise different per
side satisfies the invariant; the entries that `storage_commit` of a state satisfying the invariant writes (everything reachable
from the id indexes, each once) are of that kind.
-/
namespace CS.State

/-- the loader's treatment of one side of entry `i` -/
def loadSide (st : St) (i : Nat) (s : Sd) : St :=
  let sd := st.side i s
  if sd.oid.isNone then st else
    let st := if truthyS sd.path then st.setPathSlot s sd.path sd.oid i else st
    let st := st.setOids s (AL.set (st.oids s) sd.oid i)
    if sd.changed.truthy then st.csAdd i else st

theorem loadOne_eq (st : St) (i : Nat) : loadOne st i = loadSide (loadSide st i .L) i .R := rfl

@[simp] theorem ents_loadSide (st : St) (i : Nat) (s : Sd) : (loadSide st i s).ents = st.ents := by
  unfold loadSide; dsimp only; split
  · rfl
  · split <;> split <;> simp
@[simp] theorem side_loadSide (st : St) (i : Nat) (s : Sd) (j : Nat) (s' : Sd) : (loadSide st i s).side j s' = st.side j s' := by
  simp [St.side, St.ent]
@[simp] theorem moving_loadSide (st : St) (i : Nat) (s : Sd) : (loadSide st i s).moving = st.moving := by
  unfold loadSide; dsimp only; split
  · rfl
  · split <;> split <;> simp [St.setPathSlot, St.csAdd, St.setOids, St.setPaths] <;> cases s <;> rfl

/-- loop invariant of the loader: `X` = the entry sides not yet loaded -/
structure LJ (X : Ex2) (st : St) : Prop where
  idx : Idx X st
  /-- no slot names a side that is not loaded yet -/
  fut : ∀ s key j, AL.get (st.oids s) key = some j → ¬ X j s
  /-- pending = exactly the loaded entries with a change flag on a side that has an id -/
  pendC : ∀ i s, ¬ X i s → (st.side i s).oid ≠ none → (st.side i s).changed.truthy = true → i ∈ st.cs
  pendS : ∀ i, i ∈ st.cs → ∃ s, ¬ X i s ∧ (st.side i s).oid ≠ none ∧ (st.side i s).changed.truthy = true

theorem LJ.congrX {X X' : Ex2} {st : St} (h : LJ X st) (hx : ∀ i s, X' i s ↔ X i s) : LJ X' st :=
  ⟨h.idx.mono (fun i s hh => (hx i s).2 hh) |>.mono (fun _ _ hh => hh),
   fun s key j hk hh => h.fut s key j hk ((hx j s).1 hh),
   fun i s hn => h.pendC i s (fun hh => hn ((hx i s).2 hh)),
   fun i hi => by obtain ⟨s, h1, h2⟩ := h.pendS i hi; exact ⟨s, fun hh => h1 ((hx i s).1 hh), h2⟩⟩

/-- one side is loaded; its id is carried by no other entry on that side -/
theorem LJ.loadSide {X : Ex2} {st : St} {i : Nat} {s : Sd} (h : LJ (X.add i s) st) (hx : ¬ X i s)
    (hd : ∀ j, (st.side i s).oid ≠ none → (st.side j s).oid = (st.side i s).oid → j = i) (hlt : i < st.ents.length) :
    LJ X (loadSide st i s) := by
  obtain ⟨⟨b1, b2, b3, b4, b5, b6, b7⟩, hf, hc, hs⟩ := h
  unfold Ex2.add at b6 b7 hf hc hs
  unfold CS.State.loadSide
  dsimp only
  cases ho : (st.side i s).oid with
  | none =>
    simp only [Option.isNone_none, if_true]
    refine ⟨⟨b1, b2, b3, b4, b5, ?_, ?_⟩, ?_, ?_, ?_⟩
    · intro j s' hxj hoj; grind
    · intro j s' hxj hoj; grind
    · intro s' key j hk hxj; exact hf s' key j hk (Or.inl hxj)
    · intro j s' hxj hoj; grind
    · intro j hj; obtain ⟨s', h1, h2⟩ := hs j hj; exact ⟨s', fun hh => h1 (Or.inl hh), h2⟩
  | some k =>
    simp only [Option.isNone_some, Bool.false_eq_true, if_false]
    have hfree : AL.get (st.oids s) (some k) = none := by
      cases hg : AL.get (st.oids s) (some k) with
      | none => rfl
      | some j =>
        have h1 := b3 s _ j hg
        have : j = i := hd j (by rw [ho]; simp) (by rw [h1, ho])
        subst this
        exact absurd (Or.inr ⟨rfl, rfl⟩) (hf s _ j hg)
    have hnoslot : ∀ p, st.slot s p (some k) = none := by
      intro p
      cases hg : st.slot s p (some k) with
      | none => rfl
      | some j => have := (b5 s p _ j hg).2.2; rw [hfree] at this; cases this
    by_cases ht : truthyS (st.side i s).path = true
    · simp only [ht, if_true]
      have hpk : PathKeyOk (st.setPathSlot s (st.side i s).path (some k) i) := b4.setSlot _ _ _ _ ht hlt
      by_cases hch : (st.side i s).changed.truthy = true
      · simp only [hch, if_true]
        refine ⟨⟨?_, ?_, ?_, hpk.congr (by simp) (by simp), ?_, ?_, ?_⟩, ?_, ?_, ?_⟩
        · intro s' k' j hk; st_norm at hk ⊢; grind
        · intro s'; st_norm; grind
        · intro s' k' j hk; st_norm at hk ⊢; grind
        · intro s' p' k' j hk; st_norm at hk ⊢; grind
        · intro j s' hxj hoj; st_norm at hoj ⊢; grind
        · intro j s' hxj hoj ht2; st_norm at hoj ht2 ⊢; grind
        · intro s' key j hk; st_norm at hk; grind
        · intro j s' hxj hoj hcj; st_norm at hoj hcj ⊢; grind
        · intro j hj; st_norm at hj ⊢; grind
      · simp only [hch, Bool.false_eq_true, if_false]
        refine ⟨⟨?_, ?_, ?_, hpk.congr (by simp) (by simp), ?_, ?_, ?_⟩, ?_, ?_, ?_⟩
        · intro s' k' j hk; st_norm at hk ⊢; grind
        · intro s'; st_norm; grind
        · intro s' k' j hk; st_norm at hk ⊢; grind
        · intro s' p' k' j hk; st_norm at hk ⊢; grind
        · intro j s' hxj hoj; st_norm at hoj ⊢; grind
        · intro j s' hxj hoj ht2; st_norm at hoj ht2 ⊢; grind
        · intro s' key j hk; st_norm at hk; grind
        · intro j s' hxj hoj hcj; st_norm at hoj hcj ⊢; grind
        · intro j hj; st_norm at hj ⊢; grind
    · simp only [ht, Bool.false_eq_true, if_false]
      by_cases hch : (st.side i s).changed.truthy = true
      · simp only [hch, if_true]
        refine ⟨⟨?_, ?_, ?_, b4.congr (by simp) (by simp), ?_, ?_, ?_⟩, ?_, ?_, ?_⟩
        · intro s' k' j hk; st_norm at hk ⊢; grind
        · intro s'; st_norm; grind
        · intro s' k' j hk; st_norm at hk ⊢; grind
        · intro s' p' k' j hk; st_norm at hk ⊢; grind
        · intro j s' hxj hoj; st_norm at hoj ⊢; grind
        · intro j s' hxj hoj ht2; st_norm at hoj ht2 ⊢; grind
        · intro s' key j hk; st_norm at hk; grind
        · intro j s' hxj hoj hcj; st_norm at hoj hcj ⊢; grind
        · intro j hj; st_norm at hj ⊢; grind
      · simp only [hch, Bool.false_eq_true, if_false]
        refine ⟨⟨?_, ?_, ?_, b4.congr (by simp) (by simp), ?_, ?_, ?_⟩, ?_, ?_, ?_⟩
        · intro s' k' j hk; st_norm at hk ⊢; grind
        · intro s'; st_norm; grind
        · intro s' k' j hk; st_norm at hk ⊢; grind
        · intro s' p' k' j hk; st_norm at hk ⊢; grind
        · intro j s' hxj hoj; st_norm at hoj ⊢; grind
        · intro j s' hxj hoj ht2; st_norm at hoj ht2 ⊢; grind
        · intro s' key j hk; st_norm at hk; grind
        · intro j s' hxj hoj hcj; st_norm at hoj hcj ⊢; grind
        · intro j hj; st_norm at hj ⊢; grind

/-- ids are pairwise different per side -/
def OidsDistinct (st : St) : Prop :=
  ∀ i j s, (st.side i s).oid ≠ none → (st.side j s).oid = (st.side i s).oid → j = i

/-- the not-yet-loaded sides after `k` entries -/
def fromK (k : Nat) : Ex2 := fun i _ => k ≤ i

theorem LJ.loadOne {k : Nat} {st : St} (h : LJ (fromK k) st) (hd : OidsDistinct st) (hlt : k < st.ents.length) :
    LJ (fromK (k + 1)) (loadOne st k) := by
  rw [loadOne_eq]
  have h0 : LJ (((fromK (k + 1)).add k .R).add k .L) st := by
    apply h.congrX
    intro i s
    unfold Ex2.add fromK
    constructor
    · rintro ((h1 | ⟨h1, _⟩) | ⟨h1, _⟩) <;> omega
    · intro h1
      by_cases hik : i = k
      · subst hik; cases s
        · exact Or.inr ⟨rfl, rfl⟩
        · exact Or.inl (Or.inr ⟨rfl, rfl⟩)
      · exact Or.inl (Or.inl (by omega))
  have h1 : LJ ((fromK (k + 1)).add k .R) (CS.State.loadSide st k .L) :=
    h0.loadSide (by unfold Ex2.add fromK; rintro (h | ⟨_, h⟩) <;> first | omega | cases h) (fun j => hd k j .L) hlt
  exact h1.loadSide (by unfold fromK; omega) (fun j => by simpa using hd k j .R) (by simpa using hlt)

theorem ents_loadOne (st : St) (i : Nat) : (loadOne st i).ents = st.ents := by rw [loadOne_eq]; simp
theorem moving_loadOne (st : St) (i : Nat) : (loadOne st i).moving = st.moving := by rw [loadOne_eq]; simp

theorem OidsDistinct.loadOne {st : St} (h : OidsDistinct st) (i : Nat) : OidsDistinct (loadOne st i) := by
  intro a b s; rw [loadOne_eq]; simpa using h a b s

theorem foldl_loadOne (st0 : St) (hd : OidsDistinct st0) (h0 : LJ (fromK 0) st0) :
    ∀ k, k ≤ st0.ents.length →
      LJ (fromK k) ((List.range k).foldl loadOne st0) ∧ ((List.range k).foldl loadOne st0).ents = st0.ents ∧
      ((List.range k).foldl loadOne st0).moving = st0.moving ∧ OidsDistinct ((List.range k).foldl loadOne st0)
  | 0, _ => ⟨h0, rfl, rfl, hd⟩
  | k + 1, hk => by
    obtain ⟨h1, h2, h3, h4⟩ := foldl_loadOne st0 hd h0 k (by omega)
    rw [List.range_succ, List.foldl_append]
    simp only [List.foldl_cons, List.foldl_nil]
    exact ⟨h1.loadOne h4 (by rw [h2]; omega), by rw [ents_loadOne, h2], by rw [moving_loadOne, h3], h4.loadOne k⟩

/-- everything loaded: the invariant, and the pending set is exactly the set of entries with a change flag on a side with an id -/
theorem LJ.done {st : St} (h : LJ (fromK st.ents.length) st) :
    Inv st ∧ ∀ i, i ∈ st.cs ↔ ∃ s, (st.side i s).oid ≠ none ∧ (st.side i s).changed.truthy = true := by
  obtain ⟨⟨b1, b2, b3, b4, b5, b6, b7⟩, hf, hc, hs⟩ := h
  have hx : ∀ i s, (st.side i s).oid ≠ none → ¬ fromK st.ents.length i s := by
    intro i s ho hge
    exact ho (oid_oob st i s (by unfold fromK at hge; omega))
  refine ⟨⟨⟨b1, b2, b3, b4, b5, fun i s _ ho => b6 i s (hx i s ho) ho, fun i s _ ho => b7 i s (hx i s ho) ho⟩, ?_⟩, ?_⟩
  · rintro i ⟨s, h1, h2⟩
    have ho : (st.side i s).oid ≠ none := by intro hh; rw [hh] at h2; cases h2
    exact hc i s (hx i s ho) ho h1
  · intro i
    constructor
    · intro hi; obtain ⟨s, _, h2⟩ := hs i hi; exact ⟨s, h2⟩
    · rintro ⟨s, ho, h1⟩; exact hc i s (hx i s ho) ho h1

/-- the loader's starting state -/
theorem LJ.start (es : List Entry) (now last : Int) : LJ (fromK 0) { ents := es, now := now, last := last } := by
  refine ⟨⟨?_, ?_, ?_, ?_, ?_, ?_, ?_⟩, ?_, ?_, ?_⟩
  · intro s k i h; cases s <;> simp [St.oids, St.ix] at h
  · intro s; cases s <;> rfl
  · intro s k i h; cases s <;> simp [St.oids, St.ix] at h
  · intro s p b h; cases s <;> simp [St.paths, St.ix] at h
  · intro s p k i h; cases s <;> simp [St.slot, St.paths, St.ix] at h
  · intro i s hx; exact absurd (Nat.zero_le i) hx
  · intro i s hx; exact absurd (Nat.zero_le i) hx
  · intro s k i h; cases s <;> simp [St.oids, St.ix] at h
  · intro i s hx; exact absurd (Nat.zero_le i) hx
  · intro i hi; cases hi

/-- what is not restored from storage -/
def resetE (e : Entry) : Entry := { e with priority := 0, l := { e.l with lastGotten := 0 }, r := { e.r with lastGotten := 0 } }

theorem load_eq (now : Int) (es : List Entry) :
    load now es = (List.range (es.map resetE).length).foldl loadOne { ents := es.map resetE, now := now, last := now } := rfl

/-- **the loader establishes the invariant** from any stored entries whose ids are pairwise different per side; the rebuilt
    pending set is exactly the set of entries with a change flag on a side that has an id -/
theorem load_inv (now : Int) (es : List Entry) (hd : OidsDistinct { ents := es.map resetE, now := now, last := now }) :
    Inv (load now es) ∧ (load now es).moving = [] ∧
    ∀ i, i ∈ (load now es).cs ↔ ∃ s, ((load now es).side i s).oid ≠ none ∧ ((load now es).side i s).changed.truthy = true := by
  rw [load_eq]
  obtain ⟨h1, h2, h3, _⟩ := foldl_loadOne { ents := es.map resetE, now := now, last := now } hd (LJ.start ..) (es.map resetE).length (Nat.le_refl _)
  have h1' : LJ (fromK ((List.range (es.map resetE).length).foldl loadOne { ents := es.map resetE, now := now, last := now }).ents.length)
      ((List.range (es.map resetE).length).foldl loadOne { ents := es.map resetE, now := now, last := now }) := by rw [h2]; exact h1
  exact ⟨h1'.done.1, h3, h1'.done.2⟩

theorem nodup_setAdd {l : List Nat} (h : l.Nodup) (i : Nat) : (setAdd l i).Nodup := by
  unfold setAdd
  split
  · exact h
  · next hn => rw [List.nodup_append]; exact ⟨h, by simp, fun a ha b hb => by simp at hb; subst hb; intro hab; exact hn (hab ▸ ha)⟩

theorem nodup_dedupAppend : ∀ (l acc : List Nat), acc.Nodup → (dedupAppend acc l).Nodup
  | [], _, h => h
  | i :: t, _, h => nodup_dedupAppend t _ (nodup_setAdd h i)

theorem nodup_getAll (st : St) (d : Bool) : (st.getAll d).Nodup := by
  unfold St.getAll
  exact nodup_dedupAppend _ _ (nodup_dedupAppend _ _ List.nodup_nil)

theorem oid_resetE (e : Entry) (s : Sd) : ((resetE e).side s).oid = (e.side s).oid := by cases s <;> rfl

/-- `reload` = `storage_commit` + a new `SyncState` over the same storage: what is written is every entry reachable from the id
    indexes, each once; under the invariant their ids are pairwise different per side, so the rebuilt state satisfies the invariant -/
theorem reload_inv (st : St) (hi : Inv st) :
    Inv (reload st) ∧ (reload st).moving = [] ∧
    ∀ i, i ∈ (reload st).cs ↔ ∃ s, ((reload st).side i s).oid ≠ none ∧ ((reload st).side i s).changed.truthy = true := by
  unfold reload
  apply load_inv
  have hside : ∀ a s, (({ ents := ((st.getAll true).map st.ent).map resetE, now := st.now, last := st.now } : St).side a s).oid =
      match (st.getAll true)[a]? with
      | some x => (st.side x s).oid
      | none => none := by
    intro a s
    simp only [St.side, St.ent, List.getD_eq_getElem?_getD, List.getElem?_map]
    cases (st.getAll true)[a]? with
    | none => simp; cases s <;> rfl
    | some x => simp [oid_resetE, St.ent]
  intro a b s ho heq
  rw [hside] at ho heq
  rw [hside] at heq
  cases ha : (st.getAll true)[a]? with
  | none => rw [ha] at ho; exact absurd rfl ho
  | some x =>
    rw [ha] at ho heq
    cases hb : (st.getAll true)[b]? with
    | none => rw [hb] at heq; exact absurd heq.symm ho
    | some y =>
      rw [hb] at heq
      simp only at ho heq
      have hx := hi.1.byOid x s (fun h => h) ho
      have hy := hi.1.byOid y s (fun h => h) (by rw [heq]; exact ho)
      rw [heq, hx] at hy
      have hxy : x = y := by injection hy
      subst hxy
      have hlt : a < (st.getAll true).length := by
        apply Decidable.byContradiction; intro hge
        rw [List.getElem?_eq_none (by omega)] at ha; cases ha
      exact ((List.getElem?_inj hlt (nodup_getAll st true)).1 (ha.trans hb.symm)).symm

end CS.State
